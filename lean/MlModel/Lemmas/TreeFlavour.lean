import MlModel.Lemmas.TreeNd
/-!
# The *flavour* of an integer key (`Key.Index(i)` vs. plain `i`) — where it is observable and where not

`Index` is a subclass of `int`: `Index(i) == i` and `hash(Index(i)) == hash(i)`.  The model stores dict keys up
to `==` (`DKey`), so a key listed by `items()` for a dict child is the normal form `.int i` whatever object the
real dict holds; the harness canonicalises the real side the same way (`canon_items_path`: an element met as a
*dict key* is reported as that dict key).  The lemmas here justify that canonicalisation inside the model:

* every **read** (`getCore`, `get`, the complete `getV` incl. paths into ndarrays, multi-key `getItem`) is
  invariant under changing the flavour of any key of the path — on every heap, for every path (SELF / SKIP /
  Literal keys included);
* a **set** is invariant on every path that EXISTS (`Ex`: every key but the last addresses a stored child) —
  `setPath_flav`, `setPath_congr_flav` — and *not* on a FRESH path (`_default_tree`: `Index(0)` builds a list,
  `0` a dict; witness `C18_key_flavour_fresh_witness`), which is why flavours are kept everywhere else in the tie.
-/
namespace MlModel.Tree

/-- Forget the flavour of an integer key: `Index(i)` ↦ `i`; every other key is itself. -/
def PKey.flav : PKey → PKey
  | .idx i => .int i
  | k => k

@[simp] theorem PKey.flav_toDKey (k : PKey) : k.flav.toDKey = k.toDKey := by cases k <;> rfl
@[simp] theorem PKey.flav_asInt (k : PKey) : k.flav.asInt = k.asInt := by cases k <;> rfl
@[simp] theorem PKey.flav_flav (k : PKey) : k.flav.flav = k.flav := by cases k <;> rfl

theorem PKey.flav_eq_self_iff (k : PKey) : k.flav = .self ↔ k = .self := by cases k <;> simp [PKey.flav]
theorem PKey.flav_eq_lit_iff (k : PKey) (id : Nat) (v : Ref) : k.flav = .lit id v ↔ k = .lit id v := by
  cases k <;> simp [PKey.flav]

/-- Two keys of equal normal form address the same slot of every object. -/
theorem Node.slotGet_flav (n : Node) (k : PKey) : n.slotGet k.flav = n.slotGet k := by
  cases n <;> simp [Node.slotGet, seqGet]

theorem index_flav (h : Heap) (r : Ref) (k : PKey) : index h r k.flav = index h r k := by
  unfold index
  cases h[r]? <;> simp [Node.slotGet_flav]

/-- `__get` (reference-valued) cannot tell `Index(i)` from `i` anywhere in a path. -/
theorem getCore_flav (h : Heap) : ∀ (p : Path) (r : Ref), getCore h r (p.map PKey.flav) = getCore h r p := by
  intro p
  induction p with
  | nil => intro r; rfl
  | cons k ks ih =>
    intro r
    by_cases h1 : k = .self
    · subst h1; simp [getCore, PKey.flav]
    by_cases h2 : ∃ id v, k = .lit id v
    · obtain ⟨id, v, rfl⟩ := h2; simp [getCore, PKey.flav]
    have h2' : ∀ id v, k = .lit id v → False := fun id v e => h2 ⟨id, v, e⟩
    have h1f : k.flav = .self → False := fun e => h1 ((PKey.flav_eq_self_iff k).mp e)
    have h2f : ∀ id v, k.flav = .lit id v → False := fun id v e => h2' id v ((PKey.flav_eq_lit_iff k id v).mp e)
    rw [List.map_cons, getCore.eq_4 _ _ _ _ h1f h2f, getCore.eq_4 _ _ _ _ h1 h2', index_flav]
    cases index h r k with
    | error e => rfl
    | ok c => exact ih c

theorem get_flav (h : Heap) (r : Ref) (p : Path) : get h r (p.map PKey.flav) = get h r p := by
  simp [get, getCore_flav]

/-- Paths of equal normal form read the same (reference-valued `__get`). -/
theorem get_congr_flav (h : Heap) (r : Ref) {p q : Path} (e : p.map PKey.flav = q.map PKey.flav) :
    get h r p = get h r q := by
  rw [← get_flav h r p, ← get_flav h r q, e]

theorem mapM_get_flav (h : Heap) (t : Ref) : ∀ ks : List Path,
    (ks.map (List.map PKey.flav)).mapM (get h t) = ks.mapM (get h t)
  | [] => rfl
  | p :: ks => by
    simp only [List.map_cons, List.mapM_cons, get_flav, mapM_get_flav h t ks]

theorem scalarWalk_flav (x : Int) (p : Path) : scalarWalk x (p.map PKey.flav) = scalarWalk x p := by
  cases p with
  | nil => rfl
  | cons k ks => cases k <;> simp [scalarWalk, PKey.flav]

theorem ndWalk_flav (h : Heap) (b : Ref) : ∀ (p : Path) (off : Nat) (shape : List Nat),
    ndWalk h b off shape (p.map PKey.flav) = ndWalk h b off shape p := by
  intro p
  induction p with
  | nil => intro off shape; rfl
  | cons k ks ih =>
    intro off shape
    by_cases h1 : k = .self
    · subst h1; simp [ndWalk, PKey.flav]
    by_cases h2 : ∃ id v, k = .lit id v
    · obtain ⟨id, v, rfl⟩ := h2; simp [ndWalk, PKey.flav]
    have h2' : ∀ id v, k = .lit id v → False := fun id v e => h2 ⟨id, v, e⟩
    have h1f : k.flav = .self → False := fun e => h1 ((PKey.flav_eq_self_iff k).mp e)
    have h2f : ∀ id v, k.flav = .lit id v → False := fun id v e => h2' id v ((PKey.flav_eq_lit_iff k id v).mp e)
    cases shape with
    | nil =>
      rw [List.map_cons, ndWalk.eq_4 _ _ _ _ _ h1f h2f, ndWalk.eq_4 _ _ _ _ _ h1 h2']
    | cons n inner =>
      rw [List.map_cons, ndWalk.eq_5 _ _ _ _ _ _ _ h1f h2f, ndWalk.eq_5 _ _ _ _ _ _ _ h1 h2', PKey.flav_asInt]
      cases k.asInt with
      | none => rfl
      | some i =>
        dsimp only
        cases resolveIdx n i with
        | none => rfl
        | some j =>
          dsimp only
          cases inner with
          | nil => exact scalarWalk_flav _ ks
          | cons m inner' => exact ih _ _

/-- The complete `__get` (paths that index INTO ndarrays included) cannot tell `Index(i)` from `i` either. -/
theorem getV_flav (h : Heap) : ∀ (p : Path) (r : Ref), getV h r (p.map PKey.flav) = getV h r p := by
  intro p
  induction p with
  | nil => intro r; rfl
  | cons k ks ih =>
    intro r
    by_cases h1 : k = .self
    · subst h1; simp [getV, PKey.flav]
    by_cases h2 : ∃ id v, k = .lit id v
    · obtain ⟨id, v, rfl⟩ := h2; simp [getV, PKey.flav]
    have h2' : ∀ id v, k = .lit id v → False := fun id v e => h2 ⟨id, v, e⟩
    have h1f : k.flav = .self → False := fun e => h1 ((PKey.flav_eq_self_iff k).mp e)
    have h2f : ∀ id v, k.flav = .lit id v → False := fun id v e => h2' id v ((PKey.flav_eq_lit_iff k id v).mp e)
    rw [List.map_cons, getV.eq_4 _ _ _ _ h1f h2f, getV.eq_4 _ _ _ _ h1 h2']
    cases hn : h[r]? with
    | none => rfl
    | some n =>
      cases n with
      | nd b off shape =>
        have := ndWalk_flav h b (k :: ks) off shape
        simpa using this
      | dict es => simp only [Node.slotGet_flav]; cases (Node.dict es).slotGet k <;> simp [ih]
      | list rs => simp only [Node.slotGet_flav]; cases (Node.list rs).slotGet k <;> simp [ih]
      | tuple rs => simp only [Node.slotGet_flav]; cases (Node.tuple rs).slotGet k <;> simp [ih]
      | leaf v => simp only [Node.slotGet_flav]; cases (Node.leaf v).slotGet k <;> simp [ih]
      | null => simp only [Node.slotGet_flav]; cases Node.null.slotGet k <;> simp [ih]
      | buf xs => simp only [Node.slotGet_flav]; cases (Node.buf xs).slotGet k <;> simp [ih]

theorem getV_congr_flav (h : Heap) (r : Ref) {p q : Path} (e : p.map PKey.flav = q.map PKey.flav) :
    getV h r p = getV h r q := by
  rw [← getV_flav h p r, ← getV_flav h q r, e]

end MlModel.Tree

/-! ## copying sets: on a path that EXISTS the flavour is invisible too

(`d[k] = v` keeps the key object an existing entry already has; a FRESH key is stored as the object given, so
`{..., Index(1): v}` and `{..., 1: v}` are different results — `Ex` therefore asks the last key to exist when it
addresses a dict.) -/
namespace MlModel.Tree

theorem PKey.flav_ne_self {k : PKey} (h : k ≠ .self) : k.flav ≠ .self := fun e => h ((PKey.flav_eq_self_iff k).mp e)
theorem PKey.flav_ne_skip {k : PKey} (h : k ≠ .skip) : k.flav ≠ .skip := by cases k <;> simp_all [PKey.flav]
theorem PKey.flav_eq_skip_iff (k : PKey) : k.flav = .skip ↔ k = .skip := by cases k <;> simp [PKey.flav]

/-- `result[k] = c` cannot tell the flavours apart unless `result` is a dict in which `k` is not yet a key. -/
theorem assign_flav (h : Heap) (res : Ref) (k : PKey) (c : Ref)
    (hd : ∀ cur, h[res]? = some (.dict cur) → ∃ x, dictGet cur k.toDKey = some x) :
    assign h res k.flav c = assign h res k c := by
  unfold assign
  cases hn : h[res]? with
  | none => rfl
  | some n =>
    cases n with
    | dict cur =>
      obtain ⟨x, hx⟩ := hd cur hn
      have hx' : dictGet cur k.stored = some x := by rw [← dictGet_norm, PKey.stored_norm]; exact hx
      dsimp only
      rw [dictSet_congr_of_mem cur (k := k.stored) (k' := k.flav.stored) (by simp) hx']
    | list cur => simp
    | tuple _ => rfl
    | leaf _ => rfl
    | null => rfl
    | nd _ _ _ => rfl
    | buf _ => rfl

theorem mapPre_flav (h1 : Heap) (es : List (DKey × Ref)) (k : PKey) : mapPre h1 es k.flav = mapPre h1 es k := by
  unfold mapPre; simp

/-- `setMap` uses its key through `toDKey` / `asInt`, except for the key object a FRESH entry gets (`ha`: after
the recursion `k` is a key of `result`); the recursion is entered at one point (`hR`). -/
theorem setMap_flav {R R' : Heap → Ref → Res Ref} (h1 : Heap) (res : Ref) (es : List (DKey × Ref)) (k : PKey)
    (hR : R' (mapPre h1 es k).1 (mapPre h1 es k).2 = R (mapPre h1 es k).1 (mapPre h1 es k).2)
    (ha : ∀ h3 c, R (mapPre h1 es k).1 (mapPre h1 es k).2 = (h3, .ok c) →
      ∀ cur, h3[res]? = some (.dict cur) → ∃ x, dictGet cur k.toDKey = some x) :
    setMap R' h1 res es k.flav = setMap R h1 res es k := by
  rw [setMap_unfold, setMap_unfold, mapPre_flav, hR]
  rcases hr : R (mapPre h1 es k).1 (mapPre h1 es k).2 with ⟨h3, e | c⟩
  · rfl
  · dsimp only
    rw [assign_flav h3 res k c (ha h3 c hr)]

theorem setSeq_flav {R R' : Heap → Ref → Res Ref} (h1 : Heap) (res : Ref) (rs : List Ref) (k : PKey)
    (hR : ∀ i j child, k.asInt = some i → resolveIdx (seqPre h1 res rs i).2.length i = some j →
      (seqPre h1 res rs i).2[j]? = some child →
      R' (seqPre h1 res rs i).1 child = R (seqPre h1 res rs i).1 child)
    (ha : ∀ i child h3 c, k.asInt = some i → R (seqPre h1 res rs i).1 child = (h3, .ok c) →
      ∀ cur, h3[res]? = some (.dict cur) → ∃ x, dictGet cur k.toDKey = some x) :
    setSeq R' h1 res rs k.flav = setSeq R h1 res rs k := by
  rw [setSeq_unfold, setSeq_unfold, PKey.flav_asInt]
  cases hk : k.asInt with
  | none => rfl
  | some i =>
    dsimp only
    cases hj : resolveIdx (seqPre h1 res rs i).2.length i with
    | none => rfl
    | some j =>
      dsimp only
      cases hc : (seqPre h1 res rs i).2[j]? with
      | none => rfl
      | some child =>
        dsimp only
        rw [hR i j child hk hj hc]
        rcases hr : R (seqPre h1 res rs i).1 child with ⟨h3, e | c⟩
        · rfl
        · dsimp only
          rw [assign_flav h3 res k c (ha i child h3 c hk hr)]

/-- a successful `seq[k]` names the child the set recurses into, and the append branch is not taken -/
theorem seqGet_pre {rs : List Ref} {k : PKey} {c : Ref} (hs : seqGet rs k = .ok c) (h1 : Heap) (res : Ref) :
    ∀ i j child, k.asInt = some i → resolveIdx (seqPre h1 res rs i).2.length i = some j →
      (seqPre h1 res rs i).2[j]? = some child → (seqPre h1 res rs i).1 = h1 ∧ child = c := by
  intro i j child hk hj hc
  unfold seqGet at hs
  rw [hk] at hs
  dsimp only at hs
  have hne : i ≠ (rs.length : Int) := by
    intro e
    subst e
    rw [resolveIdx_len_none] at hs; simp at hs
  have hpre : seqPre h1 res rs i = (h1, rs) := by unfold seqPre; simp [hne]
  rw [hpre] at hj hc ⊢
  dsimp only at hj hc
  rw [hj] at hs
  simp only [Option.bind_some] at hs
  rw [hc] at hs
  exact ⟨rfl, by cases hs; rfl⟩

/-- the cell `result` of a copied sequence is still a list when the recursion starts -/
theorem seqPre_res (h : Heap) (rs : List Ref) (i : Int) :
    ∃ rs', (seqPre (h.push (.list rs)) h.size rs i).1[h.size]? = some (.list rs') ∧
      h.size < (seqPre (h.push (.list rs)) h.size rs i).1.size := by
  unfold seqPre
  split
  · exact ⟨_, write_get_eq _ _ (by simp; omega), by simp; omega⟩
  · exact ⟨rs, push_get_size _ _, by simp⟩

theorem setNd_flav (R : Heap → Ref → Res Ref) (inPlace : Bool) (h : Heap) (tree b off : Nat) (shape : List Nat)
    (k : PKey) : setNd R inPlace h tree b off shape k.flav = setNd R inPlace h tree b off shape k := by
  unfold setNd; simp

/-- The key path `p` **exists** below `t` as far as a copying set needs it: every key but the last addresses a
stored child (dict entry / sequence position) — so `_default_tree` is never asked to build structure for a key —
the last key may be the append index of a sequence but must be a key already when it addresses a dict (a fresh
dict key is stored as the object given), whatever follows `SELF` / `SKIP` is ignored, and so is whatever lies
below an ndarray (existing or not: nothing is ever built inside an array). -/
inductive Ex (h : Heap) : Ref → Path → Prop
  | nil (t : Ref) : Ex h t []
  | self (t : Ref) (ks : Path) : Ex h t (.self :: ks)
  | skip (t : Ref) (ks : Path) : Ex h t (.skip :: ks)
  | last {t : Ref} {n : Node} (k : PKey) : h[t]? = some n → n ≠ .null →
      (∀ es, n = .dict es → ∃ x, dictGet es k.toDKey = some x) → Ex h t [k]
  | step {t : Ref} {n : Node} {k : PKey} {c : Ref} {ks : Path} : h[t]? = some n → n.slotGet k = .ok c →
      Ex h c ks → Ex h t (k :: ks)
  | nd {t b off : Ref} {shape : List Nat} (k : PKey) (ks : Path) : h[t]? = some (.nd b off shape) → Ex h t (k :: ks)

theorem Ex.mono {h h' : Heap} (e : ∀ (r : Nat) (n : Node), h[r]? = some n → h'[r]? = some n) {t : Ref} {p : Path}
    (x : Ex h t p) : Ex h' t p := by
  induction x with
  | nil t => exact .nil t
  | self t ks => exact .self t ks
  | skip t ks => exact .skip t ks
  | last k hn hne hd => exact .last k (e _ _ hn) hne hd
  | step hn hs _ ih => exact .step (e _ _ hn) hs ih
  | nd k ks hn => exact .nd k ks (e _ _ hn)

theorem push_mono (h : Heap) (m : Node) : ∀ (r : Nat) (n : Node), h[r]? = some n → (h.push m)[r]? = some n := by
  intro r n hn
  rw [push_get_lt h m (lt_size_of_get hn)]; exact hn

/-- what the recursion of a copying set leaves in the fresh cell `result` -/
theorem copy_res_kept (strict : Bool) (h1 : Heap) {res : Ref} (hres : res < h1.size) (c : Ref) (ks : Path) (v : Ref)
    {h3 : Heap} {c' : Ref} (hr : setPath strict false h1 c ks v = (h3, .ok c')) : h3[res]? = h1[res]? := by
  have := setPath_extends strict h1 c ks v
  rw [hr] at this
  exact this.2 res hres

/-- one key, a non-`NullMap` object (in which the key exists if it is a dict) -/
theorem setPath_flav_last (strict : Bool) {h : Heap} {t : Ref} {n : Node} (k : PKey) (v : Ref)
    (hn : h[t]? = some n) (hne : n ≠ .null) (hd : ∀ es, n = .dict es → ∃ x, dictGet es k.toDKey = some x) :
    setPath strict false h t [k.flav] v = setPath strict false h t [k] v := by
  by_cases hk1 : k = .self
  · subst hk1; rfl
  by_cases hk2 : k = .skip
  · subst hk2; rfl
  rw [setPath.eq_4 _ _ _ _ _ _ _ (PKey.flav_ne_self hk1) (PKey.flav_ne_skip hk2),
    setPath.eq_4 _ _ _ _ _ _ _ hk1 hk2, hn]
  cases n with
  | null => exact absurd rfl hne
  | leaf x => rfl
  | buf xs => rfl
  | dict es =>
    dsimp only
    obtain ⟨x, hx⟩ := hd es rfl
    simp only [Bool.false_eq_true, ↓reduceIte, alloc]
    rw [setMap_flav (R := fun h' c => setPath strict false h' c [] v) _ _ _ _ rfl]
    intro h3 c hr cur hcur
    simp only [mapPre, hx] at hr
    rw [copy_res_kept strict (h.push (.dict es)) (by simp) x [] v hr, push_get_size] at hcur
    cases hcur; exact ⟨x, hx⟩
  | list rs =>
    dsimp only
    simp only [Bool.false_eq_true, ↓reduceIte, alloc]
    rw [setSeq_flav (R := fun h' c => setPath strict false h' c [] v) _ _ _ _ (fun _ _ _ _ _ _ => rfl)]
    intro i child h3 c _ hr cur hcur
    obtain ⟨rs', hrs, hlt⟩ := seqPre_res h rs i
    rw [copy_res_kept strict _ hlt child [] v hr, hrs] at hcur
    cases hcur
  | tuple rs =>
    dsimp only
    simp only [Bool.false_eq_true, ↓reduceIte, alloc]
    rw [setSeq_flav (R := fun h' c => setPath strict false h' c [] v) _ _ _ _ (fun _ _ _ _ _ _ => rfl)]
    intro i child h3 c _ hr cur hcur
    obtain ⟨rs', hrs, hlt⟩ := seqPre_res h rs i
    rw [copy_res_kept strict _ hlt child [] v hr, hrs] at hcur
    cases hcur
  | nd b off shape => dsimp only; rw [setNd_flav]

/-- Below an ndarray (or a scalar read from one) the flavour never matters, whether or not the path exists:
no `_default_tree` is ever built inside an array. -/
theorem setPath_flav_nd (strict ip : Bool) (v : Ref) : ∀ (p : Path) (h : Heap) (t : Ref),
    ((∃ x, h[t]? = some (.leaf x)) ∨ ∃ b off shape, h[t]? = some (.nd b off shape)) →
    setPath strict ip h t (p.map PKey.flav) v = setPath strict ip h t p v := by
  intro p
  induction p with
  | nil => intro h t _; rfl
  | cons k ks ih =>
    intro h t ht
    by_cases hk1 : k = .self
    · subst hk1; rfl
    by_cases hk2 : k = .skip
    · subst hk2; rfl
    rw [List.map_cons, setPath.eq_4 _ _ _ _ _ _ _ (PKey.flav_ne_self hk1) (PKey.flav_ne_skip hk2),
      setPath.eq_4 _ _ _ _ _ _ _ hk1 hk2]
    rcases ht with ⟨x, hn⟩ | ⟨b, off, shape, hn⟩
    · rw [hn]
    · rw [hn]
      dsimp only
      rw [setNd_unfold, setNd_unfold, PKey.flav_asInt]
      cases shape with
      | nil => rfl
      | cons n inner =>
        dsimp only
        cases k.asInt with
        | none => rfl
        | some i =>
          dsimp only
          split
          · rfl
          · cases resolveIdx n i with
            | none => rfl
            | some j =>
              dsimp only
              obtain ⟨m, h1, h2, hm⟩ := ndItem_fst (ndPre ip h t b off (n :: inner)).1
                (ndPre ip h t b off (n :: inner)).2.2.1 ((ndPre ip h t b off (n :: inner)).2.2.2 + j * prod inner) inner
              rw [ih _ _ ?_]
              rw [h1, h2]
              rcases hm with ⟨rfl, _⟩ | ⟨rfl, _⟩
              · exact Or.inl ⟨_, push_get_size _ _⟩
              · exact Or.inr ⟨_, _, _, push_get_size _ _⟩

theorem Ex.cons_cases {h : Heap} {t : Ref} {k : PKey} {ks : Path} (x : Ex h t (k :: ks)) :
    k = .self ∨ k = .skip ∨
      (ks = [] ∧ ∃ n, h[t]? = some n ∧ n ≠ .null ∧ ∀ es, n = .dict es → ∃ x, dictGet es k.toDKey = some x) ∨
      (∃ n c, h[t]? = some n ∧ n.slotGet k = .ok c ∧ Ex h c ks) ∨ ∃ b off shape, h[t]? = some (.nd b off shape) := by
  cases x with
  | self => exact Or.inl rfl
  | skip => exact Or.inr (Or.inl rfl)
  | last _ hn hne hd => exact Or.inr (Or.inr (Or.inl ⟨rfl, _, hn, hne, hd⟩))
  | step hn hs hx => exact Or.inr (Or.inr (Or.inr (Or.inl ⟨_, _, hn, hs, hx⟩)))
  | nd _ _ hn => exact Or.inr (Or.inr (Or.inr (Or.inr ⟨_, _, _, hn⟩)))

/-- **On a path that exists, a copying `_set_by_path` cannot tell `Index(i)` from `i`** — strict or not, on
every heap: same resulting heap (the key objects stored in every dict included), same result or same error. -/
theorem setPath_flav (strict : Bool) (v : Ref) : ∀ (p : Path) (h : Heap) (t : Ref), Ex h t p →
    setPath strict false h t (p.map PKey.flav) v = setPath strict false h t p v := by
  intro p
  induction p with
  | nil => intro h t _; rfl
  | cons k ks ih =>
    intro h t x
    rcases x.cons_cases with rfl | rfl | ⟨rfl, n, hn, hne, hd⟩ | ⟨n, c, hn, hs, hx⟩ | ⟨b, off, shape, hn⟩
    · rfl
    · rfl
    · exact setPath_flav_last strict k v hn hne hd
    rotate_left
    · exact setPath_flav_nd strict false v (k :: ks) h t (Or.inr ⟨b, off, shape, hn⟩)
    · by_cases hk1 : k = .self
      · subst hk1; rfl
      by_cases hk2 : k = .skip
      · subst hk2; rfl
      rw [List.map_cons, setPath.eq_4 _ _ _ _ _ _ _ (PKey.flav_ne_self hk1) (PKey.flav_ne_skip hk2),
        setPath.eq_4 _ _ _ _ _ _ _ hk1 hk2, hn]
      cases n with
      | null => simp [Node.slotGet] at hs
      | leaf y => rfl
      | buf xs => rfl
      | nd b off shape => simp [Node.slotGet] at hs
      | dict es =>
        dsimp only
        have hg : dictGet es k.toDKey = some c := by
          simp only [Node.slotGet] at hs
          cases hd : dictGet es k.toDKey with
          | none => rw [hd] at hs; cases hs
          | some c' => rw [hd] at hs; cases hs; rfl
        simp only [Bool.false_eq_true, ↓reduceIte, alloc]
        rw [setMap_flav (R := fun h' c => setPath strict false h' c ks v)]
        · simp only [mapPre, hg]
          exact ih _ c (hx.mono (push_mono h _))
        · intro h3 c' hr cur hcur
          simp only [mapPre, hg] at hr
          rw [copy_res_kept strict (h.push (.dict es)) (by simp) c ks v hr, push_get_size] at hcur
          cases hcur; exact ⟨c, hg⟩
      | list rs =>
        dsimp only
        have hs' : seqGet rs k = .ok c := by simpa [Node.slotGet] using hs
        simp only [Bool.false_eq_true, ↓reduceIte, alloc]
        rw [setSeq_flav (R := fun h' c => setPath strict false h' c ks v)]
        · intro i j child hk hj hc
          obtain ⟨e1, e2⟩ := seqGet_pre hs' (h.push (.list rs)) h.size i j child hk hj hc
          rw [e1, e2]
          exact ih _ c (hx.mono (push_mono h _))
        · intro i child h3 c' _ hr cur hcur
          obtain ⟨rs', hrs, hlt⟩ := seqPre_res h rs i
          rw [copy_res_kept strict _ hlt child ks v hr, hrs] at hcur
          cases hcur
      | tuple rs =>
        dsimp only
        have hs' : seqGet rs k = .ok c := by simpa [Node.slotGet] using hs
        simp only [Bool.false_eq_true, ↓reduceIte, alloc]
        rw [setSeq_flav (R := fun h' c => setPath strict false h' c ks v)]
        · intro i j child hk hj hc
          obtain ⟨e1, e2⟩ := seqGet_pre hs' (h.push (.list rs)) h.size i j child hk hj hc
          rw [e1, e2]
          exact ih _ c (hx.mono (push_mono h _))
        · intro i child h3 c' _ hr cur hcur
          obtain ⟨rs', hrs, hlt⟩ := seqPre_res h rs i
          rw [copy_res_kept strict _ hlt child ks v hr, hrs] at hcur
          cases hcur

/-- existence does not depend on the flavour of the keys -/
theorem Ex.congr {h : Heap} {t : Ref} {p : Path} (x : Ex h t p) :
    ∀ q : Path, q.map PKey.flav = p.map PKey.flav → Ex h t q := by
  induction x with
  | nil t => intro q e; cases q with
    | nil => exact .nil t
    | cons _ _ => simp at e
  | self t ks => intro q e; cases q with
    | nil => simp at e
    | cons k' qs =>
      simp only [List.map_cons, List.cons.injEq] at e
      have : k' = .self := (PKey.flav_eq_self_iff k').mp (by rw [e.1]; rfl)
      subst this; exact .self t qs
  | skip t ks => intro q e; cases q with
    | nil => simp at e
    | cons k' qs =>
      simp only [List.map_cons, List.cons.injEq] at e
      have : k' = .skip := (PKey.flav_eq_skip_iff k').mp (by rw [e.1]; rfl)
      subst this; exact .skip t qs
  | @last t n k hn hne hd => intro q e; cases q with
    | nil => simp at e
    | cons k' qs =>
      simp only [List.map_cons, List.map_nil, List.cons.injEq, List.map_eq_nil_iff] at e
      obtain ⟨e1, rfl⟩ := e
      have ek : k'.toDKey = k.toDKey := by rw [← PKey.flav_toDKey k', e1, PKey.flav_toDKey]
      exact .last k' hn hne (fun es he => by rw [ek]; exact hd es he)
  | @step t n k c ks hn hs _ ih => intro q e; cases q with
    | nil => simp at e
    | cons k' qs =>
      simp only [List.map_cons, List.cons.injEq] at e
      have hs' : n.slotGet k' = .ok c := by
        rw [← Node.slotGet_flav n k', e.1, Node.slotGet_flav]; exact hs
      exact .step hn hs' (ih qs e.2)
  | nd k ks hn => intro q e; cases q with
    | nil => simp at e
    | cons k' qs => exact .nd k' qs hn

/-- Two spellings of a path that exists — any `Index(i)` written `i` or the other way round — set the same. -/
theorem setPath_congr_flav (strict : Bool) (v : Ref) {h : Heap} {t : Ref} {p q : Path} (x : Ex h t p)
    (e : q.map PKey.flav = p.map PKey.flav) : setPath strict false h t q v = setPath strict false h t p v := by
  rw [← setPath_flav strict v q h t (x.congr q e), ← setPath_flav strict v p h t x, e]

/-- a path of plain keys (optionally cut short by `SELF`) that reads successfully exists -/
theorem Ex.of_get {h : Heap} : ∀ (p : Path) (t x : Ref), PlainSelf p → get h t p = .ok x → Ex h t p := by
  intro p
  induction p with
  | nil => intro t x _ _; exact .nil t
  | cons k ks ih =>
    intro t x hp hg
    by_cases hk1 : k = .self
    · subst hk1; exact .self t ks
    have hpl : k.isPlain = true ∧ PlainSelf ks := by
      cases k <;> simp_all [PlainSelf]
    rw [get_cons ks (Or.inl hpl.1)] at hg
    cases hi : index h t k with
    | error e => rw [hi] at hg; cases hg
    | ok c =>
      rw [hi] at hg
      unfold index at hi
      cases hn : h[t]? with
      | none => rw [hn] at hi; cases hi
      | some n => rw [hn] at hi; exact .step hn hi (ih c x hpl.2 hg)

/-- a leaf walk (what `items()` lists) exists -/
theorem Ex.of_leafWalk {h : Heap} (hg : GoodDicts h) {r : Ref} {q : Path} {x : Ref} (w : LeafWalk h r q x) :
    Ex h r q := by
  induction w with
  | leaf _ _ => exact .nil _
  | step hn hm _ ih => exact .step hn (children_slotGet hg hn hm).1 ih

end MlModel.Tree
