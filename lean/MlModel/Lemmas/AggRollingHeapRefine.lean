import MlModel.Lemmas.AggRollingHeap
/-!
# The heap model of `UnboundedSampler.merge` refines the pure model

`usAbs` reads the lists an object references.  Under the separation the system maintains
(receiver's lists distinct from each other and from the operand's), the heap-level `usMerge`
computes exactly the pure `US.merge true` on the abstractions.
-/
namespace MlModel.Agg.Rolling.H
open MlModel.Agg.Heap MlModel.Agg.Rolling

variable {α : Type}

theorem extendAll_read_other (h : Heap (List α)) (ps : List (Nat × Nat)) (r : Nat)
    (hr : r ∉ ps.map (·.1)) : (extendAll h ps).read r = h.read r := by
  induction ps generalizing h with
  | nil => rfl
  | cons p ps ih =>
    obtain ⟨rs, ro⟩ := p
    simp only [List.map_cons, List.mem_cons, not_or] at hr
    simp only [extendAll]
    rw [ih _ hr.2, read_write_other _ _ hr.1]

theorem extendAll_read (h : Heap (List α)) (ps : List (Nat × Nat))
    (hnd : (ps.map (·.1)).Nodup) (hdisj : ∀ p ∈ ps, ∀ q ∈ ps, p.1 ≠ q.2)
    (hv : ∀ p ∈ ps, p.1 < h.size) :
    (ps.map fun p => (extendAll h ps).read p.1) = ps.map fun p => h.read p.1 ++ h.read p.2 := by
  induction ps generalizing h with
  | nil => rfl
  | cons p ps ih =>
    obtain ⟨rs, ro⟩ := p
    simp only [List.map_cons, List.nodup_cons] at hnd
    simp only [extendAll, List.map_cons, List.cons.injEq]
    constructor
    · rw [extendAll_read_other _ _ _ hnd.1, read_write_same _ _ (hv (rs, ro) (by simp))]
    · rw [ih (h.write rs (h.read rs ++ h.read ro)) hnd.2
        (fun p hp q hq => hdisj p (List.mem_cons_of_mem _ hp) q (List.mem_cons_of_mem _ hq))
        (fun p hp => by rw [size_write]; exact hv p (List.mem_cons_of_mem _ hp))]
      apply List.map_congr_left
      intro p hp
      have h1 : p.1 ≠ rs := fun e => hnd.1 (e ▸ List.mem_map_of_mem hp)
      have h2 : p.2 ≠ rs := fun e =>
        hdisj (rs, ro) (by simp) p (List.mem_cons_of_mem _ hp) e.symm
      rw [read_write_other _ _ h1, read_write_other _ _ h2]

theorem map_zip_fst {β γ δ : Type} (l1 : List β) (l2 : List γ) (f : β → δ) (hl : l1.length = l2.length) :
    (l1.zip l2).map (fun p => f p.1) = l1.map f := by
  induction l1 generalizing l2 with
  | nil => simp
  | cons a l1 ih =>
    cases l2 with
    | nil => simp at hl
    | cons b l2 => simp [ih l2 (by simpa using hl)]

/-- **refinement**: receiver non-empty, same number of columns, receiver's lists pairwise distinct
and distinct from the operand's -/
theorem usMerge_refines (h : Heap (List α)) (s o : USObj)
    (hs : s.refs ≠ []) (ho : o.refs ≠ []) (hlen : s.refs.length = o.refs.length)
    (hvs : ∀ r ∈ s.refs, r < h.size) (hnd : s.refs.Nodup) (hdisj : ∀ r ∈ s.refs, r ∉ o.refs) :
    US.merge true (usAbs h s) (usAbs h o)
      = .ok (usAbs (usMerge h s o).1 (usMerge h s o).2) := by
  have e1 : o.refs.isEmpty = false := by simpa using ho
  have e2 : s.refs.isEmpty = false := by simpa using hs
  have hps_nd : ((s.refs.zip o.refs).map (·.1)).Nodup := by
    have := map_zip_fst s.refs o.refs id hlen
    simp only [id, List.map_id] at this
    rw [this]; exact hnd
  have hread := extendAll_read h (s.refs.zip o.refs) hps_nd
    (fun p hp q hq => fun e => hdisj p.1 (List.of_mem_zip hp).1 (e ▸ (List.of_mem_zip hq).2))
    (fun p hp => hvs p.1 (List.of_mem_zip hp).1)
  simp only [usMerge, e1, e2, Bool.false_eq_true, if_false, usAbs, US.merge, Bool.true_and,
    List.isEmpty_map, List.length_map, hlen, bne_self_eq_false, US.mk.injEq, and_true,
    Except.ok.injEq]
  -- left: zipWith (++) of the old readings; right: the new readings of the receiver's lists
  have hl : List.zipWith (· ++ ·) (s.refs.map h.read) (o.refs.map h.read)
      = (s.refs.zip o.refs).map fun p => h.read p.1 ++ h.read p.2 := by
    rw [List.zipWith_map_left, List.zipWith_map_right, List.zip_eq_zipWith, List.map_zipWith]
  have hr : s.refs.map (extendAll h (s.refs.zip o.refs)).read
      = (s.refs.zip o.refs).map fun p => (extendAll h (s.refs.zip o.refs)).read p.1 :=
    (map_zip_fst s.refs o.refs _ hlen).symm
  rw [hl, hr, hread]

end MlModel.Agg.Rolling.H
