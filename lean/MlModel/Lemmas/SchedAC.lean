import MlModel.Model.Sched
/-!
# Invariants of the `as_completed` bookkeeping LTS (`MlModel.Sched.AC`)
-/
namespace MlModel.Sched

theorem perm_cons_eraseIdx {α : Type} : ∀ {l : List α} {i : Nat} {a : α}, l[i]? = some a →
    l.Perm (a :: l.eraseIdx i)
  | [], i, a, h => by simp at h
  | x :: l, 0, a, h => by simp at h; subst h; simp
  | x :: l, i + 1, a, h => by
    simp at h
    have := perm_cons_eraseIdx h
    simp only [List.eraseIdx_cons_succ]
    exact (List.Perm.cons x this).trans (List.Perm.swap a x _)

theorem map_set_same {α β : Type} (f : α → β) : ∀ {l : List α} {i : Nat} {r r' : α},
    l[i]? = some r → f r' = f r → (l.set i r').map f = l.map f
  | [], _, _, _, h, _ => by simp at h
  | x :: l, 0, r, r', h, hf => by simp at h; subst h; simp [hf]
  | x :: l, i + 1, r, r', h, hf => by
    simp at h
    simp [map_set_same f h hf]

/-- every task, wherever the bookkeeping currently holds it -/
def AC.all (s : AC) : List Nat :=
  s.pending ++ s.tasks ++ s.running.map (·.task) ++ s.yielded ++ s.failed

structure AInv (c : ACfg) (n : Nat) (s : AC) : Prop where
  cons : s.all.Perm (List.range n)
  exh : s.exhausted = true → s.pending = []
  rel : s.outcome ≠ none → (c.releaseOnRaise = true ∨ s.outcome = some .returned) →
    ∀ x ∈ s.ws, x.acquired = false
  ret : s.outcome = some .returned → s.exhausted = true ∧ s.tasks = [] ∧ s.running = []
  fail : c.ignoreFailures = false → s.failed ≠ [] → s.outcome = some .raisedTask

theorem ainv_init (c : ACfg) (nw n : Nat) : AInv c n (AC.init nw n) := by
  refine ⟨?_, ?_, ?_, ?_, ?_⟩ <;> simp [AC.init, AC.all]

theorem releaseAll_acquired (ws : List Worker) : ∀ x ∈ releaseAll ws, x.acquired = false := by
  intro x hx
  simp only [releaseAll, List.mem_map] at hx
  obtain ⟨y, _, rfl⟩ := hx
  rfl

/-- a step is only enabled while the generator is still running -/
theorem acStep_outcome_none {c : ACfg} {s s' : AC} {l : ALabel} (h : acStep c s l = some s') :
    s.outcome = none := by
  cases ho : s.outcome with
  | none => rfl
  | some o =>
    exfalso
    cases l <;> simp [acStep, ho] at h

theorem ainv_finish {c : ACfg} {n : Nat} {s : AC} (hc : s.all.Perm (List.range n))
    (hexh : s.exhausted = true → s.pending = []) (o : Outcome) (always : Bool)
    (hret : o = .returned → always = true ∧ s.exhausted = true ∧ s.tasks = [] ∧ s.running = [])
    (hfail : c.ignoreFailures = false → s.failed ≠ [] → o = .raisedTask) :
    AInv c n (AC.finish c s o always) := by
  refine ⟨?_, ?_, ?_, ?_, ?_⟩
  · simpa [AC.finish, AC.all] using hc
  · simpa [AC.finish] using hexh
  · intro _ hr x hx
    simp only [AC.finish] at hx hr
    have : (always || c.releaseOnRaise) = true := by
      rcases hr with hr | hr
      · simp [hr]
      · simp at hr; simp [(hret hr).1]
    rw [this] at hx
    exact releaseAll_acquired _ x hx
  · intro hr
    simp only [AC.finish] at hr ⊢
    simp at hr
    exact (hret hr).2
  · intro hi hf
    simp only [AC.finish] at hf ⊢
    simp [hfail hi hf]

/-- frame: a running state that holds the same tasks -/
theorem ainv_of_same {c : ACfg} {n : Nat} {s s' : AC} (h : AInv c n s) (ho : s.outcome = none)
    (ho' : s'.outcome = none) (hall : s'.all.Perm s.all)
    (hexh : s'.exhausted = true → s'.pending = [])
    (hfail : s'.failed ≠ [] → s.failed ≠ [] ∨ c.ignoreFailures = true) : AInv c n s' := by
  refine ⟨hall.trans h.cons, hexh, by simp [ho'], by simp [ho'], ?_⟩
  intro hi hf
  rcases hfail hf with hf' | hf'
  · have := h.fail hi hf'; simp [ho] at this
  · simp [hi] at hf'

theorem ainv_draw {c : ACfg} {n : Nat} {s : AC} (h : AInv c n s) (ho : s.outcome = none) :
    AInv c n s.draw ∧ s.draw.outcome = none ∧ s.draw.ws = s.ws ∧ s.draw.running = s.running
      ∧ s.draw.failed = s.failed := by
  unfold AC.draw
  by_cases hc : (s.tasks.isEmpty && !s.exhausted) = true
  · rw [if_pos hc]
    simp at hc
    cases hp : s.pending with
    | nil =>
      refine ⟨ainv_of_same h ho (by simp [ho]) (by simp [AC.all, hp]) (by simp) Or.inl, ?_⟩
      simp [ho]
    | cons t p =>
      refine ⟨ainv_of_same h ho (by simp [ho]) ?_ (by simp [hc.2]) Or.inl, ?_⟩
      · simp only [AC.all, hp, hc.1]
        rw [List.perm_iff_count]; intro a
        simp [List.count_append, List.count_cons]; omega
      · simp [ho]
  · rw [if_neg hc]
    exact ⟨h, ho, rfl, rfl, rfl⟩

theorem ainv_step {c : ACfg} {n : Nat} {s s' : AC} {l : ALabel} (h : AInv c n s)
    (hs : acStep c s l = some s') : AInv c n s' := by
  have ho := acStep_outcome_none hs
  cases l with
  | acquire w =>
    cases hx : s.ws[w]? with
    | none => simp [acStep, ho, hx] at hs
    | some x =>
      simp [acStep, ho, hx] at hs; subst hs
      exact ainv_of_same h ho (by simp [ho]) (by simp [AC.all]) h.exh Or.inl
  | submit w =>
    cases hx : s.ws[w]? with
    | none => simp [acStep, ho, hx] at hs
    | some x =>
      simp only [acStep, ho, hx] at hs
      split at hs
      · obtain ⟨hd, hdo, hdw, hdr, hdf⟩ := ainv_draw h ho
        cases ht : s.draw.tasks with
        | nil => simp [ht] at hs; subst hs; exact hd
        | cons t rest =>
          simp [ht] at hs; subst hs
          refine ainv_of_same hd hdo (by simp [hdo]) ?_ hd.exh (by simp; exact Or.inl)
          simp only [AC.all, ht, ← hdr, List.map_append, List.map_cons, List.map_nil]
          rw [List.perm_iff_count]; intro a
          simp [List.count_append, List.count_cons]; omega
      · simp at hs
  | complete i =>
    cases hr : s.running[i]? with
    | none => simp [acStep, ho, hr] at hs
    | some r =>
      have hmap : ∀ st', (s.running.set i { r with st := st' }).map (·.task) = s.running.map (·.task) :=
        fun st' => map_set_same (·.task) (r' := { r with st := st' }) hr rfl
      simp only [acStep, ho, hr] at hs
      split at hs <;> simp at hs <;> subst hs <;>
        exact ainv_of_same h ho (by simp [ho]) (by simp [AC.all, hmap]) h.exh Or.inl
  | check i =>
    cases hr : s.running[i]? with
    | none => simp [acStep, ho, hr] at hs
    | some r =>
      have hp := perm_cons_eraseIdx hr
      have hcnt : ∀ a, List.count a (s.running.map (·.task)) =
          List.count a ((s.running.eraseIdx i).map (·.task)) + (if r.task = a then 1 else 0) := by
        intro a
        have := (hp.map (·.task)).count_eq a
        simp [List.count_cons] at this; rw [this]
      have hperm : ∀ (P T Y F : List Nat),
          (∀ a, List.count a P + List.count a T + List.count a ((s.running.eraseIdx i).map (·.task))
            + List.count a Y + List.count a F
            = List.count a s.pending + List.count a s.tasks + List.count a (s.running.map (·.task))
              + List.count a s.yielded + List.count a s.failed) →
          (P ++ T ++ (s.running.eraseIdx i).map (·.task) ++ Y ++ F).Perm s.all := by
        intro P T Y F hh
        simp only [AC.all]; rw [List.perm_iff_count]; intro a
        have := hh a
        simp only [List.count_append]; omega
      simp only [acStep, ho, hr] at hs
      split at hs
      · simp at hs; subst hs
        refine ainv_of_same h ho (by simp [ho]) ?_ h.exh Or.inl
        apply hperm; intro a; simp [List.count_cons, hcnt a]; omega
      · split at hs
        · rename_i hi
          simp at hs; subst hs
          refine ainv_of_same h ho (by simp [ho]) ?_ h.exh (fun _ => Or.inr hi)
          apply hperm; intro a; simp [List.count_cons, hcnt a]; omega
        · rename_i hi
          simp at hs; subst hs
          apply ainv_finish
          · refine List.Perm.trans ?_ h.cons
            apply hperm; intro a; simp [List.count_cons, hcnt a]; omega
          · exact h.exh
          · simp
          · simp
      · simp at hs; subst hs
        refine ainv_of_same h ho (by simp [ho]) ?_ h.exh Or.inl
        apply hperm; intro a; simp [List.count_append, List.count_cons, hcnt a]; omega
      · split at hs
        · simp at hs
        · simp at hs; subst hs
          refine ainv_of_same h ho (by simp [ho]) ?_ h.exh Or.inl
          apply hperm; intro a; simp [List.count_cons, hcnt a]; omega
  | releaseMid w =>
    cases hx : s.ws[w]? with
    | none => simp [acStep, ho, hx] at hs
    | some x =>
      simp only [acStep, ho, hx] at hs
      split at hs <;> simp at hs
      subst hs
      exact ainv_of_same h ho (by simp [ho]) (by simp [AC.all]) h.exh Or.inl
  | crash w =>
    cases hx : crashW c.env s.ws w with
    | none => simp [acStep, ho, hx] at hs
    | some ws' =>
      simp [acStep, ho, hx] at hs; subst hs
      exact ainv_of_same h ho (by simp [ho]) (by simp [AC.all]) h.exh Or.inl
  | rejoin w =>
    cases hx : rejoinW s.ws w with
    | none => simp [acStep, ho, hx] at hs
    | some ws' =>
      simp only [acStep, ho, hx] at hs
      split at hs <;> simp at hs
      subst hs
      exact ainv_of_same h ho (by simp [ho]) (by simp [AC.all]) h.exh Or.inl
  | exit =>
    simp only [acStep] at hs
    split at hs <;> simp at hs
    rename_i hc
    subst hs
    simp [AC.loopActive] at hc
    apply ainv_finish h.cons h.exh
    · intro _; exact ⟨rfl, hc.2.1.1, hc.2.1.2, hc.2.2⟩
    · intro hi hf; have := h.fail hi hf; simp [ho] at this
  | noWorkers =>
    simp only [acStep] at hs
    split at hs <;> simp at hs
    subst hs
    apply ainv_finish h.cons h.exh
    · simp
    · intro hi hf; have := h.fail hi hf; simp [ho] at this
  | close =>
    simp only [acStep] at hs
    split at hs <;> simp at hs
    subst hs
    apply ainv_finish h.cons h.exh
    · simp
    · intro hi hf; have := h.fail hi hf; simp [ho] at this

theorem ainv_reach {c : ACfg} {nw n : Nat} {s : AC} (h : AReach c (AC.init nw n) s) : AInv c n s := by
  induction h with
  | refl => exact ainv_init c nw n
  | step l _ hs ih => exact ainv_step ih hs

end MlModel.Sched
