import MlModel.Model.Shard
import MlModel.Lemmas.RangeIter
/-! Lemmas about `DataIterator.__next__` (round-robin sharding of an iterable). -/
namespace MlModel.Shard

theorem advance_spec (n : Nat) (cond : Nat → Bool) (idx : Nat) (h : idx ≤ n) :
    idx ≤ (advance n cond idx).1 ∧ (advance n cond idx).1 ≤ n ∧
    (∀ j, idx ≤ j → j < (advance n cond idx).1 → cond j = true) ∧
    ((advance n cond idx).2 = false → cond (advance n cond idx).1 = false) ∧
    ((advance n cond idx).2 = true → (advance n cond idx).1 = n) := by
  fun_induction advance n cond idx with
  | case1 idx hc hlt ih =>
    obtain ⟨h1, h2, h3, h4, h5⟩ := ih (by omega)
    refine ⟨by omega, h2, ?_, h4, h5⟩
    intro j hj1 hj2
    by_cases hj : j = idx
    · subst hj; exact hc
    · exact h3 j (by omega) hj2
  | case2 idx hc hlt =>
    refine ⟨Nat.le_refl _, h, fun j h1 h2 => by omega, by simp, fun _ => by omega⟩
  | case3 idx hc =>
    refine ⟨Nat.le_refl _, h, fun j h1 h2 => by omega, fun _ => by simpa using hc, by simp⟩

/-- Selection predicate of shard `si` of `k` resumed at `start`: index `j` is delivered iff
`start <= j` and `j % k == si`. -/
def rrSel (si k start : Int) (j : Nat) : Bool := decide (start ≤ (j : Int) ∧ (j : Int) % k = si)

/-- What the iterator at `_index = idx` still has to deliver. -/
def rrRem {α : Type} (xs : List α) (si k start : Int) (idx : Nat) : List α :=
  (List.range' idx (xs.length - idx)).filterMap fun j => if rrSel si k start j then xs[j]? else none

theorem rrRem_end {α : Type} (xs : List α) (si k start : Int) (idx : Nat) (h : xs.length ≤ idx) :
    rrRem xs si k start idx = [] := by
  unfold rrRem
  have : xs.length - idx = 0 := by omega
  simp [this]

theorem rrRem_hit {α : Type} (xs : List α) (si k start : Int) (j : Nat) (hj : j < xs.length)
    (hsel : rrSel si k start j = true) :
    rrRem xs si k start j = xs[j] :: rrRem xs si k start (j + 1) := by
  unfold rrRem
  have : xs.length - j = (xs.length - (j + 1)) + 1 := by omega
  rw [this, List.range'_succ, List.filterMap_cons]
  simp [hsel, List.getElem?_eq_getElem hj]

theorem rrRem_miss {α : Type} (xs : List α) (si k start : Int) (j : Nat) (hj : j < xs.length)
    (hsel : rrSel si k start j = false) :
    rrRem xs si k start j = rrRem xs si k start (j + 1) := by
  unfold rrRem
  have : xs.length - j = (xs.length - (j + 1)) + 1 := by omega
  rw [this, List.range'_succ, List.filterMap_cons]
  simp [hsel]

theorem rrRem_skip {α : Type} (xs : List α) (si k start : Int) (idx j0 : Nat) (h1 : idx ≤ j0)
    (h2 : j0 ≤ xs.length) (hskip : ∀ j, idx ≤ j → j < j0 → rrSel si k start j = false) :
    rrRem xs si k start idx = rrRem xs si k start j0 := by
  induction j0 with
  | zero => have : idx = 0 := by omega
            subst this; rfl
  | succ j ih =>
    by_cases he : idx = j + 1
    · subst he; rfl
    · rw [ih (by omega) (by omega) (fun x hx1 hx2 => hskip x hx1 (by omega))]
      exact rrRem_miss xs si k start j (by omega) (hskip j (by omega) (by omega))

theorem rrNext_spec {α : Type} (xs : List α) (si k start : Int) (idx : Nat) (h : idx ≤ xs.length) :
    (rrNext xs si k start idx).2 ≤ xs.length ∧
    ((rrRem xs si k start idx = [] ∧ (rrNext xs si k start idx).1 = none ∧
        rrRem xs si k start (rrNext xs si k start idx).2 = []) ∨
     (∃ a, (rrNext xs si k start idx).1 = some a ∧
        rrRem xs si k start idx = a :: rrRem xs si k start (rrNext xs si k start idx).2)) := by
  unfold rrNext
  simp only []
  obtain ⟨a1, a2, a3, a4, a5⟩ := advance_spec xs.length (fun j => decide ((j : Int) < start)) idx h
  -- indices skipped by the first loop are not selected
  have skip1 : ∀ j, idx ≤ j → j < (advance xs.length (fun j => decide ((j : Int) < start)) idx).1 →
      rrSel si k start j = false := by
    intro j hj1 hj2
    have := a3 j hj1 hj2
    simp only [decide_eq_true_eq] at this
    simp [rrSel]; omega
  cases hs1 : (advance xs.length (fun j => decide ((j : Int) < start)) idx).2 with
  | true =>
    simp only [if_true]
    have hn := a5 hs1
    have hrem : rrRem xs si k start idx = [] := by
      rw [rrRem_skip xs si k start idx _ a1 a2 skip1]
      exact rrRem_end xs si k start _ (by omega)
    exact ⟨a2, Or.inl ⟨hrem, trivial, rrRem_end xs si k start _ (by omega)⟩⟩
  | false =>
    simp only [Bool.false_eq_true, if_false]
    have hge := a4 hs1
    simp only [decide_eq_false_iff_not] at hge
    obtain ⟨b1, b2, b3, b4, b5⟩ := advance_spec xs.length
      (fun j => decide ((j : Int) % k ≠ si)) _ a2
    have skip2 : ∀ j, (advance xs.length (fun j => decide ((j : Int) < start)) idx).1 ≤ j →
        j < (advance xs.length (fun j => decide ((j : Int) % k ≠ si))
          (advance xs.length (fun j => decide ((j : Int) < start)) idx).1).1 →
        rrSel si k start j = false := by
      intro j hj1 hj2
      have := b3 j hj1 hj2
      simp only [decide_eq_true_eq] at this
      simp [rrSel, this]
    have skip : ∀ j, idx ≤ j →
        j < (advance xs.length (fun j => decide ((j : Int) % k ≠ si))
          (advance xs.length (fun j => decide ((j : Int) < start)) idx).1).1 →
        rrSel si k start j = false := by
      intro j hj1 hj2
      by_cases hc : j < (advance xs.length (fun j => decide ((j : Int) < start)) idx).1
      · exact skip1 j hj1 hc
      · exact skip2 j (by omega) hj2
    have hrem0 := rrRem_skip xs si k start idx _ (Nat.le_trans a1 b1) b2 skip
    cases hs2 : (advance xs.length (fun j => decide ((j : Int) % k ≠ si))
        (advance xs.length (fun j => decide ((j : Int) < start)) idx).1).2 with
    | true =>
      simp only [if_true]
      have hn := b5 hs2
      have hz := rrRem_end xs si k start _ (Nat.le_of_eq hn.symm)
      exact ⟨b2, Or.inl ⟨by rw [hrem0]; exact hz, trivial, hz⟩⟩
    | false =>
      simp only [Bool.false_eq_true, if_false]
      have hmod := b4 hs2
      simp only [decide_eq_false_iff_not, Decidable.not_not] at hmod
      cases hg : xs[(advance xs.length (fun j => decide ((j : Int) % k ≠ si))
          (advance xs.length (fun j => decide ((j : Int) < start)) idx).1).1]? with
      | none =>
        simp only []
        rw [List.getElem?_eq_none_iff] at hg
        have hz := rrRem_end xs si k start _ hg
        exact ⟨b2, Or.inl ⟨by rw [hrem0]; exact hz, trivial, hz⟩⟩
      | some a =>
        simp only []
        obtain ⟨hlt, ha⟩ := List.getElem?_eq_some_iff.1 hg
        have hsel : rrSel si k start (advance xs.length (fun j => decide ((j : Int) % k ≠ si))
            (advance xs.length (fun j => decide ((j : Int) < start)) idx).1).1 = true := by
          unfold rrSel
          rw [decide_eq_true_eq]
          exact ⟨by omega, hmod⟩
        refine ⟨by omega, Or.inr ⟨a, rfl, ?_⟩⟩
        rw [hrem0, rrRem_hit xs si k start _ hlt hsel, ha]

theorem rrNexts_spec {α : Type} (xs : List α) (si k start : Int) (m idx : Nat) (h : idx ≤ xs.length) :
    rrNexts xs si k start m idx
      = ((rrRem xs si k start idx).map some ++ List.replicate m none).take m := by
  induction m generalizing idx with
  | zero => simp [rrNexts]
  | succ m ih =>
    unfold rrNexts
    simp only []
    obtain ⟨h1, h2⟩ := rrNext_spec xs si k start idx h
    rw [ih _ h1]
    rcases h2 with ⟨ha, hb, hc⟩ | ⟨a, hb, hc⟩
    · rw [ha, hb, hc]
      simp [List.replicate_succ]
    · rw [hb, hc, List.map_cons, MlModel.Merged.take_append_replicate_succ]

end MlModel.Shard
