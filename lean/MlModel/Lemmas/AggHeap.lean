import MlModel.Model.Agg.Heap
/-!
# Frame and separation for populations of accumulators, proved once for every lawful class

`HLaws cls` is what each method of a class must guarantee about the heap (proved per class):
it changes pre-existing cells only inside the receiver's `owned` footprint, and the receiver's new
footprint consists of its old one, fresh cells, and — for `merge`, only as never-written `shared`
cells — the operand's `shared` cells.  From that:

* `Sep` (separation) is an invariant of **every** sequence of `make`/`add`/`merge` operations on
  any number of accumulators: no accumulator references a cell that another one may write;
* `frame_step`: an operation leaves every other accumulator (the operand of a `merge` included)
  with the same record and the same content in every cell it references.
-/
namespace MlModel.Agg.Heap

variable {C B : Type} [Inhabited C]

/-- `h'` is at least as large as `h` and agrees with it outside `W` -/
def ExtendsExcept (h h' : Heap C) (W : List Ref) : Prop :=
  h.size ≤ h'.size ∧ ∀ r, r < h.size → r ∉ W → h'.read r = h.read r

theorem ExtendsExcept.refl (h : Heap C) (W : List Ref) : ExtendsExcept h h W :=
  ⟨Nat.le_refl _, fun _ _ _ => rfl⟩

theorem ExtendsExcept.trans {h1 h2 h3 : Heap C} {W : List Ref} (a : ExtendsExcept h1 h2 W)
    (b : ExtendsExcept h2 h3 W) : ExtendsExcept h1 h3 W :=
  ⟨Nat.le_trans a.1 b.1, fun r hr hw => by
    rw [b.2 r (Nat.lt_of_lt_of_le hr a.1) hw, a.2 r hr hw]⟩

theorem ExtendsExcept.mono {h1 h2 : Heap C} {W W' : List Ref} (a : ExtendsExcept h1 h2 W)
    (hs : ∀ r ∈ W, r ∈ W') : ExtendsExcept h1 h2 W' :=
  ⟨a.1, fun r hr hw => a.2 r hr (fun hm => hw (hs r hm))⟩

theorem size_alloc (h : Heap C) (c : C) : (h.alloc c).1.size = h.size + 1 := by
  simp [Heap.alloc, Heap.size]

theorem alloc_ref (h : Heap C) (c : C) : (h.alloc c).2 = h.size := rfl

theorem read_alloc_old (h : Heap C) (c : C) {r : Ref} (hr : r < h.size) :
    (h.alloc c).1.read r = h.read r := by
  simp only [Heap.alloc, Heap.read, Heap.size] at *
  rw [List.getD_eq_getElem?_getD, List.getD_eq_getElem?_getD, List.getElem?_append_left hr]

theorem read_alloc_new (h : Heap C) (c : C) : (h.alloc c).1.read h.size = c := by
  simp [Heap.alloc, Heap.read, Heap.size, List.getD_eq_getElem?_getD]

theorem extends_alloc (h : Heap C) (c : C) (W : List Ref) : ExtendsExcept h (h.alloc c).1 W :=
  ⟨by rw [size_alloc]; omega, fun _ hr _ => read_alloc_old h c hr⟩

theorem size_write (h : Heap C) (r : Ref) (c : C) : (h.write r c).size = h.size := by
  simp [Heap.write, Heap.size]

theorem read_write_other (h : Heap C) {r r' : Ref} (c : C) (hne : r' ≠ r) :
    (h.write r c).read r' = h.read r' := by
  simp only [Heap.write, Heap.read, List.getD_eq_getElem?_getD]
  rw [List.getElem?_set_ne (Ne.symm hne)]

theorem read_write_same (h : Heap C) {r : Ref} (c : C) (hr : r < h.size) :
    (h.write r c).read r = c := by
  simp only [Heap.write, Heap.read, Heap.size, List.getD_eq_getElem?_getD] at *
  simp [List.getElem?_set_self hr]

theorem extends_write (h : Heap C) (r : Ref) (c : C) {W : List Ref} (hw : r ∈ W) :
    ExtendsExcept h (h.write r c) W :=
  ⟨by rw [size_write]; exact Nat.le_refl _, fun r' _ hn => read_write_other h c (fun e => hn (e ▸ hw))⟩

/-- all references of the footprint point into the heap -/
def Valid (h : Heap C) (fp : Footprint) : Prop := ∀ r ∈ fp.refs, r < h.size

/-- no cell is both written and merely referenced by the same object -/
def SelfSep (fp : Footprint) : Prop := ∀ r ∈ fp.owned, r ∉ fp.shared

theorem Valid.mono {h h' : Heap C} {fp : Footprint} (v : Valid h fp) (hs : h.size ≤ h'.size) :
    Valid h' fp := fun r hr => Nat.lt_of_lt_of_le (v r hr) hs

/-- the heap contract of a class (see the module docstring) -/
structure HLaws (cls : HClass C B) : Prop where
  make_spec : ∀ h,
    ExtendsExcept h (cls.make h).1 [] ∧
    (∀ r ∈ (cls.fp (cls.make h).2).refs, h.size ≤ r) ∧
    Valid (cls.make h).1 (cls.fp (cls.make h).2) ∧ SelfSep (cls.fp (cls.make h).2)
  add_spec : ∀ h o b, Valid h (cls.fp o) → SelfSep (cls.fp o) →
    ExtendsExcept h (cls.add h o b).1 (cls.fp o).owned ∧
    (∀ r ∈ (cls.fp (cls.add h o b).2).owned, r ∈ (cls.fp o).owned ∨ h.size ≤ r) ∧
    (∀ r ∈ (cls.fp (cls.add h o b).2).shared, r ∈ (cls.fp o).shared ∨ h.size ≤ r) ∧
    Valid (cls.add h o b).1 (cls.fp (cls.add h o b).2) ∧ SelfSep (cls.fp (cls.add h o b).2)
  merge_spec : ∀ h s o, Valid h (cls.fp s) → Valid h (cls.fp o) → SelfSep (cls.fp s) →
    SelfSep (cls.fp o) → (∀ r ∈ (cls.fp s).owned, r ∉ (cls.fp o).refs) →
    (∀ r ∈ (cls.fp o).owned, r ∉ (cls.fp s).refs) →
    ExtendsExcept h (cls.merge h s o).1 (cls.fp s).owned ∧
    (∀ r ∈ (cls.fp (cls.merge h s o).2).owned, r ∈ (cls.fp s).owned ∨ h.size ≤ r) ∧
    (∀ r ∈ (cls.fp (cls.merge h s o).2).shared,
        r ∈ (cls.fp s).shared ∨ r ∈ (cls.fp o).shared ∨ h.size ≤ r) ∧
    Valid (cls.merge h s o).1 (cls.fp (cls.merge h s o).2) ∧
    SelfSep (cls.fp (cls.merge h s o).2)

/-- **separation**: nobody references a cell that somebody else may write -/
structure Sep {cls : HClass C B} (σ : Sys cls) : Prop where
  valid : ∀ (i : Nat) (o : cls.Obj), σ.objs[i]? = some o → Valid σ.heap (cls.fp o)
  self : ∀ (i : Nat) (o : cls.Obj), σ.objs[i]? = some o → SelfSep (cls.fp o)
  sep : ∀ (i j : Nat) (oi oj : cls.Obj), i ≠ j → σ.objs[i]? = some oi → σ.objs[j]? = some oj →
    ∀ r ∈ (cls.fp oi).owned, r ∉ (cls.fp oj).refs

theorem Sep.init (cls : HClass C B) : Sep (Sys.init cls) :=
  ⟨fun i o h => by simp [Sys.init] at h, fun i o h => by simp [Sys.init] at h,
   fun i j oi oj _ h => by simp [Sys.init] at h⟩

theorem mem_refs {fp : Footprint} {r : Ref} : r ∈ fp.refs ↔ r ∈ fp.owned ∨ r ∈ fp.shared := by
  simp [Footprint.refs]

/-- replacing accumulator `i` by a record whose footprint obeys the method contract keeps `Sep` -/
theorem Sep.set {cls : HClass C B} {σ : Sys cls} (hs : Sep σ) {i : Nat} {s s' : cls.Obj}
    {h' : Heap C} (hi : σ.objs[i]? = some s) (ext : ExtendsExcept σ.heap h' (cls.fp s).owned)
    (hown : ∀ r ∈ (cls.fp s').owned, r ∈ (cls.fp s).owned ∨ σ.heap.size ≤ r)
    (hsh : ∀ r ∈ (cls.fp s').shared, r ∈ (cls.fp s).shared ∨ (∃ j o, j ≠ i ∧ σ.objs[j]? = some o ∧
        r ∈ (cls.fp o).shared) ∨ σ.heap.size ≤ r)
    (hv : Valid h' (cls.fp s')) (hself : SelfSep (cls.fp s')) :
    Sep (⟨h', σ.objs.set i s'⟩ : Sys cls) := by
  have hlt : i < σ.objs.length := by
    rcases Nat.lt_or_ge i σ.objs.length with h | h
    · exact h
    · rw [List.getElem?_eq_none_iff.mpr h] at hi; cases hi
  have get_i : (σ.objs.set i s')[i]? = some s' := by simp [List.getElem?_set_self hlt]
  have get_ne : ∀ j, j ≠ i → (σ.objs.set i s')[j]? = σ.objs[j]? := fun j hj => by
    rw [List.getElem?_set_ne (Ne.symm hj)]
  refine ⟨?_, ?_, ?_⟩
  · intro j o hj
    by_cases hji : j = i
    · subst hji; rw [get_i] at hj; cases hj; exact hv
    · rw [get_ne j hji] at hj; exact (hs.valid j o hj).mono ext.1
  · intro j o hj
    by_cases hji : j = i
    · subst hji; rw [get_i] at hj; cases hj; exact hself
    · rw [get_ne j hji] at hj; exact hs.self j o hj
  · intro a b oa ob hab ha hb r hr hmem
    by_cases hai : a = i
    · subst hai
      rw [get_i] at ha; cases ha
      have hbi : b ≠ a := fun e => hab e.symm
      rw [get_ne b hbi] at hb
      rcases hown r hr with h1 | h1
      · exact hs.sep a b s ob hab hi hb r h1 hmem
      · have h2 : r < σ.heap.size := hs.valid b ob hb r hmem
        exact absurd (Nat.lt_of_lt_of_le h2 h1) (Nat.lt_irrefl _)
    · rw [get_ne a hai] at ha
      by_cases hbi : b = i
      · subst hbi
        rw [get_i] at hb; cases hb
        rcases mem_refs.mp hmem with h1 | h1
        · rcases hown r h1 with h2 | h2
          · exact hs.sep a b oa s hab ha hi r hr (mem_refs.mpr (Or.inl h2))
          · have h3 : r < σ.heap.size := hs.valid a oa ha r (mem_refs.mpr (Or.inl hr))
            exact absurd (Nat.lt_of_lt_of_le h3 h2) (Nat.lt_irrefl _)
        · rcases hsh r h1 with h2 | ⟨j, o, hj, hjo, h2⟩ | h2
          · exact hs.sep a b oa s hab ha hi r hr (mem_refs.mpr (Or.inr h2))
          · by_cases haj : a = j
            · subst haj
              rw [ha] at hjo; cases hjo
              exact hs.self a oa ha r hr h2
            · exact hs.sep a j oa o haj ha hjo r hr (mem_refs.mpr (Or.inr h2))
          · have h3 : r < σ.heap.size := hs.valid a oa ha r (mem_refs.mpr (Or.inl hr))
            exact absurd (Nat.lt_of_lt_of_le h3 h2) (Nat.lt_irrefl _)
      · rw [get_ne b hbi] at hb
        exact hs.sep a b oa ob hab ha hb r hr hmem

/-- **`Sep` is preserved by every operation** -/
theorem Sep.step {cls : HClass C B} (laws : HLaws cls) {σ : Sys cls} (hs : Sep σ) (op : Op B) :
    Sep (σ.step op) := by
  cases op with
  | make =>
    obtain ⟨ext, hfresh, hv, hself⟩ := laws.make_spec σ.heap
    simp only [Sys.step]
    have hlen : ∀ j o, (σ.objs ++ [(cls.make σ.heap).2])[j]? = some o →
        (j < σ.objs.length ∧ σ.objs[j]? = some o) ∨ (j = σ.objs.length ∧ o = (cls.make σ.heap).2) := by
      intro j o hj
      rcases Nat.lt_or_ge j σ.objs.length with h | h
      · left; rw [List.getElem?_append_left h] at hj; exact ⟨h, hj⟩
      · right
        rw [List.getElem?_append_right h] at hj
        have : j - σ.objs.length = 0 := by
          rcases Nat.eq_zero_or_pos (j - σ.objs.length) with h0 | h0
          · exact h0
          · rw [List.getElem?_eq_none_iff.mpr (by simp; omega)] at hj; cases hj
        rw [this] at hj
        simp at hj
        exact ⟨by omega, hj.symm⟩
    refine ⟨?_, ?_, ?_⟩
    · intro j o hj
      rcases hlen j o hj with ⟨_, h⟩ | ⟨_, rfl⟩
      · exact (hs.valid j o h).mono ext.1
      · exact hv
    · intro j o hj
      rcases hlen j o hj with ⟨_, h⟩ | ⟨_, rfl⟩
      · exact hs.self j o h
      · exact hself
    · intro a b oa ob hab ha hb r hr hmem
      rcases hlen a oa ha with ⟨hla, ha'⟩ | ⟨hla, rfl⟩ <;> rcases hlen b ob hb with ⟨hlb, hb'⟩ | ⟨hlb, rfl⟩
      · exact hs.sep a b oa ob hab ha' hb' r hr hmem
      · have h1 : r < σ.heap.size := hs.valid a oa ha' r (mem_refs.mpr (Or.inl hr))
        have h2 : σ.heap.size ≤ r := hfresh r hmem
        exact absurd (Nat.lt_of_lt_of_le h1 h2) (Nat.lt_irrefl _)
      · have h1 : r < σ.heap.size := hs.valid b ob hb' r hmem
        have h2 : σ.heap.size ≤ r := hfresh r (mem_refs.mpr (Or.inl hr))
        exact absurd (Nat.lt_of_lt_of_le h1 h2) (Nat.lt_irrefl _)
      · omega
  | add i b =>
    simp only [Sys.step]
    cases hi : σ.objs[i]? with
    | none => exact hs
    | some o =>
      obtain ⟨ext, hown, hsh, hv, hself⟩ := laws.add_spec σ.heap o b (hs.valid i o hi) (hs.self i o hi)
      exact hs.set hi ext hown (fun r hr => (hsh r hr).elim Or.inl (fun h => Or.inr (Or.inr h))) hv hself
  | merge i j =>
    simp only [Sys.step]
    by_cases hij : i = j
    · rw [if_pos hij]; exact hs
    · rw [if_neg hij]
      cases hi : σ.objs[i]? with
      | none => exact hs
      | some s =>
        cases hj : σ.objs[j]? with
        | none => exact hs
        | some o =>
          obtain ⟨ext, hown, hsh, hv, hself⟩ := laws.merge_spec σ.heap s o (hs.valid i s hi)
            (hs.valid j o hj) (hs.self i s hi) (hs.self j o hj) (hs.sep i j s o hij hi hj)
            (hs.sep j i o s (Ne.symm hij) hj hi)
          refine hs.set hi ext hown (fun r hr => ?_) hv hself
          rcases hsh r hr with h | h | h
          · exact Or.inl h
          · exact Or.inr (Or.inl ⟨j, o, Ne.symm hij, hj, h⟩)
          · exact Or.inr (Or.inr h)

/-- **separation holds after every sequence of operations on any number of accumulators** -/
theorem Sep.run {cls : HClass C B} (laws : HLaws cls) (ops : List (Op B)) :
    Sep ((Sys.init cls).run ops) := by
  have : ∀ (σ : Sys cls), Sep σ → Sep (σ.run ops) := by
    induction ops with
    | nil => intro σ h; exact h
    | cons op ops ih => intro σ h; exact ih _ (h.step laws op)
  exact this _ (Sep.init cls)

/-- **frame**: an operation leaves every accumulator other than its receiver — the operand of a
`merge` included — with the same record and the same content in every cell it references -/
theorem frame_step {cls : HClass C B} (laws : HLaws cls) {σ : Sys cls} (hs : Sep σ) (op : Op B)
    (j : Nat) (oj : cls.Obj) (hj : σ.objs[j]? = some oj) (hrecv : op.receiver ≠ some j) :
    (σ.step op).objs[j]? = some oj ∧
      ∀ r ∈ (cls.fp oj).refs, (σ.step op).heap.read r = σ.heap.read r := by
  have hlt : j < σ.objs.length := by
    rcases Nat.lt_or_ge j σ.objs.length with h | h
    · exact h
    · rw [List.getElem?_eq_none_iff.mpr h] at hj; cases hj
  cases op with
  | make =>
    obtain ⟨ext, _, _, _⟩ := laws.make_spec σ.heap
    simp only [Sys.step]
    exact ⟨by rw [List.getElem?_append_left hlt]; exact hj,
      fun r hr => ext.2 r (hs.valid j oj hj r hr) (by simp)⟩
  | add i b =>
    have hij : i ≠ j := fun e => hrecv (by simp [Op.receiver, e])
    simp only [Sys.step]
    cases hi : σ.objs[i]? with
    | none => exact ⟨hj, fun _ _ => rfl⟩
    | some o =>
      obtain ⟨ext, _, _, _, _⟩ := laws.add_spec σ.heap o b (hs.valid i o hi) (hs.self i o hi)
      refine ⟨by simp only []; rw [List.getElem?_set_ne hij]; exact hj, fun r hr => ?_⟩
      exact ext.2 r (hs.valid j oj hj r hr) (fun hm => hs.sep i j o oj hij hi hj r hm hr)
  | merge i k =>
    have hij : i ≠ j := fun e => hrecv (by simp [Op.receiver, e])
    simp only [Sys.step]
    by_cases hik : i = k
    · rw [if_pos hik]; exact ⟨hj, fun _ _ => rfl⟩
    · rw [if_neg hik]
      cases hi : σ.objs[i]? with
      | none => exact ⟨hj, fun _ _ => rfl⟩
      | some s =>
        cases hk : σ.objs[k]? with
        | none => exact ⟨hj, fun _ _ => rfl⟩
        | some o =>
          obtain ⟨ext, _, _, _, _⟩ := laws.merge_spec σ.heap s o (hs.valid i s hi)
            (hs.valid k o hk) (hs.self i s hi) (hs.self k o hk) (hs.sep i k s o hik hi hk)
            (hs.sep k i o s (Ne.symm hik) hk hi)
          refine ⟨by simp only []; rw [List.getElem?_set_ne hij]; exact hj, fun r hr => ?_⟩
          exact ext.2 r (hs.valid j oj hj r hr) (fun hm => hs.sep i j s oj hij hi hj r hm hr)

end MlModel.Agg.Heap
