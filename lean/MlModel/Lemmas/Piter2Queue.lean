import MlModel.Lemmas.QueueLiveTweak
import MlModel.Lemmas.QueueLiveView
/-!
# Queue-level lemmas for the two-queue LTS (`Model/Piter2.lean`)

What the composition of TWO `IteratorQueue` instances needs of ONE queue's no-lost-wake-up invariant `Queue.Live`,
beyond `QueueLiveTweak.lean` / `QueueLiveView.lean`:

* `OffQ`, `live_swap_off` — a slot whose thread is *off the queue* (inert, between two `get_batch` calls, a finished
  consumer or stopper, a stopper about to start) may be replaced by another such thread: this is how a second-level
  task enters and leaves the INPUT queue (each `next(DequeueIterator(Q1))` is one `get_batch` call of a fresh
  consumer; afterwards its slot is inert again) and how `_maybe_stop_upstream` appears;
* `live_fail_any` — `next(iterator)` raised ANY exception (the queue LTS itself only raises `ValueError`);
* `live_to_stopper_nc` — `live_to_stopper` when the other slots are producers OR inert;
* `stuck_parked_ex`, `dead_shape` — the shape of a configuration in which every thread is blocked or *excused*
  (not started / inert, or inside `next(iterator)`): all locks free, nobody notified, and
  - if a consumer is parked, enqueueing is not done, the queue is empty and some PRODUCER is excused;
  - if a producer is parked, enqueueing is not done, the queue is not empty and no consumer is parked.
  (`dead_all_done` is the special case without excused producers and with a consumer that cannot be elsewhere.)
-/
namespace MlModel.Queue

/-! ## threads that are off the queue -/

/-- nothing `Live` reads distinguishes the thread from an inert slot (except `activeC`) -/
structure OffQ (t : Thread) : Prop where
  hold : ∀ l, holds l t.pc = false
  cw : consWakePc t.pc = false
  pw : prodWakePc t.pc = false
  se : sawEmpty t = false
  sf : sawFull t = false
  dd : debtD t = false
  da : debtDAll t = false
  de : debtE t = false
  cp : commitP t = false
  ea : debtEAll t = false
  ip : isProd t = false
  ps : pastS t = false
  pt : pastT t = false
  er : early t = false

theorem offQ_inert : OffQ inertT := by
  obtain ⟨a1, a2, a3, a4, a5, a6, a7, a8, a9, a10, a11, a12, a13, a14, -, -⟩ := inert_class
  exact ⟨a11, a9, a10, a1, a2, a3, a4, a5, a6, a7, a8, a13, a14, a12⟩

/-- not a producer, at a program point outside every call -/
theorem offQ_of_pc {t : Thread} (hk : t.prog.kind ≠ .producer)
    (hpc : t.pc = .start ∨ t.pc = .done ∨ t.pc = .bAcq ∨ t.pc = .mAcq) : OffQ t := by
  have hip : isProd t = false := by simpa [isProd] using hk
  rcases hpc with h | h | h | h <;>
    exact ⟨fun l => by cases l <;> simp [holds, h], by simp [consWakePc, h], by simp [prodWakePc, h],
      by simp [sawEmpty, h], by simp [sawFull, h], by simp [debtD, h], by simp [debtDAll, h], by simp [debtE, h],
      by simp [commitP, h], by simp [debtEAll, h], hip, by simp [pastS, hip], by simp [pastT, hip],
      by simp [early, hip]⟩

theorem OffQ.same {a b : Thread} (ha : OffQ a) (hb : OffQ b) : SameClass a b :=
  ⟨fun l => by rw [ha.hold, hb.hold], by rw [ha.cw, hb.cw], by rw [ha.pw, hb.pw], by rw [ha.se, hb.se],
    by rw [ha.sf, hb.sf], by rw [ha.dd, hb.dd], by rw [ha.da, hb.da], by rw [ha.de, hb.de], by rw [ha.cp, hb.cp],
    by rw [ha.ea, hb.ea], by rw [ha.ip, hb.ip], by rw [ha.ps, hb.ps], by rw [ha.pt, hb.pt], by rw [ha.er, hb.er]⟩

/-- **a thread off the queue may be replaced by another one** -/
theorem live_swap_off {c : Cfg} {tid : Tid} {a b : Thread} (hv : Live c) (ha : c.ths[tid]? = some a)
    (hoa : OffQ a) (hob : OffQ b)
    (hac : activeC a = true → activeC b = true ∨ (c.sh.deqWait = [] ∧ ¬ anyT c sawEmpty))
    (htok : TOK b) (htl : TL b) (hx : XOK c.sh b) :
    Live { sh := c.sh, ths := c.ths.set tid b } :=
  live_set hv ha (hoa.same hob) hac htok htl hx

/-- if no thread but `tid` is a consumer and `tid` neither waits nor has decided to, no consumer waits -/
theorem no_waiting_cons_nc {c : Cfg} {tid : Tid} {a : Thread} (hb : Base c) (ha : c.ths[tid]? = some a)
    (hothers : ∀ (j : Nat) (u : Thread), j ≠ tid → c.ths[j]? = some u → isCons u = false)
    (hcw : consWakePc a.pc = false) (hse : sawEmpty a = false) :
    c.sh.deqWait = [] ∧ ¬ anyT c sawEmpty := by
  have key : ∀ (j : Nat) (u : Thread), c.ths[j]? = some u → consWakePc u.pc = false ∧ sawEmpty u = false := by
    intro j u hu
    by_cases hj : j = tid
    · subst hj; rw [ha] at hu; cases hu; exact ⟨hcw, hse⟩
    · have hk := hothers j u hj hu
      have htok := (hb.tok u (List.mem_of_getElem? hu)).kind
      constructor
      · cases hw : consWakePc u.pc with
        | false => rfl
        | true =>
          rcases consWake_kind u.pc hw with h | h <;> (have := htok _ h; simp [isCons, this] at hk)
      · cases hw : sawEmpty u with
        | false => rfl
        | true =>
          rcases sawEmpty_kind u hw with h | h <;> (have := htok _ h; simp [isCons, this] at hk)
  constructor
  · rw [List.eq_nil_iff_forall_not_mem]
    intro x hx
    obtain ⟨u, hu, hw⟩ := (hb.wait.2.2.1 x).mp (by unfold wlD; exact List.mem_append_right _ hx)
    rw [(key x u hu).1] at hw; cases hw
  · rintro ⟨u, hu, hs⟩
    obtain ⟨j, hj⟩ := List.getElem?_of_mem hu
    rw [(key j u hj).2] at hs; cases hs

/-- `live_to_stopper` when the other slots hold no consumer (producers or inert slots) -/
theorem live_to_stopper_nc {c : Cfg} {tid : Tid} {a b : Thread} (hv : Live c) (ha : c.ths[tid]? = some a)
    (hothers : ∀ (j : Nat) (u : Thread), j ≠ tid → c.ths[j]? = some u → isCons u = false)
    (hpc : a.pc = .start ∨ a.pc = .done ∨ a.pc = .bAcq) (hk : a.prog.kind = .batch)
    (hbpc : b.pc = .mAcq) (hbprog : b.prog = .stopper none) (hbres : b.result = []) :
    Live { sh := c.sh, ths := c.ths.set tid b } := by
  have hoa : OffQ a := offQ_of_pc (by rw [hk]; simp) (by rcases hpc with h | h | h <;> simp [h])
  have hob : OffQ b := offQ_of_pc (by rw [hbprog]; simp [Prog.kind]) (by simp [hbpc])
  have hcw : consWakePc a.pc = false := hoa.cw
  refine live_swap_off hv ha hoa hob (fun _ => Or.inr (no_waiting_cons_nc hv.base ha hothers hcw hoa.se)) ?_ ?_ ?_
  · exact ⟨fun k hk' => by rw [hbpc] at hk'; simp [pcKind] at hk'; rw [hbprog, ← hk']; rfl, fun _ => hbres⟩
  · unfold TL; rw [hbpc]; trivial
  · unfold XOK; simp [hbpc, armed]

/-! ## `next(iterator)` raised any exception -/

/-- the value of the recorded exception is not read by `Live` -/
theorem live_exc_val {s : Shared} {ths : List Thread} (e1 e2 : ErrKind)
    (hv : Live { sh := { s with exc := some e1 }, ths := ths }) :
    Live { sh := { s with exc := some e2 }, ths := ths } := by
  obtain ⟨⟨hl, h1, h2, h3, h4, h5, h6, h7⟩, j1, j2, k1, k2⟩ := hv
  exact ⟨⟨hl, h1, h2, h3, h4, h5, h6, h7⟩, j1, j2, k1, k2⟩

/-- the fields `Live` reads of a thread, the exception to re-raise only up to its presence -/
structure SameFieldsR (a b : Thread) : Prop where
  pc : b.pc = a.pc
  prog : b.prog = a.prog
  x : b.x = a.x
  rets : b.rets.isEmpty = a.rets.isEmpty
  reraise : b.reraise.isSome = a.reraise.isSome
  result : b.result = a.result

theorem sameFieldsR_class {a b : Thread} (h : SameFieldsR a b) :
    SameClass a b ∧ activeC b = activeC a ∧ (TOK a → TOK b) ∧ (TL a → TL b) ∧ (∀ s, XOK s a → XOK s b) := by
  obtain ⟨h1, h2, h3, h4, h5, h6⟩ := h
  have hk : isProd b = isProd a := by simp [isProd, h2]
  have hco : isCons b = isCons a := by simp [isCons, h2]
  have hso : isStopper b = isStopper a := by simp [isStopper, h2]
  have hst : stopped b = stopped a := by simp [stopped, stoppedOf, h4, h5]
  have harm : armed b = armed a := by simp [armed, h1, h3, hco]
  refine ⟨⟨fun l => by rw [h1], by rw [h1], by rw [h1], ?_, ?_, ?_, ?_, ?_, ?_, ?_, hk, ?_, ?_, ?_⟩, ?_, ?_, ?_, ?_⟩
  · simp [sawEmpty, h1, h3]
  · simp [sawFull, h1]
  · simp [debtD, h1]
  · simp [debtDAll, h1, h5]
  · simp [debtE, h1, h6]
  · simp [commitP, h1]
  · simp [debtEAll, h1, h5]
  · simp [pastS, hk, h1]
  · simp [pastT, hk, h1, hst]
  · simp [early, hk, h1, hst]
  · simp [activeC, h1, h3, hco]
  · intro t; exact ⟨by rw [h1, h2]; exact t.kind, by rw [h2, h6]; exact t.res⟩
  · intro t; unfold TL at t ⊢; rw [h1, hst]; exact t
  · intro s t; unfold XOK at t ⊢; rw [h1, h5, h3, hso, harm]; exact t

theorem live_fieldsR {c : Cfg} {tid : Tid} {a b : Thread} (hv : Live c) (ha : c.ths[tid]? = some a)
    (h : SameFieldsR a b) : Live { sh := c.sh, ths := c.ths.set tid b } := by
  obtain ⟨hc, hac, h1, h2, h3⟩ := sameFieldsR_class h
  have hmem : a ∈ c.ths := List.mem_of_getElem? ha
  exact live_set hv ha hc (fun h => Or.inl (by rw [hac]; exact h)) (h1 (hv.base.tok a hmem))
    (h2 (hv.base.tl a hmem)) (h3 _ (hv.base.xok a hmem))

/-- `next(iterator)` raised `e` (any kind): `self._exception = e`, then `_stop_enqueue()`, then `raise e` -/
theorem live_fail_any {c : Cfg} {tid : Tid} {a b : Thread} (e : ErrKind) (hv : Live c) (hto : c.sh.timeout = false)
    (hig : c.sh.ignoreError = false) (ha : c.ths[tid]? = some a) (hpc : a.pc = .eNext)
    (hb : SameFieldsR { a with pc := .tAcq, rets := [], reraise := some e } b) :
    Live { sh := { c.sh with exc := some e }, ths := c.ths.set tid b } := by
  have htid : tid < c.ths.length := (List.getElem?_eq_some_iff.mp ha).1
  have h1 := live_enext_fail (b := { a with pc := .tAcq, rets := [], reraise := some .value }) hv hto hig ha hpc
    ⟨rfl, rfl, rfl, rfl, rfl, rfl⟩
  have h2 := live_exc_val .value e h1
  have := live_fieldsR (tid := tid) (a := { a with pc := .tAcq, rets := [], reraise := some .value }) (b := b) h2
    (by simp [htid]) ⟨hb.pc, hb.prog, hb.x, hb.rets, hb.reraise, hb.result⟩
  simpa [List.set_set] using this

/-! ## the shape of a configuration whose threads are blocked or excused -/

/-- a thread whose pending operation is not an operation of this queue: not started (and not a consumer — a consumer
at `start` counts as active), or inside `next(iterator)` -/
def Excused (t : Thread) : Prop := (t.pc = .start ∧ isCons t = false) ∨ t.pc = .eNext

theorem excused_inert : Excused inertT := Or.inl ⟨rfl, by simp [inertT, isCons, Prog.kind]⟩

theorem Excused.holds {t : Thread} (h : Excused t) (l : Lk) : holds l t.pc = false := by
  rcases h with ⟨h, -⟩ | h <;> rw [h] <;> cases l <;> simp [Queue.holds]

theorem Excused.notWake {t : Thread} (h : Excused t) : consWakePc t.pc = false ∧ prodWakePc t.pc = false := by
  rcases h with ⟨h, -⟩ | h <;> rw [h] <;> simp [consWakePc, prodWakePc]

theorem stuck_parked_ex {c : Cfg} (hl : LockInv c)
    (hdead : ∀ (tid : Tid) (t : Thread), c.ths[tid]? = some t → Excused t ∨ (stepThread c.sh t tid false).isSome = false) :
    (∀ l, c.sh.owner l = none) ∧
    ∀ tid t, c.ths[tid]? = some t →
      Excused t ∨ t.pc = .done ∨ (consWakePc t.pc = true ∧ tid ∉ c.sh.deqNotified) ∨
        (prodWakePc t.pc = true ∧ tid ∉ c.sh.enqNotified) := by
  have hA : ∀ tid t, c.ths[tid]? = some t → Excused t ∨ blocked c.sh t tid = true := by
    intro tid t ht
    rcases hdead tid t ht with h | h
    · exact Or.inl h
    · rcases stepThread_en (hl.1 tid t ht) with h' | h'
      · rw [h] at h'; cases h'
      · exact Or.inr h'
  have hst : c.sh.owner .st = none := by
    cases ho : c.sh.owner .st with
    | none => rfl
    | some u =>
      exfalso
      have hu := hl.2 .st u ho
      obtain ⟨tu, htu⟩ : ∃ tu, c.ths[u]? = some tu := ⟨c.ths[u], List.getElem?_eq_getElem hu⟩
      have hh := (hl.1 u tu htu .st).mp ho
      obtain ⟨h1, h2, h3, h4⟩ := holds_st_pc tu.pc hh
      rcases hA u tu htu with h | this
      · rw [h.holds] at hh; cases hh
      · simp [blocked, acqBlocked, h1, h2, h3, h4] at this
  have hcond : ∀ l, l ≠ .st → c.sh.owner l = none := by
    intro l hne
    cases ho : c.sh.owner l with
    | none => rfl
    | some u =>
      exfalso
      have hu := hl.2 l u ho
      obtain ⟨tu, htu⟩ : ∃ tu, c.ths[u]? = some tu := ⟨c.ths[u], List.getElem?_eq_getElem hu⟩
      have hh := (hl.1 u tu htu l).mp ho
      rcases hA u tu htu with h | this
      · rw [h.holds] at hh; cases hh
      · cases l with
        | st => exact hne rfl
        | deq =>
          obtain ⟨h1, h2, h3, h4⟩ := holds_deq_pc tu.pc hh
          rcases h2 with h2 | h2 <;> simp [blocked, acqBlocked, h1, h2, h3, h4, hst] at this
        | enq =>
          obtain ⟨h1, h2, h3, h4⟩ := holds_enq_pc tu.pc hh
          rcases h2 with h2 | h2 <;> simp [blocked, acqBlocked, h1, h2, h3, h4, hst] at this
  have hall : ∀ l, c.sh.owner l = none := by
    intro l; cases l
    · exact hcond .deq (by simp)
    · exact hcond .enq (by simp)
    · exact hst
  refine ⟨hall, fun tid t ht => ?_⟩
  rcases hA tid t ht with h | this
  · exact Or.inl h
  right
  unfold blocked at this
  have hacq : acqBlocked c.sh t.pc = false := by
    unfold acqBlocked
    cases acqPc t.pc with
    | none => rfl
    | some l => simp [hall l]
  rw [hacq] at this
  simp only [hall, Option.isSome_none, Bool.false_or, Bool.or_false, Bool.or_eq_true,
    Bool.and_eq_true, beq_iff_eq, Bool.not_eq_true', List.contains_eq_mem, decide_eq_false_iff_not] at this
  rcases this with (h | h) | h
  · exact Or.inl h
  · exact Or.inr (Or.inl h)
  · exact Or.inr (Or.inr h)

theorem parked_class_ex (t : Thread)
    (h : Excused t ∨ t.pc = .done ∨ consWakePc t.pc = true ∨ prodWakePc t.pc = true) :
    sawEmpty t = false ∧ sawFull t = false ∧ activeC t = false ∧ debtD t = false ∧
    debtDAll t = false ∧ debtE t = false ∧ commitP t = false ∧ debtEAll t = false := by
  rcases h with (⟨h, hc⟩ | h) | h
  · simp [sawEmpty, sawFull, activeC, debtD, debtDAll, debtE, commitP, debtEAll, h, hc]
  · simp [sawEmpty, sawFull, activeC, debtD, debtDAll, debtE, commitP, debtEAll, h]
  · exact parked_class t h

/-- the shape of a dead configuration of ONE queue seen through an embedding -/
structure DeadShape (c : Cfg) : Prop where
  free : ∀ l, c.sh.owner l = none
  noD : c.sh.deqNotified = []
  noE : c.sh.enqNotified = []
  cls : ∀ (tid : Tid) (t : Thread), c.ths[tid]? = some t →
    Excused t ∨ t.pc = .done ∨ consWakePc t.pc = true ∨ prodWakePc t.pc = true
  cwait : ∀ (tid : Tid) (t : Thread), c.ths[tid]? = some t → consWakePc t.pc = true → c.sh.deqWait ≠ []
  pwait : ∀ (tid : Tid) (t : Thread), c.ths[tid]? = some t → prodWakePc t.pc = true → c.sh.enqWait ≠ []
  /-- a parked consumer waits for a producer that is not running on this queue -/
  consParked : c.sh.deqWait ≠ [] →
    c.sh.enqueueDone = false ∧ c.sh.q = [] ∧ c.sh.enqWait = [] ∧ ∃ t ∈ c.ths, isProd t = true ∧ Excused t
  /-- a parked producer waits for a consumer that is not running on this queue -/
  prodParked : c.sh.enqWait ≠ [] → c.sh.enqueueDone = false ∧ c.sh.q ≠ [] ∧ c.sh.deqWait = [] ∧ c.sh.cap ≠ 0

theorem dead_shape {c : Cfg} (hv : Live c) (hP : 0 < c.ths.countP isProd)
    (hdead : ∀ (tid : Tid) (t : Thread), c.ths[tid]? = some t → Excused t ∨ (stepThread c.sh t tid false).isSome = false) :
    DeadShape c := by
  have hb := hv.base
  obtain ⟨hfree, hpark⟩ := stuck_parked_ex hb.lock hdead
  obtain ⟨ndD, ndE, memD, memE⟩ := hb.wait
  have hpark' : ∀ (tid : Tid) (t : Thread), c.ths[tid]? = some t →
      Excused t ∨ t.pc = .done ∨ consWakePc t.pc = true ∨ prodWakePc t.pc = true := by
    intro tid t ht
    rcases hpark tid t ht with h | h | h | h
    · exact Or.inl h
    · exact Or.inr (Or.inl h)
    · exact Or.inr (Or.inr (Or.inl h.1))
    · exact Or.inr (Or.inr (Or.inr h.1))
  have hno : ∀ P : Thread → Bool,
      (∀ t : Thread, (Excused t ∨ t.pc = .done ∨ consWakePc t.pc = true ∨ prodWakePc t.pc = true) → P t = false) →
      ¬ anyT c P := by
    rintro P hPf ⟨t, ht, hp⟩
    obtain ⟨j, hj⟩ := List.getElem?_of_mem ht
    rw [hPf t (hpark' j t hj)] at hp; cases hp
  have hdn : c.sh.deqNotified = [] := by
    rw [List.eq_nil_iff_forall_not_mem]
    intro x hx
    obtain ⟨t, ht, hc⟩ := (memD x).mp (by unfold wlD; exact List.mem_append_left _ hx)
    rcases hpark x t ht with h | h | h | h
    · rw [h.notWake.1] at hc; cases hc
    · rw [h] at hc; simp [consWakePc] at hc
    · exact h.2 hx
    · have := (wake_kind t (hb.tok t (List.mem_of_getElem? ht)))
      have a := (this.1 hc).2.2; have b := (this.2 h.1).2.2
      rw [a] at b; cases b
  have hen : c.sh.enqNotified = [] := by
    rw [List.eq_nil_iff_forall_not_mem]
    intro x hx
    obtain ⟨t, ht, hc⟩ := (memE x).mp (by unfold wlE; exact List.mem_append_left _ hx)
    rcases hpark x t ht with h | h | h | h
    · rw [h.notWake.2] at hc; cases hc
    · rw [h] at hc; simp [prodWakePc] at hc
    · have := (wake_kind t (hb.tok t (List.mem_of_getElem? ht)))
      have a := (this.1 h.1).2.2; have b := (this.2 hc).2.2
      rw [a] at b; cases b
    · exact h.2 hx
  have hcw : ∀ (tid : Tid) (t : Thread), c.ths[tid]? = some t → consWakePc t.pc = true → c.sh.deqWait ≠ [] := by
    intro tid t ht hc
    have : tid ∈ wlD c.sh := (memD tid).mpr ⟨t, ht, hc⟩
    unfold wlD at this; rw [hdn, List.nil_append] at this
    intro e; rw [e] at this; cases this
  have hpw : ∀ (tid : Tid) (t : Thread), c.ths[tid]? = some t → prodWakePc t.pc = true → c.sh.enqWait ≠ [] := by
    intro tid t ht hc
    have : tid ∈ wlE c.sh := (memE tid).mpr ⟨t, ht, hc⟩
    unfold wlE at this; rw [hen, List.nil_append] at this
    intro e; rw [e] at this; cases this
  have nAC := hno activeC (fun t h => (parked_class_ex t h).2.2.1)
  have nDD := hno debtD (fun t h => (parked_class_ex t h).2.2.2.1)
  have nDA := hno debtDAll (fun t h => (parked_class_ex t h).2.2.2.2.1)
  have nDE := hno debtE (fun t h => (parked_class_ex t h).2.2.2.2.2.1)
  have nCP := hno commitP (fun t h => (parked_class_ex t h).2.2.2.2.2.2.1)
  have nEA := hno debtEAll (fun t h => (parked_class_ex t h).2.2.2.2.2.2.2)
  -- a parked producer: not done, queue not empty
  have hprod : c.sh.enqWait ≠ [] → c.sh.enqueueDone = false ∧ c.sh.q ≠ [] ∧ c.sh.cap ≠ 0 := by
    intro hPP
    have hnd : c.sh.enqueueDone = false := by
      cases hd : c.sh.enqueueDone with
      | false => rfl
      | true => exact absurd (hv.k2 (Or.inl hPP) hd) nEA
    obtain ⟨x, hx⟩ := List.exists_mem_of_ne_nil _ hPP
    obtain ⟨t, ht, hc⟩ := (memE x).mp (by unfold wlE; exact List.mem_append_right _ hx)
    have hcap : c.sh.cap ≠ 0 := XOK_cap (hb.xok t (List.mem_of_getElem? ht)) hc
    refine ⟨hnd, ?_, hcap⟩
    rcases hv.k1 (Or.inl hPP) with h | h | h | h | h
    · exact h
    · exact absurd hen h
    · exact absurd h nDE
    · exact absurd h nCP
    · rw [hnd] at h; cases h
  -- a parked consumer: not done, queue empty, an excused producer
  have hcons : c.sh.deqWait ≠ [] →
      c.sh.enqueueDone = false ∧ c.sh.q = [] ∧ c.sh.enqWait = [] ∧ ∃ t ∈ c.ths, isProd t = true ∧ Excused t := by
    intro hPC
    have hnd : c.sh.enqueueDone = false := by
      cases hd : c.sh.enqueueDone with
      | false => rfl
      | true => exact absurd (hv.j2 (Or.inl hPC) hd) nDA
    have hq : c.sh.q = [] := by
      cases hqq : c.sh.q with
      | nil => rfl
      | cons a l =>
        exfalso
        rcases hv.j1 (Or.inl hPC) (by rw [hqq]; simp) with h | h | h | h
        · exact h hdn
        · exact nAC h
        · exact nDD h
        · rw [hnd] at h; cases h
    have hEW : c.sh.enqWait = [] := by
      cases hw : c.sh.enqWait with
      | nil => rfl
      | cons a l => exact absurd hq (hprod (by rw [hw]; simp)).2.1
    refine ⟨hnd, hq, hEW, ?_⟩
    have hnd' : ¬ c.sh.enqueueDone = true := by rw [hnd]; simp
    rw [enqueueDone_iff] at hnd'
    have hsr : c.sh.stopRequested = false := by
      cases h : c.sh.stopRequested with
      | false => rfl
      | true => exact absurd (Or.inr (Or.inl h)) hnd'
    obtain ⟨e1, e2, e3⟩ := hb.cnt hsr
    have hle1 : c.ths.countP pastT ≤ c.ths.countP pastS :=
      List.countP_mono_left (fun y _ h => pastT_pastS y h)
    have hle2 : c.ths.countP pastS ≤ c.ths.countP isProd :=
      List.countP_mono_left (fun y _ h => pastS_isProd y h)
    have hlt : c.ths.countP pastT < c.ths.countP isProd := by
      rcases Nat.lt_or_ge (c.ths.countP pastT) (c.ths.countP isProd) with h | h
      · exact h
      · exfalso
        apply hnd'
        right; right
        rw [e1, e2, e3]
        exact ⟨by omega, by omega, by omega⟩
    obtain ⟨a, ha, hap, hat⟩ := exists_of_countP_lt pastT isProd hlt
    obtain ⟨j, hj⟩ := List.getElem?_of_mem ha
    have hk := wake_kind a (hb.tok a ha)
    rcases hpark' j a hj with h | h | h | h
    · exact ⟨a, ha, hap, h⟩
    · exfalso
      have : c.sh.enqueueDone = true := by
        apply hb.early
        refine ⟨a, ha, ?_⟩
        unfold early; unfold pastT at hat
        rw [h] at hat ⊢
        simp only [hap, Bool.true_and] at hat ⊢
        simp [hat]
      rw [hnd] at this; cases this
    · rw [(hk.1 h).2.2] at hap; cases hap
    · exact absurd hEW (hpw j a hj h)
  refine ⟨hfree, hdn, hen, hpark', hcw, hpw, hcons, ?_⟩
  intro hPP
  obtain ⟨h1, h2, h3⟩ := hprod hPP
  refine ⟨h1, h2, ?_, h3⟩
  cases hw : c.sh.deqWait with
  | nil => rfl
  | cons a l => exact absurd (hcons (by rw [hw]; simp)).2.1 h2

/-! ## program points after a step -/

/-- no step returns to `start`; a `get_batch` consumer ends only by raising -/
def PcStep (s : Shared) (t : Thread) (tid : Tid) (alt : Bool) : Prop :=
  ∀ lbl s' t', stepThread s t tid alt = some (lbl, s', t') →
    t'.pc ≠ .start ∧ (pcKind t.pc = some .batch → t.pc ≠ .bRaise → t'.pc ≠ .done)

set_option hygiene false in
macro "pc_group" : tactic => `(tactic| (
  intro lbl s' t' h
  unfold stepThread at h
  cases hpc : t.pc <;> (try (simp only [hpc, Pc.group] at hg; omega)) <;>
    simp only [hpc] at h <;>
    (try simp only [acquire, release, notify, waitPark, waitWake, goto, enqLoop, putLoop, batchLoop,
      afterRaise, afterValue] at h) <;>
    (repeat' split at h) <;>
    (try simp only [Option.some.injEq, Prod.mk.injEq, reduceCtorEq] at h) <;>
    (try (obtain ⟨-, rfl, rfl⟩ := h)) <;>
    simp_all [pcKind]))

theorem pc_g0 {s t tid alt} (hg : t.pc.group = 0) : PcStep s t tid alt := by pc_group
theorem pc_g1 {s t tid alt} (hg : t.pc.group = 1) : PcStep s t tid alt := by pc_group
theorem pc_g2 {s t tid alt} (hg : t.pc.group = 2) : PcStep s t tid alt := by pc_group
theorem pc_g3 {s t tid alt} (hg : t.pc.group = 3) : PcStep s t tid alt := by pc_group
theorem pc_g4 {s t tid alt} (hg : t.pc.group = 4) : PcStep s t tid alt := by pc_group
theorem pc_g5 {s t tid alt} (hg : t.pc.group = 5) : PcStep s t tid alt := by pc_group
theorem pc_g6 {s t tid alt} (hg : t.pc.group = 6) : PcStep s t tid alt := by pc_group
theorem pc_g7 {s t tid alt} (hg : t.pc.group = 7) : PcStep s t tid alt := by pc_group

theorem stepThread_pc {s t tid alt} : PcStep s t tid alt := by
  have h := Pc.group_lt t.pc
  match hg : t.pc.group with
  | 0 => exact pc_g0 hg | 1 => exact pc_g1 hg | 2 => exact pc_g2 hg | 3 => exact pc_g3 hg
  | 4 => exact pc_g4 hg | 5 => exact pc_g5 hg | 6 => exact pc_g6 hg | 7 => exact pc_g7 hg
  | n + 8 => omega

/-- inside `_stop_enqueue` -/
def tRegion : Pc → Bool
  | .tAcq | .tR0 | .tR1 | .tR2 | .tR3 | .tR4 | .tS0 | .tS1 | .tS2 | .tS3 | .tS4 | .tRel => true
  | _ => false

/-- how a thread gets into / moves inside `_stop_enqueue`, and how a producer ends -/
def OutStep (s : Shared) (t : Thread) (tid : Tid) (alt : Bool) : Prop :=
  ∀ lbl s' t', stepThread s t tid alt = some (lbl, s', t') →
    (tRegion t'.pc = true →
      (tRegion t.pc = true ∧ t'.reraise = t.reraise) ∨ t.pc = .eNext ∨ (t.pc = .pRaiseT ∧ t'.reraise.isSome = true)) ∧
    (t'.pc = .done → pcKind t.pc = some .producer →
      (t.pc = .tRel ∧ t'.outcome = t.reraise.map Raise.err) ∨
      (t.pc ≠ .tRel ∧ tRegion t.pc = false ∧ s'.enqueueDone = true ∧ t'.rets = t.rets ∧ t'.reraise = t.reraise)) ∧
    (tRegion t.pc = true → (tRegion t'.pc = true ∨ t'.pc = .done) ∧ t'.reraise = t.reraise ∧ t'.rets = t.rets) ∧
    (pcKind t.pc = some .batch → t.pc ≠ .bRaise → t'.outcome = t.outcome) ∧
    (pcKind t.pc = some .stopper → ∀ r, t'.outcome = some (.stop r) → t.outcome = some (.stop r))

set_option hygiene false in
macro "out_group" : tactic => `(tactic| (
  intro lbl s' t' h
  unfold stepThread at h
  cases hpc : t.pc <;> (try (simp only [hpc, Pc.group] at hg; omega)) <;>
    simp only [hpc] at h <;>
    (try simp only [acquire, release, notify, waitPark, waitWake, goto, enqLoop, putLoop, batchLoop,
      afterRaise, afterValue] at h) <;>
    (repeat' split at h) <;>
    (try simp only [Option.some.injEq, Prod.mk.injEq, reduceCtorEq] at h) <;>
    (try (obtain ⟨-, rfl, rfl⟩ := h)) <;>
    simp_all [pcKind, tRegion, Shared.setOwner]))

theorem out_g0 {s t tid alt} (hg : t.pc.group = 0) : OutStep s t tid alt := by out_group
theorem out_g1 {s t tid alt} (hg : t.pc.group = 1) : OutStep s t tid alt := by out_group
theorem out_g2 {s t tid alt} (hg : t.pc.group = 2) : OutStep s t tid alt := by out_group
theorem out_g3 {s t tid alt} (hg : t.pc.group = 3) : OutStep s t tid alt := by out_group
theorem out_g4 {s t tid alt} (hg : t.pc.group = 4) : OutStep s t tid alt := by out_group
theorem out_g5 {s t tid alt} (hg : t.pc.group = 5) : OutStep s t tid alt := by out_group
theorem out_g6 {s t tid alt} (hg : t.pc.group = 6) : OutStep s t tid alt := by out_group
theorem out_g7 {s t tid alt} (hg : t.pc.group = 7) : OutStep s t tid alt := by out_group

theorem stepThread_out {s t tid alt} : OutStep s t tid alt := by
  have h := Pc.group_lt t.pc
  match hg : t.pc.group with
  | 0 => exact out_g0 hg | 1 => exact out_g1 hg | 2 => exact out_g2 hg | 3 => exact out_g3 hg
  | 4 => exact out_g4 hg | 5 => exact out_g5 hg | 6 => exact out_g6 hg | 7 => exact out_g7 hg
  | n + 8 => omega

/-- the ghost list `returned` is not read by `Live` -/
theorem live_returned {s : Shared} {ths : List Thread} (l : List Nat) (hv : Live { sh := s, ths := ths }) :
    Live { sh := { s with returned := l }, ths := ths } := by
  obtain ⟨⟨hl, h1, h2, h3, h4, h5, h6, h7⟩, j1, j2, k1, k2⟩ := hv
  exact ⟨⟨hl, h1, h2, h3, h4, h5, h6, h7⟩, j1, j2, k1, k2⟩

/-- a continuation that passes `rets` through and touches at most `returned` with it -/
def RetsK (r : List Nat) (k : Shared → Thread → Shared × Thread) : Prop :=
  ∀ s t, ∃ ret', k s { t with rets := r } = ({ (k s t).1 with returned := ret' }, { (k s t).2 with rets := r })

/-- the statement of `stepThread_rets` for one primitive -/
def RetsR (r : List Nat) (a b : StepResult) : Prop :=
  (∀ lbl s' t', a = some (lbl, s', t') → ∃ ret', b = some (lbl, { s' with returned := ret' }, { t' with rets := r })) ∧
  (a = none → b = none)

theorem retsK_goto (r : List Nat) (pc : Pc) : RetsK r (goto pc) := fun s _ => ⟨s.returned, rfl⟩

theorem acquire_rets {s : Shared} {t : Thread} {tid : Tid} {l : Lk} {k : Shared → Thread → Shared × Thread}
    (r : List Nat) (hk : RetsK r k) : RetsR r (acquire s t tid l k) (acquire s { t with rets := r } tid l k) := by
  unfold acquire
  cases ho : s.owner l with
  | some u => exact ⟨fun _ _ _ h => (by cases h), fun _ => rfl⟩
  | none =>
    obtain ⟨ret', hk'⟩ := hk (s.setOwner l (some tid)) t
    refine ⟨fun lbl s' t' h => ?_, fun h => (by simp at h)⟩
    simp only [Option.some.injEq, Prod.mk.injEq] at h
    obtain ⟨rfl, rfl, rfl⟩ := h
    exact ⟨ret', by simp only [hk']⟩

theorem release_rets {s : Shared} {t : Thread} {tid : Tid} {l : Lk} {k : Shared → Thread → Shared × Thread}
    (r : List Nat) (hk : RetsK r k) : RetsR r (release s t tid l k) (release s { t with rets := r } tid l k) := by
  unfold release
  by_cases ho : (s.owner l == some tid) = true
  · simp only [ho, if_true]
    obtain ⟨ret', hk'⟩ := hk (s.setOwner l none) t
    refine ⟨fun lbl s' t' h => ?_, fun h => (by simp at h)⟩
    simp only [Option.some.injEq, Prod.mk.injEq] at h
    obtain ⟨rfl, rfl, rfl⟩ := h
    exact ⟨ret', by simp only [hk']⟩
  · simp only [ho]
    exact ⟨fun _ _ _ h => (by cases h), fun _ => rfl⟩

theorem notify_rets {s : Shared} {t : Thread} {tid : Tid} {l : Lk} {all : Bool} {k : Shared → Thread → Shared × Thread}
    (r : List Nat) (hk : RetsK r k) : RetsR r (notify s t tid l all k) (notify s { t with rets := r } tid l all k) := by
  unfold notify
  by_cases ho : (s.owner l != some tid) = true
  · simp only [ho, if_true]
    exact ⟨fun _ _ _ h => (by cases h), fun _ => rfl⟩
  · have ho' : (s.owner l != some tid) = false := by simpa using ho
    simp only [ho', Bool.false_eq_true, if_false]
    refine ⟨fun lbl s' t' h => ?_, fun h => (by simp at h)⟩
    simp only [Option.some.injEq, Prod.mk.injEq] at h
    obtain ⟨rfl, hs, ht⟩ := h
    obtain ⟨ret', hk'⟩ := hk _ t
    refine ⟨ret', ?_⟩
    rw [hk', hs, ht]

theorem retsR_alt {r : List Nat} {a b : StepResult} (alt : Bool) (h : RetsR r a b) :
    RetsR r (if alt then none else a) (if alt then none else b) := by
  cases alt
  · simpa using h
  · exact ⟨fun _ _ _ h => (by simp at h), fun _ => (by simp)⟩

/-- inside `_stop_enqueue` the arguments `rets` only flow into `returned` -/
theorem stepThread_rets {s : Shared} {t : Thread} {tid : Tid} {alt : Bool} (r : List Nat) (hreg : tRegion t.pc = true) :
    RetsR r (stepThread s t tid alt) (stepThread s { t with rets := r } tid alt) := by
  unfold stepThread
  cases hpc : t.pc <;> simp only [hpc, tRegion, Bool.false_eq_true] at hreg <;> simp only [hpc]
  · -- tAcq
    refine retsR_alt alt (acquire_rets r ?_)
    intro s0 t0
    refine ⟨s0.returned ++ r, ?_⟩
    have e : Shared.enqueueDone { s0 with stop := min (s0.stop + 1) s0.start, returned := s0.returned ++ r } =
        Shared.enqueueDone { s0 with stop := min (s0.stop + 1) s0.start, returned := s0.returned ++ t0.rets } := rfl
    simp only [e]
    split <;> rfl
  · exact retsR_alt alt (release_rets r (retsK_goto r _))
  · exact retsR_alt alt (acquire_rets r (retsK_goto r _))
  · exact retsR_alt alt (notify_rets r (retsK_goto r _))
  · exact retsR_alt alt (release_rets r (retsK_goto r _))
  · exact retsR_alt alt (acquire_rets r (retsK_goto r _))
  · exact retsR_alt alt (release_rets r (retsK_goto r _))
  · exact retsR_alt alt (acquire_rets r (retsK_goto r _))
  · exact retsR_alt alt (notify_rets r (retsK_goto r _))
  · exact retsR_alt alt (release_rets r (retsK_goto r _))
  · exact retsR_alt alt (acquire_rets r (retsK_goto r _))
  · exact retsR_alt alt (release_rets r (fun s0 _ => ⟨s0.returned, rfl⟩))

theorem set_self_of_get {α} {l : List α} {i : Nat} {a : α} (h : l[i]? = some a) : l.set i a = l := by
  apply List.ext_getElem?
  intro j
  by_cases hj : j = i
  · subst hj
    have hlt : j < l.length := (List.getElem?_eq_some_iff.mp h).1
    rw [List.getElem?_set_self hlt, h]
  · rw [List.getElem?_set_ne (Ne.symm hj)]

end MlModel.Queue
