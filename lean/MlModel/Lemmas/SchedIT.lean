import MlModel.Model.Sched
import MlModel.Lemmas.SchedAC
/-!
# The `WorkerPool.iterate` LTS as a relation with explicit post-states

`IStep c s s'` has one constructor per branch of `itStep`; `itStep_sound` shows that every
executable step is one of them.  The invariants in `SchedITInv.lean` are proved by cases on it.
-/
namespace MlModel.Sched

/-- the attempt is still running as far as the main loop can tell (`not task.done()`) -/
def CoSt.notDone (co : CoSt) : Prop := co ≠ .finished ∧ co ≠ .raisedTimeout ∧ co ≠ .raisedErr

inductive IStep (c : ICfg) (s : IT) : IT → Prop where
  | submitNone (w : Nat) (ho : s.outcome = none) (hb : s.broken c = false) (hd : s.draw.tasks = []) :
      IStep c s s.draw
  | submitSome (w t : Nat) (rest : List Nat) (ho : s.outcome = none) (hb : s.broken c = false)
      (halive : aliveAt s.ws w = true) (hfree : s.freeWorker w = true) (hd : s.draw.tasks = t :: rest) :
      IStep c s { s.draw with tasks := rest, running := s.running ++ [{ shard := t, worker := w }] }
  | co (i k : Nat) (m : Bool) (r : RunI) (o : CoOut) (hr : s.running[i]? = some r)
      (hco : coStep c s.ws r k m = some o) :
      IStep c s { s with ws := o.ws, running := s.running.set i o.r, outQ := s.outQ ++ o.batches,
                         statesQ := putStates s.statesQ o.put }
  | zco (i k : Nat) (m : Bool) (r : RunI) (o : CoOut) (hr : s.zombies[i]? = some r)
      (hco : coStep c s.ws r k m = some o) :
      IStep c s { s with ws := o.ws, zombies := s.zombies.set i o.r, outQ := s.outQ ++ o.batches,
                         statesQ := putStates s.statesQ o.put }
  | drain (b : Nat × Nat) (q : List (Nat × Nat)) (ho : s.outcome = none) (hq : s.outQ = b :: q) :
      IStep c s { s with outQ := q, yieldedB := s.yieldedB ++ [b] }
  | checkFinished (i : Nat) (r : RunI) (ho : s.outcome = none) (hr : s.running[i]? = some r)
      (hco : r.co = .finished) :
      IStep c s { s with running := s.running.eraseIdx i, finished := s.finished ++ [r.shard],
                         statesQ := if r.hasState then s.statesQ ++ [some r.shard] else s.statesQ }
  | checkTimeout (i : Nat) (r : RunI) (ho : s.outcome = none) (hr : s.running[i]? = some r)
      (hco : r.co = .raisedTimeout) :
      IStep c s { s with running := s.running.eraseIdx i, tasks := r.shard :: s.tasks,
                         timeoutCnt := s.timeoutCnt + 1 }
  | checkErr (i : Nat) (r : RunI) (ho : s.outcome = none) (hr : s.running[i]? = some r)
      (hco : r.co = .raisedErr) :
      IStep c s { s with running := s.running.eraseIdx i, failed := r.shard :: s.failed }
  | checkDead (i : Nat) (r : RunI) (ho : s.outcome = none) (hr : s.running[i]? = some r)
      (hco : r.co.notDone) (hdead : aliveAt s.ws r.worker = false) :
      IStep c s { s with running := s.running.eraseIdx i, zombies := r :: s.zombies,
                         tasks := r.shard :: s.tasks, timeoutCnt := s.timeoutCnt + 1 }
  | finish (ho : s.outcome = none) (hc : (s.broken c || s.loopOver) = true) :
      IStep c s { s with yieldedB := s.yieldedB ++ s.outQ, outQ := [], statesQ := s.statesQ ++ [none],
                         outcome := some (if !s.failed.isEmpty then .raisedRuntime
                           else if c.threshold < s.timeoutCnt then .raisedTimeout else .returned) }
  | merge (sh : Nat) (q : List (Option Nat)) (hres : s.result = none) (hq : s.statesQ = some sh :: q) :
      IStep c s { s with statesQ := q, merged := s.merged ++ [sh] }
  | mergeStop (q : List (Option Nat)) (hres : s.result = none) (hq : s.statesQ = none :: q) :
      IStep c s { s with statesQ := q,
                         result := some (if c.strict && s.merged.length != c.n then none else some s.merged) }
  | env (ws' : List Worker)
      (h : (∃ w, crashW c.env s.ws w = some ws') ∨
           (∃ w, rejoinW s.ws w = some ws' ∧ s.freeWorker w = true)) :
      IStep c s { s with ws := ws' }

theorem itStep_sound {c : ICfg} {s s' : IT} {l : ILabel} (hs : itStep c s l = some s') : IStep c s s' := by
  cases l with
  | submit w =>
    cases ho : s.outcome with
    | some o => simp [itStep, ho] at hs
    | none =>
      simp only [itStep, ho] at hs
      split at hs
      · rename_i hc
        simp only [Bool.and_eq_true, Bool.not_eq_true'] at hc
        cases ht : s.draw.tasks with
        | nil => simp [ht] at hs; subst hs; exact .submitNone w ho hc.1.2 ht
        | cons t rest => simp [ht] at hs; subst hs; exact .submitSome w t rest ho hc.1.2 hc.1.1.1 hc.1.1.2 ht
      · simp at hs
  | co i k m =>
    cases hr : s.running[i]? with
    | none => simp [itStep, hr] at hs
    | some r =>
      cases hco : coStep c s.ws r k m with
      | none => simp [itStep, hr, hco] at hs
      | some o => simp [itStep, hr, hco] at hs; subst hs; exact .co i k m r o hr hco
  | zco i k m =>
    cases hr : s.zombies[i]? with
    | none => simp [itStep, hr] at hs
    | some r =>
      cases hco : coStep c s.ws r k m with
      | none => simp [itStep, hr, hco] at hs
      | some o => simp [itStep, hr, hco] at hs; subst hs; exact .zco i k m r o hr hco
  | drain =>
    cases ho : s.outcome with
    | some o => simp [itStep, ho] at hs
    | none =>
      cases hq : s.outQ with
      | nil => simp [itStep, ho, hq] at hs
      | cons b q => simp [itStep, ho, hq] at hs; subst hs; have h' := IStep.drain (c := c) b q ho hq; rw [ho] at h'; exact h'
  | check i =>
    cases ho : s.outcome with
    | some o => simp [itStep, ho] at hs
    | none =>
      cases hr : s.running[i]? with
      | none => simp [itStep, ho, hr] at hs
      | some r =>
        simp only [itStep, ho, hr] at hs
        cases hco : r.co with
        | finished => simp [hco] at hs; subst hs; have h' := IStep.checkFinished (c := c) i r ho hr hco; rw [ho] at h'; exact h'
        | raisedTimeout => simp [hco] at hs; subst hs; have h' := IStep.checkTimeout (c := c) i r ho hr hco; rw [ho] at h'; exact h'
        | raisedErr => simp [hco] at hs; subst hs; have h' := IStep.checkErr (c := c) i r ho hr hco; rw [ho] at h'; exact h'
        | start =>
          simp [hco] at hs; obtain ⟨hd, rfl⟩ := hs
          have h' := IStep.checkDead (c := c) i r ho hr (by simp [CoSt.notDone, hco]) hd; rw [ho] at h'; exact h'
        | awaitInit f =>
          simp [hco] at hs; obtain ⟨hd, rfl⟩ := hs
          have h' := IStep.checkDead (c := c) i r ho hr (by simp [CoSt.notDone, hco]) hd; rw [ho] at h'; exact h'
        | awaitNext f p =>
          simp [hco] at hs; obtain ⟨hd, rfl⟩ := hs
          have h' := IStep.checkDead (c := c) i r ho hr (by simp [CoSt.notDone, hco]) hd; rw [ho] at h'; exact h'
        | putDone =>
          simp [hco] at hs; obtain ⟨hd, rfl⟩ := hs
          have h' := IStep.checkDead (c := c) i r ho hr (by simp [CoSt.notDone, hco]) hd; rw [ho] at h'; exact h'
  | finish =>
    cases ho : s.outcome with
    | some o => simp [itStep, ho] at hs
    | none =>
      simp only [itStep, ho] at hs
      split at hs
      · rename_i hc; cases hs; exact .finish ho hc
      · cases hs
  | merge =>
    cases hres : s.result with
    | some o => simp [itStep, hres] at hs
    | none =>
      cases hq : s.statesQ with
      | nil => simp [itStep, hres, hq] at hs
      | cons x q =>
        cases x with
        | none => simp [itStep, hres, hq] at hs
        | some sh =>
          simp only [itStep, hres, hq] at hs; cases hs
          have h' := IStep.merge (c := c) sh q hres hq; rw [hres] at h'; exact h'
  | mergeStop =>
    cases hres : s.result with
    | some o => simp [itStep, hres] at hs
    | none =>
      cases hq : s.statesQ with
      | nil => simp [itStep, hres, hq] at hs
      | cons x q =>
        cases x with
        | some sh => simp [itStep, hres, hq] at hs
        | none => simp only [itStep, hres, hq] at hs; cases hs; exact .mergeStop q hres hq
  | crash w =>
    cases hx : crashW c.env s.ws w with
    | none => simp [itStep, hx] at hs
    | some ws' => simp [itStep, hx] at hs; subst hs; exact .env ws' (Or.inl ⟨w, hx⟩)
  | rejoin w =>
    cases hx : rejoinW s.ws w with
    | none => simp [itStep, hx] at hs
    | some ws' =>
      simp only [itStep, hx] at hs
      split at hs
      · rename_i hfree
        simp at hs
        subst hs; exact .env ws' (Or.inr ⟨w, hx, hfree⟩)
      · simp at hs

end MlModel.Sched
