import MlModel.Lemmas.PiterCleanE
/-!
# The clean-run invariant holds in every reachable configuration that is still failure-free
-/
namespace MlModel.Piter
open MlModel.Queue

variable {F : Nat → Option (List Nat)} {inputs0 : List (List Item)}

theorem afterPull_exc_back (tid : Tid) (s : Shared) (t : PThread) (r : PullRes)
    (h : (afterPull F tid s t r).1.exc = none) : s.exc = none ∧ (afterPull F tid s t r).2.early = t.early := by
  unfold afterPull failPull at h ⊢
  cases r with
  | stop => exact ⟨h, rfl⟩
  | item i =>
    cases i with
    | fail => simp at h
    | val v =>
      cases hF : F v with
      | none => simp [hF] at h
      | some l => cases l <;> simp_all

theorem early_back {c : Cfg} {tid : Tid} {t t' : PThread} (ht : c.ths[tid]? = some t)
    (h' : ∀ t0, (c.ths.set tid t')[0]? = some t0 → t0.early = false) (he : t'.early = false → t.early = false) :
    ∀ t0, c.ths[0]? = some t0 → t0.early = false := by
  intro t0 h0
  have htid : tid < c.ths.length := by
    rcases List.getElem?_eq_some_iff.mp ht with ⟨h, _⟩; exact h
  by_cases h : tid = 0
  · subst h
    rw [ht] at h0; cases h0
    exact he (h' t' (by simp [List.getElem?_set_self htid]))
  · exact h' t0 (by rw [List.getElem?_set_ne h]; exact h0)

/-- `NF` can only be lost, never regained -/
theorem nf_back {c c' : Cfg} {tid : Tid} {alt : Bool} {lbl : String} {t : PThread}
    (ht : c.ths[tid]? = some t) (hk : StepKind F c tid alt t lbl c') (hn' : NF c') : NF c := by
  obtain ⟨hx, he⟩ := hn'
  cases hk with
  | pstart => exact ⟨hx, early_back ht he id⟩
  | iacq => exact ⟨hx, early_back ht he id⟩
  | inextL => exact ⟨hx, early_back ht he id⟩
  | inextU =>
    obtain ⟨h1, h2⟩ := afterPull_exc_back (F := F) tid c.sh t _ hx
    exact ⟨h1, early_back ht he (by rw [h2]; exact id)⟩
  | irel =>
    obtain ⟨h1, h2⟩ := afterPull_exc_back (F := F) tid c.sh t _ hx
    exact ⟨h1, early_back ht he (by rw [h2]; exact id)⟩
  | @pq lbl s' q' _ _ _ _ hst =>
    obtain ⟨hf, -⟩ := stepThread_fault lbl s' q' hst
    refine ⟨?_, early_back ht he (by rw [(postProd_frame tid t q').2.2.2.2.2.1]; exact id)⟩
    cases hxx : c.sh.exc with
    | none => rfl
    | some e =>
      have hx' : s'.exc = none := hx
      have := hf (by rw [hxx]; rfl); rw [hx'] at this; cases this
  | cboot0 =>
    refine ⟨hx, early_back ht he ?_⟩
    unfold beginIter; split <;> simp
  | cboot => exact ⟨hx, early_back ht he id⟩
  | csubmit =>
    refine ⟨hx, early_back ht he ?_⟩
    split
    · unfold beginIter; split <;> simp
    · exact id
  | @citer lbl s' q' _ _ hst =>
    obtain ⟨hf, -⟩ := stepThread_fault lbl s' q' hst
    have hx' : s'.exc = none := by rw [← (afterIter_exc c t.q.pc s' { t with q := q' }).1]; exact hx
    refine ⟨?_, early_back ht he ?_⟩
    · cases hxx : c.sh.exc with
      | none => rfl
      | some e => have := hf (by rw [hxx]; rfl); rw [hx'] at this; cases this
    · unfold afterIter; (repeat' split) <;> simp
  | @cstop lbl s' q' _ _ hst =>
    obtain ⟨hf, -⟩ := stepThread_fault lbl s' q' hst
    have hx' : s'.exc = none := hx
    refine ⟨?_, early_back ht he ?_⟩
    · cases hxx : c.sh.exc with
      | none => rfl
      | some e => have := hf (by rw [hxx]; rfl); rw [hx'] at this; cases this
    · unfold postStop; split <;> exact id
  | cshutdown => exact ⟨hx, early_back ht he id⟩

theorem clean_step {c c' : Cfg} {tid : Tid} {alt : Bool} {lbl : String} (hb : Base c)
    (hc : NF c → Clean F inputs0 c) (h : step F c tid alt = some (lbl, c')) (hn' : NF c') :
    Clean F inputs0 c' := by
  obtain ⟨t, ht, hk⟩ := step_inv h
  have hn := nf_back ht hk hn'
  have hc := hc hn
  cases hk with
  | pstart hp hpc => exact clean_pstart hb hc ht hp hpc
  | iacq hp _ hipc => exact clean_iacq hb hc ht hp hipc
  | inextL hp hpc hipc => exact clean_inextL hb hc ht hp hpc hipc
  | inextU hp hpc hipc => exact clean_inextU hb hc hn ht hp hpc hipc hn'.1
  | irel hp hpc hipc => exact clean_irel hb hc hn ht hp hpc hipc hn'.1
  | pq hp hd hs0 hne hst => exact clean_pq hb hc hn hn'.1 ht hp hd hs0 hne hst
  | cboot0 hp hcp => exact clean_cboot0 hb hc hn' ht hp hcp
  | cboot hp hcp => exact clean_cboot hb hc ht hp hcp
  | csubmit hp hcp => exact clean_csubmit hb hc hn' ht hp hcp
  | citer hp hcp hst => exact clean_citer hb hc hn hn' ht hp hcp hst
  | cstop hp hcp hst => exact clean_cstop hb hc hn ht hp hcp hst
  | cshutdown hp hcp => exact clean_cshutdown hb hc ht hp hcp

end MlModel.Piter

namespace MlModel.Piter
open MlModel.Queue

variable {F : Nat → Option (List Nat)} {inputs0 : List (List Item)}

theorem init_sums (prods : List ProdSpec) :
    ((prods.map mkProducer).map indProd).sum = prods.length ∧
    ((prods.map mkProducer).map indStart).sum = 0 ∧ ((prods.map mkProducer).map indStop).sum = 0 ∧
    ((prods.map mkProducer).map retL).flatten = [] ∧ ((prods.map mkProducer).map (·.emitted)).flatten = [] ∧
    ((prods.map mkProducer).map itemsOf).flatten = [] := by
  induction prods with
  | nil => simp
  | cons p ps ih =>
    obtain ⟨h1, h2, h3, h4, h5, h6⟩ := ih
    simp only [List.map_cons, List.sum_cons, List.flatten_cons, List.length_cons, h1, h2, h3, h4, h5, h6]
    simp [mkProducer, indProd, indStart, indStop, retL, itemsOf, handItems, pastStart, pastStop]
    omega

theorem clean_init (cap bm mw : Nat) (ns : Option Nat) (soe : Bool) (inputs : List (List Item))
    (prods : List ProdSpec) : Clean F inputs (init cap bm mw ns soe inputs prods) := by
  obtain ⟨h1, h2, h3, h4, h5, h6⟩ := init_sums prods
  refine ⟨?_, ?_, ?_, ?_, ?_, ?_, ?_, ?_, rfl, ?_⟩
  · intro t ht hp
    rcases mem_init_ths ht with rfl | ⟨p, _, rfl⟩
    · simp [mkConsumer] at hp
    · refine ⟨by simp [mkProducer, holdV, pendPc, FMv], by simp [mkProducer], ?_, ?_, ?_, ?_⟩ <;>
        simp [mkProducer, pastStop]
  · simp only [init, List.map_cons, List.sum_cons, h1]; simp [mkConsumer, indProd]
  · simp only [init, List.map_cons, List.sum_cons, h2]; simp [mkConsumer, indStart]
  · simp only [init, List.map_cons, List.sum_cons, h3]; simp [mkConsumer, indStop]
  · simp only [init, List.map_cons, List.flatten_cons, h4]; simp [mkConsumer, retL]
  · simp only [init, List.map_cons, List.flatten_cons, h5]; simp [mkConsumer]
  · simp only [init, List.map_cons, List.flatten_cons, h6]; simp [mkConsumer, itemsOf, handItems]
  · intro h; simp [init] at h
  · intro t0 h0
    simp only [init, List.getElem?_cons_zero, Option.some.injEq] at h0
    subst h0
    refine ⟨?_, ?_, ?_, ?_, ?_, ?_, ?_⟩ <;> simp [mkConsumer, init]

/-- **the clean-run invariant**: every reachable, still failure-free configuration satisfies `Clean` -/
theorem clean_reachable {cap bm mw : Nat} {ns : Option Nat} {soe : Bool} {inputs : List (List Item)}
    {prods : List ProdSpec} {c : Cfg} (h : Reachable F (init cap bm mw ns soe inputs prods) c) (hn : NF c) :
    Clean F inputs c := by
  induction h with
  | init => exact clean_init cap bm mw ns soe inputs prods
  | step hr hs ih =>
    exact clean_step (base_reachable (base_init cap bm mw ns soe inputs prods) hr) ih hs hn

end MlModel.Piter
