import MlModel.Lemmas.Piter2Sig
import MlModel.Lemmas.Piter2Final
import Batteries.Data.List.Perm
import Mathlib.Data.List.Flatten
/-!
# Two-queue LTS: the conservation links of `Piter2Data.lean` composed into ONE inclusion statement (every run)

For every reachable configuration — failures, early stop, any schedule:

    delivered values of the caller  ⊆  (flatten of what the second-level tasks pulled).flatMap F
    flatten of what the second-level tasks pulled  ⊆  values of all input iterators

as MULTISETS (`List.Subperm`): nothing is delivered twice, nothing is invented, at either level.
-/
namespace MlModel.Piter2
open MlModel.Queue

variable {F : Nat → Option (List Nat)}

/-- what a second-level task has pulled from the input queue -/
def pulled2 (t : Th) : List Nat := if t.role = .l2 then t.pulled else []

/-- the values of the input iterator a first-level task reads -/
def inVals (t : Th) : List Nat := if t.role = .l1 then valsOf (itemsOf t.a) else []

theorem subperm_flatMap {α β} {l1 l2 : List α} (f : α → List β) (h : l1.Subperm l2) :
    (l1.flatMap f).Subperm (l2.flatMap f) := by
  obtain ⟨l, hp, hs⟩ := h
  exact ⟨l.flatMap f, hp.flatMap_right f, hs.flatMap f⟩

theorem sublist_flatten_map {α β} (l : List α) {f g : α → List β} (h : ∀ a ∈ l, (f a).Sublist (g a)) :
    (l.map f).flatten.Sublist (l.map g).flatten := by
  induction l with
  | nil => simp
  | cons x xs ih =>
    simp only [List.map_cons, List.flatten_cons]
    exact (h x (List.mem_cons_self ..)).append (ih fun a ha => h a (List.mem_cons_of_mem _ ha))

theorem flatMap_flatten_map {α β γ} (l : List α) (g : α → List β) (f : β → List γ) :
    (l.map g).flatten.flatMap f = (l.map fun a => (g a).flatMap f).flatten := by
  induction l with
  | nil => simp
  | cons x xs ih => simp only [List.map_cons, List.flatten_cons, List.flatMap_append, ih]

/-- the input values named by a signature -/
def sigVals (x : Role × Prog × List Nat) : List Nat :=
  match x with
  | (.l1, .producer src _, _) => valsOf src
  | _ => []

theorem inVals_sig (t : Th) : inVals t = sigVals (sig t) := by
  unfold inVals sig sigVals itemsOf
  cases hr : t.role <;> simp only [] <;> simp
  cases t.a.prog <;> simp [valsOf]

/-- the values of all input iterators, read off the configuration, are those of the `inputs` it was built from -/
theorem inVals_reachable {cap1 cap2 bm1 bm2 mw : Nat} {ns : Option Nat} {fwd ff : Bool} {inputs : List InSpec}
    {gens : List Nat} {c : Cfg} (h : Reachable F (initF cap1 cap2 bm1 bm2 mw ns fwd ff inputs gens) c) :
    (c.ths.map inVals).flatten = inputs.flatMap fun i => valsOf i.items := by
  have hs := (reachable_static h).sigs
  have h0 : (initF cap1 cap2 bm1 bm2 mw ns fwd ff inputs gens).ths.map sig = _ :=
    init_sigs cap1 cap2 bm1 bm2 mw ns fwd inputs gens
  have e1 : c.ths.map inVals = (c.ths.map sig).map sigVals := by
    rw [List.map_map]; exact List.map_congr_left fun t _ => inVals_sig t
  rw [e1, hs, h0]
  simp only [List.map_cons, List.map_append, List.map_map, List.flatten_cons, List.flatten_append]
  have e2 : ((gens.map (sigVals ∘ fun g => (Role.l2, Prog.producer [] g, ([] : List Nat)))).flatten) = [] := by
    rw [List.flatten_eq_nil_iff]
    intro l hl
    obtain ⟨g, _, rfl⟩ := List.mem_map.mp hl
    rfl
  rw [e2]
  simp only [sigVals, List.nil_append, List.append_nil, List.flatMap_def]
  rfl

/-- **second level, as a multiset**: the caller's delivered values are part of `F` over what the tasks pulled -/
theorem delivered_subperm {c : Cfg} {t0 : Th}
    (hperm : List.Perm ((seqOf t0.b ++ c.s2.lost ++ c.s2.q).map (·.2)) (c.ths.map em2).flatten)
    (hsub : ∀ t ∈ c.ths, t.role = .l2 → t.emitted.Sublist (t.pulled.flatMap (Fp F))) :
    (t0.b.received.map (·.2)).Subperm ((c.ths.map pulled2).flatten.flatMap (Fp F)) := by
  have h1 : (t0.b.received.map (·.2)).Sublist ((seqOf t0.b ++ c.s2.lost ++ c.s2.q).map (·.2)) := by
    apply List.Sublist.map
    unfold seqOf
    simp only [List.append_assoc]
    exact List.sublist_append_left _ _
  have h3 : (c.ths.map em2).flatten.Sublist ((c.ths.map pulled2).flatten.flatMap (Fp F)) := by
    rw [flatMap_flatten_map]
    apply sublist_flatten_map
    intro t ht
    unfold em2 pulled2
    by_cases hr : t.role = .l2
    · simp only [hr, if_true]
      exact hsub t ht hr
    · simp [hr]
  exact h1.subperm.trans (hperm.subperm.trans h3.subperm)

/-- **first level + input queue, as a multiset**: what the second-level tasks pulled is part of the inputs' values -/
theorem pulled_subperm {c : Cfg} (hfifo : c.s1.produced = c.s1.dequeued ++ c.s1.q)
    (hin : List.Perm (c.s1.dequeued.map (·.2)) ((c.ths.map own).flatten ++ c.cache.map (·.2) ++ c.s1.lost.map (·.2)))
    (hprod : List.Perm (c.s1.produced.map (·.2)) (c.ths.map em1).flatten)
    (hsub : ∀ t ∈ c.ths, t.role = .l1 → t.emitted.Sublist t.pulled ∧ t.pulled <+: valsOf (itemsOf t.a)) :
    (c.ths.map pulled2).flatten.Subperm (c.ths.map inVals).flatten := by
  have h1 : (c.ths.map pulled2).flatten.Sublist (c.ths.map own).flatten := by
    apply sublist_flatten_map
    intro t _
    unfold pulled2 own
    by_cases hr : t.role = .l2
    · simp only [hr, if_true, List.append_assoc]
      exact List.sublist_append_left _ _
    · simp [hr]
  have h2 : (c.ths.map own).flatten.Sublist
      ((c.ths.map own).flatten ++ c.cache.map (·.2) ++ c.s1.lost.map (·.2)) := by
    rw [List.append_assoc]; exact List.sublist_append_left _ _
  have h3 : (c.s1.dequeued.map (·.2)).Sublist (c.s1.produced.map (·.2)) := by
    rw [hfifo, List.map_append]; exact List.sublist_append_left _ _
  have h4 : (c.ths.map em1).flatten.Sublist (c.ths.map inVals).flatten := by
    apply sublist_flatten_map
    intro t ht
    unfold em1 inVals
    by_cases hr : t.role = .l1
    · simp only [hr, if_true]
      exact (hsub t ht hr).1.trans (hsub t ht hr).2.sublist
    · simp [hr]
  exact h1.subperm.trans (h2.subperm.trans (hin.symm.subperm.trans (h3.subperm.trans (hprod.subperm.trans h4.subperm))))

end MlModel.Piter2
