import MlModel.Lemmas.LazyPres
/-! Call counts of eager evaluation; flags accepted by the tracing API. -/
namespace MlModel.Lazy
set_option linter.unusedSimpArgs false
set_option linter.unusedVariables false

/-- the Python-level callables of the library (their entry is logged) -/
def isPy (name : String) : Bool :=
  ["add", "mul", "pair", "len", "ident", "mkrec", "counter", "failneg"].contains name

/-- A successful library call has entered the function body exactly when it is a Python-level one. -/
theorem libVal_ok_entered {name : String} {vs : List Val} {kvs : List (String × Val)} {c : Nat}
    {v : Val} {b : Bool} (h : libVal name vs kvs c = (.ok v, b)) : b = isPy name := by
  unfold libVal at h
  split at h
  · split at h <;> simp [pyErr] at h
    obtain ⟨_, rfl⟩ := h; decide
  · split at h <;> simp [pyErr] at h
    obtain ⟨_, rfl⟩ := h; decide
  · split at h <;> simp [pyErr] at h
    obtain ⟨_, rfl⟩ := h; decide
  · split at h <;> simp [pyErr] at h
    · obtain ⟨_, rfl⟩ := h; decide
    · obtain ⟨_, rfl⟩ := h; decide
  · split at h <;> simp [pyErr] at h
    obtain ⟨_, rfl⟩ := h; decide
  · split at h <;> simp [pyErr] at h
    obtain ⟨_, rfl⟩ := h; decide
  · split at h <;> simp [pyErr] at h
    obtain ⟨_, rfl⟩ := h; decide
  · split at h <;> simp [pyErr] at h
    split at h <;> simp [pyErr] at h
    obtain ⟨_, rfl⟩ := h; decide
  · split at h
    · simp [pyErr] at h
    · split at h
      · split at h
        · split at h <;> simp [pyErr] at h
          obtain ⟨_, rfl⟩ := h; decide
        · simp at h
        · simp [pyErr] at h
      · simp [pyErr] at h
  · split at h
    · simp [pyErr] at h
    · split at h
      · split at h
        · split at h <;> simp [pyErr] at h
          obtain ⟨_, rfl⟩ := h; decide
        · simp [pyErr] at h
        · split at h <;> simp [pyErr] at h
          obtain ⟨_, rfl⟩ := h; decide
        · simp [pyErr] at h
        · split at h <;> simp [pyErr] at h
          obtain ⟨_, rfl⟩ := h; decide
        · simp [pyErr] at h
        · simp at h
        · simp [pyErr] at h
      · simp [pyErr] at h
  · simp [pyErr] at h

theorem applyLib_log_ok {name : String} {a : List RVal} {k : List (String × RVal)} {w w' : World}
    {rv : RVal} (h : applyLib name a k w = (.ok rv, w')) :
    w'.log = w.log ++ (if isPy name then [name] else []) := by
  unfold applyLib at h
  simp only at h
  cases hl : libVal name (a.map (·.1)) (k.map (fun p => (p.1, p.2.1))) w.counter with
  | mk r b =>
    rw [hl] at h
    cases r with
    | error e => simp at h
    | ok v =>
      have hb := libVal_ok_entered hl
      simp only at h
      have hw : w'.log = (if b = true then { w with log := w.log ++ [name] } else w : World).log := by
        cases b <;> simp only [Bool.false_eq_true, if_false, if_true] at h ⊢ <;>
          (split at h <;> (try split at h) <;> (try split at h) <;> (injection h with _ h2; rw [← h2]))
      rw [hw, hb]
      cases isPy name <;> simp

mutual
/-- every function position is a named callable given directly (first-order expression) -/
def Expr.firstOrder : Expr → Bool
  | .const _ => true
  | .traced _ _ => true
  | .call f as ks _ _ =>
    (match f with | .const (.fn _) => true | .traced (.fn _) _ => true | _ => false) &&
      Expr.firstOrderL as && Expr.firstOrderK ks
def Expr.firstOrderL : List Expr → Bool
  | [] => true | a :: as => a.firstOrder && Expr.firstOrderL as
def Expr.firstOrderK : List (String × Expr) → Bool
  | [] => true | (_, a) :: as => a.firstOrder && Expr.firstOrderK as
end

mutual
/-- The Python-level callables of the call nodes, in evaluation order: one entry per call node. -/
def Expr.callNames : Expr → List String
  | .const _ => []
  | .traced _ _ => []
  | .call f as ks _ _ =>
    Expr.callNamesL as ++ Expr.callNamesK ks ++
      (match f with
       | .const (.fn n) => if isPy n then [n] else []
       | .traced (.fn n) _ => if isPy n then [n] else []
       | _ => [])
def Expr.callNamesL : List Expr → List String
  | [] => [] | a :: as => a.callNames ++ Expr.callNamesL as
def Expr.callNamesK : List (String × Expr) → List String
  | [] => [] | (_, a) :: as => a.callNames ++ Expr.callNamesK as
end

theorem eager_log_call_aux {f : Expr} {as : List Expr} {ks : List (String × Expr)} {c l : Bool}
    {w w' : World} {r : RVal} {n : String}
    (h1 : eager f w = (.ok (.fn n, 0), w))
    (hcn : (Expr.call f as ks c l).callNames =
      Expr.callNamesL as ++ Expr.callNamesK ks ++ (if isPy n then [n] else []))
    (iha : ∀ (w w' : World) (rs : List RVal), eagerArgs as w = (.ok rs, w') → w'.log = w.log ++ Expr.callNamesL as)
    (ihk : ∀ (w w' : World) (rs : List (String × RVal)), eagerKw ks w = (.ok rs, w') →
      w'.log = w.log ++ Expr.callNamesK ks)
    (h : eager (.call f as ks c l) w = (.ok r, w')) :
    w'.log = w.log ++ (Expr.call f as ks c l).callNames := by
  simp only [eager, h1] at h
  cases h2 : eagerArgs as w with
  | mk r2 w2 =>
    cases r2 with
    | error e => simp [h2] at h
    | ok avs =>
      simp only [h2] at h
      cases h3 : eagerKw ks w2 with
      | mk r3 w3 =>
        cases r3 with
        | error e => simp [h3] at h
        | ok kvs =>
          simp only [h3] at h
          rw [hcn, applyLib_log_ok h, ihk w2 w3 kvs h3, iha w w2 avs h2]
          simp [List.append_assoc]

mutual
theorem eager_log : ∀ (e : Expr) (w w' : World) (r : RVal), e.firstOrder = true →
    eager e w = (.ok r, w') → w'.log = w.log ++ e.callNames
  | .const v, w, w', r, hf, h => by
    simp only [eager] at h; injection h with _ h2; subst h2; simp [Expr.callNames]
  | .traced v l, w, w', r, hf, h => by
    simp only [eager] at h; injection h with _ h2; subst h2; simp [Expr.callNames]
  | .call f as ks c l, w, w', r, hf, h => by
    simp only [Expr.firstOrder, Bool.and_eq_true] at hf
    obtain ⟨⟨hf0, hfa⟩, hfk⟩ := hf
    have iha := fun w w' rs => eagerArgs_log as w w' rs hfa
    have ihk := fun w w' rs => eagerKw_log ks w w' rs hfk
    cases f with
    | const v =>
      cases v <;> simp at hf0
      rename_i n
      exact eager_log_call_aux (n := n) (by simp [eager]) (by simp [Expr.callNames]) iha ihk h
    | traced v l' =>
      cases v <;> simp at hf0
      rename_i n
      exact eager_log_call_aux (n := n) (by simp [eager]) (by simp [Expr.callNames]) iha ihk h
    | call _ _ _ _ _ => simp at hf0
theorem eagerArgs_log : ∀ (as : List Expr) (w w' : World) (rs : List RVal), Expr.firstOrderL as = true →
    eagerArgs as w = (.ok rs, w') → w'.log = w.log ++ Expr.callNamesL as
  | [], w, w', rs, hf, h => by
    simp only [eagerArgs] at h; injection h with _ h2; subst h2; simp [Expr.callNamesL]
  | a :: as, w, w', rs, hf, h => by
    simp only [Expr.firstOrderL, Bool.and_eq_true] at hf
    simp only [eagerArgs] at h
    cases h1 : eager a w with
    | mk r1 w1 =>
      cases r1 with
      | error e => simp [h1] at h
      | ok v =>
        simp only [h1] at h
        cases h2 : eagerArgs as w1 with
        | mk r2 w2 =>
          cases r2 with
          | error e => simp [h2] at h
          | ok vs =>
            simp only [h2] at h
            injection h with _ hw; subst hw
            rw [eagerArgs_log as w1 w2 vs hf.2 h2, eager_log a w w1 v hf.1 h1]
            simp [Expr.callNamesL, List.append_assoc]
theorem eagerKw_log : ∀ (ks : List (String × Expr)) (w w' : World) (rs : List (String × RVal)),
    Expr.firstOrderK ks = true → eagerKw ks w = (.ok rs, w') → w'.log = w.log ++ Expr.callNamesK ks
  | [], w, w', rs, hf, h => by
    simp only [eagerKw] at h; injection h with _ h2; subst h2; simp [Expr.callNamesK]
  | (k, a) :: ks, w, w', rs, hf, h => by
    simp only [Expr.firstOrderK, Bool.and_eq_true] at hf
    simp only [eagerKw] at h
    cases h1 : eager a w with
    | mk r1 w1 =>
      cases r1 with
      | error e => simp [h1] at h
      | ok v =>
        simp only [h1] at h
        cases h2 : eagerKw ks w1 with
        | mk r2 w2 =>
          cases r2 with
          | error e => simp [h2] at h
          | ok vs =>
            simp only [h2] at h
            injection h with _ hw; subst hw
            rw [eagerKw_log ks w1 w2 vs hf.2 h2, eager_log a w w1 v hf.1 h1]
            simp [Expr.callNamesK, List.append_assoc]
end

mutual
/-- Without `lazy_result` the tracing API accepts the flags. -/
theorem noLazy_badFlags : ∀ e : Expr, e.noLazy = true → e.badFlags = false
  | .const _, _ => rfl
  | .traced _ _, _ => rfl
  | .call f as ks c l, h => by
    simp only [Expr.noLazy, Bool.and_eq_true, Bool.not_eq_true'] at h
    obtain ⟨⟨⟨⟨h0, _⟩, hf⟩, ha⟩, hk⟩ := h
    subst h0
    simp [Expr.badFlags, noLazy_badFlags f hf, noLazyL_badFlags as ha, noLazyK_badFlags ks hk]
theorem noLazyL_badFlags : ∀ as : List Expr, Expr.noLazyL as = true → Expr.badFlagsL as = false
  | [], _ => rfl
  | a :: as, h => by
    simp only [Expr.noLazyL, Bool.and_eq_true] at h
    simp [Expr.badFlagsL, noLazy_badFlags a h.1, noLazyL_badFlags as h.2]
theorem noLazyK_badFlags : ∀ ks : List (String × Expr), Expr.noLazyK ks = true → Expr.badFlagsK ks = false
  | [], _ => rfl
  | (k, a) :: ks, h => by
    simp only [Expr.noLazyK, Bool.and_eq_true] at h
    simp [Expr.badFlagsK, noLazy_badFlags a h.1, noLazyK_badFlags ks h.2]
end

end MlModel.Lazy
