import MlModel.Model.Owner
/-! Invariants of the ownership LTS (`Model/Owner.lean`), proved by induction over steps. -/
namespace MlModel.Owner

/-- `_lock` is held exactly when some pool is recorded as owner. -/
def Consistent (x : Worker) : Prop := x.lock = true ↔ x.pool ≠ none

/-- program points at which the thread holds the worker's `_states_lock` -/
def inCS : MPc → Bool
  | .aRdPool | .aTry | .aWr | .aRd2 | .aExit _
  | .rRdLocked1 | .rRdPool | .rRdLocked2 | .rUnlock | .rWr | .rExit
  | .cExit | .iExit | .kExit => true
  | _ => false

/-- What a thread inside the critical section knows about the worker, per program point. -/
def CS (cl : Call) (x : Worker) : Prop :=
  match cl.pc with
  | .aRdPool | .aTry | .aRd2 | .aExit _ | .rRdLocked1 | .rRdPool | .rExit
  | .cExit | .iExit | .kExit => Consistent x
  | .aWr => x.lock = true ∧ x.pool = none
  | .rRdLocked2 => Consistent x ∧ (cl.checked = true → x.lock = true → x.pool = some cl.p)
  | .rUnlock => x.lock = true ∧ x.pool ≠ none ∧ (cl.checked = true → x.pool = some cl.p)
  | .rWr => x.lock = false ∧ (cl.checked = true → x.pool = some cl.p ∨ x.pool = none)
  | _ => False

theorem CS_inCS {cl : Call} {x : Worker} (h : CS cl x) : inCS cl.pc = true := by
  unfold CS at h; cases hpc : cl.pc <;> simp_all [inCS]

/-- The inductive invariant behind `C20_single_owner` / `C20_release_only_owned`. -/
structure Inv (c : Cfg) : Prop where
  free : ∀ w, (c.W w).sl = none → Consistent (c.W w)
  held : ∀ w t, (c.W w).sl = some t → ∃ cl k, (c.T t).cur = some (cl, k) ∧ cl.w = w ∧ CS cl (c.W w)
  holds : ∀ t cl k, (c.T t).cur = some (cl, k) → inCS cl.pc = true → (c.W cl.w).sl = some t

theorem Inv_init {c : Cfg} (h : Init c) : Inv c where
  free := fun w _ => by simp [Consistent, h.1 w]
  held := fun w t hs => by simp [h.1 w] at hs
  holds := fun t cl k hc _ => by simp [(h.2 t).1] at hc

/-! ### every freshly entered `Worker` method starts outside the critical section -/

def Next.nonCS : Next → Prop
  | .call cl _ => inCS cl.pc = false
  | .finish _ _ => True

theorem acqAllLoop_nonCS (p ws acc n) : (acqAllLoop p ws acc n).nonCS := by
  cases ws <;> simp [acqAllLoop, Next.nonCS, inCS]
theorem acqAllIter_nonCS (p rest acc n) : (acqAllIter p rest acc n).nonCS := by
  unfold acqAllIter; split
  · simp [Next.nonCS]
  · exact acqAllLoop_nonCS ..
theorem relAllLoop_nonCS (p fin ws) : (relAllLoop p fin ws).nonCS := by
  cases ws <;> simp [relAllLoop, Next.nonCS, inCS]
theorem origLoop_nonCS (p ws) : (origLoop p ws).nonCS := by
  cases ws <;> simp [origLoop, Next.nonCS, inCS]
theorem next2Loop_nonCS (p ws) : (next2Loop p ws).nonCS := by
  cases ws <;> simp [next2Loop, Next.nonCS, inCS]
theorem next1Loop_nonCS (p acq ws un) : (next1Loop p acq ws un).nonCS := by
  cases ws
  · exact next2Loop_nonCS ..
  · simp [next1Loop, Next.nonCS, inCS]

theorem idleLoop_nonCS (p ws acc) : (idleLoop p ws acc).nonCS := by
  cases ws <;> simp [idleLoop, Next.nonCS, inCS]

theorem aliveLoop_nonCS (p ws acc again) : (aliveLoop p ws acc again).nonCS := by
  cases ws with
  | cons w rest => simp [aliveLoop, Next.nonCS, inCS]
  | nil =>
    cases again with
    | none => simp [aliveLoop, Next.nonCS]
    | some ws2 => cases ws2 <;> simp [aliveLoop, Next.nonCS, inCS]
theorem callLoop_nonCS (p ws) : (callLoop p ws).nonCS := by
  cases ws <;> simp [callLoop, Next.nonCS, inCS]
theorem acqCLoop_nonCS (p all ws got) : (acqCLoop p all ws got).nonCS := by
  cases ws
  · exact callLoop_nonCS ..
  · simp [acqCLoop, Next.nonCS, inCS]
theorem acqWLoop_nonCS (p ws acc) : (acqWLoop p ws acc).nonCS := by
  cases ws <;> simp [acqWLoop, Next.nonCS, inCS]
theorem acqCIter_nonCS (p all rest got) : (acqCIter p all rest got).nonCS := by
  unfold acqCIter; split
  · exact acqCLoop_nonCS ..
  · exact callLoop_nonCS ..

theorem resume_nonCS (k : K) (b : Bool) : (resume k b).nonCS := by
  cases k <;> simp only [resume]
  · split
    · simp [Next.nonCS, inCS]
    · exact acqAllIter_nonCS ..
  · exact acqAllIter_nonCS ..
  · exact relAllLoop_nonCS ..
  · split
    · simp [Next.nonCS, inCS]
    · exact origLoop_nonCS ..
  · exact origLoop_nonCS ..
  · split
    · simp [Next.nonCS, inCS]
    · exact next1Loop_nonCS ..
  · split
    · simp [Next.nonCS]
    · exact next1Loop_nonCS ..
  · split
    · simp [Next.nonCS, inCS]
    · exact next2Loop_nonCS ..
  · split
    · simp [Next.nonCS]
    · exact next2Loop_nonCS ..
  · simp [Next.nonCS]
  · split
    · simp [Next.nonCS, inCS]
    · exact next1Loop_nonCS ..
  · split
    · simp [Next.nonCS, inCS]
    · exact next2Loop_nonCS ..
  · split
    · simp [Next.nonCS, inCS]
    · exact idleLoop_nonCS ..
  · split
    · simp [Next.nonCS, inCS]
    · exact idleLoop_nonCS ..
  · exact idleLoop_nonCS ..
  · exact aliveLoop_nonCS ..
  · split
    · simp [Next.nonCS, inCS]
    · split <;> simp [Next.nonCS, inCS]
  · split <;> simp [Next.nonCS, inCS]
  · split
    · simp [Next.nonCS, inCS]
    · exact acqCIter_nonCS ..
  · exact acqCIter_nonCS ..
  · exact callLoop_nonCS ..
  · exact acqWLoop_nonCS ..

theorem start_nonCS (pw : Pid → List Wid) (op : Op) : (start pw op).nonCS := by
  cases op <;> simp only [start]
  · exact acqAllLoop_nonCS ..
  · exact relAllLoop_nonCS ..
  · exact next1Loop_nonCS ..
  · simp [Next.nonCS, inCS]
  · exact origLoop_nonCS ..
  · exact relAllLoop_nonCS ..
  · exact idleLoop_nonCS ..
  · simp [Next.nonCS, inCS]
  · exact aliveLoop_nonCS ..
  · split <;> simp [Next.nonCS, inCS]
  · exact acqCLoop_nonCS ..
  · simp [Next.nonCS, inCS]
  · exact acqWLoop_nonCS ..

theorem apply_cur_nonCS (th : Thread) (n : Next) (hn : n.nonCS) :
    ∀ cl k, (th.apply n).cur = some (cl, k) → inCS cl.pc = false := by
  intro cl k h
  cases n with
  | call cl' k' => simp [Thread.apply] at h; rw [← h.1]; exact hn
  | finish r e => simp [Thread.apply] at h

/-! ### two generic preservation lemmas -/

/-- A step that does not write any worker and leaves the thread outside the critical section. -/
theorem Inv_keepW {c : Cfg} (hI : Inv c) (t : Tid) (th' : Thread)
    (hold : ∀ cl k, (c.T t).cur = some (cl, k) → inCS cl.pc = false)
    (hnew : ∀ cl k, th'.cur = some (cl, k) → inCS cl.pc = false) :
    Inv ⟨c.W, upd c.T t th'⟩ where
  free := hI.free
  held := by
    intro w t0 hs
    obtain ⟨cl, k, hc, hw, hcs⟩ := hI.held w t0 hs
    have ht : t0 ≠ t := by
      intro h; subst h
      have := hold cl k hc
      rw [CS_inCS hcs] at this; exact Bool.noConfusion this
    exact ⟨cl, k, by simp [upd_other _ _ ht, hc], hw, hcs⟩
  holds := by
    intro t' cl k hc hin
    by_cases ht : t' = t
    · subst ht; simp at hc; rw [hnew cl k hc] at hin; exact Bool.noConfusion hin
    · simp [upd_other _ _ ht] at hc; exact hI.holds t' cl k hc hin

/-- A step of thread `t` inside `cl` that rewrites worker `cl.w` (entering, inside, or leaving the
critical section). -/
theorem Inv_updW {c : Cfg} (hI : Inv c) (t : Tid) (cl : Call) (k : K) (x' : Worker) (th' : Thread)
    (hcur : (c.T t).cur = some (cl, k))
    (hsl : (c.W cl.w).sl = none ∨ (c.W cl.w).sl = some t)
    (h1 : x'.sl = none → Consistent x')
    (h2 : ∀ t0, x'.sl = some t0 → t0 = t ∧ ∃ cl' k', th'.cur = some (cl', k') ∧ cl'.w = cl.w ∧ CS cl' x')
    (h3 : ∀ cl' k', th'.cur = some (cl', k') → inCS cl'.pc = true → cl'.w = cl.w ∧ x'.sl = some t) :
    Inv ⟨upd c.W cl.w x', upd c.T t th'⟩ where
  free := by
    intro w hs
    by_cases hw : w = cl.w
    · subst hw; simp at hs ⊢; exact h1 hs
    · simp [upd_other _ _ hw] at hs ⊢; exact hI.free w hs
  held := by
    intro w t0 hs
    by_cases hw : w = cl.w
    · subst hw; simp at hs
      obtain ⟨ht, cl', k', hc', hw', hcs'⟩ := h2 t0 hs
      subst ht
      exact ⟨cl', k', by simp [hc'], hw', by simpa using hcs'⟩
    · simp [upd_other _ _ hw] at hs
      obtain ⟨cl0, k0, hc0, hw0, hcs0⟩ := hI.held w t0 hs
      have ht : t0 ≠ t := by
        intro h; subst h
        rw [hcur] at hc0; simp at hc0
        exact hw (by rw [← hw0, ← hc0.1])
      exact ⟨cl0, k0, by simp [upd_other _ _ ht, hc0], hw0, by simpa [upd_other _ _ hw] using hcs0⟩
  holds := by
    intro t' cl' k' hc hin
    by_cases ht : t' = t
    · subst ht; simp at hc
      obtain ⟨hw, hs⟩ := h3 cl' k' hc hin
      simp [hw, hs]
    · simp [upd_other _ _ ht] at hc
      have hs := hI.holds t' cl' k' hc hin
      by_cases hw : cl'.w = cl.w
      · rw [hw] at hs
        rcases hsl with h | h
        · rw [h] at hs; exact absurd hs (by simp)
        · rw [h] at hs; exact absurd (Option.some.inj hs).symm ht
      · simpa [upd_other _ _ hw] using hs

theorem upd_self {α} (f : Nat → α) (a : Nat) : upd f a (f a) = f := by
  funext x; by_cases h : x = a <;> simp [upd, h]

theorem Inv_cs {c : Cfg} (hI : Inv c) {t : Tid} {cl : Call} {k : K}
    (hcur : (c.T t).cur = some (cl, k)) (hin : inCS cl.pc = true) :
    (c.W cl.w).sl = some t ∧ CS cl (c.W cl.w) := by
  have hs := hI.holds t cl k hcur hin
  obtain ⟨cl', k', hc', _, hcs⟩ := hI.held cl.w t hs
  rw [hcur] at hc'; simp at hc'
  obtain ⟨h1, _⟩ := hc'; subst h1
  exact ⟨hs, hcs⟩

/-- A step inside the critical section that only reads: the thread moves to `pc'`. -/
theorem Inv_csRead {c : Cfg} (hI : Inv c) {t : Tid} {cl : Call} {k : K}
    (hcur : (c.T t).cur = some (cl, k)) (hin : inCS cl.pc = true) (pc' : MPc)
    (hcs' : CS { cl with pc := pc' } (c.W cl.w)) :
    Inv ⟨c.W, upd c.T t { c.T t with cur := some ({ cl with pc := pc' }, k) }⟩ := by
  obtain ⟨hs, _⟩ := Inv_cs hI hcur hin
  have := Inv_updW hI t cl k (c.W cl.w) { c.T t with cur := some ({ cl with pc := pc' }, k) } hcur
    (Or.inr hs) (by simp [hs])
    (by intro t0 h0; rw [hs] at h0; exact ⟨(Option.some.inj h0).symm, _, _, rfl, rfl, hcs'⟩)
    (by intro cl' k' h _; simp at h; exact ⟨by rw [← h.1], hs⟩)
  rwa [upd_self] at this

/-- A step inside the critical section that writes the worker and moves to `pc'` (still inside). -/
theorem Inv_csWrite {c : Cfg} (hI : Inv c) {t : Tid} {cl : Call} {k : K}
    (hcur : (c.T t).cur = some (cl, k)) (hin : inCS cl.pc = true) (pc' : MPc) (x' : Worker)
    (hsl' : x'.sl = some t) (hcs' : CS { cl with pc := pc' } x') :
    Inv ⟨upd c.W cl.w x', upd c.T t { c.T t with cur := some ({ cl with pc := pc' }, k) }⟩ := by
  obtain ⟨hs, _⟩ := Inv_cs hI hcur hin
  exact Inv_updW hI t cl k x' _ hcur (Or.inr hs) (by simp [hsl'])
    (by intro t0 h0; rw [hsl'] at h0; exact ⟨(Option.some.inj h0).symm, _, _, rfl, rfl, hcs'⟩)
    (by intro cl' k' h _; simp at h; exact ⟨by rw [← h.1], hsl'⟩)

/-- Entering the critical section. -/
theorem Inv_csEnter {c : Cfg} (hI : Inv c) {t : Tid} {cl : Call} {k : K}
    (hcur : (c.T t).cur = some (cl, k)) (hfree : (c.W cl.w).sl = none) (pc' : MPc)
    (hcs' : Consistent (c.W cl.w) → CS { cl with pc := pc' } { c.W cl.w with sl := some t }) :
    Inv ⟨upd c.W cl.w { c.W cl.w with sl := some t },
         upd c.T t { c.T t with cur := some ({ cl with pc := pc' }, k) }⟩ :=
  Inv_updW hI t cl k _ _ hcur (Or.inl hfree) (by simp)
    (by intro t0 h0; simp at h0; exact ⟨h0.symm, _, _, rfl, rfl, hcs' (hI.free _ hfree)⟩)
    (by intro cl' k' h _; simp at h; exact ⟨by rw [← h.1], rfl⟩)

/-- Leaving the critical section with return value `b`. -/
theorem Inv_csExit {c : Cfg} (hI : Inv c) {t : Tid} {cl : Call} {k : K}
    (hcur : (c.T t).cur = some (cl, k)) (hin : inCS cl.pc = true) (b : Bool)
    (hcons : CS cl (c.W cl.w) → Consistent (c.W cl.w)) :
    Inv ⟨upd c.W cl.w { c.W cl.w with sl := none }, upd c.T t ((c.T t).apply (resume k b))⟩ := by
  obtain ⟨hs, hcs⟩ := Inv_cs hI hcur hin
  exact Inv_updW hI t cl k _ _ hcur (Or.inr hs)
    (by intro _; have := hcons hcs; simpa [Consistent] using this)
    (by intro t0 h0; simp at h0)
    (by intro cl' k' h hin'
        rw [apply_cur_nonCS _ _ (resume_nonCS k b) cl' k' h] at hin'; exact Bool.noConfusion hin')

theorem Inv_step {pw : Pid → List Wid} {u : Wid → Bool} {c c' : Cfg} {t : Tid}
    (hI : Inv c) (h : step? pw u c t = some c') : Inv c' := by
  unfold step? at h
  cases hcur : (c.T t).cur with
  | none =>
    simp only [hcur] at h
    cases hs : (c.T t).script with
    | nil => simp [hs] at h
    | cons op s =>
      simp only [hs, Option.some.injEq] at h; subst h
      exact Inv_keepW hI t _ (by simp [hcur]) (apply_cur_nonCS _ _ (start_nonCS pw op))
  | some ck =>
    obtain ⟨cl, k⟩ := ck
    simp only [hcur] at h
    have keepGoto : ∀ pc', inCS cl.pc = false → inCS pc' = false →
        Inv ⟨c.W, upd c.T t { c.T t with cur := some ({ cl with pc := pc' }, k) }⟩ := by
      intro pc' h1 h2
      exact Inv_keepW hI t _ (by intro cl0 k0 h0; rw [hcur] at h0; simp at h0; rw [← h0.1]; exact h1)
        (by intro cl0 k0 h0; simp at h0; rw [← h0.1]; exact h2)
    have keepRet : ∀ b, inCS cl.pc = false → Inv ⟨c.W, upd c.T t ((c.T t).apply (resume k b))⟩ := by
      intro b h1
      exact Inv_keepW hI t _ (by intro cl0 k0 h0; rw [hcur] at h0; simp at h0; rw [← h0.1]; exact h1)
        (apply_cur_nonCS _ _ (resume_nonCS k b))
    cases hpc : cl.pc with
    | aEnter =>
      by_cases hfree : (c.W cl.w).sl = none
      · have hm : mstep u c.W t cl =
            some (upd c.W cl.w { c.W cl.w with sl := some t }, .goto .aRdPool) := by simp [mstep, hpc, hfree]
        simp only [hm, Option.some.injEq] at h; subst h
        exact Inv_csEnter hI hcur hfree _ (by intro hc; simpa [CS, Consistent] using hc)
      · have hm : mstep u c.W t cl = none := by simp [mstep, hpc, hfree]
        simp [hm] at h
    | aRdPool =>
      have hm : mstep u c.W t cl = some (c.W, .goto (if (c.W cl.w).pool = some cl.p then .aRd2 else .aTry)) := by simp [mstep, hpc]
      simp only [hm, Option.some.injEq] at h; subst h
      refine Inv_csRead hI hcur (by simp [hpc, inCS]) _ ?_
      have hcs := (Inv_cs hI hcur (by simp [hpc, inCS])).2
      simp only [CS, hpc] at hcs
      split <;> simpa [CS] using hcs
    | aTry =>
      have hcs := (Inv_cs hI hcur (by simp [hpc, inCS])).2
      have hsl := (Inv_cs hI hcur (by simp [hpc, inCS])).1
      simp only [CS, hpc] at hcs
      cases hl : (c.W cl.w).lock
      · have hm : mstep u c.W t cl =
            some (upd c.W cl.w { c.W cl.w with lock := true }, .goto .aWr) := by simp [mstep, hpc, hl]
        simp only [hm, Option.some.injEq] at h; subst h
        refine Inv_csWrite hI hcur (by simp [hpc, inCS]) _ _ (by simpa using hsl) ?_
        simp only [CS, true_and]
        simp only [Consistent, hl] at hcs
        cases hp : (c.W cl.w).pool with
        | none => rfl
        | some q => simp [hp] at hcs
      · have hm : mstep u c.W t cl = some (c.W, .goto .aRd2) := by simp [mstep, hpc, hl]
        simp only [hm, Option.some.injEq] at h; subst h
        exact Inv_csRead hI hcur (by simp [hpc, inCS]) _ (by simpa [CS] using hcs)
    | aWr =>
      have hm : mstep u c.W t cl = some (upd c.W cl.w { c.W cl.w with pool := some cl.p }, .goto .aRd2) := by simp [mstep, hpc]
      simp only [hm, Option.some.injEq] at h; subst h
      have hcs := (Inv_cs hI hcur (by simp [hpc, inCS])).2
      have hsl := (Inv_cs hI hcur (by simp [hpc, inCS])).1
      simp only [CS, hpc] at hcs
      exact Inv_csWrite hI hcur (by simp [hpc, inCS]) _ _ (by simpa using hsl)
        (by simp [CS, Consistent, hcs.1])
    | aRd2 =>
      have hm : mstep u c.W t cl = some (c.W, .goto (.aExit ((c.W cl.w).pool == some cl.p))) := by simp [mstep, hpc]
      simp only [hm, Option.some.injEq] at h; subst h
      have hcs := (Inv_cs hI hcur (by simp [hpc, inCS])).2
      simp only [CS, hpc] at hcs
      exact Inv_csRead hI hcur (by simp [hpc, inCS]) _ (by simpa [CS] using hcs)
    | aExit r =>
      have hm : mstep u c.W t cl = some (upd c.W cl.w { c.W cl.w with sl := none }, .ret r) := by simp [mstep, hpc]
      simp only [hm, Option.some.injEq] at h; subst h
      exact Inv_csExit hI hcur (by simp [hpc, inCS]) r (by intro hcs; simpa [CS, hpc] using hcs)
    | rEnter =>
      by_cases hfree : (c.W cl.w).sl = none
      · have hm : mstep u c.W t cl =
            some (upd c.W cl.w { c.W cl.w with sl := some t },
                  .goto (if cl.checked then .rRdLocked1 else .rRdLocked2)) := by simp [mstep, hpc, hfree]
        simp only [hm, Option.some.injEq] at h; subst h
        refine Inv_csEnter hI hcur hfree _ ?_
        intro hc
        cases hck : cl.checked <;> simp [CS, Consistent] <;> simpa [Consistent] using hc
      · have hm : mstep u c.W t cl = none := by simp [mstep, hpc, hfree]
        simp [hm] at h
    | rRdLocked1 =>
      have hm : mstep u c.W t cl = some (c.W, .goto (if (c.W cl.w).lock then .rRdPool else .rRdLocked2)) := by simp [mstep, hpc]
      simp only [hm, Option.some.injEq] at h; subst h
      have hcs := (Inv_cs hI hcur (by simp [hpc, inCS])).2
      simp only [CS, hpc] at hcs
      refine Inv_csRead hI hcur (by simp [hpc, inCS]) _ ?_
      cases hl : (c.W cl.w).lock <;> simp [CS, hl] <;> simpa [hl] using hcs
    | rRdPool =>
      have hm : mstep u c.W t cl = some (c.W, .goto (if (c.W cl.w).pool = some cl.p then .rRdLocked2 else .rExit)) := by simp [mstep, hpc]
      simp only [hm, Option.some.injEq] at h; subst h
      have hcs := (Inv_cs hI hcur (by simp [hpc, inCS])).2
      simp only [CS, hpc] at hcs
      refine Inv_csRead hI hcur (by simp [hpc, inCS]) _ ?_
      by_cases hp : (c.W cl.w).pool = some cl.p
      · simp [CS, hp]; simpa [hp] using hcs
      · simp [CS, hp]; exact hcs
    | rRdLocked2 =>
      have hm : mstep u c.W t cl = some (c.W, .goto (if (c.W cl.w).lock then .rUnlock else .rWr)) := by simp [mstep, hpc]
      simp only [hm, Option.some.injEq] at h; subst h
      have hcs := (Inv_cs hI hcur (by simp [hpc, inCS])).2
      simp only [CS, hpc] at hcs
      refine Inv_csRead hI hcur (by simp [hpc, inCS]) _ ?_
      cases hl : (c.W cl.w).lock
      · simp only [Bool.false_eq_true, if_false, CS]
        refine ⟨hl, fun _ => Or.inr ?_⟩
        have := hcs.1; simp only [Consistent, hl] at this
        cases hp : (c.W cl.w).pool with
        | none => rfl
        | some q => simp [hp] at this
      · simp only [if_true, CS]
        exact ⟨hl, hcs.1.mp hl, fun hck => hcs.2 hck hl⟩
    | rUnlock =>
      have hm : mstep u c.W t cl = some (upd c.W cl.w { c.W cl.w with lock := false }, .goto .rWr) := by simp [mstep, hpc]
      simp only [hm, Option.some.injEq] at h; subst h
      have hcs := (Inv_cs hI hcur (by simp [hpc, inCS])).2
      have hsl := (Inv_cs hI hcur (by simp [hpc, inCS])).1
      simp only [CS, hpc] at hcs
      exact Inv_csWrite hI hcur (by simp [hpc, inCS]) _ _ (by simpa using hsl)
        (by simp only [CS, true_and]; intro hck; exact Or.inl (hcs.2.2 hck))
    | rWr =>
      have hm : mstep u c.W t cl = some (upd c.W cl.w { c.W cl.w with pool := none }, .goto .rExit) := by simp [mstep, hpc]
      simp only [hm, Option.some.injEq] at h; subst h
      have hcs := (Inv_cs hI hcur (by simp [hpc, inCS])).2
      have hsl := (Inv_cs hI hcur (by simp [hpc, inCS])).1
      simp only [CS, hpc] at hcs
      exact Inv_csWrite hI hcur (by simp [hpc, inCS]) _ _ (by simpa using hsl)
        (by simp [CS, Consistent, hcs.1])
    | rExit =>
      have hm : mstep u c.W t cl = some (upd c.W cl.w { c.W cl.w with sl := none }, .ret true) := by simp [mstep, hpc]
      simp only [hm, Option.some.injEq] at h; subst h
      exact Inv_csExit hI hcur (by simp [hpc, inCS]) true (by intro hcs; simpa [CS, hpc] using hcs)
    | vRdLocked =>
      cases hl : (c.W cl.w).lock
      · have hm : mstep u c.W t cl = some (c.W, .ret true) := by simp [mstep, hpc, hl]
        simp only [hm, Option.some.injEq] at h; subst h
        exact keepRet _ (by simp [hpc, inCS])
      · have hm : mstep u c.W t cl = some (c.W, .goto .vRdPool) := by simp [mstep, hpc, hl]
        simp only [hm, Option.some.injEq] at h; subst h
        exact keepGoto _ (by simp [hpc, inCS]) (by simp [inCS])
    | vRdPool =>
      have hm : mstep u c.W t cl = some (c.W, .ret ((c.W cl.w).pool == some cl.p)) := by simp [mstep, hpc]
      simp only [hm, Option.some.injEq] at h; subst h
      exact keepRet _ (by simp [hpc, inCS])
    | lRdLocked =>
      cases hl : (c.W cl.w).lock
      · have hm : mstep u c.W t cl = some (c.W, .ret false) := by simp [mstep, hpc, hl]
        simp only [hm, Option.some.injEq] at h; subst h
        exact keepRet _ (by simp [hpc, inCS])
      · have hm : mstep u c.W t cl = some (c.W, .goto .lRdPool) := by simp [mstep, hpc, hl]
        simp only [hm, Option.some.injEq] at h; subst h
        exact keepGoto _ (by simp [hpc, inCS]) (by simp [inCS])
    | lRdPool =>
      have hm : mstep u c.W t cl = some (c.W, .ret ((c.W cl.w).pool == some cl.p)) := by simp [mstep, hpc]
      simp only [hm, Option.some.injEq] at h; subst h
      exact keepRet _ (by simp [hpc, inCS])
    | cEnter =>
      by_cases hfree : (c.W cl.w).sl = none
      · have hm : mstep u c.W t cl =
            some (upd c.W cl.w { c.W cl.w with sl := some t }, .goto .cExit) := by simp [mstep, hpc, hfree]
        simp only [hm, Option.some.injEq] at h; subst h
        exact Inv_csEnter hI hcur hfree _ (by intro hc; simpa [CS, Consistent] using hc)
      · have hm : mstep u c.W t cl = none := by simp [mstep, hpc, hfree]
        simp [hm] at h
    | cExit =>
      have hm : mstep u c.W t cl = some (upd c.W cl.w { c.W cl.w with sl := none }, .ret (u cl.w)) := by simp [mstep, hpc]
      simp only [hm, Option.some.injEq] at h; subst h
      exact Inv_csExit hI hcur (by simp [hpc, inCS]) _ (by intro hcs; simpa [CS, hpc] using hcs)
    | iEnter =>
      by_cases hfree : (c.W cl.w).sl = none
      · have hm : mstep u c.W t cl =
            some (upd c.W cl.w { c.W cl.w with sl := some t }, .goto .iExit) := by simp [mstep, hpc, hfree]
        simp only [hm, Option.some.injEq] at h; subst h
        exact Inv_csEnter hI hcur hfree _ (by intro hc; simpa [CS, Consistent] using hc)
      · have hm : mstep u c.W t cl = none := by simp [mstep, hpc, hfree]
        simp [hm] at h
    | iExit =>
      have hm : mstep u c.W t cl = some (upd c.W cl.w { c.W cl.w with sl := none }, .ret (u cl.w)) := by simp [mstep, hpc]
      simp only [hm, Option.some.injEq] at h; subst h
      exact Inv_csExit hI hcur (by simp [hpc, inCS]) _ (by intro hcs; simpa [CS, hpc] using hcs)
    | kEnter =>
      by_cases hfree : (c.W cl.w).sl = none
      · have hm : mstep u c.W t cl =
            some (upd c.W cl.w { c.W cl.w with sl := some t }, .goto .kExit) := by simp [mstep, hpc, hfree]
        simp only [hm, Option.some.injEq] at h; subst h
        exact Inv_csEnter hI hcur hfree _ (by intro hc; simpa [CS, Consistent] using hc)
      · have hm : mstep u c.W t cl = none := by simp [mstep, hpc, hfree]
        simp [hm] at h
    | kExit =>
      have hm : mstep u c.W t cl = some (upd c.W cl.w { c.W cl.w with sl := none }, .ret true) := by simp [mstep, hpc]
      simp only [hm, Option.some.injEq] at h; subst h
      exact Inv_csExit hI hcur (by simp [hpc, inCS]) _ (by intro hcs; simpa [CS, hpc] using hcs)

theorem Inv_reach {pw : Pid → List Wid} {c0 c : Cfg} (h0 : Init c0) (h : Reach pw c0 c) : Inv c := by
  induction h with
  | refl => exact Inv_init h0
  | step _ hs ih => obtain ⟨t, u, hst⟩ := hs; exact Inv_step ih hst

end MlModel.Owner
