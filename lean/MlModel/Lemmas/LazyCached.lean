import MlModel.Lemmas.LazyLog
/-! Cached calls: hit, store, miss; handles: dereference. -/
namespace MlModel.Lazy
set_option linter.unusedSimpArgs false
set_option linter.unusedVariables false
open MlModel.Lru (Inv keysOf)

theorem pres_callBody (f : Expr) (as : List Expr) (ks : List (String × Expr)) (l : Bool) :
    Pres (callBody f as ks l) := by
  unfold callBody
  apply pres_ite
  · exact pres_ite (pres_newHandle _) (pres_pure _)
  · exact pres_bind (pres_eval f) fun fv => pres_ite (pres_throw _)
      (pres_bind (pres_evalArgs as) fun a => pres_bind (pres_evalKw ks) fun k =>
        pres_bind (pres_applyMake _ _ _) fun r => pres_ite (pres_newHandle _) (pres_pure _))

/-- cache hit: the stored object comes back, nothing else changes but the recency / hit counter -/
theorem eval_cached_hit {f : Expr} {as : List Expr} {ks : List (String × Expr)} {l : Bool} {s : St}
    {rv : RVal} (h : Lru.find? s.fnc.data (Expr.call f as ks true l).key = some rv) :
    eval (.call f as ks true l) s =
      (.ok rv, { s with fnc := (s.fnc.getitem (Expr.call f as ks true l).key).2 }) := by
  rw [eval_call]
  simp only [if_true]
  rw [bind_ok (fncGet_run _ s)]
  have : (s.fnc.getitem (Expr.call f as ks true l).key).1 = some rv := by rw [Lru.getitem_result, h]
  rw [this]
  rfl

/-- cache miss: the body runs (from the state with the miss counted) and its result is stored -/
theorem eval_cached_miss {f : Expr} {as : List Expr} {ks : List (String × Expr)} {l : Bool} {s : St}
    (h : Lru.find? s.fnc.data (Expr.call f as ks true l).key = none) :
    eval (.call f as ks true l) s =
      (do let r ← callBody f as ks l
          fncSet (Expr.call f as ks true l).key r
          pure r : M RVal) { s with fnc := (s.fnc.getitem (Expr.call f as ks true l).key).2 } := by
  rw [eval_call]
  simp only [if_true]
  rw [bind_ok (fncGet_run _ s)]
  have : (s.fnc.getitem (Expr.call f as ks true l).key).1 = none := by rw [Lru.getitem_result, h]
  rw [this]

/-- after a successful make of a cached call (capacity ≥ 1) the result is in the cache under its key -/
theorem eval_cached_store {f : Expr} {as : List Expr} {ks : List (String × Expr)} {l : Bool} {s s' : St}
    {rv : RVal} (hg : Good s) (hm : 1 ≤ s.fnc.maxsize)
    (h : eval (.call f as ks true l) s = (.ok rv, s')) :
    Lru.find? s'.fnc.data (Expr.call f as ks true l).key = some rv := by
  cases hf : Lru.find? s.fnc.data (Expr.call f as ks true l).key with
  | some rv' =>
    rw [eval_cached_hit hf] at h
    injection h with h1 h2
    injection h1 with h1
    subst h1; subst h2
    simp only [Lru.getitem_find?, hf]
  | none =>
    rw [eval_cached_miss hf] at h
    have hg0 : Good { s with fnc := (s.fnc.getitem (Expr.call f as ks true l).key).2 } :=
      (pres_fncGet _ s hg).1
    have hm0 : (s.fnc.getitem (Expr.call f as ks true l).key).2.maxsize = s.fnc.maxsize :=
      Lru.getitem_maxsize _ _
    obtain ⟨g1, e1⟩ := pres_callBody f as ks l _ hg0
    cases hb : callBody f as ks l { s with fnc := (s.fnc.getitem (Expr.call f as ks true l).key).2 } with
    | mk r1 s1 =>
      rw [hb] at g1 e1
      cases r1 with
      | error e => rw [bind_err hb] at h; simp at h
      | ok r =>
        rw [bind_ok hb, bind_ok (fncSet_run _ r s1)] at h
        simp only [pure_run] at h
        injection h with h1 h2
        injection h1 with h1
        subst h1; subst h2
        have : 1 ≤ s1.fnc.maxsize := by rw [e1.fmax]; simp only; rw [hm0]; exact hm
        exact Lru.setitem_find?_self g1.fnc this _ _

theorem objGet_missing {id : Nat} {s : St} (h : id ∉ keysOf s.obj.data) :
    objGet id s = (.error .missing, { s with obj := { s.obj with misses := s.obj.misses + 1 } }) := by
  have hf := (Lru.find?_none_iff s.obj.data id).mpr h
  unfold objGet Lru.Cache.getitem
  simp [hf]

theorem objGet_ok {id : Nat} {s s' : St} {rv : RVal} (h : objGet id s = (.ok rv, s')) :
    Lru.find? s.obj.data id = some rv := by
  unfold objGet at h
  cases hg : s.obj.getitem id with
  | mk r c =>
    rw [hg] at h
    have hr := Lru.getitem_result s.obj id
    rw [hg] at hr
    cases r with
    | none => simp at h
    | some v =>
      simp only at h
      injection h with h1 _
      injection h1 with h1
      subst h1
      exact hr.symm

theorem eval_handle (id : Nat) (s : St) : eval (.const (.handle id)) s = objGet id s := by
  simp only [eval, makeVal]

/-- a new handle can be dereferenced right away (capacity ≥ 1) and yields the object it was made for -/
theorem newHandle_then_deref {r : RVal} {s : St} (hg : Good s) (hm : 1 ≤ s.obj.maxsize) :
    (newHandle r s).1 = .ok (.handle s.nextId, s.w.alloc) ∧
    (objGet s.nextId (newHandle r s).2).1 = .ok r := by
  have hfind : Lru.find? (s.obj.setitem s.nextId r).data s.nextId = some r :=
    Lru.setitem_find?_self hg.obj hm _ _
  refine ⟨rfl, ?_⟩
  unfold objGet
  simp only [newHandle]
  have : ((s.obj.setitem s.nextId r).getitem s.nextId).1 = some r := by rw [Lru.getitem_result, hfind]
  cases hgi : (s.obj.setitem s.nextId r).getitem s.nextId with
  | mk a c =>
    rw [hgi] at this
    simp only at this
    subst this
    rfl

end MlModel.Lazy
