import MlModel.Lemmas.TreeRel
/-!
# `apply()`: maps every leaf and only leaves, shape preserved
-/
namespace MlModel.Tree

/-- Integer dict keys are non-negative (a negative int key of a dict cannot alias anything, but the
heap-independent notion `Diverge` asks for non-negative integer keys at the point of divergence). -/
def NonNegKeys (h : Heap) : Prop :=
  ∀ (r : Ref) (es : List (DKey × Ref)), h[r]? = some (.dict es) → ∀ e ∈ es, ∀ i, e.1.norm = .int i → 0 ≤ i

/-! ## leaf walks: plain, pairwise diverging -/

theorem children_key_facts {h : Heap} (hg : GoodDicts h) (hnn : NonNegKeys h) {r : Ref} {n : Node}
    (hn : h[r]? = some n) {k : PKey} {c : Ref} (hm : (k, c) ∈ n.children) : k.isPlain = true ∧ k.NonNeg := by
  refine ⟨(children_slotGet hg hn hm).2, ?_⟩
  cases n with
  | dict es =>
    simp only [Node.children, List.mem_map] at hm
    obtain ⟨⟨dk, c'⟩, hmem, he⟩ := hm
    simp only [Prod.mk.injEq] at he
    obtain ⟨rfl, rfl⟩ := he
    intro i hi
    cases dk with
    | str s => simp [dkeyToPKey, PKey.asInt] at hi
    | int j => simp [dkeyToPKey, PKey.asInt] at hi; subst hi; exact hnn r es hn _ hmem j rfl
    | idx j => simp [dkeyToPKey, PKey.asInt] at hi; subst hi; exact hnn r es hn _ hmem j rfl
    | lit id v => simp [dkeyToPKey, PKey.asInt] at hi
    | obj id => simp [dkeyToPKey, PKey.asInt] at hi
  | list rs =>
    obtain ⟨i, _, rfl⟩ := mem_seqChildren.mp hm
    intro j hj; simp [PKey.asInt] at hj; omega
  | tuple rs =>
    obtain ⟨i, _, rfl⟩ := mem_seqChildren.mp hm
    intro j hj; simp [PKey.asInt] at hj; omega
  | leaf v => simp [Node.children] at hm
  | null => simp [Node.children] at hm
  | nd _ _ _ => simp [Node.children] at hm
  | buf _ => simp [Node.children] at hm

theorem norm_inj_of_nodup {es : List (DKey × Ref)} (hnd : (es.map (·.1.norm)).Nodup) {a b : DKey × Ref}
    (ha : a ∈ es) (hb : b ∈ es) (e : a.1.norm = b.1.norm) : a = b := by
  induction es with
  | nil => cases ha
  | cons x es ih =>
    simp only [List.map_cons, List.nodup_cons] at hnd
    rcases List.mem_cons.mp ha with rfl | ha' <;> rcases List.mem_cons.mp hb with rfl | hb'
    · rfl
    · exact absurd (List.mem_map.mpr ⟨b, hb', e.symm⟩) hnd.1
    · exact absurd (List.mem_map.mpr ⟨a, ha', e⟩) hnd.1
    · exact ih hnd.2 ha' hb'

/-- (the keys of one dict are distinct up to `==`: `hnd`, from `GoodDicts`) -/
theorem children_toDKey_ne {n : Node} (hnd : ∀ es, n = .dict es → (es.map (·.1.norm)).Nodup) {k k' : PKey}
    {c c' : Ref} (hm : (k, c) ∈ n.children)
    (hm' : (k', c') ∈ n.children) (hne : k ≠ k') : k'.toDKey ≠ k.toDKey := by
  cases n with
  | dict es =>
    simp only [Node.children, List.mem_map] at hm hm'
    obtain ⟨⟨dk, x⟩, hmem, he⟩ := hm
    obtain ⟨⟨dk', x'⟩, hmem', he'⟩ := hm'
    simp only [Prod.mk.injEq] at he he'
    obtain ⟨rfl, _⟩ := he
    obtain ⟨rfl, _⟩ := he'
    have e1 : (dkeyToPKey dk).toDKey = dk.norm := by cases dk <;> rfl
    have e2 : (dkeyToPKey dk').toDKey = dk'.norm := by cases dk' <;> rfl
    rw [e1, e2]
    intro e
    have := norm_inj_of_nodup (hnd es rfl) hmem' hmem e
    simp only [Prod.mk.injEq] at this
    exact hne (by rw [this.1])
  | list rs =>
    obtain ⟨i, _, rfl⟩ := mem_seqChildren.mp hm
    obtain ⟨i', _, rfl⟩ := mem_seqChildren.mp hm'
    simp only [PKey.toDKey, ne_eq, DKey.int.injEq]
    intro e; apply hne; rw [e]
  | tuple rs =>
    obtain ⟨i, _, rfl⟩ := mem_seqChildren.mp hm
    obtain ⟨i', _, rfl⟩ := mem_seqChildren.mp hm'
    simp only [PKey.toDKey, ne_eq, DKey.int.injEq]
    intro e; apply hne; rw [e]
  | leaf v => simp [Node.children] at hm
  | null => simp [Node.children] at hm
  | nd _ _ _ => simp [Node.children] at hm
  | buf _ => simp [Node.children] at hm

theorem LeafWalk.plain {h : Heap} (hg : GoodDicts h) {r : Ref} {q : Path} {x : Ref} (w : LeafWalk h r q x) :
    PlainSelf q := by
  induction w with
  | leaf _ _ => simp [PlainSelf]
  | @step r n k c q x hn hm _ ih =>
    have hk := (children_slotGet hg hn hm).2
    cases k <;> simp_all [PlainSelf, PKey.isPlain]

/-- Two different leaf paths of the same tree leave each other. -/
theorem LeafWalk.diverge {h : Heap} (hg : GoodDicts h) (hnn : NonNegKeys h) {r : Ref} {p : Path} {x : Ref}
    (w : LeafWalk h r p x) : ∀ {q : Path} {y : Ref}, LeafWalk h r q y → p ≠ q → Diverge p q := by
  induction w with
  | @leaf r n hn hc =>
    intro q y w2 hne
    cases w2 with
    | leaf _ _ => exact absurd rfl hne
    | step hn' hm' _ => rw [hn] at hn'; cases hn'; rw [hc] at hm'; cases hm'
  | @step r n k c p' x hn hm w1 ih =>
    intro q y w2 hne
    cases w2 with
    | leaf hn' hc' => rw [hn] at hn'; cases hn'; rw [hc'] at hm; cases hm
    | @step _ n' k' c' q' _ hn' hm' w2' =>
      rw [hn] at hn'; cases hn'
      obtain ⟨hkp, hknn⟩ := children_key_facts hg hnn hn hm
      obtain ⟨hkp', hknn'⟩ := children_key_facts hg hnn hn hm'
      by_cases hkk : k = k'
      · subst hkk
        have h1 := (children_slotGet hg hn hm).1
        have h2 := (children_slotGet hg hn hm').1
        rw [h1] at h2; cases h2
        exact .next hkp hkp' rfl (ih w2' (fun e => hne (by rw [e])))
      · exact .here hkp hknn (Or.inl hkp') hknn' (children_toDKey_ne (fun es e => (hg r es (e ▸ hn)).1) hm hm' hkk)

/-! ## the enumeration does not depend on cells outside the tree -/

theorem collectE_congr {α β : Type} {g g' : α → Except ErrKind (List β)} {xs : List α}
    (h : ∀ x ∈ xs, g x = g' x) : collectE g xs = collectE g' xs := by
  induction xs with
  | nil => rfl
  | cons x xs ih =>
    simp only [collectE]
    rw [h x (by simp), ih (fun x' hx' => h x' (by simp [hx']))]

theorem children_mem_refs {n : Node} {kc : PKey × Ref} (hkc : kc ∈ n.children) : kc.2 ∈ n.refs := by
  cases n with
  | dict es =>
    simp only [Node.children, List.mem_map] at hkc
    obtain ⟨e, he, rfl⟩ := hkc
    exact List.mem_map.mpr ⟨e, he, rfl⟩
  | list rs =>
    obtain ⟨k, c⟩ := kc
    obtain ⟨i, hi, _⟩ := mem_seqChildren.mp hkc
    exact List.mem_of_getElem? hi
  | tuple rs =>
    obtain ⟨k, c⟩ := kc
    obtain ⟨i, hi, _⟩ := mem_seqChildren.mp hkc
    exact List.mem_of_getElem? hi
  | leaf v => simp [Node.children] at hkc
  | null => simp [Node.children] at hkc
  | nd _ _ _ => simp [Node.children] at hkc
  | buf _ => simp [Node.children] at hkc

theorem dfs_agree {A : Ref → Prop} {h h1 : Heap} (hR : Region A h) (hag : ∀ r, A r → h1[r]? = h[r]?) :
    ∀ (fuel : Nat) (r : Ref) (parent : Path), A r → (parent ≠ [] ∨ ∃ n, h[r]? = some n ∧ n.children ≠ []) →
      dfs h1 fuel r parent = dfs h fuel r parent := by
  intro fuel
  induction fuel with
  | zero => intro r parent _ _; rfl
  | succ fuel ih =>
    intro r parent hr hroot
    have hlt := hR.lt r hr
    obtain ⟨n, hn⟩ : ∃ n, h[r]? = some n := ⟨h[r], by simp [hlt]⟩
    have hn1 : h1[r]? = some n := by rw [hag r hr]; exact hn
    rw [dfs_succ h1 fuel r parent hn1, dfs_succ h fuel r parent hn]
    split
    · rename_i hemp
      have hp : parent ≠ [] := by
        rcases hroot with hp | ⟨n', hn', hc'⟩
        · exact hp
        · rw [hn] at hn'; cases hn'
          exfalso; apply hc'
          simpa using hemp
      rw [dfsLeaf_nonroot _ _ hp, dfsLeaf_nonroot _ _ hp]
    · exact collectE_congr (fun kc hkc => ih kc.2 _ (hR.closed r n hr hn kc.2 (children_mem_refs hkc))
        (Or.inl (by simp)))

theorem LeafWalk.agree {A : Ref → Prop} {h h1 : Heap} (hR : Region A h) (hag : ∀ r, A r → h1[r]? = h[r]?)
    {r : Ref} {q : Path} {x : Ref} (w : LeafWalk h1 r q x) (hr : A r) : LeafWalk h r q x := by
  induction w with
  | @leaf r n hn hc => exact .leaf (by rw [← hag r hr]; exact hn) hc
  | @step r n k c q x hn hm _ ih =>
    have hn' : h[r]? = some n := by rw [← hag r hr]; exact hn
    exact .step hn' hm (ih (hR.closed r n hr hn' c (children_mem_refs hm)))

end MlModel.Tree

namespace MlModel.Tree

/-! ## the leaf function and the values it produces -/

/-- What `apply` needs of a leaf function: it only allocates, keeps the heap free of dangling references
and returns a valid reference. (It may read the heap and need not be deterministic across heaps.) -/
def FnOK (f : LeafFn) : Prop :=
  ∀ h r, Closed h → r < h.size → Extends h (f h r).1 ∧ Closed (f h r).1 ∧ (f h r).2 < (f h r).1.size

/-- `new` is what the leaf function returned for the old leaf `old`, called in some extension of `h`. -/
def ImageOf (f : LeafFn) (h : Heap) (new old : Ref) : Prop := ∃ hi, Extends h hi ∧ (f hi old).2 = new

theorem getCore_plain {h : Heap} : ∀ {p : Path} {r : Ref} {x : Ref} {m : Bool}, PlainSelf p →
    getCore h r p = .ok (x, m) → m = true := by
  intro p
  induction p with
  | nil => intro r x m _ hg; simp [getCore] at hg; exact hg.2
  | cons k ks ih =>
    intro r x m hp hg
    by_cases hs : k = .self
    · subst hs; simp [getCore] at hg; exact hg.2
    have hk : k.isPlain = true ∧ PlainSelf ks := by cases k <;> simp_all [PlainSelf]
    have h2 : ∀ id v, k = .lit id v → False := by
      intro id v e; subst e; simp [PKey.isPlain] at hk
    rw [getCore.eq_4 _ _ _ _ hs h2] at hg
    split at hg
    · exact ih hk.2 hg
    · cases hg

theorem get_of_getCore {h : Heap} {r : Ref} {p : Path} {x : Ref} {m : Bool} (hg : getCore h r p = .ok (x, m)) :
    get h r p = .ok x := by simp [get, hg, Except.map]

theorem getCore_of_get {h : Heap} {r : Ref} {p : Path} {x : Ref} (hg : get h r p = .ok x) :
    ∃ m, getCore h r p = .ok (x, m) := by
  unfold get at hg
  cases hc : getCore h r p with
  | error e => rw [hc] at hg; simp [Except.map] at hg
  | ok xm => rw [hc] at hg; simp [Except.map] at hg; exact ⟨xm.2, by rw [← hg]⟩

theorem mapValues_spec {f : LeafFn} (hf : FnOK f) : ∀ (ps : List Path) (h1 : Heap) (root : Ref) (h2 : Heap)
    (kvs : List (Path × Ref)), Closed h1 → root < h1.size → (∀ p ∈ ps, PlainSelf p) →
    mapValues f h1 root ps = (h2, .ok kvs) →
    kvs.map (·.1) = ps ∧ Closed h2 ∧ Extends h1 h2 ∧ (∀ kv ∈ kvs, kv.2 < h2.size) ∧
      ∀ kv ∈ kvs, ∃ x, get h1 root kv.1 = .ok x ∧ ImageOf f h1 kv.2 x := by
  intro ps
  induction ps with
  | nil =>
    intro h1 root h2 kvs hc _ _ hm
    simp [mapValues] at hm
    obtain ⟨rfl, rfl⟩ := hm
    exact ⟨rfl, hc, Extends.refl _, by simp, by simp⟩
  | cons p ps ih =>
    intro h1 root h2 kvs hc hroot hpl hm
    simp only [mapValues] at hm
    split at hm
    · cases hm
    · rename_i x mapped hgc
      have hmt : mapped = true := getCore_plain (hpl p (by simp)) hgc
      subst hmt
      simp only [if_true] at hm
      have hx : x < h1.size := by
        -- the value read from a closed heap is a valid reference
        have hgx := get_of_getCore hgc
        clear hm hgc
        -- by induction along the path
        have : ∀ (q : Path) (r : Ref), r < h1.size → ∀ y, get h1 r q = .ok y → PlainSelf q → y < h1.size := by
          intro q
          induction q with
          | nil => intro r hr y hy _; simp at hy; subst hy; exact hr
          | cons k ks ihq =>
            intro r hr y hy hq
            by_cases hs : k = .self
            · subst hs; simp at hy; subst hy; exact hr
            have hk : k.isPlain = true ∧ PlainSelf ks := by cases k <;> simp_all [PlainSelf]
            rw [get_cons _ (Or.inl hk.1)] at hy
            obtain ⟨n, hn⟩ : ∃ n, h1[r]? = some n := ⟨h1[r], by simp [hr]⟩
            rw [index_of_get hn] at hy
            cases hsl : n.slotGet k with
            | error e => rw [hsl] at hy; cases hy
            | ok c =>
              rw [hsl] at hy
              exact ihq c (hc r n hn c (Node.slotGet_mem hsl)) y hy hk.2
        exact this p root hroot x hgx (hpl p (by simp))
      obtain ⟨fe, fc, fl⟩ := hf h1 x hc hx
      generalize hfx : f h1 x = fr at hm fe fc fl
      obtain ⟨h1', v⟩ := fr
      simp only at hm fe fc fl
      split at hm
      · rename_i h2' kvs' hrec
        simp only [Prod.mk.injEq, Except.ok.injEq] at hm
        obtain ⟨rfl, rfl⟩ := hm
        obtain ⟨i1, i2, i3, i4, i5⟩ := ih h1' root h2' kvs' fc (Nat.lt_of_lt_of_le hroot fe.1)
          (fun p' hp' => hpl p' (by simp [hp'])) hrec
        refine ⟨by simp [i1], i2, fe.trans i3, ?_, ?_⟩
        · intro kv hkv
          rcases List.mem_cons.mp hkv with e | e
          · subst e; exact Nat.lt_of_lt_of_le fl i3.1
          · exact i4 kv e
        · intro kv hkv
          rcases List.mem_cons.mp hkv with e | e
          · subst e
            exact ⟨x, get_of_getCore hgc, h1, Extends.refl _, by rw [hfx]⟩
          · obtain ⟨x', hx', hi, hie, hif⟩ := i5 kv e
            refine ⟨x', ?_, hi, fe.trans hie, hif⟩
            rw [← get_extends hc fe kv.1 hroot]; exact hx'
      · cases hm

/-! ## the sequence of sets keeps the shape -/

theorem setMany_rel (strict : Bool) {h : Heap} (hg : GoodDicts h) {root : Ref} :
    ∀ (kvs : List (Path × Ref)) (L : Ref → Ref → Prop) (hA : Heap) (tA : Ref) (h' : Heap) (t' : Ref),
    (∀ a b, L a b → ∃ n, h[b]? = some n ∧ n.children = []) →
    Closed hA → tA < hA.size → (∀ kv ∈ kvs, kv.2 < hA.size) →
    (∀ kv ∈ kvs, ∃ x, LeafWalk h root kv.1 x) →
    SEqL L hA h tA root → setMany strict false hA tA kvs = (h', .ok t') →
    SEqL (fun a b => L a b ∨ ∃ kv ∈ kvs, a = kv.2 ∧ LeafWalk h root kv.1 b) h' h t' root := by
  intro kvs
  induction kvs with
  | nil =>
    intro L hA tA h' t' _ _ _ _ _ s hs
    simp [setMany] at hs; obtain ⟨rfl, rfl⟩ := hs
    exact s.mono (fun _ _ hl => Or.inl hl)
  | cons kv kvs ih =>
    intro L hA tA h' t' hL hc ht hv hw s hs
    obtain ⟨p, v⟩ := kv
    simp only [setMany] at hs
    split at hs
    · rename_i h1 d he
      obtain ⟨x, wx⟩ := hw (p, v) (by simp)
      obtain ⟨h1c, h1s, h1l⟩ := setPath_closed strict false p hA tA v hc ht (hv (p, v) (by simp))
      rw [he] at h1c h1s h1l
      simp only at h1c h1s h1l
      have hext : Extends hA h1 := by have := setPath_extends strict hA tA p v; rw [he] at this; exact this
      have s1 := setPath_rel strict hg hL wx hA tA v h1 d (· < hA.size) s hc.region ht he h1
        (fun r hr => hext.2 r hr) (fun _ _ _ => rfl)
      have hL1 : ∀ a b, (L a b ∨ (a = v ∧ b = x)) → ∃ n, h[b]? = some n ∧ n.children = [] := by
        intro a b hab
        rcases hab with hl | ⟨_, rfl⟩
        · exact hL a b hl
        · exact wx.isLeaf
      have s2 := ih _ h1 d h' t' hL1 h1c (h1l d rfl)
        (fun kv hkv => Nat.lt_of_lt_of_le (hv kv (by simp [hkv])) h1s)
        (fun kv hkv => hw kv (by simp [hkv])) s1 hs
      refine s2.mono ?_
      intro a b hab
      rcases hab with (hl | ⟨rfl, rfl⟩) | ⟨kv, hkv, e1, e2⟩
      · exact Or.inl hl
      · exact Or.inr ⟨(p, a), by simp, rfl, wx⟩
      · exact Or.inr ⟨kv, by simp [hkv], e1, e2⟩
    · cases hs

end MlModel.Tree

namespace MlModel.Tree

theorem shallowCopy_spec {h : Heap} (hc : Closed h) {root : Ref} {n : Node} (hn : h[root]? = some n)
    (hch : n.children ≠ []) :
    Extends h (shallowCopy h root).1 ∧ Closed (shallowCopy h root).1 ∧
      (shallowCopy h root).1[(shallowCopy h root).2]? = some n := by
  have hrefs := hc.refs_lt hn
  cases n with
  | dict es =>
    simp only [shallowCopy, hn, alloc]
    exact ⟨extends_push _ _, closed_push hc hrefs, push_get_size _ _⟩
  | list rs =>
    simp only [shallowCopy, hn, alloc]
    exact ⟨extends_push _ _, closed_push hc hrefs, push_get_size _ _⟩
  | tuple rs =>
    have e : shallowCopy h root = (h, root) := by simp [shallowCopy, hn]
    rw [e]
    exact ⟨Extends.refl _, hc, hn⟩
  | leaf v => simp [Node.children] at hch
  | null => simp [Node.children] at hch
  | nd _ _ _ => simp [Node.children] at hch
  | buf _ => simp [Node.children] at hch

/-- `apply()` with a leaf function, on a finite container tree: the result has the shape of the original
(same node kinds / keys / lengths at every non-leaf position), every leaf position holds either the
original leaf or an image of it — and, second part, reading any leaf path gives an **image** of that leaf. -/
theorem applyFn_spec (strict : Bool) {f : LeafFn} (hf : FnOK f) {h : Heap} {root : Ref} {n : Node}
    (hc : Closed h) (hg : GoodDicts h) (hnn : NonNegKeys h) (w : WF h root) (hn : h[root]? = some n)
    (hch : n.children ≠ []) {h' : Heap} {t' : Ref} (ha : applyFn strict (some f) h root = (h', .ok t')) :
    SEqL (fun new old => (new = old ∨ ImageOf f h new old) ∧ ∃ m, h[old]? = some m ∧ m.children = []) h' h t' root ∧
    ∀ q x, LeafWalk h root q x → ∃ v, get h' t' q = .ok v ∧ ImageOf f h v x := by
  have hroot : root < h.size := lt_size_of_get hn
  obtain ⟨he1, hc1, hcell1⟩ := shallowCopy_spec hc hn hch
  unfold applyFn at ha
  simp only at ha
  generalize hsc : shallowCopy h root = sc at ha he1 hc1 hcell1
  obtain ⟨h1, c⟩ := sc
  simp only at ha he1 hc1 hcell1
  have hclt : c < h1.size := lt_size_of_get hcell1
  have hroot1 : root < h1.size := Nat.lt_of_lt_of_le hroot he1.1
  -- the keys are computed on the original tree
  have hkeys : keysOf h1 root = dfs h (dfsFuel h1) root [] := by
    unfold keysOf
    exact dfs_agree hc.region (fun r hr => he1.2 r hr) _ root [] hroot (Or.inr ⟨n, hn, hch⟩)
  rw [hkeys] at ha
  have hrootc : ([] : Path) ≠ [] ∨ ∃ n, h[root]? = some n ∧ n.children ≠ [] := Or.inr ⟨n, hn, hch⟩
  -- the initial relation: the shallow copy is the original up to identity of leaves
  have hinit : ∀ h2, Extends h1 h2 →
      SEqL (fun a b => a = b ∧ ∃ m, h[b]? = some m ∧ m.children = []) h2 h c root := by
    intro h2 he2
    have hag : ∀ r, r < h.size → h2[r]? = h[r]? := fun r hr => (he1.trans he2).2 r hr
    cases w with
    | @mk _ n' hn' hchw =>
      rw [hn] at hn'; cases hn'
      refine .node (he2.get_some hcell1) hn rfl ?_
      intro i c1 c2 g1 g2
      rw [g1] at g2; cases g2
      have hm := List.mem_of_getElem? g1
      exact SEqL.refl_of_WF hc.region hag (fun r m hm' hcm => ⟨rfl, m, hm', hcm⟩) (hchw c1 hm)
        (hc.refs_lt hn c1 hm)
  cases hd : dfs h (dfsFuel h1) root [] with
  | error e => rw [hd] at ha; simp at ha
  | ok ps =>
    rw [hd] at ha
    have hsound := dfs_sound h _ root [] ps hd hrootc
    have hcompl := dfs_complete h _ root [] ps hd hrootc
    have hnodup := dfs_nodup h hg _ root [] ps hd hrootc
    cases ps with
    | nil =>
      simp only at ha
      simp only [Prod.mk.injEq, Except.ok.injEq] at ha
      obtain ⟨rfl, rfl⟩ := ha
      refine ⟨(hinit h1 (Extends.refl _)).mono (fun a b hab => ⟨Or.inl hab.1, hab.2⟩), ?_⟩
      intro q x wq
      have := hcompl q x wq
      simp at this
    | cons p0 ps0 =>
      simp only at ha
      have hplain : ∀ p ∈ p0 :: ps0, PlainSelf p := by
        intro p hp
        obtain ⟨q, x, hq, wq⟩ := hsound p hp
        simp only [List.nil_append] at hq
        subst hq; exact wq.plain hg
      cases hmv : mapValues f h1 root (p0 :: ps0) with
      | mk h2 r2 =>
        rw [hmv] at ha
        cases r2 with
        | error e => simp at ha
        | ok kvs =>
          simp only at ha
          obtain ⟨m1, m2, m3, m4, m5⟩ := mapValues_spec hf (p0 :: ps0) h1 root h2 kvs hc1 hroot1 hplain hmv
          have hkvw : ∀ kv ∈ kvs, ∃ x, LeafWalk h root kv.1 x := by
            intro kv hkv
            have : kv.1 ∈ p0 :: ps0 := by rw [← m1]; exact List.mem_map.mpr ⟨kv, hkv, rfl⟩
            obtain ⟨q, x, hq, wq⟩ := hsound kv.1 this
            simp only [List.nil_append] at hq
            rw [hq]; exact ⟨x, wq⟩
          have himg : ∀ kv ∈ kvs, ∀ b, LeafWalk h root kv.1 b → ImageOf f h kv.2 b := by
            intro kv hkv b wb
            obtain ⟨x, hx, hi, hie, hif⟩ := m5 kv hkv
            have hgb := wb.get hg
            rw [get_extends hc he1 kv.1 hroot, hgb] at hx
            cases hx
            exact ⟨hi, he1.trans hie, hif⟩
          constructor
          · have s := setMany_rel strict hg kvs _ h2 c h' t'
              (fun a b hab => hab.2) m2 (Nat.lt_of_lt_of_le hclt m3.1) m4 hkvw (hinit h2 m3) ha
            refine s.mono ?_
            intro a b hab
            rcases hab with ⟨rfl, hl⟩ | ⟨kv, hkv, rfl, wb⟩
            · exact ⟨Or.inl rfl, hl⟩
            · exact ⟨Or.inr (himg kv hkv b wb), wb.isLeaf⟩
          · intro q x wq
            have hq : q ∈ p0 :: ps0 := by simpa using hcompl q x wq
            rw [← m1] at hq
            obtain ⟨kv, hkv, rfl⟩ := List.mem_map.mp hq
            have hpw : kvs.Pairwise (fun a b => Diverge b.1 a.1) := by
              have hnd : (kvs.map (·.1)).Nodup := by rw [m1]; exact hnodup
              rw [List.Nodup, List.pairwise_map] at hnd
              refine hnd.imp_of_mem ?_
              intro a b ha' hb' hab
              obtain ⟨xa, wa⟩ := hkvw a ha'
              obtain ⟨xb, wb⟩ := hkvw b hb'
              exact wb.diverge hg hnn wa (fun e => hab e.symm)
            have hpw' : kvs.Pairwise (fun a b => Diverge a.1 b.1) := by
              have hnd : (kvs.map (·.1)).Nodup := by rw [m1]; exact hnodup
              rw [List.Nodup, List.pairwise_map] at hnd
              refine hnd.imp_of_mem ?_
              intro a b ha' hb' hab
              obtain ⟨xa, wa⟩ := hkvw a ha'
              obtain ⟨xb, wb⟩ := hkvw b hb'
              exact wa.diverge hg hnn wb hab
            have hpl : ∀ kv ∈ kvs, PlainSelf kv.1 := fun kv hkv => by
              have : kv.1 ∈ p0 :: ps0 := by rw [← m1]; exact List.mem_map.mpr ⟨kv, hkv, rfl⟩
              exact hplain kv.1 this
            -- every leaf path can be read in the shallow copy, so no read-back indexes into an ndarray
            have hgets : ∀ kv ∈ kvs, ∃ x, get h2 c kv.1 = .ok x := by
              intro kv hkv
              obtain ⟨x, wx⟩ := hkvw kv hkv
              have hgx := wx.get hg
              rw [← get_extends hc (he1.trans m3) kv.1 hroot] at hgx
              refine ⟨x, ?_⟩
              generalize kv.1 = pth at wx hgx ⊢
              cases wx with
              | leaf hn' hc' => rw [hn] at hn'; cases hn'; exact absurd hc' hch
              | @step _ n' k c' q _ hn' hmem w' =>
                rw [hn] at hn'; cases hn'
                obtain ⟨_, hkp⟩ := children_slotGet hg hn hmem
                rw [get_cons _ (Or.inl hkp), index_of_get ((he1.trans m3).get_some hn)] at hgx
                rw [get_cons _ (Or.inl hkp), index_of_get (m3.get_some hcell1)]
                exact hgx
            have hget := setMany_get strict kvs h2 c h' t' m2 (Nat.lt_of_lt_of_le hclt m3.1) m4 hpl hpw
              (NoNdSeq_of_gets strict kvs h2 c m2 (Nat.lt_of_lt_of_le hclt m3.1) m4 hpl hpw' hgets) ha kv hkv
            exact ⟨kv.2, hget, himg kv hkv x wq⟩

end MlModel.Tree

namespace MlModel.Tree

/-! ## strengthening the leaf relation using what the leaf paths read -/

theorem dictPos_of_nodup {es : List (DKey × Ref)} (hnd : (es.map (·.1.norm)).Nodup) {i : Nat} {dk : DKey} {c : Ref}
    (hi : es[i]? = some (dk, c)) : dictPos es dk = some i := by
  induction es generalizing i with
  | nil => simp at hi
  | cons e es ih =>
    obtain ⟨k0, v0⟩ := e
    simp only [List.map_cons, List.nodup_cons] at hnd
    cases i with
    | zero => simp at hi; obtain ⟨rfl, rfl⟩ := hi; simp [dictPos]
    | succ j =>
      simp only [List.getElem?_cons_succ] at hi
      have hne : ¬ k0.norm = dk.norm := by
        intro e
        exact hnd.1 (List.mem_map.mpr ⟨(dk, c), List.mem_of_getElem? hi, e.symm⟩)
      simp only [dictPos, if_neg hne, ih hnd.2 hi, Option.map_some]

theorem seqChildren_get {rs : List Ref} {start i : Nat} {c : Ref} (hi : rs[i]? = some c) :
    ((PKey.idx ((start + i : Nat) : Int)), c) ∈ seqChildren rs start :=
  mem_seqChildren.mpr ⟨i, hi, rfl⟩

/-- Every position of `refs` is addressed by one of the keys listed for iteration. -/
theorem children_at_pos {h : Heap} (hg : GoodDicts h) {b : Ref} {n : Node} (hn : h[b]? = some n) {i : Nat}
    {c : Ref} (hi : n.refs[i]? = some c) : ∃ k, (k, c) ∈ n.children ∧ n.slotPos k = some i := by
  cases n with
  | dict es =>
    simp only [Node.refs, List.getElem?_map, Option.map_eq_some_iff] at hi
    obtain ⟨⟨dk, c'⟩, he, rfl⟩ := hi
    refine ⟨dkeyToPKey dk, List.mem_map.mpr ⟨(dk, c'), List.mem_of_getElem? he, rfl⟩, ?_⟩
    have hd : (dkeyToPKey dk).toDKey = dk.norm := by cases dk <;> rfl
    simp only [Node.slotPos, hd, dictPos_norm]
    exact dictPos_of_nodup (hg b es hn).1 he
  | list rs =>
    simp only [Node.refs] at hi
    have hlt : i < rs.length := by
      rcases Nat.lt_or_ge i rs.length with h1 | h1
      · exact h1
      · rw [List.getElem?_eq_none h1] at hi; cases hi
    refine ⟨.idx ((0 + i : Nat) : Int), seqChildren_get hi, ?_⟩
    simp [Node.slotPos, PKey.asInt, resolveIdx, hlt]
  | tuple rs =>
    simp only [Node.refs] at hi
    have hlt : i < rs.length := by
      rcases Nat.lt_or_ge i rs.length with h1 | h1
      · exact h1
      · rw [List.getElem?_eq_none h1] at hi; cases hi
    refine ⟨.idx ((0 + i : Nat) : Int), seqChildren_get hi, ?_⟩
    simp [Node.slotPos, PKey.asInt, resolveIdx, hlt]
  | leaf v => simp [Node.refs] at hi
  | null => simp [Node.refs] at hi
  | nd _ _ _ => simp [Node.refs] at hi
  | buf _ => simp [Node.refs] at hi

/-- If two trees are equal up to `L` and every leaf path of the right tree reads, in the left tree, an
object `L'`-related to that leaf, then they are equal up to `L'`. -/
theorem SEqL.strengthen {L L' : Ref → Ref → Prop} {h' h : Heap} (hg : GoodDicts h)
    (hL : ∀ a b, L a b → ∃ n, h[b]? = some n ∧ n.children = []) {a b : Ref} (s : SEqL L h' h a b) :
    (∀ q x, LeafWalk h b q x → ∃ v, get h' a q = .ok v ∧ L' v x) → SEqL L' h' h a b := by
  induction s with
  | @leaf a b hl =>
    intro hread
    obtain ⟨n, hn, hc⟩ := hL a b hl
    obtain ⟨v, hv, hl'⟩ := hread [] b (.leaf hn hc)
    simp at hv; subst hv
    exact .leaf hl'
  | @node a b n1 n2 e1 e2 hsk hch ih =>
    intro hread
    refine .node e1 e2 hsk ?_
    intro i c1 c2 g1 g2
    apply ih i c1 c2 g1 g2
    intro q x wq
    obtain ⟨k, hmem, hpos⟩ := children_at_pos hg e2 g2
    obtain ⟨_, hkp⟩ := children_slotGet hg e2 hmem
    obtain ⟨v, hv, hl'⟩ := hread (k :: q) x (.step e2 hmem wq)
    refine ⟨v, ?_, hl'⟩
    have hsl1 : n1.slotGet k = .ok c1 :=
      Node.slotGet_ok_iff.mpr ⟨i, by rw [Node.slotPos_skel hsk]; exact hpos, g1⟩
    rw [get_cons _ (Or.inl hkp), index_of_get e1, hsl1] at hv
    exact hv

end MlModel.Tree

namespace MlModel.Tree

/-! ## executable check of `NonNegKeys`, and a concrete leaf function (for the non-vacuity examples) -/

def nonNegKeysB (h : Heap) : Bool :=
  h.toList.all fun n => match n with
    | .dict es => es.all fun e => match e.1.norm with | .int i => decide (0 ≤ i) | _ => true
    | _ => true

theorem nonNegKeysB_sound {h : Heap} (hb : nonNegKeysB h = true) : NonNegKeys h := by
  intro r es hn e he i hi
  unfold nonNegKeysB at hb
  rw [List.all_eq_true] at hb
  have hmem : Node.dict es ∈ h.toList := by
    have hlt := lt_size_of_get hn
    have : h[r] = Node.dict es := by
      have := Array.getElem?_eq_getElem hlt
      rw [this] at hn; exact Option.some.inj hn
    rw [← this]
    exact Array.getElem_mem_toList hlt
  have := hb _ hmem
  simp only [List.all_eq_true] at this
  have := this e he
  rw [hi] at this
  simpa using this

/-- `lambda x: [x]` -/
def wrapFn : LeafFn := fun h r => alloc h (.list [r])

theorem wrapFn_ok : FnOK wrapFn := by
  intro h r hc hr
  refine ⟨extends_push _ _, closed_push hc ?_, by simp [wrapFn]⟩
  intro c hcm
  simp [Node.refs] at hcm
  subst hcm; exact hr

end MlModel.Tree
