import MlModel.Model.PipeAgg
/-!
# Basic lemmas for the `PipeAgg` model: association lists, `mapE`
-/
namespace MlModel.PipeAgg

namespace AList
variable {κ σ : Type} [DecidableEq κ]

theorem get?_set (l : List (κ × σ)) (k k' : κ) (v : σ) :
    get? (set l k v) k' = if k' = k then some v else get? l k' := by
  induction l with
  | nil => simp [set, get?]
  | cons e l ih =>
    obtain ⟨k0, v0⟩ := e
    simp only [set]
    by_cases h : k = k0
    · subst h
      simp only [if_true, get?]
      by_cases h' : k' = k <;> simp [h']
    · simp only [h, if_false, get?, ih]
      by_cases h' : k' = k
      · subst h'; simp [h]
      · simp [h']

theorem get?_set_self (l : List (κ × σ)) (k : κ) (v : σ) : get? (set l k v) k = some v := by
  simp [get?_set]

theorem get?_set_ne (l : List (κ × σ)) {k k' : κ} (v : σ) (h : k' ≠ k) :
    get? (set l k v) k' = get? l k' := by
  simp [get?_set, h]

theorem mem_keys_iff (l : List (κ × σ)) (k : κ) : k ∈ keys l ↔ (get? l k).isSome := by
  induction l with
  | nil => simp [keys, get?]
  | cons e l ih =>
    obtain ⟨k0, v0⟩ := e
    simp only [keys, List.map_cons, List.mem_cons, get?]
    by_cases h : k = k0
    · simp [h]
    · simp only [h, false_or, if_false]
      exact ih

theorem mem_keys_set (l : List (κ × σ)) (k k' : κ) (v : σ) :
    k' ∈ keys (set l k v) ↔ k' = k ∨ k' ∈ keys l := by
  rw [mem_keys_iff, mem_keys_iff, get?_set]
  by_cases h : k' = k <;> simp [h]

theorem keys_set (l : List (κ × σ)) (k : κ) (v : σ) :
    keys (set l k v) = if k ∈ keys l then keys l else keys l ++ [k] := by
  induction l with
  | nil => simp [set, keys]
  | cons e l ih =>
    obtain ⟨k0, v0⟩ := e
    simp only [set]
    by_cases h : k = k0
    · subst h; simp [keys]
    · have hk : keys ((k0, v0) :: set l k v) = k0 :: keys (set l k v) := rfl
      simp only [h, if_false, hk, ih]
      have : keys ((k0, v0) :: l) = k0 :: keys l := rfl
      rw [this]
      by_cases h2 : k ∈ keys l
      · simp [h2]
      · simp [h2, h]

theorem nodup_keys_set (l : List (κ × σ)) (k : κ) (v : σ) (h : (keys l).Nodup) :
    (keys (set l k v)).Nodup := by
  rw [keys_set]
  split
  · exact h
  · rename_i hk
    rw [List.nodup_append]
    refine ⟨h, by simp, ?_⟩
    intro a ha b hb
    simp only [List.mem_singleton] at hb
    subst hb
    intro e; subst e; exact hk ha

theorem get?_eq_some_of_mem (l : List (κ × σ)) (h : (keys l).Nodup) {k : κ} {v : σ}
    (hm : (k, v) ∈ l) : get? l k = some v := by
  induction l with
  | nil => cases hm
  | cons e l ih =>
    obtain ⟨k0, v0⟩ := e
    have hk : keys ((k0, v0) :: l) = k0 :: keys l := rfl
    rw [hk, List.nodup_cons] at h
    simp only [get?]
    rcases List.mem_cons.mp hm with heq | hm'
    · cases heq; simp
    · have : k ≠ k0 := by
        intro e; subst e
        exact h.1 (List.mem_map.mpr ⟨(k, v), hm', rfl⟩)
      simp only [this, if_false]
      exact ih h.2 hm'

theorem mem_of_get?_eq_some (l : List (κ × σ)) {k : κ} {v : σ} (h : get? l k = some v) :
    (k, v) ∈ l := by
  induction l with
  | nil => simp [get?] at h
  | cons e l ih =>
    obtain ⟨k0, v0⟩ := e
    simp only [get?] at h
    by_cases hk : k = k0
    · simp only [hk, if_true, Option.some.injEq] at h
      subst hk; subst h; exact List.mem_cons_self
    · simp only [hk, if_false] at h
      exact List.mem_cons_of_mem _ (ih h)

end AList

/-! ### `mapE` -/
section mapE
variable {α β γ ε : Type}

theorem mapE_nil (f : α → Except ε β) : mapE f [] = .ok [] := rfl

theorem mapE_cons_ok {f : α → Except ε β} {x : α} {xs : List α} {ys : List β}
    (h : mapE f (x :: xs) = .ok ys) :
    ∃ y ys', f x = .ok y ∧ mapE f xs = .ok ys' ∧ ys = y :: ys' := by
  simp only [mapE] at h
  cases hx : f x with
  | error e => rw [hx] at h; cases h
  | ok y =>
    rw [hx] at h
    cases hxs : mapE f xs with
    | error e => rw [hxs] at h; cases h
    | ok ys' =>
      rw [hxs] at h
      exact ⟨y, ys', rfl, rfl, by cases h; rfl⟩

theorem mapE_cons_of_ok {f : α → Except ε β} {x : α} {xs : List α} {y : β} {ys : List β}
    (hx : f x = .ok y) (hxs : mapE f xs = .ok ys) : mapE f (x :: xs) = .ok (y :: ys) := by
  simp [mapE, hx, hxs]

theorem mapE_ok_length {f : α → Except ε β} {xs : List α} {ys : List β}
    (h : mapE f xs = .ok ys) : ys.length = xs.length := by
  induction xs generalizing ys with
  | nil => simp only [mapE] at h; cases h; rfl
  | cons x xs ih =>
    obtain ⟨y, ys', _, hxs, rfl⟩ := mapE_cons_ok h
    simp [ih hxs]

theorem mapE_ok_mem {f : α → Except ε β} {xs : List α} {ys : List β}
    (h : mapE f xs = .ok ys) {x : α} (hx : x ∈ xs) : ∃ y, f x = .ok y ∧ y ∈ ys := by
  induction xs generalizing ys with
  | nil => cases hx
  | cons x0 xs ih =>
    obtain ⟨y, ys', hx0, hxs, rfl⟩ := mapE_cons_ok h
    rcases List.mem_cons.mp hx with rfl | hx'
    · exact ⟨y, hx0, List.mem_cons_self⟩
    · obtain ⟨y', h1, h2⟩ := ih hxs hx'
      exact ⟨y', h1, List.mem_cons_of_mem _ h2⟩

theorem mapE_ok_mem_inv {f : α → Except ε β} {xs : List α} {ys : List β}
    (h : mapE f xs = .ok ys) {y : β} (hy : y ∈ ys) : ∃ x, x ∈ xs ∧ f x = .ok y := by
  induction xs generalizing ys with
  | nil => simp only [mapE] at h; cases h; cases hy
  | cons x0 xs ih =>
    obtain ⟨y0, ys', hx0, hxs, rfl⟩ := mapE_cons_ok h
    rcases List.mem_cons.mp hy with rfl | hy'
    · exact ⟨x0, List.mem_cons_self, hx0⟩
    · obtain ⟨x, h1, h2⟩ := ih hxs hy'
      exact ⟨x, List.mem_cons_of_mem _ h1, h2⟩

/-- if every element succeeds with a known value, `mapE` is `map` -/
theorem mapE_eq_map {f : α → Except ε β} {g : α → β} {xs : List α}
    (h : ∀ x ∈ xs, f x = .ok (g x)) : mapE f xs = .ok (xs.map g) := by
  induction xs with
  | nil => rfl
  | cons x xs ih =>
    exact mapE_cons_of_ok (h x List.mem_cons_self) (ih fun x hx => h x (List.mem_cons_of_mem _ hx))

theorem mapE_append_ok {f : α → Except ε β} {xs xs' : List α} {ys : List β}
    (h : mapE f (xs ++ xs') = .ok ys) :
    ∃ ys1 ys2, mapE f xs = .ok ys1 ∧ mapE f xs' = .ok ys2 ∧ ys = ys1 ++ ys2 := by
  induction xs generalizing ys with
  | nil => exact ⟨[], ys, rfl, h, rfl⟩
  | cons x xs ih =>
    obtain ⟨y, ys', hx, hxs, rfl⟩ := mapE_cons_ok h
    obtain ⟨ys1, ys2, h1, h2, rfl⟩ := ih hxs
    exact ⟨y :: ys1, ys2, mapE_cons_of_ok hx h1, h2, rfl⟩

/-- filtering the inputs by `p` filters the outputs by `q` when `q (f x) = p x` -/
theorem mapE_filter {f : α → Except ε β} {p : α → Bool} {q : β → Bool} {xs : List α} {ys : List β}
    (hpq : ∀ x y, f x = .ok y → q y = p x) (h : mapE f xs = .ok ys) :
    mapE f (xs.filter p) = .ok (ys.filter q) := by
  induction xs generalizing ys with
  | nil => simp only [mapE] at h; cases h; rfl
  | cons x xs ih =>
    obtain ⟨y, ys', hx, hxs, rfl⟩ := mapE_cons_ok h
    have := hpq x y hx
    by_cases hp : p x = true
    · have hq : q y = true := by rw [this]; exact hp
      simp only [List.filter_cons, hp, hq, if_true]
      exact mapE_cons_of_ok hx (ih hxs)
    · have hq : ¬ q y = true := by rw [this]; exact hp
      simp only [List.filter_cons, hp, hq]
      exact ih hxs

/-- post-composing every element with `g` -/
theorem mapE_map_ok {f : α → Except ε β} {f' : α → Except ε γ} {g : β → γ} {xs : List α} {ys : List β}
    (hg : ∀ x y, f x = .ok y → f' x = .ok (g y)) (h : mapE f xs = .ok ys) :
    mapE f' xs = .ok (ys.map g) := by
  induction xs generalizing ys with
  | nil => simp only [mapE] at h; cases h; rfl
  | cons x xs ih =>
    obtain ⟨y, ys', hx, hxs, rfl⟩ := mapE_cons_ok h
    exact mapE_cons_of_ok (hg x y hx) (ih hxs)

end mapE

end MlModel.PipeAgg
