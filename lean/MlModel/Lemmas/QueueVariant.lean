import MlModel.Lemmas.QueueVariantStep
import MlModel.Lemmas.QueueLiveFinInv
/-!
# The termination measure `Phi` strictly decreases on every step
-/
namespace MlModel.Queue

theorem sum_map_set {α} (f : α → Nat) {l : List α} {i : Nat} {a b : α} (h : l[i]? = some a) :
    ((l.set i b).map f).sum + f a = (l.map f).sum + f b := by
  induction l generalizing i with
  | nil => simp at h
  | cons x xs ih =>
    cases i with
    | zero =>
      simp only [List.getElem?_cons_zero, Option.some.injEq] at h
      subst h
      simp only [List.set_cons_zero, List.map_cons, List.sum_cons]; omega
    | succ j =>
      simp only [List.getElem?_cons_succ] at h
      have := ih h
      simp only [List.set_cons_succ, List.map_cons, List.sum_cons]; omega

theorem sum_map_le_add {α} (f g : α → Nat) (d : Nat) (l : List α) (h : ∀ u ∈ l, g u ≤ f u + d) :
    (l.map g).sum ≤ (l.map f).sum + d * l.length := by
  induction l with
  | nil => simp
  | cons x xs ih =>
    have h1 := h x List.mem_cons_self
    have h2 := ih (fun u hu => h u (List.mem_cons_of_mem _ hu))
    simp only [List.map_cons, List.sum_cons, List.length_cons, Nat.mul_add, Nat.mul_one]; omega

/-- pigeonhole: a duplicate-free list of numbers below `N` has at most `N` elements -/
theorem nodup_length_le : ∀ (N : Nat) (l : List Nat), l.Nodup → (∀ x ∈ l, x < N) → l.length ≤ N := by
  intro N
  induction N with
  | zero => intro l _ h; cases l with
    | nil => simp
    | cons a as => exact absurd (h a List.mem_cons_self) (by omega)
  | succ n ih =>
    intro l hn h
    have h1 : (l.erase n).length ≤ n := by
      apply ih _ (hn.erase n)
      intro x hx
      have hx' := (hn.mem_erase_iff).mp hx
      have := h x hx'.2
      omega
    have h2 : l.length ≤ (l.erase n).length + 1 := by
      by_cases hm : n ∈ l
      · rw [List.length_erase_of_mem hm]; omega
      · rw [List.erase_of_not_mem hm]; omega
    omega

theorem potT_x (N : Nat) (u : Thread) :
    potT N true u ≤ potT N false u + wFlip ∧ potT N false u ≤ potT N true u := by
  unfold potT basePot
  cases hp : u.pc <;> (try (cases ‹Caller›)) <;> simp [wE, wFlip] <;> omega

/-- the measure strictly decreases on every step of every thread (no `ignore_error`, batch sizes
positive, `WF_enq`) -/
theorem variant_step {c c' : Cfg} {tid alt lbl} (hb : Base c) (_hig : c.sh.ignoreError = false)
    (hmax : ∀ t ∈ c.ths, t.prog.kind = .batch → 0 < t.batchMax) (hrn : ∀ t ∈ c.ths, RN t)
    (h : step c tid alt = some (lbl, c')) : Phi c' < Phi c := by
  have hmono := done_mono hb h
  obtain ⟨t, s', t', ht, hst, rfl⟩ := step_inv h
  have htm : t ∈ c.ths := List.mem_of_getElem? ht
  have htid : tid < c.ths.length := (List.getElem?_eq_some_iff.mp ht).1
  have htok := hb.tok t htm
  obtain ⟨n1, n2, m1, m2⟩ := hb.wait
  have hbound : ∀ x ∈ wlD c.sh, x < c.ths.length := by
    intro x hx
    obtain ⟨u, hu, _⟩ := (m1 x).mp hx
    exact (List.getElem?_eq_some_iff.mp hu).1
  have hbound2 : ∀ x ∈ wlE c.sh, x < c.ths.length := by
    intro x hx
    obtain ⟨u, hu, _⟩ := (m2 x).mp hx
    exact (List.getElem?_eq_some_iff.mp hu).1
  have hdw : c.sh.deqWait.length ≤ c.ths.length := by
    have := nodup_length_le _ _ n1 hbound
    unfold wlD at this; simp only [List.length_append] at this; omega
  have hew : c.sh.enqWait.length ≤ c.ths.length := by
    have := nodup_length_le _ _ n2 hbound2
    unfold wlE at this; simp only [List.length_append] at this; omega
  have hv := stepThread_v lbl s' t' hst c.ths.length (Nat.lt_of_le_of_lt (Nat.zero_le _) htid) htok (hmax t htm) hdw hew
    (fun e => (hrn t htm) (by rw [e]))
  -- the other threads: only a dequeue that empties the queue can raise their parts
  obtain ⟨_, _, hq, _⟩ := stepThread_data lbl s' t' hst htok
  have hflip : xEmpty s' = true → xEmpty c.sh = false → flT c.ths.length c.sh t = wFlip * c.ths.length := by
    intro h1 h2
    unfold xEmpty at h1 h2
    simp only [Bool.and_eq_true, List.isEmpty_iff, Bool.not_eq_true'] at h1
    have hnd : c.sh.enqueueDone = false := by
      cases hd : c.sh.enqueueDone with
      | false => rfl
      | true =>
        have : s'.enqueueDone = true := hmono hd
        rw [this] at h1; exact absurd h1.2 (by simp)
    rw [hnd] at h2
    simp only [Bool.not_false, Bool.and_true, List.isEmpty_eq_false_iff] at h2
    rw [h1.1, List.append_nil] at hq
    unfold extOf newOf at hq
    unfold flT
    cases hpc : t.pc <;> simp only [hpc] at hq <;>
      (try (simp only [List.append_eq_nil_iff] at hq; exact absurd hq.1 h2))
    · -- nGet
      cases hqq : c.sh.q with
      | nil => exact absurd hqq h2
      | cons v r =>
        rw [hqq] at hq
        simp only [List.append_nil, List.cons.injEq, true_and] at hq
        simp [hq]
  have hothers : (c.ths.map (potT c.ths.length (xEmpty s'))).sum ≤
      (c.ths.map (potT c.ths.length (xEmpty c.sh))).sum + flT c.ths.length c.sh t := by
    cases hx' : xEmpty s' <;> cases hx : xEmpty c.sh
    · omega
    · have := sum_map_le_add (potT c.ths.length true) (potT c.ths.length false) 0 c.ths
        (fun u _ => by have := (potT_x c.ths.length u).2; omega)
      omega
    · have := sum_map_le_add (potT c.ths.length false) (potT c.ths.length true) wFlip c.ths
        (fun u _ => (potT_x c.ths.length u).1)
      rw [hflip hx' hx]; omega
    · omega
  have hset := sum_map_set (potT c.ths.length (xEmpty s')) (b := t') ht
  unfold Phi
  show potG (c.ths.set tid t').length s' + ((c.ths.set tid t').map (potT (c.ths.set tid t').length (xEmpty s'))).sum <
    potG c.ths.length c.sh + (c.ths.map (potT c.ths.length (xEmpty c.sh))).sum
  rw [List.length_set]
  omega

/-- `n` consecutive steps -/
inductive StepsN : Cfg → Nat → Cfg → Prop where
  | zero {c : Cfg} : StepsN c 0 c
  | succ {c c1 c2 : Cfg} {n : Nat} {tid : Tid} {alt : Bool} {lbl : String} :
      step c tid alt = some (lbl, c1) → StepsN c1 n c2 → StepsN c (n + 1) c2

theorem ignoreError_reachable {c0 c : Cfg} (h : Reachable c0 c) : c.sh.ignoreError = c0.sh.ignoreError := by
  induction h with
  | init => rfl
  | step _ hs ih =>
    obtain ⟨t, s', t', _, hst, rfl⟩ := step_inv hs
    rw [← ih]; exact (stepThread_const _ s' t' hst).2.2

/-- the side conditions of the measure are invariant -/
structure VarInv (c : Cfg) : Prop where
  base : Base c
  ig : c.sh.ignoreError = false
  max : ∀ t ∈ c.ths, t.prog.kind = .batch → 0 < t.batchMax
  rn : ∀ t ∈ c.ths, RN t

theorem varInv_step {c c' : Cfg} {tid alt lbl} (hv : VarInv c) (h : step c tid alt = some (lbl, c')) :
    VarInv c' := by
  have hb' := base_step hv.base h
  obtain ⟨t, s', t', ht, hst, rfl⟩ := step_inv h
  have htm : t ∈ c.ths := List.mem_of_getElem? ht
  have htok := hv.base.tok t htm
  obtain ⟨_, hprog, _⟩ := stepThread_data lbl s' t' hst htok
  refine ⟨hb', ?_, ?_, ?_⟩
  · show s'.ignoreError = false
    rw [(stepThread_const lbl s' t' hst).2.2]; exact hv.ig
  · intro u hu
    rcases List.mem_or_eq_of_mem_set hu with hu | rfl
    · exact hv.max u hu
    · have := hv.max t htm
      unfold Thread.batchMax at this ⊢
      rw [hprog]; exact this
  · intro u hu
    rcases List.mem_or_eq_of_mem_set hu with hu | rfl
    · exact hv.rn u hu
    · exact stepThread_rn lbl s' u hst hv.ig (hv.max t htm) htok (hv.rn t htm)

theorem varInv_init (cap maxEnq : Nat) (to : Bool) (progs : List Prog) (hwf : WF_enq maxEnq progs)
    (hmax : ∀ m b, Prog.batchLoop m b ∈ progs → 0 < m) : VarInv (init cap maxEnq to false progs) := by
  refine ⟨base_init cap maxEnq to false progs hwf, rfl, ?_, ?_⟩
  · intro t ht hk
    simp only [init, List.mem_map] at ht
    obtain ⟨p, hp, rfl⟩ := ht
    cases p with
    | batchLoop m b => exact hmax m b hp
    | _ => simp [Prog.kind] at hk
  · intro t ht
    simp only [init, List.mem_map] at ht
    obtain ⟨p, _, rfl⟩ := ht
    simp [RN]

theorem varInv_reachable {c0 c : Cfg} (h0 : VarInv c0) (h : Reachable c0 c) : VarInv c := by
  induction h with
  | init => exact h0
  | step _ hs ih => exact varInv_step ih hs

/-- an execution of `n` steps from `c` uses up at least `n` units of the measure -/
theorem stepsN_bound {c c' : Cfg} {n : Nat} (hv : VarInv c) (h : StepsN c n c') : n + Phi c' ≤ Phi c := by
  induction h with
  | zero => omega
  | succ hs _ ih =>
    have h1 := variant_step hv.base hv.ig hv.max hv.rn hs
    have h2 := ih (varInv_step hv hs)
    omega

end MlModel.Queue
