import MlModel.Lemmas.OwnerExit
/-! Released-on-exit for a pool that several threads drive: the other threads may run any operation of the pool that
does not acquire (`release_all`, `release`, `idle_workers`, `workers`, `call`, even further finalisers).  Same proof as
`ExitInv` (`Lemmas/OwnerExit.lean`) with "does not act for `p`" weakened to "never executes `acquire_by` for `p`". -/
namespace MlModel.Owner

/-- program points of `Worker.acquire_by` -/
def isAcq : MPc → Bool
  | .aEnter | .aRdPool | .aTry | .aWr | .aRd2 | .aExit _ => true
  | _ => false

/-- operations that may acquire a worker for their pool -/
def Op.mayAcq : Op → Bool
  | .acquireAll .. | .acquireAllCall .. => true
  | .nextIdle _ _ acq => acq
  | _ => false

/-- continuations from which an `acquire_by` can still follow -/
def K.mayAcq : K → Bool
  | .acqAllA .. | .acqAllB .. | .next2A .. | .next2U .. | .next2C .. | .acqCA .. | .acqCB .. => true
  | .next1L _ _ _ unacq acq | .next1U _ _ _ unacq acq | .next1C _ _ _ unacq acq => acq || !unacq.isEmpty
  | _ => false

def Next.quiet : Next → Prop
  | .call cl k => k.mayAcq = false ∧ isAcq cl.pc = false
  | .finish _ _ => True

theorem relAllLoop_quiet (p fin ws) : (relAllLoop p fin ws).quiet := by
  cases ws <;> simp [relAllLoop, Next.quiet, K.mayAcq, isAcq]
theorem origLoop_quiet (p ws) : (origLoop p ws).quiet := by
  cases ws <;> simp [origLoop, Next.quiet, K.mayAcq, isAcq]
theorem idleLoop_quiet (p ws acc) : (idleLoop p ws acc).quiet := by
  cases ws <;> simp [idleLoop, Next.quiet, K.mayAcq, isAcq]
theorem callLoop_quiet (p ws) : (callLoop p ws).quiet := by
  cases ws <;> simp [callLoop, Next.quiet, K.mayAcq, isAcq]
theorem aliveLoop_quiet (p ws acc again) : (aliveLoop p ws acc again).quiet := by
  cases ws with
  | cons w rest => simp [aliveLoop, Next.quiet, K.mayAcq, isAcq]
  | nil =>
    cases again with
    | none => simp [aliveLoop, Next.quiet]
    | some ws2 => cases ws2 <;> simp [aliveLoop, Next.quiet, K.mayAcq, isAcq]
theorem acqWLoop_quiet (p ws acc) : (acqWLoop p ws acc).quiet := by
  cases ws <;> simp [acqWLoop, Next.quiet, K.mayAcq, isAcq]
theorem next1Loop_quiet (p ws) : (next1Loop p false ws []).quiet := by
  cases ws <;> simp [next1Loop, next2Loop, Next.quiet, K.mayAcq, isAcq]

theorem resume_quiet (k : K) (b : Bool) (hk : k.mayAcq = false) : (resume k b).quiet := by
  cases k <;> simp only [K.mayAcq, Bool.or_eq_false_iff, Bool.not_eq_false', List.isEmpty_iff, reduceCtorEq] at hk <;>
    simp only [resume]
  case relAll => exact relAllLoop_quiet ..
  case origA => split; simp [Next.quiet, K.mayAcq, isAcq]; exact origLoop_quiet ..
  case origB => exact origLoop_quiet ..
  case next1L p w rest unacq acq =>
    obtain ⟨h1, h2⟩ := hk; subst h1; subst h2
    split
    · simp [Next.quiet, K.mayAcq, isAcq]
    · simpa using next1Loop_quiet p rest
  case next1U p w rest unacq acq =>
    obtain ⟨h1, h2⟩ := hk; subst h1; subst h2
    split
    · simp [Next.quiet]
    · exact next1Loop_quiet p rest
  case relOne => simp [Next.quiet]
  case next1C p w rest unacq acq =>
    obtain ⟨h1, h2⟩ := hk; subst h1; subst h2
    split
    · simp [Next.quiet, K.mayAcq, isAcq]
    · exact next1Loop_quiet p rest
  case idleA => split; simp [Next.quiet, K.mayAcq, isAcq]; exact idleLoop_quiet ..
  case idleC => split; simp [Next.quiet, K.mayAcq, isAcq]; exact idleLoop_quiet ..
  case idleU => exact idleLoop_quiet ..
  case aliveU => exact aliveLoop_quiet ..
  case subI =>
    split
    · simp [Next.quiet, K.mayAcq, isAcq]
    · split <;> simp [Next.quiet, K.mayAcq, isAcq]
  case subC => split <;> simp [Next.quiet, K.mayAcq, isAcq]
  case callAll => exact callLoop_quiet ..
  case acqW => exact acqWLoop_quiet ..

theorem start_quiet (pw : Pid → List Wid) (op : Op) (h : op.mayAcq = false) : (start pw op).quiet := by
  cases op <;> simp only [Op.mayAcq, reduceCtorEq] at h <;> simp only [start]
  case releaseAll => exact relAllLoop_quiet ..
  case nextIdle p ws acq => subst h; exact next1Loop_quiet p ws
  case releaseOne => simp [Next.quiet, K.mayAcq, isAcq]
  case releaseAllOrig => exact origLoop_quiet ..
  case finalize => exact relAllLoop_quiet ..
  case idleWorkers => exact idleLoop_quiet ..
  case callW => simp [Next.quiet, K.mayAcq, isAcq]
  case aliveWorkers => exact aliveLoop_quiet ..
  case submitW => split <;> simp [Next.quiet, K.mayAcq, isAcq]
  case isAliveW => simp [Next.quiet, K.mayAcq, isAcq]
  case acquiredWorkers => exact acqWLoop_quiet ..

theorem apply_quiet (th : Thread) (n : Next) (hn : n.quiet) :
    ∀ cl k, (th.apply n).cur = some (cl, k) → k.mayAcq = false ∧ isAcq cl.pc = false := by
  intro cl k h
  cases n with
  | call cl' k' => simp [Thread.apply] at h; rw [← h.1, ← h.2]; exact hn
  | finish r e => simp [Thread.apply] at h

/-- `acquire_by` is entered only at `aEnter`: a method step outside it stays outside it. -/
theorem mstep_notAcq {u : Wid → Bool} {W W' : Wid → Worker} {t : Tid} {cl : Call} {pc' : MPc}
    (h : mstep u W t cl = some (W', .goto pc')) (hn : isAcq cl.pc = false) : isAcq pc' = false := by
  unfold mstep at h
  cases hpc : cl.pc <;> simp only [hpc, isAcq, reduceCtorEq] at hn h <;> (try split at h) <;>
    simp only [Option.some.injEq, Prod.mk.injEq, Out.goto.injEq, reduceCtorEq, and_false, false_and] at h <;>
    (try (obtain ⟨_, h2⟩ := h; subst h2)) <;> (try split) <;> simp_all [isAcq]

/-- Thread `th` never executes `acquire_by` for pool `p`, now or later. -/
def Quiet (th : Thread) (p : Pid) : Prop :=
  (∀ op ∈ th.script, op.pool = p → op.mayAcq = false) ∧
  ∀ cl k, th.cur = some (cl, k) → k.pool = p → k.mayAcq = false ∧ isAcq cl.pc = false

/-- The inductive invariant behind `C20_released_on_exit_shared`: thread `t` is the only one that acquires for `p`. -/
structure ExitInvS (pw : Pid → List Wid) (p : Pid) (t : Tid) (c : Cfg) : Prop where
  quiet : ∀ t', t' ≠ t → Quiet (c.T t') p
  kok : ∀ t' cl k, (c.T t').cur = some (cl, k) → KOK cl k
  todo : ∀ l, (c.T t).todo p = some l → ∀ w ∈ pw p, (c.W w).pool = some p → w ∈ l

theorem ExitInvS_init {pw : Pid → List Wid} {p : Pid} {t : Tid} {c : Cfg} (h : Init c)
    (hs : ∀ t', t' ≠ t → ∀ op ∈ (c.T t').script, op.pool = p → op.mayAcq = false) : ExitInvS pw p t c where
  quiet := fun t' ht => ⟨hs t' ht, fun cl k hc => by simp [(h.2 t').1] at hc⟩
  kok := fun t' cl k hc => by simp [(h.2 t').1] at hc
  todo := fun l _ w _ hp => by simp [h.1 w] at hp

theorem ExitInvS_step {pw : Pid → List Wid} {p : Pid} {t : Tid} {u : Wid → Bool} {c c' : Cfg} {s : Tid}
    (hE : ExitInvS pw p t c) (h : step? pw u c s = some c') : ExitInvS pw p t c' := by
  have hkok' : ∀ t' cl k, (c'.T t').cur = some (cl, k) → KOK cl k := by
    intro t' cl' k' hc
    by_cases ht : t' = s
    · subst ht
      rcases step_cases h with ⟨op, sc, _, _, hc'⟩ | ⟨cl, k, W', o, hcur, hm, hc'⟩ <;> subst hc'
      · simp only [upd_same] at hc
        exact (apply_KOK _ _ _ (start_ok pw op) cl' k' hc).1
      · simp only [upd_same] at hc
        have hk := hE.kok t' cl k hcur
        cases o with
        | goto pc =>
          simp [afterOut] at hc
          obtain ⟨h1, h2⟩ := hc; subst h1; subst h2
          refine ⟨hk.1, fun q rest f hq => ?_⟩
          have := mstep_rel hm (hk.2 q rest f hq)
          exact this.1
        | ret b => exact (apply_KOK _ _ _ (resume_ok k b) cl' k' hc).1
    · rw [step_other h ht] at hc; exact hE.kok t' cl' k' hc
  refine ⟨?_, hkok', ?_⟩
  · -- quiet
    intro t' ht
    by_cases hts : t' = s
    · subst hts
      obtain ⟨hsc, hcu⟩ := hE.quiet t' ht
      rcases step_cases h with ⟨op, sc, _, hs, hc'⟩ | ⟨cl, k, W', o, hcur, hm, hc'⟩ <;> subst hc'
      · simp only [upd_same]
        rw [hs] at hsc
        refine ⟨by rw [apply_script]; exact fun op' h' => hsc op' (by simp [h']), ?_⟩
        intro cl' k' hc hp
        rw [(apply_KOK _ _ _ (start_ok pw op) cl' k' hc).2] at hp
        exact apply_quiet _ _ (start_quiet pw op (hsc op (by simp) hp)) cl' k' hc
      · simp only [upd_same]
        cases o with
        | goto pc =>
          refine ⟨hsc, ?_⟩
          intro cl' k' hc hp; simp [afterOut] at hc
          obtain ⟨h1, h2⟩ := hc
          rw [← h2] at hp ⊢
          obtain ⟨hq1, hq2⟩ := hcu cl k hcur hp
          rw [← h1]
          exact ⟨hq1, mstep_notAcq hm hq2⟩
        | ret b =>
          refine ⟨by simp only [afterOut, apply_script]; exact hsc, ?_⟩
          intro cl' k' hc hp
          rw [(apply_KOK _ _ _ (resume_ok k b) cl' k' hc).2] at hp
          exact apply_quiet _ _ (resume_quiet k b (hcu cl k hcur hp).1) cl' k' hc
    · rw [step_other h hts]; exact hE.quiet t' ht
  · -- todo
    intro l hl w hw hp'
    by_cases hts : s = t
    · subst hts
      rcases step_cases h with ⟨op, sc, _, _, hc'⟩ | ⟨cl, k, W', o, hcur, hm, hc'⟩ <;> subst hc'
      · simp only [upd_same, todo_apply] at hl
        rw [start_todo pw p op l hl]; exact hw
      · simp only [upd_same] at hl
        have hk := hE.kok s cl k hcur
        -- is the thread inside a finaliser of p?
        cases hpr : pendingRel p cl k with
        | none =>
          -- no: it cannot become one by a method step
          exfalso
          cases o with
          | goto pc =>
            simp only [afterOut, Thread.todo] at hl
            cases k with
            | relAll q rest fin => cases fin <;> simp_all [pendingRel]
            | _ => simp_all [pendingRel]
          | ret b =>
            simp only [afterOut, todo_apply, resume_todo] at hl
            cases k with
            | relAll q rest fin => cases fin <;> simp_all [pendingRel]
            | _ => simp_all [pendingRel]
        | some l0 =>
          -- yes: k = relAll p rest true
          cases k with
          | relAll q rest fin =>
            cases fin with
            | false => simp [pendingRel] at hpr
            | true =>
              have hq : q = p := by
                by_cases hq : q = p
                · exact hq
                · simp [pendingRel, hq] at hpr
              subst hq
              have hclp : cl.p = q := hk.1
              have hrel := hk.2 q rest true rfl
              have hold := hE.todo l0 (by simp [Thread.todo, hcur, hpr]) w hw
              simp only [pendingRel, if_true] at hpr
              have hspec := mstep_rel hm hrel
              -- the owner of w before the step
              have hpool : (c.W w).pool = some q ∨ (W' w).pool ≠ some q := by
                rcases mstep_pool hm w with h1 | ⟨_, h2⟩
                · rw [h1] at hp'; exact Or.inl hp'
                · rcases h2 with ⟨hpc, _⟩ | ⟨_, hn⟩
                  · rw [hpc] at hrel; simp [isRel] at hrel
                  · right; rw [hn]; simp
              rcases hpool with hpool | hpool
              · have hmem := hold hpool
                cases o with
                | goto pc =>
                  simp only [afterOut, Thread.todo, pendingRel, if_true, Option.some.injEq] at hl
                  subst hl
                  simp only [Option.some.injEq] at hpr; subst hpr
                  by_cases hb : beforeWr cl.pc = true
                  · simp only [hb, if_true, List.mem_cons] at hmem
                    rcases hmem with hmem | hmem
                    · rcases hspec.2 hb with h3 | h3
                      · simp [h3, hmem]
                      · rw [hmem] at hp'; rw [hclp] at h3; exact absurd hp' h3
                    · split <;> simp [hmem]
                  · simp only [hb, if_false, Bool.false_eq_true] at hmem
                    split <;> simp [hmem]
                | ret b =>
                  simp only [afterOut, todo_apply, resume_todo, if_true, Option.some.injEq] at hl
                  subst hl
                  simp only [Option.some.injEq] at hpr; subst hpr
                  have hb : beforeWr cl.pc = false := hspec
                  simp only [hb, Bool.false_eq_true, if_false] at hmem
                  exact hmem
              · exact absurd hp' hpool
          | _ => simp [pendingRel] at hpr
    · -- another thread moves: it never executes `acquire_by` for p, so it cannot make p the owner of anything
      have hT : c'.T t = c.T t := step_other h (Ne.symm hts)
      rw [hT] at hl
      refine hE.todo l hl w hw ?_
      rcases step_pool h w with h1 | ⟨cl, k, hcur, _, h2⟩
      · rw [← h1]; exact hp'
      · exfalso
        rcases h2 with ⟨hpc, hn⟩ | ⟨_, hn⟩
        · rw [hn] at hp'
          have hkp : k.pool = p := by rw [← (hE.kok s cl k hcur).1]; exact Option.some.inj hp'
          have := ((hE.quiet s hts).2 cl k hcur hkp).2
          rw [hpc] at this; simp [isAcq] at this
        · rw [hn] at hp'; simp at hp'

theorem ExitInvS_reach {pw : Pid → List Wid} {p : Pid} {t : Tid} {c0 c : Cfg} (h0 : Init c0)
    (hs : ∀ t', t' ≠ t → ∀ op ∈ (c0.T t').script, op.pool = p → op.mayAcq = false) (h : Reach pw c0 c) :
    ExitInvS pw p t c := by
  induction h with
  | refl => exact ExitInvS_init h0 hs
  | step _ hst ih => obtain ⟨s, u, hst⟩ := hst; exact ExitInvS_step ih hst

end MlModel.Owner
