import MlModel.Lemmas.TreeSet
/-!
# What one level of a successful copying `_set_by_path` did (`setPath_step`), and the pure slot algebra
(`slotGet` / `slotPut`) in which the laws of C18 are then proved.
-/
namespace MlModel.Tree

/-! ## pure slot update -/

/-- `l[k] = c` on a copy of a sequence (append when `k == len(l)`). -/
def seqPut (rs : List Ref) (k : PKey) (c : Ref) : Option (List Ref) :=
  match k.asInt with
  | none => none
  | some i => if i = (rs.length : Int) then some (rs ++ [c]) else (resolveIdx rs.length i).map fun j => rs.set j c

/-- The node that replaces `n` on the path when slot `k` is set to `c`. -/
def Node.slotPut : Node → PKey → Ref → Option Node
  | .dict es, k, c => some (.dict (dictSet es k.stored c))
  | .list rs, k, c => (seqPut rs k c).map .list
  | .tuple rs, k, c => (seqPut rs k c).map .tuple
  | _, _, _ => none

theorem seqGet_seqPut_same {rs rs' : List Ref} {k : PKey} {c : Ref} (hp : seqPut rs k c = some rs') :
    ∃ i j, k.asInt = some i ∧ resolveIdx rs'.length i = some j ∧ rs'[j]? = some c := by
  unfold seqPut at hp
  split at hp
  · cases hp
  · rename_i i hi
    refine ⟨i, ?_⟩
    split at hp
    · rename_i hlen
      cases hp
      refine ⟨rs.length, hi, ?_, ?_⟩
      · subst hlen; simpa using resolveIdx_len rs.length
      · simp
    · cases hj : resolveIdx rs.length i with
      | none => simp [hj] at hp
      | some j =>
        simp [hj] at hp
        subst hp
        have hlt := resolveIdx_lt hj
        exact ⟨j, hi, by simpa using hj, by simp [hlt]⟩

theorem Node.slotGet_slotPut_same {n n' : Node} {k : PKey} {c : Ref} (hp : n.slotPut k c = some n') :
    n'.slotGet k = .ok c := by
  cases n with
  | dict es =>
    simp [Node.slotPut] at hp; subst hp
    simp [Node.slotGet, dictGet_dictSet_same' (k := k.stored) (k' := k.toDKey) _ _ (by simp)]
  | list rs =>
    simp only [Node.slotPut, Option.map_eq_some_iff] at hp
    obtain ⟨rs', hp, rfl⟩ := hp
    obtain ⟨i, j, hi, hj, hc⟩ := seqGet_seqPut_same hp
    simp [Node.slotGet, seqGet, hi, hj, hc]
  | tuple rs =>
    simp only [Node.slotPut, Option.map_eq_some_iff] at hp
    obtain ⟨rs', hp, rfl⟩ := hp
    obtain ⟨i, j, hi, hj, hc⟩ := seqGet_seqPut_same hp
    simp [Node.slotGet, seqGet, hi, hj, hc]
  | leaf v => simp [Node.slotPut] at hp
  | null => simp [Node.slotPut] at hp
  | nd _ _ _ => simp [Node.slotPut] at hp
  | buf _ => simp [Node.slotPut] at hp

/-- Keys that cannot alias another key of the same container: no negative sequence index. -/
def PKey.NonNeg (k : PKey) : Prop := ∀ i, k.asInt = some i → 0 ≤ i

theorem seqGet_seqPut_ne {rs rs' : List Ref} {k k' : PKey} {c : Ref} (hp : seqPut rs k c = some rs')
    (hne : k'.toDKey ≠ k.toDKey) (hk : k.NonNeg) (hk' : k'.NonNeg) {i' : Int} (hi' : k'.asInt = some i') :
    (resolveIdx rs'.length i').bind (rs'[·]?) = (resolveIdx rs.length i').bind (rs[·]?) := by
  unfold seqPut at hp
  split at hp
  · cases hp
  · rename_i i hi
    have hii : i' ≠ i := by
      intro e; subst e
      apply hne
      cases k <;> cases k' <;> simp_all [PKey.asInt, PKey.toDKey]
    have h0 := hk i hi
    have h0' := hk' i' hi'
    split at hp
    · rename_i hlen
      cases hp
      rw [resolveIdx_nonneg h0', resolveIdx_nonneg h0']
      simp only [List.length_append, List.length_singleton]
      by_cases hlt : i'.toNat < rs.length
      · have : i'.toNat < rs.length + 1 := by omega
        simp [hlt, this]
      · have : ¬ i'.toNat < rs.length + 1 := by omega
        simp [hlt, this]
    · cases hj : resolveIdx rs.length i with
      | none => simp [hj] at hp
      | some j =>
        simp [hj] at hp
        subst hp
        rw [resolveIdx_nonneg h0] at hj
        split at hj
        · cases hj
          rw [resolveIdx_nonneg h0', resolveIdx_nonneg h0']
          simp only [List.length_set]
          by_cases hlt : i'.toNat < rs.length
          · have hne2 : i.toNat ≠ i'.toNat := by omega
            simp [hlt, List.getElem_set_ne hne2]
          · simp [hlt]
        · cases hj

theorem Node.slotGet_slotPut_ne {n n' : Node} {k k' : PKey} {c : Ref} (hp : n.slotPut k c = some n')
    (hne : k'.toDKey ≠ k.toDKey) (hk : k.NonNeg) (hk' : k'.NonNeg) :
    n'.slotGet k' = n.slotGet k' := by
  cases n with
  | dict es =>
    simp [Node.slotPut] at hp; subst hp
    simp [Node.slotGet, dictGet_dictSet_ne (k := k.stored) (k' := k'.toDKey) _ _ (by simpa using hne)]
  | list rs =>
    simp only [Node.slotPut, Option.map_eq_some_iff] at hp
    obtain ⟨rs', hp, rfl⟩ := hp
    cases hi' : k'.asInt with
    | none => simp [Node.slotGet, seqGet, hi']
    | some i' =>
      have := seqGet_seqPut_ne hp hne hk hk' hi'
      simp only [Node.slotGet, seqGet, hi', this]
  | tuple rs =>
    simp only [Node.slotPut, Option.map_eq_some_iff] at hp
    obtain ⟨rs', hp, rfl⟩ := hp
    cases hi' : k'.asInt with
    | none => simp [Node.slotGet, seqGet, hi']
    | some i' =>
      have := seqGet_seqPut_ne hp hne hk hk' hi'
      simp only [Node.slotGet, seqGet, hi', this]
  | leaf v => simp [Node.slotPut] at hp
  | null => simp [Node.slotPut] at hp
  | nd _ _ _ => simp [Node.slotPut] at hp
  | buf _ => simp [Node.slotPut] at hp

end MlModel.Tree

namespace MlModel.Tree

/-! ## inversion of `assign`, `setSeq`, `setMap` -/

theorem assign_list_ok {h : Heap} {res : Ref} {cur : List Ref} {k : PKey} {c : Ref} {h4 : Heap}
    (hcur : h[res]? = some (.list cur)) (ha : assign h res k c = (h4, .ok ())) :
    ∃ i j, k.asInt = some i ∧ resolveIdx cur.length i = some j ∧ h4 = write h res (.list (cur.set j c)) := by
  unfold assign at ha
  rw [hcur] at ha
  simp only at ha
  split at ha
  · cases ha
  · rename_i i hi
    split at ha
    · cases ha
    · rename_i j hj
      cases ha
      exact ⟨i, j, hi, hj, rfl⟩

theorem assign_dict_eq {h : Heap} {res : Ref} {cur : List (DKey × Ref)} (k : PKey) (c : Ref)
    (hcur : h[res]? = some (.dict cur)) :
    assign h res k c = (write h res (.dict (dictSet cur k.stored c)), .ok ()) := by
  unfold assign
  rw [hcur]

theorem setSeq_inv {R : Heap → Ref → Res Ref} {h1 : Heap} {res : Ref} {rs : List Ref} {k : PKey} {h4 : Heap}
    (hs : setSeq R h1 res rs k = (h4, .ok ())) :
    ∃ i j child hc c,
      k.asInt = some i ∧
      resolveIdx (seqPre h1 res rs i).2.length i = some j ∧ (seqPre h1 res rs i).2[j]? = some child ∧
      R (seqPre h1 res rs i).1 child = (hc, .ok c) ∧ assign hc res k c = (h4, .ok ()) := by
  rw [setSeq_unfold] at hs
  split at hs
  · cases hs
  · rename_i i hi
    refine ⟨i, ?_⟩
    split at hs
    · cases hs
    · rename_i j hj
      split at hs
      · cases hs
      · rename_i child hch
        split at hs
        · rename_i h3 c hR
          split at hs
          · rename_i h4' hass
            cases hs
            exact ⟨j, child, h3, c, hi, hj, hch, hR, hass⟩
          · cases hs
        · cases hs

/-- One level of a successful copying set on a sequence whose copy `list(rs)` was just allocated at `h.size`. -/
theorem setSeq_step {R : Heap → Ref → Res Ref} {h : Heap} {rs : List Ref} {k : PKey} {h4 : Heap}
    (hR : ∀ h' c, Extends h' (R h' c).1)
    (hs : setSeq R (h.push (.list rs)) h.size rs k = (h4, .ok ())) :
    ∃ hm child hc c rs',
      Extends h hm ∧ h.size < hm.size ∧
      (seqGet rs k = .ok child ∨ ((∀ x, seqGet rs k ≠ .ok x) ∧ hm[child]? = some .null ∧ h.size < child)) ∧
      R hm child = (hc, .ok c) ∧ seqPut rs k c = some rs' ∧
      h4 = write hc h.size (.list rs') := by
  obtain ⟨i, j, child, hc, c, hi, hj, hch, hRe, hass⟩ := setSeq_inv hs
  have hsz : (h.push (Node.list rs)).size = h.size + 1 := by simp
  by_cases hlen : i = (rs.length : Int)
  · -- append
    have hpre : seqPre (h.push (.list rs)) h.size rs i =
        (write ((h.push (.list rs)).push .null) h.size (.list (rs ++ [h.size + 1])), rs ++ [h.size + 1]) := by
      simp [seqPre, hlen]
    rw [hpre] at hj hch hRe
    simp only at hj hch hRe
    obtain ⟨hm, hmdef⟩ : ∃ hm, hm = write ((h.push (.list rs)).push .null) h.size (.list (rs ++ [h.size + 1])) :=
      ⟨_, rfl⟩
    rw [← hmdef] at hRe
    have hmsz : hm.size = h.size + 2 := by simp [hmdef]
    have hext : Extends h hm := by
      rw [hmdef]
      exact Extends.write_fresh ((extends_push h _).trans (extends_push _ _)) _ (Nat.le_refl _)
    have hjl : j = rs.length := by
      rw [hlen] at hj
      simp only [List.length_append, List.length_singleton] at hj
      rw [resolveIdx_len] at hj
      cases hj; rfl
    subst hjl
    have hchild : child = h.size + 1 := by simpa using hch.symm
    subst hchild
    have hnull : hm[h.size + 1]? = some .null := by
      have hne : h.size + 1 ≠ h.size := by omega
      rw [hmdef, write_get_ne _ _ hne]
      have := push_get_size (h.push (.list rs)) .null
      rw [hsz] at this
      exact this
    have hres : hm[h.size]? = some (.list (rs ++ [h.size + 1])) := by
      have hlt : h.size < ((h.push (.list rs)).push .null).size := by simp; omega
      rw [hmdef]; exact write_get_eq _ _ hlt
    have hres' : hc[h.size]? = some (.list (rs ++ [h.size + 1])) := by
      have := hR hm (h.size + 1)
      rw [hRe] at this
      exact this.get_some hres
    obtain ⟨i2, j2, hi2, hj2, h4eq⟩ := assign_list_ok hres' hass
    rw [hi] at hi2; cases hi2
    rw [hlen] at hj2
    simp only [List.length_append, List.length_singleton] at hj2
    rw [resolveIdx_len] at hj2
    cases hj2
    refine ⟨hm, h.size + 1, hc, c, rs ++ [c], hext, by omega, Or.inr ⟨?_, hnull, by omega⟩, hRe, ?_, ?_⟩
    · intro x
      simp [seqGet, hi, hlen, resolveIdx_len_none]
    · simp [seqPut, hi, hlen]
    · rw [h4eq]; simp
  · -- existing slot
    have hpre : seqPre (h.push (.list rs)) h.size rs i = (h.push (.list rs), rs) := by
      simp [seqPre, hlen]
    rw [hpre] at hj hch hRe
    simp only at hj hch hRe
    have hres : (h.push (.list rs))[h.size]? = some (.list rs) := push_get_size _ _
    have hres' : hc[h.size]? = some (.list rs) := by
      have := hR (h.push (.list rs)) child
      rw [hRe] at this
      exact this.get_some hres
    obtain ⟨i2, j2, hi2, hj2, h4eq⟩ := assign_list_ok hres' hass
    rw [hi] at hi2; cases hi2
    rw [hj] at hj2; cases hj2
    refine ⟨h.push (.list rs), child, hc, c, rs.set j c, extends_push _ _, by simp, Or.inl ?_, hRe, ?_, h4eq⟩
    · simp [seqGet, hi, hj, hch]
    · simp [seqPut, hi, hlen, hj]

/-- One level of a successful copying set on a dict whose copy was just allocated at `h.size`. -/
theorem setMap_step {R : Heap → Ref → Res Ref} {h : Heap} {es : List (DKey × Ref)} {k : PKey} {h4 : Heap}
    (hR : ∀ h' c, Extends h' (R h' c).1)
    (hs : setMap R (h.push (.dict es)) h.size es k = (h4, .ok ())) :
    ∃ hm child hc c,
      Extends h hm ∧ h.size < hm.size ∧
      (dictGet es k.toDKey = some child ∨ (dictGet es k.toDKey = none ∧ hm[child]? = some .null ∧ h.size < child)) ∧
      R hm child = (hc, .ok c) ∧
      h4 = write hc h.size (.dict (dictSet es k.stored c)) := by
  rw [setMap_unfold] at hs
  split at hs
  · rename_i h3 c hRe
    have hext : Extends (h.push (.dict es)) (mapPre (h.push (.dict es)) es k).1 := by
      unfold mapPre; split
      · exact Extends.refl _
      · exact extends_push _ _
    have hres : (mapPre (h.push (.dict es)) es k).1[h.size]? = some (.dict es) :=
      hext.get_some (push_get_size _ _)
    have hres' : h3[h.size]? = some (.dict es) := by
      have := hR (mapPre (h.push (.dict es)) es k).1 (mapPre (h.push (.dict es)) es k).2
      rw [hRe] at this
      exact this.get_some hres
    rw [assign_dict_eq k c hres'] at hs
    simp only at hs
    cases hs
    refine ⟨(mapPre (h.push (.dict es)) es k).1, (mapPre (h.push (.dict es)) es k).2, h3, c,
      (extends_push _ _).trans hext, ?_, ?_, hRe, rfl⟩
    · have := hext.1; simp at this; omega
    · unfold mapPre
      cases hg : dictGet es k.toDKey with
      | some c0 => exact Or.inl rfl
      | none =>
        refine Or.inr ⟨rfl, ?_, by simp⟩
        simp only
        have := push_get_size (h.push (.dict es)) .null
        simpa using this
  · cases hs

end MlModel.Tree

namespace MlModel.Tree

/-- **One level of a successful copying `_set_by_path`** on an existing container `n = h[t]`:
a copy of `n` is allocated at `h.size`, the child at slot `k` (or a fresh `NullMap` when the slot does
not exist yet) is set recursively giving `c`, and the result `t'` is a fresh cell holding `n` with slot
`k` replaced by `c`; afterwards only the copy cell differs from the heap the recursion returned. -/
theorem setPath_step {strict : Bool} {h : Heap} {t : Ref} {k : PKey} {rest : Path} {v : Ref} {h' : Heap}
    {t' : Ref} {n : Node} (hk1 : k ≠ .self) (hk2 : k ≠ .skip) (hn : h[t]? = some n) (hnn : n ≠ .null)
    (hnd : ∀ b o s, n ≠ .nd b o s)
    (hs : setPath strict false h t (k :: rest) v = (h', .ok t')) :
    ∃ hm child hc c n',
      Extends h hm ∧ h.size < hm.size ∧
      (n.slotGet k = .ok child ∨ ((∀ x, n.slotGet k ≠ .ok x) ∧ hm[child]? = some .null ∧ h.size < child)) ∧
      setPath strict false hm child rest v = (hc, .ok c) ∧
      n.slotPut k c = some n' ∧
      h'[t']? = some n' ∧ (t' = h.size ∨ t' = hc.size) ∧ hm.size ≤ hc.size ∧ hc.size ≤ h'.size ∧
      (∀ r, r < hc.size → r ≠ h.size → h'[r]? = hc[r]?) := by
  rw [setPath.eq_4 _ _ _ _ _ _ _ hk1 hk2, hn] at hs
  have hR : ∀ h' c, Extends h' ((fun h' c => setPath strict false h' c rest v) h' c).1 :=
    fun h' c => setPath_extends strict h' c rest v
  cases n with
  | null => exact absurd rfl hnn
  | nd b o s => exact absurd rfl (hnd b o s)
  | buf xs => simp at hs
  | leaf x => simp at hs
  | tuple rs =>
    simp only [Bool.false_eq_true, ↓reduceIte, alloc] at hs
    split at hs
    · rename_i h2 hseq
      obtain ⟨hm, child, hc, c, rs', hext, hlt, hslot, hRe, hput, h2eq⟩ := setSeq_step hR hseq
      have hmc : Extends hm hc := by have := setPath_extends strict hm child rest v; rw [hRe] at this; exact this
      have hclt : h.size < hc.size := Nat.lt_of_lt_of_le hlt hmc.1
      have hres : h2[h.size]? = some (.list rs') := by rw [h2eq]; exact write_get_eq _ _ hclt
      rw [hres] at hs
      simp only [Prod.mk.injEq, Except.ok.injEq] at hs
      obtain ⟨rfl, rfl⟩ := hs
      have hsz2 : h2.size = hc.size := by rw [h2eq]; simp
      refine ⟨hm, child, hc, c, .tuple rs', hext, hlt, hslot, hRe, by simp [Node.slotPut, hput], ?_,
        Or.inr hsz2, hmc.1, by simp; omega, ?_⟩
      · exact push_get_size _ _
      · intro r hr hne
        rw [push_get_lt _ _ (by omega), h2eq, write_get_ne _ _ hne]
    · simp at hs
  | list rs =>
    simp only [Bool.false_eq_true, ↓reduceIte, alloc] at hs
    split at hs
    · rename_i h2 hseq
      obtain ⟨hm, child, hc, c, rs', hext, hlt, hslot, hRe, hput, h2eq⟩ := setSeq_step hR hseq
      have hmc : Extends hm hc := by have := setPath_extends strict hm child rest v; rw [hRe] at this; exact this
      have hclt : h.size < hc.size := Nat.lt_of_lt_of_le hlt hmc.1
      simp only [Prod.mk.injEq, Except.ok.injEq] at hs
      obtain ⟨rfl, rfl⟩ := hs
      refine ⟨hm, child, hc, c, .list rs', hext, hlt, hslot, hRe, by simp [Node.slotPut, hput], ?_,
        Or.inl rfl, hmc.1, by rw [h2eq]; simp, ?_⟩
      · rw [h2eq]; exact write_get_eq _ _ hclt
      · intro r _ hne
        rw [h2eq, write_get_ne _ _ hne]
    · simp at hs
  | dict es =>
    simp only [Bool.false_eq_true, ↓reduceIte, alloc] at hs
    split at hs
    · rename_i h2 hmap
      obtain ⟨hm, child, hc, c, hext, hlt, hslot, hRe, h2eq⟩ := setMap_step hR hmap
      have hmc : Extends hm hc := by have := setPath_extends strict hm child rest v; rw [hRe] at this; exact this
      have hclt : h.size < hc.size := Nat.lt_of_lt_of_le hlt hmc.1
      simp only [Prod.mk.injEq, Except.ok.injEq] at hs
      obtain ⟨rfl, rfl⟩ := hs
      refine ⟨hm, child, hc, c, .dict (dictSet es k.stored c), hext, hlt, ?_, hRe, by simp [Node.slotPut], ?_,
        Or.inl rfl, hmc.1, by rw [h2eq]; simp, ?_⟩
      · rcases hslot with hg | ⟨hg, hnull, hfresh⟩
        · exact Or.inl (by simp [Node.slotGet, hg])
        · exact Or.inr ⟨by intro x; simp [Node.slotGet, hg], hnull, hfresh⟩
      · rw [h2eq]; exact write_get_eq _ _ hclt
      · intro r _ hne
        rw [h2eq, write_get_ne _ _ hne]
    · simp at hs

end MlModel.Tree

namespace MlModel.Tree

theorem ndWrite_get_ne (h : Heap) {b r : Ref} (o : Nat) (ys : List Int) (hne : r ≠ b) :
    (ndWrite h b o ys)[r]? = h[r]? := by
  unfold ndWrite
  split
  · exact write_get_ne _ _ hne
  · rfl

/-- **One level of a successful copying `_set_by_path` on an ndarray**: the result is a *new* array object
(cell `h.size + 1`) on a *new* buffer (cell `h.size`), of the same shape. -/
theorem setPath_nd_result {strict : Bool} {h : Heap} {t : Ref} {k : PKey} {rest : Path} {v : Ref} {h' : Heap}
    {t' : Ref} {b off : Nat} {shape : List Nat} (hk1 : k ≠ .self) (hk2 : k ≠ .skip)
    (hn : h[t]? = some (.nd b off shape))
    (hs : setPath strict false h t (k :: rest) v = (h', .ok t')) :
    t' = h.size + 1 ∧ h.size + 1 < h'.size ∧ h'[t']? = some (.nd h.size 0 shape) := by
  rw [setPath.eq_4 _ _ _ _ _ _ _ hk1 hk2, hn] at hs
  simp only at hs
  rw [setNd_unfold] at hs
  have hpre : ndPre false h t b off shape = ((ndCopy h b off shape).1, h.size + 1, h.size, 0) := by
    simp [ndPre, ndCopy_snd]
  have hcell : (ndCopy h b off shape).1[h.size + 1]? = some (.nd h.size 0 shape) := by
    rw [ndCopy_fst]
    have := push_get_size (h.push (.buf (ndElems h b off shape))) (.nd h.size 0 shape)
    simpa using this
  have hsz : (ndCopy h b off shape).1.size = h.size + 2 := by rw [ndCopy_fst]; simp
  split at hs
  · simp at hs
  · split at hs
    · simp at hs
    · split at hs
      · simp at hs
      · split at hs
        · simp at hs
        · rename_i n inner _ i _ _ _ j _
          rw [hpre] at hs
          simp only at hs
          have hi := ndItem_extends (ndCopy h b off (n :: inner)).1 h.size (0 + j * prod inner) inner
          have hr := setPath_extends strict (ndItem (ndCopy h b off (n :: inner)).1 h.size (0 + j * prod inner) inner).1
            (ndItem (ndCopy h b off (n :: inner)).1 h.size (0 + j * prod inner) inner).2 rest v
          split at hs
          · simp at hs
          · rename_i h3 c hRe
            rw [hRe] at hr
            have he := hi.trans hr
            have hle : h.size + 2 ≤ h3.size := by have := he.1; simp only [hsz] at this; exact this
            split at hs
            · simp at hs
            · simp only [Prod.mk.injEq, Except.ok.injEq] at hs
              obtain ⟨rfl, rfl⟩ := hs
              refine ⟨rfl, ?_, ?_⟩
              · simp only [ndWrite_size]; omega
              · rw [ndWrite_get_ne _ _ _ (by omega), he.2 _ (by omega), hcell]

end MlModel.Tree
