import MlModel.Lemmas.PipeAggShard
/-!
# `merge_states` over shard states in ANY order of arrival (package SC16c, for C16)

`sharded_pipelines_as_iterator` merges the shard states in the order in which the shards FINISH
(`states_queue`), an interleaved stage in the order in which its workers finish: a permutation of the
shard order of Lemmas/PipeAggShard.lean.  For aggregates that are lawful and insensitive to the order of
their rows the merged map is, key by key, equivalent to the one merged in shard order.
-/
namespace MlModel.PipeAgg
open MlModel MlModel.Agg

variable {X S Rv : Type}

/-- folding optional entries in two orders: both absent or both present and equivalent -/
theorem optFold_perm {m : Mergeable X S (List Rv)} {Eqv : S → S → Prop} (hL : Lawful m Eqv)
    (hperm : ∀ xs ys : List X, xs.Perm ys → Eqv (m.ofBatch xs) (m.ofBatch ys))
    {vs vs' : List (Option S)} (hp : vs'.Perm vs) (hrel : ∀ v ∈ vs, ∃ rows, Rel m Eqv v rows) :
    OptEqv Eqv (vs'.foldl (optStep m.merge) none) (vs.foldl (optStep m.merge) none) := by
  classical
  let g : Option S → List X := fun v => if h : ∃ rows, Rel m Eqv v rows then Classical.choose h else []
  have hg : ∀ v ∈ vs, Rel m Eqv (id v) (g v) := by
    intro v hv
    have h := hrel v hv
    simp only [g, dif_pos h, id]
    exact Classical.choose_spec h
  have hg' : ∀ v ∈ vs', Rel m Eqv (id v) (g v) := fun v hv => hg v (hp.subset hv)
  have h1 := rel_optFold hL id g vs hg none [] rfl
  have h2 := rel_optFold hL id g vs' hg' none [] rfl
  simp only [List.map_id, List.nil_append] at h1 h2
  have hpp : ((vs'.map g).flatten).Perm ((vs.map g).flatten) := by
    rw [← List.flatMap_def, ← List.flatMap_def]
    exact hp.flatMap_right g
  have hs1 := isSome_optFold m.merge vs none
  have hs2 := isSome_optFold m.merge vs' none
  have hex : (∃ v ∈ vs', v.isSome = true) ↔ (∃ v ∈ vs, v.isSome = true) :=
    ⟨fun ⟨v, hv, h⟩ => ⟨v, hp.subset hv, h⟩, fun ⟨v, hv, h⟩ => ⟨v, hp.symm.subset hv, h⟩⟩
  cases hM : vs'.foldl (optStep m.merge) none with
  | none =>
    cases hW : vs.foldl (optStep m.merge) none with
    | none => trivial
    | some t =>
      rw [hM] at hs2; rw [hW] at hs1
      have := hs1.mp rfl
      simp only [Option.isSome_none, Bool.false_eq_true, false_or] at this hs2
      exact absurd (hs2.mpr (hex.mpr this)) (by simp)
  | some s =>
    cases hW : vs.foldl (optStep m.merge) none with
    | none =>
      rw [hM] at hs2; rw [hW] at hs1
      have := hs2.mp rfl
      simp only [Option.isSome_none, Bool.false_eq_true, false_or] at this hs1
      exact absurd (hs1.mpr (hex.mp this)) (by simp)
    | some t =>
      rw [hM] at h2; rw [hW] at h1
      have e1 : Eqv t (m.ofBatch ((vs.map g).flatten)) := h1
      have e2 : Eqv s (m.ofBatch ((vs'.map g).flatten)) := h2
      exact hL.trans e2 (hL.trans (hperm _ _ hpp) (hL.symm e1))

variable {P : Pipeline X S Rv}

/-- **Any order of arrival, key by key.**  The shard states merged in a permuted order hold, under every
key `(a.out, k)` of a lawful, row-order-insensitive aggregate, an entry iff the states merged in shard
order do, and the two are equivalent. -/
theorem mergeStates_get?_perm (hWF : P.WF) {parts : List (List Batch)}
    {sts : List (State S)} (hruns : mapE (run P) parts = .ok sts)
    {sts' : List (State S)} (hp : sts'.Perm sts)
    {a : Agg X S Rv} (ha : a ∈ P.aggs) {Eqv : S → S → Prop} (hL : Lawful a.m Eqv)
    (hperm : ∀ xs ys : List X, xs.Perm ys → Eqv (a.m.ofBatch xs) (a.m.ofBatch ys)) (k : SliceKey) :
    OptEqv Eqv (AList.get? (mergeStates P sts') ⟨a.out, k⟩) (AList.get? (mergeStates P sts) ⟨a.out, k⟩) := by
  let mk : MetricKey := ⟨a.out, k⟩
  obtain ⟨usss, hps, rfl⟩ := runs_plans hruns
  have hflat := mapE_flatten_ok hps
  have hnd := nodup_keys_shard_states (P := P) usss
  have hnd' : ∀ st ∈ sts', (AList.keys st).Nodup := fun st hst => hnd st (hp.subset hst)
  have hc : AList.get? (createState P) mk = none ∨ AList.get? (createState P) mk = some a.m.empty := by
    by_cases hk : k = SliceKey.none
    · right; subst hk; exact get?_createState_unsliced hWF ha
    · left; exact get?_createState_sliced P _ _ hk
  have hm_all : ∀ u ∈ usss.flatten.flatten, u.key = mk → u.m = a.m := m_of_key_all hWF hflat ha k
  have hm_i : ∀ uss ∈ usss, ∀ u ∈ uss.flatten, u.key = mk → u.m = a.m := by
    intro uss huss u hu
    obtain ⟨us, hus, huu⟩ := List.mem_flatten.mp hu
    exact hm_all u (List.mem_flatten.mpr ⟨us, List.mem_flatten.mpr ⟨uss, huss, hus⟩, huu⟩)
  rw [get?_mergeStates P mk _ hnd, get?_mergeStates P mk _ hnd', show mk.metrics = a.out from rfl,
    owner_of_mem hWF ha]
  refine optFold_perm hL hperm (hp.map _) ?_
  intro v hv
  obtain ⟨st, hst, rfl⟩ := List.mem_map.mp hv
  obtain ⟨uss, huss, rfl⟩ := List.mem_map.mp hst
  exact ⟨_, rel_run_entry hL mk uss.flatten (hm_i uss huss) hc⟩

/-- … hence `get_result` of the states merged in a permuted order exists whenever it does for the shard order -/
theorem getResult_mergeStates_perm_ok (hWF : P.WF) {parts : List (List Batch)}
    {sts : List (State S)} (hruns : mapE (run P) parts = .ok sts)
    {sts' : List (State S)} (hp : sts'.Perm sts)
    {Eqv : S → S → Prop} (hL : ∀ a ∈ P.aggs, Lawful a.m Eqv)
    (hperm : ∀ a ∈ P.aggs, ∀ xs ys : List X, xs.Perm ys → Eqv (a.m.ofBatch xs) (a.m.ofBatch ys))
    {res : Result Rv} (hres : getResult P (mergeStates P sts) = .ok res) :
    ∃ res', getResult P (mergeStates P sts') = .ok res' := by
  obtain ⟨pss, hps, _⟩ := getResultFrom_ok hres
  have hall : ∀ e ∈ mergeStates P sts', ∃ ps, entryPairs P e = .ok ps := by
    intro e he
    obtain ⟨mk, s⟩ := e
    have hs : AList.get? (mergeStates P sts') mk = some s :=
      AList.get?_eq_some_of_mem _ (nodup_keys_mergeStates P sts') he
    cases ho : owner P mk.metrics with
    | none =>
      obtain ⟨usss, _, rfl⟩ := runs_plans hruns
      have hnd' : ∀ st ∈ sts', (AList.keys st).Nodup :=
        fun st hst => nodup_keys_shard_states (P := P) usss st (hp.subset hst)
      rw [get?_mergeStates P mk _ hnd', ho] at hs
      cases hs
    | some a =>
      obtain ⟨ha, hout⟩ := owner_some ho
      have hmk : mk = ⟨a.out, mk.slice⟩ := by cases mk; simp only at hout ⊢; rw [hout]
      have hrel := mergeStates_get?_perm hWF hruns hp ha (hL a ha) (hperm a ha) mk.slice
      rw [← hmk, hs] at hrel
      cases ht : AList.get? (mergeStates P sts) mk with
      | none => rw [ht] at hrel; exact absurd hrel id
      | some t =>
        rw [ht] at hrel
        have hE : Eqv s t := hrel
        obtain ⟨ps, hpp, _⟩ := mapE_ok_mem hps (AList.mem_of_get?_eq_some _ ht)
        exact ⟨ps, by rw [entryPairs_congr ho ((hL a ha).result_congr hE)]; exact hpp⟩
  obtain ⟨pss', hps'⟩ := mapE_ok_of_forall hall
  exact ⟨_, getResultFrom_of_mapE hps'⟩

/-- … and reports the same value under every output key and slice key -/
theorem getResult_mergeStates_perm (hWF : P.WF) {parts : List (List Batch)}
    {sts : List (State S)} (hruns : mapE (run P) parts = .ok sts)
    {sts' : List (State S)} (hp : sts'.Perm sts)
    {res res' : Result Rv} (hres : getResult P (mergeStates P sts) = .ok res)
    (hres' : getResult P (mergeStates P sts') = .ok res')
    {a : Agg X S Rv} (ha : a ∈ P.aggs) {Eqv : S → S → Prop} (hL : Lawful a.m Eqv)
    (hperm : ∀ xs ys : List X, xs.Perm ys → Eqv (a.m.ofBatch xs) (a.m.ofBatch ys)) (k : SliceKey)
    {i : Nat} (hi : i < a.out.length) :
    AList.get? res' ⟨a.out[i], k⟩ = AList.get? res ⟨a.out[i], k⟩ := by
  rw [getResult_get? hWF (nodup_keys_mergeStates P sts') hres' ha k hi,
    getResult_get? hWF (nodup_keys_mergeStates P sts) hres ha k hi]
  have h := mergeStates_get?_perm hWF hruns hp ha hL hperm k
  cases hm : AList.get? (mergeStates P sts') ⟨a.out, k⟩ with
  | none =>
    cases hw : AList.get? (mergeStates P sts) ⟨a.out, k⟩ with
    | none => rfl
    | some t => rw [hm, hw] at h; exact absurd h id
  | some s =>
    cases hw : AList.get? (mergeStates P sts) ⟨a.out, k⟩ with
    | none => rw [hm, hw] at h; exact absurd h id
    | some t =>
      rw [hm, hw] at h
      simp only [Option.bind_some]
      exact Agg.outputAt_congr (hL.result_congr h) i

end MlModel.PipeAgg
