import MlModel.Lemmas.Piter2Close2
import MlModel.Lemmas.Piter2Incl
/-!
# Two-queue LTS: conservation across BOTH levels for runs without failure and without early stop

In a reachable FINAL configuration (every task at its end, the caller past `shutdown()`) in which neither queue has a
recorded failure or a stop request and the caller did not stop early, the values delivered to the caller are a
PERMUTATION of `iterator_fn`'s outputs over the values of all input iterators.
-/
namespace MlModel.Piter2
open MlModel.Queue

variable {F : Nat → Option (List Nat)}

theorem mem_initF {cap1 cap2 bm1 bm2 mw : Nat} {ns : Option Nat} {fwd ff : Bool} {inputs : List InSpec} {gens : List Nat}
    {t : Th} (ht : t ∈ (initF cap1 cap2 bm1 bm2 mw ns fwd ff inputs gens).ths) :
    t = mkCons bm2 ∨ (∃ i ∈ inputs, t = mkL1 i) ∨ (∃ g ∈ gens, t = mkL2 bm1 g) := by
  simp only [initF, Piter2.init, List.mem_cons, List.mem_append, List.mem_map] at ht
  rcases ht with rfl | ⟨i, hi, rfl⟩ | ⟨g, hg, rfl⟩
  · exact .inl rfl
  · exact .inr (.inl ⟨i, hi, rfl⟩)
  · exact .inr (.inr ⟨g, hg, rfl⟩)

theorem end1_initF (cap1 cap2 bm1 bm2 mw : Nat) (ns : Option Nat) (fwd ff : Bool) (inputs : List InSpec)
    (gens : List Nat) : End1 (initF cap1 cap2 bm1 bm2 mw ns fwd ff inputs gens) := by
  have hnoseen : ¬ Seen (initF cap1 cap2 bm1 bm2 mw ns fwd ff inputs gens) := by
    rintro ⟨t, ht, -, hs⟩
    rcases mem_initF ht with rfl | ⟨i, _, rfl⟩ | ⟨g, _, rfl⟩ <;> simp [stopSeen, seenQ, mkCons, mkL1, mkL2] at hs
  refine ⟨?_, ?_, fun _ => rfl, fun _ h => ?_, fun _ hs => absurd hs hnoseen, ?_⟩
  · intro t ht _ hx
    rcases mem_initF ht with rfl | ⟨i, _, rfl⟩ | ⟨g, _, rfl⟩ <;> simp [mkCons, mkL1, mkL2] at hx
  · intro t ht
    rcases mem_initF ht with rfl | ⟨i, _, rfl⟩ | ⟨g, _, rfl⟩ <;>
      exact axl_of_pc (by simp [v1, mkCons, mkL1, mkL2, inertT])
  · simp [initF, Piter2.init] at h
  · intro _ t ht hr hreg
    rcases mem_initF ht with rfl | ⟨i, _, rfl⟩ | ⟨g, _, rfl⟩ <;> simp [mkCons, mkL1, mkL2, tRegion] at hr hreg

theorem end2_initF (cap1 cap2 bm1 bm2 mw : Nat) (ns : Option Nat) (fwd ff : Bool) (inputs : List InSpec)
    (gens : List Nat) : End2 (initF cap1 cap2 bm1 bm2 mw ns fwd ff inputs gens) := by
  refine ⟨?_, fun _ _ => rfl, fun _ h => ?_, ?_⟩
  · intro t0 ht0
    simp only [initF, Piter2.init, List.getElem?_cons_zero, Option.some.injEq] at ht0
    subst ht0
    exact ⟨axl_of_pc (by simp [mkCons]), fun e => by simp [mkCons] at e⟩
  · simp [initF, Piter2.init] at h
  · intro _ t ht hr hreg
    rcases mem_initF ht with rfl | ⟨i, _, rfl⟩ | ⟨g, _, rfl⟩ <;> simp [mkCons, mkL1, mkL2, tRegion] at hr hreg

theorem l2eq_initF (cap1 cap2 bm1 bm2 mw : Nat) (ns : Option Nat) (fwd ff : Bool) (inputs : List InSpec)
    (gens : List Nat) : L2Eq F (initF cap1 cap2 bm1 bm2 mw ns fwd ff inputs gens) := by
  intro u hu _
  rcases mem_initF hu with rfl | ⟨i, _, rfl⟩ | ⟨g, _, rfl⟩ <;> simp [mkCons, mkL1, mkL2, inflight, Queue.putPc]

theorem l1eq_initF (cap1 cap2 bm1 bm2 mw : Nat) (ns : Option Nat) (fwd ff : Bool) (inputs : List InSpec)
    (gens : List Nat) : L1Eq (initF cap1 cap2 bm1 bm2 mw ns fwd ff inputs gens) := by
  intro u hu _ _
  rcases mem_initF hu with rfl | ⟨i, _, rfl⟩ | ⟨g, _, rfl⟩ <;> simp [mkCons, mkL1, mkL2, inflight1, Queue.putPc]

theorem l1inv_initF (cap1 cap2 bm1 bm2 mw : Nat) (ns : Option Nat) (fwd ff : Bool) (inputs : List InSpec)
    (gens : List Nat) : L1Inv (initF cap1 cap2 bm1 bm2 mw ns fwd ff inputs gens) := by
  have hall : ∀ t ∈ (initF cap1 cap2 bm1 bm2 mw ns fwd ff inputs gens).ths,
      t.emitted = [] ∧ t.pulled = [] ∧ (t.role = .l1 → t.a.pc = .start) := by
    intro t ht
    rcases mem_initF ht with rfl | ⟨i, _, rfl⟩ | ⟨g, _, rfl⟩ <;> simp [mkCons, mkL1, mkL2]
  refine ⟨fun t ht hr => ?_, fun t ht hr => ?_, ?_⟩
  · obtain ⟨e1, e2, e3⟩ := hall t ht
    simp [e1, e2, inflight1, e3 hr, Queue.putPc]
  · obtain ⟨e1, e2, e3⟩ := hall t ht
    simp [e3 hr, e2]
  · have hfl : ((initF cap1 cap2 bm1 bm2 mw ns fwd ff inputs gens).ths.map em1).flatten = [] := by
      rw [List.flatten_eq_nil_iff]
      intro l hl
      obtain ⟨t, ht, rfl⟩ := List.mem_map.mp hl
      simp [em1, (hall t ht).1]
    rw [hfl]
    simp [initF, Piter2.init]

theorem end_reachable {cap1 cap2 bm1 bm2 mw : Nat} {ns : Option Nat} {fwd ff : Bool} {inputs : List InSpec}
    {gens : List Nat} {c : Cfg} (h : Reachable F (initF cap1 cap2 bm1 bm2 mw ns fwd ff inputs gens) c) :
    End1 c ∧ End2 c := by
  have hg0 := good_initF cap1 cap2 bm1 bm2 mw ns fwd ff inputs gens
  induction h with
  | init => exact ⟨end1_initF cap1 cap2 bm1 bm2 mw ns fwd ff inputs gens, end2_initF cap1 cap2 bm1 bm2 mw ns fwd ff inputs gens⟩
  | step hr hs ih =>
    have hg := good_reachable hg0 hr
    exact ⟨end1_step hg hs ih.1, end2_step hg (l2eq_reachable hr hg0 (l2eq_initF cap1 cap2 bm1 bm2 mw ns fwd ff inputs gens)) hs ih.2⟩

theorem flatten_map_congr {α β} {l : List α} {f g : α → List β} (h : ∀ a ∈ l, f a = g a) :
    (l.map f).flatten = (l.map g).flatten := by
  rw [List.map_congr_left h]

/-- **the composed conservation statement** for a final configuration of a run without failure / early stop -/
theorem two_multiset {cap1 cap2 bm1 bm2 mw : Nat} {ns : Option Nat} {fwd ff : Bool} {inputs : List InSpec}
    {gens : List Nat} {c : Cfg} (hgen : gens ≠ [])
    (h : Reachable F (initF cap1 cap2 bm1 bm2 mw ns fwd ff inputs gens) c) (hdone : c.allDone = true)
    (hc1 : Clean c.s1) (hc2 : Clean c.s2) {t0 : Th} (ht0 : c.ths[0]? = some t0) (hearly : t0.early = false)
    (hperm2 : List.Perm ((seqOf t0.b ++ c.s2.lost ++ c.s2.q).map (·.2)) (c.ths.map em2).flatten)
    (hin1 : List.Perm (c.s1.dequeued.map (·.2)) ((c.ths.map own).flatten ++ c.cache.map (·.2) ++ c.s1.lost.map (·.2)))
    (hfifo1 : c.s1.produced = c.s1.dequeued ++ c.s1.q) :
    List.Perm (t0.b.received.map (·.2)) ((inputs.flatMap fun i => valsOf i.items).flatMap (Fp F)) ∧
    c.s1.q = [] ∧ c.s2.q = [] ∧ c.cache = [] ∧ c.s1.lost = [] ∧ c.s2.lost = [] := by
  have hg0 := good_initF cap1 cap2 bm1 bm2 mw ns fwd ff inputs gens
  have hg := good_reachable hg0 h
  have hi := hg.inv
  obtain ⟨he1, he2⟩ := end_reachable h
  have hl2 := l2eq_reachable h hg0 (l2eq_initF (F := F) cap1 cap2 bm1 bm2 mw ns fwd ff inputs gens)
  have hl1 := l1eq_reachable h hg0 (l1eq_initF cap1 cap2 bm1 bm2 mw ns fwd ff inputs gens)
  have hv1 := l1inv_reachable h hg0 (l1inv_initF cap1 cap2 bm1 bm2 mw ns fwd ff inputs gens)
  unfold Cfg.allDone at hdone
  rw [List.all_eq_true] at hdone
  have ht0m := List.mem_of_getElem? ht0
  have hr0 : t0.role = .cons := (hi.role0 0 t0 ht0).mpr rfl
  -- the caller
  have hfin : t0.cpc = .fin := by simpa [Th.done, hr0] using hdone t0 ht0m
  have hti0 := hi.ti t0 ht0m
  unfold TI at hti0
  simp only [hr0, hfin] at hti0
  have hbdone : t0.b.pc = .done := hti0.2.2.1
  have hxok := hg.live2.base.xok (v2 t0) (List.mem_of_getElem? (q2_get ht0))
  rw [v2_cons hr0] at hxok
  have hkb : t0.b.prog.kind = .batch := by
    rcases hti0.2.2.2 with hk | hk
    · exact hk
    · exfalso
      have := hxok.2.1 (by simp [hbdone, isStopper, hk])
      have h' : c.s2.stopRequested = true := this
      rw [hc2.2] at h'; cases h'
  have hex2 : c.s2.exhausted = true := by
    rcases hxok.2.2.2.2.1 (by simp [armed, hbdone, isCons, hkb]) with h1 | h1
    · exact h1
    · have h' : c.s2.timeout = true := h1
      rw [hi.to2] at h'; cases h'
  have hq2 : c.s2.q = [] := he2.qe hc2 hex2
  have hlost2 : c.s2.lost = [] := he2.lost hc2 (fun t ht => by rw [ht0] at ht; cases ht; exact hearly)
  have hseq : seqOf t0.b = t0.b.received := by
    simp [seqOf, inHand, inHandPc, hbdone, (he2.res t0 ht0).2 hbdone]
  rw [hseq, hq2, hlost2, List.append_nil, List.append_nil] at hperm2
  -- the second level
  have hl2done : ∀ t ∈ c.ths, t.role = .l2 → t.b.pc = .done ∧ t.x = .idle := by
    intro t ht hr
    simpa [Th.done, hr] using hdone t ht
  have hem2 : (c.ths.map em2).flatten = (c.ths.map pulled2).flatten.flatMap (Fp F) := by
    rw [flatMap_flatten_map]
    apply flatten_map_congr
    intro t ht
    unfold em2 pulled2
    by_cases hr : t.role = .l2
    · simp only [hr, if_true]
      obtain ⟨hd, -⟩ := hl2done t ht hr
      have hp := (he2.pend hc2 t ht hr (.inr hd)).1
      have := (hl2 t ht hr).2 hc2
      simpa [inflight, putPc, hd, hp] using this
    · simp [hr]
  -- the input queue
  have hroles : c.ths.map (·.role) =
      Role.cons :: (List.replicate inputs.length Role.l1 ++ List.replicate gens.length Role.l2) := by
    rw [(reachable_frame h).roles, initF_roles, map_const_replicate, map_const_replicate]
  obtain ⟨w, hw, hwr⟩ := (roles_facts hroles).2.1 (List.length_pos_iff.mpr hgen)
  have hseen : Seen c := ⟨w, hw, hwr, (he2.pend hc2 w hw hwr (.inr (hl2done w hw hwr).1)).2⟩
  obtain ⟨hex1, hcache, -⟩ := he1.seen hc1 hseen
  have hq1 : c.s1.q = [] := he1.qe hc1 hex1
  have hlost1 : c.s1.lost = [] := he1.lost hc1
  have hown : (c.ths.map own).flatten = (c.ths.map pulled2).flatten := by
    apply flatten_map_congr
    intro t ht
    unfold own pulled2
    by_cases hr : t.role = .l2
    · simp [hr, (hl2done t ht hr).2]
    · simp [hr]
  rw [hcache, hlost1, hown] at hin1
  simp only [List.map_nil, List.append_nil] at hin1
  rw [hq1, List.append_nil] at hfifo1
  have hem1 : (c.ths.map em1).flatten = (c.ths.map inVals).flatten := by
    apply flatten_map_congr
    intro t ht
    unfold em1 inVals
    by_cases hr : t.role = .l1
    · simp only [hr, if_true]
      have hd : t.a.pc = .done := by simpa [Th.done, hr] using hdone t ht
      have h1 := hl1 t ht hr hc1
      have h2 := hv1.src t ht hr
      have h3 := he1.src hc1 t ht hr (.inr hd)
      simp only [hd, reduceCtorEq, if_false, h3] at h2
      have hnil : valsOf [] = [] := rfl
      rw [hnil, List.append_nil] at h2
      simp [inflight1, putPc, hd] at h1
      rw [h1, h2]
    · simp [hr]
  have hpulled : List.Perm (c.ths.map pulled2).flatten (inputs.flatMap fun i => valsOf i.items) := by
    rw [← inVals_reachable h, ← hem1]
    refine hin1.symm.trans ?_
    rw [← hfifo1]
    exact hv1.prod
  refine ⟨?_, hq1, hq2, hcache, hlost1, hlost2⟩
  rw [hem2] at hperm2
  exact hperm2.trans (hpulled.flatMap_right _)

end MlModel.Piter2
