import MlModel.Lemmas.QueueProd
/-!
# One producer, one consumer: the queue hands over the producer's list (used by C03_stage_runner)

Two small invariants of the `IteratorQueue` LTS on top of `DataInv`/`ProdInv`:
the programs of the threads never change, and every element ever put carries the tag of a
*producer* thread.  With a single producer and a single consumer, FIFO (`DataInv.sub/fifo`) and
per-producer order (`ProdInv.order`) then give list equality once everything was put and delivered.
-/
namespace MlModel.Queue

/-- the threads keep their programs -/
def ProgInv (progs : List Prog) (c : Cfg) : Prop := c.ths.map (·.prog) = progs

/-- every element ever put is tagged with the index of a producer thread -/
def TagInv (c : Cfg) : Prop :=
  ∀ e ∈ c.sh.produced, ∃ t, c.ths[e.1]? = some t ∧ t.prog.kind = .producer

theorem progInv_init (cap maxEnq : Nat) (to ig : Bool) (progs : List Prog) :
    ProgInv progs (init cap maxEnq to ig progs) := by
  simp [ProgInv, init, List.map_map, Function.comp_def]

theorem tagInv_init (cap maxEnq : Nat) (to ig : Bool) (progs : List Prog) :
    TagInv (init cap maxEnq to ig progs) := by
  intro e he; simp [init] at he

theorem progInv_step {progs : List Prog} {c c' : Cfg} {tid alt lbl} (hd : DataInv c)
    (hi : ProgInv progs c) (h : step c tid alt = some (lbl, c')) : ProgInv progs c' := by
  obtain ⟨t, s', t', ht, hst, rfl⟩ := step_inv h
  have htmem : t ∈ c.ths := List.mem_of_getElem? ht
  obtain ⟨_, hprog, _⟩ := stepThread_data lbl s' t' hst (hd.tok t htmem)
  unfold ProgInv at hi ⊢
  show (c.ths.set tid t').map (·.prog) = progs
  rw [List.map_set, hprog, ← hi]
  apply List.ext_getElem?
  intro i
  by_cases hit : tid = i
  · subst hit
    have htid : tid < c.ths.length := (List.getElem?_eq_some_iff.mp ht).1
    rw [List.getElem?_set_self (by simpa using htid), List.getElem?_map, ht]; rfl
  · rw [List.getElem?_set_ne hit]

theorem tagInv_step {c c' : Cfg} {tid alt lbl} (hd : DataInv c) (hp : ProdInv c) (hi : TagInv c)
    (h : step c tid alt = some (lbl, c')) : TagInv c' := by
  obtain ⟨t, s', t', ht, hst, rfl⟩ := step_inv h
  have htid : tid < c.ths.length := (List.getElem?_eq_some_iff.mp ht).1
  have htmem : t ∈ c.ths := List.mem_of_getElem? ht
  have htok := hd.tok t htmem
  obtain ⟨_, hprog, _, _, hpr, _, _⟩ := stepThread_data lbl s' t' hst htok
  obtain ⟨_, hnew, _⟩ := stepThread_prod lbl s' t' hst htok (hp.tag tid t ht)
  intro e he
  show ∃ u, (c.ths.set tid t')[e.1]? = some u ∧ u.prog.kind = .producer
  have he' : e ∈ c.sh.produced ++ newOf c.sh t := hpr ▸ he
  rcases List.mem_append.mp he' with hold | hnw
  · obtain ⟨u, hu, hk⟩ := hi e hold
    by_cases hit : tid = e.1
    · refine ⟨t', ?_, ?_⟩
      · rw [← hit, List.getElem?_set_self htid]
      · rw [← hit, ht] at hu
        rw [hprog, Option.some.inj hu]; exact hk
    · exact ⟨u, by rw [List.getElem?_set_ne hit]; exact hu, hk⟩
  · have h1 : e.1 = tid := hnew e hnw
    refine ⟨t', by rw [h1, List.getElem?_set_self htid], ?_⟩
    rw [hprog]
    -- something is put only at `pPut`, a program point of producers
    have hpc : t.pc = .pPut := by
      unfold newOf at hnw
      split at hnw
      · assumption
      · simp at hnw
    exact htok.kind .producer (by rw [hpc]; rfl)

theorem progInv_reachable {progs : List Prog} {c0 c : Cfg} (hd0 : DataInv c0) (h0 : ProgInv progs c0)
    (h : Reachable c0 c) : ProgInv progs c := by
  induction h with
  | init => exact h0
  | step hr hs ih => exact progInv_step (dataInv_reachable hd0 hr) ih hs

theorem tagInv_reachable {c0 c : Cfg} (hd0 : DataInv c0) (hp0 : ProdInv c0) (h0 : TagInv c0)
    (h : Reachable c0 c) : TagInv c := by
  induction h with
  | init => exact h0
  | step hr hs ih =>
    exact tagInv_step (dataInv_reachable hd0 hr) (prodInv_reachable hd0 hp0 hr) ih hs

/-- **One producer, one consumer.**  In every reachable configuration of a queue with exactly one
producer (thread 0, source `src`) and one other thread that is not a producer (any consumer loop),
whatever the capacity, timeout setting, batch size and schedule: if the producer has put as many
elements as its source has values and the consumer has received as many as were put, then the
consumer received exactly the source's values, in order. -/
theorem single_consumer_delivery {cap : Nat} {to ig : Bool} {src : List Item} {r : Nat} {cons : Prog}
    (hcons : cons.kind ≠ .producer) {c : Cfg}
    (h : Reachable (init cap 1 to ig [.producer src r, cons]) c) {t : Thread}
    (ht : c.ths[1]? = some t)
    (hall : c.sh.produced.length = (vals src).length)
    (hdel : t.received.length = c.sh.produced.length) :
    t.received.map (·.2) = vals src := by
  have hd0 := dataInv_init cap 1 to ig [.producer src r, cons]
  have hp0 := prodInv_init cap 1 to ig [.producer src r, cons]
  have hd := dataInv_reachable hd0 h
  have hp := prodInv_reachable hd0 hp0 h
  have hg := progInv_reachable hd0 (progInv_init cap 1 to ig _) h
  have htag := tagInv_reachable hd0 hp0 (tagInv_init cap 1 to ig _) h
  -- FIFO: received is a subsequence of produced, of the same length
  have htm : t ∈ c.ths := List.mem_of_getElem? ht
  have hsub : t.received.Sublist c.sh.produced := by
    have h1 : t.received.Sublist (seqOf t) := by
      unfold seqOf; rw [List.append_assoc]; exact List.sublist_append_left _ _
    have h2 : c.sh.dequeued.Sublist c.sh.produced := by
      rw [hd.fifo]; exact List.sublist_append_left _ _
    exact (h1.trans (hd.sub t htm)).trans h2
  have heq : t.received = c.sh.produced := hsub.eq_of_length hdel
  -- the threads: [producer, cons]
  have hlen : c.ths.length = 2 := by
    have := congrArg List.length hg; simpa using this
  obtain ⟨t0, ht0⟩ : ∃ t0, c.ths[0]? = some t0 := by
    refine ⟨c.ths[0]'(by omega), by simp⟩
  have hprog0 : t0.prog = .producer src r := by
    have := congrArg (·[0]?) hg
    simp only [List.getElem?_map, ht0, Option.map_some, List.getElem?_cons_zero] at this
    exact Option.some.inj this
  have hprog1 : t.prog = cons := by
    have := congrArg (·[1]?) hg
    simp only [List.getElem?_map, ht, Option.map_some, List.getElem?_cons_succ,
      List.getElem?_cons_zero] at this
    exact Option.some.inj this
  -- every element was put by thread 0
  have hall0 : ∀ e ∈ c.sh.produced, e.1 = 0 := by
    intro e he
    obtain ⟨u, hu, hk⟩ := htag e he
    have hlt : e.1 < 2 := by
      obtain ⟨hl, _⟩ := List.getElem?_eq_some_iff.mp hu
      rw [hlen] at hl; exact hl
    rcases Nat.lt_or_ge e.1 1 with h0 | h1
    · exact Nat.lt_one_iff.mp h0
    · have he1 : e.1 = 1 := Nat.le_antisymm (Nat.le_of_lt_succ hlt) h1
      rw [he1, ht] at hu
      have : u = t := (Option.some.inj hu).symm
      rw [this, hprog1] at hk
      exact absurd hk hcons
  have hpb : producedBy 0 c.sh.produced = c.sh.produced.map (·.2) := producedBy_all hall0
  have hord := hp.order 0 t0 src r ht0 hprog0
  have hs2 : (c.sh.produced.map (·.2)).Sublist (vals src) := by
    rw [← hpb]; exact (List.sublist_append_left _ _).trans hord
  rw [heq]
  exact hs2.eq_of_length (by simpa using hall)

variable {E : Type}

/-- `zs` is what the next stage's iterator has dequeued from a stage's `result_q` in some reachable
configuration of the queue LTS — any capacity, any timeout setting, any consumer loop (`get` or
`get_batch` of any batch size), any schedule — with exactly one producer enqueueing the stream `ys`
(the queue transports the positions `0..len-1`), once everything was put and everything put was
delivered. -/
def QueueDelivers (ys zs : List E) : Prop :=
  ∃ (cap : Nat) (to ig : Bool) (r : Nat) (cons : Prog) (c : Cfg) (t : Thread),
    cons.kind ≠ .producer ∧
    Reachable (init cap 1 to ig [.producer ((List.range ys.length).map .val) r, cons]) c ∧
    c.ths[1]? = some t ∧ c.sh.produced.length = ys.length ∧ t.received.length = c.sh.produced.length ∧
    zs = (t.received.map (·.2)).filterMap (ys[·]?)

theorem vals_range (n : Nat) : vals ((List.range n).map .val) = List.range n := by
  unfold vals
  rw [List.filterMap_map]
  show List.filterMap some (List.range n) = List.range n
  exact List.filterMap_some

theorem filterMap_range'_getElem? (pre ys : List E) :
    (List.range' pre.length ys.length).filterMap ((pre ++ ys)[·]?) = ys := by
  induction ys generalizing pre with
  | nil => rfl
  | cons y ys ih =>
    simp only [List.length_cons, List.range'_succ, List.filterMap_cons]
    have h1 : (pre ++ y :: ys)[pre.length]? = some y := by simp
    rw [h1]
    have := ih (pre ++ [y])
    simp only [List.length_append, List.length_cons, List.length_nil, Nat.zero_add,
      List.append_assoc, List.cons_append, List.nil_append] at this
    rw [this]

end MlModel.Queue
