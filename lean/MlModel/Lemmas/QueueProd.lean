import MlModel.Lemmas.QueueInv
/-!
# Producers enqueue their source in order

`todoV t`: the values a producer still has to enqueue (the pending one first).  One step either
moves the head of `todoV` into the queue or shrinks `todoV` (a value is only dropped when
enqueueing is already done).  Hence the values a producer has enqueued, followed by `todoV`, is
always a subsequence of its source.
-/
namespace MlModel.Queue

def pendPc : Pc → Bool
  | .pAcq | .pPut | .pWait | .pWake => true
  | _ => false

def vals (src : List Item) : List Nat :=
  src.filterMap fun | .val v => some v | .fail => none

def todoV (t : Thread) : List Nat :=
  match t.prog with
  | .producer src _ =>
    if t.pc = .start then vals src else (if pendPc t.pc then [t.v.2] else []) ++ vals t.src
  | _ => []

def ProdStep (s : Shared) (t : Thread) (tid : Tid) (alt : Bool) : Prop :=
  ∀ lbl s' t', stepThread s t tid alt = some (lbl, s', t') → TOK t → (pendPc t.pc = true → t.v.1 = tid) →
    (pendPc t'.pc = true → t'.v.1 = tid) ∧ (∀ e ∈ newOf s t, e.1 = tid) ∧
    ((newOf s t).map (·.2) ++ todoV t').Sublist (todoV t)

set_option hygiene false in
macro "prod_group" : tactic => `(tactic| (
  intro lbl s' t' h htok htag
  have hk := htok.kind
  clear htok
  unfold stepThread at h
  cases hpc : t.pc <;> (try (simp only [hpc, Pc.group] at hg; omega)) <;>
    simp only [hpc] at h htag hk <;>
    (try simp only [acquire, release, notify, waitPark, waitWake, goto, enqLoop, putLoop, batchLoop,
      afterRaise, afterValue] at h) <;>
    (repeat' split at h) <;>
    (try simp only [Option.some.injEq, Prod.mk.injEq, reduceCtorEq] at h) <;>
    (try (obtain ⟨-, rfl, rfl⟩ := h)) <;>
    (refine ⟨?_, ?_, ?_⟩) <;>
    (try (cases hprog : t.prog)) <;>
    simp_all [pendPc, newOf, todoV, vals, hpc, pcKind, Prog.kind]))

theorem prod_g0 {s t tid alt} (hg : t.pc.group = 0) : ProdStep s t tid alt := by prod_group
theorem prod_g1 {s t tid alt} (hg : t.pc.group = 1) : ProdStep s t tid alt := by prod_group
theorem prod_g2 {s t tid alt} (hg : t.pc.group = 2) : ProdStep s t tid alt := by prod_group
theorem prod_g3 {s t tid alt} (hg : t.pc.group = 3) : ProdStep s t tid alt := by prod_group
theorem prod_g4 {s t tid alt} (hg : t.pc.group = 4) : ProdStep s t tid alt := by prod_group
theorem prod_g5 {s t tid alt} (hg : t.pc.group = 5) : ProdStep s t tid alt := by prod_group
theorem prod_g6 {s t tid alt} (hg : t.pc.group = 6) : ProdStep s t tid alt := by prod_group
theorem prod_g7 {s t tid alt} (hg : t.pc.group = 7) : ProdStep s t tid alt := by prod_group

end MlModel.Queue

namespace MlModel.Queue

theorem stepThread_prod {s t tid alt} : ProdStep s t tid alt := by
  have h := Pc.group_lt t.pc
  match hg : t.pc.group with
  | 0 => exact prod_g0 hg | 1 => exact prod_g1 hg | 2 => exact prod_g2 hg | 3 => exact prod_g3 hg
  | 4 => exact prod_g4 hg | 5 => exact prod_g5 hg | 6 => exact prod_g6 hg | 7 => exact prod_g7 hg
  | n + 8 => omega

/-- the values enqueued by thread `tid`, in enqueue order -/
def producedBy (tid : Tid) (l : List Elem) : List Nat := (l.filter (·.1 == tid)).map (·.2)

theorem producedBy_append (tid : Tid) (a b : List Elem) :
    producedBy tid (a ++ b) = producedBy tid a ++ producedBy tid b := by
  simp [producedBy]

theorem producedBy_all {tid : Tid} {b : List Elem} (h : ∀ e ∈ b, e.1 = tid) :
    producedBy tid b = b.map (·.2) := by
  simp only [producedBy]
  congr 1
  exact List.filter_eq_self.mpr (by intro e he; simp [h e he])

theorem producedBy_none {tid u : Tid} {b : List Elem} (h : ∀ e ∈ b, e.1 = tid) (hu : u ≠ tid) :
    producedBy u b = [] := by
  simp only [producedBy, List.map_eq_nil_iff, List.filter_eq_nil_iff]
  intro e he
  have := h e he
  simp [this, Ne.symm hu]

structure ProdInv (c : Cfg) : Prop where
  tag : ∀ (tid : Tid) (t : Thread), c.ths[tid]? = some t → pendPc t.pc = true → t.v.1 = tid
  order : ∀ (tid : Tid) (t : Thread) (src : List Item) (r : Nat), c.ths[tid]? = some t → t.prog = .producer src r →
    (producedBy tid c.sh.produced ++ todoV t).Sublist (vals src)

theorem prodInv_init (cap maxEnq : Nat) (to ig : Bool) (progs : List Prog) :
    ProdInv (init cap maxEnq to ig progs) := by
  constructor
  · intro tid t ht hp
    simp only [init, List.getElem?_map, Option.map_eq_some_iff] at ht
    obtain ⟨p, _, rfl⟩ := ht
    simp [pendPc] at hp
  · intro tid t src r ht hprog
    simp only [init, List.getElem?_map, Option.map_eq_some_iff] at ht
    obtain ⟨p, _, rfl⟩ := ht
    simp only at hprog
    subst hprog
    simp [init, producedBy, todoV]

theorem prodInv_step {c c' : Cfg} {tid alt lbl} (hd : DataInv c) (hi : ProdInv c)
    (h : step c tid alt = some (lbl, c')) : ProdInv c' := by
  obtain ⟨t, s', t', ht, hst, rfl⟩ := step_inv h
  have htid : tid < c.ths.length := by
    rcases List.getElem?_eq_some_iff.mp ht with ⟨h1, _⟩; exact h1
  have htmem : t ∈ c.ths := List.mem_of_getElem? ht
  obtain ⟨_, hprog, _, _, hpr, _, _⟩ := stepThread_data lbl s' t' hst (hd.tok t htmem)
  obtain ⟨htag', hnew, hsub⟩ := stepThread_prod lbl s' t' hst (hd.tok t htmem) (hi.tag tid t ht)
  constructor
  · intro u tu hu hp
    by_cases hut : u = tid
    · subst hut
      simp only [List.getElem?_set_self htid, Option.some.injEq] at hu
      subst hu; exact htag' hp
    · rw [List.getElem?_set_ne (Ne.symm hut)] at hu
      exact hi.tag u tu hu hp
  · intro u tu src r hu hpu
    show (producedBy u s'.produced ++ todoV tu).Sublist (vals src)
    rw [hpr, producedBy_append]
    by_cases hut : u = tid
    · subst hut
      simp only [List.getElem?_set_self htid, Option.some.injEq] at hu
      subst hu
      rw [producedBy_all hnew, List.append_assoc]
      rw [hprog] at hpu
      exact (List.Sublist.append (List.Sublist.refl _) hsub).trans (hi.order u t src r ht hpu)
    · rw [List.getElem?_set_ne (Ne.symm hut)] at hu
      rw [producedBy_none hnew hut, List.append_nil]
      exact hi.order u tu src r hu hpu

theorem prodInv_reachable {c0 c : Cfg} (hd0 : DataInv c0) (h0 : ProdInv c0) (h : Reachable c0 c) :
    ProdInv c := by
  induction h with
  | init => exact h0
  | step hr hs ih => exact prodInv_step (dataInv_reachable hd0 hr) ih hs

end MlModel.Queue
