import MlModel.Lemmas.Piter2EndStep
import MlModel.Lemmas.Piter2Sig
/-!
# Two-queue LTS: inversion of `step` — every step is one of a few explicit shapes

The model restated as disjunctions (one per role), so that invariant proofs can `rcases` a step instead of re-splitting
`stepL1 / stepL2 / stepCons`.
-/
namespace MlModel.Piter2
open MlModel.Queue

variable {F : Nat → Option (List Nat)}

/-- the shapes of a step of a second-level task -/
inductive L2Shape (F : Nat → Option (List Nat)) (c : Cfg) (tid : Tid) (t : Th) (alt : Bool) (c' : Cfg) : Prop where
  /-- the pool lets the task start -/
  | start : t.b.pc = .start → c' = c.setTh tid { t with b := { t.b with pc := .sAcq } } → L2Shape F c tid t alt c'
  /-- `acquire lock1`, a value is in the shared cache -/
  | hit (v : Elem) (rest : List Elem) : t.b.pc = .eNext → t.x = .lockAcq → c.ilock = none → c.cache = v :: rest →
      c' = { c with ilock := some tid, cache := rest, ths := c.ths.set tid { t with hand := .item v.2, x := .lockRel } } →
      L2Shape F c tid t alt c'
  /-- `acquire lock1`, the cache is empty: a `Q1.get_batch()` begins -/
  | miss : t.b.pc = .eNext → t.x = .lockAcq → c.ilock = none → c.cache = [] →
      c' = { c with ilock := some tid,
                    ths := c.ths.set tid { t with a := { t.a with pc := .bAcq, prog := .batchLoop c.bm1 false, result := [] }, x := .deq } } →
      L2Shape F c tid t alt c'
  /-- a step inside `Q1.get_batch()` that does not end it -/
  | deq (l : String) (s1' : Shared) (a' : Queue.Thread) : t.b.pc = .eNext → t.x = .deq →
      stepThread c.s1 t.a tid alt = some (l, s1', a') → batchEnd t.a.pc t.a.result a' c.cache = none →
      c' = { c with s1 := s1', ths := c.ths.set tid { t with a := a' } } → L2Shape F c tid t alt c'
  /-- the last step of `Q1.get_batch()` -/
  | deqEnd (l : String) (s1' : Shared) (a' : Queue.Thread) (hd : Hand) (cache' : List Elem) : t.b.pc = .eNext →
      t.x = .deq → stepThread c.s1 t.a tid alt = some (l, s1', a') →
      batchEnd t.a.pc t.a.result a' c.cache = some (hd, cache') →
      c' = { c with s1 := s1', cache := cache', ths := c.ths.set tid { t with a := a', hand := hd, x := .lockRel } } →
      L2Shape F c tid t alt c'
  /-- `release lock1` and the thread-local continuation -/
  | rel : t.b.pc = .eNext → t.x = .lockRel → c.ilock = some tid →
      c' = { c with s2 := (afterPull F c.fwd tid c.s2 t t.hand).1, ilock := none,
                    ths := c.ths.set tid (afterPull F c.fwd tid c.s2 t t.hand).2 } → L2Shape F c tid t alt c'
  /-- a step of the upstream stop -/
  | up (l : String) (s1' : Shared) (a' : Queue.Thread) : t.b.pc = .done → t.x = .up →
      stepThread c.s1 t.a tid alt = some (l, s1', a') →
      c' = { c with s1 := s1',
                    ths := c.ths.set tid { t with a := a', x := (if a'.pc == .done then XPc.idle else XPc.up) } } →
      L2Shape F c tid t alt c'
  /-- a step on the output queue -/
  | qb (l : String) (s2' : Shared) (b' : Queue.Thread) : t.b.pc ≠ .start → t.b.pc ≠ .eNext → t.b.pc ≠ .done →
      stepThread c.s2 t.b tid alt = some (l, s2', b') →
      c' = { c with s2 := s2', ths := c.ths.set tid (postProd tid t s2' b') } → L2Shape F c tid t alt c'

theorem stepL2_shape {c c' : Cfg} {tid : Tid} {t : Th} {alt : Bool} {lbl : String}
    (h : stepL2 F c tid t alt = some (lbl, c')) : L2Shape F c tid t alt c' := by
  unfold stepL2 at h
  split at h
  · rename_i hpc
    (repeat' split at h) <;> simp only [Option.some.injEq, Prod.mk.injEq, reduceCtorEq] at h
    obtain ⟨-, rfl⟩ := h
    exact .start hpc rfl
  · rename_i hpc
    split at h
    · rename_i hx
      (repeat' split at h) <;> simp only [Option.some.injEq, Prod.mk.injEq, reduceCtorEq] at h
      · obtain ⟨-, rfl⟩ := h
        exact .hit _ _ hpc hx (by assumption) (by assumption) rfl
      · obtain ⟨-, rfl⟩ := h
        exact .miss hpc hx (by assumption) (by assumption) rfl
    · rename_i hx
      split at h
      · simp at h
      · rename_i l s1' a' hst
        split at h
        · rename_i hbe
          simp only [Option.some.injEq, Prod.mk.injEq] at h
          obtain ⟨-, rfl⟩ := h
          exact .deq l s1' a' hpc hx hst hbe rfl
        · rename_i hd cache' hbe
          simp only [Option.some.injEq, Prod.mk.injEq] at h
          obtain ⟨-, rfl⟩ := h
          exact .deqEnd l s1' a' hd cache' hpc hx hst hbe rfl
    · rename_i hx
      (repeat' split at h) <;> simp only [Option.some.injEq, Prod.mk.injEq, reduceCtorEq] at h
      rename_i hil
      obtain ⟨-, rfl⟩ := h
      exact .rel hpc hx (by simpa using hil) rfl
    · simp at h
  · rename_i hpc
    split at h
    · rename_i hx
      split at h
      · simp at h
      · rename_i l s1' a' hst
        simp only [Option.some.injEq, Prod.mk.injEq] at h
        obtain ⟨-, rfl⟩ := h
        exact .up l s1' a' hpc hx hst rfl
    · simp at h
  · rename_i h1 h2 h3
    split at h
    · simp at h
    · rename_i l s2' b' hst
      simp only [Option.some.injEq, Prod.mk.injEq] at h
      obtain ⟨-, rfl⟩ := h
      exact .qb l s2' b' (fun e => h1 e) (fun e => h2 e) (fun e => h3 e) hst rfl

/-- the shapes of a step of a first-level task -/
inductive L1Shape (c : Cfg) (tid : Tid) (t : Th) (alt : Bool) (c' : Cfg) : Prop where
  /-- the input iterator ends: `StopIteration(ret, *more)` -/
  | stop : t.a.pc = .eNext → t.a.src = [] →
      c' = c.setTh tid { t with a := { t.a with pc := .tAcq, rets := retOf t.a :: t.more, reraise := none } } →
      L1Shape c tid t alt c'
  /-- a step on the input queue -/
  | qa (l : String) (s1' : Shared) (a' : Queue.Thread) (pulled' emitted' : List Nat) :
      (t.a.pc = .eNext → t.a.src ≠ []) → stepThread c.s1 t.a tid alt = some (l, s1', a') →
      c' = { c with s1 := s1', ths := c.ths.set tid { t with a := a', pulled := pulled', emitted := emitted' } } →
      L1Shape c tid t alt c'

theorem stepL1_shape {c c' : Cfg} {tid : Tid} {t : Th} {alt : Bool} {lbl : String}
    (h : stepL1 c tid t alt = some (lbl, c')) : L1Shape c tid t alt c' := by
  unfold stepL1 at h
  split at h
  · rename_i hpc
    (repeat' split at h) <;> simp only [Option.some.injEq, Prod.mk.injEq, reduceCtorEq] at h
    rename_i l s1' a' hst
    obtain ⟨-, rfl⟩ := h
    exact .qa l s1' a' t.pulled t.emitted (fun e => by rw [hpc] at e; cases e) hst rfl
  · rename_i hpc
    split at h
    · simp at h
    split at h
    · rename_i hsrc
      simp only [Option.some.injEq, Prod.mk.injEq] at h
      obtain ⟨-, rfl⟩ := h
      exact .stop hpc hsrc rfl
    · rename_i i rest hsrc
      split at h
      · simp at h
      · rename_i l s1' a' hst
        simp only [Option.some.injEq, Prod.mk.injEq] at h
        obtain ⟨-, rfl⟩ := h
        exact .qa l s1' a' _ t.emitted (fun _ => by rw [hsrc]; simp) hst rfl
  · rename_i h1 h2
    split at h
    · simp at h
    · rename_i l s1' a' hst
      simp only [Option.some.injEq, Prod.mk.injEq] at h
      obtain ⟨-, rfl⟩ := h
      exact .qa l s1' a' t.pulled _ (fun e => absurd e h2) hst rfl

/-- the shapes of a step of the caller -/
inductive ConsShape (c : Cfg) (tid : Tid) (t : Th) (alt : Bool) (c' : Cfg) : Prop where
  /-- `start`, `submit`, `shutdown`: no queue is touched; the caller's parts change only through `beginIter` -/
  | loc (t' : Th) (ns : Nat) : (t.cpc = .boot ∨ t.cpc = .submit ∨ t.cpc = .shutdown) →
      (t' = beginIter c t ∨ (t'.a = t.a ∧ t'.b = t.b ∧ t'.early = t.early ∧ t'.iterOutcome = t.iterOutcome ∧
        t'.cpc ≠ .upstop ∧ t'.role = t.role)) →
      c' = { c with nsub := ns, ths := c.ths.set tid t' } → ConsShape c tid t alt c'
  /-- a step of the iteration over the output queue -/
  | iter (l : String) (s2' : Shared) (b' : Queue.Thread) : t.cpc = .iter →
      stepThread c.s2 t.b tid alt = some (l, s2', b') →
      c' = { c with s2 := (afterIter c t.b.pc s2' { t with b := b' }).1,
                    ths := c.ths.set tid (afterIter c t.b.pc s2' { t with b := b' }).2 } → ConsShape c tid t alt c'
  /-- a step of `Q2.maybe_stop()` -/
  | stopping (l : String) (s2' : Shared) (b' : Queue.Thread) (t' : Th) : t.cpc = .stopping →
      stepThread c.s2 t.b tid alt = some (l, s2', b') →
      (t' = { t with b := b' } ∨ t' = { t with b := b', a := stopperAt t.a, cpc := .upstop } ∨
        t' = { t with b := b', cpc := .shutdown }) →
      c' = { c with s2 := s2', ths := c.ths.set tid t' } → ConsShape c tid t alt c'
  /-- a step of the upstream stop -/
  | upstop (l : String) (s1' : Shared) (a' : Queue.Thread) : t.cpc = .upstop →
      stepThread c.s1 t.a tid alt = some (l, s1', a') →
      c' = { c with s1 := s1',
                    ths := c.ths.set tid { t with a := a', cpc := (if a'.pc == .done then CPc.shutdown else CPc.upstop) } } →
      ConsShape c tid t alt c'

theorem stepCons_shape {c c' : Cfg} {tid : Tid} {t : Th} {alt : Bool} {lbl : String}
    (h : stepCons c tid t alt = some (lbl, c')) : ConsShape c tid t alt c' := by
  unfold stepCons at h
  split at h
  · simp at h
  · rename_i hc
    (repeat' split at h) <;> simp only [Option.some.injEq, Prod.mk.injEq, reduceCtorEq] at h <;>
      obtain ⟨-, rfl⟩ := h
    · exact .loc (beginIter c t) c.nsub (.inl hc) (.inl rfl) rfl
    · exact .loc { t with cpc := .submit } c.nsub (.inl hc) (.inr ⟨rfl, rfl, rfl, rfl, by simp, rfl⟩) rfl
  · rename_i hc
    split at h
    · simp at h
    simp only [Option.some.injEq, Prod.mk.injEq] at h
    obtain ⟨-, rfl⟩ := h
    refine .loc _ (c.nsub + 1) (.inr (.inl hc)) ?_ rfl
    split
    · exact .inl rfl
    · exact .inr ⟨rfl, rfl, rfl, rfl, by rw [hc]; simp, rfl⟩
  · rename_i hc
    split at h
    · simp at h
    · rename_i l s2' b' hst
      simp only [Option.some.injEq, Prod.mk.injEq] at h
      obtain ⟨-, rfl⟩ := h
      exact .iter l s2' b' hc hst rfl
  · rename_i hc
    split at h
    · simp at h
    · rename_i l s2' b' hst
      simp only [Option.some.injEq, Prod.mk.injEq] at h
      obtain ⟨-, rfl⟩ := h
      refine .stopping l s2' b' _ hc hst ?_ rfl
      (repeat' split) <;> first | exact .inl rfl | exact .inr (.inl rfl) | exact .inr (.inr rfl)
  · rename_i hc
    split at h
    · simp at h
    · rename_i l s1' a' hst
      simp only [Option.some.injEq, Prod.mk.injEq] at h
      obtain ⟨-, rfl⟩ := h
      exact .upstop l s1' a' hc hst rfl
  · rename_i hc
    (repeat' split at h) <;> simp only [Option.some.injEq, Prod.mk.injEq, reduceCtorEq] at h
    obtain ⟨-, rfl⟩ := h
    exact .loc { t with cpc := .fin } c.nsub (.inr (.inr hc)) (.inr ⟨rfl, rfl, rfl, rfl, by simp, rfl⟩) rfl

/-- inversion of `step` -/
theorem step_shape {c c' : Cfg} {tid : Tid} {alt : Bool} {lbl : String} (h : step F c tid alt = some (lbl, c')) :
    ∃ t, c.ths[tid]? = some t ∧
      ((t.role = .cons ∧ ConsShape c tid t alt c') ∨ (t.role = .l1 ∧ L1Shape c tid t alt c') ∨
       (t.role = .l2 ∧ L2Shape F c tid t alt c')) := by
  unfold step at h
  split at h
  · simp at h
  · rename_i t ht
    refine ⟨t, ht, ?_⟩
    split at h
    · rename_i hr; exact .inl ⟨hr, stepCons_shape h⟩
    · rename_i hr; exact .inr (.inl ⟨hr, stepL1_shape h⟩)
    · rename_i hr; exact .inr (.inr ⟨hr, stepL2_shape h⟩)

end MlModel.Piter2
