import MlModel.Lemmas.Piter2Anat
/-!
# Two-queue LTS: what holds at the END of a run in which the INPUT queue neither failed nor was stopped

`End1 c`, an invariant of every reachable configuration:
* (`cdeq`) while a second-level task is inside `Q1.get_batch()` the shared cache of `DequeueIterator(Q1)` is empty;
* while `Q1` has no recorded failure and no stop request (`Clean c.s1`):
  (`lost`) no `get_batch` has dropped anything, (`qe`) `exhausted ⇒ queue empty`,
  (`seen`) once some task has seen the `StopIteration` of `Q1`: `Q1` is exhausted, the cache is EMPTY, and a task inside
  a later `get_batch` holds nothing (later calls dequeue nothing),
  (`src`) a first-level task inside / past `_stop_enqueue` has read ALL of its input.
-/
namespace MlModel.Queue

/-- `exhausted ⇒ queue empty` is preserved by a step on a queue that has neither failed nor been stopped -/
theorem qe_step {qc : Cfg} {tid : Tid} {v t t' : Thread} {alt : Bool} {l : String} {s' : Shared}
    (hv : Live qc) (hq : qc.ths[tid]? = some v) (hpc : v.pc = t.pc) (hprog : v.prog = t.prog) (htok : TOK t)
    (hto : qc.sh.timeout = false) (hst : stepThread qc.sh t tid alt = some (l, s', t'))
    (hqe : qc.sh.exhausted = true → qc.sh.q = []) (hc : Piter2.Clean qc.sh) (he : s'.exhausted = true) : s'.q = [] := by
  obtain ⟨c1, c2, -⟩ := stepThread_close l s' t' hst htok hto
  have hvm := List.mem_of_getElem? hq
  rcases c2 he with h | h | h
  · by_cases hp : t.pc = .pPut
    · exfalso
      have hk := htok.kind .producer (by rw [hp]; rfl)
      exact Piter2.not_done_by_count hv hq (by simp [isProd, hprog, hk]) (by simp [pastT, hpc, hp]) (hv.base.i3 h) hc
    · exact c1 hp (hqe h)
  · exact h.1
  · exfalso
    have := (hv.base.xok v hvm).2.1 (by rw [hpc, h])
    rw [hc.2] at this; cases this

end MlModel.Queue

namespace MlModel.Piter2
open MlModel.Queue

variable {F : Nat → Option (List Nat)}

/-- thread-local: a `get_batch` about to raise `StopIteration` holds no partial result -/
def AXl (q : Queue.Thread) : Prop := q.pc = .bRaise → q.x.isErr = false → q.result = []

theorem axl_of_pc {q : Queue.Thread} (h : q.pc ≠ .bRaise) : AXl q := fun e => absurd e h

theorem axl_inert : AXl inertT := axl_of_pc (by simp [inertT])

/-- some second-level task has seen the end of the input queue -/
def Seen (c : Cfg) : Prop := ∃ t ∈ c.ths, t.role = .l2 ∧ stopSeen t = true

structure End1 (c : Cfg) : Prop where
  cdeq : ∀ t ∈ c.ths, t.role = .l2 → t.x = .deq → c.cache = []
  axl : ∀ t ∈ c.ths, AXl (v1 t)
  lost : Clean c.s1 → c.s1.lost = []
  qe : Clean c.s1 → c.s1.exhausted = true → c.s1.q = []
  seen : Clean c.s1 → Seen c → c.s1.exhausted = true ∧ c.cache = [] ∧
    ∀ u ∈ c.ths, u.role = .l2 → u.x = .deq → u.a.result = [] ∧ inHandPc u.a.pc = false
  src : Clean c.s1 → ∀ t ∈ c.ths, t.role = .l1 → (tRegion t.a.pc = true ∨ t.a.pc = .done) → t.a.src = []

theorem seen_set {c c'' : Cfg} {tid : Tid} {t t' : Th} (ht : c.ths[tid]? = some t)
    (hths : c''.ths = c.ths.set tid t') (hr : t'.role = t.role)
    (hs : t.role = .l2 → stopSeen t' = true → stopSeen t = true) : Seen c'' → Seen c := by
  rintro ⟨w, hw, hwr, hws⟩
  rw [hths] at hw
  rcases List.mem_or_eq_of_mem_set hw with hw | rfl
  · exact ⟨w, hw, hwr, hws⟩
  · exact ⟨t, List.mem_of_getElem? ht, by rw [← hr]; exact hwr, hs (by rw [← hr]; exact hwr) hws⟩

/-- a step that leaves the input queue and the cache alone -/
theorem end1_local {c : Cfg} {tid : Tid} {t t' : Th} {s2' : Shared} {il : Option Tid} {ns : Nat}
    (he : End1 c) (ht : c.ths[tid]? = some t) (hr : t'.role = t.role)
    (hx : t.role = .l2 → t'.x = .deq → t.x = .deq ∧ t'.a = t.a)
    (hseen : t.role = .l2 → stopSeen t' = true → stopSeen t = true)
    (hpc : (v1 t').pc ≠ .bRaise)
    (hsrc : t.role = .l1 → (tRegion t'.a.pc = true ∨ t'.a.pc = .done) →
      t'.a.src = [] ∨ ((tRegion t.a.pc = true ∨ t.a.pc = .done) ∧ t'.a.src = t.a.src)) :
    End1 { c with s2 := s2', ths := c.ths.set tid t', ilock := il, nsub := ns } := by
  have htm := List.mem_of_getElem? ht
  have hseen' : Seen { c with s2 := s2', ths := c.ths.set tid t', ilock := il, nsub := ns } → Seen c := by
    rintro ⟨w, hw, hwr, hws⟩
    rcases List.mem_or_eq_of_mem_set hw with hw | rfl
    · exact ⟨w, hw, hwr, hws⟩
    · exact ⟨t, htm, by rw [← hr]; exact hwr, hseen (by rw [← hr]; exact hwr) hws⟩
  refine ⟨?_, ?_, he.lost, he.qe, ?_, ?_⟩
  · intro u hu hur hux
    rcases List.mem_or_eq_of_mem_set hu with hu | rfl
    · exact he.cdeq u hu hur hux
    · exact he.cdeq t htm (by rw [← hr]; exact hur) (hx (by rw [← hr]; exact hur) hux).1
  · intro u hu
    rcases List.mem_or_eq_of_mem_set hu with hu | rfl
    · exact he.axl u hu
    · exact axl_of_pc hpc
  · intro hc hs
    obtain ⟨h1, h2, h3⟩ := he.seen hc (hseen' hs)
    refine ⟨h1, h2, fun u hu hur hux => ?_⟩
    rcases List.mem_or_eq_of_mem_set hu with hu | rfl
    · exact h3 u hu hur hux
    · have hur' : t.role = .l2 := by rw [← hr]; exact hur
      have := h3 t htm hur' (hx hur' hux).1
      rw [(hx hur' hux).2]; exact this
  · intro hc u hu hur hreg
    rcases List.mem_or_eq_of_mem_set hu with hu | rfl
    · exact he.src hc u hu hur hreg
    · have hr1 : t.role = .l1 := by rw [← hr]; exact hur
      rcases hsrc hr1 hreg with h | ⟨h1, h2⟩
      · exact h
      · rw [h2]; exact he.src hc t htm hr1 h1

/-- a `Queue.stepThread` step of the thread's part on the INPUT queue that is not the end of a `get_batch` of a
second-level task -/
theorem end1_q1 {c : Cfg} {tid : Tid} {t t' : Th} {alt : Bool} {l : String} {s1' : Shared} {a' : Queue.Thread}
    (hg : Good c) (he : End1 c) (ht : c.ths[tid]? = some t) (hv : v1 t = t.a)
    (hst : stepThread c.s1 t.a tid alt = some (l, s1', a')) (hr : t'.role = t.role) (ha : t'.a = a')
    (hv' : v1 t' = a' ∨ v1 t' = inertT) (hx : t.role = .l2 → t'.x = .deq → t.x = .deq)
    (hseen : t.role = .l2 → stopSeen t' = true → stopSeen t = true)
    (hsrc : t.role = .l1 → Clean s1' → (tRegion a'.pc = true ∨ a'.pc = .done) → a'.src = []) :
    End1 { c with s1 := s1', ths := c.ths.set tid t' } := by
  have htm := List.mem_of_getElem? ht
  have hq1 := q1_get ht
  rw [hv] at hq1
  have htok : TOK t.a := hg.live1.base.tok t.a (List.mem_of_getElem? hq1)
  have hxok := hg.live1.base.xok t.a (List.mem_of_getElem? hq1)
  have hstk := sticky_of_stepThread hst
  obtain ⟨c1, c2, c3, c4, c5, c6, c7, c8, -⟩ := stepThread_close l s1' a' hst htok hg.inv.to1
  have hseen' : Seen { c with s1 := s1', ths := c.ths.set tid t' } → Seen c := by
    rintro ⟨w, hw, hwr, hws⟩
    rcases List.mem_or_eq_of_mem_set hw with hw | rfl
    · exact ⟨w, hw, hwr, hws⟩
    · exact ⟨t, htm, by rw [← hr]; exact hwr, hseen (by rw [← hr]; exact hwr) hws⟩
  refine ⟨?_, ?_, ?_, ?_, ?_, ?_⟩
  · intro u hu hur hux
    rcases List.mem_or_eq_of_mem_set hu with hu | rfl
    · exact he.cdeq u hu hur hux
    · exact he.cdeq t htm (by rw [← hr]; exact hur) (hx (by rw [← hr]; exact hur) hux)
  · intro u hu
    rcases List.mem_or_eq_of_mem_set hu with hu | rfl
    · exact he.axl u hu
    · rcases hv' with h | h
      · rw [h]; exact c5
      · rw [h]; exact axl_inert
  · intro hc
    have hc0 := clean_of_sticky hstk hc
    show s1'.lost = []
    rw [c3, he.lost hc0]
    split
    · rename_i hb
      have hax := he.axl t htm
      rw [hv] at hax
      refine hax hb ?_
      cases hxe : t.a.x.isErr with
      | false => rfl
      | true =>
        exfalso
        rcases hxok.2.2.1 (by rw [hb]) hxe with h | h
        · have h' : c.s1.exc.isSome = true := h
          rw [hc0.1] at h'; cases h'
        · have h' : c.s1.timeout = true := h
          rw [hg.inv.to1] at h'; cases h'
    · rfl
  · intro hc hex
    have hc0 := clean_of_sticky hstk hc
    exact qe_step hg.live1 hq1 rfl rfl htok hg.inv.to1 hst (he.qe hc0) hc0 hex
  · intro hc hs
    have hc0 := clean_of_sticky hstk hc
    obtain ⟨h1, h2, h3⟩ := he.seen hc0 (hseen' hs)
    refine ⟨hstk.2.2 h1, h2, fun u hu hur hux => ?_⟩
    rcases List.mem_or_eq_of_mem_set hu with hu | rfl
    · exact h3 u hu hur hux
    · have := h3 t htm (by rw [← hr]; exact hur) (hx (by rw [← hr]; exact hur) hux)
      rw [ha]
      exact c8 (he.qe hc0 h1) this.1 this.2
  · intro hc u hu hur hreg
    rcases List.mem_or_eq_of_mem_set hu with hu | rfl
    · exact he.src (clean_of_sticky hstk hc) u hu hur hreg
    · rw [ha] at hreg ⊢
      exact hsrc (by rw [← hr]; exact hur) hc hreg

theorem beginIter_ax (c : Cfg) (t : Th) : (beginIter c t).x = t.x ∧ (beginIter c t).a = t.a := by
  unfold beginIter; split <;> exact ⟨rfl, rfl⟩

theorem afterIter_ax (c : Cfg) (pc : Pc) (s : Shared) (t : Th) :
    (afterIter c pc s t).2.x = t.x ∧ (afterIter c pc s t).2.a = t.a := by
  unfold afterIter; (repeat' split) <;> exact ⟨rfl, rfl⟩

theorem afterPull_x (fwd : Bool) (tid : Tid) (s : Shared) (t : Th) (r : Hand) :
    (afterPull F fwd tid s t r).2.x = .idle ∨ (afterPull F fwd tid s t r).2.x = .lockAcq := by
  unfold afterPull failPull; (repeat' split) <;> simp

theorem v1_cons_pc {t : Th} (hr : t.role = .cons) (h : t.cpc ≠ .upstop) : (v1 t).pc ≠ .bRaise := by
  rw [v1_cons hr h]; simp [inertT]

theorem batchEnd_nil {pc : Pc} {a' : Queue.Thread} {hd : Hand} {cache' : List Elem}
    (h : batchEnd pc [] a' [] = some (hd, cache')) : cache' = [] := by
  unfold batchEnd at h
  (repeat' split at h) <;> simp_all

theorem batchEnd_cache_raise {res : List Elem} {a' : Queue.Thread} {cache cache' : List Elem} {hd : Hand}
    (h : batchEnd .bRaise res a' cache = some (hd, cache')) : cache' = cache := by
  simp only [batchEnd, reduceCtorEq, beq_self_eq_true, if_true, if_false, Bool.false_eq_true, beq_iff_eq] at h
  (repeat' split at h) <;> simp only [Option.some.injEq, Prod.mk.injEq] at h <;> exact h.2.symm

set_option maxHeartbeats 400000 in
theorem end1_step {c c' : Cfg} {tid : Tid} {alt : Bool} {lbl : String} (hg : Good c)
    (h : step F c tid alt = some (lbl, c')) (he : End1 c) : End1 c' := by
  have hi := hg.inv
  obtain ⟨t, ht, hsh⟩ := step_shape h
  have htm := List.mem_of_getElem? ht
  have hti := hi.ti t htm
  rcases hsh with ⟨hr, hsh⟩ | ⟨hr, hsh⟩ | ⟨hr, hsh⟩
  · -- the caller
    have nl2 : t.role ≠ .l2 := by rw [hr]; simp
    have nl1 : t.role ≠ .l1 := by rw [hr]; simp
    cases hsh with
    | loc t' ns hcpc hor hc' =>
      subst hc'
      rcases hor with rfl | ⟨e1, e2, e3, e4, e5, e6⟩
      · exact end1_local (s2' := c.s2) (il := c.ilock) he ht (beginIter_role c t) (fun e => absurd e nl2)
          (fun e => absurd e nl2)
          (v1_cons_pc (by rw [beginIter_role, hr]) (beginIter_cpc c t)) (fun e => absurd e nl1)
      · exact end1_local (s2' := c.s2) (il := c.ilock) he ht e6 (fun e => absurd e nl2) (fun e => absurd e nl2)
          (v1_cons_pc (by rw [e6, hr]) e5) (fun e => absurd e nl1)
    | iter l s2' b' hcpc hst hc' =>
      subst hc'
      exact end1_local (il := c.ilock) (ns := c.nsub) he ht (afterIter_role _ _ _ _) (fun e => absurd e nl2)
        (fun e => absurd e nl2)
        (v1_cons_pc (by rw [afterIter_role]; exact hr) (afterIter_cpc (by rw [hcpc]; simp))) (fun e => absurd e nl1)
    | stopping l s2' b' t' hcpc hst hor hc' =>
      subst hc'
      rcases hor with rfl | rfl | rfl
      · exact end1_local (il := c.ilock) (ns := c.nsub) he ht rfl (fun e => absurd e nl2) (fun e => absurd e nl2)
          (v1_cons_pc hr (by rw [hcpc]; simp)) (fun e => absurd e nl1)
      · exact end1_local (il := c.ilock) (ns := c.nsub) he ht rfl (fun e => absurd e nl2) (fun e => absurd e nl2)
          (by simp [v1, hr, stopperAt]) (fun e => absurd e nl1)
      · exact end1_local (il := c.ilock) (ns := c.nsub) he ht rfl (fun e => absurd e nl2) (fun e => absurd e nl2)
          (v1_cons_pc hr (by simp)) (fun e => absurd e nl1)
    | upstop l s1' a' hcpc hst hc' =>
      subst hc'
      refine end1_q1 hg he ht (by simp [v1, hr, hcpc]) hst rfl rfl ?_ (fun e => absurd e nl2) (fun e => absurd e nl2)
        (fun e => absurd e nl1)
      by_cases hd : a'.pc = .done
      · right; simp [v1, hr, hd]
      · left; simp [v1, hr, hd]
  · -- first level
    have nl2 : t.role ≠ .l2 := by rw [hr]; simp
    cases hsh with
    | stop hpc hsrc hc' =>
      subst hc'
      exact end1_local (s2' := c.s2) (il := c.ilock) (ns := c.nsub) he ht rfl (fun e => absurd e nl2)
        (fun e => absurd e nl2) (by simp [v1, hr]) (fun _ _ => .inl hsrc)
    | qa l s1' a' pulled' emitted' hne hst hc' =>
      subst hc'
      have hq1 := q1_get ht
      rw [v1_l1 hr] at hq1
      have htok : TOK t.a := hg.live1.base.tok t.a (List.mem_of_getElem? hq1)
      have hkp : t.a.prog.kind = .producer := by unfold TI at hti; simp only [hr] at hti; exact hti
      refine end1_q1 hg he ht (v1_l1 hr) hst rfl rfl (.inl (by simp [v1, hr])) (fun e => absurd e nl2)
        (fun e => absurd e nl2) (fun _ hc hreg => ?_)
      have hc0 := clean_of_sticky (sticky_of_stepThread hst) hc
      have hdone : t.a.pc ≠ .done := by intro e; simp [stepThread, e] at hst
      obtain ⟨-, -, -, -, -, -, -, -, -, c10, c11, -, c13, c14⟩ := stepThread_close l s1' a' hst htok hi.to1
      by_cases hreg0 : tRegion t.a.pc = true
      · have h1 : t.a.pc ≠ .start := by intro e; rw [e] at hreg0; simp [tRegion] at hreg0
        have h2 : t.a.pc ≠ .eNext := by intro e; rw [e] at hreg0; simp [tRegion] at hreg0
        rw [c11 h1 h2]
        exact he.src hc0 t htm hr (.inl hreg0)
      · exfalso
        by_cases hstart : t.a.pc = .start
        · have := (stepThread_out l s1' a' hst).1
          have h3 := (stepThread_pc l s1' a' hst).1
          cases hprog : t.a.prog with
          | producer items ret =>
            have hst' : stepThread c.s1 t.a tid alt = some ("start", c.s1, { t.a with pc := .sAcq, src := items }) := by
              cases alt with
              | false => simp [stepThread, hstart, hprog]
              | true => simp [stepThread, hstart] at hst
            rw [hst'] at hst
            simp only [Option.some.injEq, Prod.mk.injEq] at hst
            obtain ⟨-, -, rfl⟩ := hst
            simp [tRegion] at hreg
          | getLoop => rw [hprog] at hkp; cases hkp
          | batchLoop _ _ => rw [hprog] at hkp; cases hkp
          | stopper _ => rw [hprog] at hkp; cases hkp
        · by_cases hen : t.a.pc = .eNext
          · have := c13 hen (hne hen) hi.ig1 hreg
            rw [hc.1] at this; cases this
          · have hk : pcKind t.a.pc = some .producer := by rw [kind_of_tok htok hstart hdone, hkp]
            rcases hreg with hreg | hreg
            · rcases (stepThread_out l s1' a' hst).1 hreg with ⟨h1, -⟩ | h1 | ⟨h1, -⟩
              · exact hreg0 h1
              · exact hen h1
              · have := c14 h1 hi.ig1
                rw [hc.1] at this; cases this
            · rcases c10 hreg hk with h1 | h1
              · rw [h1] at hreg0; simp [tRegion] at hreg0
              · refine not_done_by_count hg.live1 hq1 (by simp [isProd, hkp]) ?_ h1 hc0
                unfold pastT
                cases hpc : t.a.pc <;> simp_all [tRegion]
  · -- second level
    have nl1 : t.role ≠ .l1 := by rw [hr]; simp
    have hil := hi.ilock tid t ht
    -- nobody else is inside `get_batch` while this thread holds (or takes) `lock1`
    have hnodeq : (c.ilock = none ∨ c.ilock = some tid) → ∀ (t' : Th) (u : Th), u ∈ c.ths.set tid t' → u.role = .l2 →
        u.x = .deq → u = t' := by
      intro hlock t' u hu hur hux
      obtain ⟨j, hj⟩ := List.getElem?_of_mem hu
      rcases getElem?_set_cases ht hj with ⟨-, e⟩ | ⟨hne, hj'⟩
      · exact e
      · exfalso
        have := (hi.ilock j u hj').mpr ⟨hur, .inl hux⟩
        rcases hlock with h0 | h0
        · rw [h0] at this; cases this
        · rw [h0] at this
          exact hne (Option.some.inj this).symm
    cases hsh with
    | start hpc hc' =>
      subst hc'
      have hx := (l2_x_idle hr hti (by rw [hpc]; simp) (by rw [hpc]; simp)).1
      exact end1_local (s2' := c.s2) (il := c.ilock) (ns := c.nsub) he ht rfl (fun _ e => ⟨e, rfl⟩) (fun _ e => e)
        (by simp [v1, hr, hx, inertT]) (fun e => absurd e nl1)
    | hit v rest hpc hx hlock hca hc' =>
      subst hc'
      have hti' := hti
      unfold TI at hti'
      simp only [hr, hx] at hti'
      have hnoseen : Clean c.s1 → ¬ Seen c := fun hc hs => by
        have := (he.seen hc hs).2.1
        rw [hca] at this; cases this
      refine ⟨?_, ?_, he.lost, he.qe, fun hc hs => absurd (seen_set (t' := { t with hand := .item v.2, x := .lockRel }) ht rfl rfl (fun _ e => e) hs) (hnoseen hc), ?_⟩
      · intro u hu hur hux
        have := hnodeq (.inl hlock) _ u hu hur hux
        subst this
        cases hux
      · intro u hu
        rcases List.mem_or_eq_of_mem_set hu with hu | rfl
        · exact he.axl u hu
        · exact axl_of_pc (by simp [v1, hr, inertT])
      · intro hc u hu hur hreg
        rcases List.mem_or_eq_of_mem_set hu with hu | rfl
        · exact he.src hc u hu hur hreg
        · exact absurd hur nl1
    | miss hpc hx hlock hca hc' =>
      subst hc'
      have hti' := hti
      unfold TI at hti'
      simp only [hr, hx] at hti'
      have hseen' := seen_set (c'' := { c with ilock := some tid, ths := c.ths.set tid { t with a := { t.a with pc := .bAcq, prog := .batchLoop c.bm1 false, result := [] }, x := .deq } }) (t' := { t with a := { t.a with pc := .bAcq, prog := .batchLoop c.bm1 false, result := [] }, x := .deq }) ht rfl rfl (fun _ e => e)
      refine ⟨fun _ _ _ _ => hca, ?_, he.lost, he.qe, fun hc hs => ?_, ?_⟩
      · intro u hu
        rcases List.mem_or_eq_of_mem_set hu with hu | rfl
        · exact he.axl u hu
        · exact axl_of_pc (by simp [v1, hr])
      · obtain ⟨h1, h2, h3⟩ := he.seen hc (hseen' hs)
        refine ⟨h1, h2, fun u hu hur hux => ?_⟩
        rcases List.mem_or_eq_of_mem_set hu with hu | rfl
        · exact h3 u hu hur hux
        · exact ⟨rfl, by simp [inHandPc]⟩
      · intro hc u hu hur hreg
        rcases List.mem_or_eq_of_mem_set hu with hu | rfl
        · exact he.src hc u hu hur hreg
        · exact absurd hur nl1
    | deq l s1' a' hpc hx hst hbe hc' =>
      subst hc'
      have hti' := hti
      unfold TI at hti'
      simp only [hr, hx] at hti'
      have hq1 := q1_get ht
      rw [v1_l2_on hr (.inl hx)] at hq1
      have htok : TOK t.a := hg.live1.base.tok t.a (List.mem_of_getElem? hq1)
      have hk : pcKind t.a.pc = some .batch := by rw [kind_of_tok htok hti'.2.2.2.1 hti'.2.2.2.2.1, hti'.2.2.1]
      have hout := (stepThread_out l s1' a' hst).2.2.2.1 hk (batchEnd_none hbe).2
      refine end1_q1 hg he ht (v1_l2_on hr (.inl hx)) hst rfl rfl (.inl (by simp [v1, hr, hx])) (fun _ _ => hx)
        (fun _ hs => ?_) (fun e => absurd e nl1)
      rw [← hs]
      exact (seenQ_congr hout).symm
    | deqEnd l s1' a' hd cache' hpc hx hst hbe hc' =>
      subst hc'
      have hti' := hti
      unfold TI at hti'
      simp only [hr, hx] at hti'
      have hq1 := q1_get ht
      rw [v1_l2_on hr (.inl hx)] at hq1
      have htok : TOK t.a := hg.live1.base.tok t.a (List.mem_of_getElem? hq1)
      have hxok := hg.live1.base.xok t.a (List.mem_of_getElem? hq1)
      have hk : pcKind t.a.pc = some .batch := by rw [kind_of_tok htok hti'.2.2.2.1 hti'.2.2.2.2.1, hti'.2.2.1]
      have hstk := sticky_of_stepThread hst
      have hlock : c.ilock = some tid := hil.mpr ⟨hr, .inl hx⟩
      have hca : c.cache = [] := he.cdeq t htm hr hx
      obtain ⟨c1, c2, c3, c4, c5, c6, c7, c8, -⟩ := stepThread_close l s1' a' hst htok hi.to1
      refine ⟨?_, ?_, ?_, ?_, ?_, ?_⟩
      · intro u hu hur hux
        have := hnodeq (.inr hlock) _ u hu hur hux
        subst this
        cases hux
      · intro u hu
        rcases List.mem_or_eq_of_mem_set hu with hu | rfl
        · exact he.axl u hu
        · exact axl_of_pc (by simp [v1, hr, inertT])
      · intro hc
        have hc0 := clean_of_sticky hstk hc
        show s1'.lost = []
        rw [c3, he.lost hc0]
        split
        · rename_i hb
          have hax := he.axl t htm
          rw [v1_l2_on hr (.inl hx)] at hax
          refine hax hb ?_
          cases hxe : t.a.x.isErr with
          | false => rfl
          | true =>
            exfalso
            rcases hxok.2.2.1 (by rw [hb]) hxe with h | h
            · have h' : c.s1.exc.isSome = true := h
              rw [hc0.1] at h'; cases h'
            · have h' : c.s1.timeout = true := h
              rw [hi.to1] at h'; cases h'
        · rfl
      · intro hc hex
        have hc0 := clean_of_sticky hstk hc
        exact qe_step hg.live1 hq1 rfl rfl htok hi.to1 hst (he.qe hc0) hc0 hex
      · intro hc hs
        have hc0 := clean_of_sticky hstk hc
        have hnone : ∀ u ∈ c.ths.set tid { t with a := a', hand := hd, x := .lockRel }, u.role = .l2 → u.x = .deq →
            u.a.result = [] ∧ inHandPc u.a.pc = false := by
          intro u hu hur hux
          have := hnodeq (.inr hlock) _ u hu hur hux
          subst this
          cases hux
        by_cases hold : Seen c
        · obtain ⟨h1, h2, h3⟩ := he.seen hc0 hold
          have hres := (h3 t htm hr hx).1
          rw [hres, h2] at hbe
          exact ⟨hstk.2.2 h1, batchEnd_nil hbe, hnone⟩
        · -- this `get_batch` is the first to raise `StopIteration`
          have hnew : stopSeen { t with a := a', hand := hd, x := .lockRel } = true := by
            obtain ⟨w, hw, hwr, hws⟩ := hs
            rcases List.mem_or_eq_of_mem_set hw with hw | rfl
            · exact absurd ⟨w, hw, hwr, hws⟩ hold
            · exact hws
          have hb : t.a.pc = .bRaise := by
            rcases batchEnd_some hbe with h | h
            · exfalso
              have hout := (stepThread_out l s1' a' hst).2.2.2.1 hk (by rw [h]; simp)
              have : stopSeen t = true := by
                unfold stopSeen at hnew ⊢
                rw [← hnew]; exact (seenQ_congr hout).symm
              rw [hti'.2.2.2.2.2] at this; cases this
            · exact h
          rw [hb] at hbe
          have hex : c.s1.exhausted = true := by
            rcases hxok.2.2.2.2.1 (by simp [armed, hb]) with h | h
            · exact h
            · have h' : c.s1.timeout = true := h
              rw [hi.to1] at h'; cases h'
          exact ⟨hstk.2.2 hex, by rw [batchEnd_cache_raise hbe]; exact hca, hnone⟩
      · intro hc u hu hur hreg
        rcases List.mem_or_eq_of_mem_set hu with hu | rfl
        · exact he.src (clean_of_sticky hstk hc) u hu hur hreg
        · exact absurd hur nl1
    | rel hpc hx hlock hc' =>
      subst hc'
      refine end1_local (ns := c.nsub) he ht (afterPull_role _ _ _ _ _ _) (fun _ e => ?_) (fun _ hs => ?_) ?_
        (fun e => absurd e nl1)
      · rcases afterPull_x (F := F) c.fwd tid c.s2 t t.hand with h1 | h1 <;> rw [h1] at e <;> cases e
      · unfold stopSeen at hs ⊢
        rw [afterPull_a] at hs; exact hs
      · rw [v1_l2_off (by rw [afterPull_role]; exact hr)]
        · simp [inertT]
        · rcases afterPull_x (F := F) c.fwd tid c.s2 t t.hand with h1 | h1 <;> rw [h1] <;> simp
        · rcases afterPull_x (F := F) c.fwd tid c.s2 t t.hand with h1 | h1 <;> rw [h1] <;> simp
    | up l s1' a' hpc hx hst hc' =>
      subst hc'
      have hti' := hti
      unfold TI at hti'
      simp only [hr, hx] at hti'
      have hq1 := q1_get ht
      rw [v1_l2_on hr (.inr hx)] at hq1
      have htok : TOK t.a := hg.live1.base.tok t.a (List.mem_of_getElem? hq1)
      have hk : pcKind t.a.pc = some .stopper := by rw [kind_of_tok htok hti'.2.2.2.1 hti'.2.2.2.2.1, hti'.2.2.1]
      refine end1_q1 hg he ht (v1_l2_on hr (.inr hx)) hst rfl rfl ?_ (fun _ e => ?_) (fun _ hs => ?_)
        (fun e => absurd e nl1)
      · by_cases hd : a'.pc = .done
        · right; simp [v1, hr, hd]
        · left; simp [v1, hr, hd]
      · exfalso
        simp only at e
        split at e <;> cases e
      · have := (stepThread_out l s1' a' hst).2.2.2.2 hk
        unfold stopSeen seenQ at hs ⊢
        simp only [] at hs
        split at hs
        · rename_i r hr'
          rw [this r hr']
        · cases hs
    | qb l s2' b' h1 h2 h3 hst hc' =>
      subst hc'
      have hxi := (l2_x_idle hr hti h2 h3).1
      obtain ⟨hrole, hcases⟩ := postProd_spec tid t s2' b' hxi
      have hfacts : ((postProd tid t s2' b').x = .lockAcq ∨ (postProd tid t s2' b').x = .idle ∨
          (postProd tid t s2' b').x = .up) ∧
          (((postProd tid t s2' b').a = t.a ∧ (postProd tid t s2' b').x ≠ .up) ∨
            ((postProd tid t s2' b').a = stopperAt t.a ∧ (postProd tid t s2' b').x = .up)) := by
        rcases hcases with ⟨-, -, e1, e2⟩ | ⟨-, -, e1, e2⟩ | ⟨-, -, -, e1, e2⟩ | ⟨-, -, e1, e2, -⟩
        · exact ⟨.inl e1, .inl ⟨e2, by rw [e1]; simp⟩⟩
        · exact ⟨.inr (.inl e1), .inl ⟨e2, by rw [e1]; simp⟩⟩
        · exact ⟨.inr (.inr e1), .inr ⟨e2, e1⟩⟩
        · exact ⟨.inr (.inl e1), .inl ⟨e2, by rw [e1]; simp⟩⟩
      refine end1_local (il := c.ilock) (ns := c.nsub) he ht hrole (fun _ e => ?_) (fun _ hs => ?_) ?_
        (fun e => absurd e nl1)
      · rcases hfacts.1 with h | h | h <;> rw [h] at e <;> cases e
      · rcases hfacts.2 with ⟨h, -⟩ | ⟨h, -⟩
        · unfold stopSeen at hs ⊢; rw [h] at hs; exact hs
        · rw [← stopSeen_stopperAt t t.a rfl h]; exact hs
      · rcases hfacts.2 with ⟨h, hnu⟩ | ⟨h, hu⟩
        · rw [v1_l2_off (by rw [hrole]; exact hr)]
          · simp [inertT]
          · rcases hfacts.1 with h | h | h <;> rw [h] <;> simp
          · exact hnu
        · rw [v1_l2_on (by rw [hrole]; exact hr) (.inr hu), h]; simp [stopperAt]

end MlModel.Piter2
