import MlModel.Model.SchedVal
/-!
The element loop of `async_iterate` on replies without exception elements.
-/
namespace MlModel.Sched
variable {B V : Type}

theorem asyncIterBatch_noexc : ∀ (a : IterAcc B V) (es : List (Elem B V)), a.raised = none →
    (∀ e ∈ es, e.isExc = false) →
    (asyncIterBatch a es).put = a.put ++ es.filterMap Elem.stopVal ∧
    (asyncIterBatch a es).yielded = a.yielded ++ es.filterMap Elem.itemVal ∧
    (asyncIterBatch a es).raised = none ∧
    ((asyncIterBatch a es).exhausted = (a.exhausted || es.any fun e => e.stopVal.isSome))
  | a, [], ha, _ => by simp [asyncIterBatch, ha]
  | a, e :: es, ha, hes => by
    have he := hes e (by simp)
    have hes' : ∀ e' ∈ es, e'.isExc = false := fun e' h' => hes e' (by simp [h'])
    cases e with
    | item b =>
      have := asyncIterBatch_noexc (asyncIterElem a (.item b)) es (by simp [asyncIterElem, ha]) hes'
      simp [asyncIterBatch, asyncIterElem, ha, Elem.stopVal, Elem.itemVal] at this ⊢
      exact this
    | stop v =>
      have := asyncIterBatch_noexc (asyncIterElem a (.stop v)) es (by simp [asyncIterElem, ha]) hes'
      simp [asyncIterBatch, asyncIterElem, ha, Elem.stopVal] at this ⊢
      exact this
    | busy =>
      have := asyncIterBatch_noexc (asyncIterElem a .busy) es (by simp [asyncIterElem, ha]) hes'
      simp [asyncIterBatch, asyncIterElem, ha, Elem.stopVal, Elem.itemVal] at this ⊢
      exact this
    | timeoutExc => simp [Elem.isExc] at he
    | otherExc => simp [Elem.isExc] at he

end MlModel.Sched
