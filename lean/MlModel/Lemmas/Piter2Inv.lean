import MlModel.Lemmas.Piter2Queue
import MlModel.Lemmas.Piter2Frame
import MlModel.Lemmas.PiterStep
/-!
# Two-queue LTS: the per-queue views and the structural invariant

`q1cfg c` / `q2cfg c` are the configurations of the INPUT queue `Q1` and of the OUTPUT queue `Q2` embedded in a
configuration of `Model/Piter2.lean`, as `Queue.Cfg`s with one slot per thread:

* `Q1`: a first-level task is its producer part `a`; a second-level task is a `get_batch` consumer exactly while it is
  inside `DequeueIterator(Q1).__next__` holding `lock1` (`x = deq`), a stopper while it runs `_maybe_stop_upstream`
  (`x = up`), and an inert slot otherwise; the caller is a stopper during its upstream stop and inert otherwise;
* `Q2`: the caller is the `get_batch` consumer (later the stopper) `b`; a second-level task is its producer part `b`;
  first-level tasks are inert slots.

`Good c` = the structural invariant `Inv c` (what each part is doing in each phase; `lock1` is held exactly by the
second-level task inside `__next__`) ∧ `Queue.Live (q1cfg c)` ∧ `Queue.Live (q2cfg c)`.
-/
namespace MlModel.Piter2
open MlModel.Queue

/-- the thread's slot in the INPUT queue -/
def v1 (t : Th) : Queue.Thread :=
  match t.role with
  | .cons => if t.cpc = .upstop then t.a else inertT
  | .l1 => t.a
  | .l2 => if t.x = .deq ∨ t.x = .up then t.a else inertT

/-- the last `get_batch()` of this consumer part ended with `StopIteration` -/
def seenQ (a : Queue.Thread) : Bool :=
  match a.outcome with
  | some (.stop _) => true
  | _ => false

/-- `next(DequeueIterator(Q1))` raised `StopIteration` -/
def isStopH : Hand → Prop
  | .stop _ => True
  | _ => False

/-- the task's last `Q1.get_batch()` ended with `StopIteration`: it has seen the end of the input queue -/
def stopSeen (t : Th) : Bool := seenQ t.a

/-- the thread's slot in the OUTPUT queue.  A second-level task that has seen the end of the input queue runs
`Q2._stop_enqueue(*args)`: a generator `iterator_fn` passes its own return value, a pass-through `iterator_fn` forwards
the arguments of the input queue's `StopIteration`, which can be EMPTY after an upstream stop.  `Queue.Live` recognises
a producer that has run `_stop_enqueue` by its non-empty arguments (ghost `Queue.stopped`), so the view shows such a
task with the arguments `[0]`: they only flow into the ghost-free list `returned`, which `Live` does not read
(`stepThread_rets`, `live_returned`). -/
def v2 (t : Th) : Queue.Thread :=
  match t.role with
  | .l1 => inertT
  | .cons => t.b
  | .l2 => if t.x = .idle ∧ stopSeen t = true then { t.b with rets := [0] } else t.b

def q1cfg (c : Cfg) : Queue.Cfg := { sh := c.s1, ths := c.ths.map v1 }
def q2cfg (c : Cfg) : Queue.Cfg := { sh := c.s2, ths := c.ths.map v2 }

theorem q1_get {c : Cfg} {tid : Tid} {t : Th} (h : c.ths[tid]? = some t) : (q1cfg c).ths[tid]? = some (v1 t) := by
  simp [q1cfg, h]

theorem q2_get {c : Cfg} {tid : Tid} {t : Th} (h : c.ths[tid]? = some t) : (q2cfg c).ths[tid]? = some (v2 t) := by
  simp [q2cfg, h]

/-- what each part of a thread is doing, phase by phase -/
def TI (t : Th) : Prop :=
  match t.role with
  | .cons =>
    t.a.prog.kind = .stopper ∧ t.a.result = [] ∧
    (match t.cpc with
    | .boot | .submit => t.b.pc = .start ∧ t.b.prog.kind = .batch ∧ t.b.result = []
    | .iter => t.b.prog.kind = .batch ∧ t.b.pc ≠ .start ∧ t.b.pc ≠ .done
    | .stopping => t.b.prog.kind = .stopper ∧ t.b.pc ≠ .start ∧ t.b.pc ≠ .done
    | .upstop => (t.b.pc = .done ∧ (t.b.prog.kind = .batch ∨ t.b.prog.kind = .stopper)) ∧ t.a.pc ≠ .start ∧ t.a.pc ≠ .done
    | .shutdown | .fin => t.b.pc = .done ∧ (t.b.prog.kind = .batch ∨ t.b.prog.kind = .stopper))
  | .l1 => t.a.prog.kind = .producer
  | .l2 =>
    t.b.prog.kind = .producer ∧
    (match t.x with
    | .idle => t.b.pc ≠ .eNext ∧ t.a.result = [] ∧
        (stopSeen t = true → (tRegion t.b.pc = true ∨ t.b.pc = .done) ∧ t.b.reraise = none)
    | .lockAcq => t.b.pc = .eNext ∧ t.a.result = [] ∧ stopSeen t = false
    | .lockRel => t.b.pc = .eNext ∧ t.a.result = [] ∧
        (stopSeen t = true ↔ isStopH t.hand)
    | .deq => t.b.pc = .eNext ∧ t.a.prog.kind = .batch ∧ t.a.pc ≠ .start ∧ t.a.pc ≠ .done ∧ stopSeen t = false
    | .up => t.b.pc = .done ∧ t.a.prog.kind = .stopper ∧ t.a.pc ≠ .start ∧ t.a.pc ≠ .done ∧ stopSeen t = false)

/-- the thread holds `lock1` -/
def HoldsI (t : Th) : Prop := t.role = .l2 ∧ (t.x = .deq ∨ t.x = .lockRel)

instance (t : Th) : Decidable (HoldsI t) := by unfold HoldsI; infer_instance

/-- the second-level task has seen the END of the input queue (`StopIteration` out of `next(DequeueIterator(Q1))`) and
is on its way out through a clean `_stop_enqueue`, or it has finished: then enqueueing on the input queue is done (it
was exhausted, or the task stopped it: `_maybe_stop_upstream`, fix 091db8d) -/
def Owes (t : Th) : Prop :=
  t.role = .l2 ∧
  ((t.x = .lockRel ∧ isStopH t.hand) ∨
   (t.x = .idle ∧ tRegion t.b.pc = true ∧ t.b.reraise = none) ∨
   (t.x = .idle ∧ t.b.pc = .done))

structure Inv (c : Cfg) : Prop where
  ti : ∀ t ∈ c.ths, TI t
  /-- a second-level task ends only after the input queue is done -/
  d1 : ∀ t ∈ c.ths, Owes t → c.s1.enqueueDone = true
  /-- once the caller iterates, every task is submitted -/
  sub : ∀ t, c.ths[0]? = some t → t.cpc = .boot ∨ t.cpc = .submit ∨ c.ths.length - 1 ≤ c.nsub
  /-- a FIFO pool starts its tasks in submission order -/
  pre : c.fifo = true → ∀ (i j : Nat) (ti tj : Th), i < j → c.ths[i]? = some ti → c.ths[j]? = some tj →
    tj.started = true → ti.started = true
  role0 : ∀ (tid : Tid) (t : Th), c.ths[tid]? = some t → (t.role = .cons ↔ tid = 0)
  ilock : ∀ (tid : Tid) (t : Th), c.ths[tid]? = some t → (c.ilock = some tid ↔ HoldsI t)
  ilockLt : ∀ u, c.ilock = some u → u < c.ths.length
  to1 : c.s1.timeout = false
  ig1 : c.s1.ignoreError = false
  to2 : c.s2.timeout = false
  ig2 : c.s2.ignoreError = false

structure Good (c : Cfg) : Prop where
  inv : Inv c
  live1 : Queue.Live (q1cfg c)
  live2 : Queue.Live (q2cfg c)

/-! ### assembling the invariant after a step -/

/-- how `lock1` changes together with the stepping thread -/
inductive ILockStep (c : Cfg) (tid : Tid) (t t' : Th) : Option Tid → Prop where
  | keep : (HoldsI t' ↔ HoldsI t) → ILockStep c tid t t' c.ilock
  | acq : c.ilock = none → HoldsI t' → ILockStep c tid t t' (some tid)
  | rel : c.ilock = some tid → ¬ HoldsI t' → ILockStep c tid t t' none

/-- the part of a step the auxiliary invariants (`d1`, `sub`, `pre`) read -/
structure StepAux (c : Cfg) (tid : Tid) (t t' : Th) (s1' : Shared) (ns : Nat) : Prop where
  mono : c.s1.enqueueDone = true → s1'.enqueueDone = true
  owes : Owes t' → s1'.enqueueDone = true
  sub : c.nsub ≤ ns ∧ (t.role = .cons → t'.cpc = .boot ∨ t'.cpc = .submit ∨ c.ths.length - 1 ≤ ns)
  st' : t'.started = true
  st : t.started = true ∨ c.gate tid = true

theorem good_mk {c : Cfg} {tid : Tid} {t t' : Th} {s1' s2' : Shared} {il : Option Tid} {ca : List Elem} {ns : Nat}
    (hg : Good c) (ht : c.ths[tid]? = some t) (hr : t'.role = t.role) (hti : TI t')
    (hil : ILockStep c tid t t' il) (hA : StepAux c tid t t' s1' ns)
    (h1 : Queue.Live { sh := s1', ths := (q1cfg c).ths.set tid (v1 t') })
    (h2 : Queue.Live { sh := s2', ths := (q2cfg c).ths.set tid (v2 t') })
    (hc1 : s1'.timeout = false ∧ s1'.ignoreError = false) (hc2 : s2'.timeout = false ∧ s2'.ignoreError = false) :
    Good { c with s1 := s1', s2 := s2', ths := c.ths.set tid t', ilock := il, cache := ca, nsub := ns } := by
  have hi := hg.inv
  have htid : tid < c.ths.length := (List.getElem?_eq_some_iff.mp ht).1
  refine ⟨⟨?_, ?_, ?_, ?_, ?_, ?_, ?_, hc1.1, hc1.2, hc2.1, hc2.2⟩, ?_, ?_⟩
  · intro u hu
    rcases List.mem_or_eq_of_mem_set hu with hu | rfl
    · exact hi.ti u hu
    · exact hti
  · intro u hu ho
    rcases List.mem_or_eq_of_mem_set hu with hu | rfl
    · exact hA.mono (hi.d1 u hu ho)
    · exact hA.owes ho
  · intro u hu
    show u.cpc = .boot ∨ u.cpc = .submit ∨ (c.ths.set tid t').length - 1 ≤ ns
    rw [List.length_set]
    rcases getElem?_set_cases ht hu with ⟨h0, rfl⟩ | ⟨_, hu'⟩
    · subst h0
      exact hA.sub.2 ((hi.role0 0 t ht).mpr rfl)
    · rcases hi.sub u hu' with h | h | h
      · exact .inl h
      · exact .inr (.inl h)
      · exact .inr (.inr (Nat.le_trans h hA.sub.1))
  · intro hf i j ti tj hij hti' htj' hs
    have hf' : c.fifo = true := hf
    rcases getElem?_set_cases ht hti' with ⟨rfl, rfl⟩ | ⟨hni, hti''⟩
    · exact hA.st'
    · rcases getElem?_set_cases ht htj' with ⟨rfl, rfl⟩ | ⟨hnj, htj''⟩
      · rcases hA.st with h | h
        · exact hi.pre hf' i j ti t hij hti'' ht h
        · unfold Cfg.gate at h
          simp only [hf', Bool.not_true, Bool.false_or, Bool.and_eq_true, List.all_eq_true] at h
          apply h.2
          rw [List.mem_take_iff_getElem]
          have hlt : i < c.ths.length := (List.getElem?_eq_some_iff.mp hti'').1
          exact ⟨i, by rw [Nat.lt_min]; exact ⟨hij, hlt⟩, (List.getElem?_eq_some_iff.mp hti'').2⟩
      · exact hi.pre hf' i j ti tj hij hti'' htj'' hs
  · intro j u hu
    rcases getElem?_set_cases ht hu with ⟨rfl, rfl⟩ | ⟨_, hu⟩
    · rw [hr]; exact hi.role0 j t ht
    · exact hi.role0 j u hu
  · intro j u hu
    show il = some j ↔ HoldsI u
    rcases getElem?_set_cases ht hu with ⟨rfl, rfl⟩ | ⟨hne, hu'⟩
    · cases hil with
      | keep h => rw [h]; exact hi.ilock j t ht
      | acq h0 h => exact ⟨fun _ => h, fun _ => rfl⟩
      | rel h0 h => exact ⟨fun e => (by cases e), fun e => absurd e h⟩
    · cases hil with
      | keep h => exact hi.ilock j u hu'
      | acq h0 h =>
        constructor
        · intro e; exact absurd (Option.some.inj e).symm hne
        · intro e; have := (hi.ilock j u hu').mpr e; rw [h0] at this; cases this
      | rel h0 h =>
        constructor
        · intro e; cases e
        · intro e; have := (hi.ilock j u hu').mpr e; rw [h0] at this; exact absurd (Option.some.inj this).symm hne
  · intro u hu
    show u < (c.ths.set tid t').length
    rw [List.length_set]
    cases hil with
    | keep h => exact hi.ilockLt u hu
    | acq h0 h => cases hu; exact htid
    | rel h0 h => cases hu
  · show Queue.Live { sh := s1', ths := (c.ths.set tid t').map v1 }
    rw [List.map_set]; exact h1
  · show Queue.Live { sh := s2', ths := (c.ths.set tid t').map v2 }
    rw [List.map_set]; exact h2

/-- a slot that keeps its thread -/
theorem live_keep {qc : Queue.Cfg} {tid : Tid} {a : Queue.Thread} (hv : Queue.Live qc) (ha : qc.ths[tid]? = some a) :
    Queue.Live { sh := qc.sh, ths := qc.ths.set tid a } := by
  rw [set_self_of_get ha]; exact hv

/-! ### the initial configurations -/

theorem q1cfg_init (cap1 cap2 bm1 bm2 mw : Nat) (ns : Option Nat) (fwd : Bool) (inputs : List InSpec) (gens : List Nat) :
    q1cfg (init cap1 cap2 bm1 bm2 mw ns fwd inputs gens) =
      Queue.init cap1 inputs.length false false
        (.stopper none :: ((inputs.map fun i => Prog.producer i.items i.ret) ++ gens.map fun _ => Prog.stopper none)) := by
  simp [q1cfg, init, Queue.init, mkCons, mkL1, mkL2, v1, inertT, Function.comp_def]

theorem q2cfg_init (cap1 cap2 bm1 bm2 mw : Nat) (ns : Option Nat) (fwd : Bool) (inputs : List InSpec) (gens : List Nat) :
    q2cfg (init cap1 cap2 bm1 bm2 mw ns fwd inputs gens) =
      Queue.init cap2 gens.length false false
        (.batchLoop bm2 false :: ((inputs.map fun _ => Prog.stopper none) ++ gens.map fun r => Prog.producer [] r)) := by
  simp [q2cfg, init, Queue.init, mkCons, mkL1, mkL2, v2, inertT, stopSeen, seenQ, Function.comp_def]

theorem good_init (cap1 cap2 bm1 bm2 mw : Nat) (ns : Option Nat) (fwd : Bool) (inputs : List InSpec) (gens : List Nat) :
    Good (init cap1 cap2 bm1 bm2 mw ns fwd inputs gens) := by
  refine ⟨⟨?_, ?_, ?_, ?_, ?_, ?_, ?_, rfl, rfl, rfl, rfl⟩, ?_, ?_⟩
  · intro t ht
    simp only [init, List.mem_cons, List.mem_append, List.mem_map] at ht
    rcases ht with rfl | ⟨i, _, rfl⟩ | ⟨g, _, rfl⟩
    · simp [TI, mkCons, Prog.kind]
    · simp [TI, mkL1, Prog.kind]
    · simp [TI, mkL2, Prog.kind, stopSeen, seenQ]
  · intro t ht ho
    exfalso
    simp only [init, List.mem_cons, List.mem_append, List.mem_map] at ht
    rcases ht with rfl | ⟨i, _, rfl⟩ | ⟨g, _, rfl⟩ <;> simp [Owes, mkCons, mkL1, mkL2, tRegion] at ho
  · intro t ht
    simp only [init, List.getElem?_cons_zero, Option.some.injEq] at ht
    subst ht
    exact .inl rfl
  · intro hf; cases hf
  · intro tid t ht
    cases tid with
    | zero =>
      simp only [init, List.getElem?_cons_zero, Option.some.injEq] at ht
      subst ht; simp [mkCons]
    | succ k =>
      simp only [init, List.getElem?_cons_succ] at ht
      have hm := List.mem_of_getElem? ht
      simp only [List.mem_append, List.mem_map] at hm
      rcases hm with ⟨i, _, rfl⟩ | ⟨g, _, rfl⟩ <;> simp [mkL1, mkL2]
  · intro tid t ht
    have hm := List.mem_of_getElem? ht
    simp only [init, List.mem_cons, List.mem_append, List.mem_map] at hm
    rcases hm with rfl | ⟨i, _, rfl⟩ | ⟨g, _, rfl⟩ <;> simp [init, HoldsI, mkCons, mkL1, mkL2]
  · intro u hu; simp [init] at hu
  · rw [q1cfg_init]
    apply live_init
    unfold WF_enq
    simp [List.countP_append, List.countP_map, Prog.kind, Function.comp_def]
  · rw [q2cfg_init]
    apply live_init
    unfold WF_enq
    simp [List.countP_append, List.countP_map, Prog.kind, Function.comp_def]

end MlModel.Piter2
