import MlModel.Lemmas.QueueLiveJ
/-!
# Liveness of the IteratorQueue LTS — the no-lost-wake-up invariant, producer side, one step
(`oSF`: another producer has `sawFull`; `oEA`, `oDC`: another thread is a debtor / committed.)
-/
namespace MlModel.Queue
set_option linter.unusedSimpArgs false

def K2L (s : Shared) (t : Thread) (oSF oEA : Prop) : Prop :=
  (s.enqWait ≠ [] ∨ sawFull t = true ∨ oSF) → s.enqueueDone = true → (debtEAll t = true ∨ oEA)

def K2Step (s : Shared) (t : Thread) (tid : Tid) (alt : Bool) : Prop :=
  ∀ lbl s' t', stepThread s t tid alt = some (lbl, s', t') → ∀ (oSF oEA : Prop),
    (t.pc = .tAcq → t.reraise.isSome = true → s.exc.isSome = true) →
    (t.pc = .mRel → s.stopRequested = true) →
    (holds .enq t.pc = true → ¬oSF) →
    (t.pc = .sAcq → s'.enqueueDone = true → s.enqueueDone = true) →
    K2L s t oSF oEA → K2L s' t' oSF oEA

set_option hygiene false in
macro "k2_group" : tactic => `(tactic| (
  intro lbl s' t' h oSF oEA hx1 hx2 hm hS hj
  unfold K2L at hj ⊢
  unfold stepThread at h
  cases hpc : t.pc <;> (try (simp only [hpc, Pc.group] at hg; omega)) <;>
    simp only [hpc] at h hx1 hx2 hm hS hj <;>
    (try simp only [acquire, release, notify, waitPark, waitWake, goto, enqLoop, putLoop, batchLoop,
      afterRaise, afterValue] at h) <;>
    (repeat' split at h) <;>
    (try simp only [Option.some.injEq, Prod.mk.injEq, reduceCtorEq] at h) <;>
    (try (obtain ⟨-, rfl, rfl⟩ := h)) <;>
    first
    | (simp_all [Shared.setOwner, Shared.owner, sawFull, debtEAll, holds, enqueueDone_eq, doneOf_isSome]; done)
    | (cases hew : s.enqWait <;>
        simp_all [Shared.setOwner, Shared.owner, sawFull, debtEAll, holds, enqueueDone_eq, doneOf_isSome] <;>
        grind)))

theorem k2_g0 {s t tid alt} (hg : t.pc.group = 0) : K2Step s t tid alt := by k2_group
theorem k2_g1 {s t tid alt} (hg : t.pc.group = 1) : K2Step s t tid alt := by k2_group
theorem k2_g2 {s t tid alt} (hg : t.pc.group = 2) : K2Step s t tid alt := by k2_group
theorem k2_g3 {s t tid alt} (hg : t.pc.group = 3) : K2Step s t tid alt := by k2_group
theorem k2_g4 {s t tid alt} (hg : t.pc.group = 4) : K2Step s t tid alt := by k2_group
theorem k2_g5 {s t tid alt} (hg : t.pc.group = 5) : K2Step s t tid alt := by k2_group
theorem k2_g6 {s t tid alt} (hg : t.pc.group = 6) : K2Step s t tid alt := by k2_group
theorem k2_g7 {s t tid alt} (hg : t.pc.group = 7) : K2Step s t tid alt := by k2_group

theorem stepThread_k2 {s t tid alt} : K2Step s t tid alt := by
  have h := Pc.group_lt t.pc
  match hg : t.pc.group with
  | 0 => exact k2_g0 hg | 1 => exact k2_g1 hg | 2 => exact k2_g2 hg | 3 => exact k2_g3 hg
  | 4 => exact k2_g4 hg | 5 => exact k2_g5 hg | 6 => exact k2_g6 hg | 7 => exact k2_g7 hg
  | n + 8 => omega

def K1L (s : Shared) (t : Thread) (oSF oDC : Prop) : Prop :=
  (s.enqWait ≠ [] ∨ sawFull t = true ∨ oSF) →
    (s.q ≠ [] ∨ s.enqNotified ≠ [] ∨ debtE t = true ∨ commitP t = true ∨ oDC ∨ s.enqueueDone = true)

def K1Step (s : Shared) (t : Thread) (tid : Tid) (alt : Bool) : Prop :=
  ∀ lbl s' t', stepThread s t tid alt = some (lbl, s', t') → ∀ (oSF oDC : Prop),
    ((match t.pc with | .nRelErr _ => true | _ => false) = true → t.x.isErr = true →
      s.exc.isSome = true) →
    (holds .enq t.pc = true → ¬oSF) →
    (s.enqueueDone = true → s'.enqueueDone = true) →
    K1L s t oSF oDC → K1L s' t' oSF oDC

set_option hygiene false in
macro "k1_group" : tactic => `(tactic| (
  intro lbl s' t' h oSF oDC hx3 hm hmono hj
  unfold K1L at hj ⊢
  unfold stepThread at h
  cases hpc : t.pc <;> (try (simp only [hpc, Pc.group] at hg; omega)) <;>
    simp only [hpc] at h hx3 hm hj <;>
    (try simp only [acquire, release, notify, waitPark, waitWake, goto, enqLoop, putLoop, batchLoop,
      afterRaise, afterValue] at h) <;>
    (repeat' split at h) <;>
    (try simp only [Option.some.injEq, Prod.mk.injEq, reduceCtorEq] at h) <;>
    (try (obtain ⟨-, rfl, rfl⟩ := h)) <;>
    first
    | (simp_all [Shared.setOwner, Shared.owner, sawFull, debtE, commitP, holds, enqueueDone_eq, doneOf_isSome,
        Shared.full]; done)
    | (cases hew : s.enqWait <;>
        simp_all [Shared.setOwner, Shared.owner, sawFull, debtE, commitP, holds, enqueueDone_eq, doneOf_isSome,
          Shared.full] <;>
        grind)))

theorem k1_g0 {s t tid alt} (hg : t.pc.group = 0) : K1Step s t tid alt := by k1_group
theorem k1_g1 {s t tid alt} (hg : t.pc.group = 1) : K1Step s t tid alt := by k1_group
theorem k1_g2 {s t tid alt} (hg : t.pc.group = 2) : K1Step s t tid alt := by k1_group
theorem k1_g3 {s t tid alt} (hg : t.pc.group = 3) : K1Step s t tid alt := by k1_group
theorem k1_g4 {s t tid alt} (hg : t.pc.group = 4) : K1Step s t tid alt := by k1_group
theorem k1_g5 {s t tid alt} (hg : t.pc.group = 5) : K1Step s t tid alt := by k1_group
theorem k1_g6 {s t tid alt} (hg : t.pc.group = 6) : K1Step s t tid alt := by k1_group
theorem k1_g7 {s t tid alt} (hg : t.pc.group = 7) : K1Step s t tid alt := by k1_group

theorem stepThread_k1 {s t tid alt} : K1Step s t tid alt := by
  have h := Pc.group_lt t.pc
  match hg : t.pc.group with
  | 0 => exact k1_g0 hg | 1 => exact k1_g1 hg | 2 => exact k1_g2 hg | 3 => exact k1_g3 hg
  | 4 => exact k1_g4 hg | 5 => exact k1_g5 hg | 6 => exact k1_g6 hg | 7 => exact k1_g7 hg
  | n + 8 => omega

end MlModel.Queue
