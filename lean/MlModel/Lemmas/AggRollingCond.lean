import MlModel.Model.Agg.RollingMeanVar
import Mathlib.Tactic.Positivity
import Mathlib.Tactic.Linarith
import Mathlib.Algebra.Order.Floor.Ring
import Mathlib.Data.Rat.Floor
/-!
# Why the shipped variance update cannot go negative and the second-moment form can (SC07)

`MeanAndVariance.merge` (rolling_stats.py:401–416) computes, per column,

    var = r₁·var₁ + r₂·var₂ + r₁·(mean − mean₁)² + r₂·(mean₂ − mean)²       (pairwise / Chan)

The algebraically identical "pooled second moments" form is

    var = r₁·(var₁ + mean₁²) + r₂·(var₂ + mean₂²) − mean²

IEEE rounding is outside the models; here it enters as an ABSTRACT rounding operator
`fl : ℚ → ℚ` applied after every arithmetic operation.  All that is assumed of `fl` is what every
IEEE rounding mode (and every fixed-point truncation) satisfies in the absence of overflow:
`fl` is monotone and `fl 0 = 0`.

* `mergeVarR_nonneg`: the shipped expression is a sum of non-negative terms — with ANY such
  rounding, non-negative input variances and non-negative weights give a non-negative variance
  (so `stddev = sqrt(var)` is a number).  No subtraction of large, nearly equal quantities occurs.
* `secondMomentR`: the other form ends in a subtraction; with `fl = floor` (monotone, fixes 0),
  two one-element groups 3/4 and 5/4 give the variance −1 (exact value 1/16), while the shipped form
  gives 0 — `Properties/C07/RollingCond.lean`.
-/
namespace MlModel.Agg.Rolling

/-- what is assumed of a rounding operator -/
structure Rounding (fl : Rat → Rat) : Prop where
  mono : ∀ {a b : Rat}, a ≤ b → fl a ≤ fl b
  zero : fl 0 = 0

theorem Rounding.nonneg {fl : Rat → Rat} (h : Rounding fl) {x : Rat} (hx : 0 ≤ x) : 0 ≤ fl x := by
  have := h.mono hx
  rwa [h.zero] at this

/-- exact arithmetic is a rounding -/
theorem Rounding.id : Rounding (fun x => x) := ⟨fun h => h, rfl⟩

/-- the variance line of `MeanAndVariance.merge`, every operation followed by `fl`
(`d₁ = mean − mean₁`, `d₂ = mean₂ − mean`) -/
def mergeVarR (fl : Rat → Rat) (r1 r2 v1 v2 d1 d2 : Rat) : Rat :=
  fl (fl (fl (fl (r1 * v1) + fl (r2 * v2)) + fl (r1 * fl (d1 * d1))) + fl (r2 * fl (d2 * d2)))

/-- the pooled-second-moments rewrite, every operation followed by `fl` -/
def secondMomentR (fl : Rat → Rat) (r1 r2 v1 v2 m1 m2 m : Rat) : Rat :=
  fl (fl (fl (r1 * fl (v1 + fl (m1 * m1))) + fl (r2 * fl (v2 + fl (m2 * m2)))) - fl (m * m))

/-- **sum of non-negative terms**: whatever the (monotone, zero-preserving) rounding -/
theorem mergeVarR_nonneg {fl : Rat → Rat} (h : Rounding fl) {r1 r2 v1 v2 : Rat} (d1 d2 : Rat)
    (hr1 : 0 ≤ r1) (hr2 : 0 ≤ r2) (hv1 : 0 ≤ v1) (hv2 : 0 ≤ v2) :
    0 ≤ mergeVarR fl r1 r2 v1 v2 d1 d2 := by
  unfold mergeVarR
  have a1 : 0 ≤ fl (r1 * v1) := h.nonneg (mul_nonneg hr1 hv1)
  have a2 : 0 ≤ fl (r2 * v2) := h.nonneg (mul_nonneg hr2 hv2)
  have a3 : 0 ≤ fl (r1 * fl (d1 * d1)) := h.nonneg (mul_nonneg hr1 (h.nonneg (mul_self_nonneg d1)))
  have a4 : 0 ≤ fl (r2 * fl (d2 * d2)) := h.nonneg (mul_nonneg hr2 (h.nonneg (mul_self_nonneg d2)))
  have a5 : 0 ≤ fl (fl (r1 * v1) + fl (r2 * v2)) := h.nonneg (add_nonneg a1 a2)
  have a6 := h.nonneg (add_nonneg a5 a3)
  exact h.nonneg (add_nonneg a6 a4)

/-- with exact arithmetic the two forms agree whenever `m` is the pooled mean -/
theorem secondMoment_eq_mergeVar (r1 r2 v1 v2 m1 m2 : Rat) (hr : r1 + r2 = 1) :
    secondMomentR (fun x => x) r1 r2 v1 v2 m1 m2 (r1 * m1 + r2 * m2)
      = mergeVarR (fun x => x) r1 r2 v1 v2 ((r1 * m1 + r2 * m2) - m1) (m2 - (r1 * m1 + r2 * m2)) := by
  unfold secondMomentR mergeVarR
  have h2 : r2 = 1 - r1 := by linarith
  subst h2
  ring

/-- with exact arithmetic `mergeVarR` is the hand model's variance line (hence, by
`C01_gen_meanvar_merge_eq_col_merge`, the generated one) on columns without NaN -/
theorem mergeVar_eq_mergeVarR (prev s o : Col) (pm sm om pv ov : Rat)
    (h1 : prev.mean = some pm) (h2 : s.mean = some sm) (h3 : o.mean = some om)
    (h4 : prev.var = some pv) (h5 : o.var = some ov) :
    Col.mergeVar true prev s o
      = some (mergeVarR (fun x => x) (safeDivide prev.count s.count) (safeDivide o.count s.count) pv ov
          (sm - pm) (om - sm)) := by
  simp [Col.mergeVar, mergeVarR, h1, h2, h3, h4, h5, nanadd, fwhere, fadd, fmul, fneg, sub_eq_add_neg]

/-- truncation to integers: a rounding in the sense above -/
def flFloor (x : Rat) : Rat := (x.floor : Int)

theorem flFloor_rounding : Rounding flFloor where
  mono {a b} h := by
    unfold flFloor
    have : (⌊a⌋ : Int) ≤ ⌊b⌋ := Int.floor_le_floor h
    exact_mod_cast this
  zero := by decide +kernel

end MlModel.Agg.Rolling
