import MlModel.Lemmas.PiterCtl
/-!
# Deadlock freedom of the parallel-iteration LTS: a configuration without enabled step is final

`Stuck F c`: no thread has an enabled step.  From the invariants (`Base`, `QL` = the queue's
no-lost-wake-up invariant on the embedded configuration, `Ctl`, `ILockInv`):

1. `stuck_thread_*`: what being stuck means thread by thread (pool gate, input lock, queue operation,
   `shutdown()` join);
2. `stuck_locks_free`: lock-order acyclicity — the three queue locks and the input lock are free, so
   every thread inside the queue API is parked on a condition variable and has not been notified, and
   no producer is inside `next(iterator)`;
3. `stuck_final`: with J1/J2/K1/K2 nobody can be parked; then no task is running, so the pool gate
   is open for every submitted task (`max_workers ≥ 1` is all it takes *in this one-queue LTS*: a
   running task never waits for a queued one), every task is submitted once the consumer iterates, and
   `shutdown()` is enabled once all tasks are done.  Hence everything is done.
-/
namespace MlModel.Piter
open MlModel.Queue

variable {F : Nat → Option (List Nat)}

/-- no thread has an enabled step -/
def Stuck (F : Nat → Option (List Nat)) (c : Cfg) : Prop := ∀ tid alt, step F c tid alt = none

/-! ### 1. thread by thread -/

theorem stuck_prod_q {c : Cfg} {tid : Tid} {t : PThread} (hd : Stuck F c) (ht : c.ths[tid]? = some t)
    (hp : t.isProd = true) (h1 : t.q.pc ≠ .done) (h2 : t.q.pc ≠ .start) (h3 : t.q.pc ≠ .eNext) :
    stepThread c.sh t.q tid false = none := by
  cases hres : stepThread c.sh t.q tid false with
  | none => rfl
  | some r =>
    exfalso
    have h := hd tid false
    unfold step at h
    simp only [ht, hp, if_true, hres] at h
    first | cases h | (split at h <;> simp_all)

theorem stuck_prod_start {c : Cfg} {tid : Tid} {t : PThread} (hd : Stuck F c) (ht : c.ths[tid]? = some t)
    (hp : t.isProd = true) (hpc : t.q.pc = .start) :
    ¬ (tid ≤ c.nsub ∧ (c.maxWorkers = 0 ∨ c.running < c.maxWorkers)) := by
  rintro ⟨a, b⟩
  have h := hd tid false
  unfold step at h
  simp only [ht, hp, if_true, hpc] at h
  rcases b with b | b <;> simp [a, b] at h

theorem stuck_prod_enext {c : Cfg} {tid : Tid} {t : PThread} (hd : Stuck F c) (ht : c.ths[tid]? = some t)
    (hp : t.isProd = true) (hpc : t.q.pc = .eNext) :
    (t.ipc = .acq → c.ilock ≠ none) ∧ (t.ipc = .next → t.useLock = true ∧ c.ilock ≠ some tid) ∧
    (t.ipc = .rel → c.ilock ≠ some tid) := by
  have h := hd tid false
  unfold step at h
  simp only [ht, hp, if_true, hpc] at h
  refine ⟨fun hi e => ?_, fun hi => ?_, fun hi e => ?_⟩
  · simp [hi, e] at h
  · simp only [hi] at h
    cases hu : t.useLock with
    | false => simp [hu] at h
    | true =>
      refine ⟨rfl, fun e => ?_⟩
      simp [hu, e] at h
  · simp [hi, e] at h

theorem stuck_cons {c : Cfg} {tid : Tid} {t : PThread} (hd : Stuck F c) (ht : c.ths[tid]? = some t)
    (hp : t.isProd = false) :
    t.cpc ≠ .boot ∧ t.cpc ≠ .submit ∧
    ((t.cpc = .iter ∨ t.cpc = .stopping) → stepThread c.sh t.q tid false = none) ∧
    (t.cpc = .shutdown → c.producersDone = false) := by
  have h := hd tid false
  unfold step at h
  simp only [ht, hp, Bool.false_eq_true, if_false] at h
  refine ⟨fun e => ?_, fun e => ?_, fun e => ?_, fun e => ?_⟩
  · simp only [e] at h
    split at h <;> simp at h
  · simp [e] at h
  · rcases e with e | e <;> simp only [e] at h <;> (split at h; assumption; cases h)
  · simp only [e] at h
    cases hpd : c.producersDone with
    | false => rfl
    | true => simp [hpd] at h

/-! ### 2. the threads inside the queue API are blocked there; all locks are free -/

/-- the thread's next step is a queue operation -/
def inQueue (t : PThread) : Bool :=
  if t.isProd then t.q.pc != .start && t.q.pc != .done && t.q.pc != .eNext
  else t.cpc == .iter || t.cpc == .stopping

theorem holds_inQueue {c : Cfg} {tid : Tid} {t : PThread} (hs : Static c) (ht : c.ths[tid]? = some t)
    {l : Lk} (hh : holds l t.q.pc = true) : inQueue t = true := by
  have hmem : t ∈ c.ths := List.mem_of_getElem? ht
  have hne : t.q.pc ≠ .start ∧ t.q.pc ≠ .done ∧ t.q.pc ≠ .eNext := by
    refine ⟨?_, ?_, ?_⟩ <;> intro e <;> rw [e] at hh <;> cases l <;> simp [holds] at hh
  unfold inQueue
  cases hp : t.isProd with
  | true => simp [hne]
  | false =>
    simp only [Bool.false_eq_true, if_false, Bool.or_eq_true, beq_iff_eq]
    cases hc : t.cpc with
    | iter => exact Or.inl rfl
    | stopping => exact Or.inr rfl
    | boot => exact absurd ((hs.kindC t hmem hp).1 (Or.inl hc)).2.1 hne.1
    | submit => exact absurd ((hs.kindC t hmem hp).1 (Or.inr hc)).2.1 hne.1
    | shutdown => exact absurd (hs.endC t hmem hp (Or.inl hc)).1 hne.2.1
    | fin => exact absurd (hs.endC t hmem hp (Or.inr hc)).1 hne.2.1

theorem stuck_blocked {c : Cfg} {tid : Tid} {t : PThread} (hl : LockInv (qcfg c)) (hd : Stuck F c)
    (ht : c.ths[tid]? = some t) (hi : inQueue t = true) : blocked c.sh t.q tid = true := by
  have hnone : stepThread c.sh t.q tid false = none := by
    unfold inQueue at hi
    cases hp : t.isProd with
    | true =>
      simp only [hp, if_true, Bool.and_eq_true, bne_iff_ne, ne_eq] at hi
      exact stuck_prod_q hd ht hp hi.1.2 hi.1.1 hi.2
    | false =>
      simp only [hp, Bool.false_eq_true, if_false, Bool.or_eq_true, beq_iff_eq] at hi
      exact (stuck_cons hd ht hp).2.2.1 hi
  rcases stepThread_en (s := c.sh) (t := t.q) (tid := tid) (hl.1 tid t.q (qcfg_get ht)) with h | h
  · rw [hnone] at h; cases h
  · exact h

/-- **Lock-order acyclicity**: in a stuck configuration the three queue locks are free -/
theorem stuck_locks_free {c : Cfg} (hs : Static c) (hl : LockInv (qcfg c)) (hd : Stuck F c) :
    ∀ l, c.sh.owner l = none := by
  have hown : ∀ l u, c.sh.owner l = some u →
      ∃ tu, c.ths[u]? = some tu ∧ holds l tu.q.pc = true ∧ blocked c.sh tu.q u = true := by
    intro l u ho
    have hu : u < (qcfg c).ths.length := hl.2 l u ho
    have hu' : u < c.ths.length := by simpa [qcfg] using hu
    have htu : c.ths[u]? = some c.ths[u] := List.getElem?_eq_getElem hu'
    have hh := (hl.1 u c.ths[u].q (qcfg_get htu) l).mp ho
    exact ⟨c.ths[u], htu, hh, stuck_blocked hl hd htu (holds_inQueue hs htu hh)⟩
  have hst : c.sh.owner .st = none := by
    cases ho : c.sh.owner .st with
    | none => rfl
    | some u =>
      exfalso
      obtain ⟨tu, _, hh, hb⟩ := hown .st u ho
      obtain ⟨h1, h2, h3, h4⟩ := holds_st_pc tu.q.pc hh
      simp [blocked, acqBlocked, h1, h2, h3, h4] at hb
  intro l
  cases l with
  | st => exact hst
  | deq =>
    cases ho : c.sh.owner .deq with
    | none => rfl
    | some u =>
      exfalso
      obtain ⟨tu, _, hh, hb⟩ := hown .deq u ho
      obtain ⟨h1, h2, h3, h4⟩ := holds_deq_pc tu.q.pc hh
      rcases h2 with h2 | h2 <;> simp [blocked, acqBlocked, h1, h2, h3, h4, hst] at hb
  | enq =>
    cases ho : c.sh.owner .enq with
    | none => rfl
    | some u =>
      exfalso
      obtain ⟨tu, _, hh, hb⟩ := hown .enq u ho
      obtain ⟨h1, h2, h3, h4⟩ := holds_enq_pc tu.q.pc hh
      rcases h2 with h2 | h2 <;> simp [blocked, acqBlocked, h1, h2, h3, h4, hst] at hb

/-- a stuck thread inside the queue API is done or parked without having been notified -/
theorem stuck_parked {c : Cfg} {tid : Tid} {t : PThread} (hs : Static c) (hl : LockInv (qcfg c))
    (hd : Stuck F c) (ht : c.ths[tid]? = some t) (hi : inQueue t = true) :
    t.q.pc = .done ∨ (consWakePc t.q.pc = true ∧ tid ∉ c.sh.deqNotified) ∨
      (prodWakePc t.q.pc = true ∧ tid ∉ c.sh.enqNotified) := by
  have hall := stuck_locks_free hs hl hd
  have := stuck_blocked hl hd ht hi
  unfold blocked at this
  have hacq : acqBlocked c.sh t.q.pc = false := by
    unfold acqBlocked
    cases acqPc t.q.pc with
    | none => rfl
    | some l => simp [hall l]
  rw [hacq] at this
  simp only [hall, Option.isSome_none, Bool.false_or, Bool.or_false, Bool.or_eq_true,
    Bool.and_eq_true, beq_iff_eq, Bool.not_eq_true', List.contains_eq_mem, decide_eq_false_iff_not] at this
  rcases this with (h | h) | h
  · exact Or.inl h
  · exact Or.inr (Or.inl h)
  · exact Or.inr (Or.inr h)

/-- the input lock is free and no producer is inside `next(iterator)` -/
theorem stuck_no_enext {c : Cfg} (hc : Ctl c) (hil : ILockInv c) (hd : Stuck F c) :
    c.ilock = none ∧ ∀ (tid : Tid) (t : PThread), c.ths[tid]? = some t → t.isProd = true → t.q.pc ≠ .eNext := by
  have hfree : c.ilock = none := by
    cases ho : c.ilock with
    | none => rfl
    | some u =>
      exfalso
      have hu := hc.ilk u ho
      have htu : c.ths[u]? = some c.ths[u] := List.getElem?_eq_getElem hu
      have hh := (hil.own u _ htu).mp ho
      simp only [holdsI, Bool.and_eq_true, beq_iff_eq, bne_iff_ne, ne_eq] at hh
      obtain ⟨⟨⟨hp, hpc⟩, hul⟩, hipc⟩ := hh
      obtain ⟨-, e2, e3⟩ := stuck_prod_enext hd htu hp hpc
      cases hi : c.ths[u].ipc with
      | acq => exact hipc hi
      | next => exact (e2 hi).2 ho
      | rel => exact e3 hi ho
  refine ⟨hfree, fun tid t ht hp hpc => ?_⟩
  obtain ⟨e1, e2, e3⟩ := stuck_prod_enext hd ht hp hpc
  have hmem : t ∈ c.ths := List.mem_of_getElem? ht
  cases hi : t.ipc with
  | acq => exact e1 hi hfree
  | next =>
    have hul := (e2 hi).1
    have : holdsI t = true := by simp [holdsI, hp, hpc, hul, hi]
    have := (hil.own tid t ht).mpr this
    rw [hfree] at this; cases this
  | rel =>
    have hul := hc.rel t hmem hp hpc hi
    have : holdsI t = true := by simp [holdsI, hp, hpc, hul, hi]
    have := (hil.own tid t ht).mpr this
    rw [hfree] at this; cases this

/-! ### 3. nobody is parked, the pool gate is open, `shutdown()` is enabled -/

theorem isProd_q {c : Cfg} (hs : Static c) (hc : Ctl c) {t : PThread} (hmem : t ∈ c.ths) :
    Queue.isProd t.q = t.isProd := by
  cases hp : t.isProd with
  | true => simp [Queue.isProd, hs.kindP t hmem hp]
  | false => rcases hc.kindC t hmem hp with h | h <;> simp [Queue.isProd, h]

theorem wake_disjoint (pc : Pc) (h1 : consWakePc pc = true) (h2 : prodWakePc pc = true) : False := by
  cases pc <;> simp_all [consWakePc, prodWakePc]

theorem prodWake_kind (pc : Pc) (h : prodWakePc pc = true) : pcKind pc = some .producer := by
  cases pc <;> simp_all [prodWakePc, pcKind]

/-- the shape of a stuck configuration, thread by thread -/
theorem stuck_shape {c : Cfg} (hb : Base c) (hc : Ctl c) (hil : ILockInv c) (hl : LockInv (qcfg c))
    (hd : Stuck F c) {tid : Tid} {t : PThread} (ht : c.ths[tid]? = some t) :
    t.q.pc = .done ∨ (t.q.pc = .start ∧ t.isProd = true) ∨
      (consWakePc t.q.pc = true ∧ tid ∉ c.sh.deqNotified ∧ t.isProd = false ∧ t.cpc = .iter) ∨
      (prodWakePc t.q.pc = true ∧ tid ∉ c.sh.enqNotified ∧ t.isProd = true) := by
  have hs := hb.static
  have hmem : t ∈ c.ths := List.mem_of_getElem? ht
  have htok : TOK t.q := hb.data.tok t.q (List.mem_of_getElem? (qcfg_get ht))
  cases hp : t.isProd with
  | true =>
    have hk := hs.kindP t hmem hp
    by_cases h1 : t.q.pc = .done
    · exact Or.inl h1
    by_cases h2 : t.q.pc = .start
    · exact Or.inr (Or.inl ⟨h2, rfl⟩)
    have h3 := (stuck_no_enext hc hil hd).2 tid t ht hp
    have hi : inQueue t = true := by simp [inQueue, hp, h1, h2, h3]
    rcases stuck_parked hs hl hd ht hi with h | ⟨h, _⟩ | ⟨h, hn⟩
    · exact absurd h h1
    · exfalso
      rcases consWake_kind _ h with e | e <;> (have := htok.kind _ e; rw [hk] at this; cases this)
    · exact Or.inr (Or.inr (Or.inr ⟨h, hn, rfl⟩))
  | false =>
    obtain ⟨c1, c2, -, -⟩ := stuck_cons hd ht hp
    cases hcp : t.cpc with
    | boot => exact absurd hcp c1
    | submit => exact absurd hcp c2
    | shutdown => exact Or.inl (hs.endC t hmem hp (Or.inl hcp)).1
    | fin => exact Or.inl (hs.endC t hmem hp (Or.inr hcp)).1
    | iter =>
      have hi : inQueue t = true := by simp [inQueue, hp, hcp]
      have hne := hc.phase t hmem hp (Or.inl hcp)
      have hk : t.q.prog.kind = .batch := (hs.kindC t hmem hp).2.1 hcp
      rcases stuck_parked hs hl hd ht hi with h | ⟨h, hn⟩ | ⟨h, _⟩
      · exact absurd h hne.2
      · exact Or.inr (Or.inr (Or.inl ⟨h, hn, rfl, rfl⟩))
      · exfalso
        have := htok.kind _ (prodWake_kind _ h); rw [hk] at this; cases this
    | stopping =>
      exfalso
      have hi : inQueue t = true := by simp [inQueue, hp, hcp]
      have hne := hc.phase t hmem hp (Or.inr hcp)
      have hk : t.q.prog.kind = .stopper := by rw [(hs.kindC t hmem hp).2.2 hcp]; rfl
      rcases stuck_parked hs hl hd ht hi with h | ⟨h, _⟩ | ⟨h, _⟩
      · exact hne.2 h
      · rcases consWake_kind _ h with e | e <;> (have := htok.kind _ e; rw [hk] at this; cases this)
      · have := htok.kind _ (prodWake_kind _ h); rw [hk] at this; cases this

theorem start_class (t : Queue.Thread) (h : t.pc = .start) (hk : t.prog.kind = .producer) :
    sawEmpty t = false ∧ sawFull t = false ∧ activeC t = false ∧ debtD t = false ∧
    debtDAll t = false ∧ debtE t = false ∧ commitP t = false ∧ debtEAll t = false := by
  simp [sawEmpty, sawFull, activeC, debtD, debtDAll, debtE, commitP, debtEAll, h, isCons, hk]

/-- **Deadlock freedom of the parallel-iteration LTS.**  A reachable configuration (invariants `Base`,
`QL`, `Ctl`, `ILockInv`) with at least one producer in which no step is enabled is final. -/
theorem stuck_final {c : Cfg} (hb : Base c) (hq : QL c) (hc : Ctl c) (hil : ILockInv c)
    (hn : 0 < c.nProd) (hd : Stuck F c) : c.allDone = true := by
  have hs := hb.static
  have hv := hq.live
  have hqb := hv.base
  have hl := hqb.lock
  have hto : c.sh.timeout = false := hs.timeout
  obtain ⟨ndD, ndE, memD, memE⟩ := hqb.wait
  have shape := fun {tid t} (ht : c.ths[tid]? = some t) => stuck_shape hb hc hil hl hd ht
  -- the embedded threads
  have qths : ∀ (j : Nat) (u : Queue.Thread), (qcfg c).ths[j]? = some u →
      ∃ t, c.ths[j]? = some t ∧ u = t.q := by
    intro j u hu
    simp only [qcfg, List.getElem?_map, Option.map_eq_some_iff] at hu
    obtain ⟨t, ht, rfl⟩ := hu
    exact ⟨t, ht, rfl⟩
  have qmem : ∀ u ∈ (qcfg c).ths, ∃ (j : Nat) (t : PThread), c.ths[j]? = some t ∧ u = t.q := by
    intro u hu
    obtain ⟨j, hj⟩ := List.getElem?_of_mem hu
    obtain ⟨t, ht, e⟩ := qths j u hj
    exact ⟨j, t, ht, e⟩
  -- no thread is in any of the classes the invariant talks about
  have hno : ∀ P : Queue.Thread → Bool,
      (∀ t : Queue.Thread, (t.pc = .done ∨ consWakePc t.pc = true ∨ prodWakePc t.pc = true) → P t = false) →
      (∀ t : Queue.Thread, t.pc = .start → t.prog.kind = .producer → P t = false) →
      ¬ anyT (qcfg c) P := by
    rintro P hP1 hP2 ⟨u, hu, hp⟩
    obtain ⟨j, t, ht, rfl⟩ := qmem u hu
    have hmem : t ∈ c.ths := List.mem_of_getElem? ht
    rcases shape ht with h | ⟨h, hp'⟩ | ⟨h, _⟩ | ⟨h, _⟩
    · rw [hP1 _ (Or.inl h)] at hp; cases hp
    · rw [hP2 _ h (hs.kindP t hmem hp')] at hp; cases hp
    · rw [hP1 _ (Or.inr (Or.inl h))] at hp; cases hp
    · rw [hP1 _ (Or.inr (Or.inr h))] at hp; cases hp
  have nAC := hno activeC (fun t h => (parked_class t h).2.2.1) (fun t h k => (start_class t h k).2.2.1)
  have nDD := hno debtD (fun t h => (parked_class t h).2.2.2.1) (fun t h k => (start_class t h k).2.2.2.1)
  have nDA := hno debtDAll (fun t h => (parked_class t h).2.2.2.2.1) (fun t h k => (start_class t h k).2.2.2.2.1)
  have nDE := hno debtE (fun t h => (parked_class t h).2.2.2.2.2.1) (fun t h k => (start_class t h k).2.2.2.2.2.1)
  have nCP := hno commitP (fun t h => (parked_class t h).2.2.2.2.2.2.1)
    (fun t h k => (start_class t h k).2.2.2.2.2.2.1)
  have nEA := hno debtEAll (fun t h => (parked_class t h).2.2.2.2.2.2.2)
    (fun t h k => (start_class t h k).2.2.2.2.2.2.2)
  -- nobody has been notified
  have hdn : c.sh.deqNotified = [] := by
    rw [List.eq_nil_iff_forall_not_mem]
    intro x hx
    obtain ⟨u, hu, hw⟩ := (memD x).mp (by unfold wlD; exact List.mem_append_left _ hx)
    obtain ⟨t, ht, rfl⟩ := qths x u hu
    rcases shape ht with h | ⟨h, _⟩ | ⟨_, h, _⟩ | ⟨h, _⟩
    · rw [h] at hw; simp [consWakePc] at hw
    · rw [h] at hw; simp [consWakePc] at hw
    · exact h hx
    · exact wake_disjoint _ hw h
  have hen : c.sh.enqNotified = [] := by
    rw [List.eq_nil_iff_forall_not_mem]
    intro x hx
    obtain ⟨u, hu, hw⟩ := (memE x).mp (by unfold wlE; exact List.mem_append_left _ hx)
    obtain ⟨t, ht, rfl⟩ := qths x u hu
    rcases shape ht with h | ⟨h, _⟩ | ⟨h, _⟩ | ⟨_, h, _⟩
    · rw [h] at hw; simp [prodWakePc] at hw
    · rw [h] at hw; simp [prodWakePc] at hw
    · exact wake_disjoint _ h hw
    · exact h hx
  have hcw : ∀ (tid : Tid) (t : PThread), c.ths[tid]? = some t → consWakePc t.q.pc = true → c.sh.deqWait ≠ [] := by
    intro tid t ht hw
    have : tid ∈ wlD c.sh := (memD tid).mpr ⟨t.q, qcfg_get ht, hw⟩
    unfold wlD at this; rw [hdn, List.nil_append] at this
    intro e; rw [e] at this; cases this
  have hpw : ∀ (tid : Tid) (t : PThread), c.ths[tid]? = some t → prodWakePc t.q.pc = true → c.sh.enqWait ≠ [] := by
    intro tid t ht hw
    have : tid ∈ wlE c.sh := (memE tid).mpr ⟨t.q, qcfg_get ht, hw⟩
    unfold wlE at this; rw [hen, List.nil_append] at this
    intro e; rw [e] at this; cases this
  -- the consumer
  have h0 : 0 < c.ths.length := by have : c.nProd = c.ths.length - 1 := rfl; omega
  have ht0 : c.ths[0]? = some c.ths[0] := List.getElem?_eq_getElem h0
  have hm0 : c.ths[0] ∈ c.ths := List.mem_of_getElem? ht0
  have hp0 : c.ths[0].isProd = false := by
    cases hpp : c.ths[0].isProd with
    | false => rfl
    | true => exact absurd rfl ((hs.role 0 _ ht0).mp hpp)
  -- a producer that has not started can start as soon as no task is running and the consumer has
  -- submitted everything
  have hgate : c.nProd ≤ c.nsub → (∀ t ∈ c.ths, t.isProd = true → t.q.pc = .start ∨ t.q.pc = .done) →
      ∀ (tid : Tid) (t : PThread), c.ths[tid]? = some t → t.isProd = true → t.q.pc ≠ .start := by
    intro hsub hall tid t ht hp hpc
    apply stuck_prod_start hd ht hp hpc
    have htid : tid < c.ths.length := (List.getElem?_eq_some_iff.mp ht).1
    refine ⟨Nat.le_trans (Nat.le_sub_one_of_lt htid) hsub, ?_⟩
    have hrun : c.running = 0 := by
      unfold Cfg.running
      rw [List.length_eq_zero_iff, List.filter_eq_nil_iff]
      intro u hu
      cases hup : u.isProd with
      | false => simp
      | true => rcases hall u hu hup with h | h <;> simp [h]
    rw [hrun]
    omega
  have hcp0 := stuck_cons hd ht0 hp0
  have hsubd : c.nProd ≤ c.nsub := hc.sub _ hm0 hp0 hcp0.1 hcp0.2.1
  -- is a producer parked?
  by_cases hPP : c.sh.enqWait = []
  · -- no producer is parked: every producer is at `start` or `done`, hence (gate) `done`
    have hall : ∀ t ∈ c.ths, t.isProd = true → t.q.pc = .start ∨ t.q.pc = .done := by
      intro t hmem hp
      obtain ⟨j, hj⟩ := List.getElem?_of_mem hmem
      rcases shape hj with h | ⟨h, _⟩ | ⟨_, _, h, _⟩ | ⟨h, _⟩
      · exact Or.inr h
      · exact Or.inl h
      · rw [hp] at h; cases h
      · exact absurd hPP (hpw j t hj h)
    have hpdone : ∀ t ∈ c.ths, t.isProd = true → t.q.pc = .done := by
      intro t hmem hp
      obtain ⟨j, hj⟩ := List.getElem?_of_mem hmem
      rcases hall t hmem hp with h | h
      · exact absurd h (hgate hsubd hall j t hj hp)
      · exact h
    have hPD : c.producersDone = true := by
      simp only [Cfg.producersDone, List.all_eq_true]
      intro t hmem
      cases hp : t.isProd with
      | false => rfl
      | true => simp [hpdone t hmem hp]
    -- the consumer: not at `shutdown` (enabled), not parked (nobody left to wake it: J1/J2)
    have hcfin : c.ths[0].cpc = .fin := by
      cases hcp : c.ths[0].cpc with
      | fin => rfl
      | boot => exact absurd hcp hcp0.1
      | submit => exact absurd hcp hcp0.2.1
      | shutdown => have := hcp0.2.2.2 hcp; rw [hPD] at this; cases this
      | stopping =>
        exfalso
        rcases shape ht0 with h | ⟨_, h⟩ | ⟨_, _, _, h⟩ | ⟨_, _, h⟩
        · exact (hc.phase _ hm0 hp0 (Or.inr hcp)).2 h
        · rw [hp0] at h; cases h
        · rw [hcp] at h; cases h
        · rw [hp0] at h; cases h
      | iter =>
        exfalso
        rcases shape ht0 with h | ⟨_, h⟩ | ⟨hw, _⟩ | ⟨_, _, h⟩
        · exact (hc.phase _ hm0 hp0 (Or.inl hcp)).2 h
        · rw [hp0] at h; cases h
        · -- the consumer is parked although every producer is done
          have hDW := hcw 0 _ ht0 hw
          have hnd : ¬ c.sh.enqueueDone = true := fun hdn' => nDA (hv.j2 (Or.inl hDW) hdn')
          have hnd' := hnd
          rw [enqueueDone_iff] at hnd'
          have hsr : c.sh.stopRequested = false := by
            cases h : c.sh.stopRequested with
            | false => rfl
            | true => exact absurd (Or.inr (Or.inl h)) hnd'
          obtain ⟨e1, e2, e3⟩ := hqb.cnt hsr
          -- there is a producer, and all producers are past `_stop_enqueue` or left early
          have h1 : 1 < c.ths.length := by have : c.nProd = c.ths.length - 1 := rfl; omega
          have ht1 : c.ths[1]? = some c.ths[1] := List.getElem?_eq_getElem h1
          have hm1 : c.ths[1] ∈ c.ths := List.mem_of_getElem? ht1
          have hp1 : c.ths[1].isProd = true := (hs.role 1 _ ht1).mpr (by omega)
          have hpos : 0 < (qcfg c).ths.countP Queue.isProd := by
            rw [List.countP_pos_iff]
            exact ⟨c.ths[1].q, List.mem_of_getElem? (qcfg_get ht1), by rw [isProd_q hs hc hm1]; exact hp1⟩
          have hle1 : (qcfg c).ths.countP pastT ≤ (qcfg c).ths.countP pastS :=
            List.countP_mono_left (fun y _ h => pastT_pastS y h)
          have hle2 : (qcfg c).ths.countP pastS ≤ (qcfg c).ths.countP Queue.isProd :=
            List.countP_mono_left (fun y _ h => pastS_isProd y h)
          have hlt : (qcfg c).ths.countP pastT < (qcfg c).ths.countP Queue.isProd := by
            rcases Nat.lt_or_ge ((qcfg c).ths.countP pastT) ((qcfg c).ths.countP Queue.isProd) with h | h
            · exact h
            · exfalso
              apply hnd'
              right; right
              change (qcfg c).sh.maxEnq ≠ 0 ∧ (qcfg c).sh.start = (qcfg c).sh.stop ∧
                (qcfg c).sh.stop = (qcfg c).sh.maxEnq
              rw [e1, e2, e3]
              exact ⟨by omega, by omega, by omega⟩
          obtain ⟨a, ha, hap, hat⟩ := exists_of_countP_lt pastT Queue.isProd hlt
          obtain ⟨j, t, ht, rfl⟩ := qmem a ha
          have hmem : t ∈ c.ths := List.mem_of_getElem? ht
          have hp : t.isProd = true := by rw [← isProd_q hs hc hmem]; exact hap
          have hdone := hpdone t hmem hp
          apply hnd
          apply hqb.early
          refine ⟨t.q, ha, ?_⟩
          unfold early; unfold pastT at hat
          rw [hdone] at hat ⊢
          simp only [hap, Bool.true_and] at hat ⊢
          simp [hat]
        · rw [hp0] at h; cases h
    -- everything is done
    unfold Cfg.allDone
    rw [List.all_eq_true]
    intro t hmem
    unfold PThread.done
    cases hp : t.isProd with
    | true => simp [hpdone t hmem hp]
    | false =>
      obtain ⟨j, hj⟩ := List.getElem?_of_mem hmem
      have : j = 0 := by
        rcases Nat.eq_zero_or_pos j with h | h
        · exact h
        · have := (hs.role j t hj).mpr (by omega); rw [hp] at this; cases this
      subst this
      rw [ht0] at hj; cases hj
      simp [hcfin]
  · -- a producer is parked on the full queue: impossible
    exfalso
    have hnd : ¬ c.sh.enqueueDone = true := fun hdn' => nEA (hv.k2 (Or.inl hPP) hdn')
    -- the consumer is parked too (at `shutdown`/`fin` enqueueing would be done)
    have hDW : c.sh.deqWait ≠ [] := by
      rcases shape ht0 with h | ⟨_, h⟩ | ⟨hw, _⟩ | ⟨_, _, h⟩
      · -- the consumer's queue thread is done: `exhausted` or a stop request, so `enqueue_done`
        exfalso
        apply hnd
        have hx := hqb.xok _ (List.mem_of_getElem? (qcfg_get ht0))
        rcases hc.kindC _ hm0 hp0 with hk | hk
        · have : armed c.ths[0].q = true := by simp [armed, h, isCons, hk]
          rcases hx.2.2.2.2.1 this with h1 | h1
          · exact hqb.i3 h1
          · rw [show (qcfg c).sh.timeout = c.sh.timeout from rfl, hto] at h1; cases h1
        · have := hx.2.1 (by rw [h]; simp [isStopper, hk])
          exact (enqueueDone_iff _).mpr (Or.inr (Or.inl this))
      · rw [hp0] at h; cases h
      · exact hcw 0 _ ht0 hw
      · rw [hp0] at h; cases h
    have hq : c.sh.q = [] := by
      cases hqq : c.sh.q with
      | nil => rfl
      | cons a l =>
        exfalso
        rcases hv.j1 (Or.inl hDW) (by show c.sh.q ≠ []; rw [hqq]; simp) with h | h | h | h
        · exact h hdn
        · exact nAC h
        · exact nDD h
        · exact hnd h
    rcases hv.k1 (Or.inl hPP) with h | h | h | h | h
    · exact h hq
    · exact h hen
    · exact nDE h
    · exact nCP h
    · exact hnd h

/-! ### the number of pool tasks is fixed -/

theorem nProd_reachable {c0 c : Cfg} (h : Reachable F c0 c) : c.nProd = c0.nProd := by
  induction h with
  | init => rfl
  | step _ hs ih =>
    obtain ⟨t, ht, hk⟩ := step_inv hs
    obtain ⟨t', hths, -⟩ := step_frame ht hk
    rw [← ih]
    simp [Cfg.nProd, hths]

theorem nProd_init (cap bm mw : Nat) (ns : Option Nat) (soe : Bool) (inputs : List (List Item))
    (prods : List ProdSpec) : (init cap bm mw ns soe inputs prods).nProd = prods.length := by
  simp [Cfg.nProd, init]

/-- all four invariants at once, for every configuration reachable from `init` -/
theorem invs_reachable {cap bm mw : Nat} {ns : Option Nat} {soe : Bool} {inputs : List (List Item)}
    {prods : List ProdSpec} {c : Cfg} (h : Reachable F (init cap bm mw ns soe inputs prods) c) :
    Base c ∧ QL c ∧ Ctl c ∧ ILockInv c :=
  have hb0 := base_init cap bm mw ns soe inputs prods
  ⟨base_reachable hb0 h, ql_reachable hb0 (ql_init cap bm mw ns soe inputs prods) h,
   ctl_reachable hb0 (ctl_init cap bm mw ns soe inputs prods) h,
   ilock_reachable (ilock_init cap bm mw ns soe inputs prods) h⟩

end MlModel.Piter
