import MlModel.Lemmas.QueueVariantDefs
import MlModel.Lemmas.QueueLiveJ
/-!
# The termination measure decreases — the stepping thread's part, one step at a time
-/
namespace MlModel.Queue
set_option linter.unusedSimpArgs false

/-- a `get_batch` call that is about to return holds at least one element (no `ignore_error`) -/
def RN (t : Thread) : Prop :=
  (match t.pc with | .bExit | .bE1 | .bE2 | .bE3 => true | _ => false) = true → t.result ≠ []

def RNStep (s : Shared) (t : Thread) (tid : Tid) (alt : Bool) : Prop :=
  ∀ lbl s' t', stepThread s t tid alt = some (lbl, s', t') → s.ignoreError = false →
    (t.prog.kind = .batch → 0 < t.batchMax) → TOK t → RN t → RN t'

set_option hygiene false in
macro "rn_group" : tactic => `(tactic| (
  intro lbl s' t' h hig hmax htok hrn
  have hk := htok.kind
  clear htok
  unfold RN at hrn ⊢
  unfold stepThread at h
  cases hpc : t.pc <;> (try (simp only [hpc, Pc.group] at hg; omega)) <;>
    simp only [hpc] at h hk hrn <;>
    (try simp only [acquire, release, notify, waitPark, waitWake, goto, enqLoop, putLoop, batchLoop,
      afterRaise, afterValue] at h) <;>
    (repeat' split at h) <;>
    (try simp only [Option.some.injEq, Prod.mk.injEq, reduceCtorEq] at h) <;>
    (try (obtain ⟨-, rfl, rfl⟩ := h)) <;>
    simp_all [Shared.setOwner, Shared.owner, pcKind] <;>
    (try (cases hres : t.result <;> simp_all <;> omega))))

theorem rn_g0 {s t tid alt} (hg : t.pc.group = 0) : RNStep s t tid alt := by rn_group
theorem rn_g1 {s t tid alt} (hg : t.pc.group = 1) : RNStep s t tid alt := by rn_group
theorem rn_g2 {s t tid alt} (hg : t.pc.group = 2) : RNStep s t tid alt := by rn_group
theorem rn_g3 {s t tid alt} (hg : t.pc.group = 3) : RNStep s t tid alt := by rn_group
theorem rn_g4 {s t tid alt} (hg : t.pc.group = 4) : RNStep s t tid alt := by rn_group
theorem rn_g5 {s t tid alt} (hg : t.pc.group = 5) : RNStep s t tid alt := by rn_group
theorem rn_g6 {s t tid alt} (hg : t.pc.group = 6) : RNStep s t tid alt := by rn_group
theorem rn_g7 {s t tid alt} (hg : t.pc.group = 7) : RNStep s t tid alt := by rn_group

theorem stepThread_rn {s t tid alt} : RNStep s t tid alt := by
  have h := Pc.group_lt t.pc
  match hg : t.pc.group with
  | 0 => exact rn_g0 hg | 1 => exact rn_g1 hg | 2 => exact rn_g2 hg | 3 => exact rn_g3 hg
  | 4 => exact rn_g4 hg | 5 => exact rn_g5 hg | 6 => exact rn_g6 hg | 7 => exact rn_g7 hg
  | n + 8 => omega

/-- what a dequeue that empties the queue may add to the other consumers' parts -/
def flT (N : Nat) (s : Shared) (t : Thread) : Nat :=
  match t.pc with
  | .nGet _ => if s.q.length = 1 then wFlip * N else 0
  | _ => 0

def VStep (s : Shared) (t : Thread) (tid : Tid) (alt : Bool) : Prop :=
  ∀ lbl s' t', stepThread s t tid alt = some (lbl, s', t') → ∀ (N : Nat), 1 ≤ N →
    TOK t → (t.prog.kind = .batch → 0 < t.batchMax) →
    s.deqWait.length ≤ N → s.enqWait.length ≤ N → (t.pc = .bE3 → t.result ≠ []) →
    potG N s' + flT N s t + potT N (xEmpty s') t' < potG N s + potT N (xEmpty s') t

/-- a finer partition of the program points than `Pc.group` (the arithmetic goals are bigger) -/
def Pc.sub : Pc → Nat
  | .start | .done => 0
  | .nAcq _ => 1 | .nGet _ => 2 | .nEmp _ => 3 | .nNaOk _ | .nNaErr _ => 4 | .nRelOk _ => 5 | .nRelErr _ => 6
  | .gAcq | .gR0 | .gR1 | .gR2 | .gR3 | .gR4 | .gRet | .gWait | .gWake | .gRaise => 7
  | .bAcq | .bR0 | .bR1 | .bR2 | .bR3 | .bR4 => 8
  | .bEmp | .bWait | .bWake => 9
  | .bRaise | .bExit | .bE1 | .bE2 | .bE3 => 10
  | .sAcq | .sRel | .eNext => 11
  | .pAcq | .pPut => 12
  | .pStAcq | .pStRel | .pR0 | .pR1 | .pR2 | .pR3 | .pR4 | .pRet => 13
  | .pWait | .pWake | .pRaiseT | .pExit => 14
  | .tAcq | .tR0 | .tR1 | .tR2 | .tR3 | .tR4 | .tS0 | .tS1 | .tS2 | .tS3 | .tS4 | .tRel => 15
  | .mAcq | .mRel | .mE0 | .mE1 | .mE2 | .mD0 | .mD1 | .mD2 => 16

theorem Pc.sub_lt (pc : Pc) : pc.sub < 17 := by cases pc <;> simp [Pc.sub]

theorem wB_eq (N : Nat) : wB N = 300 + 60 * N := rfl
theorem wA_eq (N : Nat) : wA N = wB N + 100 := rfl

set_option hygiene false in
macro "v_group" : tactic => `(tactic| (
  intro lbl s' t' h N hN htok hmax hdw hew hrn
  have hk := htok.kind
  clear htok
  have hB := wB_eq N; have hA := wA_eq N
  generalize hx' : xEmpty s' = x'
  unfold stepThread at h
  cases hpc : t.pc <;> (try (simp only [hpc, Pc.sub] at hg; omega)) <;>
    (try (cases ‹Caller›)) <;>
    simp only [hpc] at h hk hrn <;>
    (try simp only [acquire, release, notify, waitPark, waitWake, goto, enqLoop, putLoop, batchLoop,
      afterRaise, afterValue] at h) <;>
    (repeat' split at h) <;>
    (try simp only [Option.some.injEq, Prod.mk.injEq, reduceCtorEq] at h) <;>
    (try (obtain ⟨-, rfl, rfl⟩ := h)) <;>
    cases x' <;>
    simp_all [potT, basePot, potG, srcLen, flT, xEmpty, Shared.setOwner, Shared.owner, enqueueDone_eq,
      wE, wD, wR, wFlip, wX, tA, pcKind, Prog.kind, isProd, Nat.mul_add, Nat.add_mul] <;>
    (repeat' split) <;> (try simp_all) <;>
    (try (have hposd := List.length_pos_of_mem ‹tid ∈ s.deqNotified›)) <;>
    (try (have hpose := List.length_pos_of_mem ‹tid ∈ s.enqNotified›)) <;>
    (try omega)))

theorem v_s0 {s t tid alt} (hg : t.pc.sub = 0) : VStep s t tid alt := by v_group
theorem v_s1 {s t tid alt} (hg : t.pc.sub = 1) : VStep s t tid alt := by v_group
theorem v_s2 {s t tid alt} (hg : t.pc.sub = 2) : VStep s t tid alt := by v_group
theorem v_s3 {s t tid alt} (hg : t.pc.sub = 3) : VStep s t tid alt := by v_group
theorem v_s4 {s t tid alt} (hg : t.pc.sub = 4) : VStep s t tid alt := by v_group
theorem v_s5 {s t tid alt} (hg : t.pc.sub = 5) : VStep s t tid alt := by v_group
theorem v_s6 {s t tid alt} (hg : t.pc.sub = 6) : VStep s t tid alt := by v_group
theorem v_s7 {s t tid alt} (hg : t.pc.sub = 7) : VStep s t tid alt := by v_group
theorem v_s8 {s t tid alt} (hg : t.pc.sub = 8) : VStep s t tid alt := by v_group
theorem v_s9 {s t tid alt} (hg : t.pc.sub = 9) : VStep s t tid alt := by v_group
theorem v_s10 {s t tid alt} (hg : t.pc.sub = 10) : VStep s t tid alt := by v_group
theorem v_s11 {s t tid alt} (hg : t.pc.sub = 11) : VStep s t tid alt := by v_group
theorem v_s12 {s t tid alt} (hg : t.pc.sub = 12) : VStep s t tid alt := by v_group
theorem v_s13 {s t tid alt} (hg : t.pc.sub = 13) : VStep s t tid alt := by v_group
theorem v_s14 {s t tid alt} (hg : t.pc.sub = 14) : VStep s t tid alt := by v_group
theorem v_s15 {s t tid alt} (hg : t.pc.sub = 15) : VStep s t tid alt := by v_group
theorem v_s16 {s t tid alt} (hg : t.pc.sub = 16) : VStep s t tid alt := by v_group

theorem stepThread_v {s t tid alt} : VStep s t tid alt := by
  have h := Pc.sub_lt t.pc
  match hg : t.pc.sub with
  | 0 => exact v_s0 hg | 1 => exact v_s1 hg | 2 => exact v_s2 hg | 3 => exact v_s3 hg
  | 4 => exact v_s4 hg | 5 => exact v_s5 hg | 6 => exact v_s6 hg | 7 => exact v_s7 hg
  | 8 => exact v_s8 hg | 9 => exact v_s9 hg | 10 => exact v_s10 hg | 11 => exact v_s11 hg
  | 12 => exact v_s12 hg | 13 => exact v_s13 hg | 14 => exact v_s14 hg | 15 => exact v_s15 hg
  | 16 => exact v_s16 hg
  | n + 17 => omega

end MlModel.Queue
