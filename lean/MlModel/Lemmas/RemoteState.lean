import MlModel.Model.RemoteState
/-!
# Lemmas on `Model/RemoteState.lean`: flag-free chains read the current heap
-/
namespace MlModel.RemoteState
open MlModel MlModel.Lazy

/-- result of ordinary Python evaluation, seen as the result of `_maybe_make` from the state `s` -/
def liftPy (r : Except Err PyVal × Heap) (s : SSt) : Except Err RV × SSt :=
  (r.1.map .val, { s with heap := r.2 })

@[simp] theorem chainR_nil (x : CExpr) : chainR x [] = x := rfl
@[simp] theorem chainR_cons (x : CExpr) (l : SLink) (ls : List SLink) :
    chainR x (l :: ls) = chainR (applyR x l) ls := rfl

theorem chainR_append (x : CExpr) (as bs : List SLink) : chainR x (as ++ bs) = chainR (chainR x as) bs := by
  simp [chainR, List.foldl_append]

theorem chainR_snoc (x : CExpr) (as : List SLink) (l : SLink) :
    chainR x (as ++ [l]) = .link (chainR x as) l false false := by
  simp [chainR_append, applyR]

theorem evalC_link_nocache (x : CExpr) (l : SLink) (z : Bool) (s : SSt) :
    evalC (.link x l false z) s = linkBody (evalC x s) l z := by
  simp [evalC]

/-- an error of the inner expression is the error of the whole flag-free chain -/
theorem evalC_chainR_err (ls : List SLink) : ∀ (x : CExpr) (s s1 : SSt) (e : Err),
    evalC x s = (.error e, s1) → evalC (chainR x ls) s = (.error e, s1) := by
  induction ls with
  | nil => intro x s s1 e h; simpa using h
  | cons l ls ih =>
    intro x s s1 e h
    rw [chainR_cons]
    apply ih
    simp [applyR, evalC_link_nocache, h, linkBody]

/-- **Key lemma.**  If the inner expression evaluates to the Python value `v`, the flag-free chain built on it
evaluates to what ordinary Python evaluation of the links gives on the *current* heap; nothing but the heap
changes — in particular the `LazyFn` cache is neither consulted nor written. -/
theorem evalC_chainR (ls : List SLink) : ∀ (x : CExpr) (s s1 : SSt) (v : PyVal),
    evalC x s = (.ok (.val v), s1) → evalC (chainR x ls) s = liftPy (pyChain v ls s1.heap) s1 := by
  induction ls with
  | nil => intro x s s1 v h; simp [h, liftPy, pyChain, Except.map]
  | cons l ls ih =>
    intro x s s1 v h
    rw [chainR_cons]
    cases hl : pyLink v l s1.heap with
    | mk res h' =>
      cases res with
      | error e =>
        have : evalC (applyR x l) s = (.error e, { s1 with heap := h' }) := by
          simp [applyR, evalC_link_nocache, h, linkBody, derefRV, hl]
        rw [evalC_chainR_err ls _ _ _ _ this]
        simp [pyChain, hl, liftPy, Except.map]
      | ok v' =>
        have : evalC (applyR x l) s = (.ok (.val v'), { s1 with heap := h' }) := by
          simp [applyR, evalC_link_nocache, h, linkBody, derefRV, hl]
        rw [ih _ _ _ _ this]
        simp [pyChain, hl, liftPy]

theorem evalC_root (id : Nat) (s : SSt) (v : PyVal) (h : s.hnd.lookup id = some v) :
    evalC (.root id) s = (.ok (.val v), s) := by
  simp [evalC, h]

theorem evalC_root_missing (id : Nat) (s : SSt) (h : s.hnd.lookup id = none) :
    evalC (.root id) s = (.error .missing, s) := by
  simp [evalC, h]

/-- flag-free chain on a handle = ordinary evaluation on the object it stands for, on the current heap -/
theorem evalC_handle_chain (id : Nat) (ls : List SLink) (s : SSt) (v : PyVal) (h : s.hnd.lookup id = some v) :
    evalC (chainR (.root id) ls) s = liftPy (pyChain v ls s.heap) s :=
  evalC_chainR ls _ _ _ _ (evalC_root id s v h)

theorem evalC_handle_chain_missing (id : Nat) (ls : List SLink) (s : SSt) (h : s.hnd.lookup id = none) :
    evalC (chainR (.root id) ls) s = (.error .missing, s) :=
  evalC_chainR_err ls _ _ _ _ (evalC_root_missing id s h)

/-! ## `cacheFree` -/

theorem cacheFree_chainR (ls : List SLink) : ∀ x : CExpr, (chainR x ls).cacheFree = x.cacheFree := by
  induction ls with
  | nil => intro x; rfl
  | cons l ls ih => intro x; rw [chainR_cons, ih]; simp [applyR, CExpr.cacheFree]

/-- a cache-free expression never touches the `LazyFn` cache, and its result and the rest of the state do not
depend on what the cache holds -/
theorem evalC_cacheFree (e : CExpr) : ∀ (s : SSt) (c : Lru.Cache CExpr RV), e.cacheFree = true →
    (evalC e s).2.fnc = s.fnc ∧
    evalC e { s with fnc := c } = ((evalC e s).1, { (evalC e s).2 with fnc := c }) := by
  induction e with
  | root id =>
    intro s c _
    cases h : s.hnd.lookup id <;> simp [evalC, h]
  | link x l cache lazy ih =>
    intro s c hc
    simp only [CExpr.cacheFree, Bool.and_eq_true, Bool.not_eq_true'] at hc
    obtain ⟨hc1, hc2⟩ := hc
    subst hc1
    obtain ⟨i1, i2⟩ := ih s c hc2
    rw [evalC_link_nocache, evalC_link_nocache, i2]
    cases hx : evalC x s with
    | mk res s1 =>
      rw [hx] at i1
      simp only at i1
      cases res with
      | error e => simp [linkBody, i1]
      | ok rv =>
        cases hd : derefRV rv s1 with
        | error e =>
          have hd' : derefRV rv { s1 with fnc := c } = .error e := by
            cases rv with
            | val p => simp [derefRV] at hd
            | hnd i => simpa [derefRV] using hd
          simp [linkBody, hd, hd', i1]
        | ok pv =>
          have hd' : derefRV rv { s1 with fnc := c } = .ok pv := by
            cases rv <;> simpa [derefRV] using hd
          cases hl : pyLink pv l s1.heap with
          | mk r2 h' =>
            cases r2 with
            | error e => simp [linkBody, hd, hd', hl, i1]
            | ok v => cases lazy <;> simp [linkBody, hd, hd', hl, i1, newHandle]

end MlModel.RemoteState
