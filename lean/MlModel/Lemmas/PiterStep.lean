import MlModel.Lemmas.QueueFault
import MlModel.Lemmas.QueueProd
/-!
# More one-step facts about `Queue.stepThread`, used by the parallel-iteration proofs

Same technique as `QueueLocks/QueueData/QueueFault`: one statement for every program point, proved
by splitting the program points into the eight groups of `Pc.group`.

* `CtlStep`   — how the enqueue bookkeeping (`start`, `stop`, `maxEnq`, `returned`, `stopRequested`,
                `exc`) changes;
* `FlowStep`  — which program points follow which (as far as the producers' phases are concerned),
                and what happens to the value a producer holds;
* `ArmStep`   — how a consumer arms the exception that ends its `get_batch`.
-/
namespace MlModel.Queue

/-- the producer has executed the increment of `_start_enqueue` -/
def pastStart : Pc → Bool
  | .start | .sAcq => false
  | _ => true

/-- the producer has executed the increment of `_stop_enqueue` (or left without: `done`) -/
def pastStop : Pc → Bool
  | .tR0 | .tR1 | .tR2 | .tR3 | .tR4 | .tS0 | .tS1 | .tS2 | .tS3 | .tS4 | .tRel | .done => true
  | _ => false

def CtlStep (s : Shared) (t : Thread) (tid : Tid) (alt : Bool) : Prop :=
  ∀ lbl s' t', stepThread s t tid alt = some (lbl, s', t') → t.pc ≠ .eNext →
    s'.timeout = s.timeout ∧ s'.ignoreError = s.ignoreError ∧ s'.cap = s.cap ∧
    s'.start = (if t.pc = .sAcq then s.start + 1 else if t.pc = .mAcq then s.maxEnq else s.start) ∧
    s'.maxEnq = (if t.pc = .sAcq then max s.maxEnq (s.start + 1) else s.maxEnq) ∧
    s'.stop = (if t.pc = .tAcq then min (s.stop + 1) s.start else if t.pc = .mAcq then s.maxEnq else s.stop) ∧
    s'.returned = (if t.pc = .tAcq then s.returned ++ t.rets else s.returned) ∧
    s'.stopRequested = (s.stopRequested || t.pc == .mAcq) ∧
    (s'.exc = s.exc ∨ t.pc = .pRaiseT ∨ (t.pc = .mAcq ∧ t.prog ≠ .stopper none)) ∧
    t'.prog = t.prog ∧ (t'.rets = t.rets ∨ t.pc = .pRaiseT) ∧
    (alt = true → s.timeout = true)

set_option hygiene false in
macro "ctl_group" : tactic => `(tactic| (
  intro lbl s' t' h hne
  unfold stepThread at h
  cases hpc : t.pc <;> (try (simp only [hpc, Pc.group] at hg; omega)) <;>
    simp only [hpc] at h hne <;>
    (try simp only [acquire, release, notify, waitPark, waitWake, goto, enqLoop, putLoop, batchLoop,
      afterRaise, afterValue] at h) <;>
    (repeat' split at h) <;>
    (try simp only [Option.some.injEq, Prod.mk.injEq, reduceCtorEq] at h) <;>
    (try (obtain ⟨-, rfl, rfl⟩ := h)) <;>
    simp_all [Shared.setOwner] <;>
    (try (cases hprog : t.prog <;> simp_all))))

theorem ctl_g0 {s t tid alt} (hg : t.pc.group = 0) : CtlStep s t tid alt := by ctl_group
theorem ctl_g1 {s t tid alt} (hg : t.pc.group = 1) : CtlStep s t tid alt := by ctl_group
theorem ctl_g2 {s t tid alt} (hg : t.pc.group = 2) : CtlStep s t tid alt := by ctl_group
theorem ctl_g3 {s t tid alt} (hg : t.pc.group = 3) : CtlStep s t tid alt := by ctl_group
theorem ctl_g4 {s t tid alt} (hg : t.pc.group = 4) : CtlStep s t tid alt := by ctl_group
theorem ctl_g5 {s t tid alt} (hg : t.pc.group = 5) : CtlStep s t tid alt := by ctl_group
theorem ctl_g6 {s t tid alt} (hg : t.pc.group = 6) : CtlStep s t tid alt := by ctl_group
theorem ctl_g7 {s t tid alt} (hg : t.pc.group = 7) : CtlStep s t tid alt := by ctl_group

theorem stepThread_ctl {s t tid alt} : CtlStep s t tid alt := by
  have h := Pc.group_lt t.pc
  match hg : t.pc.group with
  | 0 => exact ctl_g0 hg | 1 => exact ctl_g1 hg | 2 => exact ctl_g2 hg | 3 => exact ctl_g3 hg
  | 4 => exact ctl_g4 hg | 5 => exact ctl_g5 hg | 6 => exact ctl_g6 hg | 7 => exact ctl_g7 hg
  | n + 8 => omega


/-! ### flow of the program points -/

@[simp] theorem enqueueDone_setOwner (s : Shared) (l : Lk) (o : Option Tid) :
    (s.setOwner l o).enqueueDone = s.enqueueDone := by cases l <;> rfl
@[simp] theorem produced_setOwner (s : Shared) (l : Lk) (o : Option Tid) :
    (s.setOwner l o).produced = s.produced := by cases l <;> rfl
@[simp] theorem exc_setOwner (s : Shared) (l : Lk) (o : Option Tid) :
    (s.setOwner l o).exc = s.exc := by cases l <;> rfl
@[simp] theorem q_setOwner (s : Shared) (l : Lk) (o : Option Tid) :
    (s.setOwner l o).q = s.q := by cases l <;> rfl
@[simp] theorem exhausted_setOwner (s : Shared) (l : Lk) (o : Option Tid) :
    (s.setOwner l o).exhausted = s.exhausted := by cases l <;> rfl
@[simp] theorem final_setOwner (s : Shared) (l : Lk) (o : Option Tid) :
    (s.setOwner l o).final = s.final := by cases l <;> rfl
@[simp] theorem ignoreError_setOwner (s : Shared) (l : Lk) (o : Option Tid) :
    (s.setOwner l o).ignoreError = s.ignoreError := by cases l <;> rfl

def FlowStep (s : Shared) (t : Thread) (tid : Tid) (alt : Bool) : Prop :=
  ∀ lbl s' t', stepThread s t tid alt = some (lbl, s', t') → t.pc ≠ .eNext →
    (t.pc ≠ .start → pastStart t'.pc = (pastStart t.pc || t.pc == .sAcq)) ∧
    (pastStop t.pc = true → pastStop t'.pc = true) ∧
    (pastStop t'.pc = true → pastStop t.pc = true ∨ t.pc = .tAcq ∨ s.enqueueDone = true ∨
      pcKind t.pc ≠ some .producer) ∧
    (pendPc t'.pc = true → pendPc t.pc = true ∧ t'.v = t.v) ∧
    (pendPc t.pc = true → pendPc t'.pc = true ∨ (t.pc = .pPut ∧ t'.pc = .pStAcq) ∨ s.enqueueDone = true ∨
      alt = true) ∧
    (t.pc = .pPut → t'.pc = .pStAcq → s'.produced = s.produced ++ [t.v]) ∧
    (¬(t.pc = .pPut ∧ t'.pc = .pStAcq) → s'.produced = s.produced) ∧
    (t'.pc = .tAcq → s'.exc.isSome = true) ∧
    (t'.pc = .eNext → pendPc t.pc = false) ∧
    (t.pc = .tAcq → pastStop t'.pc = true)

set_option hygiene false in
macro "flow_group" : tactic => `(tactic| (
  intro lbl s' t' h hne
  unfold stepThread at h
  cases hpc : t.pc <;> (try (simp only [hpc, Pc.group] at hg; omega)) <;>
    simp only [hpc] at h hne <;>
    (try simp only [acquire, release, notify, waitPark, waitWake, goto, enqLoop, putLoop, batchLoop,
      afterRaise, afterValue] at h) <;>
    (repeat' split at h) <;>
    (try simp only [Option.some.injEq, Prod.mk.injEq, reduceCtorEq] at h) <;>
    (try (obtain ⟨-, rfl, rfl⟩ := h)) <;>
    simp_all [pastStart, pastStop, pendPc, pcKind] <;>
    (try simp_all [Shared.setOwner, Shared.enqueueDone])))

theorem flow_g0 {s t tid alt} (hg : t.pc.group = 0) : FlowStep s t tid alt := by flow_group
theorem flow_g1 {s t tid alt} (hg : t.pc.group = 1) : FlowStep s t tid alt := by flow_group
theorem flow_g2 {s t tid alt} (hg : t.pc.group = 2) : FlowStep s t tid alt := by flow_group
theorem flow_g3 {s t tid alt} (hg : t.pc.group = 3) : FlowStep s t tid alt := by flow_group
theorem flow_g4 {s t tid alt} (hg : t.pc.group = 4) : FlowStep s t tid alt := by flow_group
theorem flow_g5 {s t tid alt} (hg : t.pc.group = 5) : FlowStep s t tid alt := by flow_group
theorem flow_g6 {s t tid alt} (hg : t.pc.group = 6) : FlowStep s t tid alt := by flow_group
theorem flow_g7 {s t tid alt} (hg : t.pc.group = 7) : FlowStep s t tid alt := by flow_group

theorem stepThread_flow {s t tid alt} : FlowStep s t tid alt := by
  have h := Pc.group_lt t.pc
  match hg : t.pc.group with
  | 0 => exact flow_g0 hg | 1 => exact flow_g1 hg | 2 => exact flow_g2 hg | 3 => exact flow_g3 hg
  | 4 => exact flow_g4 hg | 5 => exact flow_g5 hg | 6 => exact flow_g6 hg | 7 => exact flow_g7 hg
  | n + 8 => omega


/-! ### the queue content, `exhausted`, and how a consumer arms its final exception -/

def ArmStep (s : Shared) (t : Thread) (tid : Tid) (alt : Bool) : Prop :=
  ∀ lbl s' t', stepThread s t tid alt = some (lbl, s', t') → t.pc ≠ .eNext →
    (s'.q = s.q ∨ t.pc = .pPut ∨ (∃ v, s.q = v :: s'.q)) ∧
    (s'.exhausted = true → s.exhausted = true ∨ (s.enqueueDone = true ∧ s'.q = []) ∨
      (t.pc = .mD0 ∧ t.prog ≠ .stopper none)) ∧
    (∀ c, t'.pc = .nNaErr c → s'.exhausted = true) ∧
    (∀ c, t'.pc = .nRelErr c → t'.x = .empty ∨
      (t'.x = s'.final ∧ (s'.exhausted = true ∨ (t.pc = .nNaErr c ∧ s'.exhausted = s.exhausted)))) ∧
    (t'.pc = .bRaise → alt = true ∨ (t.pc = .nRelErr .batch ∧ t'.x = t.x ∧ t.x ≠ .empty ∧
      (∀ r, t.x = .stop r → t.result = []) ∧ t'.result = t.result)) ∧
    (t.pc = .bRaise → t'.pc = .done ∧ t'.outcome = some t.x ∧ t'.result = [] ∧ t'.received = t.received ∧
      s'.lost = s.lost ++ t.result) ∧
    (t.pc = .bE3 → t'.pc = .bAcq ∧ t'.received = t.received ++ t.result ∧ t'.result = [] ∧ s'.lost = s.lost) ∧
    (t'.received = t.received ∨ t.pc = .bE3 ∨ t.pc = .gRet) ∧
    (t'.pc = .done → t'.result = [] ∨ t'.result = t.result)

set_option hygiene false in
macro "arm_group" : tactic => `(tactic| (
  intro lbl s' t' h hne
  unfold stepThread at h
  cases hpc : t.pc <;> (try (simp only [hpc, Pc.group] at hg; omega)) <;>
    simp only [hpc] at h hne <;>
    (try simp only [acquire, release, notify, waitPark, waitWake, goto, enqLoop, putLoop, batchLoop,
      afterRaise, afterValue] at h) <;>
    (repeat' split at h) <;>
    (try simp only [Option.some.injEq, Prod.mk.injEq, reduceCtorEq] at h) <;>
    (try (obtain ⟨-, rfl, rfl⟩ := h)) <;>
    simp_all <;>
    (try simp_all [Shared.setOwner, Shared.enqueueDone, Shared.final]) <;>
    (try (cases hprog : t.prog <;> simp_all)) <;>
    (try (refine Or.inr (Or.inr ?_); rintro rfl; simp_all))))

theorem arm_g0 {s t tid alt} (hg : t.pc.group = 0) : ArmStep s t tid alt := by arm_group
theorem arm_g1 {s t tid alt} (hg : t.pc.group = 1) : ArmStep s t tid alt := by arm_group
theorem arm_g2 {s t tid alt} (hg : t.pc.group = 2) : ArmStep s t tid alt := by arm_group
theorem arm_g3 {s t tid alt} (hg : t.pc.group = 3) : ArmStep s t tid alt := by arm_group
theorem arm_g4 {s t tid alt} (hg : t.pc.group = 4) : ArmStep s t tid alt := by arm_group
theorem arm_g5 {s t tid alt} (hg : t.pc.group = 5) : ArmStep s t tid alt := by arm_group
theorem arm_g6 {s t tid alt} (hg : t.pc.group = 6) : ArmStep s t tid alt := by arm_group
theorem arm_g7 {s t tid alt} (hg : t.pc.group = 7) : ArmStep s t tid alt := by arm_group

theorem stepThread_arm {s t tid alt} : ArmStep s t tid alt := by
  have h := Pc.group_lt t.pc
  match hg : t.pc.group with
  | 0 => exact arm_g0 hg | 1 => exact arm_g1 hg | 2 => exact arm_g2 hg | 3 => exact arm_g3 hg
  | 4 => exact arm_g4 hg | 5 => exact arm_g5 hg | 6 => exact arm_g6 hg | 7 => exact arm_g7 hg
  | n + 8 => omega


/-! ### what a producer's step cannot touch -/

def PStep (s : Shared) (t : Thread) (tid : Tid) (alt : Bool) : Prop :=
  ∀ lbl s' t', stepThread s t tid alt = some (lbl, s', t') → pcKind t.pc = some .producer → t.pc ≠ .eNext →
    s'.exhausted = s.exhausted ∧ s'.lost = s.lost ∧ s'.dequeued = s.dequeued ∧
    (s'.q = s.q ∨ (t.pc = .pPut ∧ t'.pc = .pStAcq))

set_option hygiene false in
macro "pstep_group" : tactic => `(tactic| (
  intro lbl s' t' h hk hne
  unfold stepThread at h
  cases hpc : t.pc <;> (try (simp only [hpc, Pc.group] at hg; omega)) <;>
    simp only [hpc] at h hne hk <;>
    (try (simp [pcKind] at hk; done)) <;>
    (try simp only [acquire, release, notify, waitPark, waitWake, goto, enqLoop, putLoop, batchLoop,
      afterRaise, afterValue] at h) <;>
    (repeat' split at h) <;>
    (try simp only [Option.some.injEq, Prod.mk.injEq, reduceCtorEq] at h) <;>
    (try (obtain ⟨-, rfl, rfl⟩ := h)) <;>
    simp_all [Shared.setOwner]))

theorem pstep_g4 {s t tid alt} (hg : t.pc.group = 4) : PStep s t tid alt := by pstep_group
theorem pstep_g5 {s t tid alt} (hg : t.pc.group = 5) : PStep s t tid alt := by pstep_group
theorem pstep_g6 {s t tid alt} (hg : t.pc.group = 6) : PStep s t tid alt := by pstep_group

theorem group_of_producer {pc : Pc} (h : pcKind pc = some .producer) :
    pc.group = 4 ∨ pc.group = 5 ∨ pc.group = 6 := by
  cases pc <;> simp [pcKind, Pc.group] at h ⊢ <;> (rename_i c; cases c <;> simp at h)

theorem stepThread_pstep {s t tid alt} : PStep s t tid alt := by
  intro lbl s' t' h hk hne
  rcases group_of_producer hk with hg | hg | hg
  · exact pstep_g4 hg lbl s' t' h hk hne
  · exact pstep_g5 hg lbl s' t' h hk hne
  · exact pstep_g6 hg lbl s' t' h hk hne


/-! ### once enqueueing is done no producer parks again -/

def NoParkStep (s : Shared) (t : Thread) (tid : Tid) (alt : Bool) : Prop :=
  ∀ lbl s' t', stepThread s t tid alt = some (lbl, s', t') → s.enqueueDone = true →
    t'.pc ≠ .pWait ∧ (t.pc = .pPut → t'.pc = .pExit ∨ t'.pc = .pStAcq) ∧
    (t.pc = .sRel ∨ t.pc = .pRet ∨ t.pc = .pExit → t'.pc = .done)

set_option hygiene false in
macro "nopark_group" : tactic => `(tactic| (
  intro lbl s' t' h hd
  unfold stepThread at h
  cases hpc : t.pc <;> (try (simp only [hpc, Pc.group] at hg; omega)) <;>
    simp only [hpc] at h <;>
    (try simp only [acquire, release, notify, waitPark, waitWake, goto, enqLoop, putLoop, batchLoop,
      afterRaise, afterValue] at h) <;>
    (repeat' split at h) <;>
    (try simp only [Option.some.injEq, Prod.mk.injEq, reduceCtorEq] at h) <;>
    (try (obtain ⟨-, rfl, rfl⟩ := h)) <;>
    simp_all))

theorem nopark_g0 {s t tid alt} (hg : t.pc.group = 0) : NoParkStep s t tid alt := by nopark_group
theorem nopark_g1 {s t tid alt} (hg : t.pc.group = 1) : NoParkStep s t tid alt := by nopark_group
theorem nopark_g2 {s t tid alt} (hg : t.pc.group = 2) : NoParkStep s t tid alt := by nopark_group
theorem nopark_g3 {s t tid alt} (hg : t.pc.group = 3) : NoParkStep s t tid alt := by nopark_group
theorem nopark_g4 {s t tid alt} (hg : t.pc.group = 4) : NoParkStep s t tid alt := by nopark_group
theorem nopark_g5 {s t tid alt} (hg : t.pc.group = 5) : NoParkStep s t tid alt := by nopark_group
theorem nopark_g6 {s t tid alt} (hg : t.pc.group = 6) : NoParkStep s t tid alt := by nopark_group
theorem nopark_g7 {s t tid alt} (hg : t.pc.group = 7) : NoParkStep s t tid alt := by nopark_group

theorem stepThread_nopark {s t tid alt} : NoParkStep s t tid alt := by
  have h := Pc.group_lt t.pc
  match hg : t.pc.group with
  | 0 => exact nopark_g0 hg | 1 => exact nopark_g1 hg | 2 => exact nopark_g2 hg | 3 => exact nopark_g3 hg
  | 4 => exact nopark_g4 hg | 5 => exact nopark_g5 hg | 6 => exact nopark_g6 hg | 7 => exact nopark_g7 hg
  | n + 8 => omega

end MlModel.Queue
