import MlModel.Lemmas.PiterFrame
/-!
# Unconditional invariants of the parallel-iteration LTS: `Static` and `DataInv (qcfg ·)`

The queue part of the configuration satisfies the data invariant of the `IteratorQueue` LTS
(`Lemmas/QueueInv.lean`: FIFO, sub-sequence, conservation) — every queue step of an embedded thread is
a step of that LTS (`qstep_of`), and what the parallel-iteration layer adds only moves a thread between
program points that hold no dequeued element (or moves delivered elements to `lost` on an early stop).
-/
namespace MlModel.Piter
open MlModel.Queue

variable {F : Nat → Option (List Nat)}

theorem seqOf_eq {a b : Queue.Thread} (hr : b.received = a.received) (hres : b.result = a.result)
    (ha : inHandPc a.pc = false) (hb : inHandPc b.pc = false) : seqOf b = seqOf a := by
  simp [seqOf, inHand, hr, hres, ha, hb]

theorem seqOf_postProd (tid : Tid) (t : PThread) (q' : Queue.Thread) :
    seqOf (postProd tid t q').q = seqOf q' := by
  unfold postProd enterNext
  by_cases h : q'.pc = .eNext
  · cases hp : t.pend <;> simp [h, seqOf, inHand, inHandPc]
  · simp [h]

theorem sub_of_eq {a b : Queue.Thread} (h : seqOf b = seqOf a) : (seqOf b).Sublist (seqOf a) := by
  rw [h]; exact List.Sublist.refl _

theorem perm_of_eq {a b : Queue.Thread} (h : seqOf b = seqOf a) : (seqOf b ++ []).Perm (seqOf a) := by
  simp [h]

theorem data_tweak {c : Cfg} {tid : Tid} {t t' : PThread} {s2 : Shared} {x : List (List Item)}
    {y : Option Tid} {z : Nat} {extra : List Elem}
    (hi : DataInv (qcfg c)) (ht : c.ths[tid]? = some t) (htok : TOK t'.q)
    (hsub : (seqOf t'.q).Sublist (seqOf t.q)) (hperm : (seqOf t'.q ++ extra).Perm (seqOf t.q))
    (h1 : s2.produced = c.sh.produced) (h2 : s2.dequeued = c.sh.dequeued) (h3 : s2.q = c.sh.q)
    (h4 : s2.lost = c.sh.lost ++ extra) :
    DataInv (qcfg { c with sh := s2, ths := c.ths.set tid t', inputs := x, ilock := y, nsub := z }) := by
  rw [qcfg_set]
  exact dataInv_set hi (qcfg_get ht) htok hsub hperm h1 h2 h3 h4

theorem data_tweak_same {c : Cfg} {tid : Tid} {t t' : PThread} {s2 : Shared} {x : List (List Item)}
    {y : Option Tid} {z : Nat}
    (hi : DataInv (qcfg c)) (ht : c.ths[tid]? = some t) (htok : TOK t'.q) (hseq : seqOf t'.q = seqOf t.q)
    (h1 : s2.produced = c.sh.produced) (h2 : s2.dequeued = c.sh.dequeued) (h3 : s2.q = c.sh.q)
    (h4 : s2.lost = c.sh.lost) :
    DataInv (qcfg { c with sh := s2, ths := c.ths.set tid t', inputs := x, ilock := y, nsub := z }) :=
  data_tweak (extra := []) hi ht htok (by rw [hseq]; exact List.Sublist.refl _) (by simp [hseq]) h1 h2 h3
    (by simp [h4])

theorem data_deleg {c : Cfg} {tid : Tid} {alt : Bool} {t t' : PThread} {lbl : String} {s' s2 : Shared}
    {q' : Queue.Thread} {x : List (List Item)} {y : Option Tid} {z : Nat} {extra : List Elem}
    (hi : DataInv (qcfg c)) (ht : c.ths[tid]? = some t)
    (hst : stepThread c.sh t.q tid alt = some (lbl, s', q')) (htok : TOK t'.q)
    (hsub : (seqOf t'.q).Sublist (seqOf q')) (hperm : (seqOf t'.q ++ extra).Perm (seqOf q'))
    (h1 : s2.produced = s'.produced) (h2 : s2.dequeued = s'.dequeued) (h3 : s2.q = s'.q)
    (h4 : s2.lost = s'.lost ++ extra) :
    DataInv (qcfg { c with sh := s2, ths := c.ths.set tid t', inputs := x, ilock := y, nsub := z }) := by
  rw [qcfg_set]
  have hq := dataInv_step hi (qstep_of ht hst)
  have htid : tid < (qcfg c).ths.length := by
    rcases List.getElem?_eq_some_iff.mp (qcfg_get ht) with ⟨h, _⟩; exact h
  have := dataInv_set (tid := tid) (a := q') (b := t'.q) (s2 := s2) (extra := extra) hq
    (by simp [List.getElem?_set_self htid]) htok hsub hperm h1 h2 h3 h4
  simpa [List.set_set] using this

end MlModel.Piter

namespace MlModel.Piter
open MlModel.Queue

variable {F : Nat → Option (List Nat)}

theorem tok_mk {b : Queue.Thread} {k : PKind} (hk : b.prog.kind = k) (hpc : pcKind b.pc = some k ∨ pcKind b.pc = none)
    (hres : k ≠ .batch → b.result = []) : TOK b := by
  constructor
  · intro k' h
    rcases hpc with h' | h' <;> rw [h'] at h
    · simp only [Option.some.injEq] at h; rw [← h]; exact hk
    · simp at h
  · intro h; exact hres (by rwa [hk] at h)

theorem afterPull_pc (tid : Tid) (s : Shared) (t : PThread) (r : PullRes) :
    (afterPull F tid s t r).2.q.pc = .tAcq ∨ (afterPull F tid s t r).2.q.pc = .pAcq ∨
    ((afterPull F tid s t r).2.q.pc = t.q.pc) := by
  unfold afterPull failPull
  split
  · simp
  · simp
  · split <;> simp

theorem data_step {c c' : Cfg} {tid : Tid} {alt : Bool} {lbl : String} {t : PThread}
    (hs : Static c) (hi : DataInv (qcfg c)) (ht : c.ths[tid]? = some t)
    (hk : StepKind F c tid alt t lbl c') : DataInv (qcfg c') := by
  have hmem : t ∈ c.ths := List.mem_of_getElem? ht
  have htok : TOK t.q := hi.tok t.q (List.mem_of_getElem? (qcfg_get ht))
  cases hk with
  | pstart hp hpc =>
    refine data_tweak_same (s2 := c.sh) (x := c.inputs) (y := c.ilock) (z := c.nsub) hi ht ?_ ?_ rfl rfl rfl rfl
    · exact tok_mk (hs.kindP t hmem hp) (Or.inl rfl) (fun _ => htok.res (by rw [hs.kindP t hmem hp]; simp))
    · exact seqOf_eq rfl rfl (by rw [hpc]; rfl) rfl
  | iacq =>
    exact data_tweak_same (s2 := c.sh) (x := c.inputs) (y := some tid) (z := c.nsub) hi ht htok rfl rfl rfl rfl rfl
  | inextL =>
    exact data_tweak_same (s2 := c.sh) (y := c.ilock) (z := c.nsub) hi ht htok rfl rfl rfl rfl rfl
  | inextU hp hpc =>
    have h := afterPull_frame (F := F) tid c.sh t (pull c.inputs t.sid).1
    have hpc' := afterPull_pc (F := F) tid c.sh t (pull c.inputs t.sid).1
    obtain ⟨-, -, -, hprog, -, -, hrec, hres, -, -, h1, h2, h3, h4⟩ := h
    refine data_tweak_same (y := c.ilock) (z := c.nsub) hi ht ?_ ?_ h1 h2 h3 h4
    · refine tok_mk (k := .producer) (by rw [hprog]; exact hs.kindP t hmem hp) ?_
        (fun _ => by rw [hres]; exact htok.res (by rw [hs.kindP t hmem hp]; simp))
      rcases hpc' with h | h | h <;> rw [h] <;> simp [pcKind, hpc]
    · refine seqOf_eq hrec hres (by rw [hpc]; rfl) ?_
      rcases hpc' with h | h | h <;> rw [h] <;> simp [inHandPc, hpc]
  | irel hp hpc =>
    have h := afterPull_frame (F := F) tid c.sh t t.hand
    have hpc' := afterPull_pc (F := F) tid c.sh t t.hand
    obtain ⟨-, -, -, hprog, -, -, hrec, hres, -, -, h1, h2, h3, h4⟩ := h
    refine data_tweak_same (x := c.inputs) (y := none) (z := c.nsub) hi ht ?_ ?_ h1 h2 h3 h4
    · refine tok_mk (k := .producer) (by rw [hprog]; exact hs.kindP t hmem hp) ?_
        (fun _ => by rw [hres]; exact htok.res (by rw [hs.kindP t hmem hp]; simp))
      rcases hpc' with h | h | h <;> rw [h] <;> simp [pcKind, hpc]
    · refine seqOf_eq hrec hres (by rw [hpc]; rfl) ?_
      rcases hpc' with h | h | h <;> rw [h] <;> simp [inHandPc, hpc]
  | @pq lbl s' q' hp hd hst0 hne hst =>
    obtain ⟨htok', hprog', -⟩ := stepThread_data lbl s' q' hst htok
    have hkp : q'.prog.kind = .producer := by rw [hprog']; exact hs.kindP t hmem hp
    have hfr := postProd_frame tid t q'
    obtain ⟨-, -, -, hprog, -, -, hrec, hres, -⟩ := hfr
    have hpcs : (postProd tid t q').q.pc = q'.pc ∨ (q'.pc = .eNext ∧ (postProd tid t q').q.pc = .pAcq) := by
      unfold postProd enterNext
      cases t.pend <;> (repeat' split) <;> simp_all
    refine data_deleg (extra := []) (x := c.inputs) (y := c.ilock) (z := c.nsub) hi ht hst ?_ ?_ ?_ rfl rfl rfl
      (by simp)
    · refine tok_mk (k := .producer) (by rw [hprog]; exact hkp) ?_
        (fun _ => by rw [hres]; exact htok'.res (by rw [hkp]; simp))
      rcases hpcs with h | ⟨_, h⟩
      · rw [h]
        cases hq : pcKind q'.pc with
        | none => exact Or.inr rfl
        | some k => left; rw [← htok'.kind k hq, hkp]
      · rw [h]; exact Or.inl rfl
    · have : seqOf (postProd tid t q').q = seqOf q' := by
        rcases hpcs with h | ⟨h1, h⟩
        · simp [seqOf, inHand, hrec, hres, h]
          unfold postProd enterNext
          cases t.pend <;> (repeat' split) <;> simp_all [inHandPc]
        · simp [seqOf, inHand, hrec, hres, h, h1, inHandPc]
      rw [this]; exact List.Sublist.refl _
    · have : seqOf (postProd tid t q').q = seqOf q' := by
        rcases hpcs with h | ⟨h1, h⟩
        · simp [seqOf, inHand, hrec, hres, h]
          unfold postProd enterNext
          cases t.pend <;> (repeat' split) <;> simp_all [inHandPc]
        · simp [seqOf, inHand, hrec, hres, h, h1, inHandPc]
      simp [this]
  | cboot0 hp hc =>
    obtain ⟨⟨hkb, hpc0, hr0⟩, -, -⟩ := hs.kindC t hmem hp |>.imp_left (fun f => f (Or.inl hc))
    refine data_tweak_same (s2 := c.sh) (x := c.inputs) (y := c.ilock) (z := c.nsub) hi ht ?_ ?_ rfl rfl rfl rfl
    · unfold beginIter; split
      · exact tok_mk (k := .stopper) rfl (Or.inl rfl) (fun _ => hr0)
      · exact tok_mk (k := .batch) hkb (Or.inl rfl) (fun h => absurd rfl h)
    · unfold beginIter; split <;> exact seqOf_eq rfl rfl (by rw [hpc0]; rfl) rfl
  | cboot hp hc =>
    exact data_tweak_same (s2 := c.sh) (x := c.inputs) (y := c.ilock) (z := c.nsub) hi ht htok rfl rfl rfl rfl rfl
  | csubmit hp hc =>
    obtain ⟨⟨hkb, hpc0, hr0⟩, -, -⟩ := hs.kindC t hmem hp |>.imp_left (fun f => f (Or.inr hc))
    refine data_tweak_same (s2 := c.sh) (x := c.inputs) (y := c.ilock) hi ht ?_ ?_ rfl rfl rfl rfl
    · split
      · unfold beginIter; split
        · exact tok_mk (k := .stopper) rfl (Or.inl rfl) (fun _ => hr0)
        · exact tok_mk (k := .batch) hkb (Or.inl rfl) (fun h => absurd rfl h)
      · exact htok
    · split
      · unfold beginIter; split <;> exact seqOf_eq rfl rfl (by rw [hpc0]; rfl) rfl
      · rfl
  | @citer lbl s' q' hp hc hst =>
    obtain ⟨htok', hprog', -⟩ := stepThread_data lbl s' q' hst htok
    have hkb : t.q.prog.kind = .batch := (hs.kindC t hmem hp).2.1 hc
    by_cases hne : t.q.pc = .eNext
    · have := htok.kind .producer (by rw [hne]; rfl); rw [hkb] at this; cases this
    obtain ⟨-, -, -, -, -, hA, hB, -, -⟩ := stepThread_arm lbl s' q' hst hne
    unfold afterIter
    split
    · rename_i hb
      have hb' : t.q.pc = .bRaise := by simpa using hb
      obtain ⟨hd, -, hr, -, -⟩ := hA hb'
      split
      · refine data_deleg (extra := []) (x := c.inputs) (y := c.ilock) (z := c.nsub) hi ht hst ?_ ?_ ?_ rfl rfl rfl
          (by simp)
        · exact tok_mk (k := .stopper) rfl (Or.inl rfl) (fun _ => hr)
        · exact sub_of_eq (seqOf_eq rfl rfl (by rw [hd]; rfl) rfl)
        · exact perm_of_eq (seqOf_eq rfl rfl (by rw [hd]; rfl) rfl)
      · refine data_deleg (extra := []) (x := c.inputs) (y := c.ilock) (z := c.nsub) hi ht hst htok' ?_ ?_ rfl rfl rfl
          (by simp)
        · exact List.Sublist.refl _
        · simp
    · split
      · rename_i hb
        have hb' : t.q.pc = .bE3 := by simpa using hb
        obtain ⟨hpc', -, hr, -⟩ := hB hb'
        split
        · exact data_deleg (extra := []) (x := c.inputs) (y := c.ilock) (z := c.nsub) hi ht hst htok'
            (List.Sublist.refl _) (by simp) rfl rfl rfl (by simp)
        · rename_i k hk
          split
          · refine data_deleg (extra := q'.received.drop k) (x := c.inputs) (y := c.ilock) (z := c.nsub) hi ht hst
              ?_ ?_ ?_ rfl rfl rfl rfl
            · exact tok_mk (k := .stopper) rfl (Or.inl rfl) (fun _ => hr)
            · simp only [seqOf, inHand, hr, hpc', inHandPc, List.append_nil, Bool.false_eq_true, if_false]
              exact (List.take_sublist _ _)
            · simp only [seqOf, inHand, hr, hpc', inHandPc, List.append_nil, Bool.false_eq_true, if_false]
              simp
          · exact data_deleg (extra := []) (x := c.inputs) (y := c.ilock) (z := c.nsub) hi ht hst htok'
              (List.Sublist.refl _) (by simp) rfl rfl rfl (by simp)
      · exact data_deleg (extra := []) (x := c.inputs) (y := c.ilock) (z := c.nsub) hi ht hst htok'
          (List.Sublist.refl _) (by simp) rfl rfl rfl (by simp)
  | @cstop lbl s' q' hp hc hst =>
    obtain ⟨htok', hprog', -⟩ := stepThread_data lbl s' q' hst htok
    refine data_deleg (extra := []) (x := c.inputs) (y := c.ilock) (z := c.nsub) hi ht hst ?_ ?_ ?_ rfl rfl rfl
      (by simp)
    · unfold postStop; split <;> exact htok'
    · unfold postStop; split <;> exact List.Sublist.refl _
    · unfold postStop; split <;> simp
  | cshutdown hp hc =>
    exact data_tweak_same (s2 := c.sh) (x := c.inputs) (y := c.ilock) (z := c.nsub) hi ht htok rfl rfl rfl rfl rfl

end MlModel.Piter

namespace MlModel.Piter
open MlModel.Queue

variable {F : Nat → Option (List Nat)}

theorem static_of {c c' : Cfg} {tid : Tid} {t t' : PThread} (hs : Static c) (ht : c.ths[tid]? = some t)
    (hths : c'.ths = c.ths.set tid t') (hp : t'.isProd = t.isProd) (hto : c'.sh.timeout = false)
    (hkP : t'.isProd = true → t'.q.prog.kind = .producer)
    (hkC : t'.isProd = false →
      ((t'.cpc = .boot ∨ t'.cpc = .submit) → t'.q.prog.kind = .batch ∧ t'.q.pc = .start ∧ t'.q.result = []) ∧
      (t'.cpc = .iter → t'.q.prog.kind = .batch) ∧ (t'.cpc = .stopping → t'.q.prog = .stopper none))
    (hseq : t'.isProd = true → seqOf t'.q = [])
    (hend : t'.isProd = false → (t'.cpc = .shutdown ∨ t'.cpc = .fin) → t'.q.pc = .done ∧ t'.q.result = [])
    (hce : t'.isProd = false → t'.emitted = [] ∧ t'.pulled = []) : Static c' := by
  have htid : tid < c.ths.length := by
    rcases List.getElem?_eq_some_iff.mp ht with ⟨h, _⟩; exact h
  refine ⟨hto, ?_, ?_, ?_, ?_, ?_, ?_⟩
  · intro u tu hu
    rw [hths] at hu
    by_cases hut : u = tid
    · subst hut
      simp only [List.getElem?_set_self htid, Option.some.injEq] at hu
      subst hu; rw [hp]; exact hs.role u t ht
    · rw [List.getElem?_set_ne (Ne.symm hut)] at hu
      exact hs.role u tu hu
  · intro u hu; rw [hths] at hu
    rcases List.mem_or_eq_of_mem_set hu with hu | rfl
    · exact hs.kindP u hu
    · exact hkP
  · intro u hu; rw [hths] at hu
    rcases List.mem_or_eq_of_mem_set hu with hu | rfl
    · exact hs.kindC u hu
    · exact hkC
  · intro u hu; rw [hths] at hu
    rcases List.mem_or_eq_of_mem_set hu with hu | rfl
    · exact hs.seqP u hu
    · exact hseq
  · intro u hu; rw [hths] at hu
    rcases List.mem_or_eq_of_mem_set hu with hu | rfl
    · exact hs.endC u hu
    · exact hend
  · intro u hu; rw [hths] at hu
    rcases List.mem_or_eq_of_mem_set hu with hu | rfl
    · exact hs.consE u hu
    · exact hce

theorem static_step {c c' : Cfg} {tid : Tid} {alt : Bool} {lbl : String} {t : PThread}
    (hs : Static c) (hi : DataInv (qcfg c)) (ht : c.ths[tid]? = some t)
    (hk : StepKind F c tid alt t lbl c') : Static c' := by
  have hmem : t ∈ c.ths := List.mem_of_getElem? ht
  have htok : TOK t.q := hi.tok t.q (List.mem_of_getElem? (qcfg_get ht))
  cases hk with
  | pstart hp hpc =>
    refine static_of hs ht rfl rfl hs.timeout (fun _ => hs.kindP t hmem hp) (fun h => by simp [hp] at h) ?_
      (fun h => by simp [hp] at h) (fun h => by simp [hp] at h)
    intro _
    have := hs.seqP t hmem hp
    rw [← this]; exact seqOf_eq rfl rfl (by rw [hpc]; rfl) rfl
  | iacq hp =>
    exact static_of hs ht rfl rfl hs.timeout (fun _ => hs.kindP t hmem hp) (fun h => by simp [hp] at h)
      (fun _ => hs.seqP t hmem hp) (fun h => by simp [hp] at h) (fun h => by simp [hp] at h)
  | inextL hp =>
    exact static_of hs ht rfl rfl hs.timeout (fun _ => hs.kindP t hmem hp) (fun h => by simp [hp] at h)
      (fun _ => hs.seqP t hmem hp) (fun h => by simp [hp] at h) (fun h => by simp [hp] at h)
  | inextU hp hpc =>
    have h := afterPull_frame (F := F) tid c.sh t (pull c.inputs t.sid).1
    have hpc' := afterPull_pc (F := F) tid c.sh t (pull c.inputs t.sid).1
    obtain ⟨hip, -, -, hprog, -, -, hrec, hres, -, hto, -⟩ := h
    refine static_of hs ht rfl hip (by rw [hto]; exact hs.timeout) (fun _ => by rw [hprog]; exact hs.kindP t hmem hp)
      (fun h => by rw [hip, hp] at h; cases h) ?_ (fun h => by rw [hip, hp] at h; cases h)
      (fun h => by rw [hip, hp] at h; cases h)
    intro _
    rw [← hs.seqP t hmem hp]
    refine seqOf_eq hrec hres (by rw [hpc]; rfl) ?_
    rcases hpc' with h | h | h <;> rw [h] <;> simp [inHandPc, hpc]
  | irel hp hpc =>
    have h := afterPull_frame (F := F) tid c.sh t t.hand
    have hpc' := afterPull_pc (F := F) tid c.sh t t.hand
    obtain ⟨hip, -, -, hprog, -, -, hrec, hres, -, hto, -⟩ := h
    refine static_of hs ht rfl hip (by rw [hto]; exact hs.timeout) (fun _ => by rw [hprog]; exact hs.kindP t hmem hp)
      (fun h => by rw [hip, hp] at h; cases h) ?_ (fun h => by rw [hip, hp] at h; cases h)
      (fun h => by rw [hip, hp] at h; cases h)
    intro _
    rw [← hs.seqP t hmem hp]
    refine seqOf_eq hrec hres (by rw [hpc]; rfl) ?_
    rcases hpc' with h | h | h <;> rw [h] <;> simp [inHandPc, hpc]
  | @pq lbl s' q' hp hd hst0 hne hst =>
    obtain ⟨htok', hprog', -, -, -, -, hseq⟩ := stepThread_data lbl s' q' hst htok
    have hc := stepThread_ctl lbl s' q' hst hne
    have hfr := postProd_frame tid t q'
    obtain ⟨hip, -, -, hprog, -, -, hrec, hres, -⟩ := hfr
    have hkd := pcKind_producer_of (hs.kindP t hmem hp) htok hst0 hd
    refine static_of hs ht rfl hip (by rw [hc.1]; exact hs.timeout)
      (fun _ => by rw [hprog, hprog']; exact hs.kindP t hmem hp) (fun h => by rw [hip, hp] at h; cases h) ?_
      (fun h => by rw [hip, hp] at h; cases h) (fun h => by rw [hip, hp] at h; cases h)
    intro _
    rw [extOf_producer hkd, droppedOf_producer hkd, hs.seqP t hmem hp] at hseq
    simp only [List.append_nil] at hseq
    have hq' : seqOf q' = [] := hseq.symm
    rw [seqOf_postProd]; exact hq'
  | cboot0 hp hc =>
    obtain ⟨hkb, hpc0, hr0⟩ := (hs.kindC t hmem hp).1 (Or.inl hc)
    obtain ⟨he1, he2⟩ := hs.consE t hmem hp
    refine static_of hs ht rfl (by unfold beginIter; split <;> rfl) hs.timeout
      (fun h => by unfold beginIter at h; split at h <;> simp [hp] at h) ?_
      (fun h => by unfold beginIter at h; split at h <;> simp [hp] at h) ?_ ?_
    · intro _
      unfold beginIter; split <;> simp [hkb]
    · intro _; unfold beginIter; split <;> simp
    · intro _; unfold beginIter; split <;> exact ⟨he1, he2⟩
  | cboot hp hc =>
    obtain ⟨hkb, hpc0, hr0⟩ := (hs.kindC t hmem hp).1 (Or.inl hc)
    exact static_of hs ht rfl rfl hs.timeout (fun h => by simp [hp] at h)
      (fun _ => ⟨fun _ => ⟨hkb, hpc0, hr0⟩, fun h => by simp at h, fun h => by simp at h⟩)
      (fun h => by simp [hp] at h) (fun _ h => by simp at h) (fun _ => hs.consE t hmem hp)
  | csubmit hp hc =>
    obtain ⟨hkb, hpc0, hr0⟩ := (hs.kindC t hmem hp).1 (Or.inr hc)
    obtain ⟨he1, he2⟩ := hs.consE t hmem hp
    refine static_of hs ht rfl (by split <;> (try unfold beginIter) <;> (try split) <;> rfl) hs.timeout
      (fun h => by split at h <;> (try unfold beginIter at h) <;> (try split at h) <;> simp [hp] at h) ?_
      (fun h => by split at h <;> (try unfold beginIter at h) <;> (try split at h) <;> simp [hp] at h) ?_ ?_
    · intro _
      split
      · unfold beginIter; split <;> simp [hkb]
      · simp [hc, hkb, hpc0, hr0]
    · intro _
      split
      · unfold beginIter; split <;> simp
      · simp [hc]
    · intro _
      split
      · unfold beginIter; split <;> exact ⟨he1, he2⟩
      · exact ⟨he1, he2⟩
  | @citer lbl s' q' hp hc hst =>
    obtain ⟨htok', hprog', -⟩ := stepThread_data lbl s' q' hst htok
    have hkb : t.q.prog.kind = .batch := (hs.kindC t hmem hp).2.1 hc
    obtain ⟨he1, he2⟩ := hs.consE t hmem hp
    by_cases hne : t.q.pc = .eNext
    · have := htok.kind .producer (by rw [hne]; rfl); rw [hkb] at this; cases this
    have hctl := stepThread_ctl lbl s' q' hst hne
    obtain ⟨-, -, -, -, -, hA, -, -, -⟩ := stepThread_arm lbl s' q' hst hne
    have hip : (afterIter c t.q.pc s' { t with q := q' }).2.isProd = false := by
      unfold afterIter; (repeat' split) <;> exact hp
    refine static_of hs ht rfl (by rw [hip, hp]) ?_ (fun h => by rw [hip] at h; cases h) ?_
      (fun h => by rw [hip] at h; cases h) ?_ ?_
    · have : (afterIter c t.q.pc s' { t with q := q' }).1.timeout = s'.timeout := by
        unfold afterIter; (repeat' split) <;> rfl
      rw [this, hctl.1]; exact hs.timeout
    · intro _
      unfold afterIter; (repeat' split) <;> simp [hc, hprog', hkb]
    · intro _
      unfold afterIter
      split
      · rename_i hb
        have hb' : t.q.pc = .bRaise := by simpa using hb
        obtain ⟨hd, -, hr, -, -⟩ := hA hb'
        split <;> simp [hd, hr]
      · (repeat' split) <;> simp [hc]
    · intro _
      unfold afterIter; (repeat' split) <;> exact ⟨he1, he2⟩
  | @cstop lbl s' q' hp hc hst =>
    obtain ⟨htok', hprog', -⟩ := stepThread_data lbl s' q' hst htok
    have hps : t.q.prog = .stopper none := (hs.kindC t hmem hp).2.2 hc
    obtain ⟨he1, he2⟩ := hs.consE t hmem hp
    by_cases hne : t.q.pc = .eNext
    · have := htok.kind .producer (by rw [hne]; rfl); rw [hps] at this; cases this
    have hctl := stepThread_ctl lbl s' q' hst hne
    have hip : (postStop t q').isProd = false := by unfold postStop; split <;> exact hp
    have hres : q'.result = [] := htok'.res (by rw [hprog', hps]; simp [Prog.kind])
    refine static_of hs ht rfl (by rw [hip, hp]) (by rw [hctl.1]; exact hs.timeout)
      (fun h => by rw [hip] at h; cases h) ?_ (fun h => by rw [hip] at h; cases h) ?_ ?_
    · intro _
      unfold postStop; split <;> simp [hc, hprog', hps]
    · intro _
      unfold postStop; split
      · rename_i hd; intro _; exact ⟨by simpa using hd, hres⟩
      · simp [hc]
    · intro _
      unfold postStop; split <;> exact ⟨he1, he2⟩
  | cshutdown hp hc =>
    exact static_of hs ht rfl rfl hs.timeout (fun h => by simp [hp] at h)
      (fun _ => ⟨fun h => by simp at h, fun h => by simp at h, fun h => by simp at h⟩)
      (fun h => by simp [hp] at h) (fun _ _ => hs.endC t hmem hp (Or.inl hc)) (fun _ => hs.consE t hmem hp)

end MlModel.Piter

namespace MlModel.Piter
open MlModel.Queue

variable {F : Nat → Option (List Nat)}

structure Base (c : Cfg) : Prop where
  static : Static c
  data : DataInv (qcfg c)

theorem base_step {c c' : Cfg} {tid : Tid} {alt : Bool} {lbl : String} (hb : Base c)
    (h : step F c tid alt = some (lbl, c')) : Base c' := by
  obtain ⟨t, ht, hk⟩ := step_inv h
  exact ⟨static_step hb.static hb.data ht hk, data_step hb.static hb.data ht hk⟩

theorem mem_init_ths {cap bm mw : Nat} {ns : Option Nat} {soe : Bool} {inputs : List (List Item)}
    {prods : List ProdSpec} {t : PThread} (h : t ∈ (init cap bm mw ns soe inputs prods).ths) :
    t = mkConsumer bm ∨ ∃ p ∈ prods, t = mkProducer p := by
  simp only [init, List.mem_cons, List.mem_map] at h
  rcases h with h | ⟨p, hp, rfl⟩
  · exact Or.inl h
  · exact Or.inr ⟨p, hp, rfl⟩

theorem base_init (cap bm mw : Nat) (ns : Option Nat) (soe : Bool) (inputs : List (List Item))
    (prods : List ProdSpec) : Base (init cap bm mw ns soe inputs prods) := by
  refine ⟨⟨rfl, ?_, ?_, ?_, ?_, ?_, ?_⟩, ⟨?_, rfl, ?_, ?_⟩⟩
  · intro tid t ht
    cases tid with
    | zero => simp only [init, List.getElem?_cons_zero, Option.some.injEq] at ht; subst ht; simp [mkConsumer]
    | succ n =>
      simp only [init, List.getElem?_cons_succ, List.getElem?_map, Option.map_eq_some_iff] at ht
      obtain ⟨p, _, rfl⟩ := ht; simp [mkProducer]
  · intro t ht hp
    rcases mem_init_ths ht with rfl | ⟨p, _, rfl⟩
    · simp [mkConsumer] at hp
    · rfl
  · intro t ht hp
    rcases mem_init_ths ht with rfl | ⟨p, _, rfl⟩
    · simp [mkConsumer, Prog.kind]
    · simp [mkProducer] at hp
  · intro t ht hp
    rcases mem_init_ths ht with rfl | ⟨p, _, rfl⟩
    · simp [mkConsumer] at hp
    · simp [mkProducer, seqOf, inHand, inHandPc]
  · intro t ht hp
    rcases mem_init_ths ht with rfl | ⟨p, _, rfl⟩
    · simp [mkConsumer]
    · simp [mkProducer] at hp
  · intro t ht hp
    rcases mem_init_ths ht with rfl | ⟨p, _, rfl⟩
    · simp [mkConsumer]
    · simp [mkProducer] at hp
  · intro q hq
    simp only [qcfg, List.mem_map] at hq
    obtain ⟨t, ht, rfl⟩ := hq
    rcases mem_init_ths ht with rfl | ⟨p, _, rfl⟩
    · exact ⟨by intro k hk; simp [mkConsumer, pcKind] at hk, by intro _; rfl⟩
    · exact ⟨by intro k hk; simp [mkProducer, pcKind] at hk, by intro _; rfl⟩
  · intro q hq
    simp only [qcfg, List.mem_map] at hq
    obtain ⟨t, ht, rfl⟩ := hq
    rcases mem_init_ths ht with rfl | ⟨p, _, rfl⟩
    · simp [mkConsumer, seqOf, inHand, inHandPc, init]
    · simp [mkProducer, seqOf, inHand, inHandPc, init]
  · have : sumSeq (qcfg (init cap bm mw ns soe inputs prods)).ths = [] := by
      simp only [sumSeq, List.flatten_eq_nil_iff, List.mem_map]
      rintro l ⟨q, hq, rfl⟩
      simp only [qcfg, List.mem_map] at hq
      obtain ⟨t, ht, rfl⟩ := hq
      rcases mem_init_ths ht with rfl | ⟨p, _, rfl⟩
      · simp [mkConsumer, seqOf, inHand, inHandPc]
      · simp [mkProducer, seqOf, inHand, inHandPc]
    rw [this]; simp [init, qcfg]

theorem base_reachable {c0 c : Cfg} (h0 : Base c0) (h : Reachable F c0 c) : Base c := by
  induction h with
  | init => exact h0
  | step _ hs ih => exact base_step ih hs

end MlModel.Piter
