import MlModel.Lemmas.PipeAggMain
/-!
# `get_result`: how the state map is flattened into `agg_result`
-/
namespace MlModel.PipeAgg
open MlModel MlModel.Agg

variable {X S Rv : Type}

/-! ### lists -/

theorem nodup_of_mem_flatten_nodup {α : Type} :
    ∀ {L : List (List α)}, L.flatten.Nodup → ∀ l ∈ L, l.Nodup := by
  intro L
  induction L with
  | nil => intro _ l hl; cases hl
  | cons l0 L ih =>
    intro h l hl
    rw [List.flatten_cons, List.nodup_append] at h
    rcases List.mem_cons.mp hl with rfl | hl'
    · exact h.1
    · exact ih h.2.1 l hl'

theorem eq_of_mem_flatten_nodup {α : Type} :
    ∀ {L : List (List α)}, L.flatten.Nodup → ∀ {l1 l2 : List α}, l1 ∈ L → l2 ∈ L →
      ∀ {x : α}, x ∈ l1 → x ∈ l2 → l1 = l2 := by
  intro L
  induction L with
  | nil => intro _ l1 l2 h1; cases h1
  | cons l0 L ih =>
    intro h l1 l2 h1 h2 x hx1 hx2
    rw [List.flatten_cons, List.nodup_append] at h
    rcases List.mem_cons.mp h1 with rfl | h1'
    · rcases List.mem_cons.mp h2 with rfl | h2'
      · rfl
      · exact absurd rfl (h.2.2 x hx1 x (List.mem_flatten.mpr ⟨l2, h2', hx2⟩))
    · rcases List.mem_cons.mp h2 with rfl | h2'
      · exact absurd rfl (h.2.2 x hx2 x (List.mem_flatten.mpr ⟨l1, h1', hx1⟩))
      · exact ih h.2.1 h1' h2' hx1 hx2

theorem Pipeline.WF.out_nodup {P : Pipeline X S Rv} (h : P.WF) {a : Agg X S Rv} (ha : a ∈ P.aggs) :
    a.out.Nodup :=
  nodup_of_mem_flatten_nodup h.outs_nodup _ (List.mem_map.mpr ⟨a, ha, rfl⟩)

/-- an output key names one aggregate -/
theorem Pipeline.WF.agg_of_name {P : Pipeline X S Rv} (h : P.WF) {a a' : Agg X S Rv} (ha : a ∈ P.aggs)
    (ha' : a' ∈ P.aggs) {n : String} (hn : n ∈ a.out) (hn' : n ∈ a'.out) : a = a' := by
  have := eq_of_mem_flatten_nodup h.outs_nodup (List.mem_map.mpr ⟨a, ha, rfl⟩)
    (List.mem_map.mpr ⟨a', ha', rfl⟩) hn hn'
  exact eq_of_nodup_map (fun x : Agg X S Rv => x.out) h.outs_map_nodup ha ha' this

/-- `dict` built by successive `d[k] = v`: a key all of whose assignments carry the same value -/
theorem get?_foldl_set {κ σ : Type} [DecidableEq κ] (key : κ) :
    ∀ (ps : List (κ × σ)) (r0 : List (κ × σ)),
      (∀ v v', (key, v) ∈ ps → (key, v') ∈ ps → v = v') →
      AList.get? (ps.foldl (fun r p => AList.set r p.1 p.2) r0) key =
        match ps.find? (fun p => p.1 = key) with
        | some p => some p.2
        | none => AList.get? r0 key := by
  intro ps
  induction ps with
  | nil => intro r0 _; rfl
  | cons p ps ih =>
    intro r0 hfun
    have hfun' : ∀ v v', (key, v) ∈ ps → (key, v') ∈ ps → v = v' :=
      fun v v' h1 h2 => hfun v v' (List.mem_cons_of_mem _ h1) (List.mem_cons_of_mem _ h2)
    rw [List.foldl_cons, ih _ hfun']
    by_cases hp : p.1 = key
    · simp only [List.find?_cons, hp, decide_true]
      cases hq : ps.find? (fun p => decide (p.1 = key)) with
      | none => simp [AList.get?_set]
      | some q =>
        have hq1 : q.1 = key := by simpa using List.find?_some hq
        have hqm : q ∈ ps := List.mem_of_find?_eq_some hq
        have h1 : (key, p.2) ∈ p :: ps := by rw [← hp]; exact List.mem_cons_self
        have h2 : (key, q.2) ∈ p :: ps := by rw [← hq1]; exact List.mem_cons_of_mem _ hqm
        simp only [hfun _ _ h1 h2]
    · have hp' : ¬ key = p.1 := fun e => hp e.symm
      simp only [List.find?_cons, hp, decide_false]
      cases hq : ps.find? (fun p => decide (p.1 = key)) with
      | none => simp [AList.get?_set, hp']
      | some q => rfl

/-! ### `Agg.outputs` -/

theorem Agg.outputs_names {a : Agg X S Rv} {s : S} {outs : List (String × ROut Rv)}
    (h : a.outputs s = .ok outs) : outs.map (·.1) = a.out := by
  unfold Agg.outputs at h
  split at h
  · rename_i k r h1 h2
    simp only [Except.ok.injEq] at h; rw [← h, h1]; rfl
  · rename_i k r1 r2 rs h1 h2
    simp only [Except.ok.injEq] at h; rw [← h, h1]; rfl
  · split at h
    · rename_i hl
      simp only [Except.ok.injEq] at h
      rw [← h]
      exact List.map_fst_zip (by simp [hl])
    · cases h

theorem Agg.outputAt_of_outputs {a : Agg X S Rv} {s : S} {outs : List (String × ROut Rv)}
    (h : a.outputs s = .ok outs) (i : Nat) : a.outputAt s i = outs[i]?.map (·.2) := by
  unfold Agg.outputAt; rw [h]

/-- the reported values depend on the state only through `result` -/
theorem Agg.outputAt_congr {a : Agg X S Rv} {s s' : S} (h : a.m.result s = a.m.result s') (i : Nat) :
    a.outputAt s i = a.outputAt s' i := by
  unfold Agg.outputAt Agg.outputs
  rw [h]

/-! ### `getResult` = all entries' pairs, assigned in order -/

/-- the `(key, value)` pairs one state entry contributes to `agg_result` -/
def entryPairs (P : Pipeline X S Rv) (e : MetricKey × S) : Except ErrKind (List (ResKey × ROut Rv)) :=
  match P.aggs.find? (fun a => a.out = e.1.metrics) with
  | none => .error .key
  | some a =>
    match a.outputs e.2 with
    | .error err => .error err
    | .ok outs => .ok (outs.map fun kv => (⟨kv.1, e.1.slice⟩, kv.2))

theorem resultStep_ok {P : Pipeline X S Rv} {res res' : Result Rv} {e : MetricKey × S}
    (h : resultStep P res e = .ok res') :
    ∃ ps, entryPairs P e = .ok ps ∧ res' = ps.foldl (fun r p => AList.set r p.1 p.2) res := by
  unfold resultStep at h
  unfold entryPairs
  cases hf : P.aggs.find? (fun a => a.out = e.1.metrics) with
  | none => simp [hf] at h
  | some a =>
    simp only [hf] at h ⊢
    cases ho : a.outputs e.2 with
    | error err => simp [ho] at h
    | ok outs =>
      simp only [ho, Except.ok.injEq] at h ⊢
      exact ⟨_, rfl, by rw [← h, List.foldl_map]⟩

theorem getResultFrom_ok {P : Pipeline X S Rv} :
    ∀ {st : State S} {res res' : Result Rv}, getResultFrom P res st = .ok res' →
      ∃ pss, mapE (entryPairs P) st = .ok pss ∧
        res' = pss.flatten.foldl (fun r p => AList.set r p.1 p.2) res := by
  intro st
  induction st with
  | nil => intro res res' h; simp only [getResultFrom] at h; cases h; exact ⟨[], rfl, rfl⟩
  | cons e st ih =>
    intro res res' h
    simp only [getResultFrom] at h
    cases hs : resultStep P res e with
    | error err => simp [hs] at h
    | ok res1 =>
      simp only [hs] at h
      obtain ⟨ps, hp, rfl⟩ := resultStep_ok hs
      obtain ⟨pss, hps, rfl⟩ := ih h
      exact ⟨ps :: pss, mapE_cons_of_ok hp hps, by simp [List.foldl_append]⟩

/-- a pair in `agg_result` under output key number `i` of aggregate `a` comes from the state entry
`(a.out, k)` and is the `i`-th reported value of that entry -/
theorem entryPairs_mem {P : Pipeline X S Rv} (hWF : P.WF) {a : Agg X S Rv} (ha : a ∈ P.aggs)
    {i : Nat} (hi : i < a.out.length) {k : SliceKey} {e : MetricKey × S}
    {ps : List (ResKey × ROut Rv)} (hp : entryPairs P e = .ok ps) {v : ROut Rv}
    (hv : ((⟨a.out[i], k⟩ : ResKey), v) ∈ ps) :
    e.1 = ⟨a.out, k⟩ ∧ a.outputAt e.2 i = some v := by
  unfold entryPairs at hp
  cases hf : P.aggs.find? (fun a => a.out = e.1.metrics) with
  | none => simp [hf] at hp
  | some a' =>
    simp only [hf] at hp
    cases ho : a'.outputs e.2 with
    | error err => simp [ho] at hp
    | ok outs =>
      simp only [ho, Except.ok.injEq] at hp
      subst hp
      obtain ⟨kv, hkv, hkey⟩ := List.mem_map.mp hv
      simp only [Prod.mk.injEq, ResKey.mk.injEq] at hkey
      obtain ⟨⟨hn, hsl⟩, hval⟩ := hkey
      have ha' : a' ∈ P.aggs := List.mem_of_find?_eq_some hf
      have hout' : a'.out = e.1.metrics := by simpa using List.find?_some hf
      have hnames := Agg.outputs_names ho
      have hn' : a.out[i] ∈ a'.out := by
        rw [← hnames, ← hn]; exact List.mem_map.mpr ⟨kv, hkv, rfl⟩
      have haa : a = a' := hWF.agg_of_name ha ha' (List.getElem_mem hi) hn'
      subst haa
      refine ⟨?_, ?_⟩
      · cases e with
        | mk mk s => cases mk; simp only at hout' hsl; rw [hout', hsl]
      · rw [Agg.outputAt_of_outputs ho]
        -- the entry named `a.out[i]` is the `i`-th one, the names being distinct
        have hlen : outs.length = a.out.length := by rw [← hnames]; simp
        obtain ⟨j, hj, hjkv⟩ := List.getElem_of_mem hkv
        have hjn : a.out[j]'(by rw [← hlen]; exact hj) = a.out[i] := by
          have : (outs.map (·.1))[j]'(by simpa using hj) = kv.1 := by simp [hjkv]
          rw [← hn, ← this]
          simp only [hnames]
        have hji : j = i :=
          (List.getElem_inj (hWF.out_nodup ha)).mp hjn
        subst hji
        rw [List.getElem?_eq_getElem hj, hjkv, Option.map_some, hval]

/-- **`get_result` flattening**: the value reported under output key number `i` of aggregate `a`
and slice `k` is the `i`-th output of the state entry `(a.out, k)`; nothing is reported when there is
no such entry. -/
theorem getResult_get? {P : Pipeline X S Rv} (hWF : P.WF) {st : State S} (hnd : (AList.keys st).Nodup)
    {res : Result Rv} (h : getResult P st = .ok res) {a : Agg X S Rv} (ha : a ∈ P.aggs)
    (k : SliceKey) {i : Nat} (hi : i < a.out.length) :
    AList.get? res ⟨a.out[i], k⟩ = (AList.get? st ⟨a.out, k⟩).bind (fun s => a.outputAt s i) := by
  obtain ⟨pss, hps, rfl⟩ := getResultFrom_ok h
  -- every pair under the key comes from the entry (a.out, k)
  have hsrc : ∀ v, ((⟨a.out[i], k⟩ : ResKey), v) ∈ pss.flatten →
      ∃ s, AList.get? st ⟨a.out, k⟩ = some s ∧ a.outputAt s i = some v := by
    intro v hv
    obtain ⟨e, he, ps, hp, hvp⟩ := (mem_flatten_mapE hps _).mp hv
    obtain ⟨h1, h2⟩ := entryPairs_mem hWF ha hi hp hvp
    refine ⟨e.2, ?_, h2⟩
    apply AList.get?_eq_some_of_mem _ hnd
    rw [← h1]; exact he
  rw [get?_foldl_set]
  · cases hf : pss.flatten.find? (fun p => decide (p.1 = ⟨a.out[i], k⟩)) with
    | some p =>
      have hp1 : p.1 = ⟨a.out[i], k⟩ := by simpa using List.find?_some hf
      have hpm : p ∈ pss.flatten := List.mem_of_find?_eq_some hf
      obtain ⟨s, hs, hv⟩ := hsrc p.2 (by rw [← hp1]; exact hpm)
      simp [hs, hv]
    | none =>
      simp only [AList.get?]
      cases hs : AList.get? st ⟨a.out, k⟩ with
      | none => rfl
      | some s =>
        -- the entry exists, so its pairs exist: contradiction with `find? = none`
        exfalso
        have hmem := AList.mem_of_get?_eq_some _ hs
        obtain ⟨ps, hp, hpss⟩ := mapE_ok_mem hps hmem
        unfold entryPairs at hp
        cases hfa : P.aggs.find? (fun a' => a'.out = a.out) with
        | none => simp [hfa] at hp
        | some a' =>
          simp only [hfa] at hp
          have ha' : a' ∈ P.aggs := List.mem_of_find?_eq_some hfa
          have hout' : a'.out = a.out := by simpa using List.find?_some hfa
          have haa : a' = a := eq_of_nodup_map (fun x : Agg X S Rv => x.out) hWF.outs_map_nodup ha' ha hout'
          subst haa
          cases ho : a'.outputs s with
          | error err => simp [ho] at hp
          | ok outs =>
            simp only [ho, Except.ok.injEq] at hp
            have hnames := Agg.outputs_names ho
            have hlen : i < outs.length := by
              have : outs.length = a'.out.length := by rw [← hnames]; simp
              omega
            have hname : outs[i].1 = a'.out[i] := by
              have : (outs.map (·.1))[i]'(by simpa using hlen) = a'.out[i] := by simp only [hnames]
              simpa using this
            have : ((⟨a'.out[i], k⟩ : ResKey), outs[i].2) ∈ pss.flatten := by
              refine List.mem_flatten.mpr ⟨ps, hpss, ?_⟩
              rw [← hp]
              exact List.mem_map.mpr ⟨outs[i], List.getElem_mem hlen, by rw [hname]⟩
            have := List.find?_eq_none.mp hf _ this
            simp at this
  · intro v v' h1 h2
    obtain ⟨s, hs, hv⟩ := hsrc v h1
    obtain ⟨s', hs', hv'⟩ := hsrc v' h2
    rw [hs] at hs'; cases hs'
    rw [hv] at hv'; cases hv'; rfl

/-- no key of `agg_result` is invented: each is an output key of some aggregate, under the slice of
some state entry of that aggregate -/
theorem getResult_keys {P : Pipeline X S Rv} {st : State S}
    {res : Result Rv} (h : getResult P st = .ok res) (rk : ResKey) (hrk : rk ∈ AList.keys res) :
    ∃ a ∈ P.aggs, rk.metric ∈ a.out ∧ (⟨a.out, rk.slice⟩ : MetricKey) ∈ AList.keys st := by
  obtain ⟨pss, hps, rfl⟩ := getResultFrom_ok h
  have : ∀ (ps : List (ResKey × ROut Rv)) (r0 : Result Rv),
      rk ∈ AList.keys (ps.foldl (fun r p => AList.set r p.1 p.2) r0) →
        rk ∈ AList.keys r0 ∨ ∃ p ∈ ps, p.1 = rk := by
    intro ps
    induction ps with
    | nil => intro r0 h; exact Or.inl h
    | cons p ps ih =>
      intro r0 h
      rw [List.foldl_cons] at h
      rcases ih _ h with h' | ⟨q, hq, hqk⟩
      · rw [AList.mem_keys_set] at h'
        rcases h' with h' | h'
        · exact Or.inr ⟨p, List.mem_cons_self, h'.symm⟩
        · exact Or.inl h'
      · exact Or.inr ⟨q, List.mem_cons_of_mem _ hq, hqk⟩
  rcases this _ _ hrk with h0 | ⟨p, hp, hpk⟩
  · simp [AList.keys] at h0
  · obtain ⟨e, he, ps, hpe, hpp⟩ := (mem_flatten_mapE hps p).mp hp
    unfold entryPairs at hpe
    cases hfa : P.aggs.find? (fun a' => a'.out = e.1.metrics) with
    | none => simp [hfa] at hpe
    | some a =>
      simp only [hfa] at hpe
      cases ho : a.outputs e.2 with
      | error err => simp [ho] at hpe
      | ok outs =>
        simp only [ho, Except.ok.injEq] at hpe
        subst hpe
        obtain ⟨kv, hkv, hkey⟩ := List.mem_map.mp hpp
        have ha : a ∈ P.aggs := List.mem_of_find?_eq_some hfa
        have hout : a.out = e.1.metrics := by simpa using List.find?_some hfa
        refine ⟨a, ha, ?_, ?_⟩
        · rw [← hpk, ← hkey, ← Agg.outputs_names ho]
          exact List.mem_map.mpr ⟨kv, hkv, rfl⟩
        · rw [← hpk, ← hkey, hout]
          exact List.mem_map.mpr ⟨e, he, rfl⟩

/-- an entry of the state that was flattened has a well-formed output tuple -/
theorem getResult_outputs_ok {P : Pipeline X S Rv} (hWF : P.WF) {st : State S} {res : Result Rv}
    (h : getResult P st = .ok res) {a : Agg X S Rv} (ha : a ∈ P.aggs) {k : SliceKey} {s : S}
    (hs : AList.get? st ⟨a.out, k⟩ = some s) {i : Nat} (hi : i < a.out.length) :
    ∃ v, a.outputAt s i = some v := by
  obtain ⟨pss, hps, _⟩ := getResultFrom_ok h
  have hmem := AList.mem_of_get?_eq_some _ hs
  obtain ⟨ps, hp, _⟩ := mapE_ok_mem hps hmem
  unfold entryPairs at hp
  cases hfa : P.aggs.find? (fun a' => a'.out = a.out) with
  | none => simp [hfa] at hp
  | some a' =>
    simp only [hfa] at hp
    have ha' : a' ∈ P.aggs := List.mem_of_find?_eq_some hfa
    have hout' : a'.out = a.out := by simpa using List.find?_some hfa
    have haa : a' = a := eq_of_nodup_map (fun x : Agg X S Rv => x.out) hWF.outs_map_nodup ha' ha hout'
    subst haa
    cases ho : a'.outputs s with
    | error err => simp [ho] at hp
    | ok outs =>
      have hnames := Agg.outputs_names ho
      have hlen : i < outs.length := by
        have : outs.length = a'.out.length := by rw [← hnames]; simp
        omega
      exact ⟨outs[i].2, by rw [Agg.outputAt_of_outputs ho, List.getElem?_eq_getElem hlen]; rfl⟩

theorem aggResult_ok {P : Pipeline X S Rv} {bs : List Batch} {res : Result Rv}
    (h : aggResult P bs = .ok res) : ∃ st, run P bs = .ok st ∧ getResult P st = .ok res := by
  unfold aggResult at h
  cases hv : P.validate with
  | error e => simp [hv] at h
  | ok u =>
    simp only [hv] at h
    cases hr : run P bs with
    | error e => simp [hr] at h
    | ok st => simp only [hr] at h; exact ⟨st, rfl, h⟩

/-- two `mapE`s over the same list, related element by element -/
theorem mapE_zip_eq {α β γ : Type} {f : α → Except ErrKind β} {g : α → Except ErrKind γ} (h : α → β → γ) :
    ∀ {xs : List α} {ys : List β} {zs : List γ}, mapE f xs = .ok ys → mapE g xs = .ok zs →
      (∀ x y z, x ∈ xs → f x = .ok y → g x = .ok z → z = h x y) →
      zs = (xs.zip ys).map (fun p => h p.1 p.2) := by
  intro xs
  induction xs with
  | nil => intro ys zs h1 h2 _; simp only [mapE] at h1 h2; cases h1; cases h2; rfl
  | cons x xs ih =>
    intro ys zs h1 h2 hh
    obtain ⟨y, ys', hx, hxs, rfl⟩ := mapE_cons_ok h1
    obtain ⟨z, zs', gx, gxs, rfl⟩ := mapE_cons_ok h2
    rw [List.zip_cons_cons, List.map_cons, hh x y z List.mem_cons_self hx gx,
      ih hxs gxs fun x' y' z' hm => hh x' y' z' (List.mem_cons_of_mem _ hm)]

end MlModel.PipeAgg
