import MlModel.Model.Agg.RollingSamplers
/-!
# FixedSizeSample: size, membership (as a sub-multiset) and reviewed-count for every RNG stream
-/
namespace MlModel.Agg.Rolling

variable {α : Type} [DecidableEq α]

theorem count_set_le (l : List α) (i : Nat) (a x : α) :
    (l.set i a).count x ≤ l.count x + (if a = x then 1 else 0) := by
  by_cases h : i < l.length
  · rw [List.count_set h]
    by_cases hax : a = x <;> simp [hax] <;> omega
  · rw [List.set_eq_of_length_le (by omega)]; omega

theorem count_take_succ_le (samples : List α) (j j' : Nat) (v x : α) (hj : j < j')
    (hv : samples[j' - 1]? = some v) :
    (samples.take j).count x + (if v = x then 1 else 0) ≤ (samples.take j').count x := by
  have e : j' = (j' - 1) + 1 := by omega
  rw [e, List.take_succ, hv, List.count_append]
  have hs : (samples.take j).count x ≤ (samples.take (j' - 1)).count x :=
    (List.take_sublist_take_left (by omega)).count_le x
  by_cases hvx : v = x <;> simp [hvx] <;> omega

theorem loop_succ (M n : Nat) (samples : List α) (fuel j : Nat) (res : List α) (rng : Rng) :
    FSS.loop M n samples (fuel + 1) j res rng =
      if j ≤ n then
        if j + rng.draw.1 + 1 ≤ n then
          match samples[j + rng.draw.1 + 1 - 1]? with
          | some v => FSS.loop M n samples fuel (j + rng.draw.1 + 1)
              (res.set (rng.draw.2.draw.1 % M) v) rng.draw.2.draw.2
          | none => FSS.loop M n samples fuel (j + rng.draw.1 + 1) res rng.draw.2.draw.2
        else (res, rng.draw.2)
      else (res, rng) := rfl

/-- the Algorithm-L loop keeps the reservoir's length and only inserts samples of the batch, each
position at most once -/
theorem loop_spec (M : Nat) (samples : List α) (base : α → Nat) :
    ∀ (fuel j : Nat) (res : List α) (rng : Rng),
      (∀ x, res.count x ≤ base x + (samples.take j).count x) →
      (FSS.loop M samples.length samples fuel j res rng).1.length = res.length ∧
      ∀ x, (FSS.loop M samples.length samples fuel j res rng).1.count x ≤ base x + samples.count x := by
  intro fuel
  induction fuel with
  | zero =>
    intro j res rng h
    refine ⟨rfl, fun x => ?_⟩
    have h1 := (List.take_sublist j samples).count_le x
    have h2 := h x
    show res.count x ≤ _
    omega
  | succ fuel ih =>
    intro j res rng h
    have hfin : ∀ x, res.count x ≤ base x + samples.count x := fun x => by
      have := (List.take_sublist j samples).count_le x
      have := h x; omega
    rw [loop_succ]
    by_cases hj : j ≤ samples.length
    · rw [if_pos hj]
      by_cases hj' : j + rng.draw.1 + 1 ≤ samples.length
      · rw [if_pos hj']
        cases hv : samples[j + rng.draw.1 + 1 - 1]? with
        | none =>
          have : j + rng.draw.1 + 1 - 1 < samples.length := by omega
          simp [List.getElem?_eq_none_iff] at hv; omega
        | some v =>
          have := ih (j + rng.draw.1 + 1) (res.set (rng.draw.2.draw.1 % M) v) rng.draw.2.draw.2 (by
            intro x
            have h1 := count_set_le res (rng.draw.2.draw.1 % M) v x
            have h2 := count_take_succ_le samples j (j + rng.draw.1 + 1) v x (by omega) hv
            have := h x
            omega)
          rw [List.length_set] at this
          exact this
      · rw [if_neg hj']
        exact ⟨rfl, hfin⟩
    · rw [if_neg hj]
      exact ⟨rfl, hfin⟩

/-- what C01 fixes for the reservoir sampler -/
structure FSSInv (M : Nat) (s : FSS α) (d : List α) : Prop where
  maxSize : s.maxSize = M
  size : s.reservoir.length = min M d.length
  reviewed : s.reviewed = d.length
  members : ∀ x, s.reservoir.count x ≤ d.count x

theorem FSSInv.fresh (M : Nat) : FSSInv M (FSS.fresh M : FSS α) [] :=
  ⟨rfl, by simp [FSS.fresh], rfl, fun _ => by simp [FSS.fresh]⟩

theorem FSSInv.add {M : Nat} {s : FSS α} {d : List α} (h : FSSInv M s d) (samples : List α) (rng : Rng) :
    FSSInv M (s.add samples rng).1 (d ++ samples) := by
  obtain ⟨h1, h2, h3, h4⟩ := h
  subst h1
  have hl := loop_spec s.maxSize samples (fun x => d.count x)
    (samples.length + 1) (min (s.maxSize - s.reservoir.length) samples.length)
    (s.reservoir ++ samples.take (min (s.maxSize - s.reservoir.length) samples.length)) rng
    (by intro x; rw [List.count_append]; have := h4 x; omega)
  have e : (s.add samples rng).1 = { s with
      reservoir := (FSS.loop s.maxSize samples.length samples (samples.length + 1)
        (min (s.maxSize - s.reservoir.length) samples.length)
        (s.reservoir ++ samples.take (min (s.maxSize - s.reservoir.length) samples.length)) rng).1,
      reviewed := s.reviewed + samples.length } := rfl
  rw [e]
  refine ⟨rfl, ?_, ?_, ?_⟩
  · show (FSS.loop _ _ _ _ _ _ _).1.length = _
    rw [hl.1, List.length_append, List.length_take, h2, List.length_append]; omega
  · show s.reviewed + samples.length = _
    rw [h3, List.length_append]
  · intro x; rw [List.count_append]; exact hl.2 x

theorem popAt_spec {l : List α} {i : Nat} (h : i < l.length) :
    ∃ v l', popAt l i = some (v, l') ∧ l'.length + 1 = l.length ∧
      ∀ x, l'.count x + (if v = x then 1 else 0) = l.count x := by
  refine ⟨l[i], l.eraseIdx i, by simp [popAt, h], by rw [List.length_eraseIdx]; simp [h]; omega, ?_⟩
  intro x
  rw [List.eraseIdx_eq_take_drop_succ]
  conv => rhs; rw [← List.take_append_drop i l, List.drop_eq_getElem_cons h]
  simp only [List.count_append, List.count_cons, beq_iff_eq]
  omega

theorem mergeLoop_succ (M fuel : Nat) (result resO : List α) (nO : Nat) (resN : List α) (nN : Nat)
    (rng : Rng) :
    FSS.mergeLoop M (fuel + 1) result resO nO resN nN rng =
      if result.length < M ∧ nO + nN ≠ 0 then
        if (if nN = 0 then true else if nO = 0 then false else rng.draw.1 % 2 == 0) = true then
          match popAt resO (rng.draw.2.draw.1 % resO.length) with
          | some (v, resO') =>
            FSS.mergeLoop M fuel (result ++ [v]) resO' (nO - 1) resN nN rng.draw.2.draw.2
          | none => .error .value
        else
          match popAt resN (rng.draw.2.draw.1 % resN.length) with
          | some (v, resN') =>
            FSS.mergeLoop M fuel (result ++ [v]) resO nO resN' (nN - 1) rng.draw.2.draw.2
          | none => .error .value
      else .ok (result, resO, resN, rng) := rfl

/-- the loop of `_merge_reservoirs` never pops from an empty list, fills the result up to
`min(max_size, n_orig + n_new)` and only moves elements -/
theorem mergeLoop_spec (M : Nat) :
    ∀ (fuel : Nat) (result resO : List α) (nO : Nat) (resN : List α) (nN : Nat) (rng : Rng),
      result.length ≤ M → M - result.length ≤ fuel →
      min (M - result.length) nO ≤ resO.length → min (M - result.length) nN ≤ resN.length →
      ∃ result' resO' resN' rng',
        FSS.mergeLoop M fuel result resO nO resN nN rng = .ok (result', resO', resN', rng') ∧
        result'.length = min M (result.length + nO + nN) ∧
        ∀ x, result'.count x + resO'.count x + resN'.count x
              = result.count x + resO.count x + resN.count x := by
  intro fuel
  induction fuel with
  | zero =>
    intro result resO nO resN nN rng hM hf _ _
    exact ⟨result, resO, resN, rng, rfl, by omega, fun _ => rfl⟩
  | succ fuel ih =>
    intro result resO nO resN nN rng hM hf hO hN
    rw [mergeLoop_succ]
    by_cases hc : result.length < M ∧ nO + nN ≠ 0
    · rw [if_pos hc]
      by_cases hfo : (if nN = 0 then true else if nO = 0 then false else rng.draw.1 % 2 == 0) = true
      · rw [if_pos hfo]
        have hnO : nO ≠ 0 := by
          intro h0; subst h0
          by_cases hn : nN = 0
          · omega
          · simp [hn] at hfo
        have hpos : 0 < resO.length := by omega
        obtain ⟨v, l', hp, hlen, hcnt⟩ :=
          popAt_spec (l := resO) (i := rng.draw.2.draw.1 % resO.length) (Nat.mod_lt _ hpos)
        rw [hp]
        obtain ⟨r', o', n', g', he, hl, hcs⟩ := ih (result ++ [v]) l' (nO - 1) resN nN rng.draw.2.draw.2
          (by simp; omega) (by simp; omega) (by simp; omega) (by simp; omega)
        refine ⟨r', o', n', g', he, by simp at hl; omega, fun x => ?_⟩
        have := hcs x; have := hcnt x
        simp only [List.count_append, List.count_cons, List.count_nil, beq_iff_eq] at *
        omega
      · rw [if_neg hfo]
        have hnN : nN ≠ 0 := by
          intro h0; simp [h0] at hfo
        have hpos : 0 < resN.length := by omega
        obtain ⟨v, l', hp, hlen, hcnt⟩ :=
          popAt_spec (l := resN) (i := rng.draw.2.draw.1 % resN.length) (Nat.mod_lt _ hpos)
        rw [hp]
        obtain ⟨r', o', n', g', he, hl, hcs⟩ := ih (result ++ [v]) resO nO l' (nN - 1) rng.draw.2.draw.2
          (by simp; omega) (by simp; omega) (by simp; omega) (by simp; omega)
        refine ⟨r', o', n', g', he, by simp at hl; omega, fun x => ?_⟩
        have := hcs x; have := hcnt x
        simp only [List.count_append, List.count_cons, List.count_nil, beq_iff_eq] at *
        omega
    · rw [if_neg hc]
      exact ⟨result, resO, resN, rng, rfl, by omega, fun _ => rfl⟩

theorem FSSInv.merge {M : Nat} {s o : FSS α} {ds do_ : List α} (hs : FSSInv M s ds)
    (ho : FSSInv M o do_) (rng : Rng) :
    ∃ s' rng', FSS.merge true s o rng = .ok (s', o, rng') ∧ FSSInv M s' (ds ++ do_) := by
  obtain ⟨r', o', n', g', he, hl, hcs⟩ := mergeLoop_spec M (M + 1) [] s.reservoir s.reviewed
    o.reservoir o.reviewed rng (by simp) (by simp) (by simp [hs.size, hs.reviewed])
    (by simp [ho.size, ho.reviewed])
  have hm : FSS.merge true s o rng
      = .ok ({ s with reservoir := r', reviewed := s.reviewed + o.reviewed }, o, g') := by
    unfold FSS.merge
    rw [hs.maxSize, he]
    rfl
  refine ⟨_, g', hm, hs.maxSize, ?_, ?_, ?_⟩
  · show r'.length = _
    simp only [hl, List.length_nil, hs.reviewed, ho.reviewed, List.length_append]; omega
  · show s.reviewed + o.reviewed = _
    simp only [hs.reviewed, ho.reviewed, List.length_append]
  · intro x
    show r'.count x ≤ _
    have := hcs x; have := hs.members x; have := ho.members x
    simp only [List.count_nil, List.count_append] at *
    omega

/-- **C01 for the reservoir sampler**: every history, every RNG stream -/
theorem FSSHist.eval_spec (M : Nat) (h : FSSHist α) :
    ∀ rng, ∃ s rng', h.eval M rng = .ok (s, rng') ∧ FSSInv M s h.data := by
  induction h with
  | fresh => intro rng; exact ⟨_, rng, rfl, FSSInv.fresh M⟩
  | add h xs ih =>
    intro rng
    obtain ⟨s, g, he, hi⟩ := ih rng
    exact ⟨_, _, by simp [FSSHist.eval, he, bind, Except.bind, pure, Except.pure]; rfl, hi.add xs g⟩
  | merge a b iha ihb =>
    intro rng
    obtain ⟨sa, ga, hea, hia⟩ := iha rng
    obtain ⟨sb, gb, heb, hib⟩ := ihb ga
    obtain ⟨s', g', hm, hi⟩ := hia.merge hib gb
    exact ⟨s', g', by simp [FSSHist.eval, hea, heb, hm, bind, Except.bind, pure, Except.pure], hi⟩

end MlModel.Agg.Rolling
