import MlModel.Lemmas.TreeNd
/-!
# Buffer arithmetic for paths of any depth into an ndarray (work package C18D)

`slice` / `splice` element-wise, composition of nested windows, numpy broadcasting (`bcastSame`, `bcast`):
the identity broadcast and `length (bcast s t xs) = prod t`.
-/
namespace MlModel.Tree

/-! ## `slice` and `splice`, element-wise -/

theorem getElem?_slice (xs : List Int) (o len i : Nat) :
    (slice xs o len)[i]? = if i < len then xs[o + i]? else none := by
  unfold slice
  rw [List.getElem?_take]
  split
  · rw [List.getElem?_drop]
  · rfl

theorem slice_length (xs : List Int) {o len : Nat} (hb : o + len ≤ xs.length) : (slice xs o len).length = len := by
  unfold slice
  simp
  omega

theorem getElem?_splice (xs : List Int) (o : Nat) (ys : List Int) (i : Nat) (ho : o ≤ xs.length) :
    (splice xs o ys)[i]? = if i < o then xs[i]? else if i < o + ys.length then ys[i - o]? else xs[i]? := by
  unfold splice
  have h1 : (xs.take o).length = o := by simp; omega
  rw [List.append_assoc, List.getElem?_append, h1]
  split
  · rw [List.getElem?_take]; simp [*]
  · rename_i hge
    rw [List.getElem?_append]
    split
    · rename_i hlt; simp [show i < o + ys.length by omega]
    · rename_i hge2
      rw [List.getElem?_drop]
      have : ¬ i < o + ys.length := by omega
      simp only [this, if_false]
      congr 1; omega

/-- writing a window back onto itself changes nothing -/
theorem splice_slice_self (xs : List Int) {o len : Nat} (hb : o + len ≤ xs.length) :
    splice xs o (slice xs o len) = xs := by
  apply List.ext_getElem?
  intro i
  rw [getElem?_splice _ _ _ _ (by omega), slice_length xs hb, getElem?_slice]
  split
  · rfl
  · split
    · rename_i h1 h2
      rw [if_pos (by omega)]
      congr 1; omega
    · rfl

/-- **composition of window offsets**: writing, into the window `o, L` of `xs`, that window with its own
sub-window `o', |ys|` overwritten, is writing the sub-window `o + o'` of `xs`. -/
theorem splice_splice_slice (xs : List Int) {o L o' : Nat} (ys : List Int) (hb : o + L ≤ xs.length)
    (hb' : o' + ys.length ≤ L) :
    splice xs o (splice (slice xs o L) o' ys) = splice xs (o + o') ys := by
  have hsl := slice_length xs hb
  have hlen : (splice (slice xs o L) o' ys).length = L := by
    rw [splice_length _ _ _ (by omega), hsl]
  apply List.ext_getElem?
  intro i
  have hL := getElem?_splice xs o (splice (slice xs o L) o' ys) i (by omega)
  have hR := getElem?_splice xs (o + o') ys i (by omega)
  have hM := getElem?_splice (slice xs o L) o' ys (i - o) (by omega)
  have hS := getElem?_slice xs o L (i - o)
  rw [hlen] at hL
  rw [hL, hR]
  by_cases h1 : i < o
  · rw [if_pos h1, if_pos (show i < o + o' by omega)]
  · rw [if_neg h1]
    by_cases h2 : i < o + L
    · rw [if_pos h2, hM]
      by_cases h3 : i - o < o'
      · rw [if_pos h3, if_pos (show i < o + o' by omega), hS, if_pos (show i - o < L by omega)]
        congr 1; omega
      · rw [if_neg h3, if_neg (show ¬ i < o + o' by omega)]
        by_cases h4 : i - o < o' + ys.length
        · rw [if_pos h4, if_pos (show i < o + o' + ys.length by omega)]
          congr 1; omega
        · rw [if_neg h4, if_neg (show ¬ i < o + o' + ys.length by omega), hS, if_pos (show i - o < L by omega)]
          congr 1; omega
    · rw [if_neg h2, if_neg (show ¬ i < o + o' by omega), if_neg (show ¬ i < o + o' + ys.length by omega)]

theorem slice_slice (xs : List Int) {o L o' L' : Nat} (hb' : o' + L' ≤ L) :
    slice (slice xs o L) o' L' = slice xs (o + o') L' := by
  apply List.ext_getElem?
  intro i
  rw [getElem?_slice, getElem?_slice, getElem?_slice]
  split
  · rw [if_pos (by omega)]; congr 1; omega
  · rfl

/-- a window disjoint from the written one shows the old elements (the frame law inside a buffer) -/
theorem slice_splice_disjoint (xs : List Int) {o : Nat} (ys : List Int) {o' L' : Nat}
    (hb : o + ys.length ≤ xs.length) (hd : o' + L' ≤ o ∨ o + ys.length ≤ o') :
    slice (splice xs o ys) o' L' = slice xs o' L' := by
  apply List.ext_getElem?
  intro i
  rw [getElem?_slice, getElem?_slice]
  split
  · rw [getElem?_splice _ _ _ _ (by omega)]
    rcases hd with hd | hd
    · rw [if_pos (by omega)]
    · rw [if_neg (by omega), if_neg (by omega)]
  · rfl

theorem slice_full (xs : List Int) : slice xs 0 xs.length = xs := by
  unfold slice; simp

theorem getD_splice_of_slice {xs : List Int} {o : Nat} {y : Int} (hb : o + 1 ≤ xs.length) :
    (splice xs o [y]).getD o 0 = y := by
  rw [List.getD_eq_getElem?_getD, getElem?_splice _ _ _ _ (by omega)]
  simp

/-! ## shapes -/

theorem prod_cons (n : Nat) (s : List Nat) : prod (n :: s) = n * prod s := rfl

/-! ## `Option` `mapM` -/

theorem mapM_some_of_forall {α β : Type} {f : α → Option β} {g : α → β} :
    ∀ {l : List α}, (∀ a ∈ l, f a = some (g a)) → l.mapM f = some (l.map g) := by
  intro l
  induction l with
  | nil => intro _; rfl
  | cons a l ih =>
    intro hf
    rw [List.mapM_cons, hf a (by simp), ih (fun b hb => hf b (by simp [hb]))]
    rfl

theorem mapM_some_inv {α β : Type} {f : α → Option β} :
    ∀ {l : List α} {ys : List β}, l.mapM f = some ys →
      ys.length = l.length ∧ ∀ i (hi : i < l.length) (hi' : i < ys.length), f l[i] = some ys[i] := by
  intro l
  induction l with
  | nil =>
    intro ys h
    simp [List.mapM_nil, pure] at h
    subst h; exact ⟨rfl, fun i hi => by cases hi⟩
  | cons a l ih =>
    intro ys h
    rw [List.mapM_cons] at h
    cases ha : f a with
    | none => simp [ha] at h
    | some y =>
      cases hl : l.mapM f with
      | none => simp [ha, hl] at h
      | some ys' =>
        simp [ha, hl] at h
        subst h
        obtain ⟨h1, h2⟩ := ih hl
        refine ⟨by simp [h1], ?_⟩
        intro i hi hi'
        cases i with
        | zero => simpa using ha
        | succ i => simpa using h2 i (by simpa using hi) (by simpa using hi')

/-! ## chunks -/

/-- the `n` consecutive chunks of length `P` of a list, concatenated, are its first `n * P` elements -/
theorem chunks_flatten (xs : List Int) (P : Nat) : ∀ n : Nat,
    ((List.range n).map fun i => slice xs (i * P) P).flatten = xs.take (n * P) := by
  intro n
  induction n with
  | zero => simp
  | succ n ih =>
    rw [List.range_succ, List.map_append, List.flatten_append, ih]
    simp only [List.map_cons, List.map_nil, List.flatten_cons, List.flatten_nil, List.append_nil]
    unfold slice
    rw [Nat.succ_mul, List.take_add]

theorem length_flatten_of_forall {ls : List (List Int)} {P : Nat} (h : ∀ l ∈ ls, l.length = P) :
    ls.flatten.length = ls.length * P := by
  induction ls with
  | nil => simp
  | cons l ls ih =>
    rw [List.flatten_cons, List.length_append, h l (by simp), ih (fun l' hl' => h l' (by simp [hl'])),
      List.length_cons, Nat.succ_mul]
    omega

/-! ## broadcasting -/

/-- broadcasting to the same shape is the identity -/
theorem bcastSame_self : ∀ (s : List Nat) (xs : List Int), xs.length = prod s → bcastSame s s xs = some xs := by
  intro s
  induction s with
  | nil => intro xs _; rfl
  | cons sd s ih =>
    intro xs hl
    rw [prod_cons] at hl
    unfold bcastSame
    rw [if_pos rfl]
    have hm : (List.range sd).mapM (fun i => bcastSame s s (slice xs (i * prod s) (prod s))) =
        some ((List.range sd).map fun i => slice xs (i * prod s) (prod s)) := by
      apply mapM_some_of_forall
      intro i hi
      have hi' : i < sd := List.mem_range.mp hi
      apply ih
      apply slice_length
      calc i * prod s + prod s = (i + 1) * prod s := by rw [Nat.succ_mul]
        _ ≤ sd * prod s := Nat.mul_le_mul_right _ hi'
        _ = xs.length := hl.symm
    rw [hm]
    simp only [Option.map_some]
    rw [chunks_flatten, ← hl, List.take_length]

theorem bcastSame_length : ∀ (s t : List Nat) (xs ys : List Int), xs.length = prod s →
    bcastSame s t xs = some ys → ys.length = prod t := by
  intro s
  induction s with
  | nil =>
    intro t xs ys hl hb
    cases t with
    | nil => simp [bcastSame] at hb; subst hb; exact hl
    | cons _ _ => simp [bcastSame] at hb
  | cons sd s ih =>
    intro t xs ys hl hb
    cases t with
    | nil => simp [bcastSame] at hb
    | cons td t =>
      rw [prod_cons] at hl
      unfold bcastSame at hb
      split at hb
      · rename_i heq
        subst heq
        cases hm : (List.range sd).mapM (fun i => bcastSame s t (slice xs (i * prod s) (prod s))) with
        | none => rw [hm] at hb; simp at hb
        | some parts =>
          rw [hm] at hb
          simp only [Option.map_some, Option.some.injEq] at hb
          subst hb
          obtain ⟨h1, h2⟩ := mapM_some_inv hm
          rw [prod_cons, length_flatten_of_forall (P := prod t), h1, List.length_range]
          intro l hl'
          obtain ⟨i, hi, rfl⟩ := List.getElem_of_mem hl'
          have hi2 : i < (List.range sd).length := by omega
          have := h2 i hi2 hi
          rw [List.getElem_range] at this
          have hi3 : i < sd := by simpa using hi2
          refine ih t _ _ ?_ this
          apply slice_length
          calc i * prod s + prod s = (i + 1) * prod s := by rw [Nat.succ_mul]
            _ ≤ sd * prod s := Nat.mul_le_mul_right _ hi3
            _ = xs.length := hl.symm
      · split at hb
        · rename_i _ h1
          subst h1
          cases hm : bcastSame s t xs with
          | none => rw [hm] at hb; simp at hb
          | some ys' =>
            rw [hm] at hb
            simp only [Option.map_some, Option.some.injEq] at hb
            subst hb
            have := ih t xs ys' (by omega) hm
            rw [prod_cons, length_flatten_of_forall (P := prod t)]
            · simp
            · intro l hl'; rw [List.eq_of_mem_replicate hl']; exact this
        · cases hb

theorem prod_replicate_one (n : Nat) (s : List Nat) : prod (List.replicate n 1 ++ s) = prod s := by
  induction n with
  | zero => rfl
  | succ n ih => rw [List.replicate_succ, List.cons_append, prod_cons, ih]; omega

theorem prod_stripOnes : ∀ (n : Nat) (s : List Nat), prod (stripOnes n s) = prod s := by
  intro n
  induction n with
  | zero => intro s; cases s <;> rfl
  | succ n ih =>
    intro s
    match s with
    | [] => rfl
    | 1 :: s => rw [stripOnes, ih, prod_cons]; omega
    | 0 :: s => rfl
    | (k + 2) :: s => rfl

/-- **`length (bcast s t xs) = prod t`**: what numpy stores into a window of shape `t` has exactly the
window's number of elements. -/
theorem bcast_length {s t : List Nat} {xs ys : List Int} (hl : xs.length = prod s) (hb : bcast s t xs = some ys) :
    ys.length = prod t := by
  unfold bcast at hb
  simp only at hb
  split at hb
  · cases hb
  · exact bcastSame_length _ t xs ys (by rw [prod_replicate_one, prod_stripOnes]; exact hl) hb

/-- assigning an array of the window's own shape stores its elements -/
theorem bcast_self {s : List Nat} {xs : List Int} (hl : xs.length = prod s) : bcast s s xs = some xs := by
  unfold bcast
  simp only [Nat.sub_self]
  have : stripOnes 0 s = s := by cases s <;> rfl
  rw [this]
  simp [bcastSame_self s xs hl]

end MlModel.Tree
