import MlModel.Generated.RatesTable

import MlModel.Model.Spec.Classification
import Mathlib.Tactic.Linarith
import Mathlib.Tactic.Positivity
import Mathlib.Tactic.FieldSimp
import Mathlib.Tactic.Ring
import Mathlib.Algebra.Order.Field.Basic
/-!
# Helper lemmas about `safeDivide` / `ratio` over an ordered field
-/
set_option linter.unusedSectionVars false
namespace MlModel.Lemmas.Rates
open MlModel.Generated

variable {K : Type} [Field K] [LinearOrder K] [IsStrictOrderedRing K]

theorem safeDivide_def (a b : K) : safeDivide a b = if b = 0 then 0 else a / b := by
  simp [safeDivide]

theorem ratio_def (a b : K) : Spec.Classification.ratio a b = if b = 0 then 0 else a / b := by
  simp [Spec.Classification.ratio]

theorem safeDivide_eq_ratio (a b : K) : safeDivide a b = Spec.Classification.ratio a b := by
  rw [safeDivide_def, ratio_def]

theorem safeDivide_zero_left (b : K) : safeDivide 0 b = 0 := by
  rw [safeDivide_def]; split <;> simp

theorem safeDivide_nonneg {a b : K} (ha : 0 ≤ a) (hb : 0 ≤ b) : 0 ≤ safeDivide a b := by
  rw [safeDivide_def]; split
  · exact le_refl 0
  · exact div_nonneg ha hb

theorem safeDivide_le_one {a b : K} (hab : a ≤ b) (hb : 0 ≤ b) : safeDivide a b ≤ 1 := by
  rw [safeDivide_def]; split
  · exact zero_le_one
  · rename_i h
    have hb' : 0 < b := lt_of_le_of_ne hb (Ne.symm h)
    exact (div_le_one hb').mpr hab

/-- the two complementary shares of a non-zero total add up to one -/
theorem safeDivide_compl {a b : K} (h : a + b ≠ 0) :
    safeDivide a (a + b) = 1 - safeDivide b (a + b) := by
  rw [safeDivide_def, safeDivide_def, if_neg h, if_neg h]
  field_simp
  ring

end MlModel.Lemmas.Rates
