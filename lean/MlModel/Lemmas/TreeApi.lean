import MlModel.Lemmas.TreeItems
/-!
# The public entry points (`copy_and_set`, `copy_and_update`, `apply`, `items`) in terms of `_set_by_path`
and `_dfs_iter_tree`
-/
namespace MlModel.Tree

@[simp] theorem finishSet_fst (ip : Bool) (root : Ref) (r : Res Ref) : (finishSet ip root r).1 = r.1 := by
  obtain ⟨h1, e⟩ := r; cases e <;> rfl

theorem copyAndSet_path (strict : Bool) (h : Heap) (t : Ref) (p : Path) (v : Ref) :
    copyAndSet strict h t (.path p) v = setPath strict false h t p v := by
  simp only [copyAndSet, setItem]
  generalize setPath strict false h t p v = r
  obtain ⟨h1, e⟩ := r
  cases e <;> simp [finishSet]

theorem setMany_extends (strict : Bool) : ∀ (kvs : List (Path × Ref)) (h : Heap) (t : Ref),
    Extends h (setMany strict false h t kvs).1 := by
  intro kvs
  induction kvs with
  | nil => intro h t; simp [setMany]; exact Extends.refl _
  | cons kv kvs ih =>
    intro h t
    obtain ⟨p, v⟩ := kv
    simp only [setMany]
    have h1 := setPath_extends strict h t p v
    split
    · rename_i h1' d he; rw [he] at h1; exact h1.trans (ih h1' d)
    · rename_i h1' e he; rw [he] at h1; exact h1

theorem shallowCopy_extends (h : Heap) (r : Ref) : Extends h (shallowCopy h r).1 := by
  unfold shallowCopy
  split <;> first | exact extends_push _ _ | exact ndCopy_extends _ _ _ _ | exact Extends.refl _

theorem mapValues_extends {f : LeafFn} (hf : ∀ h r, Extends h (f h r).1) :
    ∀ (ps : List Path) (h : Heap) (root : Ref), Extends h (mapValues f h root ps).1 := by
  intro ps
  induction ps with
  | nil => intro h root; simp [mapValues]; exact Extends.refl _
  | cons p ps ih =>
    intro h root
    simp only [mapValues]
    split
    · exact Extends.refl _
    · rename_i r mapped _
      have h1 : Extends h (if mapped = true then f h r else (h, r)).1 := by
        split
        · exact hf h r
        · exact Extends.refl _
      generalize (if mapped = true then f h r else (h, r)) = fr at h1
      obtain ⟨h1', v⟩ := fr
      simp only
      have h2 := ih h1' root
      split
      · rename_i h2' kvs he; rw [he] at h2; exact h1.trans h2
      · rename_i h2' e he; rw [he] at h2; exact h1.trans h2

/-- `xs.mapM g = ok ys` in `Except`: element-wise. -/
theorem mapM_ok {α β : Type} {g : α → Except ErrKind β} : ∀ {xs : List α} {ys : List β},
    xs.mapM g = .ok ys → Forall2 (fun x y => g x = .ok y) xs ys := by
  intro xs
  induction xs with
  | nil =>
    intro ys h
    simp [List.mapM_nil, pure, Except.pure] at h
    subst h; exact .nil
  | cons x xs ih =>
    intro ys h
    rw [List.mapM_cons] at h
    cases hx : g x with
    | error e => simp [hx, bind, Except.bind] at h
    | ok y =>
      cases hxs : xs.mapM g with
      | error e => simp [hx, hxs, bind, Except.bind] at h
      | ok ys' =>
        simp [hx, hxs, bind, Except.bind, pure, Except.pure] at h
        subst h
        exact .cons hx (ih hxs)

theorem Forall2.length_eq {α β : Type} {R : α → β → Prop} {xs : List α} {ys : List β}
    (h : Forall2 R xs ys) : xs.length = ys.length := by
  induction h with
  | nil => rfl
  | cons _ _ ih => simp [ih]

theorem Forall2.get {α β : Type} {R : α → β → Prop} {xs : List α} {ys : List β}
    (h : Forall2 R xs ys) : ∀ (i : Nat) (hi : i < xs.length) (hi' : i < ys.length), R xs[i] ys[i] := by
  induction h with
  | nil => intro i hi; cases hi
  | cons hab _ ih =>
    intro i hi hi'
    cases i with
    | zero => exact hab
    | succ j => exact ih j (by simpa using hi) (by simpa using hi')

theorem Forall2.mem_right {α β : Type} {R : α → β → Prop} {xs : List α} {ys : List β}
    (h : Forall2 R xs ys) {y : β} (hy : y ∈ ys) : ∃ x ∈ xs, R x y := by
  induction h with
  | nil => cases hy
  | cons hab _ ih =>
    rcases List.mem_cons.mp hy with e | e
    · subst e; exact ⟨_, by simp, hab⟩
    · obtain ⟨x, hx, hr⟩ := ih e; exact ⟨x, by simp [hx], hr⟩

theorem Forall2.mem_left {α β : Type} {R : α → β → Prop} {xs : List α} {ys : List β}
    (h : Forall2 R xs ys) {x : α} (hx : x ∈ xs) : ∃ y ∈ ys, R x y := by
  induction h with
  | nil => cases hx
  | cons hab _ ih =>
    rcases List.mem_cons.mp hx with e | e
    · subst e; exact ⟨_, by simp, hab⟩
    · obtain ⟨y, hy, hr⟩ := ih e; exact ⟨y, by simp [hy], hr⟩

end MlModel.Tree

namespace MlModel.Tree

/-! ## executable check of `GoodDicts` (for the non-vacuity examples) -/

def nodupB {α : Type} [DecidableEq α] : List α → Bool
  | [] => true
  | x :: xs => !(xs.contains x) && nodupB xs

theorem nodupB_sound {α : Type} [DecidableEq α] : ∀ {xs : List α}, nodupB xs = true → xs.Nodup := by
  intro xs
  induction xs with
  | nil => intro _; exact List.nodup_nil
  | cons x xs ih =>
    intro hb
    simp only [nodupB, Bool.and_eq_true, Bool.not_eq_true', List.contains_eq_mem, decide_eq_false_iff_not] at hb
    exact List.nodup_cons.mpr ⟨hb.1, ih hb.2⟩

def DKey.isLit : DKey → Bool
  | .lit _ _ => true
  | _ => false

def goodDictsB (h : Heap) : Bool :=
  h.toList.all fun n => match n with
    | .dict es => nodupB (es.map (·.1.norm)) && es.all (fun e => !e.1.isLit)
    | _ => true

theorem goodDictsB_sound {h : Heap} (hb : goodDictsB h = true) : GoodDicts h := by
  intro r es hn
  unfold goodDictsB at hb
  rw [List.all_eq_true] at hb
  have hmem : Node.dict es ∈ h.toList := by
    have hlt := lt_size_of_get hn
    have : h[r] = Node.dict es := by
      have := Array.getElem?_eq_getElem hlt
      rw [this] at hn; exact Option.some.inj hn
    rw [← this]
    exact Array.getElem_mem_toList hlt
  have := hb _ hmem
  simp only [Bool.and_eq_true, List.all_eq_true, Bool.not_eq_true'] at this
  refine ⟨nodupB_sound this.1, ?_⟩
  intro e he id v heq
  have := this.2 e he
  rw [heq] at this
  simp [DKey.isLit] at this

end MlModel.Tree
