import MlModel.Lemmas.RetrievalThr
/-!
# `ThresholdedRetrieval`: the matcher-based counts are the textbook pooled counts
-/
namespace MlModel.Agg.Retrieval.Thr
open MlModel.Agg.Retrieval MlModel.Spec.Retrieval.Thr

variable {α : Type} [DecidableEq α]
set_option linter.unusedSectionVars false

theorem above_filter (t : Rat) (l : List Rat) :
    above t (l.filter (· ≥ 0)) = l.countP fun x => decide (x ≥ 0) && decide (x > t) := by
  simp only [above, List.countP_filter]
  apply List.countP_congr
  intro x _
  simp [and_comm]

theorem zip_snd_unique {β γ : Type} (as : List β) (bs : List γ) (h : bs.Nodup) (a a' : β) (b : γ)
    (h1 : (a, b) ∈ as.zip bs) (h2 : (a', b) ∈ as.zip bs) : a = a' := by
  induction as generalizing bs with
  | nil => simp at h1
  | cons x xs ih =>
    cases bs with
    | nil => simp at h1
    | cons y ys =>
      rw [List.nodup_cons] at h
      simp only [List.zip_cons_cons, List.mem_cons, Prod.mk.injEq] at h1 h2
      rcases h1 with ⟨rfl, rfl⟩ | h1
      · rcases h2 with ⟨rfl, _⟩ | h2
        · rfl
        · exact absurd (List.of_mem_zip h2).2 h.1
      · rcases h2 with ⟨_, rfl⟩ | h2
        · exact absurd (List.of_mem_zip h1).2 h.1
        · exact ih ys h.2 h1 h2

theorem pairs_length (r : Row α) (h : RowOk r) : r.pairs.length = r.yPred.length := by
  simp [Row.pairs, h.len]

theorem pairs_nonneg (r : Row α) (h : RowOk r) : ∀ x ∈ r.pairs, 0 ≤ x.1 := by
  intro x hx
  exact h.nonneg x.1 (List.of_mem_zip (a := x.1) (b := x.2) hx).1

/-- matched predictions with probability `> t` -/
theorem predProb_count (r : Row α) (h : RowOk r) (t : Rat) (ht : 0 ≤ t) :
    above t (r.predProb.filter (· ≥ 0)) = predTP r t := by
  rw [above_filter]
  simp only [Row.predProb, pairs_length r h, Nat.sub_self, List.replicate_zero, List.append_nil,
    List.countP_map, predTP]
  apply List.countP_congr
  intro x hx
  have hq := pairs_nonneg r h x hx
  rcases x with ⟨q, p⟩
  simp only [Function.comp]
  by_cases hp : p ∈ r.yTrue
  · simp only [hp, if_true, ge_iff_le, Bool.and_eq_true, decide_eq_true_eq, true_and]
    exact ⟨fun hh => hh.2, fun hh => ⟨hq, hh⟩⟩
  · simp only [hp, if_false, ge_iff_le, Bool.and_eq_true, decide_eq_true_eq, false_and, iff_false,
      not_and]
    intro _
    exact Rat.not_lt.mpr ht

/-- predictions with probability `> t` -/
theorem probs_count (r : Row α) (h : RowOk r) (t : Rat) : above t r.probs = predPos r t := by
  have e : r.probs = r.pairs.map Prod.fst := by
    rw [Row.pairs, List.map_fst_zip]
    rw [h.len]; exact Nat.le_refl _
  rw [above, e, List.countP_map, predPos]
  rfl

/-- the probability the matcher writes for a true label -/
def matchProb (r : Row α) (x : α) : Rat :=
  match r.pairs.reverse.find? (fun (_, p) => p = x) with
  | some (q, _) => q
  | none => 0

theorem trueProb_eq (r : Row α) : r.trueProb = r.yTrue.map (matchProb r) := rfl

theorem matchProb_spec (r : Row α) (h : RowOk r) (t : Rat) (ht : 0 ≤ t) (x : α) :
    (0 ≤ matchProb r x) ∧
    (matchProb r x > t ↔ (r.pairs.any fun (q, p) => decide (p = x) && decide (q > t)) = true) := by
  unfold matchProb
  cases hf : r.pairs.reverse.find? (fun (_, p) => p = x) with
  | none =>
    refine ⟨Rat.le_refl, ?_⟩
    have hnone := List.find?_eq_none.mp hf
    constructor
    · intro hgt
      exact absurd hgt (Rat.not_lt.mpr ht)
    · intro hany
      obtain ⟨⟨q, p⟩, hmem, hp⟩ := List.any_eq_true.mp hany
      simp only [Bool.and_eq_true, decide_eq_true_eq] at hp
      have := hnone (q, p) (List.mem_reverse.mpr hmem)
      simp [hp.1] at this
  | some y =>
    rcases y with ⟨q, p⟩
    have hp : p = x := by simpa using List.find?_some hf
    have hmem : (q, p) ∈ r.pairs := List.mem_reverse.mp (List.mem_of_find?_eq_some hf)
    refine ⟨pairs_nonneg r h (q, p) hmem, ?_⟩
    simp only
    constructor
    · intro hgt
      exact List.any_eq_true.mpr ⟨(q, p), hmem, by simp [hp, hgt]⟩
    · intro hany
      obtain ⟨⟨q', p'⟩, hmem', hp'⟩ := List.any_eq_true.mp hany
      simp only [Bool.and_eq_true, decide_eq_true_eq] at hp'
      have : q = q' := by
        apply zip_snd_unique r.probs r.yPred h.predNodup q q' x
        · rw [← hp]; exact hmem
        · rw [← hp'.1]; exact hmem'
      rw [this]; exact hp'.2

/-- matched true labels with probability `> t` -/
theorem trueProb_count (r : Row α) (h : RowOk r) (t : Rat) (ht : 0 ≤ t) :
    above t (r.trueProb.filter (· ≥ 0)) = trueTP r t := by
  rw [above_filter, trueProb_eq, List.countP_map, trueTP]
  apply List.countP_congr
  intro x _
  obtain ⟨h0, hiff⟩ := matchProb_spec r h t ht x
  simp only [Function.comp, ge_iff_le, Bool.and_eq_true, decide_eq_true_eq, h0, true_and]
  rw [hiff]
  simp

theorem trueProb_length (r : Row α) (h : RowOk r) :
    (r.trueProb.filter (· ≥ 0)).length = r.yTrue.length := by
  have : r.trueProb.filter (· ≥ 0) = r.trueProb := by
    rw [List.filter_eq_self]
    intro a ha
    rw [trueProb_eq] at ha
    obtain ⟨x, _, rfl⟩ := List.mem_map.mp ha
    simpa using (matchProb_spec r h 0 Rat.le_refl x).1
  rw [this, trueProb_eq, List.length_map]

theorem not_ambiguous (r : Row α) (h : RowOk r) : r.ambiguous = false := by
  unfold Row.ambiguous
  rw [List.any_eq_false]
  intro x _
  have := (List.nodup_iff_count.mp h.trueNodup) x.2
  simp only [ge_iff_le, decide_eq_true_eq]
  omega

theorem above_flatten_filter (t : Rat) (rows : List (Row α)) (f : Row α → List Rat) :
    above t (((rows.map f).flatten).filter (· ≥ 0)) =
      (rows.map fun r => above t ((f r).filter (· ≥ 0))).foldl (· + ·) 0 := by
  have shift : ∀ (l : List Nat) (a : Nat), l.foldl (· + ·) a = a + l.foldl (· + ·) 0 := by
    intro l
    induction l with
    | nil => intro a; simp
    | cons x xs ih => intro a; simp only [List.foldl_cons]; rw [ih (a + x), ih (0 + x)]; omega
  induction rows with
  | nil => simp [above]
  | cons r rs ih =>
    simp only [List.map_cons, List.flatten_cons, List.filter_append, above_append, List.foldl_cons]
    rw [ih, shift _ (0 + _)]
    omega

theorem above_flatten (t : Rat) (rows : List (Row α)) (f : Row α → List Rat) :
    above t ((rows.map f).flatten) = (rows.map fun r => above t (f r)).foldl (· + ·) 0 := by
  have shift : ∀ (l : List Nat) (a : Nat), l.foldl (· + ·) a = a + l.foldl (· + ·) 0 := by
    intro l
    induction l with
    | nil => intro a; simp
    | cons x xs ih => intro a; simp only [List.foldl_cons]; rw [ih (a + x), ih (0 + x)]; omega
  induction rows with
  | nil => simp [above]
  | cons r rs ih =>
    simp only [List.map_cons, List.flatten_cons, above_append, List.foldl_cons]
    rw [ih, shift _ (0 + _)]
    omega

theorem length_flatten_filter (rows : List (Row α)) (f : Row α → List Rat) :
    (((rows.map f).flatten).filter (· ≥ 0)).length =
      (rows.map fun r => ((f r).filter (· ≥ 0)).length).foldl (· + ·) 0 := by
  have shift : ∀ (l : List Nat) (a : Nat), l.foldl (· + ·) a = a + l.foldl (· + ·) 0 := by
    intro l
    induction l with
    | nil => intro a; simp
    | cons x xs ih => intro a; simp only [List.foldl_cons]; rw [ih (a + x), ih (0 + x)]; omega
  induction rows with
  | nil => simp
  | cons r rs ih =>
    simp only [List.map_cons, List.flatten_cons, List.filter_append, List.length_append, List.foldl_cons]
    rw [ih, shift _ (0 + _)]
    omega

theorem map_congr_foldl (rows : List (Row α)) (f g : Row α → Nat) (h : ∀ r ∈ rows, f r = g r) :
    (rows.map f).foldl (· + ·) 0 = (rows.map g).foldl (· + ·) 0 := by
  rw [List.map_congr_left h]

/-- **the counts of one `add`** on documented inputs are the textbook pooled counts -/
theorem batchCounts_spec (ts : List Rat) (hts : ∀ t ∈ ts, 0 ≤ t) (rows : List (Row α))
    (hrows : ∀ r ∈ rows, RowOk r) :
    batchCounts ts rows = .ok
      { tpTrues := ts.map fun t => sumOver rows (trueTP · t)
        tpPreds := ts.map fun t => sumOver rows (predTP · t)
        pTrues := sumOver rows (·.yTrue.length)
        pPreds := ts.map fun t => sumOver rows (predPos · t) } := by
  unfold batchCounts
  have hamb : rows.any Row.ambiguous = false := by
    rw [List.any_eq_false]
    intro r hr
    simp [not_ambiguous r (hrows r hr)]
  rw [if_neg (by rw [hamb]; exact Bool.false_ne_true)]
  simp only [Except.ok.injEq, Counts.mk.injEq, sumOver]
  refine ⟨?_, ?_, ?_, ?_⟩
  · apply List.map_congr_left
    intro t ht
    rw [above_flatten_filter]
    exact map_congr_foldl rows _ _ (fun r hr => trueProb_count r (hrows r hr) t (hts t ht))
  · apply List.map_congr_left
    intro t ht
    rw [above_flatten_filter]
    exact map_congr_foldl rows _ _ (fun r hr => predProb_count r (hrows r hr) t (hts t ht))
  · rw [length_flatten_filter]
    exact map_congr_foldl rows _ _ (fun r hr => trueProb_length r (hrows r hr))
  · apply List.map_congr_left
    intro t _
    rw [above_flatten]
    exact map_congr_foldl rows _ _ (fun r hr => probs_count r (hrows r hr) t)

end MlModel.Agg.Retrieval.Thr

namespace MlModel.Agg.Retrieval.Thr

/-- in a strictly increasing grid, exactly `j+1` points are `≤` the `j`-th one -/
theorem countP_le_getElem (xp : List Rat) (h : xp.Pairwise (· < ·)) (j : Nat) (hj : j < xp.length) :
    xp.countP (· ≤ xp[j]) = j + 1 := by
  induction xp generalizing j with
  | nil => simp at hj
  | cons a rest ih =>
    rw [List.pairwise_cons] at h
    cases j with
    | zero =>
      simp only [List.getElem_cons_zero, List.countP_cons, Rat.le_refl, decide_true, if_true]
      have : rest.countP (· ≤ a) = 0 := by
        rw [List.countP_eq_zero]
        intro b hb
        simpa using Rat.not_le.mpr (h.1 b hb)
      omega
    | succ j =>
      have hj' : j < rest.length := by simpa using hj
      simp only [List.getElem_cons_succ, List.countP_cons]
      rw [ih h.2 j hj']
      have : a ≤ rest[j] := Rat.le_of_lt (h.1 _ (List.getElem_mem hj'))
      simp [this]

/-- `np.interp` on a grid point returns the grid value: `metric@t` for a configured threshold `t`
is the metric at that threshold -/
theorem interp_grid (xp fp : List Rat) (h : xp.Pairwise (· < ·)) (j : Nat) (hj : j < xp.length) :
    interp xp[j] xp fp = fp.getD j 0 := by
  unfold interp
  simp only [countP_le_getElem xp h j hj, Nat.add_sub_cancel, Nat.add_one_ne_zero, if_false]
  have : xp.getD j 0 = xp[j] := by simp [List.getD_eq_getElem?_getD, List.getElem?_eq_getElem hj]
  simp only [this, if_true]
  split <;> rfl

end MlModel.Agg.Retrieval.Thr
