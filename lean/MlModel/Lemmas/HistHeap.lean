import MlModel.Model.Agg.HistHeap
import MlModel.Lemmas.AggHeapObs
/-!
# `Histogram` over array cells: the heap contract `HLawsR`, and what the methods compute
-/
namespace MlModel.Agg.Rolling.HistH
open MlModel.Agg.Heap

theorem mergeArr_facts (h : Heap Cell) (s : Obj) (oh : Ref) :
    (mergeArr h s oh).1.size = h.size + 1 ∧ (mergeArr h s oh).2 = ⟨h.size, s.edges⟩ ∧
    ExtendsExcept h (mergeArr h s oh).1 [] ∧
    (mergeArr h s oh).1.read h.size = vadd (h.read s.hist) (h.read oh) := by
  simp only [mergeArr, size_alloc, alloc_ref]
  exact ⟨trivial, trivial, extends_alloc h _ [], read_alloc_new h _⟩

theorem addFull_facts (edges : List Rat) (h : Heap Cell) (s : Obj) (b : List Rat) :
    (addFull edges h s b).1.size = h.size + 3 ∧ (addFull edges h s b).2.1 = ⟨h.size + 2, s.edges⟩ ∧
    (addFull edges h s b).2.2 = ⟨[h.size, h.size + 1], []⟩ ∧
    ExtendsExcept h (addFull edges h s b).1 [] := by
  simp only [addFull, mergeArr, size_alloc, alloc_ref]
  exact ⟨trivial, trivial, trivial,
    ((extends_alloc h _ []).trans (extends_alloc _ _ [])).trans (extends_alloc _ _ [])⟩

theorem result_facts (h : Heap Cell) (s : Obj) :
    (result h s).1.size = h.size + 2 ∧ (result h s).2 = ⟨[h.size, h.size + 1], []⟩ ∧
    ExtendsExcept h (result h s).1 [] := by
  simp only [result, size_alloc, alloc_ref]
  exact ⟨trivial, trivial, (extends_alloc h _ []).trans (extends_alloc _ _ [])⟩

theorem make_facts (edges : List Rat) (h : Heap Cell) :
    (make edges h).1.size = h.size + 2 ∧ (make edges h).2 = ⟨h.size, h.size + 1⟩ ∧
    ExtendsExcept h (make edges h).1 [] := by
  simp only [make, size_alloc, alloc_ref]
  exact ⟨trivial, trivial, (extends_alloc h _ []).trans (extends_alloc _ _ [])⟩

theorem valid_iff (h : Heap Cell) (o : Obj) :
    Valid h (⟨[], [o.hist, o.edges]⟩ : Footprint) ↔ o.hist < h.size ∧ o.edges < h.size := by
  simp [Valid, Footprint.refs]

/-- the contract of a method that rebinds `_hist` to a fresh array and keeps `_bin_edges` -/
theorem rebind_spec {h h' : Heap Cell} {s s' : Obj} (W : List Ref) (ext : ExtendsExcept h h' [])
    (e1 : s'.edges = s.edges) (e2 : h.size ≤ s'.hist) (e3 : s'.hist < h'.size)
    (hv : Valid h (⟨[], [s.hist, s.edges]⟩ : Footprint)) :
    ExtendsExcept h h' W ∧
    (∀ r ∈ ([] : List Ref), r ∈ W ∨ h.size ≤ r) ∧
    (∀ r ∈ [s'.hist, s'.edges], r ∈ [s.hist, s.edges] ∨ h.size ≤ r) ∧
    Valid h' (⟨[], [s'.hist, s'.edges]⟩ : Footprint) ∧
    SelfSep (⟨[], [s'.hist, s'.edges]⟩ : Footprint) := by
  have hv' := (valid_iff h s).mp hv
  refine ⟨ext.mono (by simp), by simp, ?_, ?_, by simp [SelfSep]⟩
  · intro r hr
    simp only [List.mem_cons, List.not_mem_nil, or_false] at hr ⊢
    rcases hr with rfl | rfl
    · exact Or.inr e2
    · exact Or.inl (Or.inr e1)
  · rw [valid_iff, e1]
    exact ⟨e3, Nat.lt_of_lt_of_le hv'.2 ext.1⟩

theorem make_spec' (edges : List Rat) (h : Heap Cell) :
    ExtendsExcept h (make edges h).1 [] ∧
    (∀ r ∈ (⟨[], [(make edges h).2.hist, (make edges h).2.edges]⟩ : Footprint).refs, h.size ≤ r) ∧
    Valid (make edges h).1 (⟨[], [(make edges h).2.hist, (make edges h).2.edges]⟩ : Footprint) ∧
    SelfSep (⟨[], [(make edges h).2.hist, (make edges h).2.edges]⟩ : Footprint) := by
  obtain ⟨f1, f2, f3⟩ := make_facts edges h
  rw [f2, valid_iff, f1]
  refine ⟨f3, ?_, by simp only []; omega, by simp [SelfSep]⟩
  intro r hr
  simp only [Footprint.refs, List.nil_append, List.mem_cons, List.not_mem_nil, or_false] at hr
  omega

theorem laws (edges : List Rat) : HLawsR (cls edges) where
  base := {
    make_spec := fun h => make_spec' edges h
    add_spec := fun h o b hv _ => by
      obtain ⟨f1, f2, _, f4⟩ := addFull_facts edges h o b
      have e : ((cls edges).add h o b).2 = ⟨h.size + 2, o.edges⟩ := f2
      have := rebind_spec (s' := ((cls edges).add h o b).2) [] f4 (by rw [e]) (by rw [e]; exact Nat.le_add_right _ _)
        (by rw [e]; show h.size + 2 < (addFull edges h o b).1.size; rw [f1]; omega) hv
      exact this
    merge_spec := fun h s o hvs _ _ _ _ _ => by
      obtain ⟨f1, f2, f3, _⟩ := mergeArr_facts h s o.hist
      have e : ((cls edges).merge h s o).2 = ⟨h.size, s.edges⟩ := f2
      obtain ⟨m1, m2, m3, m4, m5⟩ := rebind_spec (s' := ((cls edges).merge h s o).2) [] f3 (by rw [e])
        (by rw [e]; exact Nat.le_refl _)
        (by rw [e]; show h.size < (mergeArr h s o.hist).1.size; rw [f1]; omega) hvs
      exact ⟨m1, m2, fun r hr => (m3 r hr).elim Or.inl (fun x => Or.inr (Or.inr x)), m4, m5⟩ }
  addOut_spec := fun h o b hv _ => by
    obtain ⟨f1, f2, f3, _⟩ := addFull_facts edges h o b
    have hv' := (valid_iff h o).mp hv
    have e : ((cls edges).add h o b).2 = ⟨h.size + 2, o.edges⟩ := f2
    have eo : (cls edges).addOut h o b = ⟨[h.size, h.size + 1], []⟩ := f3
    have es : ((cls edges).add h o b).1.size = h.size + 3 := f1
    rw [eo, e, es]
    refine ⟨fun r hr => ?_, fun r hr => by simp at hr⟩
    simp only [List.mem_cons, List.not_mem_nil, or_false] at hr
    refine ⟨Or.inl (by omega), by omega, ?_⟩
    show r ∉ (⟨[], [h.size + 2, o.edges]⟩ : Footprint).refs
    simp only [Footprint.refs, List.nil_append, List.mem_cons, List.not_mem_nil, or_false]
    omega
  result_spec := fun h o _ => by
    obtain ⟨f1, f2, f3⟩ := result_facts h o
    have eo : ((cls edges).result h o).2 = ⟨[h.size, h.size + 1], []⟩ := f2
    have es : ((cls edges).result h o).1.size = h.size + 2 := f1
    rw [eo, es]
    refine ⟨f3, fun r hr => ?_, fun r hr => by simp at hr⟩
    simp only [List.mem_cons, List.not_mem_nil, or_false] at hr
    omega

/-- `result()` returns copies: two fresh arrays holding the current bins and edges -/
theorem result_reads (h : Heap Cell) (s : Obj) (hv : s.hist < h.size ∧ s.edges < h.size) :
    (result h s).1.read h.size = h.read s.hist ∧ (result h s).1.read (h.size + 1) = h.read s.edges := by
  simp only [result]
  constructor
  · rw [read_alloc_old _ _ (by rw [size_alloc]; omega), read_alloc_new]
  · have := read_alloc_new (h.alloc (h.read s.hist)).1 ((h.alloc (h.read s.hist)).1.read s.edges)
    rw [size_alloc] at this
    rw [this, read_alloc_old _ _ hv.2]

end MlModel.Agg.Rolling.HistH
