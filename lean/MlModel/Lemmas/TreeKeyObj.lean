import MlModel.Lemmas.TreeApply
/-!
# C18 — a mapping KEY that is itself a path-like object is ONE path element (wp-SC18c)

`DKey.obj a` / `PKey.obj a` (Model/Tree.lean) stand for any other hashable key object — a `Key` instance used as a
mapping key (`dict(view.items())`: a flattened tree), a tuple, a frozenset — as an opaque atom.  `_dfs_iter_tree`
(tree.py:299) appends the key it finds in a mapping with `parent_key_path.at(k)`: ONE element whatever `k` is.  The
lemmas here relate a listed path to the DEPTH of its leaf and let a stored-key walk be extended below any node.
-/
namespace MlModel.Tree

/-- `Descends h r d x`: descending `d` parent→child edges from `r` arrives at `x` (whatever the keys are). -/
inductive Descends (h : Heap) : Ref → Nat → Ref → Prop
  | here {r : Ref} : Descends h r 0 r
  | step {r : Ref} {n : Node} {k : PKey} {c : Ref} {d : Nat} {x : Ref} :
      h[r]? = some n → (k, c) ∈ n.children → Descends h c d x → Descends h r (d + 1) x

/-- A leaf walk has exactly one path element per level descended. -/
theorem LeafWalk.descends {h : Heap} {r : Ref} {q : Path} {x : Ref} (w : LeafWalk h r q x) :
    Descends h r q.length x := by
  induction w with
  | leaf _ _ => exact .here
  | step hn hm _ ih => exact .step hn hm ih

/-- `Walk h r pre c`: following the *stored* keys `pre` from `r` arrives at the node `c` (not necessarily a leaf). -/
inductive Walk (h : Heap) : Ref → Path → Ref → Prop
  | nil {r : Ref} : Walk h r [] r
  | step {r : Ref} {n : Node} {k : PKey} {c : Ref} {q : Path} {x : Ref} :
      h[r]? = some n → (k, c) ∈ n.children → Walk h c q x → Walk h r (k :: q) x

/-- a stored-key walk followed by a leaf walk is a leaf walk -/
theorem Walk.leafWalk {h : Heap} {r : Ref} {pre : Path} {c : Ref} (w : Walk h r pre c) {q : Path} {x : Ref}
    (l : LeafWalk h c q x) : LeafWalk h r (pre ++ q) x := by
  induction w with
  | nil => exact l
  | step hn hm _ ih => exact .step hn hm (ih l)

/-- the entry `obj a ↦ c` of a dict is the child `(PKey.obj a, c)`: the key object itself, ONE element -/
theorem obj_mem_children {es : List (DKey × Ref)} {a : Nat} {c : Ref} (hm : (DKey.obj a, c) ∈ es) :
    (PKey.obj a, c) ∈ (Node.dict es).children := by
  simp only [Node.children, List.mem_map]
  exact ⟨(.obj a, c), hm, rfl⟩

end MlModel.Tree
