import MlModel.Model.Pipe
/-!
# The iterator OBJECT after the first error (C12, package SC12c)

`Iter.consume next fuel s` is the caller's `for x in it` (until `StopIteration` or the first exception),
`Iter.calls next k s` are `k` further `next()` calls on the same object.  For the two kinds of iterator:

* a **generator** object around any body (`genNext`): once finalised, every later call answers
  `StopIteration` (`calls_gen_none`); over a cursor, the caller's loop hands out `observe evs` and leaves
  the object finalised exactly when an exception ended the loop (`consume_gen_cursor`);
* a **resumable** cursor: the caller's loop hands out the same values and the same exception, but the
  object stays alive *behind* the failing element (`consume_cursor`), and further calls deliver what is
  there (`calls_cursor`).
-/
namespace MlModel.Iter

/-- the state of a generator object around a cursor after the caller's loop: finalised iff an exception
ended the loop -/
def genEnd {α : Type} (evs : List (Ev α)) : Option (List (Ev α)) :=
  match (observe evs).2 with
  | some _ => none
  | none => some []

/-- what is left of a resumable iterator after the caller's loop: everything behind the first error -/
def afterErr {α : Type} : List (Ev α) → List (Ev α)
  | [] => []
  | .ok _ :: rest => afterErr rest
  | .error _ :: rest => rest

theorem calls_gen_none {α σ : Type} (next : σ → Step α σ) (k : Nat) :
    calls (genNext next) k none = (List.replicate k none, none) := by
  induction k with
  | zero => rfl
  | succ k ih => simp only [calls, genNext, ih, List.replicate_succ]

theorem consume_gen_cursor {α : Type} (evs : List (Ev α)) (fuel : Nat) (h : evs.length < fuel) :
    consume (genNext cursorNext) fuel (some evs) = ((observe evs).1, (observe evs).2, genEnd evs) := by
  induction evs generalizing fuel with
  | nil =>
    cases fuel with
    | zero => simp at h
    | succ f => simp [consume, genNext, cursorNext, observe, genEnd]
  | cons ev rest ih =>
    cases fuel with
    | zero => simp at h
    | succ f =>
      have hf : rest.length < f := by simp only [List.length_cons] at h; omega
      cases ev with
      | ok a =>
        simp only [consume, genNext, cursorNext, ih f hf, observe, genEnd]
      | error e =>
        simp [consume, genNext, cursorNext, observe, genEnd]

theorem consume_cursor {α : Type} (evs : List (Ev α)) (fuel : Nat) (h : evs.length < fuel) :
    consume cursorNext fuel evs = ((observe evs).1, (observe evs).2, afterErr evs) := by
  induction evs generalizing fuel with
  | nil =>
    cases fuel with
    | zero => simp at h
    | succ f => simp [consume, cursorNext, observe, afterErr]
  | cons ev rest ih =>
    cases fuel with
    | zero => simp at h
    | succ f =>
      have hf : rest.length < f := by simp only [List.length_cons] at h; omega
      cases ev with
      | ok a => simp only [consume, cursorNext, ih f hf, observe, afterErr]
      | error e => simp [consume, cursorNext, observe, afterErr]

/-- further calls on a resumable cursor deliver what is there, event by event -/
theorem calls_cursor {α : Type} (evs : List (Ev α)) (k : Nat) :
    calls cursorNext k evs = ((evs.take k).map some ++ List.replicate (k - evs.length) none, evs.drop k) := by
  induction k generalizing evs with
  | zero => simp [calls]
  | succ k ih =>
    cases evs with
    | nil =>
      have := ih ([] : List (Ev α))
      simp only [calls, cursorNext, this]
      simp [List.replicate_succ]
    | cons ev rest =>
      cases ev with
      | ok a => simp [calls, cursorNext, ih rest]
      | error e => simp [calls, cursorNext, ih rest]

theorem genEnd_of_err {α : Type} (evs : List (Ev α)) (e : Err) (h : (observe evs).2 = some e) :
    genEnd evs = none := by
  simp [genEnd, h]

theorem genEnd_of_none {α : Type} (evs : List (Ev α)) (h : (observe evs).2 = none) :
    genEnd evs = some [] := by
  simp [genEnd, h]

end MlModel.Iter
