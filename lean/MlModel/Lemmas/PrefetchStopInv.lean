import MlModel.Lemmas.PrefetchStop
/-!
# `SInv` is inductive (any request list, any schedule)
-/
namespace MlModel.Prefetch
open MlModel.Queue (ph stopping pcKind)
set_option linter.unusedSimpArgs false
set_option linter.unusedVariables false

theorem step_not_done {c c' : Cfg} {tid : Queue.Tid} {lbl : String} {t : Thread} (ht : c.ths[tid]? = some t)
    (h : step c tid = some (lbl, c')) : t.pc ≠ .done := by
  intro hd
  unfold step at h
  simp [ht, hd] at h

/-- a fresh queue appended by an installation is nobody's yet -/
theorem no_prod_fresh {c : Cfg} (hI : IInv c) {j : Queue.Tid} {u : Thread} (hu : c.ths[j]? = some u) :
    u.prog ≠ .producer c.sh.qs.length := by
  intro hp
  exact Nat.lt_irrefl _ (hI.prodG j u _ hu hp)

set_option maxHeartbeats 1000000 in
theorem sinv_step {c c' : Cfg} {tid : Queue.Tid} {lbl : String} (hG : GInv c) (hI : IInv c) (hU : UInv c)
    (hS : SInv c) (h : step c tid = some (lbl, c')) : SInv c' := by
  obtain ⟨t, ht⟩ := step_some_thread h
  obtain ⟨t', hk, hl⟩ := step_eff ht h
  have hself := hk.get_self ht
  have hq : QEff c c' tid t t' := by
    obtain ⟨t'', h1, h2⟩ := step_qeff ht h
    rw [hself] at h1
    cases h1
    exact h2
  have hU' := uinv_step hI hU h
  have hI' := iinv_step hI h
  have hnd := step_not_done ht h
  have hprog : t'.prog = t.prog := hl.prog
  -- threads of the new configuration
  have hinv : ∀ (j : Queue.Tid) (u : Thread), c'.ths[j]? = some u →
      (j = tid ∧ u = t') ∨ (j ≠ tid ∧ c.ths[j]? = some u) ∨
      (u.prog = .producer t.g ∧ u.pc = .start ∧ u.qt.pc = .sAcq ∧ t.pc = .iiSpawn) := by
    intro j u hu
    rcases hk.get_inv ht hu with h1 | h1 | ⟨-, h2, h3, h4, -, h6⟩
    · exact Or.inl h1
    · exact Or.inr (Or.inl h1)
    · exact Or.inr (Or.inr ⟨h2, h3, h6, h4⟩)
  have hfwd : ∀ (j : Queue.Tid) (u : Thread), j ≠ tid → c.ths[j]? = some u → c'.ths[j]? = some u :=
    fun j u hj hu => hk.get_other hj hu
  -- the lock excludes a second thread inside the locked region
  have hexcl : ∀ (j : Queue.Tid) (u : Thread), j ≠ tid → c.ths[j]? = some u → holdsGen u.pc = true →
      holdsGen t.pc = true → False := by
    intro j u hj hu hh h0
    have a := hI.lock j u hu hh
    rw [hI.lock _ t ht h0] at a
    exact hj (Option.some.inj a).symm
  -- shape of the stepping thread when it is a prefetch thread
  have hshape := hS.shapeP tid t
  cases hq with
  | none hqs hnew hpc hprod hstop hget hstart hjoin hstartP =>
    obtain ⟨hp1, hp2, hp3, hp4⟩ := hpc
    -- a prefetch thread that takes a step outside `enqueue_from_iterator` is at its very first step
    have hfirst : ∀ k, t.prog = .producer k → t.pc = .start ∧ t.qt.pc = .sAcq ∧ t'.pc = .prod ∧ t'.qt = t.qt ∧ t'.g = k := by
      intro k hp
      rcases hshape k ht hp with ⟨a, b⟩ | ⟨a, -⟩ | a
      · have h1 := hstartP a k hp
        obtain ⟨-, h2, h3⟩ := hprod h1
        rw [hp] at h3
        exact ⟨a, b, h1, h2, (Prog.producer.inj h3).symm⟩
      · exact absurd a hp3
      · exact absurd a hp4
    -- no queue and no thread appear in the same step
    have hnofresh : ∀ (j : Queue.Tid) (u : Thread), c'.ths[j]? = some u → u.prog ≠ .producer c.sh.qs.length ∨
        c'.sh.qs.length = c.sh.qs.length := by
      intro j u hu
      rcases hinv j u hu with ⟨rfl, rfl⟩ | ⟨-, hu0⟩ | ⟨-, -, -, h4⟩
      · left; rw [hprog]; exact no_prod_fresh hI ht
      · left; exact no_prod_fresh hI hu0
      · right
        cases hk with
        | plain _ _ _ _ h1 => exact absurd h4 h1
        | install _ _ _ _ _ _ h1 => exact absurd h4 h1
        | spawn _ _ _ _ hlen => exact hlen
    refine ⟨?_, ?_, ?_, ?_, ?_, ?_⟩
    · -- shapeP
      intro j u k hu hp
      rcases hinv j u hu with ⟨rfl, rfl⟩ | ⟨-, hu0⟩ | ⟨-, h2, h3, -⟩
      · rw [hprog] at hp
        obtain ⟨a, b, d, e, f⟩ := hfirst k hp
        exact Or.inr (Or.inl ⟨d, f, by rw [e, b]; rfl⟩)
      · exact hS.shapeP j u k hu0 hp
      · exact Or.inl ⟨h2, h3⟩
    · -- shapeS
      intro j u hu hpc
      rcases hinv j u hu with ⟨rfl, rfl⟩ | ⟨-, hu0⟩ | ⟨-, h2, -⟩
      · have := hstop hpc
        exact ⟨by rw [this]; rfl, fun hne => absurd this hne⟩
      · obtain ⟨a, b⟩ := hS.shapeS j u hu0 hpc
        exact ⟨a, fun hne => by obtain ⟨q, hq, hs⟩ := b hne; exact ⟨q, hqs _ q hq, hs⟩⟩
      · rw [h2] at hpc; cases hpc
    · -- shapeC
      intro j u hu hpc
      rcases hinv j u hu with ⟨rfl, rfl⟩ | ⟨-, hu0⟩ | ⟨-, h2, -⟩
      · rw [hget hpc]; rfl
      · exact hS.shapeC j u hu0 hpc
      · rw [h2] at hpc; cases hpc
    · -- num
      intro k q hq hsr
      rcases hnew k q hq with hq0 | ⟨rfl, rfl⟩
      · obtain ⟨n1, n2⟩ := hS.num k q hq0 hsr
        refine ⟨fun hall => n1 ?_, ?_⟩
        · intro tp P hP hpP
          by_cases hj : tp = tid
          · subst hj
            rw [ht] at hP; obtain rfl := Option.some.inj hP
            exact Or.inl (hfirst k hpP).1
          · exact hall tp P (hfwd tp P hj hP) hpP
        · intro tp P hP hpP hm
          rcases hinv tp P hP with ⟨rfl, rfl⟩ | ⟨-, hu0⟩ | ⟨-, h2, -⟩
          · rw [hprog] at hpP
            obtain ⟨a, b, d, e, f⟩ := hfirst k hpP
            obtain ⟨-, hm2⟩ := hm
            rw [e, b] at hm2; cases hm2
          · exact n2 tp P hu0 hpP hm
          · rw [hm.1] at h2; cases h2
      · -- the freshly installed queue
        refine ⟨fun _ => ⟨rfl, rfl, rfl, rfl⟩, ?_⟩
        intro tp P hP hpP hm
        rcases hnofresh tp P hP with h1 | h1
        · exact absurd hpP h1
        · have : c.sh.qs.length < c'.sh.qs.length := by
            rcases List.getElem?_eq_some_iff.mp hq with ⟨h, _⟩; exact h
          omega
    · -- exh
      intro k q hq hex
      rcases hnew k q hq with hq0 | ⟨rfl, rfl⟩
      · rcases hS.exh k q hq0 hex with h1 | ⟨tp, P, hP, hpP, hpast⟩
        · exact Or.inl h1
        · have hj : tp ≠ tid := by
            rintro rfl
            rw [ht] at hP; obtain rfl := Option.some.inj hP
            rcases hpast with a | ⟨a, -⟩
            · exact hp4 a
            · exact hp3 a
          exact Or.inr ⟨tp, P, hfwd tp P hj hP, hpP, hpast⟩
      · cases hex
    · -- stopReq
      intro k q hq hsr
      rcases hnew k q hq with hq0 | ⟨rfl, rfl⟩
      · rcases hS.stopReq k q hq0 hsr with ⟨tp, P, hP, hpP, hd⟩ | ⟨a, A, hA, hpcA, hgA⟩
        · have hj : tp ≠ tid := by
            rintro rfl
            rw [ht] at hP; obtain rfl := Option.some.inj hP
            exact hp4 hd
          exact Or.inl ⟨tp, P, hfwd tp P hj hP, hpP, hd⟩
        · by_cases hj : a = tid
          · subst hj
            rw [ht] at hA; obtain rfl := Option.some.inj hA
            rcases hpcA with hpcA | hpcA
            · exact absurd hpcA hp1
            · -- the join has just succeeded: the recorded prefetch thread is the one of this generator
              obtain ⟨p, tp, he, htp, hdn⟩ := hjoin hpcA
              obtain ⟨tp2, k2, htp2, hpk2, hor⟩ := hI.enq p he
              rw [htp] at htp2; obtain rfl := Option.some.inj htp2
              have hgen := hU.stopG _ t ht (Or.inr hpcA)
              have hk2 : k2 = t.g := by
                rcases hor with h1 | ⟨w, tw, hw, hpw⟩
                · rw [hgen] at h1; exact (Option.some.inj h1).symm
                · exfalso
                  by_cases hwt : w = a
                  · subst hwt; rw [ht] at hw; rw [← Option.some.inj hw, hpcA] at hpw; cases hpw
                  · exact hexcl w tw hwt hw (by rw [hpw]; rfl) (by rw [hpcA]; rfl)
              have hpa : p ≠ a := by
                rintro rfl
                rw [ht] at htp; rw [← Option.some.inj htp, hpcA] at hdn; cases hdn
              exact Or.inl ⟨p, tp, hfwd p tp hpa htp, by rw [hpk2, hk2, hgA], hdn⟩
          · exact Or.inr ⟨a, A, hfwd a A hj hA, hpcA, hgA⟩
      · cases hsr
  | op q q' qt' lbl0 hq hst hq' hqs hnew hpc hprod hget hstop =>
    have hglt : t.g < c.sh.qs.length := by
      rcases List.getElem?_eq_some_iff.mp hq with ⟨h, _⟩; exact h
    -- queues of the new configuration
    have hqc : ∀ (k : Nat) (q0 : Queue.Shared), c'.sh.qs[k]? = some q0 →
        (k = t.g ∧ q0 = q') ∨ (k ≠ t.g ∧ c.sh.qs[k]? = some q0) ∨
        (k ≠ t.g ∧ k = c.sh.qs.length ∧ q0 = freshQueue c.sh.prefetch) := by
      intro k q0 h0
      by_cases hkg : k = t.g
      · subst hkg; rw [hq'] at h0; exact Or.inl ⟨rfl, (Option.some.inj h0).symm⟩
      · rcases hnew k q0 hkg h0 with h1 | ⟨h1, h2⟩
        · exact Or.inr (Or.inl ⟨hkg, h1⟩)
        · exact Or.inr (Or.inr ⟨hkg, h1, h2⟩)
    -- no thread is created by a queue-level step
    have hold : ∀ (j : Queue.Tid) (u : Thread), c'.ths[j]? = some u →
        (j = tid ∧ u = t') ∨ (j ≠ tid ∧ c.ths[j]? = some u) := by
      intro j u hu
      rcases hinv j u hu with h1 | h1 | ⟨-, -, -, h4⟩
      · exact Or.inl h1
      · exact Or.inr h1
      · rcases hpc with h5 | h5 | h5 <;> rw [h4] at h5 <;> cases h5
    have hfreshP : ∀ (j : Queue.Tid) (u : Thread), c'.ths[j]? = some u → u.prog ≠ .producer c.sh.qs.length := by
      intro j u hu
      rcases hold j u hu with ⟨rfl, rfl⟩ | ⟨-, hu0⟩
      · rw [hprog]; exact no_prod_fresh hI ht
      · exact no_prod_fresh hI hu0
    -- the fresh queue (appended when the stop was the last thing before the installation) satisfies everything
    have hfreshN : ∀ (k : Nat), k = c.sh.qs.length →
        ((∀ (tp : Queue.Tid) (P : Thread), c'.ths[tp]? = some P → P.prog = .producer k → PreP P) →
          (freshQueue c.sh.prefetch).start = 0 ∧ (freshQueue c.sh.prefetch).stop = 0 ∧
          (freshQueue c.sh.prefetch).maxEnq = 0 ∧ (freshQueue c.sh.prefetch).exc = none) ∧
        (∀ (tp : Queue.Tid) (P : Thread), c'.ths[tp]? = some P → P.prog = .producer k → MidP P →
          (freshQueue c.sh.prefetch).start = 1 ∧ (freshQueue c.sh.prefetch).stop = 0 ∧
          (freshQueue c.sh.prefetch).maxEnq = 1 ∧ (freshQueue c.sh.prefetch).exc = none) := by
      intro k hk
      subst hk
      exact ⟨fun _ => ⟨rfl, rfl, rfl, rfl⟩, fun tp P hP hpP _ => absurd hpP (hfreshP tp P hP)⟩
    have hss := Queue.stepThread_stop lbl0 q' qt' hst
    rcases hpc with hpc | hpc | hpc
    · ----------------------------------------------------------------------- a step of `maybe_stop`
      obtain ⟨hkind, hsr0⟩ := hS.shapeS tid t ht hpc
      have hns : t.qt.pc ≠ .start := by intro h0; rw [h0] at hkind; cases hkind
      obtain ⟨hm1, hm2, hexh, hk', hass, hmrel⟩ := (hss hns).2.2 hkind
      have tnp : ∀ k, t.prog ≠ .producer k := by
        intro k hp
        rcases hshape k ht hp with ⟨a, -⟩ | ⟨a, -⟩ | a <;> rw [hpc] at a <;> cases a
      have hsrq : t.qt.pc ≠ .mAcq → q.stopRequested = true := by
        intro hne
        obtain ⟨q0, hq0, hs0⟩ := hsr0 hne
        rw [hq] at hq0; rw [Option.some.inj hq0]; exact hs0
      have hsr' : q'.stopRequested = true := by
        by_cases hm : t.qt.pc = .mAcq
        · exact hm1 hm
        · rw [hm2 hm]; exact hsrq hm
      have hst' := hstop hpc
      have hnp' : ∀ k, t'.prog ≠ .producer k := by intro k; rw [hprog]; exact tnp k
      -- threads keep their producer status
      have hsame : ∀ (k : Nat) (j : Queue.Tid) (P : Thread), P.prog = .producer k →
          (c'.ths[j]? = some P ↔ c.ths[j]? = some P) := by
        intro k j P hpP
        constructor
        · intro hP
          rcases hold j P hP with ⟨rfl, rfl⟩ | ⟨-, h0⟩
          · exact absurd hpP (hnp' k)
          · exact h0
        · intro hP
          have hj : j ≠ tid := by
            rintro rfl; rw [ht] at hP; rw [← Option.some.inj hP] at hpP; exact tnp k hpP
          exact hfwd j P hj hP
      refine ⟨?_, ?_, ?_, ?_, ?_, ?_⟩
      · intro j u k hu hp
        exact hS.shapeP j u k ((hsame k j u hp).mp hu) hp
      · intro j u hu hpcu
        rcases hold j u hu with ⟨rfl, rfl⟩ | ⟨hj, hu0⟩
        · rcases hst' with ⟨a, b, d, e⟩ | ⟨a, b, -⟩
          · rcases hk' with h1 | h1
            · exact absurd h1 e
            · exact ⟨by rw [b]; exact stopping_kind h1, fun _ => ⟨q', by rw [d]; exact hq', hsr'⟩⟩
          · rcases b with b | b | b <;> rw [b] at hpcu <;> cases hpcu
        · exact (hexcl j u hj hu0 (by rw [hpcu]; rfl) (by rw [hpc]; rfl)).elim
      · intro j u hu hpcu
        rcases hold j u hu with ⟨rfl, rfl⟩ | ⟨hj, hu0⟩
        · rcases hst' with ⟨a, -⟩ | ⟨-, b, -⟩
          · rw [a] at hpcu; cases hpcu
          · rcases b with b | b | b <;> rw [b] at hpcu <;> cases hpcu
        · exact hS.shapeC j u hu0 hpcu
      · intro k q0 hq0 hsrk
        rcases hqc k q0 hq0 with ⟨rfl, rfl⟩ | ⟨hkg, hq00⟩ | ⟨hkg, hk1, rfl⟩
        · rw [hsr'] at hsrk; cases hsrk
        · obtain ⟨n1, n2⟩ := hS.num k q0 hq00 hsrk
          exact ⟨fun hall => n1 (fun tp P hP hpP => hall tp P ((hsame k tp P hpP).mpr hP) hpP),
            fun tp P hP hpP hm => n2 tp P ((hsame k tp P hpP).mp hP) hpP hm⟩
        · exact hfreshN k hk1
      · intro k q0 hq0 hex
        rcases hqc k q0 hq0 with ⟨rfl, rfl⟩ | ⟨hkg, hq00⟩ | ⟨hkg, hk1, rfl⟩
        · exact Or.inl hsr'
        · rcases hS.exh k q0 hq00 hex with h1 | ⟨tp, P, hP, hpP, hpast⟩
          · exact Or.inl h1
          · exact Or.inr ⟨tp, P, (hsame k tp P hpP).mpr hP, hpP, hpast⟩
        · cases hex
      · intro k q0 hq0 hsrk
        rcases hqc k q0 hq0 with ⟨rfl, rfl⟩ | ⟨hkg, hq00⟩ | ⟨hkg, hk1, rfl⟩
        · right
          rcases hst' with ⟨a, b, d, e⟩ | ⟨a, b, d⟩
          · exact ⟨tid, t', hself, Or.inl a, d⟩
          · rcases d with ⟨d1, d2⟩ | d | d
            · exact ⟨tid, t', hself, Or.inr d1, d2⟩
            · exfalso
              by_cases hm : t.qt.pc = .mAcq
              · rw [hmrel hm] at a; cases a
              · rw [hass (hsrq hm) a] at d; cases d
            · exfalso
              have hgen := hU.stopG tid t ht (Or.inl hpc)
              rcases hI.gen t.g hgen with ⟨tp, u, he, -⟩ | ⟨w, tw, hw, hpw, -⟩
              · rw [d] at he; cases he
              · by_cases hwt : w = tid
                · subst hwt; rw [ht] at hw; rw [← Option.some.inj hw, hpc] at hpw; cases hpw
                · exact hexcl w tw hwt hw (by rw [hpw]; rfl) (by rw [hpc]; rfl)
        · rcases hS.stopReq k q0 hq00 hsrk with ⟨tp, P, hP, hpP, hd⟩ | ⟨a, A, hA, hpcA, hgA⟩
          · exact Or.inl ⟨tp, P, (hsame k tp P hpP).mpr hP, hpP, hd⟩
          · have hj : a ≠ tid := by
              rintro rfl; rw [ht] at hA; rw [← Option.some.inj hA] at hgA; exact hkg hgA.symm
            exact Or.inr ⟨a, A, hfwd a A hj hA, hpcA, hgA⟩
        · cases hsrk
    · ----------------------------------------------------------------------- a step of `get_batch`
      have hkind := hS.shapeC tid t ht hpc
      have hns : t.qt.pc ≠ .start := by intro h0; rw [h0] at hkind; cases hkind
      obtain ⟨hsr, hsta, hsto, hmax, hexc, hexh, hk'⟩ := (hss hns).1 (Or.inl hkind)
      have tnp : ∀ k, t.prog ≠ .producer k := by
        intro k hp
        rcases hshape k ht hp with ⟨a, -⟩ | ⟨a, -⟩ | a <;> rw [hpc] at a <;> cases a
      have hnp' : ∀ k, t'.prog ≠ .producer k := by intro k; rw [hprog]; exact tnp k
      have hgt' := hget hpc
      have hsame : ∀ (k : Nat) (j : Queue.Tid) (P : Thread), P.prog = .producer k →
          (c'.ths[j]? = some P ↔ c.ths[j]? = some P) := by
        intro k j P hpP
        constructor
        · intro hP
          rcases hold j P hP with ⟨rfl, rfl⟩ | ⟨-, h0⟩
          · exact absurd hpP (hnp' k)
          · exact h0
        · intro hP
          have hj : j ≠ tid := by
            rintro rfl; rw [ht] at hP; rw [← Option.some.inj hP] at hpP; exact tnp k hpP
          exact hfwd j P hj hP
      refine ⟨?_, ?_, ?_, ?_, ?_, ?_⟩
      · intro j u k hu hp
        exact hS.shapeP j u k ((hsame k j u hp).mp hu) hp
      · intro j u hu hpcu
        rcases hold j u hu with ⟨rfl, rfl⟩ | ⟨hj, hu0⟩
        · rcases hgt' with ⟨a, -⟩ | a <;> rw [a] at hpcu <;> cases hpcu
        · obtain ⟨a, b⟩ := hS.shapeS j u hu0 hpcu
          refine ⟨a, fun hne => ?_⟩
          obtain ⟨q0, hq0, hs0⟩ := b hne
          by_cases hug : u.g = t.g
          · rw [hug] at hq0 ⊢
            rw [hq] at hq0
            exact ⟨q', hq', by rw [hsr, Option.some.inj hq0]; exact hs0⟩
          · exact ⟨q0, hqs _ q0 hug hq0, hs0⟩
      · intro j u hu hpcu
        rcases hold j u hu with ⟨rfl, rfl⟩ | ⟨hj, hu0⟩
        · rcases hgt' with ⟨a, b, d, e⟩ | a
          · rcases hk' with h1 | h1
            · rw [b, h1]; exact hkind
            · exact absurd h1 e
          · rw [a] at hpcu; cases hpcu
        · exact hS.shapeC j u hu0 hpcu
      · intro k q0 hq0 hsrk
        rcases hqc k q0 hq0 with ⟨rfl, rfl⟩ | ⟨hkg, hq00⟩ | ⟨hkg, hk1, rfl⟩
        · rw [hsr] at hsrk
          obtain ⟨n1, n2⟩ := hS.num t.g q hq hsrk
          rw [hsta, hsto, hmax, hexc]
          exact ⟨fun hall => n1 (fun tp P hP hpP => hall tp P ((hsame _ tp P hpP).mpr hP) hpP),
            fun tp P hP hpP hm => n2 tp P ((hsame _ tp P hpP).mp hP) hpP hm⟩
        · obtain ⟨n1, n2⟩ := hS.num k q0 hq00 hsrk
          exact ⟨fun hall => n1 (fun tp P hP hpP => hall tp P ((hsame k tp P hpP).mpr hP) hpP),
            fun tp P hP hpP hm => n2 tp P ((hsame k tp P hpP).mp hP) hpP hm⟩
        · exact hfreshN k hk1
      · intro k q0 hq0 hex
        rcases hqc k q0 hq0 with ⟨rfl, rfl⟩ | ⟨hkg, hq00⟩ | ⟨hkg, hk1, rfl⟩
        · rw [hsr]
          have hold_exh : q.exhausted = true → q.stopRequested = true ∨
              ∃ (tp : Queue.Tid) (P : Thread), c'.ths[tp]? = some P ∧ P.prog = .producer t.g ∧ PastPut P := by
            intro hx
            rcases hS.exh t.g q hq hx with h1 | ⟨tp, P, hP, hpP, hpast⟩
            · exact Or.inl h1
            · exact Or.inr ⟨tp, P, (hsame _ tp P hpP).mpr hP, hpP, hpast⟩
          rcases hexh hex with hx | hdn
          · exact hold_exh hx
          · -- `enqueue_done` holds: a stop was requested, or the prefetch thread is inside `_stop_enqueue` / done
            cases hsq : q.stopRequested with
            | true => exact Or.inl rfl
            | false =>
              right
              obtain ⟨n1, n2⟩ := hS.num t.g q hq hsq
              by_cases hall : ∀ (tp : Queue.Tid) (P : Thread), c.ths[tp]? = some P → P.prog = .producer t.g → PreP P
              · rw [not_done_of_zero hsq (n1 hall)] at hdn; cases hdn
              · simp only [Classical.not_forall, Classical.not_imp] at hall
                obtain ⟨tp, P, hP, hpP, hnpre⟩ := hall
                refine ⟨tp, P, (hsame _ tp P hpP).mpr hP, hpP, ?_⟩
                rcases hS.shapeP tp P t.g hP hpP with ⟨a, -⟩ | ⟨a, -, -⟩ | a
                · exact absurd (Or.inl a) hnpre
                · rcases ph_cases P.qt.pc with h0 | h0 | h0
                  · exact absurd (Or.inr ⟨a, h0⟩) hnpre
                  · rw [not_done_of_one hsq (n2 tp P hP hpP ⟨a, h0⟩)] at hdn; cases hdn
                  · exact Or.inr ⟨a, h0⟩
                · exact Or.inl a
        · rcases hS.exh k q0 hq00 hex with h1 | ⟨tp, P, hP, hpP, hpast⟩
          · exact Or.inl h1
          · exact Or.inr ⟨tp, P, (hsame k tp P hpP).mpr hP, hpP, hpast⟩
        · cases hex
      · intro k q0 hq0 hsrk
        have hkeep : ∀ (k : Nat) (q0 : Queue.Shared), c.sh.qs[k]? = some q0 → q0.stopRequested = true →
            (∃ (tp : Queue.Tid) (P : Thread), c'.ths[tp]? = some P ∧ P.prog = .producer k ∧ P.pc = .done) ∨
            (∃ (a : Queue.Tid) (A : Thread), c'.ths[a]? = some A ∧ (A.pc = .lkStop ∨ A.pc = .lkJoin) ∧ A.g = k) := by
          intro k q0 hq00 hs
          rcases hS.stopReq k q0 hq00 hs with ⟨tp, P, hP, hpP, hd⟩ | ⟨a, A, hA, hpcA, hgA⟩
          · exact Or.inl ⟨tp, P, (hsame k tp P hpP).mpr hP, hpP, hd⟩
          · have hj : a ≠ tid := by
              rintro rfl; rw [ht] at hA; rw [← Option.some.inj hA, hpc] at hpcA
              rcases hpcA with h1 | h1 <;> cases h1
            exact Or.inr ⟨a, A, hfwd a A hj hA, hpcA, hgA⟩
        rcases hqc k q0 hq0 with ⟨rfl, rfl⟩ | ⟨hkg, hq00⟩ | ⟨hkg, hk1, rfl⟩
        · rw [hsr] at hsrk; exact hkeep t.g q hq hsrk
        · exact hkeep k q0 hq00 hsrk
        · cases hsrk
    · ----------------------------------------------------------------------- a step of `enqueue_from_iterator`
      have hprogP : t.prog = .producer t.g := by
        have := (hG.ths tid t ht).emb
        simp only [EmbOK, hpc] at this
        obtain ⟨-, -, h5, -⟩ := this
        exact h5
      have hkind : pcKind t.qt.pc = some .producer := by
        rcases hshape t.g ht hprogP with ⟨a, -⟩ | ⟨-, -, a⟩ | a
        · rw [hpc] at a; cases a
        · exact a
        · rw [hpc] at a; cases a
      have hns : t.qt.pc ≠ .start := by intro h0; rw [h0] at hkind; cases hkind
      obtain ⟨hsr, hexh, hk', h0, h1, h2⟩ := (hss hns).2.1 hkind
      have hpd' := hprod hpc
      have hprogP' : t'.prog = .producer t.g := by rw [hprog]; exact hprogP
      -- the prefetch thread of a queue is unique
      have huniq : ∀ (j : Queue.Tid) (P : Thread), c.ths[j]? = some P → P.prog = .producer t.g → j = tid :=
        fun j P hP hpP => hU.uniq j tid P t t.g hP ht hpP hprogP
      have huniq' : ∀ (j : Queue.Tid) (P : Thread), c'.ths[j]? = some P → P.prog = .producer t.g → j = tid ∧ P = t' := by
        intro j P hP hpP
        rcases hold j P hP with h5 | ⟨hj, hP0⟩
        · exact h5
        · exact absurd (huniq j P hP0 hpP) hj
      have hother : ∀ (k : Nat), k ≠ t.g → ∀ (j : Queue.Tid) (P : Thread), P.prog = .producer k →
          (c'.ths[j]? = some P ↔ c.ths[j]? = some P) := by
        intro k hkne j P hpP
        constructor
        · intro hP
          rcases hold j P hP with ⟨rfl, rfl⟩ | ⟨-, h5⟩
          · rw [hprogP'] at hpP; exact absurd (Prog.producer.inj hpP).symm hkne
          · exact h5
        · intro hP
          have hj : j ≠ tid := by
            rintro rfl; rw [ht] at hP; rw [← Option.some.inj hP, hprogP] at hpP
            exact hkne (Prog.producer.inj hpP).symm
          exact hfwd j P hj hP
      refine ⟨?_, ?_, ?_, ?_, ?_, ?_⟩
      · intro j u k hu hp
        rcases hold j u hu with ⟨rfl, rfl⟩ | ⟨hj, hu0⟩
        · rw [hprogP'] at hp
          obtain rfl := Prog.producer.inj hp
          rcases hpd' with ⟨a, b, d, e⟩ | ⟨a, -⟩
          · rcases hk' with h5 | h5
            · exact Or.inr (Or.inl ⟨a, d, by rw [b]; exact h5⟩)
            · exact absurd h5 e
          · exact Or.inr (Or.inr a)
        · exact hS.shapeP j u k hu0 hp
      · intro j u hu hpcu
        rcases hold j u hu with ⟨rfl, rfl⟩ | ⟨hj, hu0⟩
        · rcases hpd' with ⟨a, -⟩ | ⟨a, -⟩ <;> rw [a] at hpcu <;> cases hpcu
        · obtain ⟨a, b⟩ := hS.shapeS j u hu0 hpcu
          refine ⟨a, fun hne => ?_⟩
          obtain ⟨q0, hq0, hs0⟩ := b hne
          by_cases hug : u.g = t.g
          · rw [hug] at hq0 ⊢
            rw [hq] at hq0
            exact ⟨q', hq', by rw [hsr, Option.some.inj hq0]; exact hs0⟩
          · exact ⟨q0, hqs _ q0 hug hq0, hs0⟩
      · intro j u hu hpcu
        rcases hold j u hu with ⟨rfl, rfl⟩ | ⟨hj, hu0⟩
        · rcases hpd' with ⟨a, -⟩ | ⟨a, -⟩ <;> rw [a] at hpcu <;> cases hpcu
        · exact hS.shapeC j u hu0 hpcu
      · intro k q0 hq0 hsrk
        rcases hqc k q0 hq0 with ⟨rfl, rfl⟩ | ⟨hkg, hq00⟩ | ⟨hkg, hk1, rfl⟩
        · rw [hsr] at hsrk
          obtain ⟨n1, n2⟩ := hS.num t.g q hq hsrk
          refine ⟨fun hall => ?_, fun tp P hP hpP hm => ?_⟩
          · -- the stepping prefetch thread is never in the pre-phase after a queue-level step
            exfalso
            have hpre := hall tid t' hself hprogP'
            rcases hpd' with ⟨a, b, d, e⟩ | ⟨a, -⟩
            · rcases hpre with h5 | ⟨-, h5⟩
              · rw [a] at h5; cases h5
              · rw [b] at h5
                rcases ph_cases t.qt.pc with h6 | h6 | h6
                · rw [(h0 h6).1] at h5; cases h5
                · rcases h1 h6 with h7 | ⟨h7, -⟩ <;> rw [h7] at h5 <;> cases h5
                · rw [h2 h6] at h5; cases h5
            · rcases hpre with h5 | ⟨h5, -⟩ <;> rw [a] at h5 <;> cases h5
          · obtain ⟨rfl, rfl⟩ := huniq' tp P hP hpP
            obtain ⟨hm1, hm2⟩ := hm
            rcases hpd' with ⟨a, b, d, e⟩ | ⟨a, -⟩
            · rw [b] at hm2
              rcases ph_cases t.qt.pc with h6 | h6 | h6
              · obtain ⟨-, e1, e2, e3, e4⟩ := h0 h6
                obtain ⟨z1, z2, z3, z4⟩ := n1 (fun j P0 hP0 hpP0 => by
                  obtain rfl := huniq j P0 hP0 hpP0
                  rw [ht] at hP0; rw [← Option.some.inj hP0]
                  exact Or.inr ⟨hpc, h6⟩)
                rw [e1, e2, e3, e4, z1, z2, z3, z4]
                exact ⟨rfl, rfl, rfl, rfl⟩
              · rcases h1 h6 with h7 | ⟨-, e1, e2, e3, e4⟩
                · rw [h7] at hm2; cases hm2
                · rw [e1, e2, e3, e4]
                  exact n2 tp t ht hprogP ⟨hpc, h6⟩
              · rw [h2 h6] at hm2; cases hm2
            · rw [a] at hm1; cases hm1
        · obtain ⟨n1, n2⟩ := hS.num k q0 hq00 hsrk
          exact ⟨fun hall => n1 (fun tp P hP hpP => hall tp P ((hother k hkg tp P hpP).mpr hP) hpP),
            fun tp P hP hpP hm => n2 tp P ((hother k hkg tp P hpP).mp hP) hpP hm⟩
        · exact hfreshN k hk1
      · intro k q0 hq0 hex
        rcases hqc k q0 hq0 with ⟨rfl, rfl⟩ | ⟨hkg, hq00⟩ | ⟨hkg, hk1, rfl⟩
        · rw [hexh] at hex
          rw [hsr]
          rcases hS.exh t.g q hq hex with h5 | ⟨tp, P, hP, hpP, hpast⟩
          · exact Or.inl h5
          · right
            obtain rfl := huniq tp P hP hpP
            rw [ht] at hP; obtain rfl := Option.some.inj hP
            refine ⟨tp, t', hself, hprogP', ?_⟩
            rcases hpast with h5 | ⟨-, h5⟩
            · exact absurd h5 hnd
            · rcases hpd' with ⟨a, b, d, e⟩ | ⟨a, -⟩
              · exact Or.inr ⟨a, by rw [b]; exact h2 h5⟩
              · exact Or.inl a
        · rcases hS.exh k q0 hq00 hex with h5 | ⟨tp, P, hP, hpP, hpast⟩
          · exact Or.inl h5
          · exact Or.inr ⟨tp, P, (hother k hkg tp P hpP).mpr hP, hpP, hpast⟩
        · cases hex
      · intro k q0 hq0 hsrk
        rcases hqc k q0 hq0 with ⟨rfl, rfl⟩ | ⟨hkg, hq00⟩ | ⟨hkg, hk1, rfl⟩
        · rw [hsr] at hsrk
          rcases hS.stopReq t.g q hq hsrk with ⟨tp, P, hP, hpP, hd⟩ | ⟨a, A, hA, hpcA, hgA⟩
          · exfalso
            obtain rfl := huniq tp P hP hpP
            rw [ht] at hP; rw [← Option.some.inj hP] at hd; exact hnd hd
          · have hj : a ≠ tid := by
              rintro rfl; rw [ht] at hA; rw [← Option.some.inj hA, hpc] at hpcA
              rcases hpcA with h5 | h5 <;> cases h5
            exact Or.inr ⟨a, A, hfwd a A hj hA, hpcA, hgA⟩
        · rcases hS.stopReq k q0 hq00 hsrk with ⟨tp, P, hP, hpP, hd⟩ | ⟨a, A, hA, hpcA, hgA⟩
          · exact Or.inl ⟨tp, P, (hother k hkg tp P hpP).mpr hP, hpP, hd⟩
          · have hj : a ≠ tid := by
              rintro rfl; rw [ht] at hA; rw [← Option.some.inj hA, hpc] at hpcA
              rcases hpcA with h5 | h5 <;> cases h5
            exact Or.inr ⟨a, A, hfwd a A hj hA, hpcA, hgA⟩
        · cases hsrk

theorem sinv_reachable {p : Nat} {progs : List Prog} {c : Cfg} (hreq : Requests progs)
    (h : Reachable (init p progs) c) : SInv c := by
  induction h with
  | init => exact sinv_init p progs hreq
  | step hr hs ih =>
    exact sinv_step (ginv_reachable hreq hr) (iinv_reachable hreq hr) (uinv_reachable hreq hr) ih hs

/-- program points of `_stop_enqueue` (all after the last `put`) -/
def inStopEnqueue : Queue.Pc → Bool
  | .tAcq | .tR0 | .tR1 | .tR2 | .tR3 | .tR4 | .tS0 | .tS1 | .tS2 | .tS3 | .tS4 | .tRel => true
  | _ => false

theorem ph_two_stop {pc : Queue.Pc} (hk : pcKind pc = some .producer) (h : ph pc = 2) :
    inStopEnqueue pc = true := by
  cases pc <;> simp_all [ph, pcKind, inStopEnqueue] <;> (rename_i cc; cases cc <;> simp at hk)

/-- `PastPut` spelled out: the prefetch thread has finished, or it is inside `_stop_enqueue` -/
theorem pastPut_spelled {c : Cfg} (hS : SInv c) {tp : Queue.Tid} {P : Thread} {k : Nat}
    (hP : c.ths[tp]? = some P) (hp : P.prog = .producer k) (h : PastPut P) :
    P.pc = .done ∨ (P.pc = .prod ∧ inStopEnqueue P.qt.pc = true) := by
  rcases h with h | ⟨h1, h2⟩
  · exact Or.inl h
  · rcases hS.shapeP tp P k hP hp with ⟨a, -⟩ | ⟨-, -, a⟩ | a
    · rw [h1] at a; cases a
    · exact Or.inr ⟨h1, ph_two_stop a h2⟩
    · exact Or.inl a

end MlModel.Prefetch
