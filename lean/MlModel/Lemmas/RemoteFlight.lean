import MlModel.Lemmas.RemoteBasic
/-! Calls in flight: the shutdown flag is monotone along every interleaving, and a finishing handler
builds its reply from the flag at that moment. -/
namespace MlModel.Remote
open MlModel MlModel.Lazy
set_option linter.unusedSimpArgs false
set_option linter.unusedVariables false

theorem handle_shutdown (rq : Request) (srv : Srv) : (handle rq srv).2.shutdown = srv.shutdown := by
  have key : (if rq.returnImmediately then
        ((.ok (.plain .none) : Outcome), { srv with bg := srv.bg ++ [rq.wire.loads] })
      else if rq.returnNone then ((run rq.wire.loads srv).1.map (fun _ => .plain .none), (run rq.wire.loads srv).2)
      else run rq.wire.loads srv).2.shutdown = srv.shutdown := by
    cases rq.returnImmediately <;> cases rq.returnNone <;> simp [run_shutdown]
  unfold handle
  simp only
  split
  · exact key
  · split <;> exact key

theorem runBg_shutdown (srv : Srv) : (runBg srv).shutdown = srv.shutdown := by
  unfold runBg
  split
  · rfl
  · rw [run_shutdown]

theorem step_shutdown_mono (s : Sys) (st : Step) (h : s.srv.shutdown = true) : (s.step st).srv.shutdown = true := by
  cases st with
  | start id rq => exact h
  | finish id =>
    simp only [Sys.step]
    split
    · exact h
    · simp only [handle_shutdown]; exact h
  | shutdown => rfl
  | bg => simp only [Sys.step, runBg_shutdown]; exact h

theorem run_shutdown_mono (steps : List Step) : ∀ s : Sys, s.srv.shutdown = true → (s.run steps).srv.shutdown = true := by
  induction steps with
  | nil => intro s h; exact h
  | cons st rest ih => intro s h; exact ih (s.step st) (step_shutdown_mono s st h)

theorem run_append (s : Sys) (a b : List Step) : s.run (a ++ b) = (s.run a).run b := by
  simp [Sys.run, List.foldl_append]

/-- after any interleaving that contains a shutdown request the flag is set -/
theorem run_after_shutdown (s : Sys) (a b : List Step) : (s.run (a ++ .shutdown :: b)).srv.shutdown = true := by
  rw [run_append]
  have : ((s.run a).run (.shutdown :: b)) = (((s.run a).step .shutdown).run b) := rfl
  rw [this]
  exact run_shutdown_mono b _ rfl

/-- the reply a finishing handler builds, as a function of the state at that moment -/
theorem handle_reply (rq : Request) (srv : Srv) (hre : rq.returnException = true)
    (hni : rq.returnImmediately = false) :
    (handle rq srv).1 =
      match (run rq.wire.loads srv).1 with
      | .ok v => Reply.payload (if rq.returnNone then PVal.plain .none else v).dumps rq.compress
      | .error x => Reply.payload (.exc (if srv.shutdown then shutdownExc else x).dumps) rq.compress := by
  unfold handle
  simp only [hni, Bool.false_eq_true, if_false, hre, Bool.not_true]
  cases hn : rq.returnNone <;> simp only [Bool.false_eq_true, if_false, if_true] <;>
    cases hr : (run rq.wire.loads srv).1 <;> simp [Except.map, run_shutdown]

end MlModel.Remote
