import MlModel.Model.Agg.ConfusionHeap
/-! helper for the heap frame theorems -/
namespace MlModel.Agg.Confusion

theorem cell_set_ne (h : Heap) (i j : Nat) (v : Arr Int) (hij : i ≠ j) : Heap.cell (h.set i v) j = Heap.cell h j := by
  simp [Heap.cell, List.getD_eq_getElem?_getD, List.getElem?_set_ne hij]

end MlModel.Agg.Confusion
