import MlModel.Model.Agg.Text
/-!
# Algebra of the `Counter` model (core Lean only)

`get`/`keys` characterise `bump`, `update`, `countAll`; two counters with duplicate-free keys, the same
key set and the same counts are permutations of each other (so anything that sorts by a total order
cannot tell them apart).
-/
namespace MlModel.Agg.Text
variable {K : Type} [DecidableEq K]

omit [DecidableEq K] in
@[simp] theorem keys_nil : keys ([] : Counter K) = [] := rfl
omit [DecidableEq K] in
@[simp] theorem keys_cons (kv : K × Nat) (c : Counter K) : keys (kv :: c) = kv.1 :: keys c := rfl
@[simp] theorem get_nil (k : K) : get ([] : Counter K) k = 0 := rfl

theorem get_bump (c : Counter K) (k k' : K) (v : Nat) :
    get (bump c k v) k' = get c k' + if k = k' then v else 0 := by
  induction c with
  | nil => simp [bump, get]
  | cons kv rest ih =>
    obtain ⟨k0, v0⟩ := kv
    simp only [bump]
    by_cases h : k0 = k
    · subst h
      by_cases h' : k0 = k' <;> simp [get, h']
    · by_cases h' : k0 = k'
      · subst h'
        simp [get, h, Ne.symm h]
      · simp [get, h, h', ih]

theorem mem_keys_bump (c : Counter K) (k k' : K) (v : Nat) :
    k' ∈ keys (bump c k v) ↔ k' ∈ keys c ∨ k' = k := by
  induction c with
  | nil => simp [bump, keys]
  | cons kv rest ih =>
    obtain ⟨k0, v0⟩ := kv
    simp only [bump]
    by_cases h : k0 = k
    · subst h
      simp only [if_true, keys_cons, List.mem_cons]
      constructor
      · intro h; exact Or.inl h
      · rintro (h | h)
        · exact h
        · exact Or.inl h
    · simp only [h, if_false, keys_cons, List.mem_cons, ih]
      constructor
      · rintro (h | h | h)
        · exact Or.inl (Or.inl h)
        · exact Or.inl (Or.inr h)
        · exact Or.inr h
      · rintro ((h | h) | h)
        · exact Or.inl h
        · exact Or.inr (Or.inl h)
        · exact Or.inr (Or.inr h)

theorem nodup_keys_bump (c : Counter K) (k : K) (v : Nat) (h : (keys c).Nodup) :
    (keys (bump c k v)).Nodup := by
  induction c with
  | nil => simp [bump, keys]
  | cons kv rest ih =>
    obtain ⟨k0, v0⟩ := kv
    simp only [keys_cons, List.nodup_cons] at h
    simp only [bump]
    by_cases hk : k0 = k
    · simp only [hk, if_true, keys_cons, List.nodup_cons]
      exact ⟨hk ▸ h.1, h.2⟩
    · simp only [hk, if_false, keys_cons, List.nodup_cons, mem_keys_bump]
      refine ⟨?_, ih h.2⟩
      rintro (h' | h')
      · exact h.1 h'
      · exact h'.elim

theorem get_eq_zero_of_not_mem (c : Counter K) (k : K) (h : k ∉ keys c) : get c k = 0 := by
  induction c with
  | nil => rfl
  | cons kv rest ih =>
    obtain ⟨k0, v0⟩ := kv
    simp only [keys_cons, List.mem_cons, not_or] at h
    simp [get, Ne.symm h.1, ih h.2]

/-! ### update -/

theorem get_update (c o : Counter K) (k : K) (hn : (keys o).Nodup) :
    get (update c o) k = get c k + get o k := by
  induction o generalizing c with
  | nil => simp [update]
  | cons kv rest ih =>
    obtain ⟨k0, v0⟩ := kv
    simp only [keys_cons, List.nodup_cons] at hn
    have := ih (bump c k0 v0) hn.2
    simp only [update, List.foldl_cons] at this ⊢
    rw [this, get_bump]
    by_cases h : k0 = k
    · subst h
      simp [get, get_eq_zero_of_not_mem rest k0 hn.1]
    · simp [get, h]

theorem mem_keys_update (c o : Counter K) (k : K) :
    k ∈ keys (update c o) ↔ k ∈ keys c ∨ k ∈ keys o := by
  induction o generalizing c with
  | nil => simp [update]
  | cons kv rest ih =>
    have := ih (bump c kv.1 kv.2)
    simp only [update, List.foldl_cons] at this ⊢
    rw [this, mem_keys_bump]
    simp only [keys_cons, List.mem_cons]
    constructor
    · rintro ((h | h) | h)
      · exact Or.inl h
      · exact Or.inr (Or.inl h)
      · exact Or.inr (Or.inr h)
    · rintro (h | h | h)
      · exact Or.inl (Or.inl h)
      · exact Or.inl (Or.inr h)
      · exact Or.inr h

theorem nodup_keys_update (c o : Counter K) (h : (keys c).Nodup) : (keys (update c o)).Nodup := by
  induction o generalizing c with
  | nil => simpa [update] using h
  | cons kv rest ih =>
    simp only [update, List.foldl_cons]
    exact ih _ (nodup_keys_bump c kv.1 kv.2 h)

/-! ### countAll -/

/-- number of occurrences of `k` in `l` (by the decidable equality the model itself uses) -/
abbrev occ (l : List K) (k : K) : Nat := l.countP fun x => decide (x = k)

theorem occ_append (l r : List K) (k : K) : occ (l ++ r) k = occ l k + occ r k := by
  simp [occ, List.countP_append]

theorem get_countAll (c : Counter K) (ks : List K) (k : K) :
    get (countAll c ks) k = get c k + occ ks k := by
  induction ks generalizing c with
  | nil => simp [countAll]
  | cons a rest ih =>
    have := ih (bump c a 1)
    simp only [countAll, List.foldl_cons] at this ⊢
    rw [this, get_bump]
    simp only [occ, List.countP_cons]
    by_cases h : a = k
    · subst h; simp; omega
    · simp [h]

theorem mem_keys_countAll (c : Counter K) (ks : List K) (k : K) :
    k ∈ keys (countAll c ks) ↔ k ∈ keys c ∨ k ∈ ks := by
  induction ks generalizing c with
  | nil => simp [countAll]
  | cons a rest ih =>
    have := ih (bump c a 1)
    simp only [countAll, List.foldl_cons] at this ⊢
    rw [this, mem_keys_bump, List.mem_cons]
    constructor
    · rintro ((h | h) | h)
      · exact Or.inl h
      · exact Or.inr (Or.inl h)
      · exact Or.inr (Or.inr h)
    · rintro (h | h | h)
      · exact Or.inl (Or.inl h)
      · exact Or.inl (Or.inr h)
      · exact Or.inr h

theorem nodup_keys_countAll (c : Counter K) (ks : List K) (h : (keys c).Nodup) :
    (keys (countAll c ks)).Nodup := by
  induction ks generalizing c with
  | nil => simpa [countAll] using h
  | cons a rest ih =>
    simp only [countAll, List.foldl_cons]
    exact ih _ (nodup_keys_bump c a 1 h)

/-! ### dedup -/

theorem mem_dedup (l : List K) (a : K) : a ∈ dedup l ↔ a ∈ l := by
  induction l with
  | nil => simp [dedup]
  | cons b rest ih =>
    simp only [dedup]
    by_cases h : b ∈ dedup rest
    · simp only [h, if_true, List.mem_cons, ih]
      constructor
      · exact Or.inr
      · rintro (h' | h')
        · subst h'; exact (ih).mp h |> fun x => x
        · exact h'
    · simp [h, ih]

theorem nodup_dedup (l : List K) : (dedup l).Nodup := by
  induction l with
  | nil => simp [dedup]
  | cons b rest ih =>
    simp only [dedup]
    by_cases h : b ∈ dedup rest
    · simpa [h] using ih
    · simp [h, ih]

theorem occ_of_nodup (l : List K) (a : K) (h : l.Nodup) : occ l a = if a ∈ l then 1 else 0 := by
  induction l with
  | nil => simp [occ]
  | cons b rest ih =>
    simp only [List.nodup_cons] at h
    simp only [occ, List.countP_cons, List.mem_cons] at ih ⊢
    rw [ih h.2]
    by_cases hb : b = a
    · subst hb; simp [h.1]
    · have : ¬ a = b := fun e => hb e.symm
      simp [hb, this]

theorem occ_dedup (l : List K) (a : K) : occ (dedup l) a = if a ∈ l then 1 else 0 := by
  rw [occ_of_nodup _ _ (nodup_dedup l)]
  simp only [mem_dedup]

/-! ### counters as finite maps -/

theorem mem_iff_get (c : Counter K) (hn : (keys c).Nodup) (k : K) (v : Nat) :
    (k, v) ∈ c ↔ k ∈ keys c ∧ get c k = v := by
  induction c with
  | nil => simp
  | cons kv rest ih =>
    obtain ⟨k0, v0⟩ := kv
    simp only [keys_cons, List.nodup_cons] at hn
    simp only [List.mem_cons, Prod.mk.injEq, keys_cons, get]
    by_cases h : k0 = k
    · subst h
      simp only [if_true, true_or, true_and]
      constructor
      · rintro (h | h)
        · exact h.symm
        · exact absurd (List.mem_map_of_mem (f := Prod.fst) h) hn.1
      · intro h; exact Or.inl h.symm
    · have h' : ¬ k = k0 := fun e => h e.symm
      simp only [h, h', if_false, false_and, false_or, ih hn.2]

omit [DecidableEq K] in
theorem nodup_of_keys (c : Counter K) (h : (keys c).Nodup) : c.Nodup :=
  List.Pairwise.of_map Prod.fst (fun a b hab e => hab (by rw [e])) h

/-- duplicate-free keys, same key set, same counts ⇒ the same entries up to order -/
theorem perm_of_obs (c d : Counter K) (hc : (keys c).Nodup) (hd : (keys d).Nodup)
    (hk : ∀ k, k ∈ keys c ↔ k ∈ keys d) (hg : ∀ k, get c k = get d k) : c.Perm d := by
  rw [List.perm_ext_iff_of_nodup (nodup_of_keys c hc) (nodup_of_keys d hd)]
  rintro ⟨k, v⟩
  rw [mem_iff_get c hc, mem_iff_get d hd, hk, hg]

theorem obs_of_perm (c d : Counter K) (hc : (keys c).Nodup) (h : c.Perm d) :
    (keys d).Nodup ∧ (∀ k, k ∈ keys c ↔ k ∈ keys d) ∧ ∀ k, get c k = get d k := by
  have hd : (keys d).Nodup := (h.map Prod.fst).nodup_iff.mp hc
  refine ⟨hd, fun k => (h.map Prod.fst).mem_iff, fun k => ?_⟩
  by_cases hk : k ∈ keys c
  · have h1 : (k, get c k) ∈ c := (mem_iff_get c hc k _).mpr ⟨hk, rfl⟩
    have h2 : (k, get c k) ∈ d := h.mem_iff.mp h1
    exact ((mem_iff_get d hd k _).mp h2).2.symm
  · have hk' : k ∉ keys d := fun h' => hk ((h.map Prod.fst).mem_iff.mpr h')
    rw [get_eq_zero_of_not_mem c k hk, get_eq_zero_of_not_mem d k hk']

end MlModel.Agg.Text
