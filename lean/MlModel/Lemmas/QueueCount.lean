import MlModel.Lemmas.QueueLiveView
/-!
# The counting form of the no-lost-wake-up invariant (consumer side)

`J1` (`Lemmas/QueueLiveDefs.lean`) says: a consumer that waits while the queue is not empty has *someone*
responsible for it — a notified consumer, an active consumer, a producer that owes a `notify`.  An
*active* consumer is a witness only because, in the fixed thread list of `Queue.init`, it calls again.  In
the prefetching server a `next_batch` request LEAVES its queue when its `get_batch` call returns, possibly
while another request is parked on the same queue, so "some active consumer" is not inductive there.  What
is inductive is the count:

`J1C`: while some consumer waits (or has decided to) and enqueueing is not done,
  `|q| ≤ |deqNotified| + #(producers between put_nowait and notify cond1) + #(consumers with credit)`
where a consumer has **credit** when it is about to execute `get_nowait`'s `queue.get_nowait()` (program
points `nAcq`, `nGet`): it takes an element, or finds the queue empty.  A consumer that has taken its
element (or returns) has no credit, so it may leave without breaking the inequality.

`J1C` implies `J1` (`j1_of_j1c`); it is preserved by every queue-level step (`j1c_step`).
-/
namespace MlModel.Queue
set_option linter.unusedSimpArgs false

/-- about to execute `queue.get_nowait()` under the dequeue lock -/
def credit (t : Thread) : Bool :=
  match t.pc with
  | .nAcq _ | .nGet _ => true
  | _ => false

theorem credit_activeC (t : Thread) (h : credit t = true) : activeC t = true := by
  unfold credit at h; unfold activeC
  cases hp : t.pc <;> simp_all

def J1C (c : Cfg) : Prop :=
  (c.sh.deqWait ≠ [] ∨ anyT c sawEmpty) → c.sh.enqueueDone = false →
    c.sh.q.length ≤ c.sh.deqNotified.length + c.ths.countP debtD + c.ths.countP credit

theorem anyT_of_countP_pos {c : Cfg} {P : Thread → Bool} (h : 0 < c.ths.countP P) : anyT c P := by
  obtain ⟨a, ha, hp⟩ := List.countP_pos_iff.mp h
  exact ⟨a, ha, hp⟩

/-- the counting invariant implies the existential one -/
theorem j1_of_j1c {c : Cfg} (h : J1C c) : J1 c := by
  intro h1 h2
  cases hd : c.sh.enqueueDone with
  | true => exact Or.inr (Or.inr (Or.inr rfl))
  | false =>
    have hle := h h1 hd
    have hq : 0 < c.sh.q.length := List.length_pos_iff.mpr h2
    by_cases hn : c.sh.deqNotified = []
    · rw [hn] at hle
      simp only [List.length_nil, Nat.zero_add] at hle
      by_cases hD : 0 < c.ths.countP debtD
      · exact Or.inr (Or.inr (Or.inl (anyT_of_countP_pos hD)))
      · have hC : 0 < c.ths.countP credit := by omega
        obtain ⟨a, ha, hp⟩ := anyT_of_countP_pos hC
        exact Or.inr (Or.inl ⟨a, ha, credit_activeC a hp⟩)
    · exact Or.inl hn

/-! ## one step -/

def J1CL (s : Shared) (t : Thread) (oSE : Prop) (O : Nat) : Prop :=
  (s.deqWait ≠ [] ∨ sawEmpty t = true ∨ oSE) → s.enqueueDone = false →
    s.q.length ≤ s.deqNotified.length + (debtD t).toNat + (credit t).toNat + O

def J1CStep (s : Shared) (t : Thread) (tid : Tid) (alt : Bool) : Prop :=
  ∀ lbl s' t', stepThread s t tid alt = some (lbl, s', t') → ∀ (oSE : Prop) (O : Nat),
    (holds .deq t.pc = true → ¬oSE) →
    (s.enqueueDone = true → s'.enqueueDone = true) →
    J1CL s t oSE O → J1CL s' t' oSE O

theorem length_erase_contains {l : List Tid} {a : Tid} (h : l.contains a = true) :
    (l.erase a).length + 1 = l.length := by
  have hm : a ∈ l := by simpa using h
  rw [List.length_erase_of_mem hm]
  have : 0 < l.length := List.length_pos_of_mem hm
  omega

theorem length_take_one {l : List Tid} (h : l.drop 1 ≠ []) : (l.take 1).length = 1 := by
  cases l with
  | nil => simp at h
  | cons a r => simp

theorem isEmpty_false_len {α} {l : List α} (h : l.isEmpty = true) : l.length = 0 := by
  cases l <;> simp_all

set_option hygiene false in
macro "j1c_group" : tactic => `(tactic| (
  intro lbl s' t' h oSE O hm hmono hj
  unfold J1CL at hj ⊢
  unfold stepThread at h
  cases hpc : t.pc <;> (try (simp only [hpc, Pc.group] at hg; omega)) <;>
    simp only [hpc] at h hm hj <;>
    (try simp only [acquire, release, notify, waitPark, waitWake, goto, enqLoop, putLoop, batchLoop,
      afterRaise, afterValue] at h) <;>
    (repeat' split at h) <;>
    (try simp only [Option.some.injEq, Prod.mk.injEq, reduceCtorEq] at h) <;>
    (try (obtain ⟨-, rfl, rfl⟩ := h)) <;>
    (intro ha hb) <;>
    (have hb0 : s.enqueueDone = false := by
      cases hd : s.enqueueDone with
      | false => rfl
      | true => rw [hmono hd] at hb; cases hb) <;>
    (clear hmono hb) <;>
    (simp only [sawEmpty, debtD, credit, holds, Shared.setOwner, Shared.owner, Bool.toNat_true, Bool.toNat_false,
      List.length_cons, List.length_append, List.length_nil, final_beq_empty, Bool.and_false, List.ne_nil_iff_length_pos, List.length_drop,
      hpc] at hj hm ha ⊢) <;>
    grind))

theorem j1c_g0 {s t tid alt} (hg : t.pc.group = 0) : J1CStep s t tid alt := by j1c_group
theorem j1c_g1 {s t tid alt} (hg : t.pc.group = 1) : J1CStep s t tid alt := by j1c_group
theorem j1c_g2 {s t tid alt} (hg : t.pc.group = 2) : J1CStep s t tid alt := by j1c_group
theorem j1c_g3 {s t tid alt} (hg : t.pc.group = 3) : J1CStep s t tid alt := by j1c_group
theorem j1c_g4 {s t tid alt} (hg : t.pc.group = 4) : J1CStep s t tid alt := by j1c_group
theorem j1c_g5 {s t tid alt} (hg : t.pc.group = 5) : J1CStep s t tid alt := by j1c_group
theorem j1c_g6 {s t tid alt} (hg : t.pc.group = 6) : J1CStep s t tid alt := by j1c_group
theorem j1c_g7 {s t tid alt} (hg : t.pc.group = 7) : J1CStep s t tid alt := by j1c_group

theorem stepThread_j1c {s t tid alt} : J1CStep s t tid alt := by
  have h := Pc.group_lt t.pc
  match hg : t.pc.group with
  | 0 => exact j1c_g0 hg | 1 => exact j1c_g1 hg | 2 => exact j1c_g2 hg | 3 => exact j1c_g3 hg
  | 4 => exact j1c_g4 hg | 5 => exact j1c_g5 hg | 6 => exact j1c_g6 hg | 7 => exact j1c_g7 hg
  | n + 8 => omega

theorem toNat_le_countP {ths : List Thread} {t : Thread} (P : Thread → Bool) (ht : t ∈ ths) :
    (P t).toNat ≤ ths.countP P := by
  cases hp : P t with
  | false => simp
  | true =>
    have : 0 < ths.countP P := List.countP_pos_iff.mpr ⟨t, ht, hp⟩
    simpa using this

/-- **`J1C` is preserved by every step of every thread** (any programs, any capacity). -/
theorem j1c_step {c c' : Cfg} {tid alt lbl} (hb : Base c) (hj : J1C c)
    (h : step c tid alt = some (lbl, c')) : J1C c' := by
  have hmono := done_mono hb h
  obtain ⟨t, s', t', ht, hst, rfl⟩ := step_inv h
  have hmd := fun hh => mutex_others hb.lock ht .deq sawEmpty sawEmpty_holds hh
  have cD := countP_set' debtD (b := t') ht
  have cC := countP_set' credit (b := t') ht
  have htm : t ∈ c.ths := List.mem_of_getElem? ht
  have pD := toNat_le_countP debtD htm
  have pC := toNat_le_countP credit htm
  have key := stepThread_j1c lbl s' t' hst (others c tid sawEmpty)
    (c.ths.countP debtD - (debtD t).toNat + (c.ths.countP credit - (credit t).toNat)) hmd hmono
  unfold J1CL at key
  unfold J1C at hj ⊢
  simp only [anyT_iff ht] at hj
  simp only [anyT_set ht]
  intro a b
  have h1 := key (fun a' b' => by have := hj a' b'; omega) a b
  show s'.q.length ≤ s'.deqNotified.length + (c.ths.set tid t').countP debtD + (c.ths.set tid t').countP credit
  cases hd : debtD t <;> cases hd' : debtD t' <;> cases hc : credit t <;> cases hc' : credit t' <;>
    simp only [hd, hd', hc, hc', Bool.toNat_true, Bool.toNat_false, if_true, Bool.false_eq_true, if_false] at cD cC pD pC h1 <;>
    omega

/-! ## `Live` together with the counting invariant -/

structure Live2 (c : Cfg) : Prop where
  live : Live c
  cnt : J1C c

theorem live2_step {c c' : Cfg} {tid lbl} (hto : c.sh.timeout = false) (hv : Live2 c)
    (h : step c tid false = some (lbl, c')) : Live2 c' :=
  ⟨live_step hto hv.live h, j1c_step hv.live.base hv.cnt h⟩

/-- a thread state that belongs to none of the classes the invariants talk about -/
structure NoCls (t : Thread) : Prop where
  se : sawEmpty t = false
  sf : sawFull t = false
  dD : debtD t = false
  dDA : debtDAll t = false
  dE : debtE t = false
  cP : commitP t = false
  dEA : debtEAll t = false
  pr : isProd t = false
  cw : consWakePc t.pc = false
  pw : prodWakePc t.pc = false
  hl : ∀ l, holds l t.pc = false
  ea : early t = false
  pS : pastS t = false
  pT : pastT t = false
  cr : credit t = false

theorem nocls_inert : NoCls inertT := by
  obtain ⟨a1, a2, a3, a4, a5, a6, a7, a8, a9, a10, a11, a12, a13, a14, -, -⟩ := inert_class
  exact ⟨a1, a2, a3, a4, a5, a6, a7, a8, a9, a10, a11, a12, a13, a14, rfl⟩

theorem nocls_quiet {t : Thread} (h : QuietC t) : NoCls t := by
  obtain ⟨a1, a2, a3, a4, a5, a6, a7, a8, a9, a10, a11, a12, a13, a14, -, -⟩ := h.class
  refine ⟨a1, a2, a3, a4, a5, a6, a7, a8, a9, a10, a11, a12, a13, a14, ?_⟩
  rcases h.pc with hp | hp <;> simp [credit, hp]

/-- a `maybe_stop` call that has not started (`mAcq`) or has returned (`done`) -/
theorem nocls_stopper {t : Thread} (hk : t.prog.kind = .stopper) (hp : t.pc = .mAcq ∨ t.pc = .done) : NoCls t := by
  have h1 : isProd t = false := by simp [isProd, hk]
  rcases hp with hp | hp <;>
    refine ⟨?_, ?_, ?_, ?_, ?_, ?_, ?_, h1, ?_, ?_, ?_, ?_, ?_, ?_, ?_⟩ <;>
    simp [sawEmpty, sawFull, debtD, debtDAll, debtE, commitP, debtEAll, consWakePc, prodWakePc, holds, early,
      pastS, pastT, credit, hp, h1]

theorem countP_set_same {ths : List Thread} {i : Nat} {t t' : Thread} (P : Thread → Bool)
    (ht : ths[i]? = some t) (h1 : P t = false) (h2 : P t' = false) : (ths.set i t').countP P = ths.countP P := by
  have := countP_set' P (b := t') ht
  simp only [h1, h2, Bool.false_eq_true, if_false, Nat.add_zero] at this
  exact this

/-- **A slot outside every class may be replaced by another one**: a request enters the queue (its slot was
inert, now holds the `get_batch` / `maybe_stop` call about to start) or leaves it (the call has returned; the slot
becomes inert).  `J1` for the new configuration comes from the COUNT — the thread that leaves may have been the
only "active consumer". -/
theorem live2_replace {c : Cfg} {i : Tid} {t t' : Thread} (hv : Live2 c) (ht : c.ths[i]? = some t)
    (ho : NoCls t) (hn : NoCls t') (htok : TOK t') (htl : TL t') (hx : XOK c.sh t') :
    Live2 { sh := c.sh, ths := c.ths.set i t' } := by
  have hb := hv.live.base
  have hi : i < c.ths.length := (List.getElem?_eq_some_iff.mp ht).1
  have hsame : ∀ P : Thread → Bool, P t = false → P t' = false →
      (anyT { sh := c.sh, ths := c.ths.set i t' } P ↔ anyT c P) := by
    intro P h1 h2
    rw [anyT_set ht, anyT_iff ht, h1, h2]
  have hcnt : J1C { sh := c.sh, ths := c.ths.set i t' } := by
    intro h1 h2
    rw [hsame sawEmpty ho.se hn.se] at h1
    have := hv.cnt h1 h2
    show c.sh.q.length ≤ c.sh.deqNotified.length + (c.ths.set i t').countP debtD + (c.ths.set i t').countP credit
    rw [countP_set_same debtD ht ho.dD hn.dD, countP_set_same credit ht ho.cr hn.cr]
    exact this
  refine ⟨⟨⟨?_, ?_, ?_, ?_, ?_, ?_, ?_, hb.i3⟩, j1_of_j1c hcnt, ?_, ?_, ?_⟩, hcnt⟩
  · constructor
    · intro u tu hu l
      show c.sh.owner l = some u ↔ _
      by_cases hui : u = i
      · subst hui
        simp only [List.getElem?_set_self hi, Option.some.injEq] at hu
        subst hu
        rw [hn.hl l, (hb.lock.1 u t ht l), ho.hl l]
      · have hu' : c.ths[u]? = some tu := by
          rw [← hu]; exact (List.getElem?_set_ne (Ne.symm hui)).symm
        exact hb.lock.1 u tu hu' l
    · intro l u hu
      simp only [List.length_set]
      exact hb.lock.2 l u hu
  · intro u hu
    rcases List.mem_or_eq_of_mem_set hu with hu | rfl
    · exact hb.tok u hu
    · exact htok
  · intro u hu
    rcases List.mem_or_eq_of_mem_set hu with hu | rfl
    · exact hb.tl u hu
    · exact htl
  · intro u hu
    rcases List.mem_or_eq_of_mem_set hu with hu | rfl
    · exact hb.xok u hu
    · exact hx
  · obtain ⟨n1, n2, m1, m2⟩ := hb.wait
    refine ⟨n1, n2, fun x => ?_, fun x => ?_⟩
    · show x ∈ wlD c.sh ↔ ∃ u, (c.ths.set i t')[x]? = some u ∧ _
      rw [m1 x]
      by_cases hxi : x = i
      · subst hxi
        simp only [ht, List.getElem?_set_self hi, Option.some.injEq]
        constructor
        · rintro ⟨u, rfl, hu⟩; rw [ho.cw] at hu; cases hu
        · rintro ⟨u, rfl, hu⟩; rw [hn.cw] at hu; cases hu
      · rw [List.getElem?_set_ne (Ne.symm hxi)]
    · show x ∈ wlE c.sh ↔ ∃ u, (c.ths.set i t')[x]? = some u ∧ _
      rw [m2 x]
      by_cases hxi : x = i
      · subst hxi
        simp only [ht, List.getElem?_set_self hi, Option.some.injEq]
        constructor
        · rintro ⟨u, rfl, hu⟩; rw [ho.pw] at hu; cases hu
        · rintro ⟨u, rfl, hu⟩; rw [hn.pw] at hu; cases hu
      · rw [List.getElem?_set_ne (Ne.symm hxi)]
  · intro hsr
    obtain ⟨e1, e2, e3⟩ := hb.cnt hsr
    exact ⟨by show c.sh.maxEnq = _; rw [countP_set_same isProd ht ho.pr hn.pr]; exact e1,
      by show c.sh.start = _; rw [countP_set_same pastS ht ho.pS hn.pS]; exact e2,
      by show c.sh.stop = _; rw [countP_set_same pastT ht ho.pT hn.pT]; exact e3⟩
  · intro he
    rw [hsame early ho.ea hn.ea] at he
    exact hb.early he
  · intro h1 h2
    rw [hsame sawEmpty ho.se hn.se] at h1
    rw [hsame debtDAll ho.dDA hn.dDA]
    exact hv.live.j2 h1 h2
  · intro h1
    rw [hsame sawFull ho.sf hn.sf] at h1
    rw [hsame debtE ho.dE hn.dE, hsame commitP ho.cP hn.cP]
    exact hv.live.k1 h1
  · intro h1 h2
    rw [hsame sawFull ho.sf hn.sf] at h1
    rw [hsame debtEAll ho.dEA hn.dEA]
    exact hv.live.k2 h1 h2

end MlModel.Queue
