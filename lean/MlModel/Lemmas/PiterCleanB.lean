import MlModel.Lemmas.PiterCleanA
/-!
# `Clean` is preserved: the steps that pull from an input (`next`, `release lock1`)
-/
namespace MlModel.Piter
open MlModel.Queue

variable {F : Nat → Option (List Nat)} {inputs0 : List (List Item)}

theorem pull_stop {inputs : List (List Item)} {sid : Nat} (h : (pull inputs sid).1 = .stop) :
    (pull inputs sid).2 = inputs ∧ (inputs[sid]?).getD [] = [] := by
  unfold pull at h ⊢
  split at h
  · simp at h
  · rename_i hne
    refine ⟨rfl, ?_⟩
    cases hi : inputs[sid]? with
    | none => rfl
    | some l =>
      cases l with
      | nil => rfl
      | cons i rest => exact absurd hi (hne i rest)

theorem pull_item {inputs : List (List Item)} {sid : Nat} {i : Item} (h : (pull inputs sid).1 = .item i) :
    ∃ rest, inputs[sid]? = some (i :: rest) ∧ (pull inputs sid).2 = inputs.set sid rest := by
  unfold pull at h ⊢
  split at h
  · rename_i i' rest hi
    simp only [PullRes.item.injEq] at h
    subst h
    exact ⟨rest, hi, rfl⟩
  · simp at h

theorem pull_mono (inputs : List (List Item)) (sid sid' : Nat) (h : (inputs[sid']?).getD [] = []) :
    (((pull inputs sid).2)[sid']?).getD [] = [] := by
  unfold pull
  split
  · rename_i i rest hi
    by_cases hs : sid = sid'
    · subst hs; rw [hi] at h; simp at h
    · rw [List.getElem?_set_ne hs]; exact h
  · exact h

theorem pull_flatten {inputs : List (List Item)} {sid : Nat} {i : Item} {rest : List Item}
    (h : inputs[sid]? = some (i :: rest)) : inputs.flatten.Perm (i :: (inputs.set sid rest).flatten) := by
  have := flatten_set_perm (b := rest) h
  rw [List.perm_iff_count] at this ⊢
  intro e; have := this e
  simp only [List.count_append, List.count_cons] at this ⊢
  omega

/-- `next` under the input lock: the pulled item waits in `hand` -/
theorem clean_inextL {c : Cfg} {tid : Tid} {t : PThread} (hb : Base c) (hc : Clean F inputs0 c)
    (ht : c.ths[tid]? = some t) (hp : t.isProd = true) (hpc : t.q.pc = .eNext) (hipc : t.ipc = .next) :
    Clean F inputs0 { c with inputs := (pull c.inputs t.sid).2,
                             ths := c.ths.set tid { t with hand := (pull c.inputs t.sid).1, ipc := .rel } } := by
  have hmem : t ∈ c.ths := List.mem_of_getElem? ht
  have ho := hc.prod t hmem hp
  refine clean_gen hc ht rfl (fun sid h => pull_mono c.inputs t.sid sid h) ?_ rfl rfl rfl rfl rfl rfl rfl rfl rfl
    rfl (fun _ => rfl) (fun _ => rfl) (fun _ => rfl) rfl ?_ (fun h => absurd h (ne0_of_prod hb.static ht hp))
  · -- exactly once: the pulled item moves from the input to the producer's hand
    show inputs0.flatten.Perm (((c.ths.set tid { t with hand := (pull c.inputs t.sid).1, ipc := .rel }).map
      itemsOf).flatten ++ ((pull c.inputs t.sid).2).flatten)
    cases hr : (pull c.inputs t.sid).1 with
    | stop =>
      rw [(pull_stop hr).1, flat_same itemsOf ht (by simp [itemsOf, handItems, hipc])]
      exact hc.items
    | item i =>
      obtain ⟨rest, hi, hset⟩ := pull_item hr
      rw [hset]
      have h1 := flat_app (t' := { t with hand := PullRes.item i, ipc := .rel }) itemsOf [i] ht
        (by simp [itemsOf, handItems, hipc, hp, hpc])
      have h2 := pull_flatten hi
      have h3 := hc.items
      rw [List.perm_iff_count] at h1 h2 h3 ⊢
      intro e
      have h1 := h1 e; have h2 := h2 e; have h3 := h3 e
      simp only [List.count_append, List.count_cons, List.count_nil] at h1 h2 h3 ⊢
      omega
  · intro _
    refine ⟨ho.bal, ho.okF, ho.stopped |> fun f h => ⟨(f h).1, pull_mono _ _ _ (f h).2⟩,
      fun h => by simp [hpc] at h, ho.atNext, ?_⟩
    intro _ _ hh
    exact pull_mono _ _ _ (pull_stop hh).2

end MlModel.Piter

namespace MlModel.Piter
open MlModel.Queue

variable {F : Nat → Option (List Nat)} {inputs0 : List (List Item)}

/-- the three outcomes of `afterPull` that record no exception -/
theorem afterPull_cases (tid : Tid) (s : Shared) (t : PThread) (r : PullRes) (hs : s.exc = none)
    (h : (afterPull F tid s t r).1.exc = none) :
    (afterPull F tid s t r).1 = s ∧
    ((r = .stop ∧ (afterPull F tid s t r).2 =
        { t with q := { t.q with pc := .tAcq, rets := [retOf t], reraise := none } }) ∨
     (∃ v, r = .item (.val v) ∧ F v = some [] ∧ (afterPull F tid s t r).2 =
        { t with pulled := t.pulled ++ [v], ipc := if t.useLock then .acq else .next }) ∨
     (∃ v y ys, r = .item (.val v) ∧ F v = some (y :: ys) ∧ (afterPull F tid s t r).2 =
        { t with pulled := t.pulled ++ [v], q := { t.q with pc := .pAcq, v := (tid, y) }, pend := ys })) := by
  unfold afterPull failPull at h ⊢
  cases r with
  | stop => exact ⟨rfl, Or.inl ⟨rfl, rfl⟩⟩
  | item i =>
    cases i with
    | fail => simp at h
    | val v =>
      cases hF : F v with
      | none => simp [hF] at h
      | some l =>
        cases l with
        | nil => exact ⟨by simp [hF], Or.inr (Or.inl ⟨v, rfl, hF, by simp [hF]⟩)⟩
        | cons y ys => exact ⟨by simp [hF], Or.inr (Or.inr ⟨v, y, ys, rfl, hF, by simp [hF]⟩)⟩

/-- the item a pull result adds to the producer's account -/
def newItems : PullRes → List Item
  | .item (.val v) => [.val v]
  | _ => []

theorem FMv_single (F : Nat → Option (List Nat)) (v : Nat) (l : List Nat) (h : F v = some l) : FMv F [v] = l := by
  simp [FMv, h]

/-- the producer receives the result `r` of `next(input)` -/
theorem clean_afterPull {c : Cfg} {tid : Tid} {t : PThread} {r : PullRes} {in' : List (List Item)}
    {y : Option Tid} (hb : Base c) (hc : Clean F inputs0 c) (hn : NF c) (ht : c.ths[tid]? = some t)
    (hp : t.isProd = true) (hpc : t.q.pc = .eNext)
    (hexc : (afterPull F tid c.sh t r).1.exc = none)
    (hin' : ∀ sid, inputAt c sid = [] → (in'[sid]?).getD [] = [])
    (hstopIn : r = .stop → (in'[t.sid]?).getD [] = [])
    (hitems : r ≠ .item .fail → ∀ t', itemsOf t' = t.pulled.map Item.val ++ newItems r →
      inputs0.flatten.Perm (((c.ths.set tid t').map itemsOf).flatten ++ in'.flatten)) :
    Clean F inputs0 { c with sh := (afterPull F tid c.sh t r).1, inputs := in', ilock := y,
                             ths := c.ths.set tid (afterPull F tid c.sh t r).2 } := by
  have hmem : t ∈ c.ths := List.mem_of_getElem? ht
  have ho := hc.prod t hmem hp
  have hpend := ho.atNext hpc
  have hbal : t.emitted = FMv F t.pulled := by
    have := ho.bal; simpa [holdV, hpc, pendPc, hpend] using this
  obtain ⟨hsh, hcases⟩ := afterPull_cases (F := F) tid c.sh t r hn.1 hexc
  rw [hsh]
  rcases hcases with ⟨hr, ht'⟩ | ⟨v, hr, hF, ht'⟩ | ⟨v, y', ys, hr, hF, ht'⟩ <;> rw [ht'] <;> subst hr
  · refine clean_gen hc ht rfl hin' (hitems (by simp) _ (by simp [itemsOf, handItems, newItems])) rfl rfl rfl rfl rfl rfl rfl rfl
      rfl rfl (fun _ => by simp [hpc, pastStart]) (fun _ => by simp [hpc, pastStop]) (fun _ => rfl) rfl ?_
      (fun h => absurd h (ne0_of_prod hb.static ht hp))
    intro _
    refine ⟨?_, ho.okF, fun h => by simp [pastStop] at h, fun _ => ⟨rfl, hpend, hstopIn rfl⟩,
      fun h => by simp at h, fun h => by simp at h⟩
    simpa [holdV, pendPc, hpend] using hbal
  · refine clean_gen hc ht rfl hin' (hitems (by simp) _ ?_) rfl rfl rfl rfl rfl rfl rfl rfl
      rfl rfl (fun _ => rfl) (fun _ => rfl) (fun _ => rfl) rfl ?_
      (fun h => absurd h (ne0_of_prod hb.static ht hp))
    · simp only [itemsOf, handItems, newItems, List.map_append, List.map_cons, List.map_nil]
      cases t.useLock <;> simp
    · intro _
      refine ⟨?_, ?_, fun h => by simp [hpc, pastStop] at h, fun h => by simp [hpc] at h, fun _ => hpend, ?_⟩
      · show t.emitted ++ holdV _ ++ t.pend = FMv F (t.pulled ++ [v])
        rw [FMv_append, FMv_single F v [] hF]
        simpa [holdV, hpc, pendPc, hpend] using hbal
      · intro w hw
        rcases List.mem_append.mp hw with hw | hw
        · exact ho.okF w hw
        · simp only [List.mem_singleton] at hw; subst hw; simp [hF]
      · intro _ h3; cases hul : t.useLock <;> simp [hul] at h3
  · refine clean_gen hc ht rfl hin' (hitems (by simp) _ ?_) rfl rfl rfl rfl rfl rfl rfl rfl
      rfl rfl (fun _ => by simp [hpc, pastStart]) (fun _ => by simp [hpc, pastStop]) (fun _ => rfl) rfl ?_
      (fun h => absurd h (ne0_of_prod hb.static ht hp))
    · simp [itemsOf, handItems, newItems]
    · intro _
      refine ⟨?_, ?_, fun h => by simp [pastStop] at h, fun h => by simp at h, fun h => by simp at h,
        fun h => by simp at h⟩
      · show t.emitted ++ holdV _ ++ ys = FMv F (t.pulled ++ [v])
        rw [FMv_append, FMv_single F v _ hF, ← hbal]
        simp [holdV, pendPc]
      · intro w hw
        rcases List.mem_append.mp hw with hw | hw
        · exact ho.okF w hw
        · simp only [List.mem_singleton] at hw; subst hw; simp [hF]

end MlModel.Piter

namespace MlModel.Piter
open MlModel.Queue

variable {F : Nat → Option (List Nat)} {inputs0 : List (List Item)}

/-- `next` on an input of its own (no lock) -/
theorem clean_inextU {c : Cfg} {tid : Tid} {t : PThread} (hb : Base c) (hc : Clean F inputs0 c) (hn : NF c)
    (ht : c.ths[tid]? = some t) (hp : t.isProd = true) (hpc : t.q.pc = .eNext) (hipc : t.ipc = .next)
    (hexc : (afterPull F tid c.sh t (pull c.inputs t.sid).1).1.exc = none) :
    Clean F inputs0 { c with sh := (afterPull F tid c.sh t (pull c.inputs t.sid).1).1,
                             inputs := (pull c.inputs t.sid).2,
                             ths := c.ths.set tid (afterPull F tid c.sh t (pull c.inputs t.sid).1).2 } := by
  refine clean_afterPull (y := c.ilock) hb hc hn ht hp hpc hexc (fun sid h => pull_mono c.inputs t.sid sid h)
    (fun h => pull_mono _ _ _ (pull_stop h).2) ?_
  intro hnf t' hit
  have hold : itemsOf t = t.pulled.map Item.val := by simp [itemsOf, handItems, hipc]
  cases hr : (pull c.inputs t.sid).1 with
  | stop =>
    rw [hr] at hit
    rw [(pull_stop hr).1, flat_same itemsOf ht (by rw [hit, hold]; simp [newItems])]
    exact hc.items
  | item i =>
    cases i with
    | fail => exact absurd hr hnf
    | val v =>
      rw [hr] at hit
      obtain ⟨rest, hi, hset⟩ := pull_item hr
      rw [hset]
      have h1 := flat_app (t' := t') itemsOf [Item.val v] ht (by rw [hit, hold]; simp [newItems])
      have h2 := pull_flatten hi
      have h3 := hc.items
      rw [List.perm_iff_count] at h1 h2 h3 ⊢
      intro e
      have h1 := h1 e; have h2 := h2 e; have h3 := h3 e
      simp only [List.count_append, List.count_cons, List.count_nil] at h1 h2 h3 ⊢
      omega

/-- `release lock1`: the producer receives what it pulled under the lock -/
theorem clean_irel {c : Cfg} {tid : Tid} {t : PThread} (hb : Base c) (hc : Clean F inputs0 c) (hn : NF c)
    (ht : c.ths[tid]? = some t) (hp : t.isProd = true) (hpc : t.q.pc = .eNext) (hipc : t.ipc = .rel)
    (hexc : (afterPull F tid c.sh t t.hand).1.exc = none) :
    Clean F inputs0 { c with sh := (afterPull F tid c.sh t t.hand).1, ilock := none,
                             ths := c.ths.set tid (afterPull F tid c.sh t t.hand).2 } := by
  have hmem : t ∈ c.ths := List.mem_of_getElem? ht
  have ho := hc.prod t hmem hp
  refine clean_afterPull (in' := c.inputs) (y := none) hb hc hn ht hp hpc hexc (fun sid h => h)
    (fun h => ho.handStop hpc hipc h) ?_
  intro hnf t' hit
  have hsame : itemsOf t' = itemsOf t := by
    rw [hit]
    simp only [itemsOf, handItems, hp, hpc, hipc, BEq.rfl, Bool.and_self, if_true]
    cases hh : t.hand with
    | stop => simp [newItems]
    | item i =>
      cases i with
      | fail => exact absurd hh hnf
      | val v => simp [newItems]
  rw [flat_same itemsOf ht hsame]
  exact hc.items

end MlModel.Piter
