import MlModel.Lemmas.QueueLiveDefs
/-!
# Liveness of the IteratorQueue LTS — thread-local facts (`XOK`), one step at a time
-/
namespace MlModel.Queue
set_option linter.unusedSimpArgs false

/-- configuration constants are never written -/
def ConstStep (s : Shared) (t : Thread) (tid : Tid) (alt : Bool) : Prop :=
  ∀ lbl s' t', stepThread s t tid alt = some (lbl, s', t') →
    s'.timeout = s.timeout ∧ s'.cap = s.cap ∧ s'.ignoreError = s.ignoreError

set_option hygiene false in
macro "const_group" : tactic => `(tactic| (
  intro lbl s' t' h
  unfold stepThread at h
  cases hpc : t.pc <;> (try (simp only [hpc, Pc.group] at hg; omega)) <;>
    simp only [hpc] at h <;>
    (try simp only [acquire, release, notify, waitPark, waitWake, goto, enqLoop, putLoop, batchLoop,
      afterRaise, afterValue] at h) <;>
    (repeat' split at h) <;>
    (try simp only [Option.some.injEq, Prod.mk.injEq, reduceCtorEq] at h) <;>
    (try (obtain ⟨-, rfl, rfl⟩ := h)) <;>
    simp_all [Shared.setOwner]))

theorem const_g0 {s t tid alt} (hg : t.pc.group = 0) : ConstStep s t tid alt := by const_group
theorem const_g1 {s t tid alt} (hg : t.pc.group = 1) : ConstStep s t tid alt := by const_group
theorem const_g2 {s t tid alt} (hg : t.pc.group = 2) : ConstStep s t tid alt := by const_group
theorem const_g3 {s t tid alt} (hg : t.pc.group = 3) : ConstStep s t tid alt := by const_group
theorem const_g4 {s t tid alt} (hg : t.pc.group = 4) : ConstStep s t tid alt := by const_group
theorem const_g5 {s t tid alt} (hg : t.pc.group = 5) : ConstStep s t tid alt := by const_group
theorem const_g6 {s t tid alt} (hg : t.pc.group = 6) : ConstStep s t tid alt := by const_group
theorem const_g7 {s t tid alt} (hg : t.pc.group = 7) : ConstStep s t tid alt := by const_group

theorem stepThread_const {s t tid alt} : ConstStep s t tid alt := by
  have h := Pc.group_lt t.pc
  match hg : t.pc.group with
  | 0 => exact const_g0 hg | 1 => exact const_g1 hg | 2 => exact const_g2 hg | 3 => exact const_g3 hg
  | 4 => exact const_g4 hg | 5 => exact const_g5 hg | 6 => exact const_g6 hg | 7 => exact const_g7 hg
  | n + 8 => omega

/-- the stepping thread keeps its thread-local facts -/
def XStep (s : Shared) (t : Thread) (tid : Tid) (alt : Bool) : Prop :=
  ∀ lbl s' t', stepThread s t tid alt = some (lbl, s', t') → TOK t → XOK s t → XOK s' t'

set_option hygiene false in
macro "x_group" : tactic => `(tactic| (
  intro lbl s' t' h htok hx
  have hk := htok.kind
  clear htok
  unfold XOK at hx ⊢
  unfold stepThread at h
  cases hpc : t.pc <;> (try (simp only [hpc, Pc.group] at hg; omega)) <;>
    simp only [hpc] at h hk hx <;>
    (try simp only [acquire, release, notify, waitPark, waitWake, goto, enqLoop, putLoop, batchLoop,
      afterRaise, afterValue] at h) <;>
    (repeat' split at h) <;>
    (try simp only [Option.some.injEq, Prod.mk.injEq, reduceCtorEq] at h) <;>
    (try (obtain ⟨-, rfl, rfl⟩ := h)) <;>
    simp_all [Shared.setOwner, Shared.owner, armed, isCons, isStopper, pcKind, Shared.full]))

theorem x_g0 {s t tid alt} (hg : t.pc.group = 0) : XStep s t tid alt := by x_group
theorem x_g1 {s t tid alt} (hg : t.pc.group = 1) : XStep s t tid alt := by x_group
theorem x_g2 {s t tid alt} (hg : t.pc.group = 2) : XStep s t tid alt := by x_group
theorem x_g3 {s t tid alt} (hg : t.pc.group = 3) : XStep s t tid alt := by x_group
theorem x_g4 {s t tid alt} (hg : t.pc.group = 4) : XStep s t tid alt := by x_group
theorem x_g5 {s t tid alt} (hg : t.pc.group = 5) : XStep s t tid alt := by x_group
theorem x_g6 {s t tid alt} (hg : t.pc.group = 6) : XStep s t tid alt := by x_group
theorem x_g7 {s t tid alt} (hg : t.pc.group = 7) : XStep s t tid alt := by x_group

theorem stepThread_x {s t tid alt} : XStep s t tid alt := by
  have h := Pc.group_lt t.pc
  match hg : t.pc.group with
  | 0 => exact x_g0 hg | 1 => exact x_g1 hg | 2 => exact x_g2 hg | 3 => exact x_g3 hg
  | 4 => exact x_g4 hg | 5 => exact x_g5 hg | 6 => exact x_g6 hg | 7 => exact x_g7 hg
  | n + 8 => omega

/-- the other threads keep theirs, because the flags they refer to are sticky -/
theorem XOK_mono {s s' : Shared} {u : Thread}
    (h1 : s.exc.isSome = true → s'.exc.isSome = true)
    (h2 : s.stopRequested = true → s'.stopRequested = true)
    (h3 : s.exhausted = true → s'.exhausted = true)
    (h4 : s'.timeout = s.timeout) (h5 : s'.cap = s.cap) (hx : XOK s u) : XOK s' u := by
  unfold XOK at hx ⊢
  obtain ⟨a, b, c, d, e, f⟩ := hx
  refine ⟨fun p q => h1 (a p q), fun p => h2 (b p), ?_, fun p => h3 (d p), ?_, ?_⟩
  · intro p q; rw [h4]; exact (c p q).imp h1 id
  · intro p; rw [h4]; exact (e p).imp h3 id
  · intro p; rw [h5]; exact f p

end MlModel.Queue
