import MlModel.Lemmas.Piter2DataEq
import MlModel.Lemmas.QueueLiveFinInv
/-!
# One-step facts about `Queue.stepThread` used for the END of a run of the two-queue LTS

`CloseStep`: how one step changes the queue content when the queue is empty, what makes `exhausted` true, what a raising
`get_batch` drops, how a consumer arms the exception that ends it, that a consumer cannot pick up a value from an empty
queue, and how a producer ends.  Same technique as everywhere: one statement for every program point, proved group by
group.
-/
namespace MlModel.Queue
set_option linter.unusedSimpArgs false

def CloseStep (s : Shared) (t : Thread) (tid : Tid) (alt : Bool) : Prop :=
  ∀ lbl s' t', stepThread s t tid alt = some (lbl, s', t') → TOK t → s.timeout = false →
    (t.pc ≠ .pPut → s.q = [] → s'.q = []) ∧
    (s'.exhausted = true → s.exhausted = true ∨ (s'.q = [] ∧ s.enqueueDone = true) ∨ t.pc = .mD0) ∧
    s'.lost = s.lost ++ (if t.pc = .bRaise then t.result else []) ∧
    (armedX t' = true → (armedX t = true ∧ t'.x = t.x) ∨ t'.x = s'.final) ∧
    (t'.pc = .bRaise → t'.x.isErr = false → t'.result = []) ∧
    (t.pc = .bRaise → t'.pc = .done ∧ t'.outcome = some t.x) ∧
    (t'.pc = .done → t'.result = []) ∧
    (s.q = [] → t.result = [] → inHandPc t.pc = false → t'.result = [] ∧ inHandPc t'.pc = false) ∧
    s'.returned = s.returned ++ (if t.pc = .tAcq then t.rets else []) ∧
    (t'.pc = .done → pcKind t.pc = some .producer → t.pc = .tRel ∨ s.enqueueDone = true) ∧
    (t.pc ≠ .start → t.pc ≠ .eNext → t'.src = t.src) ∧
    (t.pc ≠ .start → t'.pc = .bAcq → t'.result = []) ∧
    (t.pc = .eNext → t.src ≠ [] → s.ignoreError = false → tRegion t'.pc = true ∨ t'.pc = .done → s'.exc.isSome = true) ∧
    (t.pc = .pRaiseT → s.ignoreError = false → s'.exc.isSome = true)

set_option hygiene false in
macro "close_group" : tactic => `(tactic| (
  intro lbl s' t' h htok hto
  have hk := htok.kind; have hr := htok.res
  clear htok
  unfold stepThread at h
  cases hpc : t.pc <;> (try (simp only [hpc, Pc.group] at hg; omega)) <;>
    simp only [hpc] at h hk <;>
    (try simp only [acquire, release, notify, waitPark, waitWake, goto, enqLoop, putLoop, batchLoop,
      afterRaise, afterValue] at h) <;>
    (repeat' split at h) <;>
    (try simp only [Option.some.injEq, Prod.mk.injEq, reduceCtorEq] at h) <;>
    (try (obtain ⟨-, rfl, rfl⟩ := h)) <;>
    simp_all [Shared.setOwner, Shared.owner, pcKind, Prog.kind, armedX, inHandPc, final_eq, enqueueDone_eq, tRegion]))

theorem close_g0 {s t tid alt} (hg : t.pc.group = 0) : CloseStep s t tid alt := by close_group
theorem close_g1 {s t tid alt} (hg : t.pc.group = 1) : CloseStep s t tid alt := by close_group
theorem close_g2 {s t tid alt} (hg : t.pc.group = 2) : CloseStep s t tid alt := by close_group
theorem close_g3 {s t tid alt} (hg : t.pc.group = 3) : CloseStep s t tid alt := by close_group
theorem close_g4 {s t tid alt} (hg : t.pc.group = 4) : CloseStep s t tid alt := by close_group
theorem close_g5 {s t tid alt} (hg : t.pc.group = 5) : CloseStep s t tid alt := by close_group
theorem close_g6 {s t tid alt} (hg : t.pc.group = 6) : CloseStep s t tid alt := by close_group
theorem close_g7 {s t tid alt} (hg : t.pc.group = 7) : CloseStep s t tid alt := by close_group

theorem stepThread_close {s t tid alt} : CloseStep s t tid alt := by
  have h := Pc.group_lt t.pc
  match hg : t.pc.group with
  | 0 => exact close_g0 hg | 1 => exact close_g1 hg | 2 => exact close_g2 hg | 3 => exact close_g3 hg
  | 4 => exact close_g4 hg | 5 => exact close_g5 hg | 6 => exact close_g6 hg | 7 => exact close_g7 hg
  | n + 8 => omega

end MlModel.Queue
