import MlModel.Lemmas.PrefetchLive
import MlModel.Lemmas.QueueVariantView
/-!
# The prefetch protocol with one client: a termination measure

`(hi, lo)` in lexicographic order strictly decreases on **every** step of every thread:
* `hi` counts the one-time events still to come: the client's set-up steps (`init_generator` up to the
  first `next_batch` request) and the prefetch thread's start up to its `_start_enqueue`;
* `lo` = 3 · `Queue.Phi` of the queue-level view (the measure of `C04_variant`, which decreases on every
  embedded queue step) + what is left of the current reply's way back to the client (two steps per request,
  paid for by the last step of its `get_batch`) + the server thread's way to its next `wait`, where a
  pending notification of the shutdown condition funds one more round.
-/
namespace MlModel.Prefetch
open MlModel.Queue (Elem Item Raise Spsc asItems inertT QuietC Live VarX)

/-- `Queue.Phi` of the view of the generator queue (0 before the queue exists) -/
def PhiV (b : Nat) (s : Shared) (tc : Thread) (otp : Option Thread) : Nat :=
  match s.qs with
  | [q0] => Queue.Phi (view b q0 tc otp)
  | _ => 0

def rankA : Pc → Nat
  | .start => 7 | .lkAcq => 6 | .iiSpawn => 5 | .lkRel => 4 | .iiN0 => 3 | .iiN1 => 2 | .iiN2 => 1 | _ => 0

def rankB : Option Thread → Nat
  | none => 2
  | some tp => if tp.pc = .start then 2 else if tp.qt.pc = .sAcq then 1 else 0

def rankC : Pc → Nat
  | .nbTxA => 2 | .nbTxR => 1 | _ => 0

def rankM : Pc → Nat
  | .start => 5 | .mnAcq => 4 | .mnTxA => 4 | .mnTxR => 3 | .mnWait => 2 | .mnWake => 1 | _ => 0

def hi (tc : Thread) (otp : Option Thread) : Nat := rankA tc.pc + rankB otp

def lo (b : Nat) (s : Shared) (tm tc : Thread) (otp : Option Thread) : Nat :=
  3 * PhiV b s tc otp + rankC tc.pc + rankM tm.pc + 4 * s.shutNotified.count 0

/-- the side conditions of `Queue.variant_step` on the view -/
def VX (b : Nat) (s : Shared) (tc : Thread) (otp : Option Thread) : Prop :=
  ∀ q0, s.qs = [q0] → VarX (view b q0 tc otp)

/-- the measure decreases (lexicographically) -/
def Dec (b : Nat) (s : Shared) (tm tc : Thread) (otp : Option Thread)
    (s' : Shared) (tm' tc' : Thread) (otp' : Option Thread) : Prop :=
  hi tc' otp' < hi tc otp ∨ (hi tc' otp' = hi tc otp ∧ lo b s' tm' tc' otp' < lo b s tm tc otp)

theorem count_erase_lt {l : List Nat} (h : l.contains 0 = true) : (l.erase 0).count 0 + 1 = l.count 0 := by
  have hm : 0 ∈ l := by simpa using h
  have := List.count_pos_iff.mpr hm
  rw [List.count_erase_self]; omega

/-- a step of the server's own thread -/
theorem var_main_step {b : Nat} {tm tc : Thread} {otp : Option Thread} {s : Shared}
    {lbl : String} {c' : Cfg} (hm : MainOK tm) (hns : s.shutdownRequested = false) (hx : VX b s tc otp)
    (h : step { sh := s, ths := tm :: tc :: Option.toList otp } 0 = some (lbl, c')) :
    ∃ tm' s', c' = { sh := s', ths := tm' :: tc :: Option.toList otp } ∧ VX b s' tc otp ∧
      Dec b s tm tc otp s' tm' tc otp := by
  obtain ⟨hprog, hpc⟩ := hm
  unfold step at h
  simp only [List.getElem?_cons_zero] at h
  rcases hpc with hpc | hpc | hpc | hpc | hpc | hpc <;> simp only [hpc, hprog, hns] at h <;>
    (repeat' split at h) <;>
    (try simp only [Option.some.injEq, Prod.mk.injEq, reduceCtorEq] at h) <;>
    (try (obtain ⟨-, rfl⟩ := h)) <;>
    (try (exact h.elim)) <;>
    refine ⟨_, _, rfl, hx, Or.inr ⟨rfl, ?_⟩⟩ <;>
    simp only [lo, PhiV, rankM, hpc] <;>
    (try omega)
  rename_i hc
  have : s.shutNotified.contains 0 = true := by
    cases hcc : s.shutNotified.contains 0 with
    | true => rfl
    | false => exact absurd (by rw [hcc]; simp) hc
  have := count_erase_lt this
  omega

theorem effBatch_pos (n : Nat) : 0 < effBatch n := by
  unfold effBatch; split <;> omega

theorem varx_side_freshC (b : Nat) :
    ((freshC b).prog.kind = .batch → 0 < (freshC b).batchMax) ∧ Queue.RN (freshC b) :=
  ⟨fun _ => effBatch_pos b, Queue.rn_of_pc (Or.inl rfl)⟩

theorem varx_side_doneC (b : Nat) :
    ((doneC b).prog.kind = .batch → 0 < (doneC b).batchMax) ∧ Queue.RN (doneC b) :=
  ⟨fun _ => effBatch_pos b, Queue.rn_of_pc (Or.inr (Or.inl rfl))⟩

/-- the client before its generator is installed and the prefetch thread started: set-up steps -/
theorem var_client_step_pre {g : Gen} {b : Nat} {tm tc : Thread} {s : Shared} {lbl : String} {c' : Cfg}
    (hprog : tc.prog = .client g b) (hns : s.shutdownRequested = false) (hup : s.serverUp = true)
    (hcore : Core g b s tc none) (hx : VX b s tc none)
    (h : step { sh := s, ths := [tm, tc] } 1 = some (lbl, c')) :
    ∃ tc' s' otp, c' = { sh := s', ths := tm :: tc' :: Option.toList otp } ∧ VX b s' tc' otp ∧
      Dec b s tm tc none s' tm tc' otp := by
  obtain ⟨hqt, hrep, hy, hrs, hret, hph⟩ := hcore
  unfold step at h
  simp only [List.getElem?_cons_succ, List.getElem?_cons_zero] at h
  rcases hph with ⟨hpc | hpc, hqs, hgen⟩ | ⟨hpc, hg, hgen, q0, hqs, hsp⟩
  · simp only [hpc, hprog, hup, hns, Bool.not_true, Bool.false_eq_true, ↓reduceIte, Option.some.injEq,
      Prod.mk.injEq] at h
    obtain ⟨-, rfl⟩ := h
    refine ⟨_, _, none, rfl, ?_, Or.inl (by simp [hi, rankA, hpc])⟩
    intro q0 hq0; rw [hqs] at hq0; cases hq0
  · simp only [hpc, hprog, hns] at h
    split at h
    · simp at h
    · simp only [beginStop, hgen, install, hqs, Bool.false_eq_true, ↓reduceIte, beq_self_eq_true,
        Option.some.injEq, Prod.mk.injEq] at h
      obtain ⟨-, rfl⟩ := h
      refine ⟨_, _, none, rfl, ?_, Or.inl (by simp [hi, rankA, hpc])⟩
      intro q0 hq0
      simp only [List.nil_append, List.cons.injEq, and_true] at hq0
      subst hq0
      rw [view_none]
      refine ⟨rfl, ?_, ?_⟩
      · intro t ht
        simp only [List.mem_cons, List.not_mem_nil, or_false] at ht
        rcases ht with rfl | rfl
        · intro hk; simp [inertT, Queue.Prog.kind] at hk
        · exact fun _ => effBatch_pos b
      · intro t ht
        simp only [List.mem_cons, List.not_mem_nil, or_false] at ht
        rcases ht with rfl | rfl
        · exact Queue.rn_of_pc (Or.inr (Or.inr (Or.inl rfl)))
        · exact Queue.rn_of_pc (Or.inl rfl)
  · simp only [hpc, hprog, gen?, Option.some.injEq, Prod.mk.injEq] at h
    obtain ⟨-, rfl⟩ := h
    refine ⟨_, _, some _, rfl, ?_, Or.inl (by simp [hi, rankA, rankB, hpc])⟩
    intro q1 hq1
    have := hx q1 hq1
    simpa [view, viewC, viewP, hpc] using this

/-- a step of the prefetch thread -/
theorem var_prod_step {g : Gen} {b : Nat} {tm tc tp : Thread} {s : Shared}
    {lbl : String} {c' : Cfg} (hcore : Core g b s tc (some tp)) (hL : LInv g b s tm tc (some tp))
    (hx : VX b s tc (some tp))
    (h : step { sh := s, ths := [tm, tc, tp] } 2 = some (lbl, c')) :
    ∃ tp' s', c' = { sh := s', ths := [tm, tc, tp'] } ∧ VX b s' tc (some tp') ∧
      Dec b s tm tc (some tp) s' tm tc (some tp') := by
  obtain ⟨tp', s', rfl, -, -, hcore'⟩ := rinv_prod_step hcore h
  refine ⟨tp', s', rfl, ?_⟩
  obtain ⟨hprog, hg, hpc, hgen, henq, q0, hqs, hsp, hcl⟩ := hcore
  obtain ⟨-, -, -, -, -, q0', hqs', hsp', -⟩ := hcore'
  obtain ⟨p1, p2, p3, p4⟩ := hL.pq tp rfl
  unfold step at h
  simp only [List.getElem?_cons_succ, List.getElem?_cons_zero] at h
  rcases hpc with hpc | hpc | hpc
  · simp only [hpc, hprog, Option.some.injEq, Prod.mk.injEq, setTh, Cfg.mk.injEq, List.set_cons_succ,
      List.set_cons_zero, List.cons.injEq, true_and, and_true] at h
    obtain ⟨-, rfl, rfl⟩ := h
    refine ⟨?_, Or.inl (by simp [hi, rankB, hpc, p2 hpc])⟩
    intro q1 hq1
    have := hx q1 hq1
    simpa [view, viewP] using this
  · simp only [hpc, hg, hqs, List.getElem?_cons_zero] at h
    split at h
    · simp at h
    · rename_i lbl0 q' qt' hst
      have hq' : q0' = q' ∧ tp'.qt = qt' ∧ s'.shutNotified = s.shutNotified ∧ tp'.pc ≠ .start := by
        split at h <;>
          simp only [Option.some.injEq, Prod.mk.injEq, setTh, Cfg.mk.injEq, List.set_cons_succ,
            List.set_cons_zero, List.cons.injEq, true_and, and_true] at h <;>
          obtain ⟨-, rfl, rfl⟩ := h <;>
          simp only [List.cons.injEq, and_true] at hqs' <;>
          subst hqs' <;> simp_all
      obtain ⟨rfl, hqt', e1, d3⟩ := hq'
      rw [hqt'] at hsp'
      have hne' : qt'.pc ≠ .sAcq := by
        intro hh
        have h0' := hsp'.prod.start_iff.mpr hh
        obtain ⟨-, f2, -⟩ := Queue.stepThread_f lbl0 q0' qt' hst
        by_cases hs : tp.qt.pc = .sAcq
        · rw [if_pos hs] at f2; omega
        · rw [if_neg hs, if_neg hsp.prod.not_mAcq] at f2
          have := mt hsp.prod.start_iff.mp hs
          omega
      obtain ⟨hv, hto⟩ := hL.live q0 hqs
      have hxv := hx q0 hqs
      have hview' : view b q0' tc (some tp') = { sh := q0', ths := [inertT, viewC b tc, qt'] } := by
        simp [view, viewP, hqt', hne']
      by_cases hs : tp.qt.pc = .sAcq
      · have hview : view b q0 tc (some tp) = { sh := q0, ths := [inertT, viewC b tc] } := by
          simp [view, viewP, hs]
        rw [hview] at hxv
        refine ⟨?_, Or.inl (by simp [hi, rankB, hpc, hs, d3, hqt', hne'])⟩
        intro q1 hq1
        rw [hqs'] at hq1
        simp only [List.cons.injEq, and_true] at hq1
        subst hq1
        rw [hview']
        have hkind : qt'.prog.kind = .producer := by rw [hsp'.prod.prog]; rfl
        refine Queue.varX_append (c := { sh := q0, ths := [inertT, viewC b tc] }) hxv
          (Queue.stepThread_const lbl0 q0' qt' hst).2.2 (fun hk => by rw [hkind] at hk; cases hk) ?_
        refine Queue.stepThread_rn lbl0 q0' qt' hst hxv.ig (fun hk => ?_) (by rw [p1 hs]; exact tok_initP g)
          (by unfold Queue.RN; simp [hs])
        rw [hsp.prod.prog] at hk; cases hk
      · have hview : view b q0 tc (some tp) = { sh := q0, ths := [inertT, viewC b tc, tp.qt] } := by
          simp [view, viewP, hs]
        rw [hview] at hv hxv
        have hstep := Queue.step_slot2 (d := inertT) (C := viewC b tc) hst
        refine ⟨?_, Or.inr ⟨by simp [hi, rankB, hpc, hs, d3, hqt', hne'], ?_⟩⟩
        · intro q1 hq1
          rw [hqs'] at hq1
          simp only [List.cons.injEq, and_true] at hq1
          subst hq1
          rw [hview']
          exact Queue.varX_step hv.base hxv hstep
        · have hphi := Queue.phi_step hv.base hxv hstep
          simp only [lo, PhiV, hqs, hqs', hview, hview', e1]
          omega
  · simp [hpc] at h

theorem phiV_congr {b : Nat} {s s' : Shared} {tc tc' : Thread} {otp : Option Thread} (hqs : s'.qs = s.qs)
    (hvc : viewC b tc' = viewC b tc) : PhiV b s' tc' otp = PhiV b s tc otp := by
  unfold PhiV view; rw [hqs, hvc]

theorem vx_congr {b : Nat} {s s' : Shared} {tc tc' : Thread} {otp : Option Thread} (hqs : s'.qs = s.qs)
    (hvc : viewC b tc' = viewC b tc) (hx : VX b s tc otp) : VX b s' tc' otp := by
  intro q0 hq0
  have := hx q0 (by rw [← hqs]; exact hq0)
  unfold view at this ⊢; rw [hvc]; exact this

/-- the client once the prefetch thread exists -/
theorem var_client_step_run {g : Gen} {b : Nat} {tm tc tp : Thread} {s : Shared} {lbl : String} {c' : Cfg}
    (hprog : tc.prog = .client g b) (hup : s.serverUp = true)
    (hcore : Core g b s tc (some tp)) (hL : LInv g b s tm tc (some tp)) (hx : VX b s tc (some tp))
    (h : step { sh := s, ths := [tm, tc, tp] } 1 = some (lbl, c')) :
    ∃ tc' s', c' = { sh := s', ths := [tm, tc', tp] } ∧ VX b s' tc' (some tp) ∧
      Dec b s tm tc (some tp) s' tm tc' (some tp) := by
  obtain ⟨hpp, hpg, hppc, hgen, henq, q0, hqs, hsp, hcl⟩ := hcore
  unfold step at h
  simp only [List.getElem?_cons_succ, List.getElem?_cons_zero] at h
  unfold ClientC at hcl
  cases hpc : tc.pc <;> simp only [hpc] at hcl h <;> (try exact hcl.elim)
  case done => simp at h
  case lkRel =>
    obtain ⟨hret, hqt, hrep, hmk⟩ := hcl
    split at h
    · simp at h
    · simp only [hprog, hret, Option.some.injEq, Prod.mk.injEq] at h
      obtain ⟨-, rfl⟩ := h
      exact ⟨_, _, rfl, vx_congr rfl (by simp [viewC, hpc]) hx, Or.inl (by simp [hi, rankA, hpc])⟩
  case iiN0 =>
    split at h
    · simp at h
    · simp only [Option.some.injEq, Prod.mk.injEq] at h
      obtain ⟨-, rfl⟩ := h
      exact ⟨_, _, rfl, vx_congr rfl (by simp [viewC, hpc]) hx, Or.inl (by simp [hi, rankA, hpc])⟩
  case iiN1 =>
    split at h
    · simp at h
    · simp only [Option.some.injEq, Prod.mk.injEq] at h
      obtain ⟨-, rfl⟩ := h
      exact ⟨_, _, rfl, vx_congr rfl (by simp [viewC, hpc]) hx, Or.inl (by simp [hi, rankA, hpc])⟩
  case iiN2 =>
    split at h
    · simp at h
    · simp only [hprog, callNext, hup, beginNext, hgen, Bool.not_true, Bool.false_eq_true, ↓reduceIte,
        Option.some.injEq, Prod.mk.injEq] at h
      obtain ⟨-, rfl⟩ := h
      exact ⟨_, _, rfl, vx_congr rfl (by simp [viewC, hpc, freshC]) hx, Or.inl (by simp [hi, rankA, hpc])⟩
  case nbTxA =>
    split at h
    · simp at h
    · simp only [Option.some.injEq, Prod.mk.injEq] at h
      obtain ⟨-, rfl⟩ := h
      have hvc : viewC b { tc with pc := .nbTxR } = viewC b tc := by simp [viewC, hpc]
      refine ⟨_, _, rfl, vx_congr rfl hvc hx, Or.inr ⟨by simp [hi, rankA, hpc], ?_⟩⟩
      have e : PhiV b { s with txOwner := some 1 } { tc with pc := .nbTxR } (some tp) = PhiV b s tc (some tp) :=
        phiV_congr rfl hvc
      simp only [lo, e, rankC, hpc]
      omega
  case nbTxR =>
    obtain ⟨hqt, hmk, r, hrep, hmr⟩ := hcl
    split at h
    · simp at h
    · simp only [hrep] at h
      cases hmark : r.marker with
      | none =>
        simp only [receive, hprog, hmark, callNext, hup, beginNext, hgen, Bool.not_true, Bool.false_eq_true,
          ↓reduceIte, Option.some.injEq, Prod.mk.injEq] at h
        obtain ⟨-, rfl⟩ := h
        refine ⟨_, _, rfl, vx_congr rfl (by simp [viewC, hpc, hrep, hmark, freshC]) hx,
          Or.inr ⟨by simp [hi, rankA, hpc], ?_⟩⟩
        simp only [lo, PhiV, view, rankC, hpc]
        have e : viewC b tc = freshC b := by simp [viewC, hpc, hrep, hmark]
        rw [e]
        simp only [viewC, freshC]
        omega
      | some m =>
        simp only [receive, hprog, hmark, Option.some.injEq, Prod.mk.injEq] at h
        obtain ⟨-, rfl⟩ := h
        refine ⟨_, _, rfl, vx_congr rfl (by simp [viewC, hpc, hrep, hmark]) hx,
          Or.inr ⟨by simp [hi, rankA, hpc], ?_⟩⟩
        simp only [lo, PhiV, view, rankC, hpc]
        have e : viewC b tc = doneC b := by simp [viewC, hpc, hrep, hmark]
        rw [e]
        simp only [viewC]
        omega
  case nbGet =>
    obtain ⟨hg0, hqprog, hrep, hmk⟩ := hcl
    simp only [hg0, hqs, List.getElem?_cons_zero] at h
    split at h
    · simp at h
    · rename_i lbl0 q' qt' hst
      obtain ⟨hv, hto⟩ := hL.live q0 hqs
      have hxv := hx q0 hqs
      have hview : view b q0 tc (some tp) = { sh := q0, ths := inertT :: tc.qt :: viewP (some tp) } := by
        simp [view, viewC, hpc]
      rw [hview] at hv hxv
      have hstep := Queue.step_slot1 (d := inertT) (rest := viewP (some tp)) hst
      have hv' := Queue.live_step hto hv hstep
      have hxv' := Queue.varX_step hv.base hxv hstep
      have hphi := Queue.phi_step hv.base hxv hstep
      rw [deliveredOf_none hrep] at hsp
      obtain ⟨hsp', hqprog'⟩ := hsp.cons_step hqprog hst
      split at h
      · rename_i hfin
        have hfin' : qt'.pc = .bAcq ∨ qt'.pc = .done := by simpa using hfin
        simp only [Option.some.injEq, Prod.mk.injEq] at h
        obtain ⟨-, rfl⟩ := h
        have hq : QuietC qt' := ⟨by rw [hqprog']; rfl, hfin'⟩
        have hres : qt'.result = [] := by
          rcases hfin' with hp | hp
          · exact hsp'.keep.idleB hp
          · exact hsp'.keep.idleD hp
        by_cases hmark : (mkReply { s with qs := [q'] } 0 q' qt'.received).1.marker.isSome = true
        · have hset := Queue.phi_set_quiet (c := { sh := q', ths := inertT :: qt' :: viewP (some tp) }) (i := 1)
            (t' := doneC b) rfl hq hres (quiet_doneC b) rfl (fun _ => rfl)
          have hxs := Queue.varX_set (i := 1) hxv' (varx_side_doneC b).1 (varx_side_doneC b).2
          refine ⟨_, _, rfl, ?_, Or.inr ⟨by simp [hi, rankA, hpc], ?_⟩⟩
          · intro q1 hq1
            simp only [List.set_cons_zero, List.cons.injEq, and_true] at hq1
            subst hq1
            simpa [view, viewC, hmark] using hxs
          · simp only [lo, PhiV, hqs, hview, List.set_cons_zero, rankC, hpc]
            simp only [view, viewC, hmark, if_true]
            simp only [List.set_cons_succ, List.set_cons_zero] at hset
            omega
        · have hd : qt'.pc ≠ .done := by
            intro hd
            -- a raising `get_batch` means the queue is exhausted, hence the reply carries a marker
            apply hmark
            have hend := hv'.base.xok qt' (by simp)
            have harm : Queue.armed qt' = true := by simp [Queue.armed, hd, Queue.isCons, hqprog', Queue.Prog.kind]
            have hex : q'.exhausted = true := by
              rcases hend.2.2.2.2.1 harm with h1 | h1
              · exact h1
              · have : q'.timeout = false := by
                  rw [(Queue.stepThread_const lbl0 q' qt' hst).1]; exact hto
                rw [this] at h1; cases h1
            unfold mkReply
            rw [if_pos hex]
            split
            · split <;> rfl
            · rfl
          have hset := Queue.phi_set_quiet (c := { sh := q', ths := inertT :: qt' :: viewP (some tp) }) (i := 1)
            (t' := freshC b) rfl hq hres (quiet_freshC b) rfl (fun hh => absurd hh hd)
          have hxs := Queue.varX_set (i := 1) hxv' (varx_side_freshC b).1 (varx_side_freshC b).2
          refine ⟨_, _, rfl, ?_, Or.inr ⟨by simp [hi, rankA, hpc], ?_⟩⟩
          · intro q1 hq1
            simp only [List.set_cons_zero, List.cons.injEq, and_true] at hq1
            subst hq1
            simpa [view, viewC, hmark] using hxs
          · simp only [lo, PhiV, hqs, hview, List.set_cons_zero, rankC, hpc]
            simp only [view, viewC, hmark]
            simp only [List.set_cons_succ, List.set_cons_zero] at hset
            simp only [Bool.false_eq_true, if_false]
            omega
      · rename_i hfin
        simp only [Option.some.injEq, Prod.mk.injEq] at h
        obtain ⟨-, rfl⟩ := h
        refine ⟨_, _, rfl, ?_, Or.inr ⟨by simp [hi, rankA, hpc], ?_⟩⟩
        · intro q1 hq1
          simp only [List.set_cons_zero, List.cons.injEq, and_true] at hq1
          subst hq1
          simpa [view, viewC, hpc] using hxv'
        · simp only [lo, PhiV, hqs, hview, List.set_cons_zero, rankC, hpc]
          simp only [view, viewC]
          omega

/-! ### the measure on configurations -/

def hiC (c : Cfg) : Nat :=
  match c.ths with
  | [_, tc] => hi tc none
  | [_, tc, tp] => hi tc (some tp)
  | _ => 0

def loC (b : Nat) (c : Cfg) : Nat :=
  match c.ths with
  | [tm, tc] => lo b c.sh tm tc none
  | [tm, tc, tp] => lo b c.sh tm tc (some tp)
  | _ => 0

/-- the termination measure of the one-client system, ordered lexicographically -/
def termMeasure (b : Nat) (c : Cfg) : Nat × Nat := (hiC c, loC b c)

def MLt : Nat × Nat → Nat × Nat → Prop := Prod.Lex (· < ·) (· < ·)

theorem mlt_wf : WellFounded MLt := (Prod.lex Nat.lt_wfRel Nat.lt_wfRel).wf

theorem measure_eq {b : Nat} {s : Shared} {tm tc : Thread} (otp : Option Thread) :
    termMeasure b { sh := s, ths := tm :: tc :: Option.toList otp } = (hi tc otp, lo b s tm tc otp) := by
  cases otp <;> rfl

theorem mlt_of_dec {b : Nat} {s s' : Shared} {tm tc tm' tc' : Thread} {otp otp' : Option Thread}
    (h : Dec b s tm tc otp s' tm' tc' otp') :
    MLt (termMeasure b { sh := s', ths := tm' :: tc' :: Option.toList otp' })
      (termMeasure b { sh := s, ths := tm :: tc :: Option.toList otp }) := by
  rw [measure_eq, measure_eq]
  rcases h with h | ⟨h1, h2⟩
  · exact Prod.Lex.left _ _ h
  · rw [h1]; exact Prod.Lex.right _ h2

/-- the side conditions of the variant, for the decomposition of the thread list -/
def VXc (b : Nat) (c : Cfg) : Prop :=
  ∀ tm tc otp, c.ths = tm :: tc :: Option.toList otp → VX b c.sh tc otp

theorem vxc_init (p : Nat) (g : Gen) (b : Nat) : VXc b (init p [.client g b]) := by
  intro tm tc otp _ q0 hq0
  simp [init] at hq0

theorem vxc_intro {b : Nat} {s : Shared} {tm tc : Thread} {otp : Option Thread} (h : VX b s tc otp) :
    VXc b { sh := s, ths := tm :: tc :: Option.toList otp } := by
  intro tm' tc' otp' heq
  simp only [List.cons.injEq] at heq
  obtain ⟨-, rfl, heq⟩ := heq
  have := toList_inj heq
  subst this
  exact h

/-- **Variant**: every step of every thread strictly decreases the measure (and keeps its side conditions). -/
theorem var_step {g : Gen} {b : Nat} {c c' : Cfg} {tid : Queue.Tid} {lbl : String}
    (hI : RLInv g b c) (hx : VXc b c) (h : step c tid = some (lbl, c')) :
    VXc b c' ∧ MLt (termMeasure b c') (termMeasure b c) := by
  obtain ⟨tm, tc, otp, hths, hm, hprog, hns, hup, hcore, hL⟩ := hI
  obtain ⟨s, ths⟩ := c
  simp only at hths hns hup hcore hL
  subst hths
  have hx' := hx tm tc otp rfl
  match tid, otp with
  | 0, otp =>
    obtain ⟨tm', s', rfl, hv, hd⟩ := var_main_step hm hns hx' h
    exact ⟨vxc_intro hv, mlt_of_dec hd⟩
  | 1, none =>
    obtain ⟨tc', s', otp', rfl, hv, hd⟩ := var_client_step_pre hprog hns hup hcore hx' h
    exact ⟨vxc_intro hv, mlt_of_dec hd⟩
  | 1, some tp =>
    obtain ⟨tc', s', rfl, hv, hd⟩ := var_client_step_run hprog hup hcore hL hx' h
    exact ⟨vxc_intro (otp := some tp) hv, mlt_of_dec (otp := some tp) (otp' := some tp) hd⟩
  | 2, some tp =>
    obtain ⟨tp', s', rfl, hv, hd⟩ := var_prod_step hcore hL hx' h
    exact ⟨vxc_intro (otp := some tp') hv, mlt_of_dec (otp := some tp) (otp' := some tp') hd⟩
  | 2, none => rw [step_none_of_getElem? (by rfl)] at h; exact absurd h (by simp)
  | n + 3, none => rw [step_none_of_getElem? (by rfl)] at h; exact absurd h (by simp)
  | n + 3, some tp => rw [step_none_of_getElem? (by rfl)] at h; exact absurd h (by simp)

theorem vxc_reachable {p : Nat} {g : Gen} {b : Nat} {c : Cfg}
    (h : Reachable (init p [.client g b]) c) : VXc b c := by
  induction h with
  | init => exact vxc_init p g b
  | step hr hs ih => exact (var_step (rlinv_reachable hr) ih hs).1

/-- an execution: consecutive configurations are related by a step of some thread -/
def IsRun (f : Nat → Cfg) : Prop := ∀ n, ∃ tid lbl, step (f n) tid = some (lbl, f (n + 1))

/-- **No infinite execution** from a reachable configuration (no fairness assumption, every scheduler). -/
theorem no_infinite_run {p : Nat} {g : Gen} {b : Nat} {f : Nat → Cfg}
    (h0 : Reachable (init p [.client g b]) (f 0)) (hrun : IsRun f) : False := by
  have hreach : ∀ n, Reachable (init p [.client g b]) (f n) := by
    intro n
    induction n with
    | zero => exact h0
    | succ n ih =>
      obtain ⟨tid, lbl, hs⟩ := hrun n
      exact .step ih hs
  have key : ∀ m : Nat × Nat, ∀ n, termMeasure b (f n) = m → False := by
    intro m
    induction m using mlt_wf.induction with
    | _ m ih =>
      intro n hn
      obtain ⟨tid, lbl, hs⟩ := hrun n
      have := (var_step (rlinv_reachable (hreach n)) (vxc_reachable (hreach n)) hs).2
      rw [hn] at this
      exact ih _ this (n + 1) rfl
  exact key _ 0 rfl

end MlModel.Prefetch
