import MlModel.Model.Agg.Text
import Mathlib.Algebra.Order.Ring.Unbundled.Rat
/-!
# `sorted(rows, key=lambda x: (-x[1], x[0]))` does not depend on the order of `rows`

The sort key is a total order on rows with distinct keys, so two permutations of the same rows sort
to the same list (`sort_eq_of_perm`), and the sorted list is characterised by "sorted + same elements"
(`eq_sort_of_sorted_perm`).  `strLe` (Python's `str` comparison) is such a total order.
-/
namespace MlModel.Agg.Text

/-- what the sort needs of the key comparison -/
structure KeyOrder {K : Type} (le : K → K → Bool) : Prop where
  total : ∀ a b, le a b = true ∨ le b a = true
  trans : ∀ a b c, le a b = true → le b c = true → le a c = true
  antisymm : ∀ a b, le a b = true → le b a = true → a = b

variable {K : Type} {le : K → K → Bool}

theorem rowLe_iff (a b : K × Rat) :
    rowLe le a b = true ↔ b.2 < a.2 ∨ (a.2 = b.2 ∧ le a.1 b.1 = true) := by
  simp [rowLe]

theorem rowLe_total (h : KeyOrder le) (a b : K × Rat) : (rowLe le a b || rowLe le b a) = true := by
  rw [Bool.or_eq_true, rowLe_iff, rowLe_iff]
  rcases lt_trichotomy a.2 b.2 with hlt | heq | hgt
  · exact Or.inr (Or.inl hlt)
  · rcases h.total a.1 b.1 with h1 | h1
    · exact Or.inl (Or.inr ⟨heq, h1⟩)
    · exact Or.inr (Or.inr ⟨heq.symm, h1⟩)
  · exact Or.inl (Or.inl hgt)

theorem rowLe_trans (h : KeyOrder le) (a b c : K × Rat) :
    rowLe le a b = true → rowLe le b c = true → rowLe le a c = true := by
  rw [rowLe_iff, rowLe_iff, rowLe_iff]
  rintro (h1 | ⟨h1, k1⟩) (h2 | ⟨h2, k2⟩)
  · exact Or.inl (lt_trans h2 h1)
  · exact Or.inl (h2 ▸ h1)
  · exact Or.inl (h1 ▸ h2)
  · exact Or.inr ⟨h1.trans h2, h.trans _ _ _ k1 k2⟩

theorem rowLe_antisymm (h : KeyOrder le) (a b : K × Rat) :
    rowLe le a b = true → rowLe le b a = true → a = b := by
  rw [rowLe_iff, rowLe_iff]
  rintro (h1 | ⟨h1, k1⟩) (h2 | ⟨h2, k2⟩)
  · exact absurd h1 (lt_asymm h2)
  · exact absurd h1 (by rw [h2]; exact lt_irrefl _)
  · exact absurd h2 (by rw [h1]; exact lt_irrefl _)
  · exact Prod.ext (h.antisymm _ _ k1 k2) h1

/-- the sorted rows are `Pairwise`-ordered by the sort key -/
theorem pairwise_sort (h : KeyOrder le) (l : List (K × Rat)) :
    (l.mergeSort (rowLe le)).Pairwise (fun a b => rowLe le a b = true) :=
  List.pairwise_mergeSort (fun a b c => rowLe_trans h a b c) (fun a b => rowLe_total h a b) l

/-- a sorted list with the same elements *is* the sorted list -/
theorem eq_sort_of_sorted_perm (h : KeyOrder le) {l r : List (K × Rat)}
    (hs : r.Pairwise (fun a b => rowLe le a b = true)) (hp : r.Perm l) :
    r = l.mergeSort (rowLe le) :=
  List.Perm.eq_of_pairwise (le := fun a b => rowLe le a b = true)
    (fun a b _ _ => rowLe_antisymm h a b) hs (pairwise_sort h l)
    (hp.trans (List.mergeSort_perm l _).symm)

/-- sorting forgets the order of the input -/
theorem sort_eq_of_perm (h : KeyOrder le) {l₁ l₂ : List (K × Rat)} (hp : l₁.Perm l₂) :
    l₁.mergeSort (rowLe le) = l₂.mergeSort (rowLe le) :=
  eq_sort_of_sorted_perm h (pairwise_sort h l₁) ((List.mergeSort_perm l₁ _).trans hp)

/-! ### `str` comparison is a total order -/

theorem char_trichotomy (a b : Char) : a < b ∨ a = b ∨ b < a := by
  by_cases h1 : a < b
  · exact Or.inl h1
  · by_cases h2 : b < a
    · exact Or.inr (Or.inr h2)
    · exact Or.inr (Or.inl (Char.le_antisymm (Char.not_lt.mp h2) (Char.not_lt.mp h1)))

theorem strLe_total : ∀ a b : Str, strLe a b = true ∨ strLe b a = true
  | [], _ => Or.inl (by simp [strLe])
  | _ :: _, [] => Or.inr (by simp [strLe])
  | a :: as, b :: bs => by
    simp only [strLe, Bool.or_eq_true, decide_eq_true_eq, Bool.and_eq_true, beq_iff_eq]
    rcases char_trichotomy a b with h | h | h
    · exact Or.inl (Or.inl h)
    · subst h
      rcases strLe_total as bs with h' | h'
      · exact Or.inl (Or.inr ⟨rfl, h'⟩)
      · exact Or.inr (Or.inr ⟨rfl, h'⟩)
    · exact Or.inr (Or.inl h)

theorem strLe_trans : ∀ a b c : Str, strLe a b = true → strLe b c = true → strLe a c = true
  | [], _, _ => by simp [strLe]
  | _ :: _, [], _ => by simp [strLe]
  | _ :: _, _ :: _, [] => by simp [strLe]
  | a :: as, b :: bs, c :: cs => by
    simp only [strLe, Bool.or_eq_true, decide_eq_true_eq, Bool.and_eq_true, beq_iff_eq]
    rintro (h1 | ⟨h1, k1⟩) (h2 | ⟨h2, k2⟩)
    · exact Or.inl (Char.lt_trans h1 h2)
    · exact Or.inl (h2 ▸ h1)
    · exact Or.inl (h1 ▸ h2)
    · exact Or.inr ⟨h1.trans h2, strLe_trans as bs cs k1 k2⟩

theorem strLe_antisymm : ∀ a b : Str, strLe a b = true → strLe b a = true → a = b
  | [], [] => fun _ _ => rfl
  | [], _ :: _ => by simp [strLe]
  | _ :: _, [] => by simp [strLe]
  | a :: as, b :: bs => by
    simp only [strLe, Bool.or_eq_true, decide_eq_true_eq, Bool.and_eq_true, beq_iff_eq]
    rintro (h1 | ⟨h1, k1⟩) (h2 | ⟨h2, k2⟩)
    · exact absurd h1 (Char.lt_asymm h2)
    · exact absurd h1 (by rw [h2]; exact Char.lt_irrefl _)
    · exact absurd h2 (by rw [h1]; exact Char.lt_irrefl _)
    · rw [h1, strLe_antisymm as bs k1 k2]

theorem strLe_keyOrder : KeyOrder strLe := ⟨strLe_total, strLe_trans, strLe_antisymm⟩

end MlModel.Agg.Text
