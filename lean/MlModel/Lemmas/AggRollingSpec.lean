import MlModel.Lemmas.AggRollingMeanVar
/-!
# Textbook definitions of the rolling statistics, written independently of the accumulators

`Spec.*` are definitions "from the raw examples": they never mention `merge`, pooled formulas or
running sums of the implementation.  The lemmas relate them to the one-batch states `ofBatch`.
-/
namespace MlModel.Agg.Rolling

namespace Spec

/-- number of non-NaN entries -/
def count (xs : List F) : Nat := (xs.filter Option.isSome).length
/-- sum of the non-NaN entries -/
def total (xs : List F) : Rat := rsum (xs.filterMap id)
/-- arithmetic mean of the non-NaN entries; NaN if there is none -/
def mean (xs : List F) : F := if count xs = 0 then none else some (total xs / count xs)
/-- population variance `E[x²] − E[x]²` over the non-NaN entries; NaN if there is none -/
def var (xs : List F) : F :=
  if count xs = 0 then none
  else some (rsum ((xs.filterMap id).map fun x => x * x) / count xs
              - (total xs / count xs) * (total xs / count xs))
/-- population variance as the mean squared deviation from the mean -/
def varDev (xs : List F) : F :=
  match mean xs with
  | none => none
  | some mu => some (rsum ((xs.filterMap id).map fun x => (x - mu) * (x - mu)) / count xs)

/-- `m` is a greatest element of `xs` -/
def IsMax (m : Rat) (xs : List Rat) : Prop := m ∈ xs ∧ ∀ x ∈ xs, x ≤ m
def IsMin (m : Rat) (xs : List Rat) : Prop := m ∈ xs ∧ ∀ x ∈ xs, m ≤ x

/-- arithmetic mean of a list of rationals (0 for the empty list: the documented
zero-denominator convention of `safe_divide`) -/
def avg (xs : List Rat) : Rat := if xs.length = 0 then 0 else rsum xs / xs.length

end Spec

theorem count_eq_valid_length (xs : List F) : Spec.count xs = (valid xs).length := by
  unfold Spec.count valid
  induction xs with
  | nil => rfl
  | cons x xs ih => cases x <;> simp [List.filter_cons, List.filterMap_cons, ih]

/-- the one-batch statistics of a column are the textbook ones -/
theorem Col.ofList_spec (xs : List F) :
    Col.ofList xs = ⟨Spec.count xs, Spec.mean xs, Spec.var xs⟩ := by
  rw [Col.ofList_eq_ofStats]
  unfold Col.ofStats Spec.mean Spec.var Spec.total
  rw [count_eq_valid_length]
  unfold valid
  generalize List.filterMap id xs = v
  by_cases h : v.length = 0
  · rw [if_pos h, if_pos h, if_pos h, h]; rfl
  · rw [if_neg h, if_neg h, if_neg h]

theorem Spec.varDev_eq_var (xs : List F) : Spec.varDev xs = Spec.var xs := by
  have h1 := Col.ofList_spec xs
  unfold Col.ofList at h1
  unfold Spec.varDev
  rw [count_eq_valid_length] at *
  unfold Spec.mean Spec.var at *
  rw [count_eq_valid_length] at *
  by_cases h : (valid xs).length = 0
  · simp [h]
  · simp only [h, if_false, Col.mk.injEq, true_and, Option.some.injEq] at h1 ⊢
    unfold Spec.total
    exact h1.2

theorem Spec.total_eq (xs : List F) : Spec.total xs = rsum (valid xs) := rfl

theorem Col.total_ofList (xs : List F) : (Col.ofList xs).total = some (Spec.total xs) := by
  rw [Col.ofList_eq_ofStats, Spec.total_eq]
  unfold Col.ofStats Col.total
  by_cases h : (valid xs).length = 0
  · rw [List.length_eq_zero_iff.mp h]; simp [Col.fresh, fwhere]
  · have hn : ((valid xs).length : Rat) ≠ 0 := by exact_mod_cast h
    have hpos : 0 < (valid xs).length := Nat.pos_of_ne_zero h
    simp only [h, if_false, fwhere, gt_iff_lt, hpos, decide_true, if_true, fmul_some_some,
      Option.some.injEq]
    field_simp

/-! ## MinMaxAndCount -/

theorem foldl_min_mem (a : Rat) (l : List Rat) : l.foldl min a ∈ a :: l := by
  induction l generalizing a with
  | nil => simp
  | cons x l ih =>
    simp only [List.foldl_cons]
    have := ih (min a x)
    rcases List.mem_cons.mp this with h | h
    · rw [h]; rcases min_choice a x with h' | h' <;> simp [h']
    · simp [h]

theorem foldl_min_le (a : Rat) (l : List Rat) : ∀ x ∈ a :: l, l.foldl min a ≤ x := by
  induction l generalizing a with
  | nil => simp
  | cons y l ih =>
    intro x hx
    simp only [List.foldl_cons]
    rcases List.mem_cons.mp hx with rfl | hx
    · exact le_trans (ih (min x y) (min x y) (by simp)) (min_le_left _ _)
    · rcases List.mem_cons.mp hx with rfl | hx
      · exact le_trans (ih (min a x) (min a x) (by simp)) (min_le_right _ _)
      · exact ih _ _ (by simp [hx])

theorem foldl_max_mem (a : Rat) (l : List Rat) : l.foldl max a ∈ a :: l := by
  induction l generalizing a with
  | nil => simp
  | cons x l ih =>
    simp only [List.foldl_cons]
    have := ih (max a x)
    rcases List.mem_cons.mp this with h | h
    · rw [h]; rcases max_choice a x with h' | h' <;> simp [h']
    · simp [h]

theorem foldl_max_ge (a : Rat) (l : List Rat) : ∀ x ∈ a :: l, x ≤ l.foldl max a := by
  induction l generalizing a with
  | nil => simp
  | cons y l ih =>
    intro x hx
    simp only [List.foldl_cons]
    rcases List.mem_cons.mp hx with rfl | hx
    · exact le_trans (le_max_left _ _) (ih (max x y) (max x y) (by simp))
    · rcases List.mem_cons.mp hx with rfl | hx
      · exact le_trans (le_max_right _ _) (ih (max a x) (max a x) (by simp))
      · exact ih _ _ (by simp [hx])

/-! ## R2Tjur on binary labels -/

theorem tjur_sums (xs : List (Rat × Rat)) (hb : ∀ p ∈ xs, p.1 = 0 ∨ p.1 = 1) :
    rsum (xs.map (·.1)) = ((xs.filter fun p => p.1 = 1).length : Rat) ∧
    rsum (xs.map fun p => p.1 * p.2) = rsum ((xs.filter fun p => p.1 = 1).map (·.2)) ∧
    rsum (xs.map fun p => 1 - p.1) = ((xs.filter fun p => p.1 = 0).length : Rat) ∧
    rsum (xs.map fun p => (1 - p.1) * p.2) = rsum ((xs.filter fun p => p.1 = 0).map (·.2)) := by
  induction xs with
  | nil => simp
  | cons p xs ih =>
    have ih' := ih (fun q hq => hb q (List.mem_cons_of_mem _ hq))
    obtain ⟨i1, i2, i3, i4⟩ := ih'
    rcases hb p (by simp) with h | h
    · simp only [List.map_cons, rsum_cons, i1, i2, i3, i4, h, List.filter_cons]
      refine ⟨?_, ?_, ?_, ?_⟩ <;> norm_num <;> ring
    · simp only [List.map_cons, rsum_cons, i1, i2, i3, i4, h, List.filter_cons]
      refine ⟨?_, ?_, ?_, ?_⟩ <;> norm_num <;> ring

/-! ## RRegression -/

theorem rsum_cross_dev {α : Type} (v : List α) (f g : α → Rat) (a b : Rat) :
    rsum (v.map fun p => (f p - a) * (g p - b))
      = rsum (v.map fun p => f p * g p) - b * rsum (v.map f) - a * rsum (v.map g)
        + (v.length : Rat) * (a * b) := by
  induction v with
  | nil => simp
  | cons x v ih => simp only [List.map_cons, rsum_cons, ih, List.length_cons]; push_cast; ring

end MlModel.Agg.Rolling
