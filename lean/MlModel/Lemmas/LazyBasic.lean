import MlModel.Model.Lazy
/-! Predicates on values / expressions and basic facts about the evaluator monad. -/
namespace MlModel.Lazy
set_option linter.unusedSimpArgs false

/-! ### Leaf predicates -/
mutual
/-- `p` holds at every `fn`/`handle` leaf inside the value. -/
def Val.leafAll (p : Val → Bool) : Val → Bool
  | .int _ => true | .str _ => true | .none => true
  | .fn n => p (.fn n) | .handle i => p (.handle i)
  | .tup xs => Val.leafAllL p xs
  | .record fs => Val.leafAllF p fs
def Val.leafAllL (p : Val → Bool) : List Val → Bool
  | [] => true | a :: as => a.leafAll p && Val.leafAllL p as
def Val.leafAllF (p : Val → Bool) : List (String × Val) → Bool
  | [] => true | (_, a) :: as => a.leafAll p && Val.leafAllF p as
end

/-- no handle -/
def noHandleP : Val → Bool
  | .handle _ => false | _ => true
/-- no handle and not the stateful `counter` -/
def pureP : Val → Bool
  | .handle _ => false | .fn n => n != "counter" | _ => true

mutual
def Expr.leafAll (p : Val → Bool) : Expr → Bool
  | .const v => v.leafAll p
  | .traced v _ => v.leafAll p
  | .call f as ks _ _ => f.leafAll p && Expr.leafAllL p as && Expr.leafAllK p ks
def Expr.leafAllL (p : Val → Bool) : List Expr → Bool
  | [] => true | a :: as => a.leafAll p && Expr.leafAllL p as
def Expr.leafAllK (p : Val → Bool) : List (String × Expr) → Bool
  | [] => true | (_, a) :: as => a.leafAll p && Expr.leafAllK p as
end

mutual
/-- no `lazy_result` flag anywhere and no `LazyFn` without a function (`value=None`) -/
def Expr.noLazy : Expr → Bool
  | .const _ => true
  | .traced _ l => !l
  | .call f as ks _ l => !l && f != .const .none && f.noLazy && Expr.noLazyL as && Expr.noLazyK ks
def Expr.noLazyL : List Expr → Bool
  | [] => true | a :: as => a.noLazy && Expr.noLazyL as
def Expr.noLazyK : List (String × Expr) → Bool
  | [] => true | (_, a) :: as => a.noLazy && Expr.noLazyK as
end

mutual
/-- no `cache_result` flag anywhere -/
def Expr.noCache : Expr → Bool
  | .const _ => true
  | .traced _ _ => true
  | .call f as ks c _ => !c && f.noCache && Expr.noCacheL as && Expr.noCacheK ks
def Expr.noCacheL : List Expr → Bool
  | [] => true | a :: as => a.noCache && Expr.noCacheL as
def Expr.noCacheK : List (String × Expr) → Bool
  | [] => true | (_, a) :: as => a.noCache && Expr.noCacheK as
end

/-- Expressions that have an eager counterpart: no handles, no `lazy_result`. -/
def Expr.Plain (e : Expr) : Prop := e.leafAll noHandleP = true ∧ e.noLazy = true

/-- Expressions over pure callables only. -/
def Expr.Pure (e : Expr) : Prop := e.leafAll pureP = true

instance (e : Expr) : Decidable e.Plain := by unfold Expr.Plain; exact inferInstance
instance (e : Expr) : Decidable e.Pure := by unfold Expr.Pure; exact inferInstance

deriving instance DecidableEq for Except

/-! ### Monad facts -/

theorem bind_def {α β : Type} (m : M α) (f : α → M β) (s : St) :
    (m >>= f) s = match m s with
      | (.ok a, s') => f a s'
      | (.error e, s') => (.error e, s') := rfl

theorem bind_ok {α β : Type} {m : M α} {f : α → M β} {s s' : St} {a : α} (h : m s = (.ok a, s')) :
    (m >>= f) s = f a s' := by rw [bind_def, h]

theorem bind_err {α β : Type} {m : M α} {f : α → M β} {s s' : St} {e : Err} (h : m s = (.error e, s')) :
    (m >>= f) s = (.error e, s') := by rw [bind_def, h]

@[simp] theorem pure_run {α : Type} (a : α) (s : St) : (pure a : M α) s = (.ok a, s) := rfl
@[simp] theorem throw_run {α : Type} (e : Err) (s : St) : (M.throw e : M α) s = (.error e, s) := rfl

theorem makeVal_not_handle {r : RVal} (h : ∀ i, r.1 ≠ .handle i) : makeVal r = pure r := by
  obtain ⟨v, n⟩ := r
  cases v <;> simp_all [makeVal]

end MlModel.Lazy
