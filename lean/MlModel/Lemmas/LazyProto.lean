import MlModel.Lemmas.LazyCached
/-! The evaluator drives both caches only through textbook-LRU steps: every insertion happens when
the key is absent (after a miss for the `LazyFn` cache, a fresh id for the object cache). -/
namespace MlModel.Lazy
set_option linter.unusedSimpArgs false
set_option linter.unusedVariables false
open MlModel.Lru (Inv keysOf Spec.get Spec.put)

/-- `d'` is reached from `d` by steps of the textbook LRU of capacity `cap`: hits/lookups and
insertions of absent keys. -/
inductive TB {κ ν : Type} [DecidableEq κ] (cap : Nat) : List (κ × ν) → List (κ × ν) → Prop
  | refl (d) : TB cap d d
  | get {d d'} (k : κ) : TB cap d d' → TB cap d (Spec.get d' k)
  | put {d d'} (k : κ) (v : ν) : TB cap d d' → k ∉ keysOf d' → TB cap d (Spec.put cap d' k v)

theorem TB.trans {κ ν : Type} [DecidableEq κ] {cap : Nat} {a b c : List (κ × ν)}
    (h1 : TB cap a b) (h2 : TB cap b c) : TB cap a c := by
  induction h2 with
  | refl => exact h1
  | get k _ ih => exact TB.get k ih
  | put k v _ hk ih => exact TB.put k v ih hk

mutual
def Expr.size : Expr → Nat
  | .const _ => 1
  | .traced _ _ => 1
  | .call f as ks _ _ => 1 + f.size + Expr.sizeL as + Expr.sizeK ks
def Expr.sizeL : List Expr → Nat
  | [] => 0 | a :: as => a.size + Expr.sizeL as
def Expr.sizeK : List (String × Expr) → Nat
  | [] => 0 | (_, a) :: as => a.size + Expr.sizeK as
end

mutual
theorem key_size : ∀ e : Expr, e.key.size = e.size
  | .const _ => rfl
  | .traced _ _ => rfl
  | .call f as ks _ _ => by simp only [Expr.key, Expr.size, key_size f, keyL_size as, keyK_size ks]
theorem keyL_size : ∀ as : List Expr, Expr.sizeL (Expr.keyL as) = Expr.sizeL as
  | [] => rfl
  | a :: as => by simp only [Expr.keyL, Expr.sizeL, key_size a, keyL_size as]
theorem keyK_size : ∀ ks : List (String × Expr), Expr.sizeK (Expr.keyK ks) = Expr.sizeK ks
  | [] => rfl
  | (k, a) :: ks => by simp only [Expr.keyK, Expr.sizeK, key_size a, keyK_size ks]
end

/-- keys present afterwards were present before or are of size ≤ n -/
def Grow (n : Nat) (s s' : St) : Prop :=
  ∀ k ∈ keysOf s'.fnc.data, k ∈ keysOf s.fnc.data ∨ k.size ≤ n

structure Steps (n : Nat) (s s' : St) : Prop where
  fnc : TB s.fnc.maxsize s.fnc.data s'.fnc.data
  obj : TB s.obj.maxsize s.obj.data s'.obj.data
  grow : Grow n s s'

theorem Steps.refl (n : Nat) (s : St) : Steps n s s := ⟨TB.refl _, TB.refl _, fun k h => Or.inl h⟩

theorem Steps.trans {n : Nat} {a b c : St} (e : Ext a b) (h1 : Steps n a b) (h2 : Steps n b c) : Steps n a c := by
  refine ⟨h1.fnc.trans (by rw [← e.fmax]; exact h2.fnc), h1.obj.trans (by rw [← e.omax]; exact h2.obj), ?_⟩
  intro k hk
  rcases h2.grow k hk with h | h
  · exact h1.grow k h
  · exact Or.inr h

theorem Steps.mono {n m : Nat} {a b : St} (h : Steps n a b) (hnm : n ≤ m) : Steps m a b :=
  ⟨h.fnc, h.obj, fun k hk => (h.grow k hk).imp id (fun x => Nat.le_trans x hnm)⟩

def Proto {α : Type} (n : Nat) (m : M α) : Prop := ∀ s, Good s → Steps n s (m s).2

theorem Proto.mono {α : Type} {n k : Nat} {m : M α} (h : Proto n m) (hnk : n ≤ k) : Proto k m :=
  fun s hs => (h s hs).mono hnk

theorem proto_pure {α : Type} (n : Nat) (a : α) : Proto n (pure a : M α) := fun s _ => Steps.refl n s
theorem proto_throw {α : Type} (n : Nat) (e : Err) : Proto n (M.throw e : M α) := fun s _ => Steps.refl n s

theorem proto_bind {α β : Type} {n : Nat} {m : M α} {f : α → M β} (hm : Pres m) (pm : Proto n m)
    (pf : ∀ a, Proto n (f a)) : Proto n (m >>= f) := by
  intro s hs
  obtain ⟨g1, e1⟩ := hm s hs
  have p1 := pm s hs
  rw [bind_def]
  cases h : m s with
  | mk r s1 =>
    rw [h] at g1 e1 p1
    cases r with
    | error e => exact p1
    | ok a => exact Steps.trans e1 p1 (pf a s1 g1)

theorem proto_ite {α : Type} {n : Nat} {c : Prop} [Decidable c] {a b : M α} (ha : Proto n a) (hb : Proto n b) :
    Proto n (if c then a else b) := by split <;> assumption

theorem proto_fncGet (n : Nat) (k : Expr) : Proto n (fncGet k) := by
  intro s hs
  refine ⟨?_, TB.refl _, ?_⟩
  · have : (fncGet k s).2.fnc.data = Spec.get s.fnc.data k := Lru.getitem_data s.fnc k
    rw [this]; exact TB.get k (TB.refl _)
  · intro k' hk'
    obtain ⟨p, hp, rfl⟩ := List.mem_map.mp hk'
    exact Or.inl (List.mem_map.mpr ⟨p, mem_getitem _ _ _ hp, rfl⟩)

theorem proto_objGet (n : Nat) (id : Nat) : Proto n (objGet id) := by
  intro s hs
  rw [objGet_state]
  refine ⟨TB.refl _, ?_, fun k h => Or.inl h⟩
  have : (s.obj.getitem id).2.data = Spec.get s.obj.data id := Lru.getitem_data s.obj id
  simp only [this]; exact TB.get id (TB.refl _)

theorem proto_newHandle (n : Nat) (r : RVal) : Proto n (newHandle r) := by
  intro s hs
  have hfresh : s.nextId ∉ keysOf s.obj.data := fun h => Nat.lt_irrefl _ (hs.ids _ h)
  refine ⟨TB.refl _, ?_, fun k h => Or.inl h⟩
  have : (s.obj.setitem s.nextId r).data = Spec.put s.obj.maxsize s.obj.data s.nextId r :=
    (Lru.setitem_new hs.obj r hfresh).1
  simp only [newHandle, this]
  exact TB.put _ _ (TB.refl _) hfresh

theorem proto_liftLib (n : Nat) (name : String) (a : List RVal) (k : List (String × RVal)) :
    Proto n (liftLib name a k) := fun s _ => ⟨TB.refl _, TB.refl _, fun k h => Or.inl h⟩

theorem proto_makeVal (n : Nat) (r : RVal) : Proto n (makeVal r) := by
  obtain ⟨v, m⟩ := r
  cases v <;> first | exact proto_pure n _ | exact proto_objGet n _

theorem proto_makeVals (n : Nat) : ∀ l : List RVal, Proto n (makeVals l)
  | [] => proto_pure n _
  | r :: rs => proto_bind (pres_makeVal r) (proto_makeVal n r) fun a =>
      proto_bind (pres_makeVals rs) (proto_makeVals n rs) fun as => proto_pure n _

theorem proto_makeKws (n : Nat) : ∀ l : List (String × RVal), Proto n (makeKws l)
  | [] => proto_pure n _
  | (k, r) :: rs => proto_bind (pres_makeVal r) (proto_makeVal n r) fun a =>
      proto_bind (pres_makeKws rs) (proto_makeKws n rs) fun as => proto_pure n _

theorem proto_applyMake (n : Nat) (f : RVal) (a : List RVal) (k : List (String × RVal)) :
    Proto n (applyMake f a k) := by
  unfold applyMake
  split
  · apply proto_ite
    · exact proto_bind (pres_makeVals _) (proto_makeVals n _) fun a' =>
        proto_ite (proto_throw n _) (proto_bind (pres_liftLib _ _ _) (proto_liftLib n _ _ _) fun r => proto_makeVal n r)
    · exact proto_bind (pres_liftLib _ _ _) (proto_liftLib n _ _ _) fun r => proto_makeVal n r
  · refine proto_bind (pres_objGet _) (proto_objGet n _) fun v => ?_
    split
    · exact proto_bind (pres_makeVals _) (proto_makeVals n _) fun a' =>
        proto_bind (pres_makeKws _) (proto_makeKws n _) fun k' =>
        proto_ite (proto_throw n _)
          (proto_bind (pres_liftLib _ _ _) (proto_liftLib n _ _ _) fun r => proto_makeVal n r)
    · exact proto_throw n _
    · exact proto_throw n _
  · exact proto_throw n _

end MlModel.Lazy

namespace MlModel.Lazy
set_option linter.unusedSimpArgs false
set_option linter.unusedVariables false
open MlModel.Lru (Inv keysOf Spec.get Spec.put)

/-- storing under a key that is absent: one textbook `put` -/
theorem steps_fncSet {n : Nat} {k : Expr} (r : RVal) {s : St} (hs : Good s) (hk : k ∉ keysOf s.fnc.data)
    (hn : k.size ≤ n) : Steps n s (fncSet k r s).2 := by
  refine ⟨?_, TB.refl _, ?_⟩
  · have : (s.fnc.setitem k r).data = Spec.put s.fnc.maxsize s.fnc.data k r := (Lru.setitem_new hs.fnc r hk).1
    simp only [fncSet_run, this]
    exact TB.put _ _ (TB.refl _) hk
  · intro k' hk'
    obtain ⟨p, hp, rfl⟩ := List.mem_map.mp hk'
    rcases mem_setitem _ _ _ _ hp with h | h
    · exact Or.inl (List.mem_map.mpr ⟨p, h, rfl⟩)
    · rw [h]; exact Or.inr hn

mutual
theorem proto_eval : ∀ e : Expr, Proto e.size (eval e)
  | .const v => by simp only [eval]; exact proto_makeVal _ _
  | .traced v l => by simp only [eval]; exact proto_ite (proto_newHandle _ _) (proto_pure _ _)
  | .call f as ks c l => by
    have hsz : (Expr.call f as ks c l).size = 1 + (f.size + Expr.sizeL as + Expr.sizeK ks) := by
      simp only [Expr.size]; omega
    have hbody : Proto (f.size + Expr.sizeL as + Expr.sizeK ks) (callBody f as ks l) := by
      unfold callBody
      apply proto_ite
      · exact proto_ite (proto_newHandle _ _) (proto_pure _ _)
      · exact proto_bind (pres_eval f) ((proto_eval f).mono (by omega)) fun fv =>
          proto_ite (proto_throw _ _)
          (proto_bind (pres_evalArgs as) ((proto_evalArgs as).mono (by omega)) fun a =>
            proto_bind (pres_evalKw ks) ((proto_evalKw ks).mono (by omega)) fun k =>
            proto_bind (pres_applyMake _ _ _) (proto_applyMake _ _ _ _) fun r =>
              proto_ite (proto_newHandle _ _) (proto_pure _ _))
    rw [eval_call, hsz]
    cases c with
    | false => simp only [Bool.false_eq_true, if_false]; exact hbody.mono (by omega)
    | true =>
      simp only [if_true]
      intro s hs
      rw [bind_ok (fncGet_run _ s)]
      obtain ⟨g0, e0⟩ := pres_fncGet (Expr.call f as ks true l).key s hs
      have p0 := proto_fncGet (1 + (f.size + Expr.sizeL as + Expr.sizeK ks)) (Expr.call f as ks true l).key s hs
      rw [fncGet_run] at g0 e0 p0
      simp only at g0 e0 p0
      cases hres : (s.fnc.getitem (Expr.call f as ks true l).key).1 with
      | some rv => simpa using p0
      | none =>
        simp only
        have hmiss : Lru.find? s.fnc.data (Expr.call f as ks true l).key = none := by
          rw [← Lru.getitem_result]; exact hres
        have hdata : (s.fnc.getitem (Expr.call f as ks true l).key).2.data = s.fnc.data := by
          unfold Lru.Cache.getitem; simp [hmiss]
        have hk0 : (Expr.call f as ks true l).key ∉
            keysOf ({ s with fnc := (s.fnc.getitem (Expr.call f as ks true l).key).2 } : St).fnc.data := by
          simp only [hdata]; exact (Lru.find?_none_iff _ _).mp hmiss
        obtain ⟨g1, e1⟩ := pres_callBody f as ks l _ g0
        have p1 := (hbody _ g0).mono (Nat.le_add_left _ 1)
        cases hb : callBody f as ks l { s with fnc := (s.fnc.getitem (Expr.call f as ks true l).key).2 } with
        | mk r1 s1 =>
          rw [hb] at g1 e1 p1
          have hgrow := hbody _ g0
          rw [hb] at hgrow
          cases r1 with
          | error e => rw [bind_err hb]; exact Steps.trans e0 p0 p1
          | ok rv =>
            rw [bind_ok hb, bind_ok (fncSet_run _ rv s1)]
            simp only [pure_run]
            have hk1 : (Expr.call f as ks true l).key ∉ keysOf s1.fnc.data := by
              intro hin
              rcases hgrow.grow _ hin with h | h
              · exact hk0 h
              · rw [key_size, Expr.size] at h; omega
            have p2 := steps_fncSet (n := 1 + (f.size + Expr.sizeL as + Expr.sizeK ks)) rv g1 hk1
              (by rw [key_size, Expr.size]; omega)
            rw [fncSet_run] at p2
            exact Steps.trans e0 p0 (Steps.trans e1 p1 p2)
theorem proto_evalArgs : ∀ as : List Expr, Proto (Expr.sizeL as) (evalArgs as)
  | [] => by simp only [evalArgs]; exact proto_pure _ _
  | a :: as => by
    simp only [evalArgs, Expr.sizeL]
    exact proto_bind (pres_eval a) ((proto_eval a).mono (by omega)) fun v =>
      proto_bind (pres_evalArgs as) ((proto_evalArgs as).mono (by omega)) fun vs => proto_pure _ _
theorem proto_evalKw : ∀ ks : List (String × Expr), Proto (Expr.sizeK ks) (evalKw ks)
  | [] => by simp only [evalKw]; exact proto_pure _ _
  | (k, a) :: ks => by
    simp only [evalKw, Expr.sizeK]
    exact proto_bind (pres_eval a) ((proto_eval a).mono (by omega)) fun v =>
      proto_bind (pres_evalKw ks) ((proto_evalKw ks).mono (by omega)) fun vs => proto_pure _ _
end

end MlModel.Lazy
