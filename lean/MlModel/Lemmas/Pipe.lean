import MlModel.Model.Pipe
/-! Lemmas about the pipeline model: list helpers, the output-routing equivalence
(`_normalize_outputs` ∘ `_get_outputs` = `Ref.write`), the un-batched normal form of
`TreeFn._iterate`, the `_TeeIterator` alignment, and operator-level refinement. -/
set_option linter.unusedSimpArgs false
namespace MlModel.Pipe
open MlModel.Iter

/-! ## list helpers -/

theorem countOk_append (a b : List (Ev Val)) : Impl.countOk (a ++ b) = Impl.countOk a + Impl.countOk b := by
  induction a with
  | nil => simp [Impl.countOk]
  | cons x xs ih =>
    cases x with
    | ok v => simp [Impl.countOk, ih]; omega
    | error e => simp [Impl.countOk, ih]

theorem oks_append {α : Type} (a b : List (Ev α)) : oks (a ++ b) = oks a ++ oks b := by
  induction a with
  | nil => simp [oks]
  | cons x xs ih =>
    cases x with
    | ok v => simp [oks, ih]
    | error e => simp [oks, ih]

theorem oks_length (a : List (Ev Val)) : (oks a).length = Impl.countOk a := by
  induction a with
  | nil => simp [oks, Impl.countOk]
  | cons x xs ih =>
    cases x with
    | ok v => simp [oks, Impl.countOk, ih]
    | error e => simp [oks, Impl.countOk, ih]

theorem take_append_succ {α : Type} (pre : List α) (x : α) (rest : List α) :
    (pre ++ x :: rest).take (pre.length + 1) = pre ++ [x] := by
  induction pre with
  | nil => simp
  | cons p ps ih => simpa using ih

theorem oks_getD_mid (pre rest : List (Ev Val)) (r : Val) :
    (oks (pre ++ .ok r :: rest)).getD (Impl.countOk pre) .none = r := by
  rw [oks_append, ← oks_length]
  simp [oks]

theorem oks_getElem_mid (pre rest : List (Ev Val)) (r : Val) :
    (oks (pre ++ .ok r :: rest))[Impl.countOk pre]?.getD .none = r := by
  have := oks_getD_mid pre rest r
  simpa using this

/-! ## output routing: `_get_outputs ∘ _normalize_outputs` = `Ref.write` -/

theorem setOne_eq_route (tree : Val) (k : OutKey) (o : Val) : setOne tree k o = Ref.route tree k o := by
  cases k with
  | dict items => simp [setOne, Ref.route]
  | key k =>
    cases k with
    | skip => simp [setOne, Ref.route, setKey, skipFixed]
    | self => simp [setOne, Ref.route, setKey]
    | name s => simp [setOne, Ref.route]
    | index i => simp [setOne, Ref.route]
    | path p => simp [setOne, Ref.route]
    | lit v => simp [setOne, Ref.route]

theorem setZip_eq_routeAll (tree : Val) (ks : List OutKey) (os : List Val) :
    setZip tree ks os = Ref.routeAll tree ks os := by
  induction ks generalizing tree os with
  | nil => cases os <;> simp [setZip, Ref.routeAll]
  | cons k ks ih =>
    cases os with
    | nil => simp [setZip, Ref.routeAll]
    | cons o os =>
      simp only [setZip, Ref.routeAll, setOne_eq_route]
      cases Ref.route tree k o with
      | error e => rfl
      | ok t => simp [ih]

/-- `SELF` is never the first of several output keys (the builder enforces this for `assign`:
'Cannot mix SELF with other keys') -/
def SelfAlone (op : Op) : Prop :=
  ∀ k k' rest, op.outKeys = k :: k' :: rest → k.isSelf = false

theorem normalizeOutputs_eq (op : Op) (v : Val) : normalizeOutputs op v = .ok (normOuts op v) := by
  simp [normalizeOutputs, f9Fixed]

theorem getOutputs_normOuts (op : Op) (h : SelfAlone op) (base v : Val) :
    getOutputs op base (normOuts op v) = Ref.write op base v := by
  unfold getOutputs normOuts Ref.write
  rcases hk : op.outKeys with _ | ⟨k, _ | ⟨k', rest⟩⟩
  · -- no output keys
    simp only [setZip_eq_routeAll]
  · -- one key
    cases hv : outputsOf v with
    | nil => simp [setZip_eq_routeAll]
    | cons a as =>
      cases as with
      | nil => simp [setZip_eq_routeAll]
      | cons b bs =>
        cases k with
        | dict items => simp [getOutputs, hk, OutKey.isSelf]
        | key k =>
          cases k with
          | self => simp [OutKey.isSelf, Key.isSelf, setZip, setOne, setKey, Ref.route, bind, Except.bind]
          | skip => simp [OutKey.isSelf, Key.isSelf, ← setOne_eq_route, setOne]
          | name s => simp [OutKey.isSelf, Key.isSelf, Ref.route]
          | index i => simp [OutKey.isSelf, Key.isSelf, Ref.route]
          | path p => simp [OutKey.isSelf, Key.isSelf, Ref.route]
          | lit x => simp [OutKey.isSelf, Key.isSelf, Ref.route]
  · -- several keys: the first is not SELF
    have hs := h k k' rest hk
    simp only [hs, Bool.false_and, setZip_eq_routeAll]
    cases hv : outputsOf v with
    | nil => simp
    | cons a as => cases as <;> simp

/-! ## the un-batched normal form of `TreeFn._iterate` -/

@[simp] theorem liftErr_ok {α : Type} (a : α) : liftErr (.ok a : Except ErrKind α) = .ok a := rfl
@[simp] theorem liftErr_error {α : Type} (k : ErrKind) :
    liftErr (.error k : Except ErrKind α) = .error { kind := k } := rfl

/-- one record through `_get_inputs`, `_maybe_call_fn`, `_normalize_outputs` -/
def inner1 (op : Op) (s : Nat) (r : Val) : Ev (List Val) × Nat :=
  match Ref.semCall op s r with
  | (.ok v, s') => (.ok (normOuts op v), s')
  | (.error e, s') => (.error e, s')

/-- the events of an un-batched `_iterate` over the source events `src` (the `k`-th onwards) -/
def innerEvs (guard : Bool) (op : Op) : Nat → Nat → List (Ev Val) → List (Impl.AEv (List Val))
  | _, _, [] => []
  | s, k, .error e :: rest =>
    if guard && e.ignorable then innerEvs guard op s (k + 1) rest
    else ⟨.error e, k + 1⟩ :: innerEvs guard op s (k + 1) rest
  | s, k, .ok r :: rest =>
    match inner1 op s r with
    | (.ok outs, s') => ⟨.ok outs, k + 1⟩ :: innerEvs guard op s' (k + 1) rest
    | (.error e, s') =>
      if guard && e.ignorable then innerEvs guard op s' (k + 1) rest
      else ⟨.error e, k + 1⟩ :: innerEvs guard op s' (k + 1) rest

theorem layers_unbatched (guard : Bool) (op : Op) (s k : Nat) (src : List (Ev Val)) :
    Impl.aMap (fun v => liftErr (normalizeOutputs op v))
      (if guard then Impl.dropIgnorable (Impl.callLayer op s (Impl.aMap (fun r => liftErr (getInputs op r)) (Impl.annot k src)))
       else Impl.callLayer op s (Impl.aMap (fun r => liftErr (getInputs op r)) (Impl.annot k src)))
    = innerEvs guard op s k src := by
  simp only [normalizeOutputs_eq, liftErr_ok]
  induction src generalizing s k with
  | nil => cases guard <;> simp [Impl.annot, Impl.aMap, Impl.callLayer, Impl.dropIgnorable, innerEvs]
  | cons ev rest ih =>
    cases ev with
    | error e =>
      cases guard with
      | false =>
        have := ih s (k + 1)
        simp only [Bool.false_eq_true, if_false] at this
        simp [Impl.annot, Impl.aMap, Impl.callLayer, innerEvs, this]
      | true =>
        have := ih s (k + 1)
        simp only [if_true] at this
        by_cases hi : e.ignorable = true
        · simp [Impl.annot, Impl.aMap, Impl.callLayer, Impl.dropIgnorable, innerEvs, hi, this]
        · simp [Impl.annot, Impl.aMap, Impl.callLayer, Impl.dropIgnorable, innerEvs, hi, this]
    | ok r =>
      cases hg : getInputs op r with
      | error kd =>
        have h1 : inner1 op s r = (.error { kind := kd }, s) := by simp [inner1, Ref.semCall, hg]
        cases guard with
        | false =>
          have := ih s (k + 1)
          simp only [Bool.false_eq_true, if_false] at this
          simp [Impl.annot, Impl.aMap, Impl.callLayer, innerEvs, this, hg, h1]
        | true =>
          have := ih s (k + 1)
          simp only [if_true] at this
          by_cases hi : ({ kind := kd } : Err).ignorable = true
          · simp [Impl.annot, Impl.aMap, Impl.callLayer, Impl.dropIgnorable, innerEvs, hi, this, hg, h1]
          · simp [Impl.annot, Impl.aMap, Impl.callLayer, Impl.dropIgnorable, innerEvs, hi, this, hg, h1]
      | ok ins =>
        rcases hc : callFn op s ins with ⟨res, s'⟩
        cases res with
        | error e =>
          have h1 : inner1 op s r = (.error e, s') := by simp [inner1, Ref.semCall, hg, hc]
          cases guard with
          | false =>
            have := ih s' (k + 1)
            simp only [Bool.false_eq_true, if_false] at this
            simp [Impl.annot, Impl.aMap, Impl.callLayer, innerEvs, this, hg, h1, hc]
          | true =>
            have := ih s' (k + 1)
            simp only [if_true] at this
            by_cases hi : e.ignorable = true
            · simp [Impl.annot, Impl.aMap, Impl.callLayer, Impl.dropIgnorable, innerEvs, hi, this, hg, h1, hc]
            · simp [Impl.annot, Impl.aMap, Impl.callLayer, Impl.dropIgnorable, innerEvs, hi, this, hg, h1, hc]
        | ok v =>
          have h1 : inner1 op s r = (.ok (normOuts op v), s') := by simp [inner1, Ref.semCall, hg, hc]
          cases guard with
          | false =>
            have := ih s' (k + 1)
            simp only [Bool.false_eq_true, if_false] at this
            simp [Impl.annot, Impl.aMap, Impl.callLayer, innerEvs, this, hg, h1, hc, normalizeOutputs_eq]
          | true =>
            have := ih s' (k + 1)
            simp only [if_true] at this
            simp [Impl.annot, Impl.aMap, Impl.callLayer, Impl.dropIgnorable, innerEvs, this, hg, h1, hc, normalizeOutputs_eq]

/-- the events of an un-batched, un-guarded `_iterate` behind `processed_with_inputs`: over the source
seen through the `iter_ignore_error` wrapper (`Impl.annotSkip skip`) — a skippable failing read of the
source is not an event of this iterator, a failing call is -/
def innerEvsT (skip : Bool) (op : Op) : Nat → Nat → List (Ev Val) → List (Impl.AEv (List Val))
  | _, _, [] => []
  | s, k, .error e :: rest =>
    if skip && e.ignorable then innerEvsT skip op s (k + 1) rest
    else ⟨.error e, k + 1⟩ :: innerEvsT skip op s (k + 1) rest
  | s, k, .ok r :: rest =>
    match inner1 op s r with
    | (.ok outs, s') => ⟨.ok outs, k + 1⟩ :: innerEvsT skip op s' (k + 1) rest
    | (.error e, s') => ⟨.error e, k + 1⟩ :: innerEvsT skip op s' (k + 1) rest

theorem layers_unbatchedT (skip : Bool) (op : Op) (s k : Nat) (src : List (Ev Val)) :
    Impl.aMap (fun v => liftErr (normalizeOutputs op v))
      (Impl.callLayer op s (Impl.aMap (fun r => liftErr (getInputs op r)) (Impl.annotSkip skip k src)))
    = innerEvsT skip op s k src := by
  simp only [normalizeOutputs_eq, liftErr_ok]
  induction src generalizing s k with
  | nil => simp [Impl.annotSkip, Impl.aMap, Impl.callLayer, innerEvsT]
  | cons ev rest ih =>
    cases ev with
    | error e =>
      by_cases hi : (skip && e.ignorable) = true
      · simp [Impl.annotSkip, innerEvsT, hi, ih]
      · simp [Impl.annotSkip, Impl.aMap, Impl.callLayer, innerEvsT, hi, ih]
    | ok r =>
      cases hg : getInputs op r with
      | error kd =>
        have h1 : inner1 op s r = (.error { kind := kd }, s) := by simp [inner1, Ref.semCall, hg]
        simp [Impl.annotSkip, Impl.aMap, Impl.callLayer, innerEvsT, ih, hg, h1]
      | ok ins =>
        rcases hc : callFn op s ins with ⟨res, s'⟩
        cases res with
        | error e =>
          have h1 : inner1 op s r = (.error e, s') := by simp [inner1, Ref.semCall, hg, hc]
          simp [Impl.annotSkip, Impl.aMap, Impl.callLayer, innerEvsT, ih, hg, h1, hc]
        | ok v =>
          have h1 : inner1 op s r = (.ok (normOuts op v), s') := by simp [inner1, Ref.semCall, hg, hc]
          simp [Impl.annotSkip, Impl.aMap, Impl.callLayer, innerEvsT, ih, hg, h1, hc, normalizeOutputs_eq]

/-! ## `processed_with_inputs`: the `_TeeIterator` FIFO stays aligned for a 1:1 `process_fn` -/

/-- what `processed_with_inputs` must deliver for an un-batched operator: every output next to the
record it was computed from; a record whose processing raised a skippable error is left out when
`skip` is on — and so is a skippable failing read of the *source* (the repaired code, finding
F-C12-passed-on; the unrepaired code ended here with `IndexError('No element left')`: the `_SKIP`
marker found the FIFO empty). -/
def paired (skip : Bool) (op : Op) : Nat → Nat → List (Ev Val) → List (Impl.AEv (List Val × Val))
  | _, _, [] => []
  | s, k, .error e :: rest =>
    if skip && e.ignorable then paired skip op s (k + 1) rest else [⟨.error e, k + 1⟩]
  | s, k, .ok r :: rest =>
    match inner1 op s r with
    | (.ok outs, s') => ⟨.ok (outs, r), k + 1⟩ :: paired skip op s' (k + 1) rest
    | (.error e, s') =>
      if skip && e.ignorable then paired skip op s' (k + 1) rest else [⟨.error e, k + 1⟩]

theorem pwi_aligned (skip : Bool) (op : Op) (s : Nat) (pre suf : List (Ev Val)) :
    Impl.pwi skip (pre ++ suf) (Impl.countOk pre) (innerEvsT skip op s pre.length suf)
      = paired skip op s pre.length suf := by
  induction suf generalizing pre s with
  | nil => simp [innerEvsT, Impl.pwi, paired]
  | cons ev rest ih =>
    have htake : (pre ++ ev :: rest).take (pre.length + 1) = pre ++ [ev] := take_append_succ pre ev rest
    have hlen : ¬ (pre.length + 1 > (pre ++ ev :: rest).length) := by simp
    have hpre : pre ++ ev :: rest = (pre ++ [ev]) ++ rest := by simp
    have hl' : (pre ++ [ev]).length = pre.length + 1 := by simp
    cases ev with
    | error e =>
      have hc : Impl.countOk (pre ++ [Except.error e]) = Impl.countOk pre := by
        simp [countOk_append, Impl.countOk]
      by_cases hs : (skip && e.ignorable) = true
      · have ih' := ih s (pre ++ [Except.error e])
        rw [← hpre, hc, hl'] at ih'
        simp [innerEvsT, paired, hs, ih']
      · simp [innerEvsT, Impl.pwi, paired, hs]
    | ok r =>
      have hc : Impl.countOk (pre ++ [Except.ok r]) = Impl.countOk pre + 1 := by
        simp [countOk_append, Impl.countOk]
      have ih' := ih s (pre ++ [Except.ok r])
      rcases h1 : inner1 op s r with ⟨res, s'⟩
      have ih' := ih s' (pre ++ [Except.ok r])
      rw [← hpre, hc, hl'] at ih'
      cases res with
      | ok outs =>
        simp [innerEvsT, Impl.pwi, paired, h1, htake, hc, oks_getElem_mid, ih']
      | error e =>
        by_cases hs : (skip && e.ignorable) = true
        · simp [innerEvsT, Impl.pwi, paired, h1, hs, htake, hc, ih']
        · simp [innerEvsT, Impl.pwi, paired, h1, hs]

/-! ## operator-level refinement (un-batched operators) -/

theorem iterate_unbatched (guard : Bool) (op : Op) (hb : op.fnBatch = 0 ∧ op.batch = 0)
    (k e : Nat) (src : List (Ev Val)) :
    (Impl.iterate guard op ⟨Impl.annot k src, e⟩).evs = innerEvs guard op op.s0 k src := by
  unfold Impl.iterate Impl.maybeRebatch
  simp only [hb.1, hb.2, if_true]
  exact layers_unbatched guard op op.s0 k src

theorem iterate_unbatchedT (skip : Bool) (op : Op) (hb : op.fnBatch = 0 ∧ op.batch = 0)
    (k e : Nat) (src : List (Ev Val)) :
    (Impl.iterate false op ⟨Impl.annotSkip skip k src, e⟩).evs = innerEvsT skip op op.s0 k src := by
  unfold Impl.iterate Impl.maybeRebatch
  simp only [hb.1, hb.2, if_true, Bool.false_eq_true, if_false]
  exact layers_unbatchedT skip op op.s0 k src

theorem clean_tail {ignore : Bool} {ev : Ev Val} {rest : List (Ev Val)}
    (h : Ref.Clean ignore (ev :: rest)) : Ref.Clean ignore rest :=
  fun e he => h e (List.mem_cons_of_mem _ he)

theorem clean_head {ignore : Bool} {e : Err} {rest : List (Ev Val)}
    (h : Ref.Clean ignore (.error e :: rest)) : terminal ignore e = true :=
  h e (List.mem_cons_self ..)

theorem not_skip_of_terminal {ignore : Bool} {e : Err} (h : terminal ignore e = true) :
    (ignore && e.ignorable) = false := by
  cases ignore <;> cases hi : e.ignorable <;> simp_all [terminal]

theorem skip_of_not_terminal {ignore : Bool} {e : Err} (h : ¬ terminal ignore e = true) :
    (ignore && e.ignorable) = true := by
  cases ignore <;> cases hi : e.ignorable <;> simp_all [terminal]

/-- `apply` / `select`: `map(_get_outputs, _iterate(..))` -/
theorem apply_spec (ignore : Bool) (op : Op) (hk : op.kind = .select ∨ op.kind = .apply)
    (hself : SelfAlone op) (s k : Nat) (src : List (Ev Val)) (hc : Ref.Clean ignore src) :
    (Impl.aCut ignore (Impl.aMap (fun outs => liftErr (getOutputs op .null outs))
        (innerEvs ignore op s k (cutTerminal ignore src)))).map (·.ev)
      = Ref.opEvents ignore op s src := by
  induction src generalizing s k with
  | nil => simp [cutTerminal, innerEvs, Impl.aMap, Impl.aCut, Ref.opEvents]
  | cons ev rest ih =>
    have ih := fun s k => ih s k (clean_tail hc)
    cases ev with
    | error e =>
      have ht := clean_head hc
      simp [cutTerminal, innerEvs, Impl.aMap, Impl.aCut, Ref.opEvents, ht, not_skip_of_terminal ht]
    | ok r =>
      rcases hs : Ref.semCall op s r with ⟨res, s'⟩
      cases res with
      | error e =>
        have h1 : inner1 op s r = (.error e, s') := by simp [inner1, hs]
        by_cases ht : terminal ignore e = true
        · simp [cutTerminal, innerEvs, Impl.aMap, Impl.aCut, Ref.opEvents, h1, hs, ht, not_skip_of_terminal ht]
        · simp [cutTerminal, innerEvs, Impl.aMap, Impl.aCut, Ref.opEvents, h1, hs, ht, skip_of_not_terminal ht, ih]
      | ok v =>
        have h1 : inner1 op s r = (.ok (normOuts op v), s') := by simp [inner1, hs]
        have hw : Ref.semWrite op r v = (liftErr (Ref.write op .null v)).map some := by
          rcases hk with hk | hk <;> simp [Ref.semWrite, hk]
        cases hwr : Ref.write op .null v with
        | error kd =>
          by_cases ht : terminal ignore ({ kind := kd } : Err) = true
          · simp [cutTerminal, innerEvs, Impl.aMap, Impl.aCut, Ref.opEvents, h1, hs, hw, hwr,
              getOutputs_normOuts op hself, ht, Except.map]
          · simp [cutTerminal, innerEvs, Impl.aMap, Impl.aCut, Ref.opEvents, h1, hs, hw, hwr,
              getOutputs_normOuts op hself, ht, Except.map, ih]
        | ok x =>
          simp [cutTerminal, innerEvs, Impl.aMap, Impl.aCut, Ref.opEvents, h1, hs, hw, hwr,
            getOutputs_normOuts op hself, Except.map, ih]

/-- `assign` / `sink`: a resumable map over `processed_with_inputs` -/
theorem paired_map_spec (ignore : Bool) (op : Op) (g : List Val × Val → Ev Val)
    (hg : ∀ r v, Ref.semWrite op r v = (g (normOuts op v, r)).map some)
    (s k : Nat) (src : List (Ev Val)) (hc : Ref.Clean ignore src) :
    (Impl.aCut ignore (Impl.aMap g (paired ignore op s k (cutTerminal ignore src)))).map (·.ev)
      = Ref.opEvents ignore op s src := by
  induction src generalizing s k with
  | nil => simp [cutTerminal, paired, Impl.aMap, Impl.aCut, Ref.opEvents]
  | cons ev rest ih =>
    have ih := fun s k => ih s k (clean_tail hc)
    cases ev with
    | error e =>
      have ht := clean_head hc
      simp [cutTerminal, paired, Impl.aMap, Impl.aCut, Ref.opEvents, ht, not_skip_of_terminal ht]
    | ok r =>
      rcases hs : Ref.semCall op s r with ⟨res, s'⟩
      cases res with
      | error e =>
        have h1 : inner1 op s r = (.error e, s') := by simp [inner1, hs]
        by_cases ht : terminal ignore e = true
        · simp [cutTerminal, paired, Impl.aMap, Impl.aCut, Ref.opEvents, h1, hs, ht, not_skip_of_terminal ht]
        · simp [cutTerminal, paired, Impl.aMap, Impl.aCut, Ref.opEvents, h1, hs, ht, skip_of_not_terminal ht, ih]
      | ok v =>
        have h1 : inner1 op s r = (.ok (normOuts op v), s') := by simp [inner1, hs]
        have hw := hg r v
        cases hgr : g (normOuts op v, r) with
        | error e =>
          by_cases ht : terminal ignore e = true
          · simp [cutTerminal, paired, Impl.aMap, Impl.aCut, Ref.opEvents, h1, hs, hw, hgr, ht, Except.map]
          · simp [cutTerminal, paired, Impl.aMap, Impl.aCut, Ref.opEvents, h1, hs, hw, hgr, ht, Except.map, ih]
        | ok x =>
          simp [cutTerminal, paired, Impl.aMap, Impl.aCut, Ref.opEvents, h1, hs, hw, hgr, Except.map, ih]

/-- the function of the operator never returns a tuple (a predicate returns one truth value) -/
def NoTuple (op : Op) : Prop :=
  ∀ s ins v s', callFn op s ins = (.ok v, s') → ∀ xs, v ≠ .tuple xs

theorem normOuts_nontuple (op : Op) (v : Val) (h : ∀ xs, v ≠ .tuple xs) : normOuts op v = [v] := by
  have ho : outputsOf v = [v] := by
    unfold outputsOf
    split
    · exact absurd rfl (h _)
    · rfl
  unfold normOuts
  cases op.outKeys with
  | nil => simp [ho]
  | cons k ks => simp [ho]

/-- `filter`: the generator expression over `processed_with_inputs` -/
theorem filter_spec (ignore : Bool) (op : Op) (hk : op.kind = .filter) (hnt : NoTuple op)
    (s k : Nat) (src : List (Ev Val)) (hc : Ref.Clean ignore src) :
    (Impl.aCut ignore (Impl.filterGen (paired ignore op s k (cutTerminal ignore src)))).map (·.ev)
      = Ref.opEvents ignore op s src := by
  induction src generalizing s k with
  | nil => simp [cutTerminal, paired, Impl.filterGen, Impl.aCut, Ref.opEvents]
  | cons ev rest ih =>
    have ih := fun s k => ih s k (clean_tail hc)
    cases ev with
    | error e =>
      have ht := clean_head hc
      simp [cutTerminal, paired, Impl.filterGen, Impl.aCut, Ref.opEvents, ht, not_skip_of_terminal ht]
    | ok r =>
      rcases hs : Ref.semCall op s r with ⟨res, s'⟩
      cases res with
      | error e =>
        have h1 : inner1 op s r = (.error e, s') := by simp [inner1, hs]
        by_cases ht : terminal ignore e = true
        · simp [cutTerminal, paired, Impl.filterGen, Impl.aCut, Ref.opEvents, h1, hs, ht, not_skip_of_terminal ht]
        · simp [cutTerminal, paired, Impl.filterGen, Impl.aCut, Ref.opEvents, h1, hs, ht, skip_of_not_terminal ht, ih]
      | ok v =>
        have hv : ∀ xs, v ≠ .tuple xs := by
          unfold Ref.semCall at hs
          cases hgi : getInputs op r with
          | error kd => simp [hgi] at hs
          | ok ins => rw [hgi] at hs; exact hnt s ins v s' hs
        have h1 : inner1 op s r = (.ok [v], s') := by simp [inner1, hs, normOuts_nontuple op v hv]
        by_cases hb : v.truthy = true
        · simp [cutTerminal, paired, Impl.filterGen, Impl.aCut, Ref.opEvents, h1, hs, Ref.semWrite, hk, hb, ih]
        · simp [cutTerminal, paired, Impl.filterGen, Impl.aCut, Ref.opEvents, h1, hs, Ref.semWrite, hk, hb, ih]

/-- what the refinement assumes of one operator -/
structure OpOK (op : Op) : Prop where
  /-- no `fn_batch_size` / `batch_size` (operators with batch sizes: `BatchedOK`, Lemmas/PipeBatch.lean) -/
  unbatched : op.fnBatch = 0 ∧ op.batch = 0
  selfAlone : SelfAlone op
  /-- a predicate returns one truth value, never a tuple -/
  pred : op.kind = .filter → NoTuple op

theorem pwi_aligned0 (skip : Bool) (op : Op) (s : Nat) (src : List (Ev Val)) :
    Impl.pwi skip src 0 (innerEvsT skip op s 0 src) = paired skip op s 0 src := by
  have := pwi_aligned skip op s [] src
  simpa [Impl.countOk] using this

theorem opIterate_spec (ignore : Bool) (op : Op) (h : OpOK op) (src : List (Ev Val))
    (hc : Ref.Clean ignore src) :
    (Impl.opIterate ignore op src).evs.map (·.ev) = Ref.opEvents ignore op op.s0 src := by
  unfold Impl.opIterate
  cases hk : op.kind with
  | select =>
    simp only [iterate_unbatched _ op h.unbatched]
    exact apply_spec ignore op (Or.inl hk) h.selfAlone op.s0 0 src hc
  | apply =>
    simp only [iterate_unbatched _ op h.unbatched]
    exact apply_spec ignore op (Or.inr hk) h.selfAlone op.s0 0 src hc
  | assign =>
    simp only [Impl.passedOnFixed, Bool.and_true, iterate_unbatchedT _ op h.unbatched, pwi_aligned0]
    refine paired_map_spec ignore op _ ?_ op.s0 0 src hc
    intro r v
    simp [Ref.semWrite, hk, getOutputs_normOuts op h.selfAlone]
  | filter =>
    simp only [Impl.passedOnFixed, Impl.f17Fixed, Bool.and_true, iterate_unbatchedT _ op h.unbatched, pwi_aligned0]
    exact filter_spec ignore op hk (h.pred hk) op.s0 0 src hc
  | sink =>
    simp only [Impl.passedOnFixed, Bool.and_true, iterate_unbatchedT _ op h.unbatched, pwi_aligned0]
    refine paired_map_spec ignore op _ ?_ op.s0 0 src hc
    intro r v
    simp [Ref.semWrite, hk, Except.map]

/-- the runner's fold of `fn.iterate` = the reference's fold of `sem` lifted to streams -/
theorem topEvents_spec (ignore : Bool) (ops : List Op) (hops : ∀ op ∈ ops, OpOK op)
    (src : List (Ev Val)) (hc : Ref.CleanRun ignore ops src) :
    Impl.topEvents ignore ops src = Ref.chainEvents ignore ops src := by
  induction ops generalizing src with
  | nil => rfl
  | cons op ops ih =>
    have hop := hops op (List.mem_cons_self ..)
    have hrest : ∀ o ∈ ops, OpOK o := fun o ho => hops o (List.mem_cons_of_mem _ ho)
    simp only [Impl.topEvents, Ref.chainEvents, opIterate_spec ignore op hop src hc.1]
    exact ih hrest _ hc.2

/-- with skipping off every error is terminal: the run is clean whatever happens -/
theorem clean_false (evs : List (Ev Val)) : Ref.Clean false evs := by
  intro e _; simp [terminal]

theorem cleanRun_false (ops : List Op) (src : List (Ev Val)) : Ref.CleanRun false ops src := by
  induction ops generalizing src with
  | nil => exact clean_false src
  | cons op ops ih => exact ⟨clean_false src, ih _⟩

/-! ## `processed_with_inputs` for an arbitrary 1:1 `process_fn` -/

/-- the events of an iterator that yields `os` while its source hands out one record per output
(`used` = position + 1), starting behind `k` records -/
def tagFrom {β : Type} : Nat → List β → List (Impl.AEv β)
  | _, [] => []
  | k, o :: os => ⟨.ok o, k + 1⟩ :: tagFrom (k + 1) os

theorem pwi_tagged (skip : Bool) (pre : List (Ev Val)) (rs : List Val) (outs : List (List Val))
    (h : outs.length = rs.length) :
    Impl.pwi skip (pre ++ rs.map .ok) (Impl.countOk pre) (tagFrom pre.length outs)
      = tagFrom pre.length (outs.zip rs) := by
  induction rs generalizing pre outs with
  | nil =>
    cases outs with
    | nil => simp [tagFrom, Impl.pwi]
    | cons o os => simp at h
  | cons r rs ih =>
    cases outs with
    | nil => simp at h
    | cons o os =>
      have hlen : os.length = rs.length := by simpa using h
      have htake : (pre ++ Except.ok r :: rs.map Except.ok).take (pre.length + 1) = pre ++ [Except.ok r] :=
        take_append_succ pre _ _
      have hc : Impl.countOk (pre ++ [Except.ok r]) = Impl.countOk pre + 1 := by
        simp [countOk_append, Impl.countOk]
      have ih' := ih (pre ++ [Except.ok r]) os hlen
      have hpre : pre ++ Except.ok r :: rs.map Except.ok = (pre ++ [Except.ok r]) ++ rs.map Except.ok := by simp
      have hl' : (pre ++ [Except.ok r]).length = pre.length + 1 := by simp
      rw [← hpre, hc, hl'] at ih'
      simp [tagFrom, Impl.pwi, htake, hc, oks_getElem_mid, ih']

/-! ## `assign` on a dict record with plain names: the frame -/

theorem lookup_upsert (m n : String) (v : Val) (kvs : List (String × Val)) :
    lookup m (upsert n v kvs) = if m = n then some v else lookup m kvs := by
  induction kvs with
  | nil => by_cases h : m = n <;> simp [upsert, lookup, h, eq_comm]
  | cons kv rest ih =>
    obtain ⟨k, w⟩ := kv
    by_cases hk : k = n
    · by_cases h : m = n
      · simp [upsert, lookup, hk, h]
      · have : ¬ n = m := fun e => h e.symm
        simp [upsert, lookup, hk, h, this]
    · by_cases h : m = n
      · subst h
        simp [upsert, lookup, hk, ih]
      · by_cases hkm : k = m
        · simp [upsert, lookup, hk, h, hkm]
        · simp [upsert, lookup, hk, h, hkm, ih]

theorem setPath_dict_name (kvs : List (String × Val)) (n : String) (v : Val) :
    setPath (.dict kvs) [.name n] v = .ok (.dict (upsert n v kvs)) := by
  simp [setPath, asKeyError, bind, Except.bind]

/-- the result of assigning `outs` to the plain names `names` of a dict, left to right -/
def assignFlat (kvs : List (String × Val)) : List String → List Val → Option (List (String × Val))
  | [], [] => some kvs
  | n :: ns, o :: os => assignFlat (upsert n o kvs) ns os
  | _, _ => none

theorem routeAll_flat (kvs : List (String × Val)) (names : List String) (outs : List Val) :
    Ref.routeAll (.dict kvs) (names.map fun n => OutKey.key (.name n)) outs
      = match assignFlat kvs names outs with
        | some k => .ok (.dict k)
        | none => .error .value := by
  induction names generalizing kvs outs with
  | nil => cases outs <;> simp [Ref.routeAll, assignFlat]
  | cons n ns ih =>
    cases outs with
    | nil => simp [Ref.routeAll, assignFlat]
    | cons o os =>
      simp [Ref.routeAll, assignFlat, Ref.route, setKey, setPath_dict_name, bind, Except.bind, ih]

theorem assignFlat_frame (kvs : List (String × Val)) (names : List String) (outs : List Val)
    (k : List (String × Val)) (h : assignFlat kvs names outs = some k) :
    (∀ m, m ∉ names → lookup m k = lookup m kvs) ∧
    (∀ m, (lookup m k).isSome → m ∈ names ∨ (lookup m kvs).isSome) ∧
    (∀ m ∈ names, (lookup m k).isSome) ∧ names.length = outs.length := by
  induction names generalizing kvs outs with
  | nil =>
    cases outs with
    | nil => simp [assignFlat] at h; subst h; simp
    | cons o os => simp [assignFlat] at h
  | cons n ns ih =>
    cases outs with
    | nil => simp [assignFlat] at h
    | cons o os =>
      simp only [assignFlat] at h
      obtain ⟨h1, h2, h3, h4⟩ := ih _ _ h
      refine ⟨?_, ?_, ?_, by simp [h4]⟩
      · intro m hm
        have hmn : m ≠ n := fun e => hm (by simp [e])
        have hms : m ∉ ns := fun e => hm (by simp [e])
        rw [h1 m hms, lookup_upsert]; simp [hmn]
      · intro m hm
        rcases h2 m hm with hin | hs
        · exact Or.inl (by simp [hin])
        · rw [lookup_upsert] at hs
          by_cases hmn : m = n
          · exact Or.inl (by simp [hmn])
          · simp [hmn] at hs; exact Or.inr hs
      · intro m hm
        by_cases hms : m ∈ ns
        · exact h3 m hms
        · have hmn : m = n := by simpa [hms] using hm
          rw [h1 m hms, lookup_upsert]; simp [hmn]

/-! ## the builder -/

theorem mkTreeFn_fields {kind : OpKind} {fn : Option UFn} {s0 : Nat} {inp : Build.InSpec}
    {out : List OutKey} {fb b : Nat} {op : Op}
    (h : Build.mkTreeFn kind fn s0 inp out fb b = .ok op) :
    op.kind = kind ∧ op.outKeys = out ∧ op.fnBatch = fb ∧ op.batch = b ∧
      op.inKeys = inp.normalize.2 ∧ op.argNames = inp.normalize.1 ∧ (fb ≠ 0 → b ≠ 0) := by
  unfold Build.mkTreeFn at h
  simp only [bind, Except.bind, pure, Except.pure, throw, throwThe, MonadExceptOf.throw] at h
  split at h
  · cases h
  · rename_i hfb
    split at h
    · cases h
    · split at h
      · cases h
      · split at h
        · cases h
        · cases h
          refine ⟨rfl, rfl, rfl, rfl, rfl, rfl, ?_⟩
          intro hne hb
          exact hfb (by simp [hne, hb])

theorem cleanB_sound (ignore : Bool) (evs : List (Ev Val)) (h : Ref.cleanB ignore evs = true) :
    Ref.Clean ignore evs := by
  intro e he
  have := (List.all_eq_true.mp h) _ he
  simpa using this

theorem cleanRunB_sound (ignore : Bool) (ops : List Op) (evs : List (Ev Val))
    (h : Ref.cleanRunB ignore ops evs = true) : Ref.CleanRun ignore ops evs := by
  induction ops generalizing evs with
  | nil => exact cleanB_sound ignore evs h
  | cons op ops ih =>
    simp only [Ref.cleanRunB, Bool.and_eq_true] at h
    exact ⟨cleanB_sound ignore evs h.1, ih _ h.2⟩

/-! ## vocabulary and helpers for the C08 statements -/

/-- two source outcomes that an operator cannot tell apart: the same error, or records with the
same selected inputs -/
def SameInputs (op : Op) : Ev Val → Ev Val → Prop
  | .ok r, .ok r' => getInputs op r = getInputs op r'
  | .error e, .error e' => e = e'
  | _, _ => False

/-- element-wise relation of two streams of the same length -/
inductive Pointwise {α β : Type} (R : α → β → Prop) : List α → List β → Prop
  | nil : Pointwise R [] []
  | cons {a b l l'} : R a b → Pointwise R l l' → Pointwise R (a :: l) (b :: l')

/-- the arguments `sink.write` receives for a record whose selected inputs are `ins` -/
def writeArgs (op : Op) (ins : List Val) : List Val × List (String × Val) :=
  if op.argNames.isEmpty then (ins, []) else ([], op.argNames.zip ins)

/-- the builder call is rejected (an exception at construction) -/
def Rejected (r : Except ErrKind Build.St) : Prop := ∃ e, r = .error e

theorem rejected_bind_add (st : Build.St) (hagg : st.hasAgg = true) (x : Except ErrKind Op) :
    Rejected (x >>= fun fn => st.add fn) := by
  cases x with
  | error e => exact ⟨e, rfl⟩
  | ok op => exact ⟨.value, by simp [bind, Except.bind, Build.St.add, hagg]⟩

theorem checkAssignKeys_single (k : Key) (existing : List Key) :
    Build.checkAssignKeys [.key k] existing =
      if existing.any (Build.keyEq k) then .error .key
      else if (existing ++ [k]).any (Build.keyEq .self) && decide ((existing ++ [k]).length > 1)
        then .error .key else .ok () := by
  by_cases hdup : existing.any (Build.keyEq k) = true
  · simp [Build.checkAssignKeys, Build.flatKeys, Build.insertKey, hdup]
  · have hi : Build.insertKey k existing = existing ++ [k] := by simp [Build.insertKey, hdup]
    have hnew : List.foldl (fun a k => Build.insertKey k a) [] (Build.flatKeys [OutKey.key k]) = [k] := by
      simp [Build.flatKeys, Build.insertKey]
    unfold Build.checkAssignKeys
    simp only [hnew, List.any_cons, List.any_nil, Bool.or_false, hdup, List.foldl_cons, List.foldl_nil, hi]

/-! ## vocabulary and helpers for C12 -/

/-- is this source outcome an element that the operator (in state `s`) skips? -/
def skipped (op : Op) (s : Nat) : Ev Val → Bool
  | .ok r => (match (Ref.semCall op s r).1 with | .error e => e.ignorable | .ok _ => false)
  | .error _ => false

/-- an error can only be the last event -/
def ErrLast (evs : List (Ev Val)) : Prop :=
  ∀ pre e post, evs = pre ++ .error e :: post → post = []

theorem errLast_nil : ErrLast [] := by
  intro pre e post h; cases pre <;> simp at h

theorem errLast_single (e : Err) : ErrLast [.error e] := by
  intro pre e' post h
  cases pre with
  | nil => simpa using (List.cons.inj h).2.symm
  | cons p ps => cases ps <;> simp at h

theorem errLast_cons_ok (x : Val) (evs : List (Ev Val)) (h : ErrLast evs) : ErrLast (.ok x :: evs) := by
  intro pre e post heq
  cases pre with
  | nil => simp at heq
  | cons p ps => exact h ps e post (List.cons.inj heq).2

theorem opEvents_false_errLast (op : Op) (s : Nat) (src : List (Ev Val)) :
    ErrLast (Ref.opEvents false op s src) := by
  induction src generalizing s with
  | nil => simpa [Ref.opEvents] using errLast_nil
  | cons ev rest ih =>
    cases ev with
    | error e => simpa [Ref.opEvents, terminal] using errLast_single e
    | ok r =>
      rcases hs : Ref.semCall op s r with ⟨res, s'⟩
      cases res with
      | error e => simpa [Ref.opEvents, hs, terminal] using errLast_single e
      | ok v =>
        cases hw : Ref.semWrite op r v with
        | error e => simpa [Ref.opEvents, hs, hw, terminal] using errLast_single e
        | ok o =>
          cases o with
          | none => simpa [Ref.opEvents, hs, hw] using ih s'
          | some x => simpa [Ref.opEvents, hs, hw] using errLast_cons_ok x _ (ih s')

theorem cutTerminal_false_errLast (src : List (Ev Val)) : ErrLast (cutTerminal false src) := by
  induction src with
  | nil => simpa [cutTerminal] using errLast_nil
  | cons ev rest ih =>
    cases ev with
    | error e => simpa [cutTerminal, terminal] using errLast_single e
    | ok x => simpa [cutTerminal] using errLast_cons_ok x _ ih

theorem cutTerminal_errLast_id (evs : List (Ev Val)) (h : ErrLast evs) : cutTerminal false evs = evs := by
  induction evs with
  | nil => simp [cutTerminal]
  | cons ev rest ih =>
    cases ev with
    | error e =>
      have := h [] e rest rfl
      simp [cutTerminal, terminal, this]
    | ok x =>
      have hr : ErrLast rest := fun pre e post heq => h (.ok x :: pre) e post (by simp [heq])
      simp [cutTerminal, ih hr]

theorem chainEvents_false_errLast (ops : List Op) (src : List (Ev Val)) :
    ErrLast (Ref.chainEvents false ops src) := by
  induction ops generalizing src with
  | nil => exact cutTerminal_false_errLast src
  | cons op ops ih => exact ih _

theorem observe_errLast (evs : List (Ev Val)) (h : ErrLast evs) :
    evs = (observe evs).1.map .ok ++ (match (observe evs).2 with | some e => [.error e] | none => []) := by
  induction evs with
  | nil => simp [observe]
  | cons ev rest ih =>
    cases ev with
    | error e =>
      have := h [] e rest rfl
      simp [observe, this]
    | ok x =>
      have hr : ErrLast rest := fun pre e post heq => h (.ok x :: pre) e post (by simp [heq])
      have := ih hr
      simp only [observe]
      rcases ho : observe rest with ⟨xs, eo⟩
      rw [ho] at this
      simp [this]

end MlModel.Pipe
