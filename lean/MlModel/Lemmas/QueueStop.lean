import MlModel.Lemmas.QueueFault
/-!
# Who ends the enqueueing of an IteratorQueue — one step at a time

`ph` is the phase of a producer relative to `_start_enqueue` / `_stop_enqueue`: `0` before the update of
`_start_enqueue` (`sAcq`), `1` inside the enqueue loop (it may still `put`), `2` inside `_stop_enqueue` or
finished (past its last `put`).  `StopStep` says, uniformly for every program point, what one step does to the
fields `enqueue_done` reads (`_exception`, `_stop_requested`, `_max_enqueuer`, `_enqueue_start/_stop`) and to
`_exhausted`, by kind of thread:

* a consumer changes none of them and sets `exhausted` only when `enqueue_done` holds;
* a producer changes neither `_stop_requested` nor `exhausted`; it counts itself in at `sAcq`, leaves the counters
  and `_exception` alone while it may still `put`, and everything else it does happens in phase 2;
* a stopper requests the stop with its first step (`mAcq`), and sets `exhausted` only after that; with the stop
  requested its `assert self.enqueue_done` does not fail.
-/
namespace MlModel.Queue
set_option linter.unusedSimpArgs false

/-- phase of a producer's program point -/
def ph : Pc → Nat
  | .sAcq => 0
  | .sRel | .eNext | .pAcq | .pPut | .pStAcq | .pStRel | .pR0 | .pR1 | .pR2 | .pR3 | .pR4 | .pRet
  | .pWait | .pWake | .pRaiseT | .pExit => 1
  | _ => 2

/-- program points of `maybe_stop` after its first step -/
def stopping : Pc → Bool
  | .mRel | .mE0 | .mE1 | .mE2 | .mD0 | .mD1 | .mD2 => true
  | _ => false

def StopStep (s : Shared) (t : Thread) (tid : Tid) (alt : Bool) : Prop :=
  ∀ lbl s' t', stepThread s t tid alt = some (lbl, s', t') → t.pc ≠ .start →
    -- consumers
    ((pcKind t.pc = some .batch ∨ pcKind t.pc = some .get) →
      s'.stopRequested = s.stopRequested ∧ s'.start = s.start ∧ s'.stop = s.stop ∧ s'.maxEnq = s.maxEnq ∧
      s'.exc = s.exc ∧ (s'.exhausted = true → s.exhausted = true ∨ s.enqueueDone = true) ∧
      (pcKind t'.pc = pcKind t.pc ∨ t'.pc = .done)) ∧
    -- producers
    (pcKind t.pc = some .producer →
      s'.stopRequested = s.stopRequested ∧ s'.exhausted = s.exhausted ∧
      (pcKind t'.pc = some .producer ∨ t'.pc = .done) ∧
      (ph t.pc = 0 → ph t'.pc = 1 ∧ s'.start = s.start + 1 ∧ s'.maxEnq = max s.maxEnq (s.start + 1) ∧
        s'.stop = s.stop ∧ s'.exc = s.exc) ∧
      (ph t.pc = 1 → ph t'.pc = 2 ∨
        (ph t'.pc = 1 ∧ s'.start = s.start ∧ s'.maxEnq = s.maxEnq ∧ s'.stop = s.stop ∧ s'.exc = s.exc)) ∧
      (ph t.pc = 2 → ph t'.pc = 2)) ∧
    -- stoppers
    (pcKind t.pc = some .stopper →
      (t.pc = .mAcq → s'.stopRequested = true) ∧ (t.pc ≠ .mAcq → s'.stopRequested = s.stopRequested) ∧
      (s'.exhausted = true → s.exhausted = true ∨ stopping t.pc = true) ∧
      (t'.pc = .done ∨ stopping t'.pc = true) ∧
      (s.stopRequested = true → t'.pc = .done → t'.outcome = none) ∧ (t.pc = .mAcq → t'.pc = .mRel))

set_option hygiene false in
macro "stop_group" : tactic => `(tactic| (
  intro lbl s' t' h hns
  unfold stepThread at h
  cases hpc : t.pc <;> (try (simp only [hpc, Pc.group] at hg; omega)) <;>
    simp only [hpc] at h hns <;>
    (try simp only [acquire, release, notify, waitPark, waitWake, goto, enqLoop, putLoop, batchLoop,
      afterRaise, afterValue] at h) <;>
    (repeat' split at h) <;>
    (try simp only [Option.some.injEq, Prod.mk.injEq, reduceCtorEq] at h) <;>
    (try (obtain ⟨-, rfl, rfl⟩ := h)) <;>
    (try simp_all [Shared.setOwner, pcKind, ph, stopping, Shared.enqueueDone]) <;>
    (try ((repeat' split) <;> simp_all))))

theorem stop_g0 {s t tid alt} (hg : t.pc.group = 0) : StopStep s t tid alt := by stop_group
theorem stop_g1 {s t tid alt} (hg : t.pc.group = 1) : StopStep s t tid alt := by stop_group
theorem stop_g2 {s t tid alt} (hg : t.pc.group = 2) : StopStep s t tid alt := by stop_group
theorem stop_g3 {s t tid alt} (hg : t.pc.group = 3) : StopStep s t tid alt := by stop_group
theorem stop_g4 {s t tid alt} (hg : t.pc.group = 4) : StopStep s t tid alt := by stop_group
theorem stop_g5 {s t tid alt} (hg : t.pc.group = 5) : StopStep s t tid alt := by stop_group
theorem stop_g6 {s t tid alt} (hg : t.pc.group = 6) : StopStep s t tid alt := by
  intro lbl s' t' h hns
  unfold stepThread at h
  cases hpc : t.pc <;> (try (simp only [hpc, Pc.group] at hg; omega)) <;>
    simp only [hpc] at h hns <;>
    (try simp only [acquire, release, notify, waitPark, waitWake, goto, enqLoop, putLoop, batchLoop,
      afterRaise, afterValue] at h) <;>
    (repeat' split at h) <;>
    (try simp only [Option.some.injEq, Prod.mk.injEq, reduceCtorEq] at h) <;>
    (try (obtain ⟨-, rfl, rfl⟩ := h)) <;>
    simp [Shared.setOwner, pcKind, ph, stopping]
theorem stop_g7 {s t tid alt} (hg : t.pc.group = 7) : StopStep s t tid alt := by stop_group

theorem stepThread_stop {s t tid alt} : StopStep s t tid alt := by
  have h := Pc.group_lt t.pc
  match hg : t.pc.group with
  | 0 => exact stop_g0 hg | 1 => exact stop_g1 hg | 2 => exact stop_g2 hg | 3 => exact stop_g3 hg
  | 4 => exact stop_g4 hg | 5 => exact stop_g5 hg | 6 => exact stop_g6 hg | 7 => exact stop_g7 hg
  | n + 8 => omega

end MlModel.Queue
