import MlModel.Lemmas.Pipe
/-!
# The builder's key-set semantics (`TreeTransform.output_keys`, `_check_assign_keys`)

`Build.outputKeys` / `Build.checkAssignKeys` mirror the code (a `set` built by `update`, then
`intersection`, `|`, `in`, `len`).  Here: what they compute, as statements about *membership* —
the reference "set of record keys after each operator" — for every key form, in particular
dict-form keys `{record_key: source}` whose two sides differ.
-/
namespace MlModel.Pipe
open MlModel.Iter

/-- `Build.keyEq` is equality on the keys it relates (a `Literal` is equal to nothing) -/
theorem keyEq_eq {k k' : Key} (h : Build.keyEq k k' = true) : k = k' := by
  cases k <;> cases k' <;> simp [Build.keyEq] at h <;> simp [h]

theorem keyEq_refl_of_ne_lit (k : Key) (h : ∀ v, k ≠ .lit v) : Build.keyEq k k = true := by
  cases k <;> simp [Build.keyEq]
  exact absurd rfl (h _)

theorem keyEq_skip {k : Key} : Build.keyEq k .skip = true ↔ k = .skip := by
  cases k <;> simp [Build.keyEq]

theorem keyEq_self {k : Key} : Build.keyEq .self k = true ↔ k = .self := by
  cases k <;> simp [Build.keyEq]

theorem mem_insertKey {k x : Key} {ks : List Key} :
    x ∈ Build.insertKey k ks ↔ x ∈ ks ∨ x = k := by
  unfold Build.insertKey
  split
  · rename_i h
    obtain ⟨k'', hk'', he⟩ := List.any_eq_true.mp h
    have := keyEq_eq he
    subst this
    constructor
    · exact Or.inl
    · rintro (h | h)
      · exact h
      · subst h; exact hk''
  · simp

/-- the `set.update` loop: membership after inserting a list of keys -/
theorem mem_foldl_insertKey {x : Key} (l acc : List Key) :
    x ∈ l.foldl (fun a k => Build.insertKey k a) acc ↔ x ∈ acc ∨ x ∈ l := by
  induction l generalizing acc with
  | nil => simp
  | cons k l ih =>
    simp only [List.foldl_cons, ih, mem_insertKey, List.mem_cons]
    constructor
    · rintro ((h | h) | h)
      · exact Or.inl h
      · exact Or.inr (Or.inl h)
      · exact Or.inr (Or.inr h)
    · rintro (h | h | h)
      · exact Or.inl (Or.inl h)
      · exact Or.inl (Or.inr h)
      · exact Or.inr h

/-- inserting never shortens the set -/
theorem length_insertKey_ge (k : Key) (ks : List Key) : ks.length ≤ (Build.insertKey k ks).length := by
  unfold Build.insertKey
  split <;> simp

theorem length_foldl_insertKey_ge (l acc : List Key) :
    acc.length ≤ (l.foldl (fun a k => Build.insertKey k a) acc).length := by
  induction l generalizing acc with
  | nil => simp
  | cons k l ih => exact Nat.le_trans (length_insertKey_ge k acc) (ih _)

/-- `any keyEq` is membership, for a key that is not a `Literal` -/
theorem any_keyEq_iff {k : Key} {ks : List Key} (hk : ∀ v, k ≠ .lit v) :
    ks.any (Build.keyEq k) = true ↔ k ∈ ks := by
  constructor
  · intro h
    obtain ⟨k', hk', he⟩ := List.any_eq_true.mp h
    rw [keyEq_eq he]; exact hk'
  · intro h
    exact List.any_eq_true.mpr ⟨k, h, keyEq_refl_of_ne_lit k hk⟩

theorem any_keyEq_mem {k : Key} {ks : List Key} (h : ks.any (Build.keyEq k) = true) : k ∈ ks := by
  obtain ⟨k', hk', he⟩ := List.any_eq_true.mp h
  rw [keyEq_eq he]; exact hk'

/-- the record keys a list of output keys writes: exactly the record-key side of every dict-form
key, never its source side -/
theorem mem_flatKeys {x : Key} {ks : List OutKey} :
    x ∈ Build.flatKeys ks ↔ (OutKey.key x ∈ ks) ∨ ∃ items, OutKey.dict items ∈ ks ∧ x ∈ items.map (·.1) := by
  induction ks with
  | nil => simp [Build.flatKeys]
  | cons k ks ih =>
    cases k with
    | key k =>
      simp only [Build.flatKeys, List.mem_cons, ih, OutKey.key.injEq, reduceCtorEq, false_or]
      constructor
      · rintro (h | h | h)
        · exact Or.inl (Or.inl h)
        · exact Or.inl (Or.inr h)
        · exact Or.inr h
      · rintro ((h | h) | h)
        · exact Or.inl h
        · exact Or.inr (Or.inl h)
        · exact Or.inr (Or.inr h)
    | dict items =>
      simp only [Build.flatKeys, List.mem_append, List.mem_cons, ih, reduceCtorEq, false_or, OutKey.dict.injEq]
      constructor
      · rintro (h | h | ⟨it, hit, hx⟩)
        · exact Or.inr ⟨items, Or.inl rfl, h⟩
        · exact Or.inl h
        · exact Or.inr ⟨it, Or.inr hit, hx⟩
      · rintro (h | ⟨it, hit | hit, hx⟩)
        · exact Or.inr (Or.inl h)
        · subst hit; exact Or.inl hx
        · exact Or.inr (Or.inr ⟨it, hit, hx⟩)

/-- `_check_assign_keys` raises 'Duplicate output_keys' as soon as one written record key exists -/
theorem checkAssignKeys_dup {ks : List OutKey} {existing : List Key} {k : Key}
    (hk : k ∈ Build.flatKeys ks) (hdup : existing.any (Build.keyEq k) = true) :
    Build.checkAssignKeys ks existing = .error .key := by
  unfold Build.checkAssignKeys
  have hmem : k ∈ (Build.flatKeys ks).foldl (fun a k => Build.insertKey k a) [] :=
    (mem_foldl_insertKey _ _).mpr (Or.inr hk)
  have : ((Build.flatKeys ks).foldl (fun a k => Build.insertKey k a) []).any
      (fun k => existing.any (Build.keyEq k)) = true :=
    List.any_eq_true.mpr ⟨k, hmem, hdup⟩
  simp only [this, if_true]

/-- ... and 'Cannot mix SELF with other keys' when `SELF` is written or exists next to another key -/
theorem checkAssignKeys_self {ks : List OutKey} {existing : List Key} {k : Key}
    (hself : Key.self ∈ Build.flatKeys ks ∨ Key.self ∈ existing)
    (hk : k ∈ Build.flatKeys ks ∨ k ∈ existing) (hne : k ≠ .self) :
    Build.checkAssignKeys ks existing = .error .key := by
  unfold Build.checkAssignKeys
  simp only
  split
  · rfl
  · generalize hnew : (Build.flatKeys ks).foldl (fun a k => Build.insertKey k a) [] = new
    have hmn : ∀ x, x ∈ new ↔ x ∈ Build.flatKeys ks := by
      intro x; rw [← hnew, mem_foldl_insertKey]; simp
    generalize hall : new.foldl (fun a k => Build.insertKey k a) existing = all
    have hma : ∀ x, x ∈ all ↔ x ∈ existing ∨ x ∈ Build.flatKeys ks := by
      intro x; rw [← hall, mem_foldl_insertKey, hmn]
    have hs : Key.self ∈ all := (hma _).mpr (hself.symm)
    have hk' : k ∈ all := (hma _).mpr (hk.symm)
    have hany : all.any (Build.keyEq .self) = true :=
      List.any_eq_true.mpr ⟨.self, hs, rfl⟩
    have hlen : all.length > 1 := by
      match all, hs, hk' with
      | [], hs, _ => simp at hs
      | [a], hs, hk' =>
        simp only [List.mem_singleton] at hs hk'
        exact absurd (hk'.trans hs.symm) hne
      | _ :: _ :: _, _, _ => simp
    simp [hany, hlen]

/-- a list of keys none of which exists and that does not bring `SELF` next to another key passes -/
theorem checkAssignKeys_ok {ks : List OutKey} {existing : List Key}
    (hfresh : ∀ k ∈ Build.flatKeys ks, existing.any (Build.keyEq k) = false)
    (hself : Key.self ∉ Build.flatKeys ks) (hself' : Key.self ∉ existing) :
    Build.checkAssignKeys ks existing = .ok () := by
  unfold Build.checkAssignKeys
  simp only
  generalize hnew : (Build.flatKeys ks).foldl (fun a k => Build.insertKey k a) [] = new
  have hmn : ∀ x, x ∈ new ↔ x ∈ Build.flatKeys ks := by
    intro x; rw [← hnew, mem_foldl_insertKey]; simp
  have h1 : new.any (fun k => existing.any (Build.keyEq k)) = false := by
    rw [Bool.eq_false_iff]
    intro h
    obtain ⟨k, hk, hd⟩ := List.any_eq_true.mp h
    rw [hfresh k ((hmn k).mp hk)] at hd
    exact absurd hd (by decide)
  generalize hall : new.foldl (fun a k => Build.insertKey k a) existing = all
  have hma : ∀ x, x ∈ all ↔ x ∈ existing ∨ x ∈ Build.flatKeys ks := by
    intro x; rw [← hall, mem_foldl_insertKey, hmn]
  have h2 : all.any (Build.keyEq .self) = false := by
    rw [Bool.eq_false_iff]
    intro h
    obtain ⟨k, hk, he⟩ := List.any_eq_true.mp h
    have := keyEq_self.mp he
    subst this
    rcases (hma _).mp hk with h | h
    · exact hself' h
    · exact hself h
  simp [h1, h2]

/-- the verdict of `_check_assign_keys` depends on the written record keys only: two key lists
with the same record-key side (whatever the source sides of their dict-form keys) get the same
verdict -/
theorem checkAssignKeys_congr {ks ks' : List OutKey} (h : Build.flatKeys ks = Build.flatKeys ks')
    (existing : List Key) : Build.checkAssignKeys ks existing = Build.checkAssignKeys ks' existing := by
  unfold Build.checkAssignKeys
  rw [h]

/-! ## `TreeTransform.output_keys`: the record keys after each operator -/

/-- the accumulator of `output_keys` before `SKIP` is discarded -/
def rawKeys (fns : List Op) : List Key :=
  fns.foldl (fun acc fn =>
    if fn.kind = .sink then acc
    else
      let acc := if fn.kind = .apply || fn.kind = .select then [] else acc
      (Build.flatKeys fn.outKeys).foldl (fun a k => Build.insertKey k a) acc) []

theorem outputKeys_eq (fns : List Op) :
    Build.outputKeys fns = (rawKeys fns).filter fun k => !Build.keyEq k .skip := rfl

theorem mem_outputKeys {x : Key} {fns : List Op} :
    x ∈ Build.outputKeys fns ↔ x ∈ rawKeys fns ∧ x ≠ .skip := by
  rw [outputKeys_eq, List.mem_filter]
  constructor
  · rintro ⟨h, hs⟩
    refine ⟨h, ?_⟩
    intro he; subst he
    simp [Build.keyEq] at hs
  · rintro ⟨h, hs⟩
    refine ⟨h, ?_⟩
    have : Build.keyEq x .skip ≠ true := fun he => hs (keyEq_skip.mp he)
    simpa using this

theorem rawKeys_snoc (fns : List Op) (fn : Op) :
    rawKeys (fns ++ [fn]) =
      if fn.kind = .sink then rawKeys fns
      else (Build.flatKeys fn.outKeys).foldl (fun a k => Build.insertKey k a)
        (if fn.kind = .apply || fn.kind = .select then [] else rawKeys fns) := by
  simp [rawKeys, List.foldl_append]

/-- **The reference "set of record keys after each operator".**  After one more operator the
builder's key set is: unchanged behind a sink; exactly the operator's own record keys behind an
`apply` / `select` (they replace the record); the old keys plus the operator's record keys behind an
`assign` (and a `filter`, whose book-keeping keys are the old keys).  `SKIP` is never a key.  The
record keys of a dict-form key are its *keys* (`mem_flatKeys`). -/
theorem mem_outputKeys_snoc {x : Key} (fns : List Op) (fn : Op) :
    x ∈ Build.outputKeys (fns ++ [fn]) ↔
      if fn.kind = .sink then x ∈ Build.outputKeys fns
      else if fn.kind = .apply ∨ fn.kind = .select then x ∈ Build.flatKeys fn.outKeys ∧ x ≠ .skip
      else (x ∈ Build.outputKeys fns ∨ (x ∈ Build.flatKeys fn.outKeys ∧ x ≠ .skip)) := by
  rw [mem_outputKeys, rawKeys_snoc]
  by_cases hs : fn.kind = .sink
  · simp only [hs, if_true, mem_outputKeys]
  · simp only [hs, if_false]
    by_cases hr : fn.kind = .apply ∨ fn.kind = .select
    · have hb : (fn.kind = .apply || fn.kind = .select) = true := by
        rcases hr with h | h <;> simp [h]
      simp only [hr, hb, if_true, mem_foldl_insertKey, List.not_mem_nil, false_or]
    · have hb : (fn.kind = .apply || fn.kind = .select) = false := by
        rw [Bool.eq_false_iff]; intro h
        simp only [Bool.or_eq_true, decide_eq_true_eq] at h
        exact hr h
      simp only [hr, hb, if_false, mem_foldl_insertKey, mem_outputKeys, Bool.false_eq_true]
      constructor
      · rintro ⟨h | h, hne⟩
        · exact Or.inl ⟨h, hne⟩
        · exact Or.inr ⟨h, hne⟩
      · rintro (⟨h, hne⟩ | ⟨h, hne⟩)
        · exact ⟨Or.inl h, hne⟩
        · exact ⟨Or.inr h, hne⟩

end MlModel.Pipe
