import MlModel.Lemmas.ConfusionEncode
/-!
# Every feed / merge plan of the confusion-matrix accumulators computes the one-batch state

Generic in the input encoding (`Encodes`): shards → batches → examples; each shard has its own
accumulator (`feedApi`: `update_state` from `create_state()`), the shard states are merged by one
`merge_states` (`runSharded`) or along an arbitrary merge tree (`evalTree`).
-/
namespace MlModel.Agg.Confusion

section
variable {X : Type} {c : Cfg} {axis : Option Nat} {W : Nat} {okB : List X → Prop}
  {toBatch : List X → Batch} {enc : X → DenseEx}

/-- the count arrays of one batch of raw examples -/
def Encodes.D (_ : Encodes c axis W okB toBatch enc) (xs : List X) : CMArr := denseCM axis W (xs.map enc)

theorem Encodes.D_append (h : Encodes c axis W okB toBatch enc) (xs ys : List X) :
    h.D (xs ++ ys) = (h.D xs).addP (h.D ys) := by
  unfold Encodes.D
  rw [List.map_append]
  rcases h.axis_ok with rfl | rfl
  · exact denseCM_append_none W _ _
  · exact denseCM_append_macro W _ _

theorem Encodes.D_good (h : Encodes c axis W okB toBatch enc) (xs : List X) : GoodCM axis W (h.D xs) :=
  good_denseCM axis W h.axis_ok _

/-- the state after the batches `bss`: nothing for no batch, else the counts of all their examples -/
theorem Encodes.sum_batches (h : Encodes c axis W okB toBatch enc) (bss : List (List X)) :
    (bss.map fun xs => some (h.D xs)).foldl oadd none
      = if bss = [] then none else some (h.D bss.flatten) := by
  have gen : ∀ (bss : List (List X)) (pre : List X),
      (bss.map fun xs => some (h.D xs)).foldl oadd (some (h.D pre)) = some (h.D (pre ++ bss.flatten)) := by
    intro bss
    induction bss with
    | nil => intro pre; simp
    | cons b bss ih =>
      intro pre
      simp only [List.map_cons, List.foldl_cons, oadd, ← h.D_append, ih, List.flatten_cons,
        List.append_assoc]
  cases bss with
  | nil => rfl
  | cons b bss => simpa [oadd] using gen bss b

theorem Encodes.feed (h : Encodes c axis W okB toBatch enc) (sh : List (List X)) (hok : ∀ b ∈ sh, okB b) :
    feedApi c (sh.map toBatch) = .ok ((sh.map fun xs => some (h.D xs)).foldl oadd none) := by
  let cmOf : Batch → CMArr := fun b => match batchCM c b with
    | .ok cm => cm
    | .error _ => default
  have hb : ∀ b ∈ sh.map toBatch, batchCM c b = .ok (cmOf b) ∧ GoodCM axis W (cmOf b) := by
    intro b hb
    obtain ⟨xs, hxs, rfl⟩ := List.mem_map.mp hb
    have e := h.batch_eq xs (hok xs hxs)
    have : cmOf (toBatch xs) = h.D xs := by simp only [cmOf, e]; rfl
    rw [this]; exact ⟨e, h.D_good xs⟩
  rw [feedApi_eq c _ cmOf hb, List.map_map]
  congr 2
  apply List.map_congr_left
  intro xs hxs
  have e := h.batch_eq xs (hok xs hxs)
  simp only [Function.comp, cmOf, e]; rfl

theorem Encodes.feed_good (h : Encodes c axis W okB toBatch enc) (sh : List (List X)) :
    OGood axis W ((sh.map fun xs => some (h.D xs)).foldl oadd none) :=
  foldl_oadd_good (fun x hx => by
    obtain ⟨xs, _, rfl⟩ := List.mem_map.mp hx; exact h.D_good xs) (by trivial)

/-- **sharding**: shard accumulators merged by `merge_states` hold the counts of all examples -/
theorem Encodes.sharded (h : Encodes c axis W okB toBatch enc) (shards : List (List (List X)))
    (hok : ∀ sh ∈ shards, ∀ b ∈ sh, okB b) :
    runSharded c (shards.map (·.map toBatch))
      = .ok (if shards.flatten = [] then none else some (h.D shards.flatten.flatten)) := by
  unfold runSharded
  rw [List.mapM_map, mapM_ok (feedApi c ∘ fun x => List.map toBatch x)
    (fun sh => (sh.map fun xs => some (h.D xs)).foldl oadd none) shards
    (fun sh hsh => h.feed sh (hok sh hsh))]
  simp only [bind, Except.bind]
  rw [mergeStates_eq (axis := axis) (W := W) c h.guard _ (by
    intro s hs; obtain ⟨sh, _, rfl⟩ := List.mem_map.mp hs; exact h.feed_good sh)]
  have := foldl_oadd_flatten (axis := axis) (W := W)
    (ls := shards.map fun sh => sh.map fun xs => some (h.D xs)) (by
      intro l hl x hx
      obtain ⟨sh, _, rfl⟩ := List.mem_map.mp hl
      obtain ⟨xs, _, rfl⟩ := List.mem_map.mp hx
      exact h.D_good xs)
  rw [List.map_map] at this
  simp only [Function.comp_def] at this
  rw [this, ← List.map_flatten, h.sum_batches]

/-- one accumulator fed the whole dataset as one batch -/
theorem Encodes.one_batch (h : Encodes c axis W okB toBatch enc) (xs : List X) (hok : okB xs) :
    feedApi c [toBatch xs] = .ok (some (h.D xs)) := by
  have := h.feed [xs] (by simpa using hok)
  simpa [oadd] using this

end
end MlModel.Agg.Confusion

namespace MlModel.Agg.Confusion

theorem leavesList_eq (ts : List MTree) : MTree.leaves.leavesList ts = (ts.map MTree.leaves).flatten := by
  induction ts with
  | nil => rfl
  | cons t ts ih => simp [MTree.leaves.leavesList, ih]

/-- the sum of the states at the given leaves, in order -/
def leafSum (states : List (Option CMArr)) (is : List Nat) : Option CMArr :=
  (is.map fun i => states.getD i none).foldl oadd none

section
variable {axis : Option Nat} {W : Nat} (c : Cfg)
  (hguard : ((c.average == .weighted || c.average == .macro) && c.vocab.isNone) = false)
  (states : List (Option CMArr)) (hg : ∀ s ∈ states, OGood axis W s)
include hguard hg

theorem leafSum_good (is : List Nat) : OGood axis W (leafSum states is) := by
  apply foldl_oadd_good _ (by trivial)
  intro x hx
  obtain ⟨i, _, rfl⟩ := List.mem_map.mp hx
  by_cases hi : i < states.length
  · simp only [List.getD_eq_getElem?_getD, List.getElem?_eq_getElem hi, Option.getD_some]
    exact hg _ (List.getElem_mem hi)
  · simp [List.getD_eq_getElem?_getD, List.getElem?_eq_none (Nat.le_of_not_lt hi), OGood]

mutual
/-- **any merge plan** computes the sum of the shard states at its leaves -/
theorem evalTree_eq : ∀ (t : MTree), (∀ i ∈ t.leaves, i < states.length) →
    evalTree c states t = .ok (leafSum states t.leaves)
  | .leaf i, h => by
    have hi : i < states.length := h i (by simp [MTree.leaves])
    simp [evalTree, MTree.leaves, leafSum, List.getElem?_eq_getElem hi, List.getD_eq_getElem?_getD]
  | .node ts, h => by
    have hts : ∀ t ∈ ts, ∀ i ∈ t.leaves, i < states.length := by
      intro t ht i hi
      apply h i
      simp only [MTree.leaves, leavesList_eq, List.mem_flatten, List.mem_map]
      exact ⟨t.leaves, ⟨t, ht, rfl⟩, hi⟩
    simp only [evalTree, evalTrees_eq ts hts, bind, Except.bind]
    rw [mergeStates_eq (axis := axis) (W := W) c hguard _ (by
      intro s hs; obtain ⟨t, _, rfl⟩ := List.mem_map.mp hs; exact leafSum_good c hguard states hg _)]
    have := foldl_oadd_flatten (axis := axis) (W := W)
      (ls := ts.map fun t => t.leaves.map fun i => states.getD i none) (by
        intro l hl x hx
        obtain ⟨t, _, rfl⟩ := List.mem_map.mp hl
        obtain ⟨i, _, rfl⟩ := List.mem_map.mp hx
        have := leafSum_good c hguard states hg [i]
        simpa [leafSum] using this)
    rw [List.map_map] at this
    simp only [Function.comp_def] at this
    simp only [leafSum] at *
    rw [this, MTree.leaves, leavesList_eq, List.map_flatten, List.map_map]
    rfl
theorem evalTrees_eq : ∀ (ts : List MTree), (∀ t ∈ ts, ∀ i ∈ t.leaves, i < states.length) →
    evalTrees c states ts = .ok (ts.map fun t => leafSum states t.leaves)
  | [], _ => rfl
  | t :: ts, h => by
    simp only [evalTrees, evalTree_eq t (h t (by simp)),
      evalTrees_eq ts (fun t' ht' => h t' (by simp [ht'])), bind, Except.bind, pure, Except.pure,
      List.map_cons]
end

/-- two merge plans over the same shards (in any order, with any bracketing) agree -/
theorem evalTree_perm (t₁ t₂ : MTree) (h₁ : ∀ i ∈ t₁.leaves, i < states.length)
    (hp : t₁.leaves.Perm t₂.leaves) : evalTree c states t₁ = evalTree c states t₂ := by
  have h₂ : ∀ i ∈ t₂.leaves, i < states.length := fun i hi => h₁ i (hp.symm.subset hi)
  rw [evalTree_eq c hguard states hg t₁ h₁, evalTree_eq c hguard states hg t₂ h₂]
  congr 1
  apply foldl_oadd_perm (axis := axis) (W := W) (hp.map _) _ (by trivial)
  intro x hx
  obtain ⟨i, _, rfl⟩ := List.mem_map.mp hx
  have := leafSum_good c hguard states hg [i]
  simpa [leafSum] using this

end
end MlModel.Agg.Confusion
