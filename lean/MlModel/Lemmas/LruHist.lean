import MlModel.Lemmas.LruInv
/-! The cache content after a history of accesses = the `maxsize` most recently used distinct keys. -/
namespace MlModel.Lru
set_option linter.unusedSectionVars false
set_option linter.unusedSimpArgs false
variable {κ ν : Type} [DecidableEq κ]

/-- All accesses of a history through the `_maybe_lru_cache` pattern. -/
def Cache.accessAll (c : Cache κ ν) (compute : κ → ν) : List κ → Cache κ ν
  | [] => c
  | k :: ks => Cache.accessAll (c.access k compute).2 compute ks

/-- `K` is the list of the last `cap` elements of `R` (all of `R` when it is shorter). -/
def IsLast (cap : Nat) (R K : List κ) : Prop :=
  ∃ P, R = P ++ K ∧ K.length ≤ cap ∧ (P = [] ∨ K.length = cap)

theorem isLast_eq_drop {cap : Nat} {R K : List κ} (h : IsLast cap R K) : K = R.drop (R.length - cap) := by
  obtain ⟨P, rfl, hle, hor⟩ := h
  rcases hor with rfl | heq
  · simp; have : K.length - cap = 0 := by omega
    simp [this]
  · have : P.length + K.length - cap = P.length := by omega
    simp [this]

theorem filter_length_of_mem {K : List κ} {k : κ} (hn : K.Nodup) (hk : k ∈ K) :
    (K.filter (fun x => !(x == k))).length + 1 = K.length := by
  induction K with
  | nil => simp at hk
  | cons a K ih =>
    simp only [List.nodup_cons] at hn
    by_cases ha : a = k
    · subst ha
      have : K.filter (fun x => !(x == a)) = K := by
        apply List.filter_eq_self.mpr
        intro x hx; simp; intro e; subst e; exact hn.1 hx
      simp [List.filter_cons, this]
    · have hk' : k ∈ K := by
        rcases List.mem_cons.mp hk with e | e
        · exact absurd e.symm ha
        · exact e
      simp [List.filter_cons, ha]; exact ih hn.2 hk'

theorem filter_of_not_mem {K : List κ} {k : κ} (hk : k ∉ K) : K.filter (fun x => !(x == k)) = K := by
  apply List.filter_eq_self.mpr
  intro x hx; simp; intro e; subst e; exact hk hx

/-- One access step on the recency list vs. on the key list of the textbook cache. -/
theorem isLast_step {cap : Nat} {R K : List κ} (k : κ) (hR : R.Nodup) (h : IsLast cap R K) :
    IsLast cap (R.filter (fun x => !(x == k)) ++ [k])
      (if k ∈ K then K.filter (fun x => !(x == k)) ++ [k]
       else if (K ++ [k]).length > cap then (K ++ [k]).drop 1 else K ++ [k]) := by
  obtain ⟨P, rfl, hle, hor⟩ := h
  have hnd := List.nodup_append.mp hR
  by_cases hk : k ∈ K
  · have hkP : k ∉ P := fun hp => hnd.2.2 k hp k hk rfl
    simp only [hk, if_true]
    refine ⟨P, ?_, ?_, ?_⟩
    · simp [List.filter_append, filter_of_not_mem hkP]
    · have := filter_length_of_mem hnd.2.1 hk; simp; omega
    · rcases hor with e | e
      · exact Or.inl e
      · right; have := filter_length_of_mem hnd.2.1 hk; simp; omega
  · simp only [hk, if_false]
    by_cases hgt : (K ++ [k]).length > cap
    · simp only [hgt, if_true]
      have hKc : K.length = cap := by simp at hgt; omega
      cases K with
      | nil =>
        refine ⟨P.filter (fun x => !(x == k)) ++ [k], by simp [List.filter_append], by simp, Or.inr ?_⟩
        simp at hKc ⊢; exact hKc
      | cons k0 K0 =>
        have hk0 : ¬ k0 = k := fun e => hk (by simp [e])
        have hK0 : k ∉ K0 := fun e => hk (by simp [e])
        refine ⟨P.filter (fun x => !(x == k)) ++ [k0], ?_, ?_, Or.inr ?_⟩
        · simp [List.filter_append, List.filter_cons, hk0, filter_of_not_mem hK0]
        · simp at hKc ⊢; omega
        · simp at hKc ⊢; omega
    · simp only [hgt, if_false]
      have hP : P = [] := by
        rcases hor with e | e
        · exact e
        · simp at hgt; omega
      subst hP
      refine ⟨[], ?_, ?_, Or.inl rfl⟩
      · simp [filter_of_not_mem hk]
      · simp at hgt ⊢; omega

theorem nodup_recency_step {R : List κ} (k : κ) (hR : R.Nodup) :
    (R.filter (fun x => !(x == k)) ++ [k]).Nodup := by
  rw [List.nodup_append]
  refine ⟨hR.filter _, by simp, ?_⟩
  intro a ha b hb
  simp only [List.mem_singleton] at hb
  subst hb; intro e; subst e; simp at ha

/-- keys after one access of the real cache -/
theorem keysOf_access {c : Cache κ ν} (h : Inv c) (k : κ) (compute : κ → ν) :
    keysOf (c.access k compute).2.data =
      (if k ∈ keysOf c.data then (keysOf c.data).filter (fun x => !(x == k)) ++ [k]
       else if (keysOf c.data ++ [k]).length > c.maxsize then (keysOf c.data ++ [k]).drop 1
       else keysOf c.data ++ [k]) ∧ Inv (c.access k compute).2 ∧
    (c.access k compute).2.maxsize = c.maxsize := by
  unfold Cache.access
  cases hf : find? c.data k with
  | some v =>
    have hk : k ∈ keysOf c.data := (find?_isSome_iff c.data k).mp (by simp [hf])
    have hg : c.getitem k = (some v, { c with hits := c.hits + 1, data := moveToEnd c.data k }) := by
      unfold Cache.getitem; simp [hf]
    have hi := inv_getitem h k
    rw [hg] at hi
    simp only [hg, hk, if_true]
    exact ⟨keysOf_moveToEnd hk, hi, trivial⟩
  | none =>
    have hk : k ∉ keysOf c.data := (find?_none_iff c.data k).mp hf
    have hg : c.getitem k = (none, { c with misses := c.misses + 1 }) := by
      unfold Cache.getitem; simp [hf]
    have hi : Inv ({ c with misses := c.misses + 1 } : Cache κ ν) := ⟨h.size, h.nodup, h.bound⟩
    obtain ⟨hd, hi'⟩ := setitem_new hi (compute k) (k := k) hk
    simp only [hg, hk, if_false]
    refine ⟨?_, hi', by rw [setitem_maxsize]⟩
    rw [hd]
    simp only [Spec.put, Spec.touch, remove_of_not_mem hk]
    have hl : (c.data ++ [(k, compute k)]).length = (keysOf c.data ++ [k]).length := by simp
    rw [hl]
    split
    · simp [keysOf, List.map_drop]
    · simp

theorem recency_append (hist : List κ) (k : κ) :
    Spec.recency (hist ++ [k]) = (Spec.recency hist).filter (fun x => !(x == k)) ++ [k] := by
  simp [Spec.recency, List.foldl_append]

theorem nodup_recency (hist : List κ) : (Spec.recency hist).Nodup := by
  have : ∀ (hist acc : List κ), acc.Nodup →
      (hist.foldl (fun acc k => acc.filter (fun x => !(x == k)) ++ [k]) acc).Nodup := by
    intro hist
    induction hist with
    | nil => intro acc h; simpa using h
    | cons k ks ih => intro acc h; simp only [List.foldl_cons]; exact ih _ (nodup_recency_step k h)
  exact this hist [] (by simp)

/-- Generalised history theorem: starting from a cache whose keys are the last `maxsize` keys of the
recency list of `pre`, after the accesses `ks` they are the last `maxsize` of the recency list of
`pre ++ ks`. -/
theorem accessAll_isLast {c : Cache κ ν} (h : Inv c) (compute : κ → ν) (pre ks : List κ)
    (h0 : IsLast c.maxsize (Spec.recency pre) (keysOf c.data)) :
    IsLast c.maxsize (Spec.recency (pre ++ ks)) (keysOf (c.accessAll compute ks).data) ∧
    Inv (c.accessAll compute ks) ∧ (c.accessAll compute ks).maxsize = c.maxsize := by
  induction ks generalizing c pre with
  | nil => simpa [Cache.accessAll] using ⟨h0, h⟩
  | cons k ks ih =>
    obtain ⟨hk, hi, hm⟩ := keysOf_access h k compute
    have hstep := isLast_step k (nodup_recency pre) h0
    rw [← recency_append, ← hk, ← hm] at hstep
    have := ih hi (pre ++ [k]) hstep
    simp only [List.append_assoc, List.singleton_append] at this
    simp only [Cache.accessAll]
    rw [hm] at this
    exact this

end MlModel.Lru
