import MlModel.Lemmas.OwnerFin
/-! `orchestrate.as_completed` as a program of the product LTS (round 11): every way out of its body goes through the finaliser,
and when the operation ends the thread has just left `finalize p` in the ownership LTS.  What a mid-run
`release_all(unused_workers)` may release. -/
namespace MlModel.OwnerEnv
open MlModel.Owner

theorem startPiece_spec {pw : Pid → List Wid} {x x' : X} {t : Tid} {op : Op} {f : Env → Env}
    (h : startPiece pw x t op f = some x') :
    ∃ s, (x.base.T t).script = op :: s ∧ step? pw (fun _ => false) x.base t = some x'.base := by
  unfold startPiece at h
  split at h
  · rename_i op' s hs
    split at h
    · rename_i heq
      exact ⟨s, by rw [hs, heq], ostep_base h⟩
    · exact absurd h (by simp)
  · exact absurd h (by simp)

/-- Starting the piece `finalize p` over a pool without workers ends it in the same step: the thread is idle, exit marker `p`. -/
theorem start_finalize_exit {pw : Pid → List Wid} {u : Wid → Bool} {c c' : Cfg} {t : Tid} {p : Pid} {s : List Op}
    (hcur : (c.T t).cur = none) (hsc : (c.T t).script = .finalize p :: s) (h : step? pw u c t = some c')
    (hn : (c'.T t).cur = none) : (c'.T t).exited = some p := by
  rcases step_cases h with ⟨op, s', _, hs, hc'⟩ | ⟨cl, k, W', o, hc, _, _⟩
  · rw [hsc] at hs; simp at hs
    obtain ⟨h1, h2⟩ := hs; subst h1; subst h2
    subst hc'
    simp only [upd_same, start] at hn ⊢
    cases hpw : pw p with
    | nil => simp [relAllLoop, Thread.apply]
    | cons w ws => simp [hpw, relAllLoop, Thread.apply] at hn
  · rw [hcur] at hc; simp at hc

/-- **Every way out of the body of `as_completed` goes through `finally: worker_pool.release_all()`.**  A step of a thread whose
controller is in the body of `as_completed` of pool `a.p` and that is between two pieces: the controller stays in the body (same
pool), or starts the finaliser, or — the pool has no worker, the finaliser ends in the same step — the operation has ended: the
outcome is recorded and the thread has just left `finalize a.p` in the ownership LTS. -/
theorem acstep_exits {pw : Pid → List Wid} {x x' : X} {t : Tid} {a : AC} (hcur : (x.base.T t).cur = none)
    (h : acstep pw x t a = some x') :
    (∃ a', x'.env.ctl t = .ac a' ∧ a'.p = a.p) ∨ (∃ o, x'.env.ctl t = .fin a.p o) ∨
    (x'.env.ctl t = .idle ∧ (∃ o, x'.env.outs t = x.env.outs t ++ [o]) ∧
      (x'.base.T t).cur = none ∧ (x'.base.T t).exited = some a.p) := by
  obtain ⟨act, hpl, he⟩ := acstep_plan h
  obtain ⟨hk, _, _⟩ := acPlan_ok hpl
  unfold acExec at he
  split at he
  · rename_i op hop
    rcases startPiece_ctl he with ⟨h1, _⟩ | ⟨hn, hi, h2⟩
    · simp only [acEnv_ctl] at h1
      rcases hk with ⟨a', ha', hp'⟩ | ⟨o', ho', _⟩
      · exact Or.inl ⟨a', by rw [h1, ha'], hp'⟩
      · exact Or.inr (Or.inl ⟨o', by rw [h1, ho']⟩)
    · right; right
      simp only [acEnv_ctl, acEnv_outs] at h2
      rcases hk with ⟨a', ha', _⟩ | ⟨o', ho', hpc'⟩
      · rcases h2 with ⟨p', o'', hf, _⟩ | ⟨p', hf, _⟩ | ⟨p', b', w', hf, _⟩ <;> (rw [ha'] at hf; exact absurd hf (by simp))
      · have hout : ∃ o, x'.env.outs t = x.env.outs t ++ [o] := by
          rcases h2 with ⟨p', o'', _, ho⟩ | ⟨p', hf, _⟩ | ⟨p', b', w', hf, _⟩
          · exact ⟨o'', ho⟩
          · rw [ho'] at hf; exact absurd hf (by simp)
          · rw [ho'] at hf; exact absurd hf (by simp)
        refine ⟨hi, hout, hn, ?_⟩
        rw [hpc'] at hop
        simp only [Option.some.injEq] at hop; subst hop
        obtain ⟨s, hsc, hb⟩ := startPiece_spec he
        exact start_finalize_exit hcur hsc hb hn
  · simp only [Option.some.injEq] at he; subst he
    simp only [acEnv_ctl]
    rcases hk with ⟨a', ha', hp'⟩ | ⟨o', ho', hpc'⟩
    · exact Or.inl ⟨a', ha', hp'⟩
    · rename_i hnone; rw [hpc'] at hnone; exact absurd hnone (by simp)

/-- the same, stated on `xstep?` -/
theorem xstep_ac {pw : Pid → List Wid} {x x' : X} {t : Tid} {a : AC} (hcur : (x.base.T t).cur = none)
    (hctl : x.env.ctl t = .ac a) (h : xstep? pw x t = some x') :
    (∃ a', x'.env.ctl t = .ac a' ∧ a'.p = a.p) ∨ (∃ o, x'.env.ctl t = .fin a.p o) ∨
    (x'.env.ctl t = .idle ∧ (∃ o, x'.env.outs t = x.env.outs t ++ [o]) ∧
      (x'.base.T t).cur = none ∧ (x'.base.T t).exited = some a.p) := by
  unfold xstep? at h
  simp only [hcur, hctl, cstep] at h
  exact acstep_exits hcur h

/-- Inside a piece the controller of `as_completed` does not move. -/
theorem xstep_ac_inCall {pw : Pid → List Wid} {x x' : X} {t : Tid} {a : AC} {cl : Call} {k : K}
    (hcur : (x.base.T t).cur = some (cl, k)) (hctl : x.env.ctl t = .ac a) (h : xstep? pw x t = some x') :
    x'.env.ctl t = .ac a ∧ x'.env.outs t = x.env.outs t := by
  rcases xstep_ctl_inCall hcur h with ⟨h1, h2⟩ | ⟨_, _, h2⟩
  · exact ⟨by rw [h1, hctl], h2⟩
  · rcases h2 with ⟨p', o'', hf, _⟩ | ⟨p', hf, _⟩ | ⟨p', b', w', hf, _⟩ <;> (rw [hctl] at hf; exact absurd hf (by simp))

/-- The piece the controller of `as_completed` starts is the next operation of the thread's script: an operation of the repaired
code (every release owner-checked under the worker's state lock) acting for the pool of the `as_completed`; and a mid-run
`release_all(ws)` satisfies `RelSpec`. -/
theorem acstep_piece {pw : Pid → List Wid} {x x' : X} {t : Tid} {a : AC} (h : acstep pw x t a = some x')
    (hlen : (x'.base.T t).script ≠ (x.base.T t).script) :
    ∃ op s, (x.base.T t).script = op :: s ∧ op.pool = a.p ∧ op.repaired = true ∧
      step? pw (fun _ => false) x.base t = some x'.base ∧
      ∀ q ws, op = .releaseAll q ws → RelSpec a (lastRes x t) ws := by
  obtain ⟨act, hpl, he⟩ := acstep_plan h
  obtain ⟨_, hrep, hrel⟩ := acPlan_ok hpl
  unfold acExec at he
  split at he
  · rename_i op hop
    obtain ⟨s, hsc, hb⟩ := startPiece_spec he
    obtain ⟨h1, h2⟩ := hrep op hop
    exact ⟨op, s, hsc, h1, h2, hb, fun q ws hq => hrel q ws (by rw [hop, hq])⟩
  · simp only [Option.some.injEq] at he; subst he
    exact absurd rfl hlen

/-! ### what `legalUnused` allows -/

theorem legalUnused_sub {free cand : List Wid} {k : Nat} {ws : List Wid} (h : legalUnused free cand k ws = true) :
    ∀ w ∈ ws, w ∈ free := by
  unfold legalUnused at h
  simp only [Bool.and_eq_true, List.all_eq_true, List.contains_iff_mem] at h
  exact fun w hw => h.1.1.1.2 w hw

theorem mem_free {a : AC} {acquired : List Wid} {w : Wid} (h : w ∈ a.free acquired) :
    w ∈ acquired ∧ ∀ r ∈ a.running, r.w ≠ w := by
  unfold AC.free at h
  simp only [List.mem_filter, Bool.not_eq_eq_eq_not, Bool.not_true, List.contains_eq_mem, List.mem_map,
    decide_eq_false_iff_not, not_exists, not_and] at h
  exact ⟨h.1, fun r hr => h.2 r hr⟩

/-- **A mid-run `release_all(unused_workers)` of `as_completed` releases only workers that `acquired_workers` has just reported as
the pool's own and on which none of its running tasks was submitted; in the repaired code the list is never empty** (an empty
list would mean "every worker of the pool" to `release_all`). -/
theorem RelSpec_workers {a : AC} {last : Option Res} {ws : List Wid} (h : RelSpec a last ws) :
    ∃ acquired, last = some (.workers acquired) ∧ (∀ w ∈ ws, w ∈ acquired ∧ ∀ r ∈ a.running, r.w ≠ w) ∧
      (a.fixed = true → ws ≠ []) := by
  obtain ⟨_, acquired, hl, hleg, hne⟩ := h
  exact ⟨acquired, hl, fun w hw => mem_free (legalUnused_sub hleg w hw), hne⟩

end MlModel.OwnerEnv
