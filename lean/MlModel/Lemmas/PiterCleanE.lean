import MlModel.Lemmas.PiterCleanD
/-!
# `Clean` is preserved: queue steps of the consumer (`get_batch` loop, and `maybe_stop` after the end)
-/
namespace MlModel.Piter
open MlModel.Queue

variable {F : Nat → Option (List Nat)} {inputs0 : List (List Item)}

/-- program points a `get_batch` / `maybe_stop` thread is never at -/
theorem cons_pc_ne {t : Queue.Thread} (htok : TOK t) (hk : t.prog.kind = .batch ∨ t.prog.kind = .stopper) :
    t.pc ≠ .sAcq ∧ t.pc ≠ .tAcq ∧ t.pc ≠ .pPut ∧ t.pc ≠ .eNext ∧ t.pc ≠ .pRaiseT := by
  refine ⟨?_, ?_, ?_, ?_, ?_⟩ <;> intro h <;>
    (have := htok.kind .producer (by rw [h]; rfl); rcases hk with hk | hk <;> rw [hk] at this <;> cases this)

theorem batch_pc_ne {t : Queue.Thread} (htok : TOK t) (hk : t.prog.kind = .batch) :
    t.pc ≠ .mAcq ∧ t.pc ≠ .mD0 := by
  refine ⟨?_, ?_⟩ <;> intro h <;>
    (have := htok.kind .stopper (by rw [h]; rfl); rw [hk] at this; cases this)

theorem stopper_pc_ne {t : Queue.Thread} (htok : TOK t) (hk : t.prog.kind = .stopper) :
    t.pc ≠ .bRaise ∧ (∀ k, t.pc ≠ .nRelErr k) ∧ (∀ k, t.pc ≠ .nNaErr k) := by
  refine ⟨?_, ?_, ?_⟩
  · intro h; have := htok.kind .batch (by rw [h]; rfl); rw [hk] at this; cases this
  · intro k h
    cases k
    · have := htok.kind .get (by rw [h]; rfl); rw [hk] at this; cases this
    · have := htok.kind .batch (by rw [h]; rfl); rw [hk] at this; cases this
  · intro k h
    cases k
    · have := htok.kind .get (by rw [h]; rfl); rw [hk] at this; cases this
    · have := htok.kind .batch (by rw [h]; rfl); rw [hk] at this; cases this

/-- the outcomes of `afterIter` that do not stop early -/
theorem afterIter_nf (c : Cfg) (pc : Pc) (s' : Shared) (T : PThread)
    (h : (afterIter c pc s' T).2.early = false) :
    (pc ≠ .bRaise ∧ afterIter c pc s' T = (s', T)) ∨
    (pc = .bRaise ∧ (afterIter c pc s' T).1 = s' ∧
      ((afterIter c pc s' T).2 =
          { T with q := { T.q with pc := .mAcq, prog := .stopper none }, iterOutcome := T.q.outcome,
                   cpc := .stopping } ∨
       (afterIter c pc s' T).2 = { T with iterOutcome := T.q.outcome, cpc := .shutdown })) := by
  unfold afterIter at h ⊢
  by_cases h1 : pc = .bRaise
  · right
    simp only [h1, BEq.rfl, if_true]
    refine ⟨trivial, ?_⟩
    cases c.stopOnEnd <;> simp
  · left
    refine ⟨h1, ?_⟩
    have h1' : (pc == Pc.bRaise) = false := by simpa using h1
    simp only [h1', Bool.false_eq_true, if_false] at h ⊢
    by_cases h2 : pc = .bE3
    · simp only [h2, BEq.rfl, if_true] at h ⊢
      cases hk : c.numSteps with
      | none => rfl
      | some k =>
        simp only [hk] at h ⊢
        by_cases hge : T.q.received.length ≥ k
        · simp [hge] at h
        · simp [hge]
    · have h2' : (pc == Pc.bE3) = false := by simpa using h2
      simp [h2']

end MlModel.Piter

namespace MlModel.Piter
open MlModel.Queue

variable {F : Nat → Option (List Nat)} {inputs0 : List (List Item)}

theorem afterIter_exc (c : Cfg) (pc : Pc) (s' : Shared) (T : PThread) :
    (afterIter c pc s' T).1.exc = s'.exc ∧ (afterIter c pc s' T).2.isProd = T.isProd ∧
    (afterIter c pc s' T).2.emitted = T.emitted ∧ (afterIter c pc s' T).2.pulled = T.pulled := by
  unfold afterIter
  (repeat' split) <;> simp

theorem final_clean {s : Shared} (h : s.exc = none) : s.final = .stop s.returned := by
  simp [Shared.final, h]

theorem clean_citer {c : Cfg} {tid : Tid} {alt : Bool} {t : PThread} {lbl : String} {s' : Shared}
    {q' : Queue.Thread} (hb : Base c) (hc : Clean F inputs0 c) (hn : NF c)
    (hn' : NF { c with sh := (afterIter c t.q.pc s' { t with q := q' }).1,
                       ths := c.ths.set tid (afterIter c t.q.pc s' { t with q := q' }).2 })
    (ht : c.ths[tid]? = some t) (hp : t.isProd = false) (hcp : t.cpc = .iter)
    (hst : stepThread c.sh t.q tid alt = some (lbl, s', q')) :
    Clean F inputs0 { c with sh := (afterIter c t.q.pc s' { t with q := q' }).1,
                             ths := c.ths.set tid (afterIter c t.q.pc s' { t with q := q' }).2 } := by
  have h0 := nf_tid0 hb.static ht hp
  subst h0
  have hmem : t ∈ c.ths := List.mem_of_getElem? ht
  have htok : TOK t.q := hb.data.tok t.q (List.mem_of_getElem? (qcfg_get ht))
  have hkb : t.q.prog.kind = .batch := (hb.static.kindC t hmem hp).2.1 hcp
  obtain ⟨n1, n2, n3, n4, -⟩ := cons_pc_ne htok (Or.inl hkb)
  obtain ⟨n6, n7⟩ := batch_pc_ne htok hkb
  obtain ⟨-, -, -, hstart, hmaxE, hstop, hret, hsr, -, -, -, halt⟩ := stepThread_ctl lbl s' q' hst n4
  rw [if_neg n1, if_neg n6] at hstart
  rw [if_neg n1] at hmaxE
  rw [if_neg n2, if_neg n6] at hstop
  rw [if_neg n2] at hret
  have hsr' : s'.stopRequested = c.sh.stopRequested := by rw [hsr]; simp [n6]
  obtain ⟨-, -, -, -, -, -, f7, -, -, -⟩ := stepThread_flow lbl s' q' hst n4
  have hprod : s'.produced = c.sh.produced := f7 (fun h => n3 h.1)
  obtain ⟨a1, a2, a3, a4, a5, a6, -, -, -⟩ := stepThread_arm lbl s' q' hst n4
  obtain ⟨-, -, -, -, -, hlost, -⟩ := stepThread_data lbl s' q' hst htok
  obtain ⟨-, -, hexhS, -, -⟩ := stepThread_fault lbl s' q' hst
  obtain ⟨e1, e2, e3, e4⟩ := afterIter_exc c t.q.pc s' { t with q := q' }
  have hexc' : s'.exc = none := by rw [← e1]; exact hn'.1
  have hco := hc.cons t ht
  have hearly : (afterIter c t.q.pc s' { t with q := q' }).2.early = false := hn'.2 _ (get_set0 ht)
  have haltF : alt = false := by
    cases alt
    · rfl
    · exact absurd (halt rfl) (by rw [hb.static.timeout]; simp)
  have hfin : s'.final = .stop c.sh.returned := by rw [final_clean hexc', hret]
  have hnone : t.iterOutcome = none := hco.live (Or.inr (Or.inr hcp))
  -- exhausted
  have hexhF : s'.exhausted = true → AllStopped c ∧ s'.q = [] := by
    intro he
    rcases a2 he with h | ⟨h1, h2⟩ | ⟨h, _⟩
    · obtain ⟨ha, hq0⟩ := hc.exh h
      refine ⟨ha, ?_⟩
      rcases a1 with h | h | ⟨v, h⟩
      · rw [h]; exact hq0
      · exact absurd h n3
      · rw [hq0] at h; cases h
    · exact ⟨allStopped_of_done hn hc h1, h2⟩
    · exact absurd h n7
  have hitems : itemsOf (afterIter c t.q.pc s' { t with q := q' }).2 = itemsOf t := by
    simp only [itemsOf, handItems]
    rw [e2, e4]
    simp [hp]
  rcases afterIter_nf c t.q.pc s' { t with q := q' } hearly with ⟨hnb, hA⟩ | ⟨hbr, hA1, hA2⟩
  · -- the iteration goes on
    rw [hA]
    have hl : s'.lost = [] := by
      rw [hlost, hc.lost]
      unfold droppedOf; split
      · rename_i h; exact absurd h hnb
      · rfl
    refine clean_gen' hc ht rfl (fun sid h => h) ?_ hmaxE hstart hstop hret hprod
      (fun he => ⟨allStopped_set (hexhF he).1 rfl (fun h => by simp [hp] at h), (hexhF he).2⟩) hl rfl
      (fun h => by simp [hp] at h) (fun h => by simp [hp] at h) (fun h => by simp [hp] at h) rfl
      (fun h => by simp [hp] at h) (fun h => absurd rfl h) (fun _ => ?_)
    · rw [hA] at hitems
      show inputs0.flatten.Perm (((c.ths.set 0 { t with q := q' }).map itemsOf).flatten ++ c.inputs.flatten)
      rw [flat_same itemsOf ht hitems]; exact hc.items
    · refine ⟨a3, ?_, ?_, ?_, ?_, ?_, fun _ => hnone⟩
      · rintro (⟨k, hk⟩ | hk)
        · rcases a4 k hk with h | ⟨h1, h2⟩
          · exact Or.inl h
          · refine Or.inr ⟨by rw [h1, hfin, hret], ?_⟩
            rcases h2 with h | ⟨h, _⟩
            · exact h
            · exact hexhS (hco.naErr k h)
        · rcases a5 hk with h | ⟨h1, h2, h3, _, _⟩
          · rw [haltF] at h; cases h
          · rcases hco.armed (Or.inl ⟨_, h1⟩) with h | ⟨h4, h5⟩
            · exact absurd h h3
            · exact Or.inr ⟨by show q'.x = _; rw [h2, h4, hret], hexhS h5⟩
      · intro hk
        rcases a5 hk with h | ⟨_, h2, h3, h4, h5⟩
        · rw [haltF] at h; cases h
        · refine ⟨by show q'.x ≠ _; rw [h2]; exact h3, fun r hr => ?_⟩
          show q'.result = []
          rw [h5]; exact h4 r (by rw [← h2]; exact hr)
      · intro r hr; rw [hnone] at hr; cases hr
      · rintro (h | h | h) <;> simp [hcp] at h
      · intro _; show s'.stopRequested = false; rw [hsr']; exact hco.noStop hnone
  · -- `get_batch` raised: the iteration is over
    obtain ⟨hd, hout, hres, hrec, hl⟩ := a6 hbr
    obtain ⟨hxne, hxres⟩ := hco.raise hbr
    have hx : t.q.x = .stop c.sh.returned ∧ c.sh.exhausted = true := by
      rcases hco.armed (Or.inr hbr) with h | h
      · exact absurd h hxne
      · exact h
    have hlost' : s'.lost = [] := by rw [hl, hc.lost, hxres _ hx.1]; rfl
    have hio : ∀ T', T' = (afterIter c t.q.pc s' { t with q := q' }).2 →
        T'.iterOutcome = some (.stop c.sh.returned) ∧ (T'.cpc = .stopping ∨ T'.cpc = .shutdown) ∧
        (T'.q.pc = .mAcq ∨ T'.q.pc = .done) := by
      intro T' hT
      rcases hA2 with h | h <;> rw [hT, h] <;> simp [hout, hx.1, hd]
    obtain ⟨io1, io2, io3⟩ := hio _ rfl
    rw [show (afterIter c t.q.pc s' { t with q := q' }).1 = s' from hA1]
    refine clean_gen' hc ht rfl (fun sid h => h) ?_ hmaxE hstart hstop hret hprod
      (fun he => ⟨allStopped_set (hexhF he).1 rfl (fun h => by rw [e2] at h; simp [hp] at h), (hexhF he).2⟩)
      hlost' (by rw [e2]) (fun h => by simp [hp] at h) (fun h => by simp [hp] at h)
      (fun h => by simp [hp] at h) (by rw [e3]) (fun h => by rw [e2] at h; simp [hp] at h)
      (fun h => absurd rfl h) (fun _ => ?_)
    · show inputs0.flatten.Perm (((c.ths.set 0 (afterIter c t.q.pc s' { t with q := q' }).2).map itemsOf).flatten
        ++ c.inputs.flatten)
      rw [flat_same itemsOf ht hitems]; exact hc.items
    · refine ⟨?_, ?_, ?_, ?_, fun _ => by rw [io1]; rfl, ?_, ?_⟩
      · intro k hk; rcases io3 with h | h <;> rw [h] at hk <;> cases hk
      · rintro (⟨k, hk⟩ | hk) <;> (rcases io3 with h | h <;> rw [h] at hk <;> cases hk)
      · intro hk; rcases io3 with h | h <;> rw [h] at hk <;> cases hk
      · intro r hr
        rw [io1] at hr
        simp only [Option.some.injEq] at hr
        exact ⟨by show r = .stop s'.returned; rw [← hr, hret], hexhS hx.2⟩
      · intro h; rw [io1] at h; cases h
      · rintro (h | h | h) <;> (rcases io2 with h2 | h2 <;> rw [h2] at h <;> cases h)

end MlModel.Piter

namespace MlModel.Piter
open MlModel.Queue

variable {F : Nat → Option (List Nat)} {inputs0 : List (List Item)}

theorem sums_of_allStopped {c : Cfg} (ha : AllStopped c) :
    (c.ths.map indStop).sum = (c.ths.map indProd).sum ∧ (c.ths.map indStart).sum = (c.ths.map indProd).sum := by
  have h1 : ∀ x ∈ c.ths, indStop x = indProd x := by
    intro x hx
    unfold indStop indProd
    cases hp : x.isProd with
    | false => simp
    | true => simp [ha x hx hp]
  have e1 : c.ths.map indStop = c.ths.map indProd := List.map_congr_left h1
  have h2 : ∀ x ∈ c.ths, indStart x = indProd x := by
    intro x hx
    have := indStop_le_indStart x
    have := indStart_le_indProd x
    have := h1 x hx
    omega
  have e2 : c.ths.map indStart = c.ths.map indProd := List.map_congr_left h2
  rw [e1, e2]; exact ⟨rfl, rfl⟩

theorem clean_cstop {c : Cfg} {tid : Tid} {alt : Bool} {t : PThread} {lbl : String} {s' : Shared}
    {q' : Queue.Thread} (hb : Base c) (hc : Clean F inputs0 c) (hn : NF c)
    (ht : c.ths[tid]? = some t) (hp : t.isProd = false) (hcp : t.cpc = .stopping)
    (hst : stepThread c.sh t.q tid alt = some (lbl, s', q')) :
    Clean F inputs0 { c with sh := s', ths := c.ths.set tid (postStop t q') } := by
  have h0 := nf_tid0 hb.static ht hp
  subst h0
  have hmem : t ∈ c.ths := List.mem_of_getElem? ht
  have htok : TOK t.q := hb.data.tok t.q (List.mem_of_getElem? (qcfg_get ht))
  have hps : t.q.prog = .stopper none := (hb.static.kindC t hmem hp).2.2 hcp
  have hks : t.q.prog.kind = .stopper := by rw [hps]; rfl
  obtain ⟨n1, n2, n3, n4, -⟩ := cons_pc_ne htok (Or.inr hks)
  obtain ⟨n5, -, -⟩ := stopper_pc_ne htok hks
  obtain ⟨-, -, -, hstart, hmaxE, hstop, hret, -, -, hprog, -, -⟩ := stepThread_ctl lbl s' q' hst n4
  rw [if_neg n1] at hstart hmaxE
  rw [if_neg n2] at hstop hret
  obtain ⟨-, -, -, -, -, -, f7, -, -, -⟩ := stepThread_flow lbl s' q' hst n4
  have hprod : s'.produced = c.sh.produced := f7 (fun h => n3 h.1)
  obtain ⟨a1, -, -, -, -, -, -, -, -⟩ := stepThread_arm lbl s' q' hst n4
  obtain ⟨htok', -, -, -, -, hlost, -⟩ := stepThread_data lbl s' q' hst htok
  obtain ⟨-, -, hexhS, -, -⟩ := stepThread_fault lbl s' q' hst
  have hco := hc.cons t ht
  obtain ⟨r, hr⟩ := Option.isSome_iff_exists.mp (hco.phase (Or.inl hcp))
  obtain ⟨hrr, hex⟩ := hco.ended r hr
  obtain ⟨ha, hq0⟩ := hc.exh hex
  obtain ⟨hs1, hs2⟩ := sums_of_allStopped ha
  have hq' : s'.q = [] := by
    rcases a1 with h | h | ⟨v, h⟩
    · rw [h]; exact hq0
    · exact absurd h n3
    · rw [hq0] at h; cases h
  have hstart' : s'.start = c.sh.start := by
    rw [hstart]; split
    · rw [hc.maxEnq, hc.start, hs2]
    · rfl
  have hstop' : s'.stop = c.sh.stop := by
    rw [hstop]; split
    · rw [hc.maxEnq, hc.stop, hs1]
    · rfl
  have hl : s'.lost = [] := by
    rw [hlost, hc.lost]
    unfold droppedOf; split
    · rename_i h; exact absurd h n5
    · rfl
  have hks' : q'.prog.kind = .stopper := by rw [hprog]; exact hks
  obtain ⟨m1, m2, m3⟩ := stopper_pc_ne htok' hks'
  have hfr : (postStop t q').isProd = false ∧ (postStop t q').emitted = t.emitted ∧
      (postStop t q').pulled = t.pulled ∧ (postStop t q').q = q' ∧ (postStop t q').iterOutcome = t.iterOutcome ∧
      ((postStop t q').cpc = .stopping ∨ (postStop t q').cpc = .shutdown) := by
    unfold postStop; split <;> simp [hp, hcp]
  obtain ⟨g1, g2, g3, g4, g5, g6⟩ := hfr
  refine clean_gen' hc ht rfl (fun sid h => h) ?_ hmaxE hstart' hstop' hret hprod
    (fun _ => ⟨allStopped_set ha rfl (fun h => by rw [g1] at h; cases h), hq'⟩) hl (by rw [g1, hp])
    (fun h => by simp [hp] at h) (fun h => by simp [hp] at h) (fun h => by simp [hp] at h) g2
    (fun h => by rw [g1] at h; cases h) (fun h => absurd rfl h) (fun _ => ?_)
  · show inputs0.flatten.Perm (((c.ths.set 0 (postStop t q')).map itemsOf).flatten ++ c.inputs.flatten)
    rw [flat_same itemsOf ht (by simp [itemsOf, handItems, g1, g3, hp])]
    exact hc.items
  · refine ⟨fun k hk => absurd (by rw [← g4]; exact hk) (m3 k), ?_, fun hk => absurd (by rw [← g4]; exact hk) m1,
      ?_, (fun _ => by rw [g5, hr]; rfl), (fun h => by rw [g5, hr] at h; cases h), ?_⟩
    · rintro (⟨k, hk⟩ | hk)
      · exact absurd (by rw [← g4]; exact hk) (m2 k)
      · exact absurd (by rw [← g4]; exact hk) m1
    · intro r' hr'
      rw [g5, hr] at hr'
      simp only [Option.some.injEq] at hr'
      exact ⟨by show r' = .stop s'.returned; rw [← hr', hrr, hret], hexhS hex⟩
    · rintro (h | h | h) <;> (rcases g6 with h2 | h2 <;> rw [h2] at h <;> cases h)

end MlModel.Piter
