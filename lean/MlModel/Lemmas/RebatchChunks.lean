/-!
# Vocabulary for C19's canonical-form theorems: `Chunked t L`

`L` is a list of chunks, every one but the last of length `t`, the last (if any) of length `1..t`.
`Chunked.unique`: a flat list has at most one such cutting.  Core Lean only.
-/
namespace MlModel.C19

/-- all chunks but the last have length `t`; the last has length `1..t` -/
def Chunked {β : Type} (t : Nat) : List (List β) → Prop
  | [] => True
  | [x] => 1 ≤ x.length ∧ x.length ≤ t
  | x :: y :: r => x.length = t ∧ Chunked t (y :: r)

theorem Chunked.head_pos {β : Type} {t : Nat} (ht : 0 < t) :
    ∀ (x : List β) (r : List (List β)), Chunked t (x :: r) → 1 ≤ x.length
  | _, [], h => h.1
  | _, _ :: _, h => by have := h.1; omega

theorem Chunked.head_le {β : Type} {t : Nat} :
    ∀ (x : List β) (r : List (List β)), Chunked t (x :: r) → x.length ≤ t
  | _, [], h => h.2
  | _, _ :: _, h => by have := h.1; omega

/-- A flat list has at most one `Chunked t` cutting. -/
theorem Chunked.unique {β : Type} {t : Nat} (ht : 0 < t) :
    ∀ (L L' : List (List β)), Chunked t L → Chunked t L' → L.flatten = L'.flatten → L = L'
  | [], [], _, _, _ => rfl
  | [], y :: ys, _, h', e => by
      have := Chunked.head_pos ht y ys h'
      have := congrArg List.length e
      simp only [List.flatten_cons, List.flatten_nil, List.length_append, List.length_nil] at this; omega
  | x :: xs, [], h, _, e => by
      have := Chunked.head_pos ht x xs h
      have := congrArg List.length e
      simp only [List.flatten_cons, List.flatten_nil, List.length_append, List.length_nil] at this; omega
  | [x], [y], _, _, e => by simpa using e
  | [x], y :: y' :: r, h, h', e => by
      have h1 := h.2
      have h2 := h'.1
      have h3 := Chunked.head_pos ht y' r h'.2
      have := congrArg List.length e
      simp only [List.flatten_cons, List.flatten_nil, List.length_append, List.length_nil] at this; omega
  | x :: x' :: r, [y], h, h', e => by
      have h1 := h'.2
      have h2 := h.1
      have h3 := Chunked.head_pos ht x' r h.2
      have := congrArg List.length e
      simp only [List.flatten_cons, List.flatten_nil, List.length_append, List.length_nil] at this; omega
  | x :: x' :: r, y :: y' :: r', h, h', e => by
      have hxy : x.length = y.length := by rw [h.1, h'.1]
      simp only [List.flatten_cons] at e
      obtain ⟨e1, e2⟩ := List.append_inj e hxy
      have := Chunked.unique ht (x' :: r) (y' :: r') h.2 h'.2 (by simpa using e2)
      rw [e1, this]

/-- `A ++ fin` is chunked when every element of `A` has length `t` and `fin` is empty or one
chunk of length `1..t`. -/
theorem Chunked.of_full_append {β : Type} {t : Nat} (ht : 0 < t) :
    ∀ (A fin : List (List β)), (∀ x ∈ A, x.length = t) →
      (fin = [] ∨ ∃ l, fin = [l] ∧ 1 ≤ l.length ∧ l.length ≤ t) → Chunked t (A ++ fin)
  | [], fin, _, hf => by
      rcases hf with rfl | ⟨l, rfl, h1, h2⟩
      · trivial
      · exact ⟨h1, h2⟩
  | [a], fin, hA, hf => by
      have ha := hA a (by simp)
      rcases hf with rfl | ⟨l, rfl, h1, h2⟩
      · exact ⟨by simp only [ha]; omega, by simp [ha]⟩
      · exact ⟨ha, h1, h2⟩
  | a :: a' :: r, fin, hA, hf => by
      refine ⟨hA a (by simp), ?_⟩
      exact Chunked.of_full_append ht (a' :: r) fin (fun x hx => hA x (by simp [hx])) hf

end MlModel.C19
