import MlModel.Lemmas.PiterCleanAll
/-!
# From the clean-run invariant to the end-of-iteration facts

* `stable_exc`: once every producer has stopped, no step records an exception;
* `exc_none_of_stop`: if the consumer holds / has raised `StopIteration(*returned)` (and did not stop
  early) then no exception is recorded — so the run is clean (`NF`);
* `covered`: every input has a producer.
-/
namespace MlModel.Piter
open MlModel.Queue

variable {F : Nat → Option (List Nat)} {inputs0 : List (List Item)}

theorem stable_exc {c c' : Cfg} {tid : Tid} {alt : Bool} {lbl : String} {t : PThread} (hb : Base c)
    (hn : NF c) (ha : AllStopped c) (ht : c.ths[tid]? = some t) (hk : StepKind F c tid alt t lbl c') :
    c'.sh.exc = none := by
  have hmem : t ∈ c.ths := List.mem_of_getElem? ht
  have htok : TOK t.q := hb.data.tok t.q (List.mem_of_getElem? (qcfg_get ht))
  cases hk with
  | pstart => exact hn.1
  | iacq => exact hn.1
  | inextL => exact hn.1
  | inextU hp hpc => have := ha t hmem hp; rw [hpc] at this; simp [pastStop] at this
  | irel hp hpc => have := ha t hmem hp; rw [hpc] at this; simp [pastStop] at this
  | @pq lbl s' q' hp hd hs0 hne hst =>
    have hps := ha t hmem hp
    obtain ⟨-, -, -, -, -, -, -, -, hx, -, -, -⟩ := stepThread_ctl lbl s' q' hst hne
    rcases hx with h | h | ⟨h, _⟩
    · show s'.exc = none; rw [h]; exact hn.1
    · rw [h] at hps; simp [pastStop] at hps
    · rw [h] at hps; simp [pastStop] at hps
  | cboot0 => exact hn.1
  | cboot => exact hn.1
  | csubmit => exact hn.1
  | @citer lbl s' q' hp hcp hst =>
    have hkb : t.q.prog.kind = .batch := (hb.static.kindC t hmem hp).2.1 hcp
    obtain ⟨-, -, -, n4, n5⟩ := cons_pc_ne htok (Or.inl hkb)
    obtain ⟨n6, -⟩ := batch_pc_ne htok hkb
    obtain ⟨-, -, -, -, -, -, -, -, hx, -, -, -⟩ := stepThread_ctl lbl s' q' hst n4
    rw [(afterIter_exc c t.q.pc s' { t with q := q' }).1]
    rcases hx with h | h | ⟨h, _⟩
    · rw [h]; exact hn.1
    · exact absurd h n5
    · exact absurd h n6
  | @cstop lbl s' q' hp hcp hst =>
    have hps : t.q.prog = .stopper none := (hb.static.kindC t hmem hp).2.2 hcp
    have hks : t.q.prog.kind = .stopper := by rw [hps]; rfl
    obtain ⟨-, -, -, n4, n5⟩ := cons_pc_ne htok (Or.inr hks)
    obtain ⟨-, -, -, -, -, -, -, -, hx, -, -, -⟩ := stepThread_ctl lbl s' q' hst n4
    rcases hx with h | h | ⟨_, h⟩
    · show s'.exc = none; rw [h]; exact hn.1
    · exact absurd h n5
    · exact absurd hps h
  | cshutdown => exact hn.1

/-- the consumer holds, or has raised, `StopIteration(*returned)` -/
def HoldsStop (t : PThread) : Prop :=
  (∃ r, t.iterOutcome = some (.stop r)) ∨
  (t.cpc = .iter ∧ (∃ r, t.q.x = .stop r) ∧ (t.q.pc = .bRaise ∨ ∃ k, t.q.pc = .nRelErr k))

/-- in a clean run, a consumer that holds `StopIteration` has seen `exhausted` -/
theorem allStopped_of_holds {c : Cfg} (hn : NF c) (hc : Clean F inputs0 c) {t0 : PThread}
    (h0 : c.ths[0]? = some t0) (hh : HoldsStop t0) : AllStopped c := by
  have hco := hc.cons t0 h0
  rcases hh with ⟨r, hr⟩ | ⟨_, ⟨r, hx⟩, hpc⟩
  · exact (hc.exh (hco.ended _ hr).2).1
  · have : (∃ k, t0.q.pc = .nRelErr k) ∨ t0.q.pc = .bRaise := hpc.symm
    rcases hco.armed this with h | ⟨_, h⟩
    · rw [hx] at h; cases h
    · exact (hc.exh h).1

end MlModel.Piter

namespace MlModel.Piter
open MlModel.Queue

variable {F : Nat → Option (List Nat)} {inputs0 : List (List Item)}

theorem exc_none_of_stop {cap bm mw : Nat} {ns : Option Nat} {soe : Bool} {inputs : List (List Item)}
    {prods : List ProdSpec} {c : Cfg} (h : Reachable F (init cap bm mw ns soe inputs prods) c) :
    ∀ t0, c.ths[0]? = some t0 → t0.early = false → HoldsStop t0 → c.sh.exc = none := by
  induction h with
  | init =>
    intro t0 h0 _ _
    rfl
  | @step c c' tid alt lbl hr hs ih =>
    intro t0' h0' he' hh'
    have hb := base_reachable (base_init cap bm mw ns soe inputs prods) hr
    obtain ⟨t, ht, hk⟩ := step_inv hs
    obtain ⟨T, hths, hip, -⟩ := step_frame ht hk
    have htid : tid < c.ths.length := by
      rcases List.getElem?_eq_some_iff.mp ht with ⟨h, _⟩; exact h
    -- if the premise already held before the step, all producers have stopped and nothing changes `exc`
    have hold : ∀ t0, c.ths[0]? = some t0 → t0.early = false → HoldsStop t0 → c'.sh.exc = none := by
      intro t0 h0 he hh
      have hx := ih t0 h0 he hh
      have hn : NF c := ⟨hx, fun u hu => by rw [h0] at hu; cases hu; exact he⟩
      have hc := clean_reachable hr hn
      exact stable_exc hb hn (allStopped_of_holds hn hc h0 hh) ht hk
    rw [hths] at h0'
    by_cases h0 : tid = 0
    · subst h0
      simp only [List.getElem?_set_self htid, Option.some.injEq] at h0'
      subst h0'
      have hp : t.isProd = false := by
        cases hpp : t.isProd with
        | false => rfl
        | true => exact absurd rfl ((hb.static.role 0 t ht).mp hpp)
      have hmem : t ∈ c.ths := List.mem_of_getElem? ht
      have htok : TOK t.q := hb.data.tok t.q (List.mem_of_getElem? (qcfg_get ht))
      cases hk with
      | pstart hp' => rw [hp] at hp'; cases hp'
      | iacq hp' => rw [hp] at hp'; cases hp'
      | inextL hp' => rw [hp] at hp'; cases hp'
      | inextU hp' => rw [hp] at hp'; cases hp'
      | irel hp' => rw [hp] at hp'; cases hp'
      | pq hp' => rw [hp] at hp'; cases hp'
      | cboot0 _ hcp =>
        simp only [Cfg.setTh, List.set_set] at hths
        have hT : T = beginIter c t := by
          have := congrArg (fun l => l[0]?) hths
          simpa [List.getElem?_set_self htid] using this.symm
        subst hT
        have hne : ¬ (c.numSteps == some 0) = true := by
          intro h; unfold beginIter at he'; simp [h] at he'
        have hT' : beginIter c t = { t with q := { t.q with pc := .bAcq }, cpc := .iter } := by
          unfold beginIter; simp [hne]
        rw [hT'] at hh' he'
        refine hold t ht he' ?_
        rcases hh' with h | ⟨_, _, h⟩
        · exact Or.inl h
        · rcases h with h | ⟨k, h⟩ <;> simp at h
      | cboot _ hcp =>
        simp only [Cfg.setTh] at hths
        have hT : T = { t with cpc := .submit } := by
          have := congrArg (fun l => l[0]?) hths
          simpa [List.getElem?_set_self htid] using this.symm
        subst hT
        refine hold t ht he' ?_
        rcases hh' with h | ⟨h, _⟩
        · exact Or.inl h
        · simp at h
      | csubmit _ hcp =>
        have hT : T = (if c.nsub + 1 ≥ c.nProd then beginIter c t else t) := by
          have := congrArg (fun l => l[0]?) hths
          simpa [List.getElem?_set_self htid] using this.symm
        subst hT
        by_cases hge : c.nsub + 1 ≥ c.nProd
        · simp only [hge, if_true] at hh' he'
          have hne : ¬ (c.numSteps == some 0) = true := by
            intro h; unfold beginIter at he'; simp [h] at he'
          have hT' : beginIter c t = { t with q := { t.q with pc := .bAcq }, cpc := .iter } := by
            unfold beginIter; simp [hne]
          rw [hT'] at hh' he'
          refine hold t ht he' ?_
          rcases hh' with h | ⟨_, _, h⟩
          · exact Or.inl h
          · rcases h with h | ⟨k, h⟩ <;> simp at h
        · simp only [hge, if_false] at hh' he'
          exact hold t ht he' hh'
      | @citer lbl s' q' _ hcp hst =>
        have hT : T = (afterIter c t.q.pc s' { t with q := q' }).2 := by
          have := congrArg (fun l => l[0]?) hths
          simpa [List.getElem?_set_self htid] using this.symm
        subst hT
        have hkb : t.q.prog.kind = .batch := (hb.static.kindC t hmem hp).2.1 hcp
        obtain ⟨-, -, -, n4, -⟩ := cons_pc_ne htok (Or.inl hkb)
        obtain ⟨-, -, -, a4, a5, a6, -, -, -⟩ := stepThread_arm lbl s' q' hst n4
        obtain ⟨-, -, -, -, -, -, -, -, -, -, -, halt⟩ := stepThread_ctl lbl s' q' hst n4
        have haltF : alt = false := by
          cases alt
          · rfl
          · exact absurd (halt rfl) (by rw [hb.static.timeout]; simp)
        have hte : t.early = false := by
          revert he'; unfold afterIter; (repeat' split) <;> simp
        show (afterIter c t.q.pc s' { t with q := q' }).1.exc = none
        rw [(afterIter_exc c t.q.pc s' { t with q := q' }).1]
        by_cases hht : HoldsStop t
        · have := hold t ht hte hht
          rwa [(afterIter_exc c t.q.pc s' { t with q := q' }).1] at this
        · rcases afterIter_nf c t.q.pc s' { t with q := q' } he' with ⟨hnb, hA⟩ | ⟨hbr, _, hA2⟩
          · rw [hA] at hh'
            rcases hh' with h | ⟨_, ⟨r, hx⟩, hpc⟩
            · exact absurd (Or.inl h) hht
            · rcases hpc with hpc | ⟨k, hpc⟩
              · rcases a5 hpc with h | ⟨h1, h2, _⟩
                · rw [haltF] at h; cases h
                · exfalso; apply hht
                  exact Or.inr ⟨hcp, ⟨r, by rw [← h2]; exact hx⟩, Or.inr ⟨_, h1⟩⟩
              · rcases a4 k hpc with h | ⟨h, _⟩
                · have hx' : q'.x = .stop r := hx
                  rw [hx'] at h; cases h
                · have hx' : q'.x = .stop r := hx
                  rw [hx'] at h
                  unfold Shared.final at h
                  cases hxx : s'.exc with
                  | none => rfl
                  | some e => rw [hxx] at h; cases h
          · obtain ⟨_, hout, _⟩ := a6 hbr
            exfalso; apply hht
            rcases hh' with ⟨r, h⟩ | ⟨h, _⟩
            · have hio : (afterIter c t.q.pc s' { t with q := q' }).2.iterOutcome = some t.q.x := by
                rcases hA2 with h2 | h2 <;> rw [h2] <;> simp [hout]
              rw [hio] at h
              simp only [Option.some.injEq] at h
              exact Or.inr ⟨hcp, ⟨r, h⟩, Or.inl hbr⟩
            · rcases hA2 with h2 | h2 <;> rw [h2] at h <;> simp at h
      | @cstop lbl s' q' _ hcp hst =>
        have hT : T = postStop t q' := by
          have := congrArg (fun l => l[0]?) hths
          simpa [List.getElem?_set_self htid] using this.symm
        subst hT
        have hfr : (postStop t q').early = t.early ∧ (postStop t q').iterOutcome = t.iterOutcome ∧
            (postStop t q').cpc ≠ .iter := by
          unfold postStop; split <;> simp [hcp]
        refine hold t ht (by rw [← hfr.1]; exact he') ?_
        rcases hh' with ⟨r, h⟩ | ⟨h, _⟩
        · exact Or.inl ⟨r, by rw [← hfr.2.1]; exact h⟩
        · exact absurd h hfr.2.2
      | cshutdown _ hcp =>
        simp only [Cfg.setTh] at hths
        have hT : T = { t with cpc := .fin } := by
          have := congrArg (fun l => l[0]?) hths
          simpa [List.getElem?_set_self htid] using this.symm
        subst hT
        refine hold t ht he' ?_
        rcases hh' with h | ⟨h, _⟩
        · exact Or.inl h
        · simp at h
    · rw [List.getElem?_set_ne h0] at h0'
      exact hold t0' h0' he' hh'

end MlModel.Piter

namespace MlModel.Piter
open MlModel.Queue

variable {F : Nat → Option (List Nat)} {inputs0 : List (List Item)}

/-! ### what `init` fixes for good: every input has a producer, the generators' return values -/

def Covered (c : Cfg) : Prop := ∀ i, i < c.inputs.length → ∃ t ∈ c.ths, t.isProd = true ∧ t.sid = i

def retP (t : PThread) : List Nat := if t.isProd then [retOf t] else []

def retsOf (c : Cfg) : List Nat := (c.ths.map retP).flatten

theorem fixed_step {c c' : Cfg} {tid : Tid} {alt : Bool} {lbl : String}
    (h : step F c tid alt = some (lbl, c')) : (Covered c → Covered c') ∧ retsOf c' = retsOf c := by
  obtain ⟨t, ht, hk⟩ := step_inv h
  obtain ⟨T, hths, hip, hsid, -, hret, hlen, -⟩ := step_frame ht hk
  constructor
  · intro hc i hi
    rw [hlen] at hi
    obtain ⟨u, hu, hp, hs⟩ := hc i hi
    obtain ⟨j, hj⟩ := List.getElem?_of_mem hu
    rw [hths]
    by_cases hjt : j = tid
    · subst hjt
      rw [ht] at hj; cases hj
      have htid : j < c.ths.length := by
        rcases List.getElem?_eq_some_iff.mp ht with ⟨h, _⟩; exact h
      exact ⟨T, List.mem_of_getElem? (i := j) (List.getElem?_set_self htid), by rw [hip]; exact hp,
        by rw [hsid]; exact hs⟩
    · exact ⟨u, List.mem_of_getElem? (by rw [List.getElem?_set_ne (Ne.symm hjt)]; exact hj), hp, hs⟩
  · unfold retsOf
    rw [hths, flat_same retP ht]
    unfold retP
    rw [hip]
    cases hp : t.isProd with
    | false => rfl
    | true => simp [hret hp]

theorem fixed_reachable {c0 c : Cfg} (h : Reachable F c0 c) : (Covered c0 → Covered c) ∧ retsOf c = retsOf c0 := by
  induction h with
  | init => exact ⟨id, rfl⟩
  | step _ hs ih =>
    obtain ⟨h1, h2⟩ := fixed_step hs
    exact ⟨fun h => h1 (ih.1 h), h2.trans ih.2⟩

theorem retsOf_init (cap bm mw : Nat) (ns : Option Nat) (soe : Bool) (inputs : List (List Item))
    (prods : List ProdSpec) : retsOf (init cap bm mw ns soe inputs prods) = prods.map (·.ret) := by
  unfold retsOf init
  simp only [List.map_cons, List.flatten_cons]
  have : ∀ ps : List ProdSpec, ((ps.map mkProducer).map retP).flatten = ps.map (·.ret) := by
    intro ps
    induction ps with
    | nil => rfl
    | cons p ps ih =>
      simp only [List.map_cons, List.flatten_cons, ih]
      simp [retP, mkProducer, retOf]
  rw [this]; simp [retP, mkConsumer]

/-- the sequential evaluation of `iter_fn` over the items of an input: `none` if the input or the
function raises anywhere -/
def seqEval (F : Nat → Option (List Nat)) : List Item → Option (List Nat)
  | [] => some []
  | .fail :: _ => none
  | .val v :: rest =>
    match F v, seqEval F rest with
    | some l, some r => some (l ++ r)
    | _, _ => none

theorem seqEval_ok (F : Nat → Option (List Nat)) (items : List Item)
    (h : ∀ i ∈ items, ∃ v, i = .val v ∧ (F v).isSome = true) : seqEval F items = some (FMv F (vals items)) := by
  induction items with
  | nil => rfl
  | cons i rest ih =>
    obtain ⟨v, rfl, hv⟩ := h i (by simp)
    have := ih (fun j hj => h j (by simp [hj]))
    obtain ⟨l, hl⟩ := Option.isSome_iff_exists.mp hv
    simp [seqEval, this, hl, FMv, vals]

theorem vals_map_val (l : List Nat) : vals (l.map Item.val) = l := by
  induction l with
  | nil => rfl
  | cons a as ih => simp [vals] at ih ⊢; exact ih

theorem flatten_map_FMv (F : Nat → Option (List Nat)) (l : List PThread) :
    (l.map fun t => FMv F t.pulled).flatten = FMv F (l.map (·.pulled)).flatten := by
  induction l with
  | nil => rfl
  | cons a as ih => simp [FMv_append, ih]

theorem flatten_map_val (l : List PThread) :
    (l.map fun t => t.pulled.map Item.val).flatten = ((l.map (·.pulled)).flatten).map Item.val := by
  induction l with
  | nil => rfl
  | cons a as ih => simp [ih]

theorem flatten_nil_of {α : Type} (l : List (List α)) (h : ∀ i, i < l.length → (l[i]?).getD [] = []) :
    l.flatten = [] := by
  rw [List.flatten_eq_nil_iff]
  intro x hx
  obtain ⟨i, hi⟩ := List.getElem?_of_mem hx
  have hlt : i < l.length := by
    rcases List.getElem?_eq_some_iff.mp hi with ⟨h, _⟩; exact h
  have := h i hlt
  rw [hi] at this; exact this

end MlModel.Piter

namespace MlModel.Piter
open MlModel.Queue

variable {F : Nat → Option (List Nat)} {inputs0 : List (List Item)}

theorem not_pend_of_stop {pc : Pc} (h : pastStop pc = true) : pendPc pc = false := by
  cases hp : pendPc pc with
  | false => rfl
  | true => rw [pend_not_stop hp] at h; cases h

theorem inHand_of_kind {t : Queue.Thread} (htok : TOK t) (hk : t.prog.kind = .stopper) : inHandPc t.pc = false := by
  cases hp : inHandPc t.pc with
  | false => rfl
  | true =>
    exfalso
    cases hpc : t.pc <;> simp [hpc, inHandPc] at hp <;>
      first
      | (have := htok.kind .get (by rw [hpc]; rfl); rw [hk] at this; cases this)
      | (rename_i k; cases k
         · have := htok.kind .get (by rw [hpc]; rfl); rw [hk] at this; cases this
         · have := htok.kind .batch (by rw [hpc]; rfl); rw [hk] at this; cases this)

/-- **end of a clean iteration**: the consumer raised `StopIteration(*r)` without having stopped early -/
theorem end_facts {cap bm mw : Nat} {ns : Option Nat} {soe : Bool} {inputs : List (List Item)}
    {prods : List ProdSpec} {c : Cfg} (h : Reachable F (init cap bm mw ns soe inputs prods) c)
    (hcov : Covered (init cap bm mw ns soe inputs prods))
    {t0 : PThread} (h0 : c.ths[0]? = some t0) {r : List Nat} (hout : t0.iterOutcome = some (.stop r))
    (he : t0.early = false) :
    c.sh.exc = none ∧ AllStopped c ∧ c.sh.q = [] ∧ c.sh.returned = r ∧
    r.Perm (prods.map (·.ret)) ∧
    (∃ out, seqEval F inputs.flatten = some out ∧ (t0.q.received.map (·.2)).Perm out) := by
  have hx := exc_none_of_stop h t0 h0 he (Or.inl ⟨r, hout⟩)
  have hn : NF c := ⟨hx, fun u hu => by rw [h0] at hu; cases hu; exact he⟩
  have hc := clean_reachable h hn
  have hb := base_reachable (base_init cap bm mw ns soe inputs prods) h
  have hco := hc.cons t0 h0
  obtain ⟨hrr, hex⟩ := hco.ended _ hout
  have hret : c.sh.returned = r := by cases hrr; rfl
  obtain ⟨ha, hq0⟩ := hc.exh hex
  obtain ⟨hcovC, hretsC⟩ := fixed_reachable h
  have hcovC := hcovC hcov
  have hmem0 : t0 ∈ c.ths := List.mem_of_getElem? h0
  have hp0 : t0.isProd = false := by
    cases hpp : t0.isProd with
    | false => rfl
    | true => exact absurd rfl ((hb.static.role 0 t0 h0).mp hpp)
  -- every thread's emitted values are the row function over what it pulled
  have hem : ∀ t ∈ c.ths, t.emitted = FMv F t.pulled ∧ itemsOf t = t.pulled.map Item.val ∧
      retL t = retP t := by
    intro t ht
    cases hp : t.isProd with
    | false =>
      obtain ⟨e1, e2⟩ := hb.static.consE t ht hp
      simp [e1, e2, FMv, itemsOf, handItems, hp, retL, retP]
    | true =>
      have ho := hc.prod t ht hp
      have hps := ha t ht hp
      have hbal := ho.bal
      simp only [holdV, not_pend_of_stop hps, (ho.stopped hps).1, List.append_nil] at hbal
      refine ⟨by simpa using hbal, ?_, by simp [retL, retP, hp, hps]⟩
      have : t.q.pc ≠ .eNext := by intro h; rw [h] at hps; simp [pastStop] at hps
      simp [itemsOf, handItems, this]
  refine ⟨hx, ha, hq0, hret, ?_, ?_⟩
  · -- the return values
    rw [← hret, ← retsOf_init cap bm mw ns soe inputs prods, ← hretsC]
    unfold retsOf
    rw [← List.map_congr_left (fun t ht => (hem t ht).2.2)]
    exact hc.rets
  · -- the outputs
    -- (a) everything put was received by the consumer
    have hdata := hb.data
    have hseq0 : seqOf t0.q = t0.q.received := by
      have hcpc : t0.cpc = .stopping ∨ t0.cpc = .shutdown ∨ t0.cpc = .fin := by
        cases hcp : t0.cpc <;> simp
        all_goals
          have := hco.live (by simp [hcp])
          rw [hout] at this; cases this
      have htok : TOK t0.q := hdata.tok t0.q (List.mem_of_getElem? (qcfg_get h0))
      rcases hcpc with h1 | h1
      · have hps := (hb.static.kindC t0 hmem0 hp0).2.2 h1
        have hk : t0.q.prog.kind = .stopper := by rw [hps]; rfl
        have hres := htok.res (by rw [hk]; simp)
        simp [seqOf, inHand, hres, inHand_of_kind htok hk]
      · obtain ⟨hd, hres⟩ := hb.static.endC t0 hmem0 hp0 h1
        simp [seqOf, inHand, hres, hd, inHandPc]
    have hsum : sumSeq (qcfg c).ths = t0.q.received := by
      cases hl : c.ths with
      | nil => rw [hl] at h0; cases h0
      | cons a rest =>
        rw [hl] at h0
        simp only [List.getElem?_cons_zero, Option.some.injEq] at h0
        subst h0
        have hrest : (rest.map fun t => seqOf t.q).flatten = [] := by
          rw [List.flatten_eq_nil_iff]
          intro x hx
          obtain ⟨u, hu, rfl⟩ := List.mem_map.mp hx
          obtain ⟨j, hj⟩ := List.getElem?_of_mem hu
          have hpu : u.isProd = true :=
            (hb.static.role (j + 1) u (by rw [hl]; simpa using hj)).mpr (by omega)
          exact hb.static.seqP u (by rw [hl]; simp [hu]) hpu
        simp only [sumSeq, qcfg, hl, List.map_cons, List.map_map, List.flatten_cons]
        rw [show (rest.map ((fun t => seqOf t) ∘ fun t => t.q)) = rest.map fun t => seqOf t.q from rfl, hrest,
          hseq0]
        simp
    have hprodrec : c.sh.produced.Perm t0.q.received := by
      have h1 := hdata.fifo
      have h2 := hdata.cons
      simp only [qcfg] at h1 h2
      rw [hq0, List.append_nil] at h1
      rw [h1]
      have h3 : sumSeq (qcfg c).ths = t0.q.received := hsum
      simp only [qcfg] at h3
      rw [h3, hc.lost, List.append_nil] at h2
      exact h2
    -- (b) what was put = the row function over everything pulled
    have hall : (c.ths.map (·.emitted)).flatten = FMv F (c.ths.map (·.pulled)).flatten := by
      rw [← flatten_map_FMv, List.map_congr_left (fun t ht => (hem t ht).1)]
    -- (c) everything pulled = all the inputs
    have hin : c.inputs.flatten = [] := by
      apply flatten_nil_of
      intro i hi
      obtain ⟨u, hu, hpu, hsu⟩ := hcovC i hi
      have := ((hc.prod u hu hpu).stopped (ha u hu hpu)).2
      rw [hsu] at this; exact this
    have hitems : inputs.flatten.Perm (((c.ths.map (·.pulled)).flatten).map Item.val) := by
      have := hc.items
      rw [hin, List.append_nil, List.map_congr_left (fun t ht => (hem t ht).2.1), flatten_map_val] at this
      exact this
    have hok : ∀ i ∈ inputs.flatten, ∃ v, i = .val v ∧ (F v).isSome = true := by
      intro i hi
      have := hitems.subset hi
      obtain ⟨v, hv, rfl⟩ := List.mem_map.mp this
      refine ⟨v, rfl, ?_⟩
      obtain ⟨l, hl, hvl⟩ := List.mem_flatten.mp hv
      obtain ⟨u, hu, rfl⟩ := List.mem_map.mp hl
      cases hpu : u.isProd with
      | true => exact (hc.prod u hu hpu).okF v hvl
      | false => rw [(hb.static.consE u hu hpu).2] at hvl; cases hvl
    refine ⟨_, seqEval_ok F _ hok, ?_⟩
    have hv : (vals inputs.flatten).Perm (c.ths.map (·.pulled)).flatten := by
      have h1 : (vals inputs.flatten).Perm (vals (((c.ths.map (·.pulled)).flatten).map Item.val)) := by
        unfold vals; exact hitems.filterMap _
      rw [vals_map_val] at h1; exact h1
    have h1 : (c.sh.produced.map (·.2)).Perm (t0.q.received.map (·.2)) := hprodrec.map _
    have h2 := hc.emitted
    rw [hall] at h2
    exact (h1.symm.trans h2).trans (List.Perm.flatMap_right _ hv.symm)

end MlModel.Piter

namespace MlModel.Piter
open MlModel.Queue

variable {F : Nat → Option (List Nat)}

/-! ### replaying a schedule (for the non-vacuity examples) -/

/-- run a schedule of thread ids (no timeout alternatives) -/
def exec (F : Nat → Option (List Nat)) : Cfg → List Tid → Option Cfg
  | c, [] => some c
  | c, tid :: rest =>
    match step F c tid false with
    | none => none
    | some (_, c') => exec F c' rest

theorem reachable_of_exec : ∀ (sched : List Tid) (c c' : Cfg), exec F c sched = some c' → Reachable F c c' := by
  intro sched
  induction sched with
  | nil => intro c c' h; simp only [exec, Option.some.injEq] at h; rw [← h]; exact .init
  | cons x xs ih =>
    intro c c' h
    simp only [exec] at h
    split at h
    · cases h
    · rename_i lbl c1 hs
      have h1 := ih c1 c' h
      clear h ih
      induction h1 with
      | init => exact .step .init hs
      | step _ hs2 ih2 => exact .step ih2 hs2

theorem reachable_exec (c : Cfg) (sched : List Tid) (h : (exec F c sched).isSome = true) :
    Reachable F c ((exec F c sched).get h) :=
  reachable_of_exec sched c _ (Option.some_get h).symm

end MlModel.Piter
