import MlModel.Lemmas.PrefetchInit
import MlModel.Lemmas.QueueStop
/-!
# A generator that is exhausted has a prefetch thread past its last `put` — or is being stopped

`step_qeff` describes the queue-level side of every step of the server LTS: either no `IteratorQueue` is touched,
or exactly one embedded `Queue.stepThread` is executed on the queue the thread works on.  On top of it `SInv`,
for ANY list of request threads and any schedule, ties the fields `enqueue_done` reads and `exhausted` of every
queue to the phase of its (unique) prefetch thread and to the locked stops in progress.
-/
namespace MlModel.Prefetch
open MlModel.Queue (ph stopping pcKind)
set_option linter.unusedSimpArgs false

/-- the queue-level side of one step of thread `tid` -/
inductive QEff (c c' : Cfg) (tid : Queue.Tid) (t t' : Thread) : Prop where
  /-- no queue is touched (a fresh one may be appended) -/
  | none (hqs : ∀ (k : Nat) (q : Queue.Shared), c.sh.qs[k]? = some q → c'.sh.qs[k]? = some q)
      (hnew : ∀ (k : Nat) (q : Queue.Shared), c'.sh.qs[k]? = some q → c.sh.qs[k]? = some q ∨
        (k = c.sh.qs.length ∧ q = freshQueue c.sh.prefetch))
      (hpc : t.pc ≠ .lkStop ∧ t.pc ≠ .nbGet ∧ t.pc ≠ .prod ∧ t.pc ≠ .done)
      (hprod : t'.pc = .prod → t.pc = .start ∧ t'.qt = t.qt ∧ t.prog = .producer t'.g)
      (hstop : t'.pc = .lkStop → t'.qt.pc = .mAcq)
      (hget : t'.pc = .nbGet → t'.qt.pc = .bAcq)
      (hstart : t'.pc = .start → t.pc = .start ∧ t'.qt = t.qt)
      (hjoin : t.pc = .lkJoin → ∃ (p : Queue.Tid) (tp : Thread), c.sh.enqThread = some p ∧ c.ths[p]? = some tp ∧ tp.pc = .done)
      (hstartP : t.pc = .start → ∀ k, t.prog = .producer k → t'.pc = .prod)
  /-- one embedded queue-level step on the queue `t.g` -/
  | op (q q' : Queue.Shared) (qt' : Queue.Thread) (lbl0 : String)
      (hq : c.sh.qs[t.g]? = some q) (hst : Queue.stepThread q t.qt tid false = some (lbl0, q', qt'))
      (hq' : c'.sh.qs[t.g]? = some q')
      (hqs : ∀ (k : Nat) (q0 : Queue.Shared), k ≠ t.g → c.sh.qs[k]? = some q0 → c'.sh.qs[k]? = some q0)
      (hnew : ∀ (k : Nat) (q0 : Queue.Shared), k ≠ t.g → c'.sh.qs[k]? = some q0 → c.sh.qs[k]? = some q0 ∨
        (k = c.sh.qs.length ∧ q0 = freshQueue c.sh.prefetch))
      (hpc : t.pc = .lkStop ∨ t.pc = .nbGet ∨ t.pc = .prod)
      (hprod : t.pc = .prod → (t'.pc = .prod ∧ t'.qt = qt' ∧ t'.g = t.g ∧ qt'.pc ≠ .done) ∨
        (t'.pc = .done ∧ qt'.pc = .done))
      (hget : t.pc = .nbGet → (t'.pc = .nbGet ∧ t'.qt = qt' ∧ t'.g = t.g ∧ qt'.pc ≠ .done) ∨ t'.pc = .nbTxA)
      (hstop : t.pc = .lkStop → (t'.pc = .lkStop ∧ t'.qt = qt' ∧ t'.g = t.g ∧ qt'.pc ≠ .done) ∨
        (qt'.pc = .done ∧ (t'.pc = .lkJoin ∨ t'.pc = .lkRel ∨ t'.pc = .iiSpawn) ∧
          ((t'.pc = .lkJoin ∧ t'.g = t.g) ∨ qt'.outcome.isSome = true ∨ c.sh.enqThread = none)))

theorem qs_append_old {qs : List Queue.Shared} {x : Queue.Shared} {k : Nat} {q : Queue.Shared}
    (h : qs[k]? = some q) : (qs ++ [x])[k]? = some q := by
  have hlt : k < qs.length := by
    rcases List.getElem?_eq_some_iff.mp h with ⟨h, _⟩; exact h
  rw [List.getElem?_append_left hlt]; exact h

theorem qs_append_inv {qs : List Queue.Shared} {x : Queue.Shared} {k : Nat} {q : Queue.Shared}
    (h : (qs ++ [x])[k]? = some q) : qs[k]? = some q ∨ (k = qs.length ∧ q = x) := by
  by_cases hk : k < qs.length
  · rw [List.getElem?_append_left hk] at h; exact Or.inl h
  · rw [List.getElem?_append_right (Nat.le_of_not_lt hk)] at h
    cases hd : k - qs.length with
    | zero =>
      rw [hd] at h
      simp only [List.getElem?_cons_zero, Option.some.injEq] at h
      exact Or.inr ⟨Nat.le_antisymm (Nat.sub_eq_zero_iff_le.mp hd) (Nat.le_of_not_lt hk), h.symm⟩
    | succ n => rw [hd] at h; simp at h

theorem qs_set_other {qs : List Queue.Shared} {g k : Nat} {x q : Queue.Shared} (hk : k ≠ g)
    (h : qs[k]? = some q) : (qs.set g x)[k]? = some q := by
  rw [List.getElem?_set_ne (Ne.symm hk)]; exact h

theorem qs_set_other_inv {qs : List Queue.Shared} {g k : Nat} {x q : Queue.Shared} (hk : k ≠ g)
    (h : (qs.set g x)[k]? = some q) : qs[k]? = some q := by
  rw [List.getElem?_set_ne (Ne.symm hk)] at h; exact h

set_option hygiene false in
macro "qeff_none" : tactic => `(tactic|
  (refine QEff.none ?_ ?_ ?_ ?_ ?_ ?_ ?_ ?_ ?_ <;>
    (first
      | (simp [setTh, *]; done)
      | (intro k q hk; first | exact hk | exact Or.inl hk | exact qs_append_old hk | exact qs_append_inv hk))))

set_option hygiene false in
macro "qeff_split" : tactic => `(tactic|
  ((repeat' split at h) <;> (try (simp at *; done)) <;>
    simp only [Option.some.injEq, Prod.mk.injEq] at h <;> obtain ⟨-, rfl⟩ := h))

set_option hygiene false in
macro "qeff_self" : tactic => `(tactic|
  (first | (simp [setTh, List.getElem?_set_self hlt]; done)
         | (simp [setTh, List.getElem?_set_self hlt, List.getElem?_append_left, hlt]; done)))

set_option maxHeartbeats 400000 in
theorem step_qeff {c c' : Cfg} {tid : Queue.Tid} {lbl : String} {t : Thread}
    (ht : c.ths[tid]? = some t) (h : step c tid = some (lbl, c')) :
    ∃ t', c'.ths[tid]? = some t' ∧ QEff c c' tid t t' := by
  have hlt : tid < c.ths.length := by
    rcases List.getElem?_eq_some_iff.mp ht with ⟨h, _⟩; exact h
  unfold step at h
  simp only [ht] at h
  cases hpc : t.pc <;> simp only [hpc] at h
  case done => simp at h
  case prod =>
    cases hq : c.sh.qs[t.g]? with
    | none => simp [hq] at h
    | some q =>
      have hglt : t.g < c.sh.qs.length := by
        rcases List.getElem?_eq_some_iff.mp hq with ⟨h, _⟩; exact h
      simp only [hq] at h
      cases hst : Queue.stepThread q t.qt tid false with
      | none => simp [hst] at h
      | some res =>
        obtain ⟨lbl0, q', qt'⟩ := res
        simp only [hst] at h
        split at h <;> simp only [Option.some.injEq, Prod.mk.injEq] at h <;> obtain ⟨-, rfl⟩ := h <;>
          refine ⟨_, getElem?_setTh ht _ _, QEff.op q q' qt' lbl0 hq hst (by simp [setTh, List.getElem?_set_self hglt])
            (fun k q0 hk h0 => qs_set_other hk h0) (fun k q0 hk h0 => Or.inl (qs_set_other_inv hk h0))
            (Or.inr (Or.inr hpc)) ?_ (by simp [hpc]) (by simp [hpc])⟩
        · rename_i hd; intro _; exact Or.inr ⟨rfl, by simpa using hd⟩
        · rename_i hd; intro _; exact Or.inl ⟨rfl, rfl, rfl, by simpa using hd⟩
  case nbGet =>
    cases hq : c.sh.qs[t.g]? with
    | none => simp [hq] at h
    | some q =>
      have hglt : t.g < c.sh.qs.length := by
        rcases List.getElem?_eq_some_iff.mp hq with ⟨h, _⟩; exact h
      simp only [hq] at h
      cases hst : Queue.stepThread q t.qt tid false with
      | none => simp [hst] at h
      | some res =>
        obtain ⟨lbl0, q', qt'⟩ := res
        simp only [hst] at h
        split at h <;> simp only [Option.some.injEq, Prod.mk.injEq] at h <;> obtain ⟨-, rfl⟩ := h <;>
          refine ⟨_, getElem?_setTh ht _ _, QEff.op q q' qt' lbl0 hq hst (by simp [setTh, List.getElem?_set_self hglt])
            (fun k q0 hk h0 => qs_set_other hk h0) (fun k q0 hk h0 => Or.inl (qs_set_other_inv hk h0))
            (Or.inr (Or.inl hpc)) (by simp [hpc]) ?_ (by simp [hpc])⟩
        · intro _; exact Or.inr rfl
        · rename_i hd; intro _; exact Or.inl ⟨rfl, rfl, rfl, by simp at hd; exact hd.2⟩
  case lkStop =>
    cases hq : c.sh.qs[t.g]? with
    | none => simp [hq] at h
    | some q =>
      have hglt : t.g < c.sh.qs.length := by
        rcases List.getElem?_eq_some_iff.mp hq with ⟨h, _⟩; exact h
      simp only [hq] at h
      cases hst : Queue.stepThread q t.qt tid false with
      | none => simp [hst] at h
      | some res =>
        obtain ⟨lbl0, q', qt'⟩ := res
        simp only [hst, afterStop, install, failInit] at h
        cases hprog : t.prog <;> simp only [hprog] at h <;> qeff_split <;>
          refine ⟨_, getElem?_setTh ht _ _, QEff.op q q' qt' lbl0 hq hst
            (by simp [setTh, List.getElem?_set_self hglt, List.getElem?_append_left, hglt])
            (fun k q0 hk h0 => by
              first | exact qs_set_other hk h0 | exact qs_append_old (qs_set_other hk h0))
            (fun k q0 hk h0 => by
              first
              | exact Or.inl (qs_set_other_inv hk h0)
              | (rcases qs_append_inv h0 with h1 | ⟨h1, h2⟩
                 · exact Or.inl (qs_set_other_inv hk h1)
                 · exact Or.inr ⟨by simpa using h1, h2⟩))
            (Or.inl hpc) (by simp [hpc]) (by simp [hpc]) ?_⟩ <;>
          intro _ <;> simp_all
  case lkJoin =>
    cases he : c.sh.enqThread with
    | none => simp [he] at h
    | some p =>
      simp only [he] at h
      cases hp : c.ths[p]? with
      | none => simp [hp] at h
      | some tp =>
        simp only [hp, afterStop, install, failInit] at h
        split at h
        · simp at h
        · rename_i hdn
          have hdn : tp.pc = .done := by simpa using hdn
          cases hprog : t.prog <;> simp only [hprog] at h <;> qeff_split <;>
            exact ⟨_, getElem?_setTh ht _ _, by qeff_none⟩
  case iiSpawn =>
    cases hg : gen? t.prog with
    | none => simp [hg] at h
    | some g =>
      simp only [hg, Option.some.injEq, Prod.mk.injEq] at h
      obtain ⟨-, rfl⟩ := h
      refine ⟨{ t with pc := .lkRel }, ?_, by qeff_none⟩
      simp [List.getElem?_append_left, hlt, List.getElem?_set_self hlt]
  case lkAcq =>
    simp only [beginStop, install, failInit] at h
    cases hprog : t.prog <;> simp only [hprog] at h <;> qeff_split <;> exact ⟨_, getElem?_setTh ht _ _, by qeff_none⟩
  case lkRel =>
    cases hprog : t.prog <;> simp only [hprog] at h <;> qeff_split <;> exact ⟨_, getElem?_setTh ht _ _, by qeff_none⟩
  case start =>
    simp only [callNext, beginNext] at h
    cases hprog : t.prog <;> simp only [hprog] at h <;> qeff_split <;> exact ⟨_, getElem?_setTh ht _ _, by qeff_none⟩
  all_goals
    try simp only [callNext, beginNext, receive] at h
    qeff_split <;> exact ⟨_, getElem?_setTh ht _ _, by qeff_none⟩

/-! ### the invariant -/

/-- the prefetch thread is past its last `put`: inside `_stop_enqueue`, or it has finished -/
def PastPut (t : Thread) : Prop := t.pc = .done ∨ (t.pc = .prod ∧ ph t.qt.pc = 2)
/-- … has not yet counted itself in (`_start_enqueue`) -/
def PreP (t : Thread) : Prop := t.pc = .start ∨ (t.pc = .prod ∧ ph t.qt.pc = 0)
/-- … is inside the enqueue loop -/
def MidP (t : Thread) : Prop := t.pc = .prod ∧ ph t.qt.pc = 1

structure SInv (c : Cfg) : Prop where
  shapeP : ∀ (tid : Queue.Tid) (t : Thread) (k : Nat), c.ths[tid]? = some t → t.prog = .producer k →
    (t.pc = .start ∧ t.qt.pc = .sAcq) ∨ (t.pc = .prod ∧ t.g = k ∧ pcKind t.qt.pc = some .producer) ∨ t.pc = .done
  shapeS : ∀ (tid : Queue.Tid) (t : Thread), c.ths[tid]? = some t → t.pc = .lkStop →
    pcKind t.qt.pc = some .stopper ∧
    (t.qt.pc ≠ .mAcq → ∃ q, c.sh.qs[t.g]? = some q ∧ q.stopRequested = true)
  shapeC : ∀ (tid : Queue.Tid) (t : Thread), c.ths[tid]? = some t → t.pc = .nbGet → pcKind t.qt.pc = some .batch
  /-- the fields `enqueue_done` reads, as long as nobody has requested a stop -/
  num : ∀ (k : Nat) (q : Queue.Shared), c.sh.qs[k]? = some q → q.stopRequested = false →
    ((∀ (tp : Queue.Tid) (P : Thread), c.ths[tp]? = some P → P.prog = .producer k → PreP P) →
      q.start = 0 ∧ q.stop = 0 ∧ q.maxEnq = 0 ∧ q.exc = none) ∧
    (∀ (tp : Queue.Tid) (P : Thread), c.ths[tp]? = some P → P.prog = .producer k → MidP P →
      q.start = 1 ∧ q.stop = 0 ∧ q.maxEnq = 1 ∧ q.exc = none)
  /-- an exhausted queue: a stop was requested, or its prefetch thread is past its last `put` -/
  exh : ∀ (k : Nat) (q : Queue.Shared), c.sh.qs[k]? = some q → q.exhausted = true →
    q.stopRequested = true ∨
    ∃ (tp : Queue.Tid) (P : Thread), c.ths[tp]? = some P ∧ P.prog = .producer k ∧ PastPut P
  /-- a requested stop: its prefetch thread has ended, or the locked stop is still in progress -/
  stopReq : ∀ (k : Nat) (q : Queue.Shared), c.sh.qs[k]? = some q → q.stopRequested = true →
    (∃ (tp : Queue.Tid) (P : Thread), c.ths[tp]? = some P ∧ P.prog = .producer k ∧ P.pc = .done) ∨
    (∃ (a : Queue.Tid) (A : Thread), c.ths[a]? = some A ∧ (A.pc = .lkStop ∨ A.pc = .lkJoin) ∧ A.g = k)

theorem stopping_kind {pc : Queue.Pc} (h : stopping pc = true) : pcKind pc = some .stopper := by
  cases pc <;> simp_all [stopping, pcKind]

theorem ph_cases (pc : Queue.Pc) : ph pc = 0 ∨ ph pc = 1 ∨ ph pc = 2 := by
  cases pc <;> simp [ph]

theorem ph_sAcq : ph .sAcq = 0 := rfl

theorem kind_sAcq : pcKind .sAcq = some .producer := rfl

theorem not_done_of_zero {q : Queue.Shared} (h0 : q.stopRequested = false)
    (h : q.start = 0 ∧ q.stop = 0 ∧ q.maxEnq = 0 ∧ q.exc = none) : q.enqueueDone = false := by
  obtain ⟨a, b, d, e⟩ := h
  simp [Queue.Shared.enqueueDone, h0, a, b, d, e]

theorem not_done_of_one {q : Queue.Shared} (h0 : q.stopRequested = false)
    (h : q.start = 1 ∧ q.stop = 0 ∧ q.maxEnq = 1 ∧ q.exc = none) : q.enqueueDone = false := by
  obtain ⟨a, b, d, e⟩ := h
  simp [Queue.Shared.enqueueDone, h0, a, b, d, e]

theorem fresh_vals (p : Nat) : (freshQueue p).stopRequested = false ∧ (freshQueue p).exhausted = false ∧
    (freshQueue p).start = 0 ∧ (freshQueue p).stop = 0 ∧ (freshQueue p).maxEnq = 0 ∧ (freshQueue p).exc = none :=
  ⟨rfl, rfl, rfl, rfl, rfl, rfl⟩

theorem sinv_init (p : Nat) (progs : List Prog) (hreq : Requests progs) : SInv (init p progs) := by
  have hstart : ∀ (tid : Queue.Tid) (t : Thread), (init p progs).ths[tid]? = some t →
      t.pc = .start ∧ ∀ k, t.prog ≠ .producer k := by
    intro tid t ht
    cases tid with
    | zero =>
      simp only [init, List.getElem?_cons_zero, Option.some.injEq] at ht; subst ht
      exact ⟨rfl, by intro k hk; cases hk⟩
    | succ n =>
      simp only [init, List.getElem?_cons_succ, List.getElem?_map, Option.map_eq_some_iff] at ht
      obtain ⟨p0, hp0, rfl⟩ := ht
      exact ⟨rfl, hreq p0 (List.mem_of_getElem? hp0)⟩
  refine ⟨?_, ?_, ?_, ?_, ?_, ?_⟩
  · intro tid t k ht hp; exact absurd hp ((hstart tid t ht).2 k)
  · intro tid t ht hpc; rw [(hstart tid t ht).1] at hpc; cases hpc
  · intro tid t ht hpc; rw [(hstart tid t ht).1] at hpc; cases hpc
  · intro k q hq; simp [init] at hq
  · intro k q hq; simp [init] at hq
  · intro k q hq; simp [init] at hq

end MlModel.Prefetch
