import MlModel.Lemmas.TreeSame
/-!
# Executable checkers for the hypotheses of the C18 theorems (used for the non-vacuity examples)
-/
namespace MlModel.Tree

/-- Boolean check of `Closed`. -/
def closedB (h : Heap) : Bool := h.toList.all fun n => n.refs.all (· < h.size)

theorem closedB_sound {h : Heap} (hb : closedB h = true) : Closed h := by
  intro r n hn c hc
  unfold closedB at hb
  rw [List.all_eq_true] at hb
  have hmem : n ∈ h.toList := by
    have hlt := lt_size_of_get hn
    have : h[r] = n := by
      have := Array.getElem?_eq_getElem hlt
      rw [this] at hn; cases hn; rfl
    rw [← this]
    exact Array.getElem_mem_toList hlt
  have := hb n hmem
  rw [List.all_eq_true] at this
  simpa using this c hc

/-- Boolean check of `WF` with a recursion bound. -/
def wfB (h : Heap) : Nat → Ref → Bool
  | 0, _ => false
  | fuel + 1, r =>
    match h[r]? with
    | none => false
    | some n => n.refs.all (wfB h fuel)

theorem wfB_sound {h : Heap} : ∀ (fuel : Nat) (r : Ref), wfB h fuel r = true → WF h r := by
  intro fuel
  induction fuel with
  | zero => intro r hb; simp [wfB] at hb
  | succ f ih =>
    intro r hb
    simp only [wfB] at hb
    split at hb
    · cases hb
    · rename_i n hn
      rw [List.all_eq_true] at hb
      exact WF.mk hn (fun c hc => ih c (hb c hc))

end MlModel.Tree
