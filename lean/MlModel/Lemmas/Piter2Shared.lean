import MlModel.Lemmas.Piter2Base
import MlModel.Lemmas.QueueFault
/-!
# Two-queue LTS: how one step changes the shared state of each queue

Every step of thread `tid` changes the shared state of the input queue `Q1` only by a `Queue.stepThread` step of the
thread's `a` part, and the shared state of the output queue `Q2` only by a `Queue.stepThread` step of its `b` part —
possibly followed by the ghost bookkeeping of an early stop (`lost`) — or by the write `Q2._exception = e` of a
second-level task whose `next(iterator)` raised (iter_utils.py:827).
-/
namespace MlModel.Piter2
open MlModel.Queue

/-- the change of `Q1`'s shared state in one step of thread `tid` (whose state was `t`) -/
def S1 (c : Cfg) (t : Th) (tid : Tid) (alt : Bool) (c' : Cfg) : Prop :=
  c'.s1 = c.s1 ∨ ∃ l a', stepThread c.s1 t.a tid alt = some (l, c'.s1, a')

/-- the change of `Q2`'s shared state in one step of thread `tid` -/
def S2 (c : Cfg) (t : Th) (tid : Tid) (alt : Bool) (c' : Cfg) : Prop :=
  c'.s2 = c.s2 ∨
  (∃ l s2' b', stepThread c.s2 t.b tid alt = some (l, s2', b') ∧
    (c'.s2 = s2' ∨ ∃ extra, c'.s2 = { s2' with lost := s2'.lost ++ extra })) ∨
  (∃ e, t.role = .l2 ∧ c'.s2 = { c.s2 with exc := some e })

theorem afterIter_fst (c : Cfg) (pc : Pc) (s : Shared) (t : Th) :
    (afterIter c pc s t).1 = s ∨ ∃ extra, (afterIter c pc s t).1 = { s with lost := s.lost ++ extra } := by
  unfold afterIter
  repeat' split
  all_goals first | exact .inl rfl | exact .inr ⟨_, rfl⟩

theorem afterPull_fst (F : Nat → Option (List Nat)) (fwd : Bool) (tid : Tid) (s : Shared) (t : Th) (r : Hand) :
    (afterPull F fwd tid s t r).1 = s ∨ ∃ e, (afterPull F fwd tid s t r).1 = { s with exc := some e } := by
  unfold afterPull failPull
  repeat' split
  all_goals first | exact .inl rfl | exact .inr ⟨_, rfl⟩

theorem stepCons_shared {c c' : Cfg} {tid : Tid} {t : Th} {alt : Bool} {lbl : String}
    (h : stepCons c tid t alt = some (lbl, c')) : S1 c t tid alt c' ∧ S2 c t tid alt c' := by
  unfold stepCons at h
  split at h
  · simp at h
  · -- boot
    (repeat' split at h) <;> simp only [Option.some.injEq, Prod.mk.injEq, reduceCtorEq] at h <;>
      obtain ⟨-, rfl⟩ := h <;> exact ⟨.inl rfl, .inl rfl⟩
  · -- submit
    (repeat' split at h) <;> simp only [Option.some.injEq, Prod.mk.injEq, reduceCtorEq] at h <;>
      obtain ⟨-, rfl⟩ := h <;> exact ⟨.inl rfl, .inl rfl⟩
  · -- iter
    split at h
    · simp at h
    · rename_i l s2' b' hst
      simp only [Option.some.injEq, Prod.mk.injEq] at h
      obtain ⟨-, rfl⟩ := h
      refine ⟨.inl rfl, .inr (.inl ⟨l, s2', b', hst, ?_⟩)⟩
      exact afterIter_fst c t.b.pc s2' { t with b := b' }
  · -- stopping
    split at h
    · simp at h
    · rename_i l s2' b' hst
      simp only [Option.some.injEq, Prod.mk.injEq] at h
      obtain ⟨-, rfl⟩ := h
      exact ⟨.inl rfl, .inr (.inl ⟨l, s2', b', hst, .inl rfl⟩)⟩
  · -- upstop
    split at h
    · simp at h
    · rename_i l s1' a' hst
      simp only [Option.some.injEq, Prod.mk.injEq] at h
      obtain ⟨-, rfl⟩ := h
      exact ⟨.inr ⟨l, a', hst⟩, .inl rfl⟩
  · -- shutdown
    (repeat' split at h) <;> simp only [Option.some.injEq, Prod.mk.injEq, reduceCtorEq] at h <;>
      obtain ⟨-, rfl⟩ := h <;> exact ⟨.inl rfl, .inl rfl⟩

theorem stepL1_shared {c c' : Cfg} {tid : Tid} {t : Th} {alt : Bool} {lbl : String}
    (h : stepL1 c tid t alt = some (lbl, c')) : S1 c t tid alt c' ∧ S2 c t tid alt c' := by
  unfold stepL1 at h
  split at h
  · -- start
    (repeat' split at h) <;> simp only [Option.some.injEq, Prod.mk.injEq, reduceCtorEq] at h
    rename_i l s1' a' hst
    obtain ⟨-, rfl⟩ := h
    exact ⟨.inr ⟨l, a', hst⟩, .inl rfl⟩
  · -- eNext
    split at h
    · simp at h
    · split at h
      · simp only [Option.some.injEq, Prod.mk.injEq] at h
        obtain ⟨-, rfl⟩ := h
        exact ⟨.inl rfl, .inl rfl⟩
      · split at h
        · simp at h
        · rename_i l s1' a' hst
          simp only [Option.some.injEq, Prod.mk.injEq] at h
          obtain ⟨-, rfl⟩ := h
          exact ⟨.inr ⟨l, a', hst⟩, .inl rfl⟩
  · split at h
    · simp at h
    · rename_i l s1' a' hst
      simp only [Option.some.injEq, Prod.mk.injEq] at h
      obtain ⟨-, rfl⟩ := h
      exact ⟨.inr ⟨l, a', hst⟩, .inl rfl⟩

theorem stepL2_shared {F : Nat → Option (List Nat)} {c c' : Cfg} {tid : Tid} {t : Th} {alt : Bool} {lbl : String}
    (hr : t.role = .l2) (h : stepL2 F c tid t alt = some (lbl, c')) : S1 c t tid alt c' ∧ S2 c t tid alt c' := by
  unfold stepL2 at h
  split at h
  · -- start
    (repeat' split at h) <;> simp only [Option.some.injEq, Prod.mk.injEq, reduceCtorEq] at h <;>
      obtain ⟨-, rfl⟩ := h <;> exact ⟨.inl rfl, .inl rfl⟩
  · -- eNext
    split at h
    · -- lockAcq
      (repeat' split at h) <;> simp only [Option.some.injEq, Prod.mk.injEq, reduceCtorEq] at h <;>
        obtain ⟨-, rfl⟩ := h <;> exact ⟨.inl rfl, .inl rfl⟩
    · -- deq
      split at h
      · simp at h
      · rename_i l s1' a' hst
        split at h <;> simp only [Option.some.injEq, Prod.mk.injEq] at h <;> obtain ⟨-, rfl⟩ := h <;>
          exact ⟨.inr ⟨l, a', hst⟩, .inl rfl⟩
    · -- lockRel
      (repeat' split at h) <;> simp only [Option.some.injEq, Prod.mk.injEq, reduceCtorEq] at h
      obtain ⟨-, rfl⟩ := h
      refine ⟨.inl rfl, ?_⟩
      rcases afterPull_fst F c.fwd tid c.s2 t t.hand with h1 | ⟨e, h1⟩
      · exact .inl h1
      · exact .inr (.inr ⟨e, hr, h1⟩)
    · simp at h
  · -- done
    split at h
    · split at h
      · simp at h
      · rename_i l s1' a' hst
        simp only [Option.some.injEq, Prod.mk.injEq] at h
        obtain ⟨-, rfl⟩ := h
        exact ⟨.inr ⟨l, a', hst⟩, .inl rfl⟩
    · simp at h
  · split at h
    · simp at h
    · rename_i l s2' b' hst
      simp only [Option.some.injEq, Prod.mk.injEq] at h
      obtain ⟨-, rfl⟩ := h
      exact ⟨.inl rfl, .inr (.inl ⟨l, s2', b', hst, .inl rfl⟩)⟩

/-- **anatomy of a step on the shared states** -/
theorem step_shared {F : Nat → Option (List Nat)} {c c' : Cfg} {tid : Tid} {alt : Bool} {lbl : String}
    (h : step F c tid alt = some (lbl, c')) :
    ∃ t, c.ths[tid]? = some t ∧ S1 c t tid alt c' ∧ S2 c t tid alt c' := by
  unfold step at h
  split at h
  · simp at h
  · rename_i t ht
    refine ⟨t, ht, ?_⟩
    split at h
    · exact stepCons_shared h
    · exact stepL1_shared h
    · rename_i hr
      exact stepL2_shared hr h

/-- what is never withdrawn in a queue's shared state -/
def Sticky (s s' : Shared) : Prop :=
  (s.exc.isSome = true → s'.exc.isSome = true) ∧ (s.stopRequested = true → s'.stopRequested = true) ∧
  (s.exhausted = true → s'.exhausted = true)

theorem Sticky.refl (s : Shared) : Sticky s s := ⟨id, id, id⟩

theorem Sticky.trans {a b c : Shared} (h1 : Sticky a b) (h2 : Sticky b c) : Sticky a c :=
  ⟨fun h => h2.1 (h1.1 h), fun h => h2.2.1 (h1.2.1 h), fun h => h2.2.2 (h1.2.2 h)⟩

theorem sticky_of_stepThread {s s' : Shared} {t t' : Queue.Thread} {tid : Tid} {alt : Bool} {l : String}
    (h : stepThread s t tid alt = some (l, s', t')) : Sticky s s' :=
  let r := stepThread_fault l s' t' h
  ⟨r.1, r.2.1, r.2.2.1⟩

theorem step_sticky {F : Nat → Option (List Nat)} {c c' : Cfg} {tid : Tid} {alt : Bool} {lbl : String}
    (h : step F c tid alt = some (lbl, c')) : Sticky c.s1 c'.s1 ∧ Sticky c.s2 c'.s2 := by
  obtain ⟨t, -, h1, h2⟩ := step_shared h
  constructor
  · rcases h1 with h1 | ⟨l, a', hst⟩
    · rw [h1]; exact Sticky.refl _
    · exact sticky_of_stepThread hst
  · rcases h2 with h2 | ⟨l, s2', b', hst, h2 | ⟨extra, h2⟩⟩ | ⟨e, -, h2⟩
    · rw [h2]; exact Sticky.refl _
    · rw [h2]; exact sticky_of_stepThread hst
    · have r := sticky_of_stepThread hst
      rw [h2]; exact ⟨r.1, r.2.1, r.2.2⟩
    · rw [h2]; exact ⟨fun _ => rfl, id, id⟩

theorem reachable_sticky {F : Nat → Option (List Nat)} {c0 c : Cfg} (h : Reachable F c0 c) :
    Sticky c0.s1 c.s1 ∧ Sticky c0.s2 c.s2 := by
  induction h with
  | init => exact ⟨Sticky.refl _, Sticky.refl _⟩
  | step _ hs ih => exact ⟨ih.1.trans (step_sticky hs).1, ih.2.trans (step_sticky hs).2⟩

end MlModel.Piter2
