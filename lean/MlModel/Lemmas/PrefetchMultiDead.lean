import MlModel.Lemmas.PrefetchViews
import MlModel.Lemmas.PrefetchOld
/-!
# A configuration of the server LTS without enabled step, for any number of concurrent requests

`dead_shape` (`Lemmas/PrefetchDead.lean`) says who can be blocked at server level; here the queue-level half:
in such a configuration every view `viewK c k q` is a queue-level configuration in which no slot can step, so
`Queue.dead_view` applies to every queue.  Consequences (`multi_dead`):

* nobody is inside `maybe_stop` (a stopper never parks);
* nobody is inside `get_batch`: a parked consumer needs an unfinished, un-stopped queue whose producer is parked
  too — excluded by K1 — or whose producer has not started — then that thread (or the request about to create it)
  is enabled;
* nobody is in the join of a locked stop: the stopped queue's prefetch thread cannot stay parked (K2);
* hence nobody waits for the generator lock / `_states_lock`.

What remains: threads that have ended, the idle server thread, and prefetch threads parked in `put` on a full queue
whose enqueueing has NOT ended (not stopped, no exception, not exhausted).
-/
namespace MlModel.Prefetch
open MlModel.Queue (inertT Live2 pcKind consWakePc prodWakePc)
set_option linter.unusedVariables false
set_option linter.unusedSimpArgs false

theorem kind_not_parked {pc : Queue.Pc} {kd : Queue.PKind} (h : pcKind pc = some kd) :
    pc ≠ .done ∧ pc ≠ .start ∧ (consWakePc pc = true → kd = .get ∨ kd = .batch) ∧
    (prodWakePc pc = true → kd = .producer) := by
  cases pc <;> simp_all [pcKind, consWakePc, prodWakePc]

theorem prodWake_pWake {pc : Queue.Pc} (h : prodWakePc pc = true) : pc = .pWake := by
  cases pc <;> simp_all [prodWakePc]

theorem stepThread_sAcq_free {q : Queue.Shared} {t : Queue.Thread} {tid : Queue.Tid} (hpc : t.pc = .sAcq)
    (hfree : q.owner .st = none) : Queue.stepThread q t tid false ≠ none := by
  unfold Queue.stepThread
  simp [hpc, Queue.acquire, hfree]

theorem qstep_done_none {q : Queue.Shared} {t : Queue.Thread} {tid : Queue.Tid} (h : t.pc = .done) :
    Queue.stepThread q t tid false = none := by
  unfold Queue.stepThread; simp [h]

theorem view_get {c : Cfg} {k : Nat} {q : Queue.Shared} {j : Queue.Tid} {u : Thread} (hu : c.ths[j]? = some u) :
    (viewK c k q).ths[j]? = some (slot k u) := by
  simp [viewK, hu]

/-- what a thread that has not ended can be in a configuration without enabled step -/
inductive Stuck (c : Cfg) (tid : Queue.Tid) (t : Thread) : Prop where
  /-- the server thread, parked in `run_until_shutdown`: not notified, and nobody has requested a shutdown -/
  | idleMain (hprog : t.prog = .main) (hpc : t.pc = .mnWake) (hn : tid ∉ c.sh.shutNotified)
      (hf : c.sh.shutdownRequested = false)
  /-- the prefetch thread of the CURRENT generator (`self._generator`, the newest one), parked (not notified) in
  `put` on its bounded queue, whose enqueueing has not ended: nobody has stopped that generator, it has not failed and
  is not exhausted -/
  | parkedProducer (hprog : t.prog = .producer t.g) (hpc : t.pc = .prod) (hqpc : t.qt.pc = .pWake)
      (hgen : c.sh.generator = some t.g)
      (q : Queue.Shared) (hq : c.sh.qs[t.g]? = some q) (hnd : q.enqueueDone = false)
      (hsr : q.stopRequested = false) (hex : q.exhausted = false) (hfull : q.cap ≠ 0)

theorem multi_dead {c : Cfg} (hG : GInv c) (hI : IInv c) (hU : UInv c) (hS : SInv c) (hL : LkInv c) (hT : StInv c)
    (hV : VInv c) (hO : OInv c) (hdead : ∀ tid, step c tid = none) (tid : Queue.Tid) (t : Thread)
    (ht : c.ths[tid]? = some t) : t.pc = .done ∨ Stuck c tid t := by
  have hsh := fun j u hu => dead_shape hG hI hU hL hT hdead j u hu
  -- a producer thread is at one of its three program points
  have hprodpc : ∀ (j : Queue.Tid) (u : Thread) (k : Nat), c.ths[j]? = some u → u.prog = .producer k →
      u.pc = .done ∨ (u.pc = .prod ∧ u.g = k ∧ pcKind u.qt.pc = some .producer ∧
        ∃ q, c.sh.qs[k]? = some q ∧ Queue.stepThread q u.qt j false = none) := by
    intro j u k hu hp
    rcases hsh j u hu with h1 | h1
    · exact Or.inl h1
    · right
      rcases hS.shapeP j u k hu hp with ⟨a, -⟩ | ⟨a, b, d⟩ | a
      · cases h1 with
        | idleMain h2 => rw [a] at h2; cases h2
        | inQueue h2 => rw [a] at h2; rcases h2 with h2 | h2 | h2 <;> cases h2
        | inJoin h2 => rw [a] at h2; cases h2
        | forGen h2 => rw [a] at h2; cases h2
        | forStates h2 => rw [a] at h2; cases h2
      · cases h1 with
        | idleMain h2 => rw [a] at h2; cases h2
        | inQueue h2 q0 hq0 hst0 => exact ⟨a, b, d, q0, by rw [← b]; exact hq0, hst0⟩
        | inJoin h2 => rw [a] at h2; cases h2
        | forGen h2 => rw [a] at h2; cases h2
        | forStates h2 => rw [a] at h2; cases h2
      · cases h1 with
        | idleMain h2 => rw [a] at h2; cases h2
        | inQueue h2 => rw [a] at h2; rcases h2 with h2 | h2 | h2 <;> cases h2
        | inJoin h2 => rw [a] at h2; cases h2
        | forGen h2 => rw [a] at h2; cases h2
        | forStates h2 => rw [a] at h2; cases h2
  -- nobody is between the installation of a queue and the start of its prefetch thread
  have hnospawn : ∀ (j : Queue.Tid) (u : Thread), c.ths[j]? = some u → u.pc ≠ .iiSpawn := by
    intro j u hu hpc
    rcases hsh j u hu with h1 | h1
    · rw [hpc] at h1; cases h1
    · cases h1 with
      | idleMain h2 => rw [hpc] at h2; cases h2
      | inQueue h2 => rw [hpc] at h2; rcases h2 with h2 | h2 | h2 <;> cases h2
      | inJoin h2 => rw [hpc] at h2; cases h2
      | forGen h2 => rw [hpc] at h2; cases h2
      | forStates h2 => rw [hpc] at h2; cases h2
  -- every view is a queue-level configuration in which no slot can step
  have hvd : ∀ (k : Nat) (q : Queue.Shared), c.sh.qs[k]? = some q → ∀ (j : Queue.Tid) (x : Queue.Thread),
      (viewK c k q).ths[j]? = some x → x = inertT ∨ (Queue.stepThread (viewK c k q).sh x j false).isSome = false := by
    intro k q hq j x hx
    have hx' : (c.ths[j]?).map (slot k) = some x := by simpa [viewK] using hx
    obtain ⟨u, hu, rfl⟩ := Option.map_eq_some_iff.mp hx'
    by_cases hin : inView k u
    · right
      rw [slot_qt hin]
      show (Queue.stepThread q u.qt j false).isSome = false
      rcases hin with ⟨hg, hpc⟩ | ⟨hp, hne⟩
      · rcases hsh j u hu with h1 | h1
        · rcases hpc with h2 | h2 <;> rw [h1] at h2 <;> cases h2
        · cases h1 with
          | idleMain h2 => rcases hpc with h3 | h3 <;> rw [h2] at h3 <;> cases h3
          | inQueue h2 q0 hq0 hst0 =>
            rw [hg, hq] at hq0; obtain rfl := Option.some.inj hq0
            rw [hst0]; rfl
          | inJoin h2 => rcases hpc with h3 | h3 <;> rw [h2] at h3 <;> cases h3
          | forGen h2 => rcases hpc with h3 | h3 <;> rw [h2] at h3 <;> cases h3
          | forStates h2 => rcases hpc with h3 | h3 <;> rw [h2] at h3 <;> cases h3
      · rcases hprodpc j u k hu hp with h1 | ⟨-, -, -, q0, hq0, hst0⟩
        · rw [qstep_done_none (hV.pd j u k hu hp h1).1]; rfl
        · rw [hq] at hq0; obtain rfl := Option.some.inj hq0
          rw [hst0]; rfl
    · exact Or.inl (slot_inert hin)
  have hdv := fun k q hq => Queue.dead_view (hV.live k q hq).1.live (hvd k q hq)
  -- (C) nobody is inside `maybe_stop`
  have hnoStop : ∀ (j : Queue.Tid) (u : Thread), c.ths[j]? = some u → u.pc ≠ .lkStop := by
    intro j u hu hpc
    have hemb := (hG.ths j u hu).emb
    simp only [EmbOK, hpc] at hemb
    obtain ⟨q, hq, -, -⟩ := hemb
    obtain ⟨hkind, -⟩ := hS.shapeS j u hu hpc
    obtain ⟨k1, k2, k3, k4⟩ := kind_not_parked hkind
    have hin : inView u.g u := Or.inl ⟨rfl, Or.inr hpc⟩
    have hx := view_get (k := u.g) (q := q) hu
    rw [slot_qt hin] at hx
    rcases (hdv u.g q hq).2.1 j u.qt hx with h1 | h1 | h1 | h1
    · exact not_inert_of_kind hkind h1
    · exact k1 h1
    · rcases k3 h1 with h2 | h2 <;> cases h2
    · cases k4 h1
  -- the prefetch thread of an existing queue is in the view of its queue
  have hprodView : ∀ (k : Nat) (q : Queue.Shared), c.sh.qs[k]? = some q →
      ∀ (j : Queue.Tid) (u : Thread), c.ths[j]? = some u → u.prog = .producer k →
      inView k u ∧ Queue.isProd u.qt = true := by
    intro k q hq j u hu hp
    have hfree := (hdv k q hq).1 .st
    rcases hprodpc j u k hu hp with h1 | ⟨h1, h2, h3, q0, hq0, hst0⟩
    · obtain ⟨a, b⟩ := hV.pd j u k hu hp h1
      exact ⟨Or.inr ⟨hp, by rw [a]; simp⟩, by simp [Queue.isProd, b]⟩
    · rw [hq] at hq0; obtain rfl := Option.some.inj hq0
      have hemb := (hG.ths j u hu).emb
      simp only [EmbOK, h1] at hemb
      obtain ⟨-, -, -, ⟨src, r, hpr⟩, -⟩ := hemb
      refine ⟨Or.inr ⟨hp, fun hs => stepThread_sAcq_free hs hfree hst0⟩, by simp [Queue.isProd, hpr, Queue.Prog.kind]⟩
  have hprodCount : ∀ (k : Nat) (q : Queue.Shared), c.sh.qs[k]? = some q →
      0 < (viewK c k q).ths.countP Queue.isProd := by
    intro k q hq
    have hkl : k < c.sh.qs.length := (List.getElem?_eq_some_iff.mp hq).1
    rcases hV.hasP k hkl with ⟨tp, P, hP, hpP⟩ | ⟨j, u, hu, hpu, -⟩
    · obtain ⟨hin, hpr⟩ := hprodView k q hq tp P hP hpP
      have hx := view_get (k := k) (q := q) hP
      rw [slot_qt hin] at hx
      exact List.countP_pos_iff.mpr ⟨P.qt, List.mem_of_getElem? hx, hpr⟩
    · exact absurd hpu (hnospawn j u hu)
  -- (D) nobody is inside `get_batch`
  have hnoGet : ∀ (j : Queue.Tid) (u : Thread), c.ths[j]? = some u → u.pc ≠ .nbGet := by
    intro j u hu hpc
    have hemb := (hG.ths j u hu).emb
    simp only [EmbOK, hpc] at hemb
    obtain ⟨q, hq, -, -⟩ := hemb
    have hkind := hS.shapeC j u hu hpc
    obtain ⟨k1, k2, k3, k4⟩ := kind_not_parked hkind
    have hin : inView u.g u := Or.inl ⟨rfl, Or.inl hpc⟩
    have hx := view_get (k := u.g) (q := q) hu
    rw [slot_qt hin] at hx
    rcases (hdv u.g q hq).2.1 j u.qt hx with h1 | h1 | h1 | h1
    · exact not_inert_of_kind hkind h1
    · exact k1 h1
    · have := (hdv u.g q hq).2.2.1 (hprodCount u.g q hq) j u.qt hx
      rw [h1] at this; cases this
    · cases k4 h1
  -- (E) nobody is in the join of a locked stop
  have hnoJoin : ∀ (j : Queue.Tid) (u : Thread), c.ths[j]? = some u → u.pc ≠ .lkJoin := by
    intro j u hu hpc
    rcases hsh j u hu with h1 | h1
    · rw [hpc] at h1; cases h1
    · cases h1 with
      | idleMain h2 => rw [hpc] at h2; cases h2
      | inQueue h2 => rw [hpc] at h2; rcases h2 with h2 | h2 | h2 <;> cases h2
      | forGen h2 => rw [hpc] at h2; cases h2
      | forStates h2 => rw [hpc] at h2; cases h2
      | inJoin _ p tp he hp hnd =>
        have hgen := hU.stopG j u hu (Or.inr hpc)
        obtain ⟨t2, k2, ht2, hpk2, hor⟩ := hI.enq p he
        rw [hp] at ht2; obtain rfl := Option.some.inj ht2
        have hk2 : k2 = u.g := by
          rcases hor with h1 | ⟨w, tw, hw, hpw⟩
          · rw [hgen] at h1; exact (Option.some.inj h1).symm
          · exact absurd hpw (hnospawn w tw hw)
        subst hk2
        obtain ⟨q, hq, hsr⟩ := hV.jn j u hu hpc
        rcases hprodpc p tp u.g hp hpk2 with h1 | ⟨h1, h2, h3, q0, hq0, hst0⟩
        · exact hnd h1
        · obtain ⟨k1, k2, k3, k4⟩ := kind_not_parked h3
          obtain ⟨hin, -⟩ := hprodView u.g q hq p tp hp hpk2
          have hx := view_get (k := u.g) (q := q) hp
          rw [slot_qt hin] at hx
          have hdn : q.enqueueDone = true := (Queue.enqueueDone_iff q).mpr (Or.inr (Or.inl hsr))
          rcases (hdv u.g q hq).2.1 p tp.qt hx with h4 | h4 | h4 | h4
          · exact not_inert_of_kind h3 h4
          · exact k1 h4
          · rcases k3 h4 with h5 | h5 <;> cases h5
          · have := (hdv u.g q hq).2.2.2 hdn p tp.qt hx
            rw [h4] at this; cases this
  -- the thread itself
  rcases hsh tid t ht with h1 | h1
  · exact Or.inl h1
  · right
    cases h1 with
    | idleMain hpc hn hf => exact .idleMain (hT.pm tid t ht (by rw [hpc]; rfl)) hpc hn hf
    | inJoin hpc => exact absurd hpc (hnoJoin tid t ht)
    | forGen hpc o u ho hu hs =>
      rcases hs with hs | hs
      · exact absurd hs (hnoStop o u hu)
      · exact absurd hs (hnoJoin o u hu)
    | forStates hpc o u ho hu hs =>
      rcases hs with hs | hs | hs
      · -- the owner waits for the generator lock, whose owner is inside a locked stop
        exfalso
        rcases hsh o u hu with h2 | h2
        · rw [hs] at h2; cases h2
        · cases h2 with
          | idleMain h3 => rw [hs] at h3; cases h3
          | inQueue h3 => rw [hs] at h3; rcases h3 with h3 | h3 | h3 <;> cases h3
          | inJoin h3 => rw [hs] at h3; cases h3
          | forStates h3 => rw [hs] at h3; cases h3
          | forGen _ o2 u2 _ hu2 hs2 =>
            rcases hs2 with hs2 | hs2
            · exact hnoStop o2 u2 hu2 hs2
            · exact hnoJoin o2 u2 hu2 hs2
      · exact absurd hs (hnoStop o u hu)
      · exact absurd hs (hnoJoin o u hu)
    | inQueue hpc q hq hst =>
      rcases hpc with hpc | hpc | hpc
      · exact absurd hpc (hnoGet tid t ht)
      · exact absurd hpc (hnoStop tid t ht)
      · have hemb := (hG.ths tid t ht).emb
        simp only [EmbOK, hpc] at hemb
        obtain ⟨q1, hq1, hprP, -, -, -⟩ := hemb
        have hkind : pcKind t.qt.pc = some .producer := by
          rcases hS.shapeP tid t t.g ht hprP with ⟨a, -⟩ | ⟨-, -, a⟩ | a
          · rw [hpc] at a; cases a
          · exact a
          · rw [hpc] at a; cases a
        obtain ⟨k1, k2, k3, k4⟩ := kind_not_parked hkind
        obtain ⟨hin, -⟩ := hprodView t.g q hq tid t ht hprP
        have hx := view_get (k := t.g) (q := q) ht
        rw [slot_qt hin] at hx
        have hlive := (hV.live t.g q hq).1.live
        rcases (hdv t.g q hq).2.1 tid t.qt hx with h4 | h4 | h4 | h4
        · exact absurd h4 (not_inert_of_kind hkind)
        · exact absurd h4 k1
        · rcases k3 h4 with h5 | h5 <;> cases h5
        · have hnd : q.enqueueDone = false := by
            cases hd : q.enqueueDone with
            | false => rfl
            | true =>
              have := (hdv t.g q hq).2.2.2 hd tid t.qt hx
              rw [h4] at this; cases this
          have hnd' := hnd
          have hsr : q.stopRequested = false := by
            cases hs : q.stopRequested with
            | false => rfl
            | true => rw [(Queue.enqueueDone_iff q).mpr (Or.inr (Or.inl hs))] at hnd; cases hnd
          have hex : q.exhausted = false := by
            cases hs : q.exhausted with
            | false => rfl
            | true =>
              have h5 : q.enqueueDone = true := hlive.base.i3 hs
              rw [h5] at hnd; cases hnd
          have hgen : c.sh.generator = some t.g := by
            cases hg : decide (c.sh.generator = some t.g) with
            | true => exact of_decide_eq_true hg
            | false =>
              rcases hO t.g q hq (of_decide_eq_false hg) with h5 | h5
              · rw [hsr] at h5; cases h5
              · rw [hex] at h5; cases h5
          exact .parkedProducer hprP hpc (prodWake_pWake h4) hgen q hq hnd' hsr hex
            (Queue.XOK_cap (hlive.base.xok t.qt (List.mem_of_getElem? hx)) h4)

/-- threads keep their index and their program -/
theorem prog_persist {c0 c : Cfg} (h : Reachable c0 c) {i : Queue.Tid} {t0 : Thread} (h0 : c0.ths[i]? = some t0) :
    ∃ t, c.ths[i]? = some t ∧ t.prog = t0.prog := by
  induction h with
  | init => exact ⟨t0, h0, rfl⟩
  | @step c1 c2 tid lbl _ hs ih =>
    obtain ⟨u, hu, hp⟩ := ih
    obtain ⟨tt, htt⟩ := step_some_thread hs
    obtain ⟨t', hk, hl⟩ := step_eff htt hs
    by_cases hi : i = tid
    · subst hi
      rw [htt] at hu; obtain rfl := Option.some.inj hu
      exact ⟨t', hk.get_self htt, by rw [hl.prog, hp]⟩
    · exact ⟨u, hk.get_other hi hu, hp⟩

end MlModel.Prefetch
