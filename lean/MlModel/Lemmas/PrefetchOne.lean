import MlModel.Lemmas.Spsc
import MlModel.Model.Prefetch
/-!
# The prefetch protocol with one client: the invariant behind `C15_faithful` / `C15_failure`

System: the server thread, one `client g b` thread (its requests are sequential, handlers run on its
thread) and the prefetch thread its `init_generator` starts.  `RInv` ties the client's yielded
sequence to the single-producer/single-consumer invariant `Queue.Spsc` of the one queue.
-/
namespace MlModel.Prefetch
open MlModel.Queue (Elem Item Raise Spsc asItems)

inductive Reachable (c0 : Cfg) : Cfg → Prop where
  | init : Reachable c0 c0
  | step {c c' : Cfg} {tid : Queue.Tid} {lbl : String} :
      Reachable c0 c → step c tid = some (lbl, c') → Reachable c0 c'

/-- what the client has been given so far: yielded, plus the reply on its way back -/
def deliveredOf (t : Thread) : List Elem :=
  t.yielded ++ (match t.reply with | some r => r.elems | none => [])

def MainOK (tm : Thread) : Prop :=
  tm.prog = .main ∧ (tm.pc = .start ∨ tm.pc = .mnAcq ∨ tm.pc = .mnWait ∨ tm.pc = .mnWake ∨
    tm.pc = .mnTxA ∨ tm.pc = .mnTxR)

/-- the prefetch thread's queue part when it is spawned -/
def initP (g : Gen) : Queue.Thread := { prog := .producer g.src g.ret, pc := .sAcq, src := g.src }

/-- what an end marker guarantees about the elements delivered before it -/
def MarkerOK (g : Gen) (delivered : List Elem) : Option Raise → Prop
  | none => True
  | some (.stop rets) => rets = [g.ret] ∧ g.src = asItems delivered
  | some (.err e) => e = .value ∧ ∃ rest, g.src = asItems delivered ++ Item.fail :: rest
  | some .empty => False

/-- the client once its generator is installed and the prefetch thread started -/
def ClientC (g : Gen) (b : Nat) (tc : Thread) : Prop :=
  match tc.pc with
  | .lkRel => tc.ret = none ∧ tc.qt = idleQt ∧ tc.reply = none ∧ ∀ r ∈ tc.replies, r.marker = none
  | .iiN0 | .iiN1 | .iiN2 => tc.qt = idleQt ∧ tc.reply = none ∧ ∀ r ∈ tc.replies, r.marker = none
  | .nbGet =>
    tc.g = 0 ∧ tc.qt.prog = .batchLoop (effBatch b) true ∧ tc.reply = none ∧ ∀ r ∈ tc.replies, r.marker = none
  | .nbTxA | .nbTxR =>
    tc.qt = idleQt ∧ (∀ r ∈ tc.replies, r.marker = none) ∧
    ∃ r, tc.reply = some r ∧ MarkerOK g (tc.yielded ++ r.elems) r.marker
  | .done =>
    tc.qt = idleQt ∧ tc.reply = none ∧ tc.outcome.isSome = true ∧ MarkerOK g tc.yielded tc.outcome ∧
    ∃ ini last, tc.replies = ini ++ [last] ∧ (∀ r ∈ ini, r.marker = none) ∧ last.marker = tc.outcome
  | _ => False

def Core (g : Gen) (b : Nat) (s : Shared) (tc : Thread) : Option Thread → Prop
  | none =>
    tc.qt = idleQt ∧ tc.reply = none ∧ tc.yielded = [] ∧ tc.replies = [] ∧ tc.ret = none ∧
    (((tc.pc = .start ∨ tc.pc = .lkAcq) ∧ s.qs = [] ∧ s.generator = none) ∨
     (tc.pc = .iiSpawn ∧ tc.g = 0 ∧ s.generator = some 0 ∧
        ∃ q0, s.qs = [q0] ∧ Spsc g.src g.ret 2 [] q0 (initP g) idleQt))
  | some tp =>
    tp.prog = .producer 0 ∧ tp.g = 0 ∧ (tp.pc = .start ∨ tp.pc = .prod ∨ tp.pc = .done) ∧
    s.generator = some 0 ∧ s.enqThread = some 2 ∧
    ∃ q0, s.qs = [q0] ∧ Spsc g.src g.ret 2 (deliveredOf tc) q0 tp.qt tc.qt ∧ ClientC g b tc

/-- the invariant of the one-client system -/
def RInv (g : Gen) (b : Nat) (c : Cfg) : Prop :=
  ∃ tm tc otp, c.ths = tm :: tc :: Option.toList otp ∧ MainOK tm ∧ tc.prog = .client g b ∧
    c.sh.shutdownRequested = false ∧ c.sh.serverUp = true ∧ Core g b c.sh tc otp

theorem rinv_init (p : Nat) (g : Gen) (b : Nat) : RInv g b (init p [.client g b]) := by
  refine ⟨{ prog := .main }, { prog := .client g b }, none, rfl, ⟨rfl, Or.inl rfl⟩, rfl, rfl, rfl, ?_⟩
  exact ⟨rfl, rfl, rfl, rfl, rfl, Or.inl ⟨Or.inl rfl, rfl, rfl⟩⟩

/-- a step of the server's own thread only touches its locks -/
theorem rinv_main_step {tm tc : Thread} {otp : Option Thread} {s : Shared}
    {lbl : String} {c' : Cfg} (hm : MainOK tm) (hns : s.shutdownRequested = false)
    (h : step { sh := s, ths := tm :: tc :: Option.toList otp } 0 = some (lbl, c')) :
    ∃ tm' s', c' = { sh := s', ths := tm' :: tc :: Option.toList otp } ∧ MainOK tm' ∧
      s'.shutdownRequested = false ∧ s'.serverUp = s.serverUp ∧ s'.qs = s.qs ∧ s'.generator = s.generator ∧
      s'.enqThread = s.enqThread := by
  obtain ⟨hprog, hpc⟩ := hm
  unfold step at h
  simp only [List.getElem?_cons_zero] at h
  rcases hpc with hpc | hpc | hpc | hpc | hpc | hpc <;> simp only [hpc, hprog] at h <;>
    (repeat' split at h) <;>
    (try simp only [Option.some.injEq, Prod.mk.injEq, reduceCtorEq] at h) <;>
    (try (obtain ⟨-, rfl⟩ := h)) <;>
    simp_all [setTh, MainOK] <;>
    exact ⟨_, _, ⟨rfl, rfl⟩, by simp_all⟩

/-- a step of the prefetch thread is a producer step of the queue invariant -/
theorem rinv_prod_step {g : Gen} {b : Nat} {tm tc tp : Thread} {s : Shared}
    {lbl : String} {c' : Cfg} (hcore : Core g b s tc (some tp))
    (h : step { sh := s, ths := [tm, tc, tp] } 2 = some (lbl, c')) :
    ∃ tp' s', c' = { sh := s', ths := [tm, tc, tp'] } ∧ s'.shutdownRequested = s.shutdownRequested ∧
      s'.serverUp = s.serverUp ∧ Core g b s' tc (some tp') := by
  obtain ⟨hprog, hg, hpc, hgen, henq, q0, hqs, hsp, hcl⟩ := hcore
  unfold step at h
  simp only [List.getElem?_cons_succ, List.getElem?_cons_zero] at h
  rcases hpc with hpc | hpc | hpc
  · simp only [hpc, hprog, Option.some.injEq, Prod.mk.injEq] at h
    obtain ⟨-, rfl⟩ := h
    exact ⟨_, _, rfl, rfl, rfl, rfl, rfl, Or.inr (Or.inl rfl), hgen, henq, q0, hqs, hsp, hcl⟩
  · simp only [hpc, hg, hqs, List.getElem?_cons_zero] at h
    split at h
    · simp at h
    · rename_i lbl0 q' qt' hst
      have hsp' := hsp.prod_step hst
      split at h <;> simp only [Option.some.injEq, Prod.mk.injEq] at h <;> obtain ⟨-, rfl⟩ := h
      · exact ⟨_, _, rfl, rfl, rfl, hprog, rfl, Or.inr (Or.inr rfl), hgen, henq, q', by simp, hsp', hcl⟩
      · exact ⟨_, _, rfl, rfl, rfl, hprog, rfl, Or.inr (Or.inl rfl), hgen, henq, q', by simp, hsp', hcl⟩
  · simp [hpc] at h

macro "tz" : tactic => `(tactic| first | rfl | assumption | (simp_all; done))

theorem quiet_idle : Queue.Quiet idleQt :=
  ⟨⟨by intro k hk; simp [idleQt, Queue.pcKind] at hk, by intro _; rfl⟩, Or.inr rfl, rfl⟩

theorem quiet_fresh (n : Nat) : Queue.Quiet { prog := .batchLoop n true, pc := .bAcq } :=
  ⟨⟨by intro k hk; simp only [Queue.pcKind, Option.some.injEq] at hk; subst hk; rfl, by intro _; rfl⟩,
    Or.inl rfl, rfl⟩

/-- the client before its generator is installed and the prefetch thread started -/
theorem rinv_client_step_pre {g : Gen} {b : Nat} {tm tc : Thread} {s : Shared} {lbl : String} {c' : Cfg}
    (hprog : tc.prog = .client g b) (hns : s.shutdownRequested = false) (hup : s.serverUp = true)
    (hcore : Core g b s tc none)
    (h : step { sh := s, ths := [tm, tc] } 1 = some (lbl, c')) :
    ∃ tc' s' otp, c' = { sh := s', ths := tm :: tc' :: Option.toList otp } ∧ tc'.prog = .client g b ∧
      s'.shutdownRequested = false ∧ s'.serverUp = true ∧ Core g b s' tc' otp := by
  obtain ⟨hqt, hrep, hy, hrs, hret, hph⟩ := hcore
  unfold step at h
  simp only [List.getElem?_cons_succ, List.getElem?_cons_zero] at h
  rcases hph with ⟨hpc | hpc, hqs, hgen⟩ | ⟨hpc, hg, hgen, q0, hqs, hsp⟩
  · -- start
    simp only [hpc, hprog, hup, hns, Bool.not_true, Bool.false_eq_true, ↓reduceIte, Option.some.injEq,
      Prod.mk.injEq] at h
    obtain ⟨-, rfl⟩ := h
    exact ⟨_, _, none, rfl, by tz, hns, hup, hqt, hrep, hy, hrs, hret, Or.inl ⟨Or.inr rfl, hqs, hgen⟩⟩
  · -- acquire gen: nothing to stop, the new queue is installed
    simp only [hpc, hprog, hns] at h
    split at h
    · simp at h
    · simp only [beginStop, hgen, install, hqs, Bool.false_eq_true, ↓reduceIte, beq_self_eq_true,
        Option.some.injEq, Prod.mk.injEq] at h
      obtain ⟨-, rfl⟩ := h
      refine ⟨_, _, none, rfl, by tz, by tz, by tz, hqt, hrep, hy, hrs, hret, Or.inr ⟨rfl, rfl, rfl, _, rfl, ?_⟩⟩
      exact Queue.spsc_fresh g.src g.ret 2 s.prefetch idleQt quiet_idle rfl
  · -- thread_start
    simp only [hpc, hprog, gen?, Option.some.injEq, Prod.mk.injEq] at h
    obtain ⟨-, rfl⟩ := h
    refine ⟨_, _, some _, rfl, by tz, by tz, by tz, ?_⟩
    refine ⟨by simp [hg], rfl, Or.inl rfl, hgen, rfl, q0, hqs, ?_, ?_⟩
    · simpa [deliveredOf, hrep, hy, hqt, initP] using hsp
    · simp [ClientC, hret, hqt, hrep, hrs]

theorem deliveredOf_none {t : Thread} (h : t.reply = none) : deliveredOf t = t.yielded := by
  simp [deliveredOf, h]

theorem seqOf_idle : Queue.seqOf idleQt = [] := by
  rw [quiet_idle.seqOf]; rfl

/-- the reply built at the end of `get_batch` says the truth about the generator -/
theorem markerOK_mkReply {g : Gen} {d : List Elem} {q : Queue.Shared} {P C : Queue.Thread} {s : Shared}
    (hI : Spsc g.src g.ret 2 d q P C) (hC : Queue.Quiet C) (hns : s.shutdownRequested = false) :
    (mkReply s 0 q C.received).1.elems = C.received ∧ (mkReply s 0 q C.received).2 = [] ∧
    MarkerOK g (d ++ C.received) (mkReply s 0 q C.received).1.marker := by
  unfold mkReply
  by_cases he : q.exhausted = true
  · have hend := hI.at_end he
    rw [hC.seqOf] at hend
    rw [if_pos he]
    cases hx : q.exc with
    | none => exact ⟨rfl, rfl, hend.1 hx⟩
    | some e =>
      dsimp only
      rw [if_neg (by simp [hns])]
      exact ⟨rfl, rfl, hend.2 e hx⟩
  · rw [if_neg he]
    exact ⟨rfl, rfl, trivial⟩

theorem core_some_intro {g : Gen} {b : Nat} {s : Shared} {tc tp : Thread} {q0 : Queue.Shared}
    (hpp : tp.prog = .producer 0) (hpg : tp.g = 0) (hppc : tp.pc = .start ∨ tp.pc = .prod ∨ tp.pc = .done)
    (hgen : s.generator = some 0) (henq : s.enqThread = some 2) (hqs : s.qs = [q0])
    (hsp : Spsc g.src g.ret 2 (deliveredOf tc) q0 tp.qt tc.qt) (hcl : ClientC g b tc) :
    Core g b s tc (some tp) := ⟨hpp, hpg, hppc, hgen, henq, q0, hqs, hsp, hcl⟩

/-- the client once the prefetch thread exists -/
theorem rinv_client_step_run {g : Gen} {b : Nat} {tm tc tp : Thread} {s : Shared} {lbl : String} {c' : Cfg}
    (hprog : tc.prog = .client g b) (hns : s.shutdownRequested = false) (hup : s.serverUp = true)
    (hcore : Core g b s tc (some tp))
    (h : step { sh := s, ths := [tm, tc, tp] } 1 = some (lbl, c')) :
    ∃ tc' s', c' = { sh := s', ths := [tm, tc', tp] } ∧ tc'.prog = .client g b ∧
      s'.shutdownRequested = false ∧ s'.serverUp = true ∧ Core g b s' tc' (some tp) := by
  obtain ⟨hpp, hpg, hppc, hgen, henq, q0, hqs, hsp, hcl⟩ := hcore
  unfold step at h
  simp only [List.getElem?_cons_succ, List.getElem?_cons_zero] at h
  unfold ClientC at hcl
  cases hpc : tc.pc <;> simp only [hpc] at hcl h <;> (try exact hcl.elim)
  case done => simp at h
  case lkRel =>
    obtain ⟨hret, hqt, hrep, hmk⟩ := hcl
    split at h
    · simp at h
    · simp only [hprog, hret, Option.some.injEq, Prod.mk.injEq] at h
      obtain ⟨-, rfl⟩ := h
      refine ⟨_, _, rfl, by tz, by tz, by tz, core_some_intro hpp hpg hppc (by tz) (by tz) (q0 := q0) (by tz) ?_ ?_⟩
      · simpa [deliveredOf, hrep] using hsp
      · simp [ClientC, hqt, hrep]; exact hmk
  case iiN0 =>
    obtain ⟨hqt, hrep, hmk⟩ := hcl
    split at h
    · simp at h
    · simp only [Option.some.injEq, Prod.mk.injEq] at h
      obtain ⟨-, rfl⟩ := h
      refine ⟨_, _, rfl, by tz, by tz, by tz, core_some_intro hpp hpg hppc (by tz) (by tz) (q0 := q0) (by tz) ?_ ?_⟩
      · simpa [deliveredOf, hrep] using hsp
      · simp [ClientC, hqt, hrep]; exact hmk
  case iiN1 =>
    obtain ⟨hqt, hrep, hmk⟩ := hcl
    split at h
    · simp at h
    · simp only [Option.some.injEq, Prod.mk.injEq] at h
      obtain ⟨-, rfl⟩ := h
      refine ⟨_, _, rfl, by tz, by tz, by tz, core_some_intro hpp hpg hppc (by tz) (by tz) (q0 := q0) (by tz) ?_ ?_⟩
      · simpa [deliveredOf, hrep] using hsp
      · simp [ClientC, hqt, hrep]; exact hmk
  case iiN2 =>
    obtain ⟨hqt, hrep, hmk⟩ := hcl
    split at h
    · simp at h
    · simp only [hprog, callNext, hup, beginNext, hgen, Bool.not_true, Bool.false_eq_true, ↓reduceIte,
        Option.some.injEq, Prod.mk.injEq] at h
      obtain ⟨-, rfl⟩ := h
      refine ⟨_, _, rfl, by tz, by tz, by tz, core_some_intro hpp hpg hppc (by tz) (by tz) (q0 := q0) (by tz) ?_ ?_⟩
      · have := hsp.swap (quiet_fresh (effBatch b)) (by rw [hqt, seqOf_idle])
        simpa [deliveredOf, hrep] using this
      · simp [ClientC, hrep]; exact hmk
  case nbTxA =>
    obtain ⟨hqt, hmk, r, hrep, hm⟩ := hcl
    split at h
    · simp at h
    · simp only [Option.some.injEq, Prod.mk.injEq] at h
      obtain ⟨-, rfl⟩ := h
      refine ⟨_, _, rfl, by tz, by tz, by tz, core_some_intro hpp hpg hppc (by tz) (by tz) (q0 := q0) (by tz) ?_ ?_⟩
      · simpa [deliveredOf, hrep] using hsp
      · simp only [ClientC]; exact ⟨hqt, hmk, r, hrep, hm⟩
  case nbTxR =>
    obtain ⟨hqt, hmk, r, hrep, hm⟩ := hcl
    split at h
    · simp at h
    · simp only [hrep] at h
      have hd : deliveredOf tc = tc.yielded ++ r.elems := by simp [deliveredOf, hrep]
      rw [hd] at hsp
      cases hmark : r.marker with
      | none =>
        simp only [receive, hprog, hmark, callNext, hup, beginNext, hgen, Bool.not_true, Bool.false_eq_true,
          ↓reduceIte, Option.some.injEq, Prod.mk.injEq] at h
        obtain ⟨-, rfl⟩ := h
        refine ⟨_, _, rfl, by tz, by tz, by tz, core_some_intro hpp hpg hppc (by tz) (by tz) (q0 := q0) (by tz) ?_ ?_⟩
        · have := hsp.swap (quiet_fresh (effBatch b)) (by rw [hqt, seqOf_idle])
          simpa [deliveredOf] using this
        · simp only [ClientC, true_and]
          intro r' hr'
          rcases List.mem_append.mp hr' with hr' | hr'
          · exact hmk r' hr'
          · simp only [List.mem_singleton] at hr'; rw [hr']; exact hmark
      | some m =>
        simp only [receive, hprog, hmark, Option.some.injEq, Prod.mk.injEq] at h
        obtain ⟨-, rfl⟩ := h
        refine ⟨_, _, rfl, by tz, by tz, by tz, core_some_intro hpp hpg hppc (by tz) (by tz) (q0 := q0) (by tz) ?_ ?_⟩
        · simpa [deliveredOf, hqt] using hsp
        · simp only [ClientC]
          rw [hmark] at hm
          refine ⟨hqt, ?_, ?_, hm, tc.replies, r, ?_, hmk, hmark⟩ <;> first | rfl | trivial
  case nbGet =>
    obtain ⟨hg0, hqprog, hrep, hmk⟩ := hcl
    simp only [hg0, hqs, List.getElem?_cons_zero] at h
    split at h
    · simp at h
    · rename_i lbl0 q' qt' hst
      rw [deliveredOf_none hrep] at hsp
      obtain ⟨hsp', hqprog'⟩ := hsp.cons_step hqprog hst
      split at h
      · rename_i hfin
        have hquiet : Queue.Quiet qt' := by
          refine ⟨hsp'.ctok, ?_, ?_⟩
          · simpa using hfin
          · rcases (by simpa using hfin : qt'.pc = .bAcq ∨ qt'.pc = .done) with hp | hp
            · exact hsp'.keep.idleB hp
            · exact hsp'.keep.idleD hp
        simp only [Option.some.injEq, Prod.mk.injEq] at h
        obtain ⟨-, rfl⟩ := h
        refine ⟨_, _, rfl, by tz, by tz, by tz, core_some_intro hpp hpg hppc (by tz) (by tz) (q0 := q') (by simp) ?_ ?_⟩
        · have := hsp'.deliver hquiet quiet_idle rfl
          simp only [deliveredOf]
          rw [(markerOK_mkReply hsp' hquiet (by exact hns)).1]
          simpa using this
        · simp only [ClientC, true_and]
          refine ⟨hmk, _, rfl, ?_⟩
          have := (markerOK_mkReply (s := { s with qs := [q0].set 0 q' }) hsp' hquiet hns)
          rw [this.1]
          exact this.2.2
      · simp only [Option.some.injEq, Prod.mk.injEq] at h
        obtain ⟨-, rfl⟩ := h
        refine ⟨_, _, rfl, by tz, by tz, by tz, core_some_intro hpp hpg hppc (by tz) (by tz) (q0 := q') (by simp) ?_ ?_⟩
        · simpa [deliveredOf, hrep] using hsp'
        · simp only [ClientC]
          refine ⟨?_, hqprog', hrep, hmk⟩
          first | rfl | trivial

theorem step_none_of_getElem? {c : Cfg} {tid : Queue.Tid} (h : c.ths[tid]? = none) : step c tid = none := by
  unfold step; simp [h]

theorem rinv_step {g : Gen} {b : Nat} {c c' : Cfg} {tid : Queue.Tid} {lbl : String}
    (hI : RInv g b c) (h : step c tid = some (lbl, c')) : RInv g b c' := by
  obtain ⟨tm, tc, otp, hths, hm, hprog, hns, hup, hcore⟩ := hI
  obtain ⟨s, ths⟩ := c
  simp only at hths hns hup hcore
  subst hths
  match tid, otp with
  | 0, otp =>
    obtain ⟨tm', s', rfl, hm', h1, h2, h3, h4, h5⟩ := rinv_main_step hm hns h
    refine ⟨tm', tc, otp, rfl, hm', hprog, h1, by rw [h2]; exact hup, ?_⟩
    cases otp with
    | none =>
      obtain ⟨a1, a2, a3, a4, a5, a6⟩ := hcore
      refine ⟨a1, a2, a3, a4, a5, ?_⟩
      simp only [h3, h4]
      exact a6
    | some tp =>
      obtain ⟨a1, a2, a3, a4, a5, q0, a6, a7, a8⟩ := hcore
      exact ⟨a1, a2, a3, by rw [h4]; exact a4, by rw [h5]; exact a5, q0, by rw [h3]; exact a6, a7, a8⟩
  | 1, none =>
    obtain ⟨tc', s', otp', rfl, h1, h2, h3, h4⟩ := rinv_client_step_pre hprog hns hup hcore h
    exact ⟨tm, tc', otp', rfl, hm, h1, h2, h3, h4⟩
  | 1, some tp =>
    obtain ⟨tc', s', rfl, h1, h2, h3, h4⟩ := rinv_client_step_run hprog hns hup hcore h
    exact ⟨tm, tc', some tp, rfl, hm, h1, h2, h3, h4⟩
  | 2, some tp =>
    obtain ⟨tp', s', rfl, h1, h2, h3⟩ := rinv_prod_step hcore h
    exact ⟨tm, tc, some tp', rfl, hm, hprog, by rw [h1]; exact hns, by rw [h2]; exact hup, h3⟩
  | 2, none => rw [step_none_of_getElem? (by rfl)] at h; exact absurd h (by simp)
  | n + 3, none => rw [step_none_of_getElem? (by rfl)] at h; exact absurd h (by simp)
  | n + 3, some tp => rw [step_none_of_getElem? (by rfl)] at h; exact absurd h (by simp)

theorem rinv_reachable {p : Nat} {g : Gen} {b : Nat} {c : Cfg}
    (h : Reachable (init p [.client g b]) c) : RInv g b c := by
  induction h with
  | init => exact rinv_init p g b
  | step _ hs ih => exact rinv_step ih hs

end MlModel.Prefetch
