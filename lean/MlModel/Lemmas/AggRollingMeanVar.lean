import MlModel.Model.Agg.RollingMeanVar
import MlModel.Lemmas.AggRollingSimple
import Mathlib.Tactic.FieldSimp
/-!
# Chan/Welford pooling of count, mean and variance is exact over ℚ ∪ {NaN}

A column's statistics are a view of its *moments* `(n, Σx, Σx²)` over the non-NaN entries
(`Col.ofStats`); `Col.merge` (the literal per-column code of `MeanAndVariance.merge`) adds the
moments — in all four NaN cases (either side may have no valid entry).
-/
namespace MlModel.Agg.Rolling

theorem valid_append (a b : List F) : valid (a ++ b) = valid a ++ valid b := by
  simp [valid, List.filterMap_append]

/-- count / mean / variance from the moments `n, S = Σx, Q = Σx²` -/
def Col.ofStats (n : Nat) (S Q : Rat) : Col :=
  if n = 0 then Col.fresh else ⟨n, some (S / n), some (Q / n - (S / n) * (S / n))⟩

theorem rsum_sq_dev (v : List Rat) (mu : Rat) :
    rsum (v.map fun x => (x - mu) * (x - mu))
      = rsum (v.map fun x => x * x) - 2 * mu * rsum v + (v.length : Rat) * (mu * mu) := by
  induction v with
  | nil => simp
  | cons x v ih => simp only [List.map_cons, rsum_cons, ih, List.length_cons]; push_cast; ring

theorem Col.ofList_eq_ofStats (xs : List F) :
    Col.ofList xs
      = Col.ofStats (valid xs).length (rsum (valid xs)) (rsum ((valid xs).map fun x => x * x)) := by
  unfold Col.ofList Col.ofStats
  by_cases h : (valid xs).length = 0
  · simp [h]
  · simp only [h, if_false, Col.mk.injEq, true_and, Option.some.injEq]
    rw [rsum_sq_dev]
    have hn : ((valid xs).length : Rat) ≠ 0 := by exact_mod_cast h
    field_simp
    ring

@[simp] theorem nanadd_some_some (a b : Rat) : nanadd (some a) (some b) = some (a + b) := by
  simp [nanadd, fwhere]
@[simp] theorem nanadd_none_some (b : Rat) : nanadd none (some b) = some b := by
  simp [nanadd, fwhere]
@[simp] theorem nanadd_some_none (a : Rat) : nanadd (some a) none = some a := by
  simp [nanadd, fwhere]
@[simp] theorem nanadd_none_none : nanadd none none = none := by
  simp [nanadd, fwhere]
@[simp] theorem fadd_some_some (a b : Rat) : fadd (some a) (some b) = some (a + b) := rfl
@[simp] theorem fadd_none_left (b : F) : fadd none b = none := rfl
@[simp] theorem fadd_none_right (a : F) : fadd a none = none := by cases a <;> rfl
@[simp] theorem fmul_some_some (a b : Rat) : fmul (some a) (some b) = some (a * b) := rfl
@[simp] theorem fmul_none_left (b : F) : fmul none b = none := rfl
@[simp] theorem fmul_none_right (a : F) : fmul a none = none := by cases a <;> rfl
@[simp] theorem fneg_some (a : Rat) : fneg (some a) = some (-a) := rfl
@[simp] theorem fneg_none : fneg none = none := rfl

theorem Col.merge_ofStats (n1 n2 : Nat) (S1 Q1 S2 Q2 : Rat)
    (z1 : n1 = 0 → S1 = 0 ∧ Q1 = 0) (z2 : n2 = 0 → S2 = 0 ∧ Q2 = 0) :
    Col.merge true (Col.ofStats n1 S1 Q1) (Col.ofStats n2 S2 Q2)
      = Col.ofStats (n1 + n2) (S1 + S2) (Q1 + Q2) := by
  unfold Col.ofStats
  by_cases h1 : n1 = 0 <;> by_cases h2 : n2 = 0
  · subst h1; subst h2
    simp [Col.merge, Col.mergeMean, Col.mergeVar, Col.fresh]
  · obtain ⟨rfl, rfl⟩ := z1 h1
    subst h1
    have hn : (n2 : Rat) ≠ 0 := by exact_mod_cast h2
    simp only [h2, if_false, if_true, Nat.zero_add, Col.merge, Col.mergeMean, Col.mergeVar, Col.fresh,
      safeDivide, hn, Nat.cast_zero, Col.mk.injEq, true_and, zero_add, nanadd_some_some,
      nanadd_none_some, nanadd_some_none, fadd_some_some, fmul_some_some, fmul_none_right,
      fneg_some, fneg_none, Option.some.injEq]
    constructor
    · field_simp
    · field_simp
      ring
  · obtain ⟨rfl, rfl⟩ := z2 h2
    subst h2
    have hn : (n1 : Rat) ≠ 0 := by exact_mod_cast h1
    simp only [h1, if_false, if_true, Nat.add_zero, Col.merge, Col.mergeMean, Col.mergeVar, Col.fresh,
      safeDivide, hn, Nat.cast_zero, Col.mk.injEq, true_and, add_zero, nanadd_some_some,
      nanadd_none_some, nanadd_some_none, fadd_some_some, fmul_some_some, fmul_none_right,
      fmul_none_left, fneg_some, fneg_none, Option.some.injEq]
    constructor
    · field_simp
      ring
    · field_simp
      ring
  · have hn1 : (n1 : Rat) ≠ 0 := by exact_mod_cast h1
    have hn2 : (n2 : Rat) ≠ 0 := by exact_mod_cast h2
    have h12 : n1 + n2 ≠ 0 := by omega
    have hn12 : ((n1 : Rat) + (n2 : Rat)) ≠ 0 := by exact_mod_cast h12
    simp only [h1, h2, h12, if_false, if_true, Col.merge, Col.mergeMean, Col.mergeVar,
      safeDivide, hn12, Nat.cast_add, Col.mk.injEq, true_and, nanadd_some_some,
      fadd_some_some, fmul_some_some, fneg_some, Option.some.injEq]
    constructor
    · field_simp
      ring
    · field_simp
      ring

theorem valid_moments_zero (xs : List F) (h : (valid xs).length = 0) :
    rsum (valid xs) = 0 ∧ rsum ((valid xs).map fun x => x * x) = 0 := by
  rw [List.length_eq_zero_iff.mp h]; simp

/-- **the per-column homomorphism**: merging the statistics of two columns = the statistics of
their concatenation (NaN entries, all-NaN and empty columns included) -/
theorem Col.merge_ofList (a b : List F) :
    Col.merge true (Col.ofList a) (Col.ofList b) = Col.ofList (a ++ b) := by
  rw [Col.ofList_eq_ofStats, Col.ofList_eq_ofStats, Col.ofList_eq_ofStats,
    Col.merge_ofStats _ _ _ _ _ _ (valid_moments_zero a) (valid_moments_zero b),
    valid_append, List.length_append, rsum_append, List.map_append, rsum_append]

end MlModel.Agg.Rolling

namespace MlModel.Agg.Rolling

/-! ## from columns to accumulator states -/

theorem Col.ofList_congr {a b : List F} (h : valid a = valid b) : Col.ofList a = Col.ofList b := by
  unfold Col.ofList; rw [h]

theorem Col.ofList_nil : Col.ofList [] = Col.fresh := by simp [Col.ofList, valid]

theorem Col.ofList_var_isNone (a : List F) : (Col.ofList a).var.isNone = decide ((valid a).length = 0) := by
  unfold Col.ofList
  by_cases h : (valid a).length = 0 <;> simp [h, Col.fresh]

theorem Col.ofList_mean_isNone (a : List F) : (Col.ofList a).mean.isNone = decide ((valid a).length = 0) := by
  unfold Col.ofList
  by_cases h : (valid a).length = 0 <;> simp [h, Col.fresh]

theorem Col.ofList_append_right {a b : List F} (h : (valid b).length = 0) :
    Col.ofList (a ++ b) = Col.ofList a :=
  Col.ofList_congr (by rw [valid_append, List.length_eq_zero_iff.mp h, List.append_nil])

theorem Col.ofList_append_left {a b : List F} (h : (valid a).length = 0) :
    Col.ofList (a ++ b) = Col.ofList b :=
  Col.ofList_congr (by rw [valid_append, List.length_eq_zero_iff.mp h, List.nil_append])

/-- one column of `MV.mergeCore` after the guards: `selfNan` is `np.all(np.isnan(self._var))` -/
def Col.step (fixed selfNan : Bool) (a b : Col) : Col :=
  let a1 := a.mergeMean b
  { a1 with var := if selfNan then b.var else Col.mergeVar fixed a a1 b }

theorem Col.step_false (a b : Col) : Col.step true false a b = Col.merge true a b := by
  simp [Col.step, Col.merge]

/-- the `self._var = other.var` shortcut agrees with the pooled formula on an all-NaN receiver column -/
theorem Col.step_true_ofList {a b : List F} (h : (valid a).length = 0) :
    Col.step true true (Col.ofList a) (Col.ofList b) = Col.ofList (a ++ b) := by
  have hm := Col.merge_ofList a b
  rw [Col.ofList_append_left h] at hm ⊢
  have hc : ((Col.ofList a).mergeMean (Col.ofList b)).count = (Col.ofList b).count := by
    have := congrArg Col.count hm; simpa [Col.merge] using this
  have hmean : ((Col.ofList a).mergeMean (Col.ofList b)).mean = (Col.ofList b).mean := by
    have := congrArg Col.mean hm; simpa [Col.merge] using this
  simp only [Col.step, if_true]
  rw [hc, hmean]

theorem Col.step_ofList (selfNan : Bool) {a b : List F} (h : selfNan = true → (valid a).length = 0) :
    Col.step true selfNan (Col.ofList a) (Col.ofList b) = Col.ofList (a ++ b) := by
  cases selfNan with
  | false => rw [Col.step_false, Col.merge_ofList]
  | true => exact Col.step_true_ofList (h rfl)

/-- states are compared by their statistics; `_input_shape` only matters for error reporting -/
def MVEqv (s t : MV) : Prop := s.vec = t.vec ∧ s.cols = t.cols

theorem MV.mergeCore_cols (f : Bool) (s o : MV) :
    MV.mergeCore f s o =
      if o.allVarNan then s
      else ⟨(MV.bcast s o).1, (MV.bcast s o).2.map fun p => Col.step f s.allVarNan p.1 p.2,
            MV.mergeShape s o⟩ := by
  unfold MV.mergeCore
  split
  · rfl
  · rfl

theorem MVEqv.mergeCore {f : Bool} {s s' t t' : MV} (h1 : MVEqv s s') (h2 : MVEqv t t') :
    MVEqv (MV.mergeCore f s t) (MV.mergeCore f s' t') := by
  obtain ⟨sv, sc, ssh⟩ := s
  obtain ⟨sv', sc', ssh'⟩ := s'
  obtain ⟨tv, tc, tsh⟩ := t
  obtain ⟨tv', tc', tsh'⟩ := t'
  obtain ⟨rfl, rfl⟩ := h1
  obtain ⟨rfl, rfl⟩ := h2
  simp only [MVEqv] at *
  rw [MV.mergeCore_cols, MV.mergeCore_cols]
  simp only [MV.allVarNan, MV.bcast]
  split <;> simp

theorem mvEqv_equiv : (∀ s, MVEqv s s) ∧ (∀ {s t}, MVEqv s t → MVEqv t s) ∧
    (∀ {s t u}, MVEqv s t → MVEqv t u → MVEqv s u) :=
  ⟨fun _ => ⟨rfl, rfl⟩, fun h => ⟨h.1.symm, h.2.symm⟩, fun h1 h2 => ⟨h1.1.trans h2.1, h1.2.trans h2.2⟩⟩

theorem MV.result_congr {s t : MV} (h : MVEqv s t) : s.result = t.result := by
  obtain ⟨sv, sc, ssh⟩ := s
  obtain ⟨tv, tc, tsh⟩ := t
  obtain ⟨rfl, rfl⟩ := h
  rfl

/-! ## 1-D input -/

theorem mv1_hom (xs ys : List F) :
    MVEqv (MV.mergeCore true (MV.ofList xs) (MV.ofList ys)) (MV.ofList (xs ++ ys)) := by
  rw [MV.mergeCore_cols]
  simp only [MV.ofList, MV.allVarNan, List.all_cons, List.all_nil, Bool.and_true, Col.ofList_var_isNone,
    MV.bcast, BEq.rfl, if_true, List.zip_cons_cons, List.zip_nil_right, List.map_cons, List.map_nil]
  by_cases hy : (valid ys).length = 0
  · simp only [hy, decide_true, if_true, MVEqv, true_and]
    rw [Col.ofList_append_right hy]
  · simp only [hy, decide_false, Bool.false_eq_true, if_false, MVEqv, true_and, List.cons.injEq, and_true]
    exact Col.step_ofList _ (by simp)

theorem mv1_lawful : Lawful mv1 MVEqv where
  refl := mvEqv_equiv.1
  symm := mvEqv_equiv.2.1
  trans := mvEqv_equiv.2.2
  merge_congr := MVEqv.mergeCore
  result_congr := MV.result_congr
  empty_eq := ⟨rfl, by simp [mv1, MV.fresh, MV.ofList, Col.ofList_nil]⟩
  hom := mv1_hom

theorem Col.ofList_perm {a b : List F} (h : a.Perm b) : Col.ofList a = Col.ofList b := by
  have hv : (valid a).Perm (valid b) := h.filterMap _
  rw [Col.ofList_eq_ofStats, Col.ofList_eq_ofStats, hv.length_eq, rsum_perm hv,
    rsum_map_perm _ hv]

theorem mv1_perm : PermInv mv1 MVEqv := by
  intro xs ys h
  exact ⟨rfl, by simp [mv1, MV.ofList, Col.ofList_perm h]⟩

end MlModel.Agg.Rolling

namespace MlModel.Agg.Rolling

/-! ## 2-D input: `k` columns -/

/-- the per-column statistics of a list of rows -/
def vcols (k : Nat) (rows : List (List F)) : List Col :=
  (List.range k).map fun j => Col.ofList (colOf rows j)

/-- no column has a non-NaN entry -/
def blank (k : Nat) (rows : List (List F)) : Bool :=
  (List.range k).all fun j => decide ((valid (colOf rows j)).length = 0)

theorem colOf_append (xs ys : List (List F)) (j : Nat) :
    colOf (xs ++ ys) j = colOf xs j ++ colOf ys j := by simp [colOf]

theorem ofRows_cols (k : Nat) (rows : List (List F)) : (MV.ofRows k rows).cols = vcols k rows := rfl

theorem ofRows_allVarNan (k : Nat) (rows : List (List F)) :
    (MV.ofRows k rows).allVarNan = blank k rows := by
  simp only [MV.allVarNan, MV.ofRows, blank, List.all_map]
  congr 1
  funext j
  simp [Col.ofList_var_isNone]

theorem vcols_allVarNan (k : Nat) (rows : List (List F)) (sh : List Nat) :
    (⟨true, vcols k rows, sh⟩ : MV).allVarNan = blank k rows := ofRows_allVarNan k rows

theorem all_and_all {α : Type} (l : List α) (p q : α → Bool) :
    (l.all fun x => p x && q x) = (l.all p && l.all q) := by
  induction l with
  | nil => rfl
  | cons a l ih =>
    simp only [List.all_cons, ih]
    cases p a <;> cases q a <;> cases l.all p <;> cases l.all q <;> rfl

theorem blank_append (k : Nat) (xs ys : List (List F)) :
    blank k (xs ++ ys) = (blank k xs && blank k ys) := by
  unfold blank
  rw [← all_and_all]
  congr 1
  funext j
  rw [colOf_append, valid_append, List.length_append, ← Bool.decide_and]
  congr 1
  exact propext Nat.add_eq_zero_iff

theorem vcols_append_blank_right {k : Nat} {xs ys : List (List F)} (h : blank k ys = true) :
    vcols k (xs ++ ys) = vcols k xs := by
  simp only [vcols]
  apply List.map_congr_left
  intro j hj
  rw [colOf_append]
  simp only [blank, List.all_eq_true, decide_eq_true_eq] at h
  exact Col.ofList_append_right (h j hj)

theorem vcols_append_blank_left {k : Nat} {xs ys : List (List F)} (h : blank k xs = true) :
    vcols k (xs ++ ys) = vcols k ys := by
  simp only [vcols]
  apply List.map_congr_left
  intro j hj
  rw [colOf_append]
  simp only [blank, List.all_eq_true, decide_eq_true_eq] at h
  exact Col.ofList_append_left (h j hj)

/-- merging two vector states of the same width, no guard firing: column-wise pooling -/
theorem mergeCore_vcols {k : Nat} {xs ys : List (List F)} (shx shy : List Nat)
    (hy : blank k ys = false) :
    MVEqv (MV.mergeCore true ⟨true, vcols k xs, shx⟩ ⟨true, vcols k ys, shy⟩)
      ⟨true, vcols k (xs ++ ys), []⟩ := by
  rw [MV.mergeCore_cols, vcols_allVarNan, hy]
  simp only [Bool.false_eq_true, if_false, MV.bcast, BEq.rfl, if_true, MVEqv, true_and]
  rw [List.map_zip_eq_zipWith, vcols_allVarNan]
  simp only [vcols]
  rw [List.zipWith_map_left, List.zipWith_map_right, List.zipWith_self]
  apply List.map_congr_left
  intro j hj
  simp only [Function.curry, colOf_append]
  apply Col.step_ofList
  intro hb
  simp only [blank, List.all_eq_true, decide_eq_true_eq] at hb
  exact hb j hj

theorem bcast_fresh_vec (cs : List Col) (sh : List Nat) :
    MV.bcast MV.fresh ⟨true, cs, sh⟩ = (true, cs.map fun c => (Col.fresh, c)) := rfl

theorem fresh_allVarNan : MV.fresh.allVarNan = true := rfl

/-- a fresh (scalar) accumulator merged with a non-blank vector state becomes that state -/
theorem mergeCore_fresh_vcols {k : Nat} {ys : List (List F)} (shy : List Nat)
    (hy : blank k ys = false) :
    MVEqv (MV.mergeCore true MV.fresh ⟨true, vcols k ys, shy⟩) ⟨true, vcols k ys, []⟩ := by
  rw [MV.mergeCore_cols, vcols_allVarNan, hy, bcast_fresh_vec, fresh_allVarNan]
  simp only [Bool.false_eq_true, if_false, MVEqv, List.map_map, true_and]
  simp only [vcols, List.map_map]
  apply List.map_congr_left
  intro j _
  simp only [Function.comp]
  have := Col.step_ofList true (a := []) (b := colOf ys j) (by simp [valid])
  rw [Col.ofList_nil] at this
  simpa using this

/-- `(mv2 k).ofBatch`: fresh if the batch has no valid entry, else its vector statistics -/
theorem mv2_ofBatch (k : Nat) (rows : List (Row k)) :
    MVEqv ((mv2 k).ofBatch rows)
      (if blank k (rows.map (·.val)) then MV.fresh else ⟨true, vcols k (rows.map (·.val)), []⟩) := by
  simp only [mv2]
  by_cases hb : blank k (rows.map (·.val)) = true
  · rw [MV.mergeCore_cols, ofRows_allVarNan, hb]
    simp only [if_true]
    exact ⟨rfl, rfl⟩
  · simp only [Bool.not_eq_true] at hb
    simp only [hb, Bool.false_eq_true, if_false]
    exact mergeCore_fresh_vcols _ hb

theorem mv2_hom (k : Nat) (xs ys : List (Row k)) :
    MVEqv ((mv2 k).merge ((mv2 k).ofBatch xs) ((mv2 k).ofBatch ys)) ((mv2 k).ofBatch (xs ++ ys)) := by
  have hx := mv2_ofBatch k xs
  have hy := mv2_ofBatch k ys
  have hxy := mv2_ofBatch k (xs ++ ys)
  have hm : MVEqv ((mv2 k).merge ((mv2 k).ofBatch xs) ((mv2 k).ofBatch ys)) _ :=
    MVEqv.mergeCore (f := true) hx hy
  refine mvEqv_equiv.2.2 hm (mvEqv_equiv.2.2 ?_ (mvEqv_equiv.2.1 hxy))
  rw [List.map_append, blank_append]
  generalize xs.map (·.val) = xr
  generalize ys.map (·.val) = yr
  cases hbx : blank k xr <;> cases hby : blank k yr <;>
    simp only [Bool.false_eq_true, if_false, if_true, Bool.and_false, Bool.and_true, Bool.and_self]
  · exact mergeCore_vcols _ _ hby
  · rw [MV.mergeCore_cols]
    simp only [MV.fresh, MV.allVarNan, List.all_cons, List.all_nil, Col.fresh, Option.isNone_none,
      Bool.and_true, if_true]
    exact ⟨rfl, (vcols_append_blank_right hby).symm⟩
  · refine mvEqv_equiv.2.2 (mergeCore_fresh_vcols _ hby) ?_
    exact ⟨rfl, (vcols_append_blank_left hbx).symm⟩
  · rw [MV.mergeCore_cols]
    simp [MV.fresh, MV.allVarNan, Col.fresh, MVEqv]

theorem mv2_lawful (k : Nat) : Lawful (mv2 k) MVEqv where
  refl := mvEqv_equiv.1
  symm := mvEqv_equiv.2.1
  trans := mvEqv_equiv.2.2
  merge_congr := MVEqv.mergeCore
  result_congr := MV.result_congr
  empty_eq := by
    have := mv2_ofBatch k []
    simp only [List.map_nil] at this
    have hb : blank k [] = true := by simp [blank, colOf, valid]
    rw [hb] at this
    exact mvEqv_equiv.2.1 this
  hom := mv2_hom k

theorem colOf_perm {xs ys : List (List F)} (h : xs.Perm ys) (j : Nat) :
    (colOf xs j).Perm (colOf ys j) := h.map _

theorem mv2_perm (k : Nat) : PermInv (mv2 k) MVEqv := by
  intro xs ys h
  have hv : (xs.map (·.val)).Perm (ys.map (·.val)) := h.map _
  refine mvEqv_equiv.2.2 (mv2_ofBatch k xs) (mvEqv_equiv.2.2 ?_ (mvEqv_equiv.2.1 (mv2_ofBatch k ys)))
  have hc : vcols k (xs.map (·.val)) = vcols k (ys.map (·.val)) := by
    simp only [vcols]
    apply List.map_congr_left
    intro j _
    exact Col.ofList_perm (colOf_perm hv j)
  have hb : blank k (xs.map (·.val)) = blank k (ys.map (·.val)) := by
    simp only [blank]
    congr 1
    funext j
    have := ((colOf_perm hv j).filterMap id).length_eq
    unfold valid
    rw [this]
  rw [hb, hc]
  exact mvEqv_equiv.1 _

/-- `Mergeable.add` of `mv2` (which merges `ofBatch b = fresh.merge(new(b))`) agrees with the real
`add` (which merges `new(b)`) on every receiver -/
theorem mv2_add_faithful (k : Nat) (s : MV) (rows : List (Row k)) :
    MVEqv ((mv2 k).add s rows) (MV.mergeCore true s (MV.ofRows k (rows.map (·.val)))) := by
  have hb := mv2_ofBatch k rows
  have h1 : MVEqv ((mv2 k).add s rows) _ := MVEqv.mergeCore (f := true) (mvEqv_equiv.1 s) hb
  refine mvEqv_equiv.2.2 h1 ?_
  by_cases hbl : blank k (rows.map (·.val)) = true
  · rw [MV.mergeCore_cols true s (MV.ofRows _ _), ofRows_allVarNan, hbl]
    simp only [if_true]
    rw [MV.mergeCore_cols, fresh_allVarNan]
    simp only [if_true]
    exact mvEqv_equiv.1 s
  · simp only [hbl, if_false]
    exact MVEqv.mergeCore (mvEqv_equiv.1 s) ⟨rfl, rfl⟩

end MlModel.Agg.Rolling

namespace MlModel.Agg.Rolling

/-! ## the `Mean` class (no variance) -/

theorem Col.ofListMean_mergeMean (a b : List F) :
    (Col.ofListMean a).mergeMean (Col.ofListMean b) = Col.ofListMean (a ++ b) := by
  have hm := Col.merge_ofList a b
  have hc : ((Col.ofList a).mergeMean (Col.ofList b)).count = (Col.ofList (a ++ b)).count := by
    have := congrArg Col.count hm; simpa [Col.merge] using this
  have hmean : ((Col.ofList a).mergeMean (Col.ofList b)).mean = (Col.ofList (a ++ b)).mean := by
    have := congrArg Col.mean hm; simpa [Col.merge] using this
  simp only [Col.ofListMean, Col.mergeMean] at hc hmean ⊢
  rw [hmean, hc]

theorem Col.ofListMean_mean_isNone (a : List F) :
    (Col.ofListMean a).mean.isNone = decide ((valid a).length = 0) := by
  simp [Col.ofListMean, Col.ofList_mean_isNone]

theorem Col.ofListMean_congr {a b : List F} (h : valid a = valid b) :
    Col.ofListMean a = Col.ofListMean b := by
  unfold Col.ofListMean; rw [Col.ofList_congr h]

theorem MV.mergeMeanCore_cols (s o : MV) :
    MV.mergeMeanCore s o =
      if o.allMeanNan then s
      else ⟨(MV.bcast s o).1, (MV.bcast s o).2.map fun p => p.1.mergeMean p.2, MV.mergeShape s o⟩ := by
  unfold MV.mergeMeanCore
  split
  · rfl
  · rfl

theorem MVEqv.mergeMeanCore {s s' t t' : MV} (h1 : MVEqv s s') (h2 : MVEqv t t') :
    MVEqv (MV.mergeMeanCore s t) (MV.mergeMeanCore s' t') := by
  obtain ⟨sv, sc, ssh⟩ := s
  obtain ⟨sv', sc', ssh'⟩ := s'
  obtain ⟨tv, tc, tsh⟩ := t
  obtain ⟨tv', tc', tsh'⟩ := t'
  obtain ⟨rfl, rfl⟩ := h1
  obtain ⟨rfl, rfl⟩ := h2
  simp only [MVEqv] at *
  rw [MV.mergeMeanCore_cols, MV.mergeMeanCore_cols]
  simp only [MV.allMeanNan, MV.bcast]
  split <;> simp

theorem mean1_hom (xs ys : List F) :
    MVEqv (MV.mergeMeanCore (MV.ofList xs).dropVar (MV.ofList ys).dropVar) (MV.ofList (xs ++ ys)).dropVar := by
  rw [MV.mergeMeanCore_cols]
  simp only [MV.ofList, MV.dropVar, MV.allMeanNan, List.all_cons, List.all_nil, Bool.and_true,
    List.map_cons, List.map_nil, MV.bcast, BEq.rfl, if_true, List.zip_cons_cons, List.zip_nil_right]
  have e : ∀ zs : List F, ({ Col.ofList zs with var := none } : Col) = Col.ofListMean zs := fun _ => rfl
  simp only [e, Col.ofListMean_mean_isNone, Col.ofList_mean_isNone]
  by_cases hy : (valid ys).length = 0
  · simp only [hy, decide_true, if_true, MVEqv, true_and, List.cons.injEq, and_true]
    exact Col.ofListMean_congr (by rw [valid_append, List.length_eq_zero_iff.mp hy, List.append_nil])
  · simp only [hy, decide_false, Bool.false_eq_true, if_false, MVEqv, true_and, List.cons.injEq, and_true]
    exact Col.ofListMean_mergeMean xs ys

theorem mean1_lawful : Lawful mean1 MVEqv where
  refl := mvEqv_equiv.1
  symm := mvEqv_equiv.2.1
  trans := mvEqv_equiv.2.2
  merge_congr := MVEqv.mergeMeanCore
  result_congr := MV.result_congr
  empty_eq := ⟨rfl, by simp [mean1, MV.fresh, MV.ofList, MV.dropVar, Col.ofList_nil, Col.fresh]⟩
  hom := mean1_hom

theorem mean1_perm : PermInv mean1 MVEqv := by
  intro xs ys h
  exact ⟨rfl, by simp [mean1, MV.ofList, MV.dropVar, Col.ofList_perm h]⟩

/-- per-column means of a list of rows -/
def mcols (k : Nat) (rows : List (List F)) : List Col :=
  (List.range k).map fun j => Col.ofListMean (colOf rows j)

theorem ofRows_dropVar_cols (k : Nat) (rows : List (List F)) :
    (MV.ofRows k rows).dropVar.cols = mcols k rows := by
  simp [MV.ofRows, MV.dropVar, mcols, Col.ofListMean]

theorem mcols_allMeanNan (k : Nat) (rows : List (List F)) (sh : List Nat) :
    (⟨true, mcols k rows, sh⟩ : MV).allMeanNan = blank k rows := by
  simp only [MV.allMeanNan, mcols, blank, List.all_map]
  congr 1
  funext j
  simp [Col.ofListMean_mean_isNone]

theorem mcols_append_blank_right {k : Nat} {xs ys : List (List F)} (h : blank k ys = true) :
    mcols k (xs ++ ys) = mcols k xs := by
  simp only [mcols]
  apply List.map_congr_left
  intro j hj
  rw [colOf_append]
  simp only [blank, List.all_eq_true, decide_eq_true_eq] at h
  exact Col.ofListMean_congr (by rw [valid_append, List.length_eq_zero_iff.mp (h j hj), List.append_nil])

theorem mcols_append_blank_left {k : Nat} {xs ys : List (List F)} (h : blank k xs = true) :
    mcols k (xs ++ ys) = mcols k ys := by
  simp only [mcols]
  apply List.map_congr_left
  intro j hj
  rw [colOf_append]
  simp only [blank, List.all_eq_true, decide_eq_true_eq] at h
  exact Col.ofListMean_congr (by rw [valid_append, List.length_eq_zero_iff.mp (h j hj), List.nil_append])

theorem mergeMeanCore_mcols {k : Nat} {xs ys : List (List F)} (shx shy : List Nat)
    (hy : blank k ys = false) :
    MVEqv (MV.mergeMeanCore ⟨true, mcols k xs, shx⟩ ⟨true, mcols k ys, shy⟩)
      ⟨true, mcols k (xs ++ ys), []⟩ := by
  rw [MV.mergeMeanCore_cols, mcols_allMeanNan, hy]
  simp only [Bool.false_eq_true, if_false, MV.bcast, BEq.rfl, if_true, MVEqv, true_and]
  rw [List.map_zip_eq_zipWith]
  simp only [mcols]
  rw [List.zipWith_map_left, List.zipWith_map_right, List.zipWith_self]
  apply List.map_congr_left
  intro j _
  simp only [Function.curry, colOf_append]
  exact Col.ofListMean_mergeMean _ _

theorem mergeMeanCore_fresh_mcols {k : Nat} {ys : List (List F)} (shy : List Nat)
    (hy : blank k ys = false) :
    MVEqv (MV.mergeMeanCore MV.fresh ⟨true, mcols k ys, shy⟩) ⟨true, mcols k ys, []⟩ := by
  rw [MV.mergeMeanCore_cols, mcols_allMeanNan, hy, bcast_fresh_vec]
  simp only [Bool.false_eq_true, if_false, MVEqv, List.map_map, true_and]
  simp only [mcols, List.map_map]
  apply List.map_congr_left
  intro j _
  simp only [Function.comp]
  have := Col.ofListMean_mergeMean [] (colOf ys j)
  simpa [Col.ofListMean, Col.ofList_nil, Col.fresh] using this

theorem mean2_ofBatch (k : Nat) (rows : List (Row k)) :
    MVEqv ((mean2 k).ofBatch rows)
      (if blank k (rows.map (·.val)) then MV.fresh else ⟨true, mcols k (rows.map (·.val)), []⟩) := by
  simp only [mean2]
  have hcols : (MV.ofRows k (rows.map (·.val))).dropVar
      = ⟨true, mcols k (rows.map (·.val)), (MV.ofRows k (rows.map (·.val))).shape⟩ := by
    simp [MV.ofRows, MV.dropVar, mcols, Col.ofListMean]
  rw [hcols]
  by_cases hb : blank k (rows.map (·.val)) = true
  · rw [MV.mergeMeanCore_cols, mcols_allMeanNan, hb]
    simp only [if_true]
    exact ⟨rfl, rfl⟩
  · simp only [Bool.not_eq_true] at hb
    simp only [hb, Bool.false_eq_true, if_false]
    exact mergeMeanCore_fresh_mcols _ hb

theorem fresh_allMeanNan : MV.fresh.allMeanNan = true := rfl

theorem mean2_hom (k : Nat) (xs ys : List (Row k)) :
    MVEqv ((mean2 k).merge ((mean2 k).ofBatch xs) ((mean2 k).ofBatch ys))
      ((mean2 k).ofBatch (xs ++ ys)) := by
  have hx := mean2_ofBatch k xs
  have hy := mean2_ofBatch k ys
  have hxy := mean2_ofBatch k (xs ++ ys)
  have hm : MVEqv ((mean2 k).merge ((mean2 k).ofBatch xs) ((mean2 k).ofBatch ys)) _ :=
    MVEqv.mergeMeanCore hx hy
  refine mvEqv_equiv.2.2 hm (mvEqv_equiv.2.2 ?_ (mvEqv_equiv.2.1 hxy))
  rw [List.map_append, blank_append]
  generalize xs.map (·.val) = xr
  generalize ys.map (·.val) = yr
  cases hbx : blank k xr <;> cases hby : blank k yr <;>
    simp only [Bool.false_eq_true, if_false, if_true, Bool.and_false, Bool.and_true, Bool.and_self]
  · exact mergeMeanCore_mcols _ _ hby
  · rw [MV.mergeMeanCore_cols, fresh_allMeanNan]
    simp only [if_true]
    exact ⟨rfl, (mcols_append_blank_right hby).symm⟩
  · refine mvEqv_equiv.2.2 (mergeMeanCore_fresh_mcols _ hby) ?_
    exact ⟨rfl, (mcols_append_blank_left hbx).symm⟩
  · rw [MV.mergeMeanCore_cols, fresh_allMeanNan]
    simp only [if_true]
    exact mvEqv_equiv.1 _

theorem mean2_lawful (k : Nat) : Lawful (mean2 k) MVEqv where
  refl := mvEqv_equiv.1
  symm := mvEqv_equiv.2.1
  trans := mvEqv_equiv.2.2
  merge_congr := MVEqv.mergeMeanCore
  result_congr := MV.result_congr
  empty_eq := by
    have := mean2_ofBatch k []
    simp only [List.map_nil] at this
    have hb : blank k [] = true := by simp [blank, colOf, valid]
    rw [hb] at this
    exact mvEqv_equiv.2.1 this
  hom := mean2_hom k

theorem mean2_perm (k : Nat) : PermInv (mean2 k) MVEqv := by
  intro xs ys h
  have hv : (xs.map (·.val)).Perm (ys.map (·.val)) := h.map _
  refine mvEqv_equiv.2.2 (mean2_ofBatch k xs)
    (mvEqv_equiv.2.2 ?_ (mvEqv_equiv.2.1 (mean2_ofBatch k ys)))
  have hc : mcols k (xs.map (·.val)) = mcols k (ys.map (·.val)) := by
    simp only [mcols]
    apply List.map_congr_left
    intro j _
    unfold Col.ofListMean
    rw [Col.ofList_perm (colOf_perm hv j)]
  have hb : blank k (xs.map (·.val)) = blank k (ys.map (·.val)) := by
    simp only [blank]
    congr 1
    funext j
    have := ((colOf_perm hv j).filterMap id).length_eq
    unfold valid
    rw [this]
  rw [hb, hc]
  exact mvEqv_equiv.1 _

end MlModel.Agg.Rolling

namespace MlModel.Agg.Rolling

/-! ## the real `merge` never raises inside a well-typed family -/

/-- shapes that occur when every batch is 1-D (`k = none`) or has exactly `k` columns -/
def MVWf : Option Nat → MV → Prop
  | none, s => s.vec = false ∧ s.cols.length = 1 ∧ s.shape.tail = []
  | some k, s =>
    (s.vec = false ∧ s.allVarNan = true ∧ s.shape = [] ∧ s.cols.length = 1) ∨
    (s.vec = true ∧ s.cols.length = k ∧ (s.shape = [] ∨ s.shape.tail = [k]))

theorem MVWf.fresh (fam : Option Nat) : MVWf fam MV.fresh := by
  cases fam with
  | none => exact ⟨rfl, rfl, rfl⟩
  | some k => exact Or.inl ⟨rfl, rfl, rfl, rfl⟩

theorem MVWf.ofList (xs : List F) : MVWf none (MV.ofList xs) := by
  refine ⟨rfl, rfl, ?_⟩
  simp only [MV.ofList]
  split <;> rfl

theorem MVWf.ofRows (k : Nat) (rows : List (List F)) : MVWf (some k) (MV.ofRows k rows) := by
  refine Or.inr ⟨rfl, by simp [MV.ofRows], ?_⟩
  simp only [MV.ofRows]
  split
  · exact Or.inl rfl
  · exact Or.inr rfl

theorem mergeShape_tail {s o : MV} {t : List Nat} (hs : s.shape = [] ∨ s.shape.tail = t)
    (ho : o.shape = [] ∨ o.shape.tail = t) (hne : o.shape ≠ []) :
    o.shape.tail = (MV.mergeShape s o).tail := by
  unfold MV.mergeShape
  rcases ho with ho | ho
  · exact absurd ho hne
  · rcases hs with hs | hs
    · simp [hs]
    · by_cases he : s.shape.isEmpty = true
      · simp [he]
      · simp [he, hs, ho]

/-- **no `ValueError` inside a family** and the family is closed under `merge` -/
theorem MVWf.merge {fam : Option Nat} {s o : MV} (hs : MVWf fam s) (ho : MVWf fam o) :
    MV.merge true s o = .ok (MV.mergeCore true s o) ∧ MVWf fam (MV.mergeCore true s o) := by
  have key : MV.mergeErr s o = none → MV.merge true s o = .ok (MV.mergeCore true s o) := by
    intro h; simp [MV.merge, h]
  by_cases hg : o.allVarNan = true
  · refine ⟨key (by simp [MV.mergeErr, hg]), ?_⟩
    rw [MV.mergeCore_cols, if_pos hg]; exact hs
  · cases fam with
    | none =>
      obtain ⟨sv, sl, ss⟩ := hs
      obtain ⟨ov, ol, os⟩ := ho
      refine ⟨key ?_, ?_⟩
      · have ht : (MV.mergeShape s o).tail = [] := by
          unfold MV.mergeShape; split <;> assumption
        simp [MV.mergeErr, hg, os, ht, sv, ov, sl, ol]
      · rw [MV.mergeCore_cols, if_neg hg]
        refine ⟨by simp [MV.bcast, sv, ov], ?_, ?_⟩
        · simp [MV.bcast, sv, ov, sl, ol]
        · show (MV.mergeShape s o).tail = []
          unfold MV.mergeShape; split <;> assumption
    | some k =>
      rcases ho with ⟨_, hon, _, _⟩ | ⟨ov, ol, os⟩
      · exact absurd hon hg
      · have hss : s.shape = [] ∨ s.shape.tail = [k] := by
          rcases hs with ⟨_, _, h, _⟩ | ⟨_, _, h⟩
          · exact Or.inl h
          · exact h
        have hshape : o.shape.isEmpty = false → o.shape.tail = (MV.mergeShape s o).tail := by
          intro hne
          exact mergeShape_tail hss os (by intro h; simp [h] at hne)
        have hms : (MV.mergeShape s o) = [] ∨ (MV.mergeShape s o).tail = [k] := by
          unfold MV.mergeShape
          split
          · exact os
          · exact hss
        rcases hs with ⟨sv, _, _, sl⟩ | ⟨sv, sl, _⟩
        · refine ⟨key ?_, ?_⟩
          · by_cases he : o.shape.isEmpty = true
            · simp [MV.mergeErr, hg, he, sv, ov]
            · simp only [Bool.not_eq_true] at he
              simp [MV.mergeErr, hg, he, hshape he, sv, ov]
          · rw [MV.mergeCore_cols, if_neg hg]
            refine Or.inr ⟨by simp [MV.bcast, sv, ov], by simp [MV.bcast, sv, ov, ol], hms⟩
        · refine ⟨key ?_, ?_⟩
          · by_cases he : o.shape.isEmpty = true
            · simp [MV.mergeErr, hg, he, sv, ov, sl, ol]
            · simp only [Bool.not_eq_true] at he
              simp [MV.mergeErr, hg, he, hshape he, sv, ov, sl, ol]
          · rw [MV.mergeCore_cols, if_neg hg]
            refine Or.inr ⟨by simp [MV.bcast, sv, ov], by simp [MV.bcast, sv, ov, sl, ol], hms⟩

end MlModel.Agg.Rolling

namespace MlModel.Agg.Rolling

/-- a history evaluated with the REAL methods: `new`, and `merge` that may raise `ValueError` -/
def MV.evalReal {X : Type} (new : List X → MV) : Expr X → Except ErrKind MV
  | .fresh => .ok MV.fresh
  | .batch xs => MV.merge true MV.fresh (new xs)          -- `MeanAndVariance().add(xs)`
  | .merge a b => do
    let sa ← MV.evalReal new a
    let sb ← MV.evalReal new b
    MV.merge true sa sb

theorem MV.evalReal_wf {X : Type} (fam : Option Nat) (new : List X → MV)
    (hnew : ∀ xs, MVWf fam (new xs)) (e : Expr X) :
    ∃ s, MV.evalReal new e = .ok s ∧ MVWf fam s := by
  induction e with
  | fresh => exact ⟨_, rfl, MVWf.fresh fam⟩
  | batch xs =>
    obtain ⟨h1, h2⟩ := MVWf.merge (MVWf.fresh fam) (hnew xs)
    exact ⟨_, h1, h2⟩
  | merge a b iha ihb =>
    obtain ⟨sa, ha, wa⟩ := iha
    obtain ⟨sb, hb, wb⟩ := ihb
    obtain ⟨h1, h2⟩ := MVWf.merge wa wb
    exact ⟨_, by simp [MV.evalReal, ha, hb, h1, bind, Except.bind], h2⟩

/-- on `k`-column data the instance `mv2 k` *is* the real evaluation -/
theorem mv2_evalReal (k : Nat) (e : Expr (Row k)) :
    MV.evalReal (fun rows => MV.ofRows k (rows.map (·.val))) e = .ok (e.eval (mv2 k)) := by
  have hnew : ∀ xs : List (Row k), MVWf (some k) (MV.ofRows k (xs.map (·.val))) :=
    fun xs => MVWf.ofRows k _
  induction e with
  | fresh => rfl
  | batch xs => exact (MVWf.merge (MVWf.fresh (some k)) (hnew xs)).1
  | merge a b iha ihb =>
    obtain ⟨sa, ha, wa⟩ := MV.evalReal_wf (some k) _ hnew a
    obtain ⟨sb, hb, wb⟩ := MV.evalReal_wf (some k) _ hnew b
    rw [ha] at iha; rw [hb] at ihb
    cases iha; cases ihb
    simp only [MV.evalReal, ha, hb, bind, Except.bind]
    exact (MVWf.merge wa wb).1

end MlModel.Agg.Rolling
