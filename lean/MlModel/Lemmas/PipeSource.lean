import MlModel.Lemmas.Pipe
/-!
# Failing SOURCES / passed-on skippable errors in front of ANY un-batched operator

`Lemmas/Pipe.lean` proves the refinement under `Ref.Clean`: no skippable error is *passed on* to an
operator.  No operator needs that condition.  `apply` / `select`: `map_ignore_error` sits on top of
`map(self._get_inputs, input_iterator)`, so a skippable error raised by the *source* is swallowed by
the same guard that swallows a failing call, and the (resumable) source is read on.  `assign` /
`filter` / `sink`: `processed_with_inputs` wraps its input iterator in `iter_ignore_error` before it is
teed (the repair of finding F-C12-passed-on; `Impl.annotSkip`), so the failing read never reaches the
`_TeeIterator` FIFO.  Either way the operator behaves as the reference on the source *without* its
skippable failing reads (`Ref.skipNT`).
-/
set_option linter.unusedSimpArgs false
namespace MlModel.Pipe
open MlModel.Iter

/-- `apply` / `select` over ANY source: the skippable failing reads vanish (`Ref.skipNT`), nothing
else changes — no `Clean` hypothesis -/
theorem apply_spec_src (ignore : Bool) (op : Op) (hk : op.kind = .select ∨ op.kind = .apply)
    (hself : SelfAlone op) (s k : Nat) (src : List (Ev Val)) :
    (Impl.aCut ignore (Impl.aMap (fun outs => liftErr (getOutputs op .null outs))
        (innerEvs ignore op s k (cutTerminal ignore src)))).map (·.ev)
      = Ref.opEvents ignore op s (Ref.skipNT ignore src) := by
  induction src generalizing s k with
  | nil => simp [cutTerminal, innerEvs, Impl.aMap, Impl.aCut, Ref.opEvents, Ref.skipNT]
  | cons ev rest ih =>
    cases ev with
    | error e =>
      by_cases ht : terminal ignore e = true
      · simp [cutTerminal, innerEvs, Impl.aMap, Impl.aCut, Ref.opEvents, Ref.skipNT, ht, not_skip_of_terminal ht]
      · simp [cutTerminal, innerEvs, Impl.aMap, Impl.aCut, Ref.opEvents, Ref.skipNT, ht, skip_of_not_terminal ht, ih]
    | ok r =>
      rcases hs : Ref.semCall op s r with ⟨res, s'⟩
      cases res with
      | error e =>
        have h1 : inner1 op s r = (.error e, s') := by simp [inner1, hs]
        by_cases ht : terminal ignore e = true
        · simp [cutTerminal, innerEvs, Impl.aMap, Impl.aCut, Ref.opEvents, Ref.skipNT, h1, hs, ht, not_skip_of_terminal ht]
        · simp [cutTerminal, innerEvs, Impl.aMap, Impl.aCut, Ref.opEvents, Ref.skipNT, h1, hs, ht, skip_of_not_terminal ht, ih]
      | ok v =>
        have h1 : inner1 op s r = (.ok (normOuts op v), s') := by simp [inner1, hs]
        have hw : Ref.semWrite op r v = (liftErr (Ref.write op .null v)).map some := by
          rcases hk with hk | hk <;> simp [Ref.semWrite, hk]
        cases hwr : Ref.write op .null v with
        | error kd =>
          by_cases ht : terminal ignore ({ kind := kd } : Err) = true
          · simp [cutTerminal, innerEvs, Impl.aMap, Impl.aCut, Ref.opEvents, Ref.skipNT, h1, hs, hw, hwr,
              getOutputs_normOuts op hself, ht, Except.map]
          · simp [cutTerminal, innerEvs, Impl.aMap, Impl.aCut, Ref.opEvents, Ref.skipNT, h1, hs, hw, hwr,
              getOutputs_normOuts op hself, ht, Except.map, ih]
        | ok x =>
          simp [cutTerminal, innerEvs, Impl.aMap, Impl.aCut, Ref.opEvents, Ref.skipNT, h1, hs, hw, hwr,
            getOutputs_normOuts op hself, Except.map, ih]

theorem opIterate_apply_src (ignore : Bool) (op : Op) (hk : op.kind = .select ∨ op.kind = .apply)
    (h : OpOK op) (src : List (Ev Val)) :
    (Impl.opIterate ignore op src).evs.map (·.ev) = Ref.opEvents ignore op op.s0 (Ref.skipNT ignore src) := by
  unfold Impl.opIterate
  rcases hk with hk | hk
  · simp only [hk, iterate_unbatched _ op h.unbatched]
    exact apply_spec_src ignore op (Or.inl hk) h.selfAlone op.s0 0 src
  · simp only [hk, iterate_unbatched _ op h.unbatched]
    exact apply_spec_src ignore op (Or.inr hk) h.selfAlone op.s0 0 src

/-- `assign` / `sink` over ANY source: a resumable map over `processed_with_inputs` -/
theorem paired_map_spec_src (ignore : Bool) (op : Op) (g : List Val × Val → Ev Val)
    (hg : ∀ r v, Ref.semWrite op r v = (g (normOuts op v, r)).map some)
    (s k : Nat) (src : List (Ev Val)) :
    (Impl.aCut ignore (Impl.aMap g (paired ignore op s k (cutTerminal ignore src)))).map (·.ev)
      = Ref.opEvents ignore op s (Ref.skipNT ignore src) := by
  induction src generalizing s k with
  | nil => simp [cutTerminal, paired, Impl.aMap, Impl.aCut, Ref.opEvents, Ref.skipNT]
  | cons ev rest ih =>
    cases ev with
    | error e =>
      by_cases ht : terminal ignore e = true
      · simp [cutTerminal, paired, Impl.aMap, Impl.aCut, Ref.opEvents, Ref.skipNT, ht, not_skip_of_terminal ht]
      · simp [cutTerminal, paired, Impl.aMap, Impl.aCut, Ref.opEvents, Ref.skipNT, ht, skip_of_not_terminal ht, ih]
    | ok r =>
      rcases hs : Ref.semCall op s r with ⟨res, s'⟩
      cases res with
      | error e =>
        have h1 : inner1 op s r = (.error e, s') := by simp [inner1, hs]
        by_cases ht : terminal ignore e = true
        · simp [cutTerminal, paired, Impl.aMap, Impl.aCut, Ref.opEvents, Ref.skipNT, h1, hs, ht, not_skip_of_terminal ht]
        · simp [cutTerminal, paired, Impl.aMap, Impl.aCut, Ref.opEvents, Ref.skipNT, h1, hs, ht, skip_of_not_terminal ht, ih]
      | ok v =>
        have h1 : inner1 op s r = (.ok (normOuts op v), s') := by simp [inner1, hs]
        have hw := hg r v
        cases hgr : g (normOuts op v, r) with
        | error e =>
          by_cases ht : terminal ignore e = true
          · simp [cutTerminal, paired, Impl.aMap, Impl.aCut, Ref.opEvents, Ref.skipNT, h1, hs, hw, hgr, ht, Except.map]
          · simp [cutTerminal, paired, Impl.aMap, Impl.aCut, Ref.opEvents, Ref.skipNT, h1, hs, hw, hgr, ht, Except.map, ih]
        | ok x =>
          simp [cutTerminal, paired, Impl.aMap, Impl.aCut, Ref.opEvents, Ref.skipNT, h1, hs, hw, hgr, Except.map, ih]

/-- `filter` over ANY source: the generator expression over `processed_with_inputs` -/
theorem filter_spec_src (ignore : Bool) (op : Op) (hk : op.kind = .filter) (hnt : NoTuple op)
    (s k : Nat) (src : List (Ev Val)) :
    (Impl.aCut ignore (Impl.filterGen (paired ignore op s k (cutTerminal ignore src)))).map (·.ev)
      = Ref.opEvents ignore op s (Ref.skipNT ignore src) := by
  induction src generalizing s k with
  | nil => simp [cutTerminal, paired, Impl.filterGen, Impl.aCut, Ref.opEvents, Ref.skipNT]
  | cons ev rest ih =>
    cases ev with
    | error e =>
      by_cases ht : terminal ignore e = true
      · simp [cutTerminal, paired, Impl.filterGen, Impl.aCut, Ref.opEvents, Ref.skipNT, ht, not_skip_of_terminal ht]
      · simp [cutTerminal, paired, Impl.filterGen, Impl.aCut, Ref.opEvents, Ref.skipNT, ht, skip_of_not_terminal ht, ih]
    | ok r =>
      rcases hs : Ref.semCall op s r with ⟨res, s'⟩
      cases res with
      | error e =>
        have h1 : inner1 op s r = (.error e, s') := by simp [inner1, hs]
        by_cases ht : terminal ignore e = true
        · simp [cutTerminal, paired, Impl.filterGen, Impl.aCut, Ref.opEvents, Ref.skipNT, h1, hs, ht, not_skip_of_terminal ht]
        · simp [cutTerminal, paired, Impl.filterGen, Impl.aCut, Ref.opEvents, Ref.skipNT, h1, hs, ht, skip_of_not_terminal ht, ih]
      | ok v =>
        have hv : ∀ xs, v ≠ .tuple xs := by
          unfold Ref.semCall at hs
          cases hgi : getInputs op r with
          | error kd => simp [hgi] at hs
          | ok ins => rw [hgi] at hs; exact hnt s ins v s' hs
        have h1 : inner1 op s r = (.ok [v], s') := by simp [inner1, hs, normOuts_nontuple op v hv]
        by_cases hb : v.truthy = true
        · simp [cutTerminal, paired, Impl.filterGen, Impl.aCut, Ref.opEvents, Ref.skipNT, h1, hs, Ref.semWrite, hk, hb, ih]
        · simp [cutTerminal, paired, Impl.filterGen, Impl.aCut, Ref.opEvents, Ref.skipNT, h1, hs, Ref.semWrite, hk, hb, ih]

/-- **every un-batched operator over ANY source** — no `Clean` hypothesis: the operator's iterator
produces the reference's events over the source from which the skippable failing reads have been removed -/
theorem opIterate_src_spec (ignore : Bool) (op : Op) (h : OpOK op) (src : List (Ev Val)) :
    (Impl.opIterate ignore op src).evs.map (·.ev) = Ref.opEvents ignore op op.s0 (Ref.skipNT ignore src) := by
  cases hk : op.kind with
  | select => exact opIterate_apply_src ignore op (Or.inl hk) h src
  | apply => exact opIterate_apply_src ignore op (Or.inr hk) h src
  | assign =>
    unfold Impl.opIterate
    simp only [hk, Impl.passedOnFixed, Bool.and_true, iterate_unbatchedT _ op h.unbatched, pwi_aligned0]
    refine paired_map_spec_src ignore op _ ?_ op.s0 0 src
    intro r v
    simp [Ref.semWrite, hk, getOutputs_normOuts op h.selfAlone]
  | filter =>
    unfold Impl.opIterate
    simp only [hk, Impl.passedOnFixed, Impl.f17Fixed, Bool.and_true, iterate_unbatchedT _ op h.unbatched, pwi_aligned0]
    exact filter_spec_src ignore op hk (h.pred hk) op.s0 0 src
  | sink =>
    unfold Impl.opIterate
    simp only [hk, Impl.passedOnFixed, Bool.and_true, iterate_unbatchedT _ op h.unbatched, pwi_aligned0]
    refine paired_map_spec_src ignore op _ ?_ op.s0 0 src
    intro r v
    simp [Ref.semWrite, hk, Except.map]

/-- **every chain of un-batched operators over ANY source**: the runner's fold of `fn.iterate` is the
reference in which every operator skips the skippable errors passed on to it (`Ref.chainEventsS`) -/
theorem topEventsS_spec (ignore : Bool) (ops : List Op) (hops : ∀ op ∈ ops, OpOK op) (src : List (Ev Val)) :
    Impl.topEvents ignore ops src = Ref.chainEventsS ignore ops src := by
  induction ops generalizing src with
  | nil => rfl
  | cons op ops ih =>
    have hop := hops op (List.mem_cons_self ..)
    have hrest : ∀ o ∈ ops, OpOK o := fun o ho => hops o (List.mem_cons_of_mem _ ho)
    simp only [Impl.topEvents, Ref.chainEventsS, opIterate_src_spec ignore op hop src]
    exact ih hrest _

/-- a chain whose first operator is an `apply` / `select`, over any source -/
theorem topEvents_src_spec (ignore : Bool) (op : Op) (ops : List Op)
    (hk : op.kind = .select ∨ op.kind = .apply) (hop : OpOK op) (hops : ∀ o ∈ ops, OpOK o)
    (src : List (Ev Val))
    (hc : Ref.CleanRun ignore ops (Ref.opEvents ignore op op.s0 (Ref.skipNT ignore src))) :
    Impl.topEvents ignore (op :: ops) src = Ref.chainEvents ignore (op :: ops) (Ref.skipNT ignore src) := by
  simp only [Impl.topEvents, Ref.chainEvents, opIterate_apply_src ignore op hk hop src]
  exact topEvents_spec ignore ops hops _ hc

/-- what is left of a source after its skippable failing reads have been removed has terminal errors only -/
theorem skipNT_clean (ignore : Bool) (src : List (Ev Val)) : Ref.Clean ignore (Ref.skipNT ignore src) := by
  intro e he
  induction src with
  | nil => simp [Ref.skipNT] at he
  | cons ev rest ih =>
    cases ev with
    | ok a =>
      simp only [Ref.skipNT, List.mem_cons, reduceCtorEq, false_or] at he
      exact ih he
    | error e' =>
      by_cases ht : terminal ignore e' = true
      · simp only [Ref.skipNT, ht, if_true, List.mem_cons, Except.error.injEq] at he
        rcases he with he | he
        · rw [he]; exact ht
        · exact ih he
      · simp only [Ref.skipNT, ht, Bool.false_eq_true, if_false] at he
        exact ih he

/-- a stream whose errors are all terminal has nothing to remove -/
theorem skipNT_id_of_clean (ignore : Bool) (src : List (Ev Val)) (h : Ref.Clean ignore src) :
    Ref.skipNT ignore src = src := by
  induction src with
  | nil => rfl
  | cons ev rest ih =>
    cases ev with
    | ok a => simp [Ref.skipNT, ih (clean_tail h)]
    | error e => simp [Ref.skipNT, clean_head h, ih (clean_tail h)]

/-- on a run in which no skippable error is passed on, the two references coincide: the `Clean`-based
theorems are the special case of the `chainEventsS` ones -/
theorem chainEventsS_of_cleanRun (ignore : Bool) (ops : List Op) (src : List (Ev Val))
    (h : Ref.CleanRun ignore ops src) : Ref.chainEventsS ignore ops src = Ref.chainEvents ignore ops src := by
  induction ops generalizing src with
  | nil => rfl
  | cons op ops ih =>
    simp only [Ref.chainEventsS, Ref.chainEvents, skipNT_id_of_clean ignore src h.1]
    exact ih _ h.2

/-- removing twice removes nothing more -/
theorem skipNT_idem (ignore : Bool) (src : List (Ev Val)) :
    Ref.skipNT ignore (Ref.skipNT ignore src) = Ref.skipNT ignore src :=
  skipNT_id_of_clean ignore _ (skipNT_clean ignore src)

/-- the successful reads survive the removal, in order -/
theorem oks_skipNT {α : Type} (ignore : Bool) (src : List (Ev α)) : oks (Ref.skipNT ignore src) = oks src := by
  induction src with
  | nil => rfl
  | cons ev rest ih =>
    cases ev with
    | ok a => simp [Ref.skipNT, oks, ih]
    | error e => by_cases ht : terminal ignore e = true <;> simp [Ref.skipNT, oks, ht, ih]

end MlModel.Pipe
