import MlModel.Lemmas.Pipe
/-!
# Failing SOURCES in front of an `apply` / `select`

`Lemmas/Pipe.lean` proves the refinement under `Ref.Clean`: no skippable error is *passed on* to an
operator (an `assign` / `filter` / `sink` that receives one raises `IndexError`: finding
F-C12-passed-on).  An `apply` / `select` needs no such condition: `map_ignore_error` sits on top of
`map(self._get_inputs, input_iterator)`, so a skippable error raised by the *source* is swallowed by
the same guard that swallows a failing call, and the (resumable) source is read on.
-/
set_option linter.unusedSimpArgs false
namespace MlModel.Pipe
open MlModel.Iter

/-- `apply` / `select` over ANY source: the skippable failing reads vanish (`Ref.skipNT`), nothing
else changes — no `Clean` hypothesis -/
theorem apply_spec_src (ignore : Bool) (op : Op) (hk : op.kind = .select ∨ op.kind = .apply)
    (hself : SelfAlone op) (s k : Nat) (src : List (Ev Val)) :
    (Impl.aCut ignore (Impl.aMap (fun outs => liftErr (getOutputs op .null outs))
        (innerEvs ignore op s k (cutTerminal ignore src)))).map (·.ev)
      = Ref.opEvents ignore op s (Ref.skipNT ignore src) := by
  induction src generalizing s k with
  | nil => simp [cutTerminal, innerEvs, Impl.aMap, Impl.aCut, Ref.opEvents, Ref.skipNT]
  | cons ev rest ih =>
    cases ev with
    | error e =>
      by_cases ht : terminal ignore e = true
      · simp [cutTerminal, innerEvs, Impl.aMap, Impl.aCut, Ref.opEvents, Ref.skipNT, ht, not_skip_of_terminal ht]
      · simp [cutTerminal, innerEvs, Impl.aMap, Impl.aCut, Ref.opEvents, Ref.skipNT, ht, skip_of_not_terminal ht, ih]
    | ok r =>
      rcases hs : Ref.semCall op s r with ⟨res, s'⟩
      cases res with
      | error e =>
        have h1 : inner1 op s r = (.error e, s') := by simp [inner1, hs]
        by_cases ht : terminal ignore e = true
        · simp [cutTerminal, innerEvs, Impl.aMap, Impl.aCut, Ref.opEvents, Ref.skipNT, h1, hs, ht, not_skip_of_terminal ht]
        · simp [cutTerminal, innerEvs, Impl.aMap, Impl.aCut, Ref.opEvents, Ref.skipNT, h1, hs, ht, skip_of_not_terminal ht, ih]
      | ok v =>
        have h1 : inner1 op s r = (.ok (normOuts op v), s') := by simp [inner1, hs]
        have hw : Ref.semWrite op r v = (liftErr (Ref.write op .null v)).map some := by
          rcases hk with hk | hk <;> simp [Ref.semWrite, hk]
        cases hwr : Ref.write op .null v with
        | error kd =>
          by_cases ht : terminal ignore ({ kind := kd } : Err) = true
          · simp [cutTerminal, innerEvs, Impl.aMap, Impl.aCut, Ref.opEvents, Ref.skipNT, h1, hs, hw, hwr,
              getOutputs_normOuts op hself, ht, Except.map]
          · simp [cutTerminal, innerEvs, Impl.aMap, Impl.aCut, Ref.opEvents, Ref.skipNT, h1, hs, hw, hwr,
              getOutputs_normOuts op hself, ht, Except.map, ih]
        | ok x =>
          simp [cutTerminal, innerEvs, Impl.aMap, Impl.aCut, Ref.opEvents, Ref.skipNT, h1, hs, hw, hwr,
            getOutputs_normOuts op hself, Except.map, ih]

theorem opIterate_apply_src (ignore : Bool) (op : Op) (hk : op.kind = .select ∨ op.kind = .apply)
    (h : OpOK op) (src : List (Ev Val)) :
    (Impl.opIterate ignore op src).evs.map (·.ev) = Ref.opEvents ignore op op.s0 (Ref.skipNT ignore src) := by
  unfold Impl.opIterate
  rcases hk with hk | hk
  · simp only [hk, iterate_unbatched _ op h.unbatched]
    exact apply_spec_src ignore op (Or.inl hk) h.selfAlone op.s0 0 src
  · simp only [hk, iterate_unbatched _ op h.unbatched]
    exact apply_spec_src ignore op (Or.inr hk) h.selfAlone op.s0 0 src

/-- a chain whose first operator is an `apply` / `select`, over any source -/
theorem topEvents_src_spec (ignore : Bool) (op : Op) (ops : List Op)
    (hk : op.kind = .select ∨ op.kind = .apply) (hop : OpOK op) (hops : ∀ o ∈ ops, OpOK o)
    (src : List (Ev Val))
    (hc : Ref.CleanRun ignore ops (Ref.opEvents ignore op op.s0 (Ref.skipNT ignore src))) :
    Impl.topEvents ignore (op :: ops) src = Ref.chainEvents ignore (op :: ops) (Ref.skipNT ignore src) := by
  simp only [Impl.topEvents, Ref.chainEvents, opIterate_apply_src ignore op hk hop src]
  exact topEvents_spec ignore ops hops _ hc

/-- what is left of a source after its skippable failing reads have been removed has terminal errors only -/
theorem skipNT_clean (ignore : Bool) (src : List (Ev Val)) : Ref.Clean ignore (Ref.skipNT ignore src) := by
  intro e he
  induction src with
  | nil => simp [Ref.skipNT] at he
  | cons ev rest ih =>
    cases ev with
    | ok a =>
      simp only [Ref.skipNT, List.mem_cons, reduceCtorEq, false_or] at he
      exact ih he
    | error e' =>
      by_cases ht : terminal ignore e' = true
      · simp only [Ref.skipNT, ht, if_true, List.mem_cons, Except.error.injEq] at he
        rcases he with he | he
        · rw [he]; exact ht
        · exact ih he
      · simp only [Ref.skipNT, ht, Bool.false_eq_true, if_false] at he
        exact ih he

/-- the successful reads survive the removal, in order -/
theorem oks_skipNT {α : Type} (ignore : Bool) (src : List (Ev α)) : oks (Ref.skipNT ignore src) = oks src := by
  induction src with
  | nil => rfl
  | cons ev rest ih =>
    cases ev with
    | ok a => simp [Ref.skipNT, oks, ih]
    | error e => by_cases ht : terminal ignore e = true <;> simp [Ref.skipNT, oks, ht, ih]

end MlModel.Pipe
