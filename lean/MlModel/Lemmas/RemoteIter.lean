import MlModel.Lemmas.RemoteBasic
/-! The store of stateful server-side objects: lookup/update laws, and what a run of `next` / `get`
calls yields. -/
namespace MlModel.Remote
open MlModel MlModel.Lazy
set_option linter.unusedSimpArgs false
set_option linter.unusedVariables false

/-! ### Store laws -/

theorem sGet_sSet_other (os : Store) (a b : Nat) (o : SObj) (h : a ≠ b) :
    sGet (sSet os a o) b = sGet os b := by
  induction os with
  | nil => rfl
  | cons p rest ih =>
    obtain ⟨k, x⟩ := p
    simp only [sGet, sSet, List.map_cons, List.lookup] at ih ⊢
    by_cases hk : k = a
    · subst hk
      have hbk : (b == k) = false := by simp; exact fun e => h e.symm
      simp only [if_true, hbk, ih]
    · simp only [hk, if_false]
      cases hb : (b == k) with
      | true => rfl
      | false => simp only [ih]

theorem sGet_sSet_same (os : Store) (a : Nat) (o o' : SObj) (h : sGet os a = some o) :
    sGet (sSet os a o') a = some o' := by
  induction os with
  | nil => simp [sGet] at h
  | cons p rest ih =>
    obtain ⟨k, x⟩ := p
    simp only [sGet, sSet, List.map_cons, List.lookup] at ih h ⊢
    by_cases hk : k = a
    · subst hk
      simp
    · have hak : (a == k) = false := by simp; exact fun e => hk e.symm
      simp only [hk, if_false, hak] at h ⊢
      exact ih h

theorem sSet_comm (os : Store) (a b : Nat) (x y : SObj) (h : a ≠ b) :
    sSet (sSet os a x) b y = sSet (sSet os b y) a x := by
  induction os with
  | nil => rfl
  | cons p rest ih =>
    obtain ⟨k, o⟩ := p
    simp only [sSet, List.map_cons, List.cons.injEq] at ih ⊢
    refine ⟨?_, ih⟩
    by_cases hka : k = a
    · subst hka
      have : ¬ k = b := h
      simp [this]
    · by_cases hkb : k = b
      · subst hkb
        simp [hka]
      · simp [hka, hkb]

/-- replacing an iterator by an iterator does not change what any handle id denotes -/
theorem resolve_sSet_iter (os : Store) (t id : Nat) (g g' : Gen) (h : sGet os t = some (.iter g)) :
    resolve (sSet os t (.iter g')) id = resolve os id := by
  unfold resolve
  by_cases hid : t = id
  · subst hid
    rw [sGet_sSet_same os t _ _ h, h]
  · rw [sGet_sSet_other os t id _ hid]

/-! ### Local runs of an iterator / a finished queue -/

theorem take_app_rep {α : Type} (e : α) : ∀ (l : List α) (k m : Nat), k ≤ m →
    (l ++ List.replicate m e).take k = (l ++ List.replicate k e).take k := by
  intro l
  induction l with
  | nil =>
    intro k m h
    simp only [List.nil_append, List.take_replicate, Nat.min_eq_left h, Nat.min_self]
  | cons a rest ih =>
    intro k m h
    cases k with
    | zero => rfl
    | succ k =>
      simp only [List.cons_append, List.take_succ_cons]
      rw [ih k m (by omega), ih k (k + 1) (by omega)]

/-- `k` successive `next(g)` -/
def genRun : Nat → Gen → List (Except Exc Val) × Gen
  | 0, g => ([], g)
  | k + 1, g => let r := genNext g; let rest := genRun k r.2; (r.1 :: rest.1, rest.2)

/-- what `k` calls of `next` must show: the elements in order, the end signal once (with the return
value / the failure), and a bare `StopIteration` for ever after -/
def genTrace (g : Gen) (k : Nat) : List (Except Exc Val) :=
  ((g.items.map Except.ok ++ [Except.error g.fin.exc]) ++ List.replicate k (Except.error (stopExc []))).take k

theorem genRun_dead (k : Nat) : (genRun k ⟨[], .stop []⟩).1 = List.replicate k (.error (stopExc [])) := by
  induction k with
  | zero => rfl
  | succ k ih => simp only [genRun, genNext, Fin.exc, ih, List.replicate_succ]

theorem genRun_trace (k : Nat) : ∀ g : Gen, (genRun k g).1 = genTrace g k := by
  induction k with
  | zero => intro g; simp [genRun, genTrace]
  | succ k ih =>
    intro g
    obtain ⟨items, fin⟩ := g
    cases items with
    | nil =>
      simp only [genRun, genNext, genTrace, List.map_nil, List.nil_append, genRun_dead, List.cons_append,
        List.take_succ_cons, List.take_replicate]
      congr 2
      omega
    | cons a rest =>
      simp only [genRun, genNext, ih, genTrace, List.map_cons, List.cons_append, List.take_succ_cons]
      congr 1
      exact (take_app_rep _ _ k (k + 1) (by omega)).symm

/-- `k` successive `q.get()` on a finished queue -/
def qRun : Nat → QObj → List (Except Exc Val) × QObj
  | 0, q => ([], q)
  | k + 1, q => let r := qGet q; let rest := qRun k r.2; (r.1 :: rest.1, rest.2)

/-- the buffered elements in order, then the end (`StopIteration(*returned)` or the producer's failure)
on every further call -/
def qTrace (q : QObj) (k : Nat) : List (Except Exc Val) :=
  (q.buf.map Except.ok ++ List.replicate k (Except.error q.fin.exc)).take k

theorem qRun_trace (k : Nat) : ∀ q : QObj, (qRun k q).1 = qTrace q k := by
  induction k with
  | zero => intro q; simp [qRun, qTrace]
  | succ k ih =>
    intro q
    obtain ⟨buf, fin⟩ := q
    cases buf with
    | nil =>
      simp only [qRun, qGet, ih, qTrace, List.map_nil, List.nil_append, List.replicate_succ, List.take_succ_cons]
    | cons a rest =>
      simp only [qRun, qGet, ih, qTrace, List.map_cons, List.cons_append, List.take_succ_cons]
      congr 1
      exact (take_app_rep _ _ k (k + 1) (by omega)).symm

end MlModel.Remote

namespace MlModel.Remote
open MlModel MlModel.Lazy
set_option linter.unusedSimpArgs false
set_option linter.unusedVariables false

/-- the prefix of a trace that covers all elements, the end signal and `m` further calls -/
theorem genTrace_full (g : Gen) (m : Nat) :
    genTrace g (g.items.length + 1 + m) =
      g.items.map Except.ok ++ [Except.error g.fin.exc] ++ List.replicate m (Except.error (stopExc [])) := by
  unfold genTrace
  have hl : (g.items.map (Except.ok : Val → Except Exc Val) ++ [Except.error g.fin.exc]).length = g.items.length + 1 := by
    simp
  rw [List.take_append, hl]
  have h1 : g.items.length + 1 + m - (g.items.length + 1) = m := by omega
  rw [h1, List.take_replicate, List.take_of_length_le (by rw [hl]; omega)]
  congr 2
  omega

theorem qTrace_full (q : QObj) (m : Nat) :
    qTrace q (q.buf.length + m) = q.buf.map Except.ok ++ List.replicate m (Except.error q.fin.exc) := by
  unfold qTrace
  have hl : (q.buf.map (Except.ok : Val → Except Exc Val)).length = q.buf.length := by simp
  rw [List.take_append, hl]
  have h1 : q.buf.length + m - q.buf.length = m := by omega
  rw [h1, List.take_replicate, List.take_of_length_le (by rw [hl]; omega)]
  congr 2
  omega

/-- a fresh id is not yet in the store -/
theorem sGet_append_new (os : Store) (id : Nat) (o : SObj) (h : ∀ p ∈ os, p.1 ≠ id) :
    sGet (os ++ [(id, o)]) id = some o := by
  induction os with
  | nil => simp [sGet, List.lookup]
  | cons p rest ih =>
    obtain ⟨k, x⟩ := p
    have hk : (id == k) = false := by
      have := h (k, x) (by simp)
      simp only [ne_eq] at this
      simp; exact fun e => this e.symm
    simp only [sGet, List.cons_append, List.lookup, hk] at ih ⊢
    exact ih (fun p hp => h p (by simp [hp]))

theorem sGet_append_old (os : Store) (id id' : Nat) (o : SObj) (h : id' ≠ id) :
    sGet (os ++ [(id, o)]) id' = sGet os id' := by
  induction os with
  | nil =>
    have : (id' == id) = false := by simp; exact h
    simp [sGet, List.lookup, this]
  | cons p rest ih =>
    obtain ⟨k, x⟩ := p
    simp only [sGet, List.cons_append, List.lookup] at ih ⊢
    cases (id' == k) with
    | true => rfl
    | false => exact ih

theorem sGet_lt {os : Store} {id : Nat} {o : SObj} (h : sGet os id = some o) : ∃ p ∈ os, p.1 = id := by
  induction os with
  | nil => simp [sGet, List.lookup] at h
  | cons p rest ih =>
    obtain ⟨k, x⟩ := p
    simp only [sGet, List.lookup] at h ih
    cases hk : (id == k) with
    | true => exact ⟨(k, x), by simp, by simpa using (beq_iff_eq.mp hk).symm⟩
    | false =>
      rw [hk] at h
      obtain ⟨p, hp, hid⟩ := ih h
      exact ⟨p, by simp [hp], hid⟩

end MlModel.Remote
