import MlModel.Model.Agg.ThrHeap
import MlModel.Lemmas.AggHeapObs
import MlModel.Lemmas.AggRollingHeap
/-!
# `ThresholdedRetrieval` over buffer cells: the heap contract `HLawsR` and refinement of the value model
-/
namespace MlModel.Agg.Retrieval.Thr.H
open MlModel.Agg.Heap MlModel.Agg.Retrieval.Thr
open MlModel.Agg.Rolling.H (allocs_spec)

variable {α : Type} [DecidableEq α]

theorem cmMerge_size (h : Heap Cell) (s : Obj) (b1 b2 : Ref) (n : Nat) (b3 : Ref) :
    (cmMerge h s b1 b2 n b3).1.size = h.size := by
  simp [cmMerge, size_write]

theorem cmMerge_read_other (h : Heap Cell) (s : Obj) (b1 b2 : Ref) (n : Nat) (b3 : Ref) (r : Ref)
    (h1 : r ≠ s.tpTrues) (h2 : r ≠ s.tpPreds) (h3 : r ≠ s.pPreds) :
    (cmMerge h s b1 b2 n b3).1.read r = h.read r := by
  simp only [cmMerge]
  rw [read_write_other _ _ h3, read_write_other _ _ h2, read_write_other _ _ h1]

theorem cmMerge_obj (h : Heap Cell) (s : Obj) (b1 b2 : Ref) (n : Nat) (b3 : Ref) :
    (cmMerge h s b1 b2 n b3).2 = { s with pTrues := s.pTrues + n } := rfl

/-- `merge` writes only the receiver's three count arrays -/
theorem cmMerge_extends (h : Heap Cell) (s : Obj) (b1 b2 : Ref) (n : Nat) (b3 : Ref) :
    ExtendsExcept h (cmMerge h s b1 b2 n b3).1 [s.tpTrues, s.tpPreds, s.pPreds] := by
  refine ⟨by rw [cmMerge_size]; exact Nat.le_refl _, fun r _ hn => ?_⟩
  simp only [List.mem_cons, List.not_mem_nil, or_false, not_or] at hn
  exact cmMerge_read_other h s b1 b2 n b3 r hn.1 hn.2.1 hn.2.2

/-- the in-place statements compute `Counts.merge`, provided the receiver's three arrays are three
different, allocated arrays and none of them is an array of the operand (separation) -/
theorem cmMerge_refines (h : Heap Cell) (s : Obj) (b1 b2 : Ref) (n : Nat) (b3 : Ref)
    (hv1 : s.tpTrues < h.size) (hv2 : s.tpPreds < h.size) (hv3 : s.pPreds < h.size)
    (d12 : s.tpTrues ≠ s.tpPreds) (d13 : s.tpTrues ≠ s.pPreds) (d23 : s.tpPreds ≠ s.pPreds)
    (hb : ∀ b ∈ [b1, b2, b3], b ≠ s.tpTrues ∧ b ≠ s.tpPreds ∧ b ≠ s.pPreds) :
    abs (cmMerge h s b1 b2 n b3).1 (cmMerge h s b1 b2 n b3).2 =
      Counts.merge (abs h s) ⟨(h.read b1).nats, (h.read b2).nats, n, (h.read b3).nats⟩ := by
  have e1 := hb b1 (by simp); have e2 := hb b2 (by simp); have e3 := hb b3 (by simp)
  simp only [abs, cmMerge, Counts.merge]
  have sz1 : ∀ c, (h.write s.tpTrues c).size = h.size := fun c => size_write _ _ _
  congr 1
  · rw [read_write_other _ _ d13, read_write_other _ _ d12, read_write_same _ _ hv1]; rfl
  · rw [read_write_other _ _ d23, read_write_same _ _ (by rw [sz1]; exact hv2),
      read_write_other _ _ (Ne.symm d12), read_write_other _ _ e2.1]; rfl
  · rw [read_write_same _ _ (by rw [size_write, sz1]; exact hv3),
      read_write_other _ _ (Ne.symm d23), read_write_other _ _ (Ne.symm d13),
      read_write_other _ _ e3.2.1, read_write_other _ _ e3.1]; rfl

/-! ## the heap contract -/

theorem make_facts (ts : List Rat) (h : Heap Cell) :
    (make ts h).1.size = h.size + 4 ∧ (make ts h).2.thr = h.size ∧ (make ts h).2.tpTrues = h.size + 1 ∧
    (make ts h).2.tpPreds = h.size + 2 ∧ (make ts h).2.pPreds = h.size + 3 ∧
    ExtendsExcept h (make ts h).1 [] := by
  simp only [make, alloc_ref, size_alloc]
  refine ⟨trivial, trivial, trivial, trivial, trivial, ?_⟩
  exact (((extends_alloc h _ []).trans (extends_alloc _ _ [])).trans (extends_alloc _ _ [])).trans
    (extends_alloc _ _ [])

/-- the shape of a successful `add` -/
theorem addFull_ok (h : Heap Cell) (s : Obj) (rows : List (Row α)) (c : Counts)
    (hc : batchCounts (h.read s.thr).rats rows = .ok c) :
    ∃ h3 : Heap Cell, h3.size = h.size + 3 ∧ ExtendsExcept h h3 [] ∧
      h3.read h.size = .nat c.tpTrues ∧ h3.read (h.size + 1) = .nat c.tpPreds ∧
      h3.read (h.size + 2) = .nat c.pPreds ∧
      addFull h s rows = ((cmMerge h3 s h.size (h.size + 1) c.pTrues (h.size + 2)).1,
        { s with pTrues := s.pTrues + c.pTrues }, ⟨[h.size, h.size + 1, h.size + 2], [s.thr]⟩) := by
  refine ⟨(((h.alloc (.nat c.tpTrues)).1.alloc (.nat c.tpPreds)).1.alloc (.nat c.pPreds)).1, ?_, ?_, ?_, ?_, ?_, ?_⟩
  · simp only [size_alloc]
  · exact ((extends_alloc h _ []).trans (extends_alloc _ _ [])).trans (extends_alloc _ _ [])
  · rw [read_alloc_old _ _ (by simp only [size_alloc]; omega), read_alloc_old _ _ (by simp only [size_alloc]; omega),
      read_alloc_new]
  · rw [read_alloc_old _ _ (by simp only [size_alloc]; omega)]
    have := read_alloc_new (h.alloc (.nat c.tpTrues)).1 (.nat c.tpPreds)
    rwa [size_alloc] at this
  · have := read_alloc_new ((h.alloc (.nat c.tpTrues)).1.alloc (.nat c.tpPreds)).1 (.nat c.pPreds)
    rwa [size_alloc, size_alloc] at this
  · simp only [addFull, hc, alloc_ref, size_alloc, cmMerge_obj]

theorem addFull_err (h : Heap Cell) (s : Obj) (rows : List (Row α)) (e : ErrKind)
    (hc : batchCounts (h.read s.thr).rats rows = .error e) :
    addFull h s rows = (h, s, ⟨[], []⟩) := by
  simp only [addFull, hc]

theorem fp_cls (ts : List Rat) (ms : List (Kind × Option Rat)) (o : Obj) :
    (cls α ts ms).fp o = ⟨[o.tpTrues, o.tpPreds, o.pPreds], [o.thr]⟩ := rfl

theorem valid_iff (h : Heap Cell) (o : Obj) :
    Valid h (⟨[o.tpTrues, o.tpPreds, o.pPreds], [o.thr]⟩ : Footprint) ↔
      o.tpTrues < h.size ∧ o.tpPreds < h.size ∧ o.pPreds < h.size ∧ o.thr < h.size := by
  simp [Valid, Footprint.refs]

theorem selfSep_iff (o : Obj) :
    SelfSep (⟨[o.tpTrues, o.tpPreds, o.pPreds], [o.thr]⟩ : Footprint) ↔
      o.tpTrues ≠ o.thr ∧ o.tpPreds ≠ o.thr ∧ o.pPreds ≠ o.thr := by
  simp [SelfSep]

/-- a method that writes the receiver's count arrays after allocating, and keeps its references -/
theorem keep_refs_spec {h h' : Heap Cell} {s s' : Obj}
    (ext : ExtendsExcept h h' [s.tpTrues, s.tpPreds, s.pPreds])
    (e1 : s'.thr = s.thr) (e2 : s'.tpTrues = s.tpTrues) (e3 : s'.tpPreds = s.tpPreds)
    (e4 : s'.pPreds = s.pPreds)
    (hv : Valid h (⟨[s.tpTrues, s.tpPreds, s.pPreds], [s.thr]⟩ : Footprint))
    (hself : SelfSep (⟨[s.tpTrues, s.tpPreds, s.pPreds], [s.thr]⟩ : Footprint)) :
    ExtendsExcept h h' [s.tpTrues, s.tpPreds, s.pPreds] ∧
    (∀ r ∈ [s'.tpTrues, s'.tpPreds, s'.pPreds], r ∈ [s.tpTrues, s.tpPreds, s.pPreds] ∨ h.size ≤ r) ∧
    (∀ r ∈ [s'.thr], r ∈ [s.thr] ∨ h.size ≤ r) ∧
    Valid h' (⟨[s'.tpTrues, s'.tpPreds, s'.pPreds], [s'.thr]⟩ : Footprint) ∧
    SelfSep (⟨[s'.tpTrues, s'.tpPreds, s'.pPreds], [s'.thr]⟩ : Footprint) := by
  rw [e1, e2, e3, e4]
  exact ⟨ext, fun r hr => Or.inl hr, fun r hr => Or.inl hr, hv.mono ext.1, hself⟩

theorem addFull_spec (h : Heap Cell) (s : Obj) (rows : List (Row α)) :
    ExtendsExcept h (addFull h s rows).1 [s.tpTrues, s.tpPreds, s.pPreds] ∧
    (addFull h s rows).2.1.thr = s.thr ∧ (addFull h s rows).2.1.tpTrues = s.tpTrues ∧
    (addFull h s rows).2.1.tpPreds = s.tpPreds ∧ (addFull h s rows).2.1.pPreds = s.pPreds ∧
    (∀ r ∈ (addFull h s rows).2.2.priv, h.size ≤ r ∧ r < (addFull h s rows).1.size) ∧
    (∀ r ∈ (addFull h s rows).2.2.exposed, r = s.thr) := by
  cases hc : batchCounts (h.read s.thr).rats rows with
  | error e =>
    rw [addFull_err h s rows e hc]
    exact ⟨ExtendsExcept.refl _ _, rfl, rfl, rfl, rfl, by simp, by simp⟩
  | ok c =>
    obtain ⟨h3, hsz, ext, _, _, _, he⟩ := addFull_ok h s rows c hc
    rw [he]
    refine ⟨(ext.mono (by simp)).trans (cmMerge_extends h3 s h.size (h.size + 1) c.pTrues (h.size + 2)), rfl, rfl, rfl, rfl, ?_, by simp⟩
    intro r hr
    simp only [List.mem_cons, List.not_mem_nil, or_false] at hr
    simp only [cmMerge_size, hsz]
    omega

theorem laws (α : Type) [DecidableEq α] (ts : List Rat) (ms : List (Kind × Option Rat)) :
    HLawsR (cls α ts ms) where
  base := {
    make_spec := fun h => by
      obtain ⟨f1, f2, f3, f4, f5, f6⟩ := make_facts ts h
      have hm : (cls α ts ms).make h = make ts h := rfl
      rw [hm, fp_cls, valid_iff, selfSep_iff, f1, f2, f3, f4, f5]
      refine ⟨f6, ?_, by omega, by omega⟩
      intro r hr
      simp only [Footprint.refs, List.mem_append, List.mem_cons, List.not_mem_nil, or_false] at hr
      omega
    add_spec := fun h o b hv hself => by
      obtain ⟨ext, e1, e2, e3, e4, _, _⟩ := addFull_spec h o b
      exact keep_refs_spec ext e1 e2 e3 e4 hv hself
    merge_spec := fun h s o hvs _ hself _ _ _ => by
      obtain ⟨m1, m2, m3, m4, m5⟩ := keep_refs_spec (s' := (merge h s o).2)
        (cmMerge_extends h s o.tpTrues o.tpPreds o.pTrues o.pPreds) rfl rfl rfl rfl hvs hself
      exact ⟨m1, m2, fun r hr => (m3 r hr).elim Or.inl (fun x => Or.inr (Or.inr x)), m4, m5⟩ }
  addOut_spec := fun h o b hv _ => by
    obtain ⟨_, e1, e2, e3, e4, hp, he⟩ := addFull_spec h o b
    have hv' := (valid_iff h o).mp hv
    refine ⟨fun r hr => ⟨Or.inl (hp r hr).1, (hp r hr).2, ?_⟩, fun r hr => ?_⟩
    · have h1 := (hp r hr).1
      show r ∉ (⟨[_, _, _], [_]⟩ : Footprint).refs
      simp only [Footprint.refs, List.mem_append, List.mem_cons, List.not_mem_nil, or_false]
      have a1 : ((cls α ts ms).add h o b).2.thr = o.thr := e1
      have a2 : ((cls α ts ms).add h o b).2.tpTrues = o.tpTrues := e2
      have a3 : ((cls α ts ms).add h o b).2.tpPreds = o.tpPreds := e3
      have a4 : ((cls α ts ms).add h o b).2.pPreds = o.pPreds := e4
      rw [a1, a2, a3, a4]
      omega
    · have : r = o.thr := he r hr
      show r ∈ [o.thr]
      simp [this]
  result_spec := fun h o _ => by
    obtain ⟨a1, a2, _, a4⟩ := allocs_spec h ((resultArrays (abs h o) ms).map Cell.rat)
    refine ⟨a4, fun r hr => ?_, fun r hr => ?_⟩
    · have := a2 r hr
      have hsz : ((cls α ts ms).result h o).1.size = h.size + ((resultArrays (abs h o) ms).map Cell.rat).length := a1
      rw [hsz]; exact this
    · have : r ∈ [o.thr] := hr
      exact this

end MlModel.Agg.Retrieval.Thr.H
