import MlModel.Lemmas.PiterDefs
/-!
# What no step changes (`step_frame`), and the unconditional invariants `Static` and `DataInv`
-/
namespace MlModel.Piter
open MlModel.Queue

variable {F : Nat → Option (List Nat)}

theorem afterPull_frame (tid : Tid) (s : Shared) (t : PThread) (r : PullRes) :
    (afterPull F tid s t r).2.isProd = t.isProd ∧ (afterPull F tid s t r).2.sid = t.sid ∧
    (afterPull F tid s t r).2.useLock = t.useLock ∧ (afterPull F tid s t r).2.q.prog = t.q.prog ∧
    (afterPull F tid s t r).2.cpc = t.cpc ∧ (afterPull F tid s t r).2.early = t.early ∧
    (afterPull F tid s t r).2.q.received = t.q.received ∧ (afterPull F tid s t r).2.q.result = t.q.result ∧
    (afterPull F tid s t r).2.emitted = t.emitted ∧
    (afterPull F tid s t r).1.timeout = s.timeout ∧ (afterPull F tid s t r).1.produced = s.produced ∧
    (afterPull F tid s t r).1.dequeued = s.dequeued ∧ (afterPull F tid s t r).1.q = s.q ∧
    (afterPull F tid s t r).1.lost = s.lost := by
  unfold afterPull failPull
  split
  · simp
  · simp
  · split <;> simp

theorem postProd_frame (tid : Tid) (t : PThread) (q' : Queue.Thread) :
    (postProd tid t q').isProd = t.isProd ∧ (postProd tid t q').sid = t.sid ∧
    (postProd tid t q').useLock = t.useLock ∧ (postProd tid t q').q.prog = q'.prog ∧
    (postProd tid t q').cpc = t.cpc ∧ (postProd tid t q').early = t.early ∧
    (postProd tid t q').q.received = q'.received ∧ (postProd tid t q').q.result = q'.result ∧
    (postProd tid t q').pulled = t.pulled := by
  unfold postProd enterNext
  cases t.pend <;> (repeat' split) <;> simp

/-- the part of the configuration that a step leaves alone -/
theorem step_frame {c c' : Cfg} {tid : Tid} {alt : Bool} {lbl : String} {t : PThread}
    (ht : c.ths[tid]? = some t) (hk : StepKind F c tid alt t lbl c') :
    ∃ t', c'.ths = c.ths.set tid t' ∧ t'.isProd = t.isProd ∧ t'.sid = t.sid ∧ t'.useLock = t.useLock ∧
      (t.isProd = true → retOf t' = retOf t) ∧ c'.inputs.length = c.inputs.length ∧
      c'.numSteps = c.numSteps ∧ c'.stopOnEnd = c.stopOnEnd ∧ c'.maxWorkers = c.maxWorkers := by
  cases hk with
  | pstart => exact ⟨_, rfl, rfl, rfl, rfl, fun _ => rfl, rfl, rfl, rfl, rfl⟩
  | iacq => exact ⟨_, rfl, rfl, rfl, rfl, fun _ => rfl, rfl, rfl, rfl, rfl⟩
  | inextL =>
    refine ⟨_, rfl, rfl, rfl, rfl, fun _ => rfl, ?_, rfl, rfl, rfl⟩
    simp only [pull]; split <;> simp
  | inextU =>
    have h := afterPull_frame (F := F) tid c.sh t (pull c.inputs t.sid).1
    refine ⟨_, rfl, h.1, h.2.1, h.2.2.1, fun _ => by simp [retOf, h.2.2.2.1], ?_, rfl, rfl, rfl⟩
    simp only [pull]; split <;> simp
  | irel =>
    have h := afterPull_frame (F := F) tid c.sh t t.hand
    exact ⟨_, rfl, h.1, h.2.1, h.2.2.1, fun _ => by simp [retOf, h.2.2.2.1], rfl, rfl, rfl, rfl⟩
  | @pq lbl s' q' _ _ _ hne hst =>
    have h := postProd_frame tid t q'
    have hc := stepThread_ctl lbl s' q' hst hne
    refine ⟨_, rfl, h.1, h.2.1, h.2.2.1, fun _ => ?_, rfl, rfl, rfl, rfl⟩
    simp [retOf, h.2.2.2.1, hc.2.2.2.2.2.2.2.2.2.1]
  | cboot0 hp =>
    refine ⟨_, rfl, ?_, ?_, ?_, fun h => by simp [hp] at h, rfl, rfl, rfl, rfl⟩ <;>
      (unfold beginIter; split <;> rfl)
  | cboot hp => exact ⟨_, rfl, rfl, rfl, rfl, fun _ => rfl, rfl, rfl, rfl, rfl⟩
  | csubmit hp =>
    refine ⟨_, rfl, ?_, ?_, ?_, fun h => by simp [hp] at h, rfl, rfl, rfl, rfl⟩ <;>
      (unfold beginIter; split <;> (try split) <;> rfl)
  | citer hp =>
    refine ⟨_, rfl, ?_, ?_, ?_, fun h => by simp [hp] at h, rfl, rfl, rfl, rfl⟩ <;>
      (unfold afterIter; (repeat' split) <;> rfl)
  | cstop hp =>
    refine ⟨_, rfl, ?_, ?_, ?_, fun h => by simp [hp] at h, rfl, rfl, rfl, rfl⟩ <;>
      (unfold postStop; split <;> rfl)
  | cshutdown hp => exact ⟨_, rfl, rfl, rfl, rfl, fun _ => rfl, rfl, rfl, rfl, rfl⟩

end MlModel.Piter

namespace MlModel.Piter
open MlModel.Queue

variable {F : Nat → Option (List Nat)}

/-! ### `DataInv` of the embedded queue configuration -/

theorem qcfg_get {c : Cfg} {tid : Tid} {t : PThread} (ht : c.ths[tid]? = some t) :
    (qcfg c).ths[tid]? = some t.q := by simp [qcfg, ht]

theorem qcfg_set (c : Cfg) (s2 : Shared) (tid : Tid) (t' : PThread) (x y z : _) :
    qcfg { c with sh := s2, ths := c.ths.set tid t', inputs := x, ilock := y, nsub := z } =
      { sh := s2, ths := (qcfg c).ths.set tid t'.q } := by
  simp [qcfg, List.map_set]

/-- a queue step of the embedded thread is a step of the queue LTS -/
theorem qstep_of {c : Cfg} {tid : Tid} {alt : Bool} {t : PThread} {lbl : String} {s' : Shared}
    {q' : Queue.Thread} (ht : c.ths[tid]? = some t) (hst : stepThread c.sh t.q tid alt = some (lbl, s', q')) :
    Queue.step (qcfg c) tid alt = some (lbl, { sh := s', ths := (qcfg c).ths.set tid q' }) := by
  unfold Queue.step
  rw [qcfg_get ht]
  simp only [qcfg, hst]

/-- replacing one thread by one that holds (a part of) the same elements, the rest going to `lost` -/
theorem dataInv_set {qc : Queue.Cfg} {tid : Tid} {a b : Queue.Thread} {s2 : Shared} {extra : List Elem}
    (hi : DataInv qc) (ha : qc.ths[tid]? = some a) (htok : TOK b)
    (hsub : (seqOf b).Sublist (seqOf a)) (hperm : (seqOf b ++ extra).Perm (seqOf a))
    (h1 : s2.produced = qc.sh.produced) (h2 : s2.dequeued = qc.sh.dequeued) (h3 : s2.q = qc.sh.q)
    (h4 : s2.lost = qc.sh.lost ++ extra) : DataInv { sh := s2, ths := qc.ths.set tid b } := by
  have hmem : a ∈ qc.ths := List.mem_of_getElem? ha
  refine ⟨?_, ?_, ?_, ?_⟩
  · intro u hu
    rcases List.mem_or_eq_of_mem_set hu with hu | rfl
    · exact hi.tok u hu
    · exact htok
  · show s2.produced = s2.dequeued ++ s2.q
    rw [h1, h2, h3]; exact hi.fifo
  · intro u hu
    show (seqOf u).Sublist s2.dequeued
    rw [h2]
    rcases List.mem_or_eq_of_mem_set hu with hu | rfl
    · exact hi.sub u hu
    · exact hsub.trans (hi.sub a hmem)
  · show s2.dequeued.Perm (sumSeq (qc.ths.set tid b) ++ s2.lost)
    rw [h2, h4]
    have k1 := sumSeq_set (b := b) ha
    have k2 := hi.cons
    rw [List.perm_iff_count] at k1 k2 hperm ⊢
    intro e
    have k1 := k1 e; have k2 := k2 e; have k3 := hperm e
    simp only [List.count_append] at k1 k2 k3 ⊢
    omega

theorem dataInv_set_same {qc : Queue.Cfg} {tid : Tid} {a b : Queue.Thread} {s2 : Shared}
    (hi : DataInv qc) (ha : qc.ths[tid]? = some a) (htok : TOK b) (hseq : seqOf b = seqOf a)
    (h1 : s2.produced = qc.sh.produced) (h2 : s2.dequeued = qc.sh.dequeued) (h3 : s2.q = qc.sh.q)
    (h4 : s2.lost = qc.sh.lost) : DataInv { sh := s2, ths := qc.ths.set tid b } :=
  dataInv_set (extra := []) hi ha htok (by rw [hseq]; exact List.Sublist.refl _) (by simp [hseq]) h1 h2 h3 (by simp [h4])

theorem extOf_producer {s : Shared} {t : Queue.Thread} (h : pcKind t.pc = some .producer) : extOf s t = [] := by
  unfold extOf; split
  · rename_i c _ _ hpc _; rw [hpc] at h; cases c <;> simp [pcKind] at h
  · rfl

theorem droppedOf_producer {t : Queue.Thread} (h : pcKind t.pc = some .producer) : droppedOf t = [] := by
  unfold droppedOf; split <;> simp_all [pcKind]

theorem pcKind_producer_of {t : Queue.Thread} (hk : t.prog.kind = .producer) (htok : TOK t)
    (h1 : t.pc ≠ .start) (h2 : t.pc ≠ .done) : pcKind t.pc = some .producer := by
  cases h : pcKind t.pc with
  | none =>
    cases hpc : t.pc <;> simp_all [pcKind] <;> (rename_i c; cases c <;> simp at h)
  | some k => rw [← htok.kind k h, hk]

end MlModel.Piter
