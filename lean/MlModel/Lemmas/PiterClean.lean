import MlModel.Lemmas.PiterInv
/-!
# The clean-run invariant of the parallel-iteration LTS

`NF c` ("no failure"): no exception has been recorded and the consumer has not stopped early.
While `NF` holds the run is on its way to a clean exhaustion and `Clean` holds:

* bookkeeping: `max_enqueuer` = number of producers, `_enqueue_start` / `_enqueue_stop` = number of
  producers that executed the increment, `returned` = the return values of the stopped producers;
  hence `enqueue_done → every producer has stopped` (`allStopped_of_done`) — so no producer ever
  *drops* a value it holds because enqueueing is "done";
* per producer: what it put ++ what it holds ++ what its generator still holds = the row function
  over what it pulled (`ProdOK.bal`);
* the inputs: the initial inputs = what the producers pulled + what is left (exactly once);
* the consumer only arms `StopIteration(*returned)` when `exhausted`, and `exhausted` implies that all
  producers stopped and the queue is empty.
-/
namespace MlModel.Piter
open MlModel.Queue

variable {F : Nat → Option (List Nat)}

structure ProdOK (F : Nat → Option (List Nat)) (c : Cfg) (t : PThread) : Prop where
  bal : t.emitted ++ holdV t ++ t.pend = FMv F t.pulled
  okF : ∀ v ∈ t.pulled, (F v).isSome = true
  stopped : pastStop t.q.pc = true → t.pend = [] ∧ inputAt c t.sid = []
  atStop : t.q.pc = .tAcq → t.q.rets = [retOf t] ∧ t.pend = [] ∧ inputAt c t.sid = []
  atNext : t.q.pc = .eNext → t.pend = []
  handStop : t.q.pc = .eNext → t.ipc = .rel → t.hand = .stop → inputAt c t.sid = []

structure ConsOK (c : Cfg) (t : PThread) : Prop where
  naErr : ∀ k, t.q.pc = .nNaErr k → c.sh.exhausted = true
  armed : ((∃ k, t.q.pc = .nRelErr k) ∨ t.q.pc = .bRaise) →
    t.q.x = .empty ∨ (t.q.x = .stop c.sh.returned ∧ c.sh.exhausted = true)
  raise : t.q.pc = .bRaise → t.q.x ≠ .empty ∧ (∀ r, t.q.x = .stop r → t.q.result = [])
  ended : ∀ r, t.iterOutcome = some r → r = .stop c.sh.returned ∧ c.sh.exhausted = true
  phase : (t.cpc = .stopping ∨ t.cpc = .shutdown ∨ t.cpc = .fin) → t.iterOutcome.isSome = true
  noStop : t.iterOutcome = none → c.sh.stopRequested = false
  live : (t.cpc = .boot ∨ t.cpc = .submit ∨ t.cpc = .iter) → t.iterOutcome = none

structure Clean (F : Nat → Option (List Nat)) (inputs0 : List (List Item)) (c : Cfg) : Prop where
  prod : ∀ t ∈ c.ths, t.isProd = true → ProdOK F c t
  maxEnq : c.sh.maxEnq = (c.ths.map indProd).sum
  start : c.sh.start = (c.ths.map indStart).sum
  stop : c.sh.stop = (c.ths.map indStop).sum
  rets : c.sh.returned.Perm (c.ths.map retL).flatten
  emitted : (c.sh.produced.map (·.2)).Perm (c.ths.map (·.emitted)).flatten
  items : inputs0.flatten.Perm ((c.ths.map itemsOf).flatten ++ c.inputs.flatten)
  exh : c.sh.exhausted = true → AllStopped c ∧ c.sh.q = []
  lost : c.sh.lost = []
  cons : ∀ t0, c.ths[0]? = some t0 → ConsOK c t0

theorem sum_le_of_le {α : Type} (l : List α) (f g : α → Nat) (hle : ∀ x ∈ l, f x ≤ g x) :
    (l.map f).sum ≤ (l.map g).sum := by
  induction l with
  | nil => simp
  | cons b bs ih =>
    simp only [List.map_cons, List.sum_cons]
    have := hle b (by simp)
    have := ih (by intro x hx; exact hle x (by simp [hx]))
    omega

theorem indStop_le_indStart (t : PThread) : indStop t ≤ indStart t := by
  unfold indStop indStart
  cases t.isProd <;> simp
  cases h : t.q.pc <;> simp [pastStop, pastStart]

theorem indStart_le_indProd (t : PThread) : indStart t ≤ indProd t := by
  unfold indStart indProd
  cases t.isProd <;> simp
  split <;> simp

/-- in a clean run `enqueue_done` means that every producer has stopped -/
theorem allStopped_of_done {inputs0 : List (List Item)} {c : Cfg} (hn : NF c) (hc : Clean F inputs0 c)
    (hd : c.sh.enqueueDone = true) : AllStopped c := by
  unfold Shared.enqueueDone at hd
  simp only [hn.1, Option.isSome_none, Bool.false_or] at hd
  split at hd
  · rename_i hsr
    -- a stop request in a clean run was issued by the consumer after a clean end
    cases h0 : c.ths[0]? with
    | none =>
      intro t ht
      obtain ⟨i, hi⟩ := List.getElem?_of_mem ht
      cases i with
      | zero => rw [h0] at hi; cases hi
      | succ n =>
        have : c.ths = [] := by
          cases hl : c.ths with
          | nil => rfl
          | cons a as => rw [hl] at h0; simp at h0
        rw [this] at ht; cases ht
    | some t0 =>
      have hco := hc.cons t0 h0
      cases hio : t0.iterOutcome with
      | none => have := hco.noStop hio; rw [this] at hsr; cases hsr
      | some r => exact (hc.exh (hco.ended r hio).2).1
  · split at hd
    · cases hd
    · simp only [Bool.and_eq_true, beq_iff_eq] at hd
      have h1 : (c.ths.map indStop).sum = (c.ths.map indProd).sum := by
        rw [← hc.stop, ← hc.maxEnq]; exact hd.2
      have := ind_all c.ths indStop indProd
        (fun x _ => Nat.le_trans (indStop_le_indStart x) (indStart_le_indProd x)) h1
      intro t ht hp
      have := this t ht
      simp only [indStop, indProd, hp, Bool.true_and, if_true] at this
      split at this
      · assumption
      · cases this

end MlModel.Piter

namespace MlModel.Piter
open MlModel.Queue

variable {F : Nat → Option (List Nat)}

/-! ### helpers: one thread replaced -/

theorem sum_same {l : List PThread} {tid : Tid} {t t' : PThread} (f : PThread → Nat)
    (ht : l[tid]? = some t) (hf : f t' = f t) : ((l.set tid t').map f).sum = (l.map f).sum := by
  rw [map_set_same f ht hf]

theorem sum_inc {l : List PThread} {tid : Tid} {t t' : PThread} (f : PThread → Nat)
    (ht : l[tid]? = some t) (hf : f t' = f t + 1) : ((l.set tid t').map f).sum = (l.map f).sum + 1 := by
  rw [List.map_set]
  have := sum_set (l := l.map f) (i := tid) (a := f t) (b := f t') (by simp [ht])
  omega

theorem flat_same {α : Type} {l : List PThread} {tid : Tid} {t t' : PThread} (f : PThread → List α)
    (ht : l[tid]? = some t) (hf : f t' = f t) : ((l.set tid t').map f).flatten = (l.map f).flatten := by
  rw [map_set_same f ht hf]

theorem flat_app {α : Type} [DecidableEq α] {l : List PThread} {tid : Tid} {t t' : PThread}
    (f : PThread → List α) (x : List α) (ht : l[tid]? = some t) (hf : f t' = f t ++ x) :
    ((l.set tid t').map f).flatten.Perm ((l.map f).flatten ++ x) := by
  rw [List.map_set]
  have := flatten_set_perm (l := l.map f) (i := tid) (a := f t) (b := f t') (by simp [ht])
  rw [List.perm_iff_count] at this ⊢
  intro e; have := this e
  have hcnt : (f t').count e = (f t).count e + x.count e := by rw [hf, List.count_append]
  simp only [List.count_append] at this ⊢
  omega

theorem prodOK_mono {c c' : Cfg} {u : PThread} (hin : ∀ sid, inputAt c sid = [] → inputAt c' sid = [])
    (h : ProdOK F c u) : ProdOK F c' u :=
  ⟨h.bal, h.okF, fun hp => ⟨(h.stopped hp).1, hin _ (h.stopped hp).2⟩,
   fun hp => ⟨(h.atStop hp).1, (h.atStop hp).2.1, hin _ (h.atStop hp).2.2⟩, h.atNext,
   fun a b c => hin _ (h.handStop a b c)⟩

theorem prod_all {inputs0 : List (List Item)} {c c' : Cfg} {tid : Tid} {t' : PThread}
    (hc : Clean F inputs0 c) (hths : c'.ths = c.ths.set tid t')
    (hin : ∀ sid, inputAt c sid = [] → inputAt c' sid = [])
    (h' : t'.isProd = true → ProdOK F c' t') : ∀ u ∈ c'.ths, u.isProd = true → ProdOK F c' u := by
  intro u hu hp
  rw [hths] at hu
  rcases List.mem_or_eq_of_mem_set hu with hu | rfl
  · exact prodOK_mono hin (hc.prod u hu hp)
  · exact h' hp

/-- the consumer's facts survive a step that leaves `returned` alone and does not clear `exhausted` /
raise a stop request -/
theorem consOK_mono {c c' : Cfg} {t0 : PThread} (h : ConsOK c t0) (hr : c'.sh.returned = c.sh.returned)
    (he : c.sh.exhausted = true → c'.sh.exhausted = true)
    (hs : c'.sh.stopRequested = c.sh.stopRequested) : ConsOK c' t0 :=
  ⟨fun k hk => he (h.naErr k hk),
   fun hp => (h.armed hp).imp id (fun ⟨a, b⟩ => ⟨by rw [hr]; exact a, he b⟩), h.raise,
   fun r hr' => ⟨by rw [hr]; exact (h.ended r hr').1, he (h.ended r hr').2⟩, h.phase,
   fun hn => by rw [hs]; exact h.noStop hn, h.live⟩

theorem nf_tid0 {c : Cfg} (hs : Static c) {tid : Tid} {t : PThread} (ht : c.ths[tid]? = some t)
    (hp : t.isProd = false) : tid = 0 := by
  have := hs.role tid t ht
  rw [hp] at this
  by_cases h : tid = 0
  · exact h
  · exact absurd (this.mpr h) (by simp)

theorem ne0_of_prod {c : Cfg} (hs : Static c) {tid : Tid} {t : PThread} (ht : c.ths[tid]? = some t)
    (hp : t.isProd = true) : tid ≠ 0 := (hs.role tid t ht).mp hp

end MlModel.Piter

namespace MlModel.Piter
open MlModel.Queue

variable {F : Nat → Option (List Nat)}

theorem allStopped_set {c c' : Cfg} {tid : Tid} {t' : PThread} (ha : AllStopped c)
    (hths : c'.ths = c.ths.set tid t') (h : t'.isProd = true → pastStop t'.q.pc = true) : AllStopped c' := by
  intro u hu hp
  rw [hths] at hu
  rcases List.mem_or_eq_of_mem_set hu with hu | rfl
  · exact ha u hu hp
  · exact h hp

theorem cons_all {inputs0 : List (List Item)} {c c' : Cfg} {tid : Tid} {t t' : PThread}
    (_hc : Clean F inputs0 c) (ht : c.ths[tid]? = some t) (hths : c'.ths = c.ths.set tid t')
    (hother : tid ≠ 0 → ∀ t0, c.ths[0]? = some t0 → ConsOK c' t0)
    (hself : tid = 0 → ConsOK c' t') : ∀ t0, c'.ths[0]? = some t0 → ConsOK c' t0 := by
  intro t0 h0
  rw [hths] at h0
  have htid : tid < c.ths.length := by
    rcases List.getElem?_eq_some_iff.mp ht with ⟨h, _⟩; exact h
  by_cases h : tid = 0
  · subst h
    simp only [List.getElem?_set_self htid, Option.some.injEq] at h0
    subst h0; exact hself rfl
  · rw [List.getElem?_set_ne h] at h0
    exact hother h t0 h0

/-- the general reconstruction of `Clean` after a step of thread `tid` that leaves the enqueue
bookkeeping, `returned` and `produced` alone -/
theorem clean_gen' {inputs0 : List (List Item)} {c c' : Cfg} {tid : Tid} {t t' : PThread}
    (hc : Clean F inputs0 c) (ht : c.ths[tid]? = some t) (hths : c'.ths = c.ths.set tid t')
    (hinA : ∀ sid, inputAt c sid = [] → inputAt c' sid = [])
    (hitems : inputs0.flatten.Perm ((c'.ths.map itemsOf).flatten ++ c'.inputs.flatten))
    (hmax : c'.sh.maxEnq = c.sh.maxEnq) (hstart : c'.sh.start = c.sh.start) (hstop : c'.sh.stop = c.sh.stop)
    (hret : c'.sh.returned = c.sh.returned) (hprod : c'.sh.produced = c.sh.produced)
    (hexhF : c'.sh.exhausted = true → AllStopped c' ∧ c'.sh.q = []) (hlost : c'.sh.lost = [])
    (hip : t'.isProd = t.isProd) (h2 : t.isProd = true → pastStart t'.q.pc = pastStart t.q.pc)
    (h3 : t.isProd = true → pastStop t'.q.pc = pastStop t.q.pc) (h4 : t.isProd = true → retOf t' = retOf t)
    (h5 : t'.emitted = t.emitted)
    (hp : t'.isProd = true → ProdOK F c' t')
    (hother : tid ≠ 0 → ∀ t0, c.ths[0]? = some t0 → ConsOK c' t0)
    (hco : tid = 0 → ConsOK c' t') : Clean F inputs0 c' := by
  refine ⟨prod_all hc hths hinA hp, ?_, ?_, ?_, ?_, ?_, hitems, hexhF, hlost, ?_⟩
  · rw [hmax, hths, sum_same indProd ht (by simp [indProd, hip])]; exact hc.maxEnq
  · rw [hstart, hths, sum_same indStart ht (by cases hb : t.isProd <;> simp [indStart, hip, hb, h2])]
    exact hc.start
  · rw [hstop, hths, sum_same indStop ht (by cases hb : t.isProd <;> simp [indStop, hip, hb, h3])]
    exact hc.stop
  · rw [hret, hths, flat_same retL ht (by cases hb : t.isProd <;> simp [retL, hip, hb, h3, h4])]
    exact hc.rets
  · rw [hprod, hths, flat_same (·.emitted) ht h5]; exact hc.emitted
  · exact cons_all hc ht hths hother hco

/-- a step that changes, of what `Clean` tracks, only thread-local facts and the inputs -/
theorem clean_gen {inputs0 : List (List Item)} {c c' : Cfg} {tid : Tid} {t t' : PThread}
    (hc : Clean F inputs0 c) (ht : c.ths[tid]? = some t) (hths : c'.ths = c.ths.set tid t')
    (hinA : ∀ sid, inputAt c sid = [] → inputAt c' sid = [])
    (hitems : inputs0.flatten.Perm ((c'.ths.map itemsOf).flatten ++ c'.inputs.flatten))
    (hmax : c'.sh.maxEnq = c.sh.maxEnq) (hstart : c'.sh.start = c.sh.start) (hstop : c'.sh.stop = c.sh.stop)
    (hret : c'.sh.returned = c.sh.returned) (hprod : c'.sh.produced = c.sh.produced)
    (hexh : c'.sh.exhausted = c.sh.exhausted) (hq : c'.sh.q = c.sh.q) (hlost : c'.sh.lost = c.sh.lost)
    (hsr : c'.sh.stopRequested = c.sh.stopRequested)
    (hip : t'.isProd = t.isProd) (h2 : t.isProd = true → pastStart t'.q.pc = pastStart t.q.pc)
    (h3 : t.isProd = true → pastStop t'.q.pc = pastStop t.q.pc) (h4 : t.isProd = true → retOf t' = retOf t)
    (h5 : t'.emitted = t.emitted)
    (hp : t'.isProd = true → ProdOK F c' t') (hco : tid = 0 → ConsOK c' t') : Clean F inputs0 c' := by
  have hmem : t ∈ c.ths := List.mem_of_getElem? ht
  refine clean_gen' hc ht hths hinA hitems hmax hstart hstop hret hprod ?_ (by rw [hlost]; exact hc.lost)
    hip h2 h3 h4 h5 hp
    (fun _ t0 h0 => consOK_mono (hc.cons t0 h0) hret (by rw [hexh]; exact id) hsr) hco
  intro he
  rw [hexh] at he
  obtain ⟨ha, hq0⟩ := hc.exh he
  refine ⟨allStopped_set ha hths (fun hp' => ?_), by rw [hq]; exact hq0⟩
  rw [h3 (by rw [← hip]; exact hp')]; exact ha t hmem (by rw [← hip]; exact hp')

/-- a step that changes nothing of what `Clean` tracks, except thread-local facts -/
theorem clean_same {inputs0 : List (List Item)} {c c' : Cfg} {tid : Tid} {t t' : PThread}
    (hc : Clean F inputs0 c) (ht : c.ths[tid]? = some t) (hths : c'.ths = c.ths.set tid t')
    (hin : c'.inputs = c.inputs)
    (hmax : c'.sh.maxEnq = c.sh.maxEnq) (hstart : c'.sh.start = c.sh.start) (hstop : c'.sh.stop = c.sh.stop)
    (hret : c'.sh.returned = c.sh.returned) (hprod : c'.sh.produced = c.sh.produced)
    (hexh : c'.sh.exhausted = c.sh.exhausted) (hq : c'.sh.q = c.sh.q) (hlost : c'.sh.lost = c.sh.lost)
    (hsr : c'.sh.stopRequested = c.sh.stopRequested)
    (hip : t'.isProd = t.isProd) (h2 : t.isProd = true → pastStart t'.q.pc = pastStart t.q.pc)
    (h3 : t.isProd = true → pastStop t'.q.pc = pastStop t.q.pc) (h4 : t.isProd = true → retOf t' = retOf t)
    (h5 : t'.emitted = t.emitted) (h6 : itemsOf t' = itemsOf t)
    (hp : t'.isProd = true → ProdOK F c' t') (hco : tid = 0 → ConsOK c' t') : Clean F inputs0 c' :=
  clean_gen hc ht hths (by intro sid h; unfold inputAt at h ⊢; rw [hin]; exact h)
    (by rw [hin, hths, flat_same itemsOf ht h6]; exact hc.items)
    hmax hstart hstop hret hprod hexh hq hlost hsr hip h2 h3 h4 h5 hp hco

end MlModel.Piter
