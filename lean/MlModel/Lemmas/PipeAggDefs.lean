import MlModel.Model.PipeAgg
/-!
# Vocabulary of the C02 statements (brute-force group-by side)
-/
namespace MlModel.PipeAgg
open MlModel MlModel.Agg

variable {X S Rv : Type}

/-- Is the row in slice `v` according to the row-level slice function `f`?  (Set semantics: a value
emitted twice for one row counts once; a row on which `f` raises is in no slice.) -/
def inSlice (f : List Val → Except ErrKind (List (List Int))) (v : List Int) (row : List Val) : Bool :=
  match f row with
  | .ok vs => vs.contains v
  | .error _ => false

/-- the rows of the feature columns of a batch, as the slicer reads them (`zip(*features)`) -/
def Slicer.featRows (sl : Slicer) (b : Batch) : List (List Val) :=
  match mapE Val.asSeq (sl.keys.filterMap (fun k => lookupKey k b)) with
  | .ok cs => zipRows cs
  | .error _ => []

/-- **Group-by, filter semantics**: of the selected rows of one batch, those whose feature row is in
slice `v` (row `i` of the aggregate's inputs goes with row `i` of the features). -/
def groupRows (f : List Val → Except ErrKind (List (List Int))) (v : List Int)
    (feats : List (List Val)) (rows : List X) : List X :=
  ((feats.zip rows).filter (fun p => inSlice f v p.1)).map (·.2)

/-- **Group-by, replace semantics** within one batch: every selected row, those outside slice `v`
replaced by `rr row` -/
def replaceRows (f : List Val → Except ErrKind (List (List Int))) (v : List Int) (rr : X → X)
    (feats : List (List Val)) (rows : List X) : List X :=
  (feats.zip rows).map (fun p => if inSlice f v p.1 then p.2 else rr p.2)

/-- does some row of the batch belong to slice `v`? -/
def occursIn (f : List Val → Except ErrKind (List (List Int))) (v : List Int) (feats : List (List Val)) : Bool :=
  feats.any (inSlice f v)

/-- **Masked elements** of one batch for slice key `k` of slicer `sl`: for every `(k, masks)` pair the
slicer yields for this batch, the aggregate's inputs under `masks` (with the slicer's filter / replace mode). -/
def sliceRows (a : Agg X S Rv) (sl : Slicer) (k : SliceKey) (b : Batch) : Except ErrKind (List X) :=
  match sl.slice b with
  | .error e => .error e
  | .ok kms =>
    match mapE (fun km => a.feed km.2 sl.replace b) (kms.filter (fun km => km.1 = k)) with
    | .error e => .error e
    | .ok feds => .ok feds.flatten

/-- the slice keys slicer `sl` reports for one batch -/
def sliceKeysOf (sl : Slicer) (b : Batch) : List SliceKey :=
  match sl.slice b with
  | .ok kms => kms.map (·.1)
  | .error _ => []

/-- The aggregate reads its (masked) positional arguments row-wise: masking all arguments with one
row-level numpy mask in filter mode = dropping the unselected rows. -/
def RowWise (dec : List Val → Except ErrKind (List X)) : Prop :=
  ∀ args rows bits args', dec args = .ok rows → applyMasks none args [.np bits] = .ok args' →
    dec args' = .ok (filterBits bits rows)

/-- the same in replace mode: the unselected rows are replaced by `rr row` -/
def RowWiseRepl (dec : List Val → Except ErrKind (List X)) (r : Scalar) (rr : X → X) : Prop :=
  ∀ args rows bits args', dec args = .ok rows → applyMasks (some r) args [.np bits] = .ok args' →
    dec args' = .ok (replBits rr bits rows)

/-- Replacement values that numpy never converts to or from a string: ints, floats and `None`
(`DType.promote` yields a numeric or the `object` dtype, or raises).  A `str` replacement stringifies a
numeric column and a `bool` replacement is stringified by a string column (finding
F-C02-replace-str-promote); for those see `RowWiseReplOn`. -/
def Scalar.Plain (r : Scalar) : Prop := r.dtype ≠ .str ∧ r.dtype ≠ .bool

instance (r : Scalar) : Decidable r.Plain := by unfold Scalar.Plain; exact inferInstance

/-- A column (array-like) that `np.where(mask, column, r)` leaves at the value level: the common dtype
is not a string dtype, or everything involved is a string already. -/
def Val.StrSafe (r : Scalar) (x : Val) : Prop :=
  (inferDType x.scalars).promote r.dtype ≠ some .str ∨
    (r.dtype = .str ∧ ∀ s ∈ x.scalars, s.dtype = .str)

instance (r : Scalar) (x : Val) : Decidable (x.StrSafe r) := by unfold Val.StrSafe; exact inferInstance

/-- `RowWiseRepl` restricted to argument lists satisfying `A` (e.g. every column `StrSafe`) -/
def RowWiseReplOn (A : List Val → Prop) (dec : List Val → Except ErrKind (List X)) (r : Scalar)
    (rr : X → X) : Prop :=
  ∀ args rows bits args', A args → dec args = .ok rows →
    applyMasks (some r) args [.np bits] = .ok args' → dec args' = .ok (replBits rr bits rows)

/-- the reported value under output key number `i` -/
def Agg.outputAt (a : Agg X S Rv) (s : S) (i : Nat) : Option (ROut Rv) :=
  match a.outputs s with
  | .ok outs => outs[i]?.map (·.2)
  | .error _ => none

end MlModel.PipeAgg
