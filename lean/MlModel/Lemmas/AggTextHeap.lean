import MlModel.Model.Agg.TextHeap
import Mathlib.Data.List.Nodup
/-!
# The heap semantics of the text accumulators refines the value semantics

Invariant (`World.Inv`): distinct accumulators reference distinct `Counter` cells, and every
reference is allocated.  It is established by `make`, preserved by every call, and it is what makes a
`write` through one accumulator invisible through every other one.  Consequence (`run_refines`): for
**every** program the heap run returns exactly what the value run returns.
-/
namespace MlModel.Agg.Text

structure World.Inv (w : World) : Prop where
  nodup : (w.accs.map Acc.ctr).Nodup
  bound : ∀ a ∈ w.accs, a.ctr < w.heap.length

theorem World.inv_empty : World.Inv {} := ⟨by simp, by simp⟩

namespace World

theorem read_set_self (w : World) (r : Nat) (v : Counter Str) (h : r < w.heap.length) :
    ({ w with heap := w.heap.set r v } : World).read r = v := by
  simp [read, List.getD_eq_getElem?_getD, h]

theorem read_set_ne (w : World) (r r' : Nat) (v : Counter Str) (h : r ≠ r') :
    ({ w with heap := w.heap.set r v } : World).read r' = w.read r' := by
  simp [read, List.getD_eq_getElem?_getD, List.getElem?_set_ne h]

/-- distinct accumulator numbers hold distinct references -/
theorem ctr_ne (w : World) (h : w.Inv) {i l : Nat} {a b : Acc}
    (hi : w.accs[i]? = some a) (hl : w.accs[l]? = some b) (hne : i ≠ l) : a.ctr ≠ b.ctr := by
  intro e
  obtain ⟨hi', rfl⟩ := List.getElem?_eq_some_iff.mp hi
  obtain ⟨hl', rfl⟩ := List.getElem?_eq_some_iff.mp hl
  have h1 : (w.accs.map Acc.ctr)[i]'(by simpa using hi') = (w.accs.map Acc.ctr)[l]'(by simpa using hl') := by
    simpa using e
  exact hne ((h.nodup.getElem_inj_iff).mp h1)

/-- `merge` on the heap = `merge` on values, for the receiver; nobody else changes -/
theorem mergeInto_abs (w : World) (h : w.Inv) (i : Nat) (other : Acc) :
    (w.mergeInto i other).abs = pmergeInto w.abs i (w.state other) := by
  unfold mergeInto pmergeInto abs
  cases hi : w.accs[i]? with
  | none => simp [hi]
  | some a =>
    have hlt : a.ctr < w.heap.length := h.bound a (List.mem_of_getElem? hi)
    simp only [List.getElem?_map, hi, Option.map_some, List.map_set]
    apply List.ext_getElem?
    intro l
    by_cases hl : l = i
    · subst hl
      obtain ⟨hi', _⟩ := List.getElem?_eq_some_iff.mp hi
      rw [List.getElem?_set_self (by simpa using hi'), List.getElem?_set_self (by simpa using hi')]
      simp only [state, FreqState.merge, Option.some.injEq, FreqState.mk.injEq, and_true]
      exact read_set_self w a.ctr _ hlt
    · rw [List.getElem?_set_ne (Ne.symm hl), List.getElem?_set_ne (Ne.symm hl)]
      simp only [List.getElem?_map]
      cases hb : w.accs[l]? with
      | none => rfl
      | some b =>
        have hne : a.ctr ≠ b.ctr := ctr_ne w h hi hb (Ne.symm hl)
        simp only [Option.map_some, state, Option.some.injEq, FreqState.mk.injEq, and_true]
        exact read_set_ne w a.ctr b.ctr _ hne

theorem mergeInto_inv (w : World) (h : w.Inv) (i : Nat) (other : Acc) : (w.mergeInto i other).Inv := by
  unfold mergeInto
  cases hi : w.accs[i]? with
  | none => simpa using h
  | some a =>
    constructor
    · have : ((w.accs.set i { a with count := a.count + other.count }).map Acc.ctr) = w.accs.map Acc.ctr := by
        rw [List.map_set]
        apply List.ext_getElem?
        intro l
        by_cases hl : l = i
        · subst hl
          obtain ⟨hi', e⟩ := List.getElem?_eq_some_iff.mp hi
          rw [List.getElem?_set_self (by simpa using hi')]
          simp [hi]
        · rw [List.getElem?_set_ne (Ne.symm hl)]
      simpa [this] using h.nodup
    · intro b hb
      simp only [List.length_set]
      rcases List.mem_or_eq_of_mem_set hb with hb | rfl
      · exact h.bound b hb
      · exact h.bound a (List.mem_of_getElem? hi)

theorem state_append (w : World) (h : w.Inv) (c : Counter Str) (a : Acc) (ha : a ∈ w.accs) :
    ({ w with heap := w.heap ++ [c] } : World).state a = w.state a := by
  have := h.bound a ha
  simp [state, read, List.getD_eq_getElem?_getD, List.getElem?_append_left this]

theorem abs_append (w : World) (h : w.Inv) (c : Counter Str) :
    ({ w with heap := w.heap ++ [c] } : World).abs = w.abs := by
  unfold abs
  apply List.map_congr_left
  intro a ha
  exact state_append w h c a ha

theorem inv_append (w : World) (h : w.Inv) (c : Counter Str) :
    ({ w with heap := w.heap ++ [c] } : World).Inv :=
  ⟨h.nodup, fun a ha => by have := h.bound a ha; simp; omega⟩

end World

/-- one call: the invariant is kept, the denoted values move as in the value semantics, and the call
returns the same thing -/
theorem step_refines (m : Metric) (w : World) (h : w.Inv) (op : Op) :
    (step m w op).1.Inv ∧ (step m w op).1.abs = (pstep m w.abs op).1 ∧
      (step m w op).2 = (pstep m w.abs op).2 := by
  cases op with
  | make =>
    refine ⟨⟨?_, ?_⟩, ?_, rfl⟩
    · simp only [step, stepWith, List.map_append, List.map_cons, List.map_nil]
      rw [List.nodup_append]
      refine ⟨h.nodup, by simp, ?_⟩
      intro a ha b hb
      simp only [List.mem_singleton] at hb
      subst hb
      obtain ⟨x, hx, rfl⟩ := List.mem_map.mp ha
      exact Nat.ne_of_lt (h.bound x hx)
    · intro a ha
      simp only [step, stepWith, List.mem_append, List.mem_singleton] at ha
      simp only [step, stepWith, List.length_append, List.length_singleton]
      rcases ha with ha | rfl
      · have := h.bound a ha; omega
      · simp
    · simp only [step, stepWith, pstep, World.abs, List.map_append, List.map_cons, List.map_nil]
      congr 1
      · apply List.map_congr_left
        intro a ha
        exact World.state_append w h [] a ha
      · simp [World.state, World.read, FreqState.empty, List.getD_eq_getElem?_getD]
  | add i texts =>
    have h1 := World.inv_append w h (m.batch texts).counter
    refine ⟨World.mergeInto_inv _ h1 _ _, ?_, rfl⟩
    simp only [step, stepWith, pstep]
    rw [World.mergeInto_abs _ h1, World.abs_append w h]
    congr 1
    simp [World.state, World.read, List.getD_eq_getElem?_getD]
  | merge i j =>
    simp only [step, stepWith, pstep, World.abs, List.getElem?_map]
    cases hj : w.accs[j]? with
    | none => exact ⟨h, rfl, rfl⟩
    | some o => exact ⟨World.mergeInto_inv w h i o, World.mergeInto_abs w h i o, rfl⟩
  | result i =>
    simp only [step, stepWith, pstep, World.abs, List.getElem?_map]
    cases hi : w.accs[i]? with
    | none => exact ⟨h, rfl, rfl⟩
    | some a => exact ⟨h, rfl, rfl⟩

/-- **every program**: the heap run and the value run return the same observations and end in
corresponding states -/
theorem run_refines (m : Metric) (prog : List Op) (w : World) (h : w.Inv) :
    (run m w prog).1.Inv ∧ (run m w prog).1.abs = (prun m w.abs prog).1 ∧
      (run m w prog).2 = (prun m w.abs prog).2 := by
  induction prog generalizing w with
  | nil => exact ⟨h, rfl, rfl⟩
  | cons op ops ih =>
    obtain ⟨h1, h2, h3⟩ := step_refines m w h op
    obtain ⟨k1, k2, k3⟩ := ih (step m w op).1 h1
    simp only [run, runWith, prun] at k1 k2 k3 ⊢
    refine ⟨k1, ?_, ?_⟩
    · rw [k2, h2]
    · rw [k3, h3, h2]

/-! ## frame conditions of the value semantics, transported to the heap -/

theorem pmergeInto_frame (ps : List (FreqState Str)) (i l : Nat) (o : FreqState Str) (hl : l ≠ i) :
    (pmergeInto ps i o)[l]? = ps[l]? := by
  unfold pmergeInto
  cases ps[i]? with
  | none => rfl
  | some s => exact List.getElem?_set_ne (Ne.symm hl)

/-- a call only changes the accumulator it is invoked on (`make` only appends a new one) -/
theorem pstep_frame (m : Metric) (ps : List (FreqState Str)) (op : Op) (l : Nat) (hl : l < ps.length)
    (hrecv : ∀ i texts, op = .add i texts → l ≠ i) (hrecv' : ∀ i j, op = .merge i j → l ≠ i) :
    (pstep m ps op).1[l]? = ps[l]? := by
  cases op with
  | make => simp [pstep, List.getElem?_append_left hl]
  | add i texts => exact pmergeInto_frame _ _ _ _ (hrecv i texts rfl)
  | merge i j =>
    simp only [pstep]
    cases ps[j]? with
    | none => rfl
    | some o => exact pmergeInto_frame _ _ _ _ (hrecv' i j rfl)
  | result i =>
    simp only [pstep]
    cases ps[i]? <;> rfl

theorem step_frame (m : Metric) (w : World) (h : w.Inv) (op : Op) (l : Nat) (hl : l < w.accs.length)
    (hrecv : ∀ i texts, op = .add i texts → l ≠ i) (hrecv' : ∀ i j, op = .merge i j → l ≠ i) :
    (step m w op).1.abs[l]? = w.abs[l]? := by
  rw [(step_refines m w h op).2.1]
  exact pstep_frame m w.abs op l (by simpa [World.abs] using hl) hrecv hrecv'

end MlModel.Agg.Text
