import MlModel.Model.PipeAggInst
import MlModel.Lemmas.PipeAggSlice
/-!
# The concrete aggregate (`Stat`) is lawful; the column decoder reads row-wise; the built-in slice functions
-/
namespace MlModel.PipeAgg
open MlModel MlModel.Agg

/-! ### `Stat` -/

theorem Stat.add_assoc (a b c : Stat) : (a.add b).add c = a.add (b.add c) := by
  simp [Stat.add, Nat.add_assoc, Int.add_assoc, List.append_assoc]

theorem Stat.zero_add (a : Stat) : ({} : Stat).add a = a := by
  cases a; simp [Stat.add]

theorem Stat.ofBatch_append (xs ys : List (List Val)) :
    Stat.ofBatch (xs ++ ys) = (Stat.ofBatch xs).add (Stat.ofBatch ys) := by
  induction xs with
  | nil => simp [Stat.ofBatch, Stat.zero_add]
  | cons x xs ih => simp [Stat.ofBatch, ih, Stat.add_assoc]

/-- the aggregate used by the correspondence is lawful (for every view), with equality as the
state equivalence -/
theorem statM_lawful {Rv : Type} (view : Stat → List Rv) : Lawful (statM view) Eq where
  refl _ := rfl
  symm h := h.symm
  trans h1 h2 := h1.trans h2
  merge_congr h1 h2 := by rw [h1, h2]
  result_congr h := by rw [h]
  empty_eq := rfl
  hom xs ys := (Stat.ofBatch_append xs ys).symm

/-! ### `filterBits` / `replBits` -/

theorem filterBits_nil_right {α : Type} (bits : List Bool) : filterBits bits ([] : List α) = [] := by
  cases bits <;> rfl

theorem replBits_nil_right {α : Type} (g : α → α) (bits : List Bool) : replBits g bits ([] : List α) = [] := by
  cases bits <;> rfl

theorem filterBits_map {α β : Type} (g : α → β) :
    ∀ (bits : List Bool) (xs : List α), filterBits bits (xs.map g) = (filterBits bits xs).map g := by
  intro bits
  induction bits with
  | nil => intro xs; cases xs <;> rfl
  | cons b bits ih =>
    intro xs
    cases xs with
    | nil => rfl
    | cons x xs => cases b <;> simp [filterBits, ih]

theorem filterBits_zipWith {α β γ : Type} (g : α → β → γ) :
    ∀ (bits : List Bool) (xs : List α) (ys : List β),
      filterBits bits (List.zipWith g xs ys) = List.zipWith g (filterBits bits xs) (filterBits bits ys) := by
  intro bits
  induction bits with
  | nil => intro xs ys; cases xs <;> cases ys <;> simp [filterBits]
  | cons b bits ih =>
    intro xs ys
    cases xs with
    | nil => simp [filterBits]
    | cons x xs =>
      cases ys with
      | nil => simp [filterBits, filterBits_nil_right]
      | cons y ys => cases b <;> simp [filterBits, ih]

theorem filterBits_length_congr {α β : Type} :
    ∀ (bits : List Bool) (xs : List α) (ys : List β), xs.length = ys.length →
      (filterBits bits xs).length = (filterBits bits ys).length := by
  intro bits
  induction bits with
  | nil => intro xs ys _; cases xs <;> cases ys <;> rfl
  | cons b bits ih =>
    intro xs ys h
    cases xs with
    | nil => cases ys with
      | nil => rfl
      | cons y ys => simp at h
    | cons x xs =>
      cases ys with
      | nil => simp at h
      | cons y ys =>
        have := ih xs ys (by simpa using h)
        cases b <;> simp [filterBits, this]

theorem replBits_map {α β : Type} (g : α → α) (g' : β → β) (m : α → β) (hm : ∀ x, m (g x) = g' (m x)) :
    ∀ (bits : List Bool) (xs : List α), replBits g' bits (xs.map m) = (replBits g bits xs).map m := by
  intro bits
  induction bits with
  | nil => intro xs; cases xs <;> rfl
  | cons b bits ih =>
    intro xs
    cases xs with
    | nil => rfl
    | cons x xs => cases b <;> simp [replBits, ih, hm]

theorem replBits_zipWith {α β γ : Type} (g : α → β → γ) (ra : α → α) (rb : β → β) (rc : γ → γ)
    (hr : ∀ x y, rc (g x y) = g (ra x) (rb y)) :
    ∀ (bits : List Bool) (xs : List α) (ys : List β),
      replBits rc bits (List.zipWith g xs ys) = List.zipWith g (replBits ra bits xs) (replBits rb bits ys) := by
  intro bits
  induction bits with
  | nil => intro xs ys; cases xs <;> cases ys <;> simp [replBits]
  | cons b bits ih =>
    intro xs ys
    cases xs with
    | nil => simp [replBits]
    | cons x xs =>
      cases ys with
      | nil => simp [replBits, replBits_nil_right]
      | cons y ys => cases b <;> simp [replBits, ih, hr]

theorem replBits_length {α : Type} (g : α → α) :
    ∀ (bits : List Bool) (xs : List α), bits.length = xs.length → (replBits g bits xs).length = xs.length := by
  intro bits
  induction bits with
  | nil => intro xs h; cases xs with
    | nil => rfl
    | cons x xs => simp at h
  | cons b bits ih =>
    intro xs h
    cases xs with
    | nil => rfl
    | cons x xs => simp [replBits, ih xs (by simpa using h)]

/-! ### `zipRows` -/

theorem zipRows_cons_cons (c c' : List Val) (cs : List (List Val)) :
    zipRows (c :: c' :: cs) = List.zipWith (· :: ·) c (zipRows (c' :: cs)) := rfl

theorem zipRows_filterBits (bits : List Bool) :
    ∀ (cols : List (List Val)), zipRows (cols.map (filterBits bits)) = filterBits bits (zipRows cols) := by
  intro cols
  induction cols with
  | nil => simp [zipRows, filterBits_nil_right]
  | cons c cs ih =>
    cases cs with
    | nil => simp [zipRows, filterBits_map]
    | cons c' cs =>
      rw [List.map_cons, List.map_cons, zipRows_cons_cons, zipRows_cons_cons, filterBits_zipWith]
      rw [← ih]; rfl

theorem zipRows_replBits (r : Scalar) (bits : List Bool) :
    ∀ (cols : List (List Val)),
      zipRows (cols.map (replBits (Val.fill r) bits)) =
        replBits (fun row : List Val => row.map (Val.fill r)) bits (zipRows cols) := by
  intro cols
  induction cols with
  | nil => simp [zipRows, replBits_nil_right]
  | cons c cs ih =>
    cases cs with
    | nil =>
      simp only [List.map_cons, List.map_nil, zipRows]
      exact (replBits_map (Val.fill r) (fun row : List Val => row.map (Val.fill r)) (fun x => [x])
        (by intro x; rfl) bits c).symm
    | cons c' cs =>
      rw [List.map_cons, List.map_cons, zipRows_cons_cons, zipRows_cons_cons]
      rw [replBits_zipWith (· :: ·) (Val.fill r) (fun row : List Val => row.map (Val.fill r))
        (fun row : List Val => row.map (Val.fill r)) (by intro x y; rfl)]
      rw [← ih]; rfl

/-! ### `decCols` reads row-wise -/

theorem applyNp_none_ok {bits : List Bool} {xs : List Val} {y : Val}
    (h : applyNp none bits xs = .ok y) : y = .seq true (filterBits bits xs) ∧ bits.length = xs.length := by
  unfold applyNp at h
  split at h
  · cases h
  · split at h
    · cases h
    · rename_i hl
      simp only [Except.ok.injEq] at h
      exact ⟨h.symm, by simpa using hl⟩

/-- what the `np.where` path returns: the promoted dtype `dt` exists and the result is the array of dtype
`dt` of the replaced rows -/
theorem applyNp_some_ok' {r : Scalar} {bits : List Bool} {xs : List Val} {y : Val}
    (h : applyNp (some r) bits xs = .ok y) :
    ∃ dt, (inferDType (scalarsList xs)).promote r.dtype = some dt ∧
      y = .seq true (npCast dt (replBits (Val.fill r) bits xs)) ∧ bits.length = xs.length := by
  unfold applyNp at h
  split at h
  · cases h
  · split at h
    · cases h
    · rename_i hl
      simp only at h
      split at h
      · cases h
      · rename_i dt hdt
        simp only [Except.ok.injEq] at h
        exact ⟨dt, hdt, h.symm, by simpa using hl⟩

theorem npCast_of_ne_str {dt : DType} (h : dt ≠ .str) (xs : List Val) : npCast dt xs = xs := if_neg h

/-- an int / float / `None` replacement never leads to a string dtype -/
theorem promote_ne_str_of_plain {c r dt : DType} (h1 : r ≠ .str) (h2 : r ≠ .bool)
    (h : c.promote r = some dt) : dt ≠ .str := by
  cases c <;> cases r <;> simp_all [DType.promote, DType.infer] <;> (subst h; decide)

theorem applyNp_some_ok {r : Scalar} (hr : r.Plain) {bits : List Bool} {xs : List Val} {y : Val}
    (h : applyNp (some r) bits xs = .ok y) :
    y = .seq true (replBits (Val.fill r) bits xs) ∧ bits.length = xs.length := by
  obtain ⟨dt, hdt, rfl, hl⟩ := applyNp_some_ok' h
  rw [npCast_of_ne_str (promote_ne_str_of_plain hr.1 hr.2 hdt)]
  exact ⟨rfl, hl⟩

theorem asSeq_ok {x : Val} {xs : List Val} (h : Val.asSeq x = .ok xs) : ∃ arr, x = .seq arr xs := by
  cases x <;> simp [Val.asSeq] at h
  rename_i arr xs'
  exact ⟨arr, by rw [h]⟩

/-- masking every column with the same numpy mask: the columns stay columns, each filtered -/
theorem mapE_applyTop_np_none (bits : List Bool) :
    ∀ {args args' : List Val} {cols : List (List Val)},
      mapE (fun x => applyTop none x (.np bits)) args = .ok args' → mapE Val.asSeq args = .ok cols →
      mapE Val.asSeq args' = .ok (cols.map (filterBits bits)) ∧ ∀ c ∈ cols, bits.length = c.length := by
  intro args
  induction args with
  | nil =>
    intro args' cols h1 h2
    simp only [mapE] at h1 h2
    cases h1; cases h2
    exact ⟨rfl, by simp⟩
  | cons x args ih =>
    intro args' cols h1 h2
    obtain ⟨y, ys, hx, hxs, rfl⟩ := mapE_cons_ok h1
    obtain ⟨c, cs, hc, hcs, rfl⟩ := mapE_cons_ok h2
    obtain ⟨arr, rfl⟩ := asSeq_ok hc
    simp only [applyTop] at hx
    obtain ⟨rfl, hl⟩ := applyNp_none_ok hx
    obtain ⟨i1, i2⟩ := ih hxs hcs
    refine ⟨mapE_cons_of_ok rfl i1, ?_⟩
    intro c' hc'
    rcases List.mem_cons.mp hc' with rfl | h'
    · exact hl
    · exact i2 c' h'

theorem mapE_applyTop_np_some (r : Scalar) (hr : r.Plain) (bits : List Bool) :
    ∀ {args args' : List Val} {cols : List (List Val)},
      mapE (fun x => applyTop (some r) x (.np bits)) args = .ok args' → mapE Val.asSeq args = .ok cols →
      mapE Val.asSeq args' = .ok (cols.map (replBits (Val.fill r) bits)) ∧
        ∀ c ∈ cols, bits.length = c.length := by
  intro args
  induction args with
  | nil =>
    intro args' cols h1 h2
    simp only [mapE] at h1 h2
    cases h1; cases h2
    exact ⟨rfl, by simp⟩
  | cons x args ih =>
    intro args' cols h1 h2
    obtain ⟨y, ys, hx, hxs, rfl⟩ := mapE_cons_ok h1
    obtain ⟨c, cs, hc, hcs, rfl⟩ := mapE_cons_ok h2
    obtain ⟨arr, rfl⟩ := asSeq_ok hc
    simp only [applyTop] at hx
    obtain ⟨rfl, hl⟩ := applyNp_some_ok hr hx
    obtain ⟨i1, i2⟩ := ih hxs hcs
    refine ⟨mapE_cons_of_ok rfl i1, ?_⟩
    intro c' hc'
    rcases List.mem_cons.mp hc' with rfl | h'
    · exact hl
    · exact i2 c' h'

theorem decCols_ok {args : List Val} {rows : List (List Val)} (h : decCols args = .ok rows) :
    ∃ cols, mapE Val.asSeq args = .ok cols ∧ rows = zipRows cols := by
  unfold decCols at h
  cases hc : mapE Val.asSeq args with
  | error e => simp [hc] at h
  | ok cols =>
    simp only [hc] at h
    refine ⟨cols, rfl, ?_⟩
    cases cols with
    | nil => simp only [Except.ok.injEq] at h; rw [← h]; rfl
    | cons c cs =>
      simp only at h
      split at h
      · simp only [Except.ok.injEq] at h; exact h.symm
      · cases h

theorem decCols_of_cols {args : List Val} {cols : List (List Val)} (hc : mapE Val.asSeq args = .ok cols)
    (hl : ∀ c ∈ cols, ∀ c' ∈ cols, c'.length = c.length) : decCols args = .ok (zipRows cols) := by
  unfold decCols
  rw [hc]
  cases cols with
  | nil => rfl
  | cons c cs =>
    simp only
    have : cs.all (fun c' => c'.length == c.length) = true := by
      rw [List.all_eq_true]
      intro c' hc'
      simpa using hl c List.mem_cons_self c' (List.mem_cons_of_mem _ hc')
    rw [this]; rfl

/-- **`decCols` is row-wise** (filter mode) -/
theorem decCols_rowWise : RowWise decCols := by
  intro args rows bits args' hdec hmask
  obtain ⟨cols, hc, rfl⟩ := decCols_ok hdec
  simp only [applyMasks] at hmask
  obtain ⟨h1, h2⟩ := mapE_applyTop_np_none bits hmask hc
  rw [← zipRows_filterBits]
  apply decCols_of_cols h1
  intro c hc1 c' hc2
  obtain ⟨d, hd, rfl⟩ := List.mem_map.mp hc1
  obtain ⟨d', hd', rfl⟩ := List.mem_map.mp hc2
  exact filterBits_length_congr bits d' d (by rw [← h2 d hd, ← h2 d' hd'])

/-- **`decCols` is row-wise** (replace mode): an unselected row has every scalar replaced -/
theorem decCols_rowWiseRepl (r : Scalar) (hr : r.Plain) :
    RowWiseRepl decCols r (fun row : List Val => row.map (Val.fill r)) := by
  intro args rows bits args' hdec hmask
  obtain ⟨cols, hc, rfl⟩ := decCols_ok hdec
  simp only [applyMasks] at hmask
  obtain ⟨h1, h2⟩ := mapE_applyTop_np_some r hr bits hmask hc
  rw [← zipRows_replBits]
  apply decCols_of_cols h1
  intro c hc1 c' hc2
  obtain ⟨d, hd, rfl⟩ := List.mem_map.mp hc1
  obtain ⟨d', hd', rfl⟩ := List.mem_map.mp hc2
  rw [replBits_length _ _ _ (h2 d hd), replBits_length _ _ _ (h2 d' hd'), ← h2 d hd, ← h2 d' hd']

/-! ### the built-in slice functions -/

/-- default slicer (single feature or cross): a row belongs to exactly one slice, the tuple of its
feature values -/
theorem inSlice_defaultFn (v : List Int) (row : List Val) :
    inSlice defaultFn v row = true ↔ mapE Val.asKey row = .ok v := by
  rw [inSlice_iff]
  unfold defaultFn
  cases h : mapE Val.asKey row with
  | error e => simp
  | ok vs =>
    simp only [Except.ok.injEq, exists_eq_left', List.mem_singleton]
    exact eq_comm

/-- `within_values`: the same, restricted to rows whose every feature value is among the requested ones -/
theorem inSlice_withinFn (w : List (List Int)) (v : List Int) (row : List Val) :
    inSlice (withinFn w) v row = true ↔
      mapE Val.asKey row = .ok v ∧ v.length = w.length ∧
        (v.zip w).all (fun vw => vw.2.contains vw.1) = true := by
  rw [inSlice_iff]
  unfold withinFn
  cases h : mapE Val.asKey row with
  | error e => simp
  | ok vs =>
    by_cases hl : vs.length = w.length
    · by_cases ha : (vs.zip w).all (fun vw => vw.2.contains vw.1) = true
      · simp only [hl, ne_eq, not_true_eq_false, if_false, ha, if_true, Except.ok.injEq,
          exists_eq_left', List.mem_singleton]
        constructor
        · rintro rfl; exact ⟨rfl, hl, ha⟩
        · rintro ⟨e, _, _⟩; exact e.symm
      · simp only [hl, ne_eq, not_true_eq_false, if_false, ha, Bool.false_eq_true,
          Except.ok.injEq, exists_eq_left', List.not_mem_nil, false_iff, not_and]
        rintro e
        rw [← e]
        intro _ h'; exact ha h'
    · simp only [ne_eq, hl, not_false_eq_true, if_true, reduceCtorEq, false_and, exists_false,
        Except.ok.injEq, false_iff, not_and]
      rintro e; rw [← e]; intro h'; exact absurd h' hl

/-! ### a small concrete pipeline (non-vacuity examples, witnesses) -/

/-- sum and count of column `x`, one output key -/
def exAgg : Agg (List Val) Stat Rv :=
  { out := ["o"], inKeys := some ["x"], m := statM (fun s => [Rv.nums [(s.s0, 1), (s.n0, 1)]]), dec := decCols }

/-- mean of column `y`, slicing disabled, two output keys -/
def exAgg2 : Agg (List Val) Stat Rv :=
  { out := ["p", "q"], inKeys := some ["y"], m := statM (fun s => [Rv.nums [(s.s0, s.n0)], Rv.nums [(s.n0, 1)]]),
    dec := decCols, noSlice := true }

/-- `add_slice('a')` -/
def exSlicer : Slicer := { name := ["a"], keys := ["a"], fn := .rows defaultFn }

/-- `add_slice('a', replace_mask_false_with=0)` under another name -/
def exSlicerRepl : Slicer := { name := ["a0"], keys := ["a"], fn := .rows defaultFn, replace := some 0 }

/-- `add_slice({'a': (1,), 'b': (0, 1)})` -/
def exSlicerWithin : Slicer :=
  { name := ["a", "b"], keys := ["a", "b"], fn := .rows (withinFn [[1], [0, 1]]) }

def exPipeline : Pipeline (List Val) Stat Rv := ⟨[exAgg, exAgg2], [exSlicer, exSlicerRepl, exSlicerWithin]⟩

def exCol (xs : List Int) : Val := .seq false (xs.map fun x => .leaf (.int x))

/-- three batches; slice `a = 2` first occurs in the last one, the middle batch is empty -/
def exStream : List Batch :=
  [[("a", exCol [1, 1]), ("b", exCol [0, 2]), ("x", exCol [5, 6]), ("y", exCol [1, 2])],
   [("a", exCol []), ("b", exCol []), ("x", exCol []), ("y", exCol [])],
   [("a", exCol [2, 1]), ("b", exCol [1, 1]), ("x", exCol [7, 8]), ("y", exCol [3, 4])]]

/-- the same rows in one batch -/
def exStreamOne : List Batch :=
  [[("a", exCol [1, 1, 2, 1]), ("b", exCol [0, 2, 1, 1]), ("x", exCol [5, 6, 7, 8]), ("y", exCol [1, 2, 3, 4])]]

theorem exPipeline_WF : exPipeline.WF :=
  ⟨by decide, by decide, by decide, by decide⟩

end MlModel.PipeAgg
