import MlModel.Lemmas.Piter2Base
/-!
# Two-queue LTS: what no step changes (roles, pool size), and the pool never gates when it has a worker per task
-/
namespace MlModel.Piter2
open MlModel.Queue

/-- the static part of a configuration -/
structure Frame (c c' : Cfg) : Prop where
  roles : c'.ths.map (·.role) = c.ths.map (·.role)
  workers : c'.maxWorkers = c.maxWorkers
  fifo : c'.fifo = c.fifo

theorem Frame.refl (c : Cfg) : Frame c c := ⟨rfl, rfl, rfl⟩

theorem Frame.trans {a b c : Cfg} (h1 : Frame a b) (h2 : Frame b c) : Frame a c :=
  ⟨h2.roles.trans h1.roles, h2.workers.trans h1.workers, h2.fifo.trans h1.fifo⟩

theorem roles_set {ths : List Th} {tid : Tid} {t t' : Th} (ht : ths[tid]? = some t) (hr : t'.role = t.role) :
    (ths.set tid t').map (·.role) = ths.map (·.role) := by
  rw [List.map_set, hr]
  apply List.ext_getElem?
  intro i
  by_cases hi : i = tid
  · subst hi
    have hlt : i < ths.length := (List.getElem?_eq_some_iff.mp ht).1
    rw [List.getElem?_set_self (by simpa using hlt)]
    simp [ht]
  · rw [List.getElem?_set_ne (Ne.symm hi)]

theorem afterPull_role (F : Nat → Option (List Nat)) (fwd : Bool) (tid : Tid) (s : Shared) (t : Th) (r : Hand) :
    (afterPull F fwd tid s t r).2.role = t.role := by
  unfold afterPull failPull
  (repeat' split) <;> rfl

theorem afterIter_role (c : Cfg) (pc : Pc) (s : Shared) (t : Th) : (afterIter c pc s t).2.role = t.role := by
  unfold afterIter
  (repeat' split) <;> rfl

theorem beginIter_role (c : Cfg) (t : Th) : (beginIter c t).role = t.role := by
  unfold beginIter
  split <;> rfl

theorem enterNext_role (tid : Tid) (t : Th) : (enterNext tid t).role = t.role := by
  unfold enterNext
  split <;> rfl

theorem postProd_role (tid : Tid) (t : Th) (s : Shared) (b : Queue.Thread) : (postProd tid t s b).role = t.role := by
  unfold postProd
  simp only []
  split
  · rw [enterNext_role]
  · split <;> rfl

/-- a step that replaces thread `tid` by a thread of the same role and leaves the pool parameters alone -/
theorem frame_mk {c : Cfg} {tid : Tid} {t t' : Th} {s1 s2 : Shared} {il : Option Tid} {ca : List Elem} {ns : Nat}
    (ht : c.ths[tid]? = some t) (hr : t'.role = t.role) :
    Frame c { c with s1 := s1, s2 := s2, ths := c.ths.set tid t', ilock := il, cache := ca, nsub := ns } :=
  ⟨roles_set ht hr, rfl, rfl⟩

set_option maxHeartbeats 400000 in
theorem step_frame {F : Nat → Option (List Nat)} {c c' : Cfg} {tid : Tid} {alt : Bool} {lbl : String}
    (h : step F c tid alt = some (lbl, c')) : Frame c c' := by
  unfold step at h
  split at h
  · simp at h
  · rename_i t ht
    split at h
    · unfold stepCons at h
      (repeat' split at h) <;> simp only [Option.some.injEq, Prod.mk.injEq, reduceCtorEq] at h <;>
        obtain ⟨-, rfl⟩ := h <;>
        first
        | exact frame_mk (c := c) ht rfl
        | exact frame_mk (c := c) ht (beginIter_role c t)
        | exact frame_mk (c := c) ht (afterIter_role _ _ _ _)
        | (refine frame_mk (c := c) ht ?_; split <;> first | rfl | exact beginIter_role c t)
    · unfold stepL1 at h
      (repeat' split at h) <;> simp only [Option.some.injEq, Prod.mk.injEq, reduceCtorEq] at h <;>
        obtain ⟨-, rfl⟩ := h <;> exact frame_mk (c := c) ht rfl
    · unfold stepL2 at h
      (repeat' split at h) <;> simp only [Option.some.injEq, Prod.mk.injEq, reduceCtorEq] at h <;>
        obtain ⟨-, rfl⟩ := h <;>
        first
        | exact frame_mk (c := c) ht rfl
        | exact frame_mk (c := c) ht (afterPull_role _ _ _ _ _ _)
        | exact frame_mk (c := c) ht (postProd_role _ _ _ _)

theorem reachable_frame {F : Nat → Option (List Nat)} {c0 c : Cfg} (h : Reachable F c0 c) : Frame c0 c := by
  induction h with
  | init => exact Frame.refl _
  | step _ hs ih => exact ih.trans (step_frame hs)

end MlModel.Piter2

namespace MlModel.Piter2
open MlModel.Queue

/-- while a task has not started, fewer tasks run than there are tasks -/
theorem running_lt_nTasks {c : Cfg} {hd : Th} {tl : List Th} (hths : c.ths = hd :: tl) (hhd : hd.role = .cons)
    {tid : Tid} {t : Th} (ht : c.ths[tid]? = some t) (htask : t.isTask = true) (hns : t.started = false) :
    c.running < c.nTasks := by
  have hmem : t ∈ tl := by
    rw [hths] at ht
    cases tid with
    | zero =>
      simp only [List.getElem?_cons_zero, Option.some.injEq] at ht
      subst ht
      simp [Th.isTask, hhd] at htask
    | succ k =>
      simp only [List.getElem?_cons_succ] at ht
      exact List.mem_of_getElem? ht
  have hp : (hd.isTask && hd.started && !hd.done) = false := by simp [Th.isTask, hhd]
  unfold Cfg.running Cfg.nTasks
  rw [hths, List.filter_cons]
  simp only [hp, Bool.false_eq_true, ↓reduceIte, List.length_cons, Nat.add_sub_cancel]
  have hle := List.length_filter_le (fun t : Th => t.isTask && t.started && !t.done) tl
  rcases Nat.lt_or_ge (List.filter (fun t : Th => t.isTask && t.started && !t.done) tl).length tl.length with h | h
  · exact h
  · have heq := Nat.le_antisymm hle h
    have hall := List.length_filter_eq_length_iff.mp heq t hmem
    simp [hns] at hall

/-- the initial configurations have the consumer first -/
theorem init_ths (cap1 cap2 bm1 bm2 mw : Nat) (ns : Option Nat) (fwd : Bool) (inputs : List InSpec) (gens : List Nat) :
    (init cap1 cap2 bm1 bm2 mw ns fwd inputs gens).ths.map (·.role) =
      Role.cons :: ((inputs.map fun _ => Role.l1) ++ gens.map fun _ => Role.l2) := by
  simp [init, mkCons, mkL1, mkL2, Function.comp_def]

/-- **a pool with a worker per task never makes a submitted task wait** (any-order pools; `max_workers = 0` = no bound):
in every configuration reachable from a configuration whose first thread is the consumer, a submitted task that has not
started is let through by the gate. -/
theorem gate_of_enough_workers {F : Nat → Option (List Nat)} {c0 c : Cfg} (h : Reachable F c0 c)
    {hd0 : Th} {tl0 : List Th} (h0 : c0.ths = hd0 :: tl0) (hhd0 : hd0.role = .cons) (hfifo : c0.fifo = false)
    (hw : c0.maxWorkers = 0 ∨ c0.nTasks ≤ c0.maxWorkers)
    {tid : Tid} {t : Th} (ht : c.ths[tid]? = some t) (htask : t.isTask = true) (hns : t.started = false)
    (hsub : tid ≤ c.nsub) : c.gate tid = true := by
  have hf := reachable_frame h
  have hlen : c.ths.length = c0.ths.length := by
    have := congrArg List.length hf.roles
    simpa using this
  -- the first thread of `c` is still the consumer
  obtain ⟨hd, tl, hths, hhd⟩ : ∃ hd tl, c.ths = hd :: tl ∧ hd.role = .cons := by
    cases hc : c.ths with
    | nil => rw [hc, h0] at hlen; simp at hlen
    | cons hd tl =>
      refine ⟨hd, tl, rfl, ?_⟩
      have := hf.roles
      rw [hc, h0] at this
      simp only [List.map_cons, List.cons.injEq] at this
      rw [this.1, hhd0]
  have hrun := running_lt_nTasks hths hhd ht htask hns
  have hnt : c.nTasks = c0.nTasks := by simp [Cfg.nTasks, hlen]
  unfold Cfg.gate
  rw [hf.fifo, hfifo, hf.workers]
  simp only [Bool.not_false, Bool.true_or, Bool.and_true, Bool.and_eq_true, decide_eq_true_eq, Bool.or_eq_true, beq_iff_eq]
  refine ⟨hsub, ?_⟩
  rcases hw with hw | hw
  · exact .inl hw
  · right; omega

end MlModel.Piter2
