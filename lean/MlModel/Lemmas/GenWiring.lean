import MlModel.Generated.Wiring
import MlModel.Model.Agg.Confusion
/-!
# Meaning of the generated wiring tables (`Generated/Wiring.lean`, translate/wiring.py)

The translator emits the *wiring* code of `metrics/classification.py` / `aggregates/classification.py` as data
(`Src`, `Cond`, `Tree`, `Wrapper`).  This file is its hand-written semantic base (what `Model/GenPrim.lean` is for
the generated scalar code): an interpreter that runs the tables on the hand model's values.  Nothing here knows
what the tables contain — a wrapper that passes `pos_label=input_type`, requests another metric, drops a keyword or
swaps two branches gets exactly that meaning, and the theorems of `Properties/C07/GeneratedWiring.lean` fail.

Python values that occur in the wiring: strings (enum values), labels, bools, the vocabulary, `k_list`, the
`metrics` argument (a list of names, or one bare name), `dtype` (opaque), `y_true` / `y_pred` (opaque), `None`.
-/
namespace MlModel.GenWiring
open MlModel.Generated MlModel.Generated.Wiring MlModel.Agg.Confusion

inductive Val where
  | str (s : String)
  | label (l : Label)
  | bool (b : Bool)
  | vocab (v : Option Vocab)
  | klist (k : List Int)
  | metrics (ms : List String) (single : Bool)
  | dtype
  | yTrue
  | yPred
  | none
  | cls
  deriving DecidableEq, Repr

abbrev Env := String → Option Val

def noEnv : Env := fun _ => .none

/-- `self.<field>` / parameter lookup and the pure operators of the value language -/
def evalSrc (penv fenv : Env) : Src → Option Val
  | .param n => penv n
  | .field n => fenv n
  | .member m => some (.metrics [m.value] true)       -- a bare enum member: `isinstance(metrics, ConfusionMatrixMetric)`
  | .lit (.int n) => some (.label n)
  | .lit (.str s) => some (.str s)
  | .lit (.bool b) => some (.bool b)
  | .lit .none => some .none
  | .coerce _ x => evalSrc penv fenv x                  -- `AverageType(x)`: identity on valid values
  | .isEq x v => match evalSrc penv fenv x with
    | some (.str s) => some (.bool (s == v))
    | _ => .none
  | .selfClass => some .cls

/-- Python truthiness of the values that are tested in the wiring -/
def truthy : Val → Option Bool
  | .klist k => some (!k.isEmpty)
  | .none => some false
  | .vocab (some (_ :: _)) => some true
  | .vocab _ => some false
  | .bool b => some b
  | .str s => some (!s.isEmpty)
  | _ => .none

/-- `x is None`; `k_list` is not representable here: the hand model writes `[]` for both `None` and `()` -/
def isNone : Val → Option Bool
  | .none => some true
  | .vocab v => some v.isNone
  | .klist _ => .none
  | _ => some false

def evalCond (penv fenv : Env) : Cond → Option Bool
  | .eq x v => match evalSrc penv fenv x with
    | some (.str s) => some (s == v)
    | _ => .none
  | .isIn x vs => match evalSrc penv fenv x with
    | some (.str s) => some (vs.contains s)
    | _ => .none
  | .truthy x => (evalSrc penv fenv x).bind truthy
  | .isNone x => (evalSrc penv fenv x).bind isNone
  | .not c => (evalCond penv fenv c).map (!·)
  | .and a b => match evalCond penv fenv a with
    | some true => evalCond penv fenv b
    | r => r
  | .or a b => match evalCond penv fenv a with
    | some false => evalCond penv fenv b
    | r => r

def errOf : String → ErrKind
  | "ValueError" => .value
  | "TypeError" => .type
  | "KeyError" => .key
  | "NotImplementedError" => .notImpl
  | _ => .other

/-! ## constructor keywords ↦ `RawCfg` -/

/-- the arguments of a call of a one-shot function / of `ClassificationAggFn(..)`, as an environment -/
def rawEnv (a : RawCfg) : Env
  | "metrics" => some (.metrics a.metrics a.single)
  | "pos_label" => some (.label a.posLabel)
  | "input_type" => some (.str a.inputType)
  | "average" => some (.str a.average)
  | "vocab" => some (.vocab a.vocab)
  | "dtype" => some .dtype
  | "k_list" => some (.klist a.kList)
  | "y_true" => some .yTrue
  | "y_pred" => some .yPred
  | _ => .none

/-- one keyword argument; an ill-typed value (e.g. `pos_label=input_type`) has no meaning in the model -/
def setKw (r : RawCfg) (k : String) (v : Val) : Option RawCfg :=
  match k, v with
  | "metrics", .metrics ms sg => some { r with metrics := ms, single := sg }
  | "pos_label", .label l => some { r with posLabel := l }
  | "input_type", .str s => some { r with inputType := s }
  | "average", .str s => some { r with average := s }
  | "vocab", .vocab v => some { r with vocab := v }
  | "vocab", .none => some { r with vocab := .none }
  | "k_list", .klist ks => some { r with kList := ks }
  | "k_list", .none => some { r with kList := [] }
  | "dtype", .dtype => some r
  | "dtype", .none => some r
  | "y_true", .yTrue => some r
  | "y_pred", .yPred => some r
  | _, _ => .none

def kwRaw (penv : Env) (base : RawCfg) (kw : List (String × Src)) : Option RawCfg :=
  kw.foldlM (fun r (ks : String × Src) => (evalSrc penv noEnv ks.2).bind (setKw r ks.1)) base

/-- what a constructor of `aggregates/classification.py` gets for the keywords it is not given: the dataclass defaults
(`Wiring.classes`; `C07_gen_wiring_class_defaults` checks that they are these) -/
def ctorDefault : RawCfg := { metrics := ["confusion_matrix"], single := true }

def construct : String → RawCfg → Except ErrKind Cfg
  | "ConfusionMatrixAggFn" => constructCM
  | "TopKConfusionMatrixAggFn" => constructTopK
  | "SamplewiseConfusionMatrixAggFn" => constructSamplewise
  | _ => fun _ => .error .other

/-- `ClassificationAggFn.__init__` run on the arguments `a` -/
def evalInit (a : RawCfg) : Tree → Except ErrKind Cfg
  | .ite c t e => match evalCond (rawEnv a) noEnv c with
    | some true => evalInit a t
    | some false => evalInit a e
    | .none => .error .other
  | .raise exc => .error (errOf exc)
  | .build _ cls kw => match kwRaw (rawEnv a) ctorDefault kw with
    | some r => construct cls r
    | .none => .error .other
  | _ => .error .other

/-- `utils.verify_input` run on the arguments `r` (and the data) -/
def evalVerify (r : RawCfg) (b : Batch) : Tree → Except ErrKind Unit
  | .ite c t e => match evalCond (rawEnv r) noEnv c with
    | some true => evalVerify r b t
    | some false => evalVerify r b e
    | .none => .error .other
  | .raise exc => .error (errOf exc)
  | .call "_validate_pos_label" kw => match kwRaw (rawEnv r) r kw with
    | some r' => if (labelsFor r' b).contains r'.posLabel then .ok () else .error .value
    | .none => .error .other
  | .pass => .ok ()
  | _ => .error .other

/-- the parameters `ClassificationAggFn.__init__` falls back to (only `metrics` is required) -/
def initDefault : RawCfg := { metrics := [] }

/-- a one-shot function `w` called with the arguments `a` on the batch `b` -/
def evalWrapper (sqrt : Rat → Rat) (w : Wrapper) (a : RawCfg) (b : Batch) : Except ErrKind Result :=
  if w.ctor ≠ "ClassificationAggFn" ∨ w.applied ≠ [.param "y_true", .param "y_pred"]
      ∨ ¬ (w.kw.map (·.1)).contains "metrics" then .error .other
  else match kwRaw (rawEnv a) a w.verify, kwRaw (rawEnv a) initDefault w.kw with
    | some rv, some r => do
      if !w.verify.isEmpty then evalVerify rv b verifyTree
      let c ← evalInit r initTree
      accumulate sqrt c b
    | _, _ => .error .other

/-! ## `_calculate_confusion_matrix` -/

def inputStr : Option InputType → String
  | some .binary => "binary"
  | some .continuous => "continuous"
  | some .continuousMultioutput => "continuous-multioutput"
  | some .multiclass => "multiclass"
  | some .multioutput => "multiclass-multioutput"
  | some .indicator => "multiclass-indicator"
  | .none => "<not an InputType>"

/-- the attributes of an aggregate object configured as `c` -/
def cfgEnv (c : Cfg) : Env
  | "_input_type" | "input_type" => some (.str (inputStr c.input))
  | "_average" | "average" => some (.str c.average.value)
  | "pos_label" => some (.label c.posLabel)
  | "vocab" => some (.vocab c.vocab)
  | "k_list" => some (.klist c.kList)
  | _ => .none

def dataEnv : Env
  | "y_true" => some .yTrue
  | "y_pred" => some .yPred
  | _ => .none

def kwVal (c : Cfg) (kw : List (String × Src)) (k : String) : Option Val :=
  (kw.lookup k).bind (evalSrc dataEnv (cfgEnv c))

def kwAverage (c : Cfg) (kw : List (String × Src)) : Option Average :=
  match kwVal c kw "average" with
  | some (.str s) => Average.ofValue? s
  | _ => .none

def dataOk (c : Cfg) (kw : List (String × Src)) : Bool :=
  kwVal c kw "y_true" == some .yTrue && kwVal c kw "y_pred" == some .yPred

def evalCalc (c : Cfg) (b : Batch) : Tree → Except ErrKind CMArr
  | .ite cd t e => match evalCond dataEnv (cfgEnv c) cd with
    | some true => evalCalc c b t
    | some false => evalCalc c b e
    | .none => .error .other
  | .raise exc => .error (errOf exc)
  | .call fn kw =>
    if !dataOk c kw then .error .other else
    match fn, kwAverage c kw with
    | "_indicator_confusion_matrix", some avg =>
      match kwVal c kw "pos_label", kwVal c kw "multiclass" with
      | some (.label pos), some (.bool mc) => indicatorCM pos mc avg b.yTrue b.yPred
      | _, _ => .error .other
    | "_multiclass_confusion_matrix", some avg =>
      match kwVal c kw "vocab", kwVal c kw "multioutput" with
      | some (.vocab v), some (.bool mo) => multiclassCM v mo avg b
      | _, _ => .error .other
    | "_topk_confusion_matrix", some avg =>
      match kwVal c kw "vocab", kwVal c kw "multioutput", kwVal c kw "k_list" with
      | some (.vocab v), some (.bool mo), some (.klist ks) => topkCM v mo avg ks b
      | _, _, _ => .error .other
    | _, _ => .error .other
  | _ => .error .other

/-- the guard of `merge_states` -/
def evalGuard (c : Cfg) : Tree → Except ErrKind Unit
  | .ite cd t e => match evalCond noEnv (cfgEnv c) cd with
    | some true => evalGuard c t
    | some false => evalGuard c e
    | .none => .error .other
  | .raise exc => .error (errOf exc)
  | .pass => .ok ()
  | _ => .error .other

/-- the loop of `merge_states` over the generated step -/
def mergeFold {S : Type} (iadd : S → S → Except ErrKind S) (states : List (Option S)) (i : Nat)
    (init : Option S × List Take) : Except ErrKind (Option S × List Take) :=
  match states with
  | [] => .ok init
  | st :: rest => do
    let r ← Wiring.mergeStep iadd init.1 i st
    mergeFold iadd rest (i + 1) (r.1, init.2 ++ r.2)

/-! ## shapes of table entries (decidable) -/

/-- the metric a function requests: its `metrics=` keyword -/
def metricsSrc (w : Wrapper) : Src := (w.kw.lookup "metrics").getD (.lit .none)

/-- the standard shape of a one-shot function: validation call on its own arguments in `verify_input`'s order, a
`ClassificationAggFn` with every keyword passed through unchanged, applied to `(y_true, y_pred)` -/
def StdWrapper (w : Wrapper) (metrics : Src) : Prop :=
  w.verify = [("y_true", .param "y_true"), ("y_pred", .param "y_pred"), ("average", .param "average"),
              ("input_type", .param "input_type"), ("vocab", .param "vocab"), ("pos_label", .param "pos_label")] ∧
  w.ctor = "ClassificationAggFn" ∧
  w.kw = [("metrics", metrics), ("pos_label", .param "pos_label"), ("input_type", .param "input_type"),
          ("average", .param "average"), ("vocab", .param "vocab"), ("dtype", .param "dtype"),
          ("k_list", .param "k_list")] ∧
  w.applied = [.param "y_true", .param "y_pred"]

instance (w : Wrapper) (m : Src) : Decidable (StdWrapper w m) := by unfold StdWrapper; infer_instance

/-- default of an init field of a dataclass (`none`: no such field, or no default) -/
def fieldDefault (c : ClassDecl) (f : String) : Option Lit := (c.fields.lookup f).join

end MlModel.GenWiring
