import MlModel.Lemmas.OwnerSteps
/-! The finaliser (`finally: release_all()`) leaves the pool without acquired workers. -/
namespace MlModel.Owner

/-- program points of `Worker.release` -/
def isRel : MPc → Bool
  | .rEnter | .rRdLocked1 | .rRdPool | .rRdLocked2 | .rUnlock | .rWr | .rExit => true
  | _ => false

/-- program points of `Worker.release` before the owner field has been cleared / found foreign -/
def beforeWr : MPc → Bool
  | .rEnter | .rRdLocked1 | .rRdPool | .rRdLocked2 | .rUnlock | .rWr => true
  | _ => false

/-- The active call fits its continuation: same pool, and a `release_all` continuation is only
ever paired with a `release` call. -/
def KOK (cl : Call) (k : K) : Prop :=
  cl.p = k.pool ∧ ∀ q rest f, k = .relAll q rest f → isRel cl.pc = true

def Next.ok (q : Pid) : Next → Prop
  | .call cl k => cl.p = q ∧ k.pool = q ∧ ∀ q' rest f, k = .relAll q' rest f → cl.pc = .rEnter
  | .finish _ e => e = none ∨ e = some q

theorem acqAllLoop_ok (p ws acc n) : (acqAllLoop p ws acc n).ok p := by
  cases ws <;> simp [acqAllLoop, Next.ok, K.pool]
theorem acqAllIter_ok (p rest acc n) : (acqAllIter p rest acc n).ok p := by
  unfold acqAllIter; split
  · simp [Next.ok]
  · exact acqAllLoop_ok ..
theorem relAllLoop_ok (p fin ws) : (relAllLoop p fin ws).ok p := by
  cases ws
  · cases fin <;> simp [relAllLoop, Next.ok]
  · simp [relAllLoop, Next.ok, K.pool]
theorem origLoop_ok (p ws) : (origLoop p ws).ok p := by
  cases ws <;> simp [origLoop, Next.ok, K.pool]
theorem next2Loop_ok (p ws) : (next2Loop p ws).ok p := by
  cases ws <;> simp [next2Loop, Next.ok, K.pool]
theorem next1Loop_ok (p acq ws un) : (next1Loop p acq ws un).ok p := by
  cases ws
  · exact next2Loop_ok ..
  · simp [next1Loop, Next.ok, K.pool]

theorem idleLoop_ok (p ws acc) : (idleLoop p ws acc).ok p := by
  cases ws <;> simp [idleLoop, Next.ok, K.pool]

theorem aliveLoop_ok (p ws acc again) : (aliveLoop p ws acc again).ok p := by
  cases ws with
  | cons w rest => simp [aliveLoop, Next.ok, K.pool]
  | nil =>
    cases again with
    | none => simp [aliveLoop, Next.ok]
    | some ws2 => cases ws2 <;> simp [aliveLoop, Next.ok, K.pool]
theorem callLoop_ok (p ws) : (callLoop p ws).ok p := by
  cases ws <;> simp [callLoop, Next.ok, K.pool]
theorem acqCLoop_ok (p all ws got) : (acqCLoop p all ws got).ok p := by
  cases ws
  · exact callLoop_ok ..
  · simp [acqCLoop, Next.ok, K.pool]
theorem acqWLoop_ok (p ws acc) : (acqWLoop p ws acc).ok p := by
  cases ws <;> simp [acqWLoop, Next.ok, K.pool]
theorem acqCIter_ok (p all rest got) : (acqCIter p all rest got).ok p := by
  unfold acqCIter; split
  · exact acqCLoop_ok ..
  · exact callLoop_ok ..

theorem resume_ok (k : K) (b : Bool) : (resume k b).ok k.pool := by
  cases k <;> simp only [resume, K.pool]
  · split
    · simp [Next.ok, K.pool]
    · exact acqAllIter_ok ..
  · exact acqAllIter_ok ..
  · exact relAllLoop_ok ..
  · split
    · simp [Next.ok, K.pool]
    · exact origLoop_ok ..
  · exact origLoop_ok ..
  · split
    · simp [Next.ok, K.pool]
    · exact next1Loop_ok ..
  · split
    · simp [Next.ok]
    · exact next1Loop_ok ..
  · split
    · simp [Next.ok, K.pool]
    · exact next2Loop_ok ..
  · split
    · simp [Next.ok]
    · exact next2Loop_ok ..
  · simp [Next.ok]
  · split
    · simp [Next.ok, K.pool]
    · exact next1Loop_ok ..
  · split
    · simp [Next.ok, K.pool]
    · exact next2Loop_ok ..
  · split
    · simp [Next.ok, K.pool]
    · exact idleLoop_ok ..
  · split
    · simp [Next.ok, K.pool]
    · exact idleLoop_ok ..
  · exact idleLoop_ok ..
  · exact aliveLoop_ok ..
  · split
    · simp [Next.ok, K.pool]
    · split <;> simp [Next.ok, K.pool]
  · split <;> simp [Next.ok, K.pool]
  · split
    · simp [Next.ok, K.pool]
    · exact acqCIter_ok ..
  · exact acqCIter_ok ..
  · exact callLoop_ok ..
  · exact acqWLoop_ok ..

theorem start_ok (pw : Pid → List Wid) (op : Op) : (start pw op).ok op.pool := by
  cases op <;> simp only [start, Op.pool]
  · exact acqAllLoop_ok ..
  · exact relAllLoop_ok ..
  · exact next1Loop_ok ..
  · simp [Next.ok, K.pool]
  · exact origLoop_ok ..
  · exact relAllLoop_ok ..
  · exact idleLoop_ok ..
  · simp [Next.ok, K.pool]
  · exact aliveLoop_ok ..
  · split <;> simp [Next.ok, K.pool]
  · exact acqCLoop_ok ..
  · simp [Next.ok, K.pool]
  · exact acqWLoop_ok ..

theorem apply_KOK (th : Thread) (n : Next) (q : Pid) (hn : n.ok q) :
    ∀ cl k, (th.apply n).cur = some (cl, k) → KOK cl k ∧ k.pool = q := by
  intro cl k h
  cases n with
  | call cl' k' =>
    simp [Thread.apply] at h
    obtain ⟨h1, h2⟩ := h; subst h1; subst h2
    obtain ⟨a, b, c⟩ := hn
    exact ⟨⟨by rw [a, b], fun q' rest f hk => by rw [c q' rest f hk]; rfl⟩, b⟩
  | finish r e => simp [Thread.apply] at h

/-- Thread `th` has nothing to do with pool `p`, now or later. -/
def NotActs (th : Thread) (p : Pid) : Prop :=
  (∀ op ∈ th.script, op.pool ≠ p) ∧ ∀ cl k, th.cur = some (cl, k) → k.pool ≠ p

/-- Workers a running finaliser of pool `p` has still to look at. -/
def pendingRel (p : Pid) (cl : Call) : K → Option (List Wid)
  | .relAll q rest true => if q = p then some (if beforeWr cl.pc then cl.w :: rest else rest) else none
  | _ => none

def Thread.todo (p : Pid) (th : Thread) : Option (List Wid) :=
  match th.cur with
  | some (cl, k) => pendingRel p cl k
  | none => if th.exited = some p then some [] else none

def Next.todo (p : Pid) : Next → Option (List Wid)
  | .call cl k => pendingRel p cl k
  | .finish _ e => if e = some p then some [] else none

theorem todo_apply (p : Pid) (th : Thread) (n : Next) : (th.apply n).todo p = n.todo p := by
  cases n <;> rfl

theorem acqAllLoop_todo (p q ws acc n) : (acqAllLoop q ws acc n).todo p = none := by
  cases ws <;> simp [acqAllLoop, Next.todo, pendingRel]
theorem acqAllIter_todo (p q rest acc n) : (acqAllIter q rest acc n).todo p = none := by
  unfold acqAllIter; split
  · simp [Next.todo]
  · exact acqAllLoop_todo ..
theorem relAllLoop_todo (p q fin ws) :
    (relAllLoop q fin ws).todo p = if fin = true ∧ q = p then some ws else none := by
  cases ws <;> cases fin <;> simp [relAllLoop, Next.todo, pendingRel, beforeWr]
theorem origLoop_todo (p q ws) : (origLoop q ws).todo p = none := by
  cases ws <;> simp [origLoop, Next.todo, pendingRel]
theorem next2Loop_todo (p q ws) : (next2Loop q ws).todo p = none := by
  cases ws <;> simp [next2Loop, Next.todo, pendingRel]
theorem next1Loop_todo (p q acq ws un) : (next1Loop q acq ws un).todo p = none := by
  cases ws
  · exact next2Loop_todo ..
  · simp [next1Loop, Next.todo, pendingRel]

theorem idleLoop_todo (p q ws acc) : (idleLoop q ws acc).todo p = none := by
  cases ws <;> simp [idleLoop, Next.todo, pendingRel]

theorem aliveLoop_todo (p q ws acc again) : (aliveLoop q ws acc again).todo p = none := by
  cases ws with
  | cons w rest => simp [aliveLoop, Next.todo, pendingRel]
  | nil =>
    cases again with
    | none => simp [aliveLoop, Next.todo]
    | some ws2 => cases ws2 <;> simp [aliveLoop, Next.todo, pendingRel]
theorem callLoop_todo (p q ws) : (callLoop q ws).todo p = none := by
  cases ws <;> simp [callLoop, Next.todo, pendingRel]
theorem acqCLoop_todo (p q all ws got) : (acqCLoop q all ws got).todo p = none := by
  cases ws
  · exact callLoop_todo ..
  · simp [acqCLoop, Next.todo, pendingRel]
theorem acqWLoop_todo (p q ws acc) : (acqWLoop q ws acc).todo p = none := by
  cases ws <;> simp [acqWLoop, Next.todo, pendingRel]
theorem acqCIter_todo (p q all rest got) : (acqCIter q all rest got).todo p = none := by
  unfold acqCIter; split
  · exact acqCLoop_todo ..
  · exact callLoop_todo ..

/-- Only a finaliser continues as a finaliser. -/
theorem resume_todo (p : Pid) (k : K) (b : Bool) :
    (resume k b).todo p = match k with
      | .relAll q rest true => if q = p then some rest else none
      | _ => none := by
  cases k <;> simp only [resume]
  · split
    · simp [Next.todo, pendingRel]
    · exact acqAllIter_todo ..
  · exact acqAllIter_todo ..
  · rename_i q rest fin
    rw [relAllLoop_todo]; cases fin <;> simp
  · split
    · simp [Next.todo, pendingRel]
    · exact origLoop_todo ..
  · exact origLoop_todo ..
  · split
    · simp [Next.todo, pendingRel]
    · exact next1Loop_todo ..
  · split
    · simp [Next.todo]
    · exact next1Loop_todo ..
  · split
    · simp [Next.todo, pendingRel]
    · exact next2Loop_todo ..
  · split
    · simp [Next.todo]
    · exact next2Loop_todo ..
  · simp [Next.todo]
  · split
    · simp [Next.todo, pendingRel]
    · exact next1Loop_todo ..
  · split
    · simp [Next.todo, pendingRel]
    · exact next2Loop_todo ..
  · split
    · simp [Next.todo, pendingRel]
    · exact idleLoop_todo ..
  · split
    · simp [Next.todo, pendingRel]
    · exact idleLoop_todo ..
  · exact idleLoop_todo ..
  · exact aliveLoop_todo ..
  · split
    · simp [Next.todo, pendingRel]
    · split <;> simp [Next.todo, pendingRel]
  · split <;> simp [Next.todo, pendingRel]
  · split
    · simp [Next.todo, pendingRel]
    · exact acqCIter_todo ..
  · exact acqCIter_todo ..
  · exact callLoop_todo ..
  · exact acqWLoop_todo ..

theorem start_todo (pw : Pid → List Wid) (p : Pid) (op : Op) (l : List Wid)
    (h : (start pw op).todo p = some l) : l = pw p := by
  cases op <;> simp only [start] at h
  · rw [acqAllLoop_todo] at h; exact absurd h (by simp)
  · rw [relAllLoop_todo] at h; simp at h
  · rw [next1Loop_todo] at h; exact absurd h (by simp)
  · simp [Next.todo, pendingRel] at h
  · rw [origLoop_todo] at h; exact absurd h (by simp)
  · rw [relAllLoop_todo] at h
    split at h
    · rename_i hq; simp at h; rw [← h, hq.2]
    · exact absurd h (by simp)
  · rw [idleLoop_todo] at h; exact absurd h (by simp)
  · simp [Next.todo, pendingRel] at h
  · rw [aliveLoop_todo] at h; exact absurd h (by simp)
  · split at h <;> simp [Next.todo, pendingRel] at h
  · rw [acqCLoop_todo] at h; exact absurd h (by simp)
  · simp [Next.todo, pendingRel] at h
  · rw [acqWLoop_todo] at h; exact absurd h (by simp)

/-- How one step inside `release` moves towards the write. -/
def RelOut (cl : Call) (W' : Wid → Worker) : Out → Prop
  | .goto pc' => isRel pc' = true ∧
      (beforeWr cl.pc = true → beforeWr pc' = true ∨ (W' cl.w).pool ≠ some cl.p)
  | .ret _ => beforeWr cl.pc = false

theorem mstep_rel {u : Wid → Bool} {W W' : Wid → Worker} {t : Tid} {cl : Call} {o : Out}
    (h : mstep u W t cl = some (W', o)) (hr : isRel cl.pc = true) : RelOut cl W' o := by
  cases hpc : cl.pc <;> simp only [hpc, isRel, Bool.false_eq_true] at hr
  case rEnter =>
    by_cases hf : (W cl.w).sl = none <;> simp [mstep, hpc, hf] at h
    obtain ⟨h1, h2⟩ := h; subst h1; subst h2
    cases cl.checked <;> simp [RelOut, isRel, beforeWr, hpc]
  case rRdLocked1 =>
    simp [mstep, hpc] at h
    obtain ⟨h1, h2⟩ := h; subst h1; subst h2
    cases (W cl.w).lock <;> simp [RelOut, isRel, beforeWr, hpc]
  case rRdPool =>
    simp [mstep, hpc] at h
    obtain ⟨h1, h2⟩ := h; subst h1; subst h2
    by_cases hp : (W cl.w).pool = some cl.p <;> simp [RelOut, isRel, beforeWr, hp, hpc]
  case rRdLocked2 =>
    simp [mstep, hpc] at h
    obtain ⟨h1, h2⟩ := h; subst h1; subst h2
    cases (W cl.w).lock <;> simp [RelOut, isRel, beforeWr, hpc]
  case rUnlock =>
    simp [mstep, hpc] at h
    obtain ⟨h1, h2⟩ := h; subst h1; subst h2
    simp [RelOut, isRel, beforeWr, hpc]
  case rWr =>
    simp [mstep, hpc] at h
    obtain ⟨h1, h2⟩ := h; subst h1; subst h2
    simp [RelOut, isRel, beforeWr, hpc]
  case rExit =>
    simp [mstep, hpc] at h
    obtain ⟨h1, h2⟩ := h; subst h1; subst h2
    simp [RelOut, beforeWr, hpc]

/-- The inductive invariant behind `C20_released_on_exit`, for a pool `p` driven by thread `t` alone. -/
structure ExitInv (pw : Pid → List Wid) (p : Pid) (t : Tid) (c : Cfg) : Prop where
  sole : ∀ t', t' ≠ t → NotActs (c.T t') p
  kok : ∀ t' cl k, (c.T t').cur = some (cl, k) → KOK cl k
  todo : ∀ l, (c.T t).todo p = some l → ∀ w ∈ pw p, (c.W w).pool = some p → w ∈ l

theorem ExitInv_init {pw : Pid → List Wid} {p : Pid} {t : Tid} {c : Cfg} (h : Init c)
    (hs : ∀ t', t' ≠ t → ∀ op ∈ (c.T t').script, op.pool ≠ p) : ExitInv pw p t c where
  sole := fun t' ht => ⟨hs t' ht, fun cl k hc => by simp [(h.2 t').1] at hc⟩
  kok := fun t' cl k hc => by simp [(h.2 t').1] at hc
  todo := fun l _ w _ hp => by simp [h.1 w] at hp

theorem ExitInv_step {pw : Pid → List Wid} {p : Pid} {t : Tid} {u : Wid → Bool} {c c' : Cfg} {s : Tid}
    (hE : ExitInv pw p t c) (h : step? pw u c s = some c') : ExitInv pw p t c' := by
  have hkok' : ∀ t' cl k, (c'.T t').cur = some (cl, k) → KOK cl k := by
    intro t' cl' k' hc
    by_cases ht : t' = s
    · subst ht
      rcases step_cases h with ⟨op, sc, _, _, hc'⟩ | ⟨cl, k, W', o, hcur, hm, hc'⟩ <;> subst hc'
      · simp only [upd_same] at hc
        exact (apply_KOK _ _ _ (start_ok pw op) cl' k' hc).1
      · simp only [upd_same] at hc
        have hk := hE.kok t' cl k hcur
        cases o with
        | goto pc =>
          simp [afterOut] at hc
          obtain ⟨h1, h2⟩ := hc; subst h1; subst h2
          refine ⟨hk.1, fun q rest f hq => ?_⟩
          have := mstep_rel hm (hk.2 q rest f hq)
          exact this.1
        | ret b => exact (apply_KOK _ _ _ (resume_ok k b) cl' k' hc).1
    · rw [step_other h ht] at hc; exact hE.kok t' cl' k' hc
  refine ⟨?_, hkok', ?_⟩
  · -- sole
    intro t' ht
    by_cases hts : t' = s
    · subst hts
      obtain ⟨hsc, hcu⟩ := hE.sole t' ht
      rcases step_cases h with ⟨op, sc, _, hs, hc'⟩ | ⟨cl, k, W', o, hcur, hm, hc'⟩ <;> subst hc'
      · simp only [upd_same]
        rw [hs] at hsc
        refine ⟨by rw [apply_script]; exact fun op' h' => hsc op' (by simp [h']), ?_⟩
        intro cl' k' hc
        rw [(apply_KOK _ _ _ (start_ok pw op) cl' k' hc).2]
        exact hsc op (by simp)
      · simp only [upd_same]
        cases o with
        | goto pc =>
          refine ⟨hsc, ?_⟩
          intro cl' k' hc; simp [afterOut] at hc; rw [← hc.2]; exact hcu cl k hcur
        | ret b =>
          refine ⟨by simp only [afterOut, apply_script]; exact hsc, ?_⟩
          intro cl' k' hc
          rw [(apply_KOK _ _ _ (resume_ok k b) cl' k' hc).2]
          exact hcu cl k hcur
    · rw [step_other h hts]; exact hE.sole t' ht
  · -- todo
    intro l hl w hw hp'
    by_cases hts : s = t
    · subst hts
      rcases step_cases h with ⟨op, sc, _, _, hc'⟩ | ⟨cl, k, W', o, hcur, hm, hc'⟩ <;> subst hc'
      · simp only [upd_same, todo_apply] at hl
        rw [start_todo pw p op l hl]; exact hw
      · simp only [upd_same] at hl
        have hk := hE.kok s cl k hcur
        -- is the thread inside a finaliser of p?
        cases hpr : pendingRel p cl k with
        | none =>
          -- no: it cannot become one by a method step
          exfalso
          cases o with
          | goto pc =>
            simp only [afterOut, Thread.todo] at hl
            cases k with
            | relAll q rest fin => cases fin <;> simp_all [pendingRel]
            | _ => simp_all [pendingRel]
          | ret b =>
            simp only [afterOut, todo_apply, resume_todo] at hl
            cases k with
            | relAll q rest fin => cases fin <;> simp_all [pendingRel]
            | _ => simp_all [pendingRel]
        | some l0 =>
          -- yes: k = relAll p rest true
          cases k with
          | relAll q rest fin =>
            cases fin with
            | false => simp [pendingRel] at hpr
            | true =>
              have hq : q = p := by
                by_cases hq : q = p
                · exact hq
                · simp [pendingRel, hq] at hpr
              subst hq
              have hclp : cl.p = q := hk.1
              have hrel := hk.2 q rest true rfl
              have hold := hE.todo l0 (by simp [Thread.todo, hcur, hpr]) w hw
              simp only [pendingRel, if_true] at hpr
              have hspec := mstep_rel hm hrel
              -- the owner of w before the step
              have hpool : (c.W w).pool = some q ∨ (W' w).pool ≠ some q := by
                rcases mstep_pool hm w with h1 | ⟨_, h2⟩
                · rw [h1] at hp'; exact Or.inl hp'
                · rcases h2 with ⟨hpc, _⟩ | ⟨_, hn⟩
                  · rw [hpc] at hrel; simp [isRel] at hrel
                  · right; rw [hn]; simp
              rcases hpool with hpool | hpool
              · have hmem := hold hpool
                cases o with
                | goto pc =>
                  simp only [afterOut, Thread.todo, pendingRel, if_true, Option.some.injEq] at hl
                  subst hl
                  simp only [Option.some.injEq] at hpr; subst hpr
                  by_cases hb : beforeWr cl.pc = true
                  · simp only [hb, if_true, List.mem_cons] at hmem
                    rcases hmem with hmem | hmem
                    · rcases hspec.2 hb with h3 | h3
                      · simp [h3, hmem]
                      · rw [hmem] at hp'; rw [hclp] at h3; exact absurd hp' h3
                    · split <;> simp [hmem]
                  · simp only [hb, if_false, Bool.false_eq_true] at hmem
                    split <;> simp [hmem]
                | ret b =>
                  simp only [afterOut, todo_apply, resume_todo, if_true, Option.some.injEq] at hl
                  subst hl
                  simp only [Option.some.injEq] at hpr; subst hpr
                  have hb : beforeWr cl.pc = false := hspec
                  simp only [hb, Bool.false_eq_true, if_false] at hmem
                  exact hmem
              · exact absurd hp' hpool
          | _ => simp [pendingRel] at hpr
    · -- another thread moves: it cannot make p the owner of anything
      have hT : c'.T t = c.T t := step_other h (Ne.symm hts)
      rw [hT] at hl
      refine hE.todo l hl w hw ?_
      rcases step_pool h w with h1 | ⟨cl, k, hcur, _, h2⟩
      · rw [← h1]; exact hp'
      · exfalso
        rcases h2 with ⟨_, hn⟩ | ⟨_, hn⟩
        · rw [hn] at hp'
          have := (hE.sole s hts).2 cl k hcur
          rw [← (hE.kok s cl k hcur).1] at this
          exact this (Option.some.inj hp')
        · rw [hn] at hp'; simp at hp'

theorem ExitInv_reach {pw : Pid → List Wid} {p : Pid} {t : Tid} {c0 c : Cfg} (h0 : Init c0)
    (hs : ∀ t', t' ≠ t → ∀ op ∈ (c0.T t').script, op.pool ≠ p) (h : Reach pw c0 c) :
    ExitInv pw p t c := by
  induction h with
  | refl => exact ExitInv_init h0 hs
  | step _ hst ih => obtain ⟨s, u, hst⟩ := hst; exact ExitInv_step ih hst

/-- Every replayed schedule stays inside `Reach` (each entry carries its own oracle value). -/
theorem Reach_runSched {pw : Pid → List Wid} {c0 : Cfg} (sched : List (Tid × (Wid → Bool))) :
    ∀ c, Reach pw c0 c → Reach pw c0 (runSched pw c sched) := by
  induction sched with
  | nil => intro c h; exact h
  | cons e es ih =>
    intro c h
    obtain ⟨t, u⟩ := e
    simp only [runSched]
    cases hs : step? pw u c t with
    | none => simpa using ih c h
    | some c' => simpa using ih c' (Reach.step h ⟨t, u, hs⟩)

/-- Only the program points `cExit` / `iExit` (the values returned by `has_capacity` and `is_alive`,
evaluated by `next_idle_worker` / `idle_workers`) consult the capacity/liveness oracle;
`acquire_by`, `release`, `is_available`, `is_locked`, `call` do not. -/
theorem mstep_oracle_irrelevant (u u' : Wid → Bool) (W : Wid → Worker) (t : Tid) (cl : Call)
    (h : cl.pc ≠ .cExit) (h' : cl.pc ≠ .iExit) : mstep u W t cl = mstep u' W t cl := by
  unfold mstep
  cases hpc : cl.pc <;> simp_all

end MlModel.Owner
