import MlModel.Generated.Scalar
import MlModel.Lemmas.AggRollingMeanVar
import MlModel.Model.Agg.RollingSimple
import MlModel.Model.Agg.Retrieval
import MlModel.Model.Agg.RetrievalThr
/-!
# Bridges between the GENERATED scalar definitions and the hand models

`Generated/Scalar.lean` (written by `translate/scalar.py` on every run) works on records of floats
(`F = Option Rat`); the hand models keep counts as `Nat` and NaN-free sums as `Rat`.  `ofCol`, `ofTjur`, …
embed a hand-model state into the generated record type; every embedding is injective.
-/
namespace MlModel.Gen
open MlModel.Agg.Rolling MlModel.Generated

/-- a `Col` of the hand model as the generated `MeanAndVariance` record -/
def ofCol (c : Col) : Scalar.MeanAndVariance := ⟨some (c.count : Rat), c.mean, c.var⟩
/-- … and as the generated `Mean` record (no `_var`) -/
def ofColMean (c : Col) : Scalar.Mean := ⟨some (c.count : Rat), c.mean⟩
def ofTjur (s : Tjur) : Scalar.R2TjurBase :=
  ⟨some s.sumYTrue, some s.sumYPred, some s.sumNegYTrue, some s.sumNegYPred⟩
def ofRReg (center : Bool) (s : RReg) : Scalar.RRegression :=
  ⟨some (s.n : Rat), some s.sumX, some s.sumY, some s.sumXX, some s.sumYY, some s.sumXY, center⟩
def ofSPD (s : SPD) : Scalar.SymmetricPredictionDifference := ⟨some (s.n : Rat), some s.sumHalf⟩
def ofMeanState (s : MeanState) : Scalar.MeanState := ⟨some s.total, some (s.count : Rat)⟩

theorem ofCol_injective : Function.Injective ofCol := by
  intro a b h
  cases a; cases b
  simp only [ofCol, Scalar.MeanAndVariance.mk.injEq, Option.some.injEq, Nat.cast_inj] at h
  obtain ⟨h1, h2, h3⟩ := h
  subst h1 h2 h3; rfl

/-! ## primitives -/

@[simp] theorem fsafeDivide_some (a b : Rat) : fsafeDivide (some a) (some b) = some (safeDivide a b) := by
  simp only [fsafeDivide, safeDivide]; split <;> rfl
@[simp] theorem fsub_some (a b : Rat) : fsub (some a) (some b) = some (a - b) := rfl
@[simp] theorem flit_eq (n : Nat) : flit n = some (n : Rat) := rfl
@[simp] theorem fdiv_some (a b : Rat) : fdiv (some a) (some b) = if b = 0 then none else some (a / b) := rfl
@[simp] theorem feq_some (a b : Rat) : feq (some a) (some b) = decide (a = b) := rfl
@[simp] theorem fgt_some (a b : Rat) : fgt (some a) (some b) = decide (b < a) := rfl

/-- `math_utils.nanadd`, generated from its Python body, is the hand model's `nanadd` -/
theorem nanadd_eq (a b : F) : Scalar.nanadd a b = nanadd a b := by
  cases a <;> cases b <;> simp [Scalar.nanadd, nanadd, fwhere, fisnan, fadd]

/-! ## `Mean.merge` / `MeanAndVariance.merge` -/

/-- generated `Mean.merge`, guard not firing = `Col.mergeMean` -/
theorem mean_merge_eq (a b : Col) :
    Scalar.Mean_merge false (ofColMean a) (ofColMean b) = ofColMean (a.mergeMean b) := by
  simp [Scalar.Mean_merge, ofColMean, Col.mergeMean, nanadd_eq, Nat.cast_add]

theorem mean_merge_guard (s o : Scalar.Mean) : Scalar.Mean_merge true s o = s := by
  simp [Scalar.Mean_merge]

/-- generated `MeanAndVariance.merge`, first two guards not firing = one column of `MV.mergeCore` -/
theorem meanvar_merge_step (selfNan : Bool) (a b : Col) :
    Scalar.MeanAndVariance_merge false false selfNan (ofCol a) (ofCol b)
      = ofCol (Col.step true selfNan a b) := by
  cases selfNan <;>
    simp [Scalar.MeanAndVariance_merge, ofCol, Col.step, Col.mergeMean, Col.mergeVar, nanadd_eq, Nat.cast_add]

theorem meanvar_merge_guard (g2 g3 : Bool) (s o : Scalar.MeanAndVariance) :
    Scalar.MeanAndVariance_merge true g2 g3 s o = s := by
  simp [Scalar.MeanAndVariance_merge]

/-! ## retrieval: `Q` of `Model/Agg/Retrieval.lean` is the same float type, with the same primitives -/

open MlModel.Agg.Retrieval in
theorem qdiv_eq (a b : F) : Q.div a b = fdiv a b := by cases a <;> cases b <;> rfl
open MlModel.Agg.Retrieval in
theorem qmul_eq (a b : F) : Q.mul a b = fmul a b := by cases a <;> cases b <;> rfl
open MlModel.Agg.Retrieval in
theorem qadd_eq (a b : F) : Q.add a b = fadd a b := by cases a <;> cases b <;> rfl
open MlModel.Agg.Retrieval in
theorem qsub_eq (a b : F) : Q.sub a b = fsub a b := by cases a <;> cases b <;> rfl
open MlModel.Agg.Retrieval in
theorem qsafeDiv_eq (a b : F) : Q.safeDiv a b = fsafeDivide a b := by
  cases a <;> cases b <;> simp [Q.safeDiv, fsafeDivide, Q.div] <;> split <;> simp_all

theorem fmin_nat (a b : Nat) : fmin (some (a : Rat)) (some (b : Rat)) = some ((min a b : Nat) : Rat) := by
  simp only [fmin, Option.some.injEq]
  by_cases h : a ≤ b
  · have : ((a : Nat) : Rat) ≤ b := by exact_mod_cast h
    simp [this, Nat.min_eq_left h]
  · have h' : b ≤ a := by omega
    have : ¬ ((a : Nat) : Rat) ≤ b := by
      intro hh; exact h (by exact_mod_cast hh)
    simp [this, Nat.min_eq_right h']

end MlModel.Gen
