import MlModel.Model.Agg.RetrievalHeap
import MlModel.Lemmas.RetrievalBatch
/-!
# Separation, frame and refinement for the object-level `MeanState` model
-/
namespace MlModel.Agg.Retrieval.Heap
open MlModel.Agg.Retrieval

/-- **separation**: array references are in bounds and no two `MeanState` objects share an array -/
structure Sep (w : World) : Prop where
  bound : ∀ (i : Nat) (o : Obj) (r : Nat), w.objs[i]? = some o → o.total = .arr r → r < w.heap.length
  sep : ∀ (i j : Nat) (oi oj : Obj) (r : Nat), w.objs[i]? = some oi → w.objs[j]? = some oj →
    oi.total = .arr r → oj.total = .arr r → i = j

/-- object `i` owns cell `r` -/
def World.owns (w : World) (i r : Nat) : Prop := ∃ o, w.objs[i]? = some o ∧ o.total = .arr r

theorem mergeInto_objs_ne (w : World) (i : Nat) (x : Option (List V)) (n : Nat) (l : Nat) (hl : l ≠ i) :
    (w.mergeInto i x n).objs[l]? = w.objs[l]? := by
  unfold World.mergeInto
  cases hi : w.objs[i]? with
  | none => rfl
  | some o =>
    rcases o with ⟨t, c⟩
    cases t <;> cases x <;> simp [Ne.symm hl]

theorem mergeInto_objs_length (w : World) (i : Nat) (x : Option (List V)) (n : Nat) :
    (w.mergeInto i x n).objs.length = w.objs.length := by
  unfold World.mergeInto
  cases hi : w.objs[i]? with
  | none => rfl
  | some o => rcases o with ⟨t, c⟩; cases t <;> cases x <;> simp

theorem mergeInto_heap_length (w : World) (i : Nat) (x : Option (List V)) (n : Nat) :
    w.heap.length ≤ (w.mergeInto i x n).heap.length := by
  unfold World.mergeInto
  cases hi : w.objs[i]? with
  | none => exact Nat.le_refl _
  | some o => rcases o with ⟨t, c⟩; cases t <;> cases x <;> simp

/-- **frame** of one `+=`: every existing array cell the receiver does not own keeps its contents -/
theorem mergeInto_heap_frame (w : World) (i : Nat) (x : Option (List V)) (n : Nat) (r : Nat)
    (hr : r < w.heap.length) (hown : ¬ w.owns i r) :
    (w.mergeInto i x n).heap[r]? = w.heap[r]? := by
  unfold World.mergeInto
  cases hi : w.objs[i]? with
  | none => rfl
  | some o =>
    rcases o with ⟨t, c⟩
    cases t with
    | zero => cases x <;> simp [List.getElem?_append_left hr]
    | arr r' =>
      have hne : r' ≠ r := by
        intro h; subst h; exact hown ⟨_, hi, rfl⟩
      cases x <;> simp [hne]

/-- the receiver after `+=` -/
theorem mergeInto_objs_self (w : World) (i : Nat) (x : Option (List V)) (n : Nat) (o : Obj)
    (hi : w.objs[i]? = some o) :
    ∃ t, (w.mergeInto i x n).objs[i]? = some ⟨t, o.count + n⟩ ∧
      (t = o.total ∨ (o.total = .zero ∧ t = .arr w.heap.length ∧ x.isSome)) := by
  have hlt : i < w.objs.length := by
    rcases Nat.lt_or_ge i w.objs.length with h | h
    · exact h
    · rw [List.getElem?_eq_none h] at hi; cases hi
  unfold World.mergeInto
  rw [hi]
  rcases o with ⟨t, c⟩
  cases t with
  | zero =>
    cases x with
    | none => exact ⟨.zero, by simp [hlt], Or.inl rfl⟩
    | some v => exact ⟨.arr w.heap.length, by simp [hlt], Or.inr ⟨rfl, rfl, rfl⟩⟩
  | arr r => cases x <;> exact ⟨.arr r, by simp [hlt], Or.inl rfl⟩

theorem mergeInto_sep (w : World) (i : Nat) (x : Option (List V)) (n : Nat) (h : Sep w) :
    Sep (w.mergeInto i x n) := by
  cases hi : w.objs[i]? with
  | none =>
    have : w.mergeInto i x n = w := by unfold World.mergeInto; rw [hi]
    rw [this]; exact h
  | some o =>
    obtain ⟨t, hself, ht⟩ := mergeInto_objs_self w i x n o hi
    have hlen := mergeInto_heap_length w i x n
    -- the reference of every object after the step: old one, or the fresh cell for `i`
    have key : ∀ l o' r, (w.mergeInto i x n).objs[l]? = some o' → o'.total = .arr r →
        (∃ o'', w.objs[l]? = some o'' ∧ o''.total = .arr r) ∨ (l = i ∧ r = w.heap.length ∧ o.total = .zero) := by
      intro l o' r hl hr
      by_cases hli : l = i
      · subst hli
        rw [hself] at hl
        cases hl
        rcases ht with ht | ⟨hz, ht, _⟩
        · left; exact ⟨o, hi, by rw [← ht]; exact hr⟩
        · right
          simp only at hr
          rw [ht] at hr
          cases hr
          exact ⟨rfl, rfl, hz⟩
      · rw [mergeInto_objs_ne w i x n l hli] at hl
        left; exact ⟨o', hl, hr⟩
    have hgrow : o.total = .zero → x.isSome → w.heap.length < (w.mergeInto i x n).heap.length := by
      intro hz hx
      unfold World.mergeInto
      rw [hi]
      rcases o with ⟨t, c⟩
      simp only at hz
      subst hz
      cases x with
      | none => cases hx
      | some v => simp
    constructor
    · intro l o' r hl hr
      rcases key l o' r hl hr with ⟨o'', h1, h2⟩ | ⟨hli, hr', hz⟩
      · exact Nat.lt_of_lt_of_le (h.bound l o'' r h1 h2) hlen
      · subst hli; subst hr'
        rw [hself] at hl; cases hl
        rcases ht with ht | ⟨_, _, hx⟩
        · simp only at hr; rw [ht, hz] at hr; cases hr
        · exact hgrow hz hx
    · intro l j ol oj r hl hj hrl hrj
      rcases key l ol r hl hrl with ⟨ol', h1, h2⟩ | ⟨hli, hr', _⟩
      · rcases key j oj r hj hrj with ⟨oj', h3, h4⟩ | ⟨_, hr'', _⟩
        · exact h.sep l j ol' oj' r h1 h3 h2 h4
        · have := h.bound l ol' r h1 h2
          omega
      · rcases key j oj r hj hrj with ⟨oj', h3, h4⟩ | ⟨hji, _, _⟩
        · have := h.bound j oj' r h3 h4
          omega
        · rw [hli, hji]

/-- the value-level view of every *other* object is untouched by `objs[i] += …` -/
theorem mergeInto_cell_ne (w : World) (nk : Nat) (i : Nat) (x : Option (List V)) (n : Nat) (h : Sep w)
    (l : Nat) (hl : l ≠ i) : (w.mergeInto i x n).cell nk l = w.cell nk l := by
  unfold World.cell
  rw [mergeInto_objs_ne w i x n l hl]
  cases hol : w.objs[l]? with
  | none => rfl
  | some ol =>
    simp only [Option.map_some, Option.some.injEq, MeanCell.mk.injEq, and_true]
    cases htl : ol.total with
    | zero => rfl
    | arr r =>
      simp only
      have hr := h.bound l ol r hol htl
      have hown : ¬ w.owns i r := by
        rintro ⟨o, hio, hto⟩
        exact hl (h.sep l i ol o r hol hio htl hto)
      have := mergeInto_heap_frame w i x n r hr hown
      simp [List.getD_eq_getElem?_getD, this]

theorem step_sep (w : World) (op : Op) (h : Sep w) : Sep (w.step op) := by
  cases op with
  | new =>
    constructor
    · intro i o r hi hr
      simp only [World.step] at hi ⊢
      rcases Nat.lt_or_ge i w.objs.length with hlt | hge
      · rw [List.getElem?_append_left hlt] at hi
        exact h.bound i o r hi hr
      · rw [List.getElem?_append_right hge] at hi
        cases hsub : i - w.objs.length with
        | zero => rw [hsub] at hi; simp at hi; subst hi; cases hr
        | succ k => rw [hsub] at hi; simp at hi
    · intro i j oi oj r hi hj hri hrj
      simp only [World.step] at hi hj
      have old : ∀ (i : Nat) (o : Obj), (w.objs ++ [⟨Total.zero, 0⟩])[i]? = some o → o.total = .arr r → w.objs[i]? = some o := by
        intro i o hi hr
        rcases Nat.lt_or_ge i w.objs.length with hlt | hge
        · rwa [List.getElem?_append_left hlt] at hi
        · rw [List.getElem?_append_right hge] at hi
          cases hsub : i - w.objs.length with
          | zero => rw [hsub] at hi; simp at hi; subst hi; cases hr
          | succ k => rw [hsub] at hi; simp at hi
      exact h.sep i j oi oj r (old i oi hi hri) (old j oj hj hrj) hri hrj
  | add i nk inputs => exact mergeInto_sep w i _ _ h
  | merge i j =>
    simp only [World.step]
    cases w.objs[j]? with
    | none => exact h
    | some o => exact mergeInto_sep w i _ _ h

/-- **separation is an invariant of every history** -/
theorem run_sep (w : World) (ops : List Op) (h : Sep w) : Sep (w.run ops) := by
  induction ops generalizing w with
  | nil => exact h
  | cons op ops ih => exact ih (w.step op) (step_sep w op h)

theorem empty_sep : Sep World.empty := by
  constructor <;> intro i <;> simp [World.empty]

/-- the object an operation writes to (`new` creates an object and writes to none) -/
def Op.target : Op → Option Nat
  | .new => none
  | .add i _ _ => some i
  | .merge i _ => some i

theorem step_cell_frame (w : World) (nk : Nat) (op : Op) (h : Sep w) (l : Nat) (hl : l < w.objs.length)
    (ht : op.target ≠ some l) : (w.step op).cell nk l = w.cell nk l := by
  cases op with
  | new =>
    simp only [World.step, World.cell]
    rw [List.getElem?_append_left hl]
  | add i nk' inputs =>
    exact mergeInto_cell_ne w nk i _ _ h l (by intro e; apply ht; simp [Op.target, e])
  | merge i j =>
    simp only [World.step]
    cases w.objs[j]? with
    | none => rfl
    | some o => exact mergeInto_cell_ne w nk i _ _ h l (by intro e; apply ht; simp [Op.target, e])

theorem step_objs_length (w : World) (op : Op) : w.objs.length ≤ (w.step op).objs.length := by
  cases op with
  | new => simp [World.step]
  | add i nk inputs => simp [World.step, mergeInto_objs_length]
  | merge i j =>
    simp only [World.step]
    cases w.objs[j]? with
    | none => exact Nat.le_refl _
    | some o => simp [mergeInto_objs_length]

/-- **no leak, for every history**: an object that no operation of `ops` writes to reports the
same value after `ops` — whatever else happened to other objects, including merges that read it -/
theorem run_cell_frame (w : World) (nk : Nat) (ops : List Op) (h : Sep w) (l : Nat)
    (hl : l < w.objs.length) (ht : ∀ op ∈ ops, op.target ≠ some l) :
    (w.run ops).cell nk l = w.cell nk l := by
  induction ops generalizing w with
  | nil => rfl
  | cons op ops ih =>
    simp only [World.run, List.foldl_cons]
    have := ih (w.step op) (step_sep w op h) (Nat.lt_of_lt_of_le hl (step_objs_length w op))
      (fun op' hop' => ht op' (by simp [hop']))
    simp only [World.run] at this
    rw [this, step_cell_frame w nk op h l hl (ht op (by simp))]


/-! ## refinement: the object-level steps compute the value-level `MeanCell.merge` -/

/-- every array cell is a vector over the `nk` Ks -/
def Typed (nk : Nat) (w : World) : Prop := ∀ (r : Nat) (v : List V), w.heap[r]? = some v → v.length = nk

theorem map_zero_add (v : List V) : v.map (V.add V.zero) = v := by
  induction v with
  | nil => rfl
  | cons x xs ih => simp [V.zero_add, ih]

theorem map_add_zero (v : List V) : (v.map fun a => V.add a V.zero) = v := by
  induction v with
  | nil => rfl
  | cons x xs ih => simp [V.add_zero]

theorem getD_typed (nk : Nat) (w : World) (hty : Typed nk w) (r : Nat) (hr : r < w.heap.length) :
    (w.heap.getD r []).length = nk := by
  have : w.heap[r]? = some (w.heap[r]) := List.getElem?_eq_getElem hr
  rw [List.getD_eq_getElem?_getD, this]
  exact hty r _ this

/-- `objs[i] += (x, n)` is `MeanCell.merge` on the value-level view of object `i` -/
theorem mergeInto_cell_self (w : World) (nk : Nat) (i : Nat) (x : Option (List V)) (n : Nat)
    (h : Sep w) (hty : Typed nk w) (hx : ∀ v, x = some v → v.length = nk) :
    (w.mergeInto i x n).cell nk i =
      (w.cell nk i).map fun c => MeanCell.merge c ⟨x.getD (List.replicate nk V.zero), n⟩ := by
  cases hi : w.objs[i]? with
  | none =>
    have : w.mergeInto i x n = w := by unfold World.mergeInto; rw [hi]
    rw [this]; simp [World.cell, hi]
  | some o =>
    have hlt : i < w.objs.length := by
      rcases Nat.lt_or_ge i w.objs.length with h' | h'
      · exact h'
      · rw [List.getElem?_eq_none h'] at hi; cases hi
    rcases o with ⟨t, c⟩
    cases t with
    | zero =>
      have hcell : w.cell nk i = some ⟨List.replicate nk V.zero, c⟩ := by simp [World.cell, hi]
      rw [hcell]
      unfold World.mergeInto
      rw [hi]
      cases x with
      | none =>
        simp only [World.cell, List.getElem?_set_self hlt, Option.map_some, Option.getD_none,
          MeanCell.merge, zero_vecAdd nk _ (List.length_replicate)]
      | some v =>
        have hv := hx v rfl
        simp only [World.cell, List.getElem?_set_self hlt, Option.map_some, Option.getD_some,
          MeanCell.merge, zero_vecAdd nk v hv, map_zero_add]
        simp
    | arr r =>
      have hcell : w.cell nk i = some ⟨w.heap.getD r [], c⟩ := by simp [World.cell, hi]
      rw [hcell]
      unfold World.mergeInto
      rw [hi]
      have hr : r < w.heap.length := h.bound i _ r hi rfl
      have hlen := getD_typed nk w hty r hr
      cases x with
      | none =>
        simp only [World.cell, List.getElem?_set_self hlt, Option.map_some, Option.getD_none,
          MeanCell.merge, map_add_zero, vecAdd_zero nk _ hlen]
        simp [List.getD_eq_getElem?_getD, List.getElem?_set_self hr]
      | some v =>
        simp only [World.cell, List.getElem?_set_self hlt, Option.map_some, Option.getD_some,
          MeanCell.merge]
        simp [List.getD_eq_getElem?_getD, List.getElem?_set_self hr]

theorem mergeInto_typed (w : World) (nk : Nat) (i : Nat) (x : Option (List V)) (n : Nat)
    (h : Sep w) (hty : Typed nk w) (hx : ∀ v, x = some v → v.length = nk) :
    Typed nk (w.mergeInto i x n) := by
  cases hi : w.objs[i]? with
  | none =>
    have : w.mergeInto i x n = w := by unfold World.mergeInto; rw [hi]
    rw [this]; exact hty
  | some o =>
    rcases o with ⟨t, c⟩
    intro r v hr
    cases t with
    | zero =>
      cases x with
      | none => simp only [World.mergeInto, hi] at hr; exact hty r v hr
      | some x' =>
        simp only [World.mergeInto, hi] at hr
        rcases Nat.lt_or_ge r w.heap.length with hlt | hge
        · rw [List.getElem?_append_left hlt] at hr; exact hty r v hr
        · rw [List.getElem?_append_right hge] at hr
          cases hsub : r - w.heap.length with
          | zero =>
            rw [hsub] at hr
            simp only [List.getElem?_cons_zero, Option.some.injEq] at hr
            rw [← hr, map_zero_add]; exact hx x' rfl
          | succ k => rw [hsub] at hr; simp at hr
    | arr r' =>
      have hr' : r' < w.heap.length := h.bound i _ r' hi rfl
      have hlen := getD_typed nk w hty r' hr'
      cases x with
      | none =>
        simp only [World.mergeInto, hi] at hr
        by_cases e : r' = r
        · subst e
          rw [List.getElem?_set_self hr'] at hr
          cases hr
          rw [map_add_zero]; exact hlen
        · rw [List.getElem?_set_ne e] at hr; exact hty r v hr
      | some x' =>
        simp only [World.mergeInto, hi] at hr
        by_cases e : r' = r
        · subst e
          rw [List.getElem?_set_self hr'] at hr
          cases hr
          rw [vecAdd_length, hlen, hx x' rfl]; omega
        · rw [List.getElem?_set_ne e] at hr; exact hty r v hr

/-- the value-level world: one `MeanCell` per object -/
def pureStep (nk : Nat) (cells : List MeanCell) : Op → List MeanCell
  | .new => cells ++ [⟨List.replicate nk V.zero, 0⟩]
  | .add i _ inputs =>
    match cells[i]? with
    | none => cells
    | some c => cells.set i (MeanCell.merge c (MeanCell.new nk inputs))
  | .merge i j =>
    match cells[i]?, cells[j]? with
    | some ci, some cj => cells.set i (MeanCell.merge ci cj)
    | _, _ => cells

/-- an operation whose arrays are vectors over the `nk` Ks -/
def Op.Typed (nk : Nat) : Op → Prop
  | .new => True
  | .add _ nk' inputs => nk' = nk ∧ ∀ row ∈ inputs, row.length = nk
  | .merge _ _ => True

theorem batchOf_eq (nk : Nat) (inputs : List (List V)) :
    (⟨(batchOf nk inputs).1.getD (List.replicate nk V.zero), (batchOf nk inputs).2⟩ : MeanCell) =
      MeanCell.new nk inputs := by
  cases inputs <;> simp [batchOf, MeanCell.new]

/-- the invariant tying the two worlds -/
structure Refines (nk : Nat) (w : World) (cells : List MeanCell) : Prop where
  sep : Sep w
  typed : Typed nk w
  len : w.objs.length = cells.length
  cell : ∀ l, w.cell nk l = cells[l]?

theorem cell_eq_none_iff (w : World) (nk l : Nat) : w.cell nk l = none ↔ w.objs[l]? = none := by
  simp [World.cell]

theorem step_refines (nk : Nat) (w : World) (cells : List MeanCell) (op : Op) (hop : op.Typed nk)
    (h : Refines nk w cells) : Refines nk (w.step op) (pureStep nk cells op) := by
  cases op with
  | new =>
    refine ⟨step_sep w .new h.sep, ?_, by simp [World.step, pureStep, h.len], ?_⟩
    · intro r v hr; exact h.typed r v hr
    · intro l
      have hc := h.cell l
      simp only [World.step, pureStep, World.cell] at hc ⊢
      rcases Nat.lt_or_ge l w.objs.length with hlt | hge
      · rw [List.getElem?_append_left hlt, List.getElem?_append_left (by rw [← h.len]; exact hlt)]
        exact hc
      · rw [List.getElem?_append_right hge, List.getElem?_append_right (by rw [← h.len]; exact hge), h.len]
        cases hsub : l - cells.length with
        | zero => simp
        | succ k => simp
  | add i nk' inputs =>
    obtain ⟨rfl, hrows⟩ := hop
    have hx : ∀ v, (batchOf nk' inputs).1 = some v → v.length = nk' := by
      intro v hv
      cases inputs with
      | nil => simp [batchOf] at hv
      | cons a as =>
        simp only [batchOf, Option.some.injEq] at hv
        rw [← hv]
        exact foldl_vecAdd_length nk' _ _ (by simp) hrows
    refine ⟨step_sep w _ h.sep, mergeInto_typed w nk' i _ _ h.sep h.typed hx, ?_, ?_⟩
    · simp only [World.step, pureStep, mergeInto_objs_length, h.len]
      cases cells[i]? <;> simp
    · intro l
      simp only [World.step, pureStep]
      by_cases hl : l = i
      · subst hl
        rw [mergeInto_cell_self w nk' l _ _ h.sep h.typed hx, h.cell l, batchOf_eq]
        cases hcl : cells[l]? with
        | none => simp [hcl]
        | some c =>
          have hlt : l < cells.length := by
            rcases Nat.lt_or_ge l cells.length with h' | h'
            · exact h'
            · rw [List.getElem?_eq_none h'] at hcl; cases hcl
          simp [hlt]
      · rw [mergeInto_cell_ne w nk' i _ _ h.sep l hl, h.cell l]
        cases hci : cells[i]? with
        | none => rfl
        | some c => simp [List.getElem?_set_ne (Ne.symm hl)]
  | merge i j =>
    simp only [World.step, pureStep]
    have hcj := h.cell j
    cases hoj : w.objs[j]? with
    | none =>
      have : cells[j]? = none := by rw [← hcj]; simp [World.cell, hoj]
      rw [this]
      cases cells[i]? <;> exact h
    | some oj =>
      have hjc : cells[j]? = some ⟨(w.read oj.total).getD (List.replicate nk V.zero), oj.count⟩ := by
        rw [← hcj]
        simp only [World.cell, hoj, Option.map_some, World.read]
        cases oj.total <;> rfl
      have hx : ∀ v, w.read oj.total = some v → v.length = nk := by
        intro v hv
        cases ht : oj.total with
        | zero => rw [ht] at hv; cases hv
        | arr r =>
          rw [ht] at hv
          simp only [World.read, Option.some.injEq] at hv
          rw [← hv]
          exact getD_typed nk w h.typed r (h.sep.bound j oj r hoj ht)
      refine ⟨mergeInto_sep w i _ _ h.sep, mergeInto_typed w nk i _ _ h.sep h.typed hx, ?_, ?_⟩
      · rw [mergeInto_objs_length, h.len, hjc]
        cases cells[i]? <;> simp
      · intro l
        by_cases hl : l = i
        · subst hl
          rw [mergeInto_cell_self w nk l _ _ h.sep h.typed hx, h.cell l, hjc]
          cases hcl : cells[l]? with
          | none => simp [hcl]
          | some c =>
            have hlt : l < cells.length := by
              rcases Nat.lt_or_ge l cells.length with h' | h'
              · exact h'
              · rw [List.getElem?_eq_none h'] at hcl; cases hcl
            simp [hlt]
        · rw [mergeInto_cell_ne w nk i _ _ h.sep l hl, h.cell l, hjc]
          cases hci : cells[i]? with
          | none => rfl
          | some c => simp [List.getElem?_set_ne (Ne.symm hl)]

theorem empty_refines (nk : Nat) : Refines nk World.empty [] :=
  ⟨empty_sep, by intro r v hr; simp [World.empty] at hr, rfl, by intro l; simp [World.cell, World.empty]⟩

/-- **refinement for every history** -/
theorem run_refines (nk : Nat) (ops : List Op) (hops : ∀ op ∈ ops, op.Typed nk) (w : World)
    (cells : List MeanCell) (h : Refines nk w cells) :
    Refines nk (w.run ops) (ops.foldl (pureStep nk) cells) := by
  induction ops generalizing w cells with
  | nil => exact h
  | cons op ops ih =>
    simp only [World.run, List.foldl_cons]
    exact ih (fun op' hop' => hops op' (by simp [hop'])) _ _
      (step_refines nk w cells op (hops op (by simp)) h)

end MlModel.Agg.Retrieval.Heap
