import MlModel.Lemmas.QueueProd
import MlModel.Lemmas.PrefetchOne
/-!
# The prefetch protocol with arbitrary concurrent requests: provenance of every reply

`GInv` holds in every reachable configuration of `init p progs` for ANY list of request threads
(clients, init/next/stop/shutdown requests, in any number) and any schedule:
* every element ever put into the k-th queue was put by a prefetch thread of that queue (`QOK.tags`)
  and the queue is FIFO (`QOK.fifo`);
* whatever a request holds while it is inside `get_batch` was dequeued from the queue it read at its start;
* hence all elements of every reply come from the prefetch thread of that one queue (`ReplyOK`).
-/
namespace MlModel.Prefetch
open MlModel.Queue (Elem TOK seqOf pendPc)

/-- `tid` is a prefetch thread of the k-th queue -/
def IsProd (ths : List Thread) (k : Nat) (tid : Queue.Tid) : Prop :=
  ∃ tp, ths[tid]? = some tp ∧ tp.prog = .producer k

/-- all elements of a reply were enqueued by a prefetch thread of the queue the request worked on -/
def ReplyOK (ths : List Thread) (r : Reply) : Prop :=
  ∀ k, r.g = some k → ∀ e ∈ r.elems, IsProd ths k e.1

structure QOK (ths : List Thread) (k : Nat) (q : Queue.Shared) : Prop where
  fifo : q.produced = q.dequeued ++ q.q
  tags : ∀ e ∈ q.produced, IsProd ths k e.1

/-- the embedded queue-level thread fits the program point -/
def EmbOK (s : Shared) (tid : Queue.Tid) (t : Thread) : Prop :=
  match t.pc with
  | .nbGet => ∃ q, s.qs[t.g]? = some q ∧ (∃ n b, t.qt.prog = .batchLoop n b) ∧ TOK t.qt ∧
      (∀ e ∈ seqOf t.qt, e ∈ q.dequeued)
  | .lkStop => ∃ q, s.qs[t.g]? = some q ∧ (∃ e, t.qt.prog = .stopper e) ∧ TOK t.qt
  | .prod => ∃ q, s.qs[t.g]? = some q ∧ t.prog = .producer t.g ∧ (∃ src r, t.qt.prog = .producer src r) ∧
      TOK t.qt ∧ (pendPc t.qt.pc = true → t.qt.v.1 = tid)
  | .iiSpawn => (s.qs[t.g]?).isSome = true
  | .start => ∀ k, t.prog = .producer k → (s.qs[k]?).isSome = true ∧ (∃ src r, t.qt.prog = .producer src r) ∧
      TOK t.qt ∧ pendPc t.qt.pc = false
  | _ => True

structure ThOK (s : Shared) (ths : List Thread) (tid : Queue.Tid) (t : Thread) : Prop where
  emb : EmbOK s tid t
  replies : ∀ r ∈ t.replies, ReplyOK ths r
  reply : ∀ r, t.reply = some r → ReplyOK ths r

structure GInv (c : Cfg) : Prop where
  qs : ∀ k q, c.sh.qs[k]? = some q → QOK c.ths k q
  ths : ∀ tid t, c.ths[tid]? = some t → ThOK c.sh c.ths tid t
  gen : ∀ g, c.sh.generator = some g → (c.sh.qs[g]?).isSome = true

/-! ### monotonicity -/

theorem IsProd.set {ths : List Thread} {k : Nat} {x tid : Queue.Tid} {t t' : Thread}
    (ht : ths[tid]? = some t) (hp : t'.prog = t.prog) (h : IsProd ths k x) : IsProd (ths.set tid t') k x := by
  obtain ⟨tp, h1, h2⟩ := h
  by_cases hx : x = tid
  · subst hx
    rw [ht] at h1
    have hlt : x < ths.length := by
      rcases List.getElem?_eq_some_iff.mp ht with ⟨h, _⟩; exact h
    exact ⟨t', by simp [List.getElem?_set_self hlt], by rw [hp, Option.some.inj h1, h2]⟩
  · exact ⟨tp, by rw [List.getElem?_set_ne (Ne.symm hx)]; exact h1, h2⟩

theorem IsProd.append {ths : List Thread} {k : Nat} {x : Queue.Tid} (new : List Thread)
    (h : IsProd ths k x) : IsProd (ths ++ new) k x := by
  obtain ⟨tp, h1, h2⟩ := h
  have hlt : x < ths.length := by
    rcases List.getElem?_eq_some_iff.mp h1 with ⟨h, _⟩; exact h
  exact ⟨tp, by rw [List.getElem?_append_left hlt]; exact h1, h2⟩

/-- the thread lists reachable by one step: the stepping thread keeps its program, threads are only added -/
def ThsLe (ths ths' : List Thread) : Prop := ∀ k x, IsProd ths k x → IsProd ths' k x

theorem ReplyOK.mono {ths ths' : List Thread} {r : Reply} (hle : ThsLe ths ths') (h : ReplyOK ths r) :
    ReplyOK ths' r := fun k hk e he => hle k e.1 (h k hk e he)

theorem QOK.mono {ths ths' : List Thread} {k : Nat} {q : Queue.Shared} (hle : ThsLe ths ths')
    (h : QOK ths k q) : QOK ths' k q := ⟨h.fifo, fun e he => hle k e.1 (h.tags e he)⟩

/-- the queue lists reachable by one step: every queue stays at its index and only ever dequeues more -/
def QsLe (qs qs' : List Queue.Shared) : Prop :=
  ∀ (k : Nat) (q : Queue.Shared), qs[k]? = some q →
    ∃ q' : Queue.Shared, qs'[k]? = some q' ∧ ∀ e ∈ q.dequeued, e ∈ q'.dequeued

theorem QsLe.refl (qs : List Queue.Shared) : QsLe qs qs := fun _ q h => ⟨q, h, fun _ he => he⟩

theorem QsLe.append (qs : List Queue.Shared) (new : List Queue.Shared) : QsLe qs (qs ++ new) := by
  intro k q h
  have hlt : k < qs.length := by
    rcases List.getElem?_eq_some_iff.mp h with ⟨h, _⟩; exact h
  exact ⟨q, by rw [List.getElem?_append_left hlt]; exact h, fun _ he => he⟩

theorem QsLe.set {qs : List Queue.Shared} {g : Nat} {q q' : Queue.Shared} (hq : qs[g]? = some q)
    (hd : ∀ e ∈ q.dequeued, e ∈ q'.dequeued) : QsLe qs (qs.set g q') := by
  intro k q0 h
  have hlt : g < qs.length := by
    rcases List.getElem?_eq_some_iff.mp hq with ⟨h, _⟩; exact h
  by_cases hk : k = g
  · subst hk
    rw [hq] at h
    obtain rfl := Option.some.inj h
    exact ⟨q', by simp [List.getElem?_set_self hlt], hd⟩
  · exact ⟨q0, by rw [List.getElem?_set_ne (Ne.symm hk)]; exact h, fun _ he => he⟩

theorem QsLe.trans {a b c : List Queue.Shared} (h1 : QsLe a b) (h2 : QsLe b c) : QsLe a c := by
  intro k q h
  obtain ⟨q1, h3, h4⟩ := h1 k q h
  obtain ⟨q2, h5, h6⟩ := h2 k q1 h3
  exact ⟨q2, h5, fun e he => h6 e (h4 e he)⟩

/-- a thread that does not move keeps fitting its program point -/
theorem EmbOK.mono {s s' : Shared} {tid : Queue.Tid} {t : Thread} (hle : QsLe s.qs s'.qs)
    (h : EmbOK s tid t) : EmbOK s' tid t := by
  unfold EmbOK at h ⊢
  cases hpc : t.pc <;> simp only [hpc] at h ⊢ <;> try trivial
  · -- start
    intro k hk
    obtain ⟨h1, h2⟩ := h k hk
    obtain ⟨q, hq⟩ := Option.isSome_iff_exists.mp h1
    obtain ⟨q', hq', -⟩ := hle k q hq
    exact ⟨by rw [hq']; rfl, h2⟩
  · obtain ⟨q, hq, h2⟩ := h
    obtain ⟨q', hq', -⟩ := hle _ q hq
    exact ⟨q', hq', h2⟩
  · obtain ⟨q, hq⟩ := Option.isSome_iff_exists.mp h
    obtain ⟨q', hq', -⟩ := hle _ q hq
    rw [hq']; rfl
  · obtain ⟨q, hq, h2, h3, h4⟩ := h
    obtain ⟨q', hq', hd⟩ := hle _ q hq
    exact ⟨q', hq', h2, h3, fun e he => hd e (h4 e he)⟩
  · obtain ⟨q, hq, h2⟩ := h
    obtain ⟨q', hq', -⟩ := hle _ q hq
    exact ⟨q', hq', h2⟩

theorem thsLe_step {ths : List Thread} {tid : Queue.Tid} {t t' : Thread} (ht : ths[tid]? = some t)
    (hp : t'.prog = t.prog) (new : List Thread) : ThsLe ths (ths.set tid t' ++ new) :=
  fun _ _ h => (h.set ht hp).append new

/-- generic re-assembly of the invariant after a step of thread `tid` -/
theorem ginv_assemble {c : Cfg} {tid : Queue.Tid} {t t' : Thread} {s' : Shared} {new : List Thread}
    (hI : GInv c) (ht : c.ths[tid]? = some t) (hp : t'.prog = t.prog)
    (hqle : QsLe c.sh.qs s'.qs)
    (hq : ∀ k q, s'.qs[k]? = some q → QOK (c.ths.set tid t' ++ new) k q)
    (hth : ThOK s' (c.ths.set tid t' ++ new) tid t')
    (hnew : ∀ i p, new[i]? = some p → ThOK s' (c.ths.set tid t' ++ new) (c.ths.length + i) p)
    (hgen : ∀ g, s'.generator = some g → (s'.qs[g]?).isSome = true) :
    GInv { sh := s', ths := c.ths.set tid t' ++ new } := by
  have hle := thsLe_step ht hp new
  have htid : tid < c.ths.length := by
    rcases List.getElem?_eq_some_iff.mp ht with ⟨h, _⟩; exact h
  refine ⟨hq, ?_, hgen⟩
  intro j u hu
  by_cases hj : j < c.ths.length
  · rw [List.getElem?_append_left (by simpa using hj)] at hu
    by_cases hjt : j = tid
    · subst hjt
      simp only [List.getElem?_set_self htid, Option.some.injEq] at hu
      subst hu; exact hth
    · rw [List.getElem?_set_ne (Ne.symm hjt)] at hu
      have h0 := hI.ths j u hu
      exact ⟨h0.emb.mono hqle, fun r hr => (h0.replies r hr).mono hle, fun r hr => (h0.reply r hr).mono hle⟩
  · have hge : c.ths.length ≤ j := Nat.le_of_not_lt hj
    rw [List.getElem?_append_right (by simpa using hge)] at hu
    simp only [List.length_set] at hu
    have := hnew (j - c.ths.length) u hu
    rwa [Nat.add_sub_cancel' hge] at this

/-- the queues are untouched -/
theorem qok_same {c : Cfg} {tid : Queue.Tid} {t t' : Thread} {new : List Thread}
    (hI : GInv c) (ht : c.ths[tid]? = some t) (hp : t'.prog = t.prog) :
    ∀ k q, c.sh.qs[k]? = some q → QOK (c.ths.set tid t' ++ new) k q :=
  fun k q h => (hI.qs k q h).mono (thsLe_step ht hp new)

theorem qok_fresh (ths : List Thread) (k p : Nat) : QOK ths k (freshQueue p) :=
  ⟨rfl, by intro e he; simp [freshQueue] at he⟩

/-- a new queue is appended -/
theorem qok_append {c : Cfg} {tid : Queue.Tid} {t t' : Thread} {new : List Thread} {p : Nat}
    (hI : GInv c) (ht : c.ths[tid]? = some t) (hp : t'.prog = t.prog) :
    ∀ k q, (c.sh.qs ++ [freshQueue p])[k]? = some q → QOK (c.ths.set tid t' ++ new) k q := by
  intro k q h
  by_cases hk : k < c.sh.qs.length
  · rw [List.getElem?_append_left hk] at h
    exact qok_same hI ht hp k q h
  · rw [List.getElem?_append_right (Nat.le_of_not_lt hk)] at h
    have : q = freshQueue p := by
      cases hi : k - c.sh.qs.length with
      | zero => simp [hi] at h; exact h.symm
      | succ n => simp [hi] at h
    rw [this]; exact qok_fresh _ _ _

/-- what one embedded queue-level step does, in the terms of `GInv` -/
theorem qstep_facts {q q' : Queue.Shared} {qt qt' : Queue.Thread} {tid : Queue.Tid} {lbl : String}
    (h : Queue.stepThread q qt tid false = some (lbl, q', qt')) (htok : TOK qt)
    (hfifo : q.produced = q.dequeued ++ q.q) :
    TOK qt' ∧ qt'.prog = qt.prog ∧ q'.produced = q'.dequeued ++ q'.q ∧
    (∀ e ∈ q.dequeued, e ∈ q'.dequeued) ∧
    ((∀ e ∈ seqOf qt, e ∈ q.dequeued) → ∀ e ∈ seqOf qt', e ∈ q'.dequeued) ∧
    q'.produced = q.produced ++ Queue.newOf q qt := by
  obtain ⟨htok', hprog, hq, hdq, hpr, -, hseq⟩ := Queue.stepThread_data lbl q' qt' h htok
  refine ⟨htok', hprog, ?_, ?_, ?_, hpr⟩
  · rw [hpr, hdq, hfifo, List.append_assoc, List.append_assoc, hq]
  · intro e he; rw [hdq]; exact List.mem_append_left _ he
  · intro hsub e he
    have : e ∈ seqOf qt' ++ Queue.droppedOf qt := List.mem_append_left _ he
    rw [← hseq] at this
    rw [hdq]
    rcases List.mem_append.mp this with h1 | h1
    · exact List.mem_append_left _ (hsub e h1)
    · exact List.mem_append_right _ h1

theorem newOf_nil_of_kind {q : Queue.Shared} {qt : Queue.Thread} (htok : TOK qt)
    (hk : qt.prog.kind ≠ .producer) : Queue.newOf q qt = [] := by
  unfold Queue.newOf
  split
  · rename_i hpc
    exact absurd (htok.kind .producer (by simp [Queue.pcKind, hpc])) hk
  · rfl

/-- a step that leaves the queues alone: what the stepping thread's new state has to satisfy -/
structure Local (s' : Shared) (tid : Queue.Tid) (t t' : Thread) : Prop where
  prog : t'.prog = t.prog
  emb : EmbOK s' tid t'
  replies : ∀ r ∈ t'.replies, r ∈ t.replies ∨ t.reply = some r ∨ r.g = none
  reply : ∀ r, t'.reply = some r → t.reply = some r

theorem ginv_local {c : Cfg} {tid : Queue.Tid} {t t' : Thread} {s' : Shared}
    (hI : GInv c) (ht : c.ths[tid]? = some t) (hqs : s'.qs = c.sh.qs) (hgen : s'.generator = c.sh.generator)
    (hl : Local s' tid t t') : GInv (setTh c tid s' t') := by
  have h0 := hI.ths tid t ht
  have := ginv_assemble (new := []) (s' := s') hI ht hl.prog (by rw [hqs]; exact QsLe.refl _)
    (by rw [hqs]; exact qok_same hI ht hl.prog)
    ⟨hl.emb, ?_, ?_⟩ (by intro i p hp; simp at hp) (by rw [hgen, hqs]; exact hI.gen)
  · simpa [setTh] using this
  · intro r hr
    rcases hl.replies r hr with h1 | h1 | h1
    · exact (h0.replies r h1).mono (thsLe_step ht hl.prog [])
    · exact (h0.reply r h1).mono (thsLe_step ht hl.prog [])
    · intro k hk; rw [h1] at hk; cases hk
  · intro r hr
    exact (h0.reply r (hl.reply r hr)).mono (thsLe_step ht hl.prog [])

/-- moving to a program point without an embedded thread -/
theorem local_goto {s' : Shared} {tid : Queue.Tid} {t t' : Thread} (hp : t'.prog = t.prog)
    (hpc : EmbOK s' tid t') (hrs : t'.replies = t.replies) (hr : t'.reply = t.reply) : Local s' tid t t' :=
  ⟨hp, hpc, fun r h => Or.inl (hrs ▸ h), fun r h => hr ▸ h⟩

theorem tok_fresh (n : Nat) : TOK ({ prog := .batchLoop n true, pc := .bAcq } : Queue.Thread) :=
  (quiet_fresh n).tok

theorem local_beginNext {s : Shared} {tid : Queue.Tid} {t : Thread} {n : Nat}
    (hgen : ∀ g, s.generator = some g → (s.qs[g]?).isSome = true) :
    Local s tid t (beginNext s t n) := by
  unfold beginNext
  cases hg : s.generator with
  | none =>
    dsimp only
    cases hprog : t.prog <;> dsimp only <;>
      refine ⟨by simp [hprog], by simp [EmbOK], ?_, fun r h => h⟩ <;>
      (intro r hr
       simp only [List.mem_append, List.mem_singleton] at hr
       rcases hr with hr | hr
       · exact Or.inl hr
       · exact Or.inr (Or.inr (by rw [hr])))
  | some g =>
    dsimp only
    obtain ⟨q, hq⟩ := Option.isSome_iff_exists.mp (hgen g hg)
    refine ⟨rfl, ?_, fun r hr => Or.inl hr, fun r h => h⟩
    simp only [EmbOK]
    exact ⟨q, hq, ⟨_, _, rfl⟩, tok_fresh _, by simp [(quiet_fresh _).seqOf]⟩

theorem local_callNext {s : Shared} {tid : Queue.Tid} {t : Thread} {n : Nat}
    (hgen : ∀ g, s.generator = some g → (s.qs[g]?).isSome = true) :
    Local s tid t (callNext s t n) := by
  unfold callNext
  split
  · exact ⟨rfl, by simp [EmbOK], fun r hr => Or.inl hr, fun r h => h⟩
  · exact local_beginNext hgen

theorem local_receive {s : Shared} {tid : Queue.Tid} {t : Thread} {r : Reply}
    (hgen : ∀ g, s.generator = some g → (s.qs[g]?).isSome = true) (hrep : t.reply = some r) :
    Local s tid t (receive s t r) := by
  unfold receive
  have hmem : ∀ r' ∈ t.replies ++ [r], r' ∈ t.replies ∨ t.reply = some r' ∨ r'.g = none := by
    intro r' hr'
    simp only [List.mem_append, List.mem_singleton] at hr'
    rcases hr' with h | h
    · exact Or.inl h
    · exact Or.inr (Or.inl (by rw [h]; exact hrep))
  cases hprog : t.prog <;> dsimp only <;> try exact ⟨by simp [hprog], by simp [EmbOK], hmem, by simp⟩
  -- client
  rename_i g0 b0
  cases hm : r.marker with
  | some m => exact ⟨by simp [hprog], by simp [EmbOK], hmem, by simp⟩
  | none =>
    dsimp only
    have := local_callNext (tid := tid) (n := b0)
      (t := { t with prog := .client g0 b0, reply := none, replies := t.replies ++ [r],
                     yielded := t.yielded ++ r.elems }) hgen
    exact ⟨by rw [this.prog]; exact hprog.symm, this.emb, fun r' hr' => by
      rcases this.replies r' hr' with h | h | h
      · exact hmem r' h
      · cases h
      · exact Or.inr (Or.inr h), fun r' hr' => by have := this.reply r' hr'; cases this⟩

theorem tok_stopper (e : ErrKind) : TOK ({ prog := .stopper (some e), pc := .mAcq } : Queue.Thread) :=
  ⟨by intro k hk; simp only [Queue.pcKind, Option.some.injEq] at hk; subst hk; rfl, by intro _; rfl⟩

theorem local_beginStop {s : Shared} {tid : Queue.Tid} {t : Thread} {e : ErrKind} {skip : Pc}
    (hgen : ∀ g, s.generator = some g → (s.qs[g]?).isSome = true)
    (hskip : ∀ t0 : Thread, t0.pc = skip → EmbOK s tid t0) :
    Local s tid t (beginStop s t e skip) := by
  unfold beginStop
  cases hg : s.generator with
  | none => exact local_goto rfl (hskip _ rfl) rfl rfl
  | some g =>
    dsimp only
    split
    · exact local_goto rfl (hskip _ rfl) rfl rfl
    · obtain ⟨q, hq⟩ := Option.isSome_iff_exists.mp (hgen g hg)
      refine local_goto rfl ?_ rfl rfl
      simp only [EmbOK]
      exact ⟨q, hq, ⟨_, rfl⟩, tok_stopper e⟩

theorem setTh_setTh (c : Cfg) (tid : Queue.Tid) (s1 s2 : Shared) (t1 t2 : Thread) :
    setTh (setTh c tid s1 t1) tid s2 t2 = setTh c tid s2 t2 := by
  simp [setTh, List.set_set]

theorem getElem?_setTh {c : Cfg} {tid : Queue.Tid} {t : Thread} (ht : c.ths[tid]? = some t) (s1 : Shared)
    (t1 : Thread) : (setTh c tid s1 t1).ths[tid]? = some t1 := by
  have hlt : tid < c.ths.length := by
    rcases List.getElem?_eq_some_iff.mp ht with ⟨h, _⟩; exact h
  simp [setTh, List.getElem?_set_self hlt]

/-- `_init_iterator` installs a new queue -/
theorem ginv_install {c : Cfg} {tid : Queue.Tid} {t : Thread} {s : Shared}
    (hI : GInv c) (ht : c.ths[tid]? = some t) (hqs : s.qs = c.sh.qs) :
    GInv (setTh c tid (install s t).1 (install s t).2) := by
  have h0 := hI.ths tid t ht
  have hlen : (c.sh.qs ++ [freshQueue s.prefetch])[c.sh.qs.length]? = some (freshQueue s.prefetch) := by
    simp
  have := ginv_assemble (new := []) (s' := (install s t).1) (t' := (install s t).2) hI ht rfl
    (by simp only [install, hqs]; exact QsLe.append _ _)
    (by simp only [install, hqs]; exact qok_append hI ht rfl)
    ⟨by simp only [install, EmbOK, hqs]; rw [hlen]; rfl,
      fun r hr => (h0.replies r hr).mono (thsLe_step (t' := (install s t).2) ht rfl []),
      fun r hr => (h0.reply r hr).mono (thsLe_step (t' := (install s t).2) ht rfl [])⟩
    (by intro i p hp; simp at hp)
    (by
      intro g hg
      simp only [install, Option.some.injEq, hqs] at hg ⊢
      subst hg; rw [hlen]; rfl)
  simpa [setTh] using this

/-- `_init_iterator` starts the prefetch thread -/
theorem ginv_spawn {c : Cfg} {tid : Queue.Tid} {t : Thread} {g : Gen} {s' : Shared}
    (hI : GInv c) (ht : c.ths[tid]? = some t) (hpc : t.pc = .iiSpawn)
    (hqs : s'.qs = c.sh.qs) (hgen : s'.generator = c.sh.generator) :
    GInv { sh := s', ths := c.ths.set tid { t with pc := .lkRel } ++
      [{ prog := .producer t.g, qt := { prog := .producer g.src g.ret, pc := .sAcq, src := g.src } }] } := by
  have h0 := hI.ths tid t ht
  have hemb := h0.emb
  simp only [EmbOK, hpc] at hemb
  refine ginv_assemble hI ht rfl (by rw [hqs]; exact QsLe.refl _) (by rw [hqs]; exact qok_same hI ht rfl)
    ⟨by simp [EmbOK], fun r hr => (h0.replies r hr).mono (thsLe_step (t' := { t with pc := .lkRel }) ht rfl _),
      fun r hr => (h0.reply r hr).mono (thsLe_step (t' := { t with pc := .lkRel }) ht rfl _)⟩ ?_
    (by rw [hgen, hqs]; exact hI.gen)
  intro i p hp
  cases i with
  | succ n => simp at hp
  | zero =>
    simp only [List.getElem?_cons_zero, Option.some.injEq] at hp
    subst hp
    refine ⟨?_, by intro r hr; simp at hr, by intro r hr; simp at hr⟩
    simp only [EmbOK]
    intro k hk
    simp only [Prog.producer.injEq] at hk
    subst hk
    refine ⟨by rw [hqs]; exact hemb, ⟨_, _, rfl⟩, ?_, rfl⟩
    exact ⟨by intro k hk; simp only [Queue.pcKind, Option.some.injEq] at hk; subst hk; rfl, by intro _; rfl⟩

/-- an embedded queue-level step -/
theorem ginv_qstep {c : Cfg} {tid : Queue.Tid} {t t' : Thread} {q q' : Queue.Shared} {qt' : Queue.Thread}
    {lbl0 : String} {s' : Shared}
    (hI : GInv c) (ht : c.ths[tid]? = some t) (hq : c.sh.qs[t.g]? = some q)
    (hst : Queue.stepThread q t.qt tid false = some (lbl0, q', qt')) (htok : TOK t.qt)
    (hnew : ∀ e ∈ Queue.newOf q t.qt, e.1 = tid ∧ t.prog = .producer t.g)
    (hs' : s'.qs = c.sh.qs.set t.g q') (hgen : s'.generator = c.sh.generator)
    (hp : t'.prog = t.prog) (hemb : EmbOK s' tid t')
    (hrs : ∀ r ∈ t'.replies, r ∈ t.replies)
    (hr : ∀ r, t'.reply = some r → t.reply = some r ∨ (r.g = some t.g ∧ ∀ e ∈ r.elems, e ∈ q'.dequeued)) :
    GInv (setTh c tid s' t') := by
  have h0 := hI.ths tid t ht
  have hq0 := hI.qs t.g q hq
  obtain ⟨-, -, hfifo', hdeq, -, hprod⟩ := qstep_facts hst htok hq0.fifo
  have hle := thsLe_step ht hp []
  have htid : tid < c.ths.length := by
    rcases List.getElem?_eq_some_iff.mp ht with ⟨h, _⟩; exact h
  have hglt : t.g < c.sh.qs.length := by
    rcases List.getElem?_eq_some_iff.mp hq with ⟨h, _⟩; exact h
  have hqok' : QOK (c.ths.set tid t' ++ []) t.g q' := by
    refine ⟨hfifo', ?_⟩
    intro e he
    rw [hprod] at he
    rcases List.mem_append.mp he with h1 | h1
    · exact hle _ _ (hq0.tags e h1)
    · obtain ⟨h2, h3⟩ := hnew e h1
      rw [h2]
      exact ⟨t', by simp [List.getElem?_set_self htid], by rw [hp, h3]⟩
  have := ginv_assemble (new := []) (s' := s') hI ht hp (by rw [hs']; exact QsLe.set hq hdeq)
    (by
      intro k q0 hk
      rw [hs'] at hk
      by_cases hkg : k = t.g
      · subst hkg
        simp only [List.getElem?_set_self hglt, Option.some.injEq] at hk
        subst hk; exact hqok'
      · rw [List.getElem?_set_ne (Ne.symm hkg)] at hk
        exact (hI.qs k q0 hk).mono hle)
    ⟨hemb, fun r hr' => (h0.replies r (hrs r hr')).mono hle, ?_⟩
    (by intro i p hp; simp at hp)
    (by
      intro g hg
      rw [hgen] at hg
      have := hI.gen g hg
      rw [hs', List.getElem?_set]
      split
      · rfl
      · exact this)
  · simpa [setTh] using this
  · intro r hr'
    rcases hr r hr' with h1 | ⟨h1, h2⟩
    · exact (h0.reply r h1).mono hle
    · intro k hk e he
      rw [h1] at hk
      obtain rfl := Option.some.inj hk
      exact hqok'.tags e (by rw [hfifo']; exact List.mem_append_left _ (h2 e he))

set_option hygiene false in
/-- closes a goal `GInv (setTh c tid s' t')` for a step that only moves the program counter -/
macro "ginv_goto" : tactic => `(tactic|
  exact ginv_local hI ht rfl rfl (local_goto (by first | rfl | (simp [*]; done))
    (by first | (simp [EmbOK]; done) | (simp only [EmbOK]; split <;> simp)) rfl rfl))

theorem mkReply_g (s : Shared) (g : Nat) (q : Queue.Shared) (el : List Elem) :
    (mkReply s g q el).1.g = some g := by
  unfold mkReply
  repeat (first | rfl | split)

theorem mkReply_elems (s : Shared) (g : Nat) (q : Queue.Shared) (el : List Elem) :
    ∀ e ∈ (mkReply s g q el).1.elems, e ∈ el := by
  unfold mkReply
  intro e he
  (repeat' split at he) <;> simp at he <;> exact he

theorem ginv_afterStop {c : Cfg} {tid : Queue.Tid} {t : Thread} {s : Shared}
    (hI : GInv c) (ht : c.ths[tid]? = some t) (hqs : s.qs = c.sh.qs) (hgen : s.generator = c.sh.generator) :
    GInv (setTh c tid (afterStop s t).1 (afterStop s t).2) := by
  unfold afterStop
  cases hprog : t.prog <;> dsimp only <;>
    first
    | exact ginv_install hI ht hqs
    | exact ginv_local hI ht hqs hgen (local_goto (by simp [hprog, failInit]) (by simp [EmbOK, failInit]) rfl rfl)

theorem ginv_step {c c' : Cfg} {tid : Queue.Tid} {lbl : String}
    (hI : GInv c) (h : step c tid = some (lbl, c')) : GInv c' := by
  unfold step at h
  cases ht : c.ths[tid]? with
  | none => simp [ht] at h
  | some t =>
  simp only [ht] at h
  have h0 := hI.ths tid t ht
  have hemb := h0.emb
  have hgenI := hI.gen
  cases hpc : t.pc <;> simp only [hpc] at h
  case done => simp at h
  case start =>
    simp only [EmbOK, hpc] at hemb
    cases hprog : t.prog <;> simp only [hprog] at h
    case main => simp only [Option.some.injEq, Prod.mk.injEq] at h; obtain ⟨-, rfl⟩ := h; ginv_goto
    case client g0 b0 =>
      (repeat' split at h) <;> simp only [Option.some.injEq, Prod.mk.injEq] at h <;> obtain ⟨-, rfl⟩ := h <;>
        ginv_goto
    case initIter g0 =>
      (repeat' split at h) <;> simp only [Option.some.injEq, Prod.mk.injEq] at h <;> obtain ⟨-, rfl⟩ := h <;>
        ginv_goto
    case initFail e0 a0 =>
      (repeat' split at h) <;> simp only [Option.some.injEq, Prod.mk.injEq] at h <;> obtain ⟨-, rfl⟩ := h <;>
        ginv_goto
    case stopPrefetch f0 =>
      (repeat' split at h) <;> simp only [Option.some.injEq, Prod.mk.injEq] at h <;> obtain ⟨-, rfl⟩ := h <;>
        ginv_goto
    case shutdown =>
      (repeat' split at h) <;> simp only [Option.some.injEq, Prod.mk.injEq] at h <;> obtain ⟨-, rfl⟩ := h <;>
        ginv_goto
    case nextBatch n =>
      simp only [Option.some.injEq, Prod.mk.injEq] at h; obtain ⟨-, rfl⟩ := h
      exact ginv_local hI ht rfl rfl (local_callNext hgenI)
    case producer k =>
      simp only [Option.some.injEq, Prod.mk.injEq] at h; obtain ⟨-, rfl⟩ := h
      obtain ⟨h1, h2, h3, h4⟩ := hemb k hprog
      obtain ⟨q, hq⟩ := Option.isSome_iff_exists.mp h1
      refine ginv_local hI ht rfl rfl (local_goto (by simp [hprog]) ?_ rfl rfl)
      simp only [EmbOK]
      refine ⟨q, hq, ?_, h2, h3, by intro hp; rw [h4] at hp; cases hp⟩
      first | rfl | trivial
  case mnAcq =>
    split at h <;> simp only [Option.some.injEq, Prod.mk.injEq, reduceCtorEq] at h; obtain ⟨-, rfl⟩ := h
    by_cases hs : c.sh.shutdownRequested = true <;> simp only [hs, ↓reduceIte] <;> ginv_goto
  case mnWait => split at h <;> simp only [Option.some.injEq, Prod.mk.injEq, reduceCtorEq] at h; obtain ⟨-, rfl⟩ := h; ginv_goto
  case mnWake => split at h <;> simp only [Option.some.injEq, Prod.mk.injEq, reduceCtorEq] at h; obtain ⟨-, rfl⟩ := h; ginv_goto
  case mnTxA => split at h <;> simp only [Option.some.injEq, Prod.mk.injEq, reduceCtorEq] at h; obtain ⟨-, rfl⟩ := h; ginv_goto
  case mnTxR =>
    split at h <;> simp only [Option.some.injEq, Prod.mk.injEq, reduceCtorEq] at h; obtain ⟨-, rfl⟩ := h
    by_cases hs : c.sh.shutdownRequested = true <;> simp only [hs, ↓reduceIte] <;> ginv_goto
  case mnRel => split at h <;> simp only [Option.some.injEq, Prod.mk.injEq, reduceCtorEq] at h; obtain ⟨-, rfl⟩ := h; ginv_goto
  case mnStA => split at h <;> simp only [Option.some.injEq, Prod.mk.injEq, reduceCtorEq] at h; obtain ⟨-, rfl⟩ := h; ginv_goto
  case mnStR => split at h <;> simp only [Option.some.injEq, Prod.mk.injEq, reduceCtorEq] at h; obtain ⟨-, rfl⟩ := h; ginv_goto
  case iiN0 => split at h <;> simp only [Option.some.injEq, Prod.mk.injEq, reduceCtorEq] at h; obtain ⟨-, rfl⟩ := h; ginv_goto
  case iiN1 => split at h <;> simp only [Option.some.injEq, Prod.mk.injEq, reduceCtorEq] at h; obtain ⟨-, rfl⟩ := h; ginv_goto
  case nbTxA => split at h <;> simp only [Option.some.injEq, Prod.mk.injEq, reduceCtorEq] at h; obtain ⟨-, rfl⟩ := h; ginv_goto
  case sdAcq => split at h <;> simp only [Option.some.injEq, Prod.mk.injEq, reduceCtorEq] at h; obtain ⟨-, rfl⟩ := h; ginv_goto
  case sdNotify => split at h <;> simp only [Option.some.injEq, Prod.mk.injEq, reduceCtorEq] at h; obtain ⟨-, rfl⟩ := h; ginv_goto
  case sdRel => split at h <;> simp only [Option.some.injEq, Prod.mk.injEq, reduceCtorEq] at h; obtain ⟨-, rfl⟩ := h; ginv_goto
  case iiN2 =>
    split at h
    · simp at h
    · cases hprog : t.prog <;> simp only [hprog, Option.some.injEq, Prod.mk.injEq] at h <;>
        obtain ⟨-, rfl⟩ := h <;> (try ginv_goto)
      exact ginv_local hI ht rfl rfl (local_callNext hgenI)
  case nbTxR =>
    split at h
    · simp at h
    · cases hrep : t.reply with
      | none => simp [hrep] at h
      | some r =>
        simp only [hrep, Option.some.injEq, Prod.mk.injEq] at h
        obtain ⟨-, rfl⟩ := h
        exact ginv_local hI ht rfl rfl (local_receive hgenI hrep)
  case lkRel =>
    split at h
    · simp at h
    · cases hprog : t.prog <;> simp only [hprog] at h <;> (repeat' split at h) <;>
        simp only [Option.some.injEq, Prod.mk.injEq] at h <;> obtain ⟨-, rfl⟩ := h <;> ginv_goto
  case iiSpawn =>
    cases hg : gen? t.prog with
    | none => simp [hg] at h
    | some g =>
      simp only [hg, Option.some.injEq, Prod.mk.injEq] at h
      obtain ⟨-, rfl⟩ := h
      exact ginv_spawn hI ht hpc rfl rfl
  case lkJoin =>
    cases he : c.sh.enqThread with
    | none => simp [he] at h
    | some p =>
      simp only [he] at h
      cases hp : c.ths[p]? with
      | none => simp [hp] at h
      | some tp =>
        simp only [hp] at h
        split at h
        · simp at h
        · simp only [Option.some.injEq, Prod.mk.injEq] at h
          obtain ⟨-, rfl⟩ := h
          exact ginv_afterStop hI ht rfl rfl
  case lkAcq =>
    split at h
    · simp at h
    · cases hprog : t.prog <;> simp only [hprog] at h
      case client g0 b0 =>
        split at h
        · simp only [Option.some.injEq, Prod.mk.injEq] at h; obtain ⟨-, rfl⟩ := h; ginv_goto
        · split at h <;> simp only [Option.some.injEq, Prod.mk.injEq] at h <;> obtain ⟨-, rfl⟩ := h
          · exact ginv_install hI ht rfl
          · rename_i hne
            refine ginv_local hI ht rfl rfl ?_
            unfold beginStop at hne ⊢
            cases hgn : c.sh.generator with
            | none => simp [hgn] at hne
            | some g1 =>
              simp only [hgn] at hne ⊢
              split
              · rename_i hex; simp [hex] at hne
              · obtain ⟨q, hq⟩ := Option.isSome_iff_exists.mp (hgenI g1 hgn)
                refine local_goto rfl ?_ rfl rfl
                simp only [EmbOK]
                exact ⟨q, hq, ⟨_, rfl⟩, tok_stopper _⟩
      case initIter g0 =>
        split at h
        · simp only [Option.some.injEq, Prod.mk.injEq] at h; obtain ⟨-, rfl⟩ := h; ginv_goto
        · split at h <;> simp only [Option.some.injEq, Prod.mk.injEq] at h <;> obtain ⟨-, rfl⟩ := h
          · exact ginv_install hI ht rfl
          · rename_i hne
            refine ginv_local hI ht rfl rfl ?_
            unfold beginStop at hne ⊢
            cases hgn : c.sh.generator with
            | none => simp [hgn] at hne
            | some g1 =>
              simp only [hgn] at hne ⊢
              split
              · rename_i hex; simp [hex] at hne
              · obtain ⟨q, hq⟩ := Option.isSome_iff_exists.mp (hgenI g1 hgn)
                refine local_goto rfl ?_ rfl rfl
                simp only [EmbOK]
                exact ⟨q, hq, ⟨_, rfl⟩, tok_stopper _⟩
      case initFail e0 a0 =>
        split at h
        · simp only [Option.some.injEq, Prod.mk.injEq] at h; obtain ⟨-, rfl⟩ := h; ginv_goto
        · split at h <;> simp only [Option.some.injEq, Prod.mk.injEq] at h <;> obtain ⟨-, rfl⟩ := h
          · exact ginv_local hI ht rfl rfl (local_goto (by simp [hprog, failInit]) (by simp [EmbOK, failInit]) rfl rfl)
          · exact ginv_local hI ht rfl rfl (local_beginStop hgenI (fun t0 h0 => by simp [EmbOK, h0]))
      all_goals
        simp only [Option.some.injEq, Prod.mk.injEq] at h
        obtain ⟨-, rfl⟩ := h
        exact ginv_local hI ht rfl rfl (local_beginStop hgenI (fun t0 h0 => by simp [EmbOK, h0]))
  case prod =>
    simp only [EmbOK, hpc] at hemb
    obtain ⟨q, hq, hprog, ⟨src, r, hqp⟩, htok, htag⟩ := hemb
    simp only [hq] at h
    cases hst : Queue.stepThread q t.qt tid false with
    | none => simp [hst] at h
    | some res =>
      obtain ⟨lbl0, q', qt'⟩ := res
      simp only [hst] at h
      obtain ⟨htok', hprog', -⟩ := qstep_facts hst htok (hI.qs _ q hq).fifo
      obtain ⟨htag', hnewtag, -⟩ := Queue.stepThread_prod lbl0 q' qt' hst htok htag
      have hnew : ∀ e ∈ Queue.newOf q t.qt, e.1 = tid ∧ t.prog = .producer t.g :=
        fun e he => ⟨hnewtag e he, hprog⟩
      split at h <;> simp only [Option.some.injEq, Prod.mk.injEq] at h <;> obtain ⟨-, rfl⟩ := h
      · exact ginv_qstep hI ht hq hst htok hnew rfl rfl rfl (by simp [EmbOK]) (fun r hr => hr)
          (fun r hr => Or.inl hr)
      · refine ginv_qstep hI ht hq hst htok hnew rfl rfl rfl ?_ (fun r hr => hr) (fun r hr => Or.inl hr)
        simp only [EmbOK, hpc]
        have hglt : t.g < c.sh.qs.length := by
          rcases List.getElem?_eq_some_iff.mp hq with ⟨h, _⟩; exact h
        exact ⟨q', by simp [List.getElem?_set_self hglt], hprog, ⟨src, r, by rw [hprog', hqp]⟩, htok', htag'⟩
  case nbGet =>
    simp only [EmbOK, hpc] at hemb
    obtain ⟨q, hq, ⟨n, b0, hqp⟩, htok, hsub⟩ := hemb
    simp only [hq] at h
    cases hst : Queue.stepThread q t.qt tid false with
    | none => simp [hst] at h
    | some res =>
      obtain ⟨lbl0, q', qt'⟩ := res
      simp only [hst] at h
      obtain ⟨htok', hprog', -, -, hsub', -⟩ := qstep_facts hst htok (hI.qs _ q hq).fifo
      have hsub'' := hsub' hsub
      have hnew : ∀ e ∈ Queue.newOf q t.qt, e.1 = tid ∧ t.prog = .producer t.g := by
        rw [newOf_nil_of_kind htok (by rw [hqp]; simp [Queue.Prog.kind])]
        intro e he; cases he
      have hglt : t.g < c.sh.qs.length := by
        rcases List.getElem?_eq_some_iff.mp hq with ⟨h, _⟩; exact h
      split at h <;> simp only [Option.some.injEq, Prod.mk.injEq] at h <;> obtain ⟨-, rfl⟩ := h
      · refine ginv_qstep hI ht hq hst htok hnew rfl rfl rfl (by simp [EmbOK]) (fun r hr => hr) ?_
        intro r hr
        simp only [Option.some.injEq] at hr
        subst hr
        refine Or.inr ⟨mkReply_g _ _ _ _, ?_⟩
        intro e he
        have hmem : e ∈ qt'.received := mkReply_elems _ _ _ _ e he
        exact hsub'' e (by unfold Queue.seqOf; simp [hmem])
      · refine ginv_qstep hI ht hq hst htok hnew rfl rfl rfl ?_ (fun r hr => hr) (fun r hr => Or.inl hr)
        simp only [EmbOK, hpc]
        exact ⟨q', by simp [List.getElem?_set_self hglt], ⟨n, b0, by rw [hprog', hqp]⟩, htok', hsub''⟩
  case lkStop =>
    simp only [EmbOK, hpc] at hemb
    obtain ⟨q, hq, ⟨e0, hqp⟩, htok⟩ := hemb
    simp only [hq] at h
    cases hst : Queue.stepThread q t.qt tid false with
    | none => simp [hst] at h
    | some res =>
      obtain ⟨lbl0, q', qt'⟩ := res
      simp only [hst] at h
      obtain ⟨htok', hprog', -⟩ := qstep_facts hst htok (hI.qs _ q hq).fifo
      have hnew : ∀ e ∈ Queue.newOf q t.qt, e.1 = tid ∧ t.prog = .producer t.g := by
        rw [newOf_nil_of_kind htok (by rw [hqp]; simp [Queue.Prog.kind])]
        intro e he; cases he
      have hglt : t.g < c.sh.qs.length := by
        rcases List.getElem?_eq_some_iff.mp hq with ⟨h, _⟩; exact h
      -- the configuration right after the queue-level step, still inside the locked stop
      have hmid : GInv (setTh c tid { c.sh with qs := c.sh.qs.set t.g q' } { t with qt := qt', pc := .lkStop }) := by
        refine ginv_qstep hI ht hq hst htok hnew rfl rfl rfl ?_ (fun r hr => hr) (fun r hr => Or.inl hr)
        simp only [EmbOK]
        exact ⟨q', by simp [List.getElem?_set_self hglt], ⟨e0, by rw [hprog', hqp]⟩, htok'⟩
      have htm := getElem?_setTh ht { c.sh with qs := c.sh.qs.set t.g q' } { t with qt := qt', pc := .lkStop }
      split at h
      · split at h
        · simp only [Option.some.injEq, Prod.mk.injEq] at h; obtain ⟨-, rfl⟩ := h
          have := ginv_local hmid htm (s' := { c.sh with qs := c.sh.qs.set t.g q' })
            (t' := { t with qt := qt', pc := .lkRel, ret := some .assertion }) rfl rfl
            (local_goto rfl (by simp [EmbOK]) rfl rfl)
          rwa [setTh_setTh] at this
        · split at h <;> simp only [Option.some.injEq, Prod.mk.injEq] at h <;> obtain ⟨-, rfl⟩ := h
          · have := ginv_local hmid htm (s' := { c.sh with qs := c.sh.qs.set t.g q' })
              (t' := { t with qt := qt', pc := .lkJoin }) rfl rfl (local_goto rfl (by simp [EmbOK]) rfl rfl)
            rwa [setTh_setTh] at this
          · have := ginv_afterStop hmid htm (s := { c.sh with qs := c.sh.qs.set t.g q' }) rfl rfl
            rwa [setTh_setTh] at this
      · simp only [Option.some.injEq, Prod.mk.injEq] at h; obtain ⟨-, rfl⟩ := h
        exact hmid

/-- request threads are clients and requests: prefetch threads only come into being by `_init_iterator` -/
def Requests (progs : List Prog) : Prop := ∀ pr ∈ progs, ∀ k, pr ≠ .producer k

theorem ginv_init (p : Nat) (progs : List Prog) (hreq : Requests progs) : GInv (init p progs) := by
  refine ⟨by intro k q h; simp [init] at h, ?_, by intro g h; simp [init] at h⟩
  intro tid t ht
  have hprog : t.pc = .start ∧ t.replies = [] ∧ t.reply = none ∧ ∀ k, t.prog ≠ .producer k := by
    cases tid with
    | zero =>
      simp only [init, List.getElem?_cons_zero, Option.some.injEq] at ht; subst ht
      exact ⟨rfl, rfl, rfl, by intro k hk; cases hk⟩
    | succ n =>
      simp only [init, List.getElem?_cons_succ, List.getElem?_map, Option.map_eq_some_iff] at ht
      obtain ⟨p0, hp0, rfl⟩ := ht
      exact ⟨rfl, rfl, rfl, hreq p0 (List.mem_of_getElem? hp0)⟩
  obtain ⟨h1, h2, h3, h4⟩ := hprog
  refine ⟨?_, ?_, ?_⟩
  · simp only [EmbOK, h1]
    intro k hk
    exact absurd hk (h4 k)
  · intro r hr; rw [h2] at hr; cases hr
  · intro r hr; rw [h3] at hr; cases hr

theorem ginv_reachable {p : Nat} {progs : List Prog} {c : Cfg} (hreq : Requests progs)
    (h : Reachable (init p progs) c) : GInv c := by
  induction h with
  | init => exact ginv_init p progs hreq
  | step _ hs ih => exact ginv_step ih hs

end MlModel.Prefetch
