import MlModel.Model.Agg.Core
import MlModel.Lemmas.AggCore
/-!
# Merge histories as expressions; unital lawfulness

`Lemmas/AggCore.lean: Lawful` asks that a fresh accumulator be *equivalent to the state of
one empty batch*.  Several shipped metrics do not satisfy that (their fresh state is a
distinguishable "nothing seen yet": `UnboundedSampler()._samples = ()` vs `new([]) = ([],)`,
`MeanAndVariance()` scalar NaN vs a vector of NaNs for a 2-D batch with no rows, …).
`LawfulU` is the weaker law set that they do satisfy (fresh is a two-sided *unit*), and it is
implied by `Lawful`.

An `Expr` is an arbitrary history: fresh accumulators, one-batch states, and merges in any
bracketing.  `LawfulU.eval_eqv` says every history is equivalent to ONE batch holding the
in-order concatenation of all data (or to the fresh state if no batch was ever fed).  From
it: sharding/batching invariance (C01), associativity, unit laws, and — when `ofBatch` is
permutation invariant — commutativity and "any bracketing, any order" (C11).
-/
namespace MlModel.Agg

variable {X S R : Type}

structure LawfulU (m : Mergeable X S R) (Eqv : S → S → Prop) : Prop where
  refl : ∀ s, Eqv s s
  symm : ∀ {s t}, Eqv s t → Eqv t s
  trans : ∀ {s t u}, Eqv s t → Eqv t u → Eqv s u
  merge_congr : ∀ {s s' t t'}, Eqv s s' → Eqv t t' → Eqv (m.merge s t) (m.merge s' t')
  result_congr : ∀ {s t}, Eqv s t → m.result s = m.result t
  /-- merging two one-batch states = the one-batch state of the concatenation -/
  hom : ∀ xs ys, Eqv (m.merge (m.ofBatch xs) (m.ofBatch ys)) (m.ofBatch (xs ++ ys))
  unit_left : ∀ xs, Eqv (m.merge m.empty (m.ofBatch xs)) (m.ofBatch xs)
  unit_right : ∀ xs, Eqv (m.merge (m.ofBatch xs) m.empty) (m.ofBatch xs)
  unit_empty : Eqv (m.merge m.empty m.empty) m.empty

theorem Lawful.toLawfulU {m : Mergeable X S R} {Eqv : S → S → Prop} (h : Lawful m Eqv) :
    LawfulU m Eqv where
  refl := h.refl
  symm := h.symm
  trans := h.trans
  merge_congr := h.merge_congr
  result_congr := h.result_congr
  hom := h.hom
  unit_left xs := by
    have := h.trans (h.merge_congr h.empty_eq (h.refl (m.ofBatch xs))) (h.hom [] xs)
    simpa using this
  unit_right xs := by
    have := h.trans (h.merge_congr (h.refl (m.ofBatch xs)) h.empty_eq) (h.hom xs [])
    simpa using this
  unit_empty := by
    have := h.trans (h.merge_congr h.empty_eq h.empty_eq) (h.hom [] [])
    exact h.trans (by simpa using this) (h.symm h.empty_eq)

/-- a history of an accumulator: any bracketing of merges over fresh and one-batch states
(`add b` is `merge · (batch b)`, base.py:86) -/
inductive Expr (X : Type) where
  | fresh : Expr X
  | batch (xs : List X) : Expr X
  | merge (a b : Expr X) : Expr X

namespace Expr

def eval (m : Mergeable X S R) : Expr X → S
  | fresh => m.empty
  | batch xs => m.ofBatch xs
  | merge a b => m.merge (a.eval m) (b.eval m)

/-- all examples, in merge order (receiver first) -/
def data : Expr X → List X
  | fresh => []
  | batch xs => xs
  | merge a b => a.data ++ b.data

/-- was any batch (possibly an empty one) ever fed? -/
def fed : Expr X → Bool
  | fresh => false
  | batch _ => true
  | merge a b => a.fed || b.fed

/-- the history "one accumulator fed these batches" -/
def ofFeed (bs : List (List X)) : Expr X := bs.foldl (fun e b => merge e (batch b)) fresh

/-- the history "one accumulator per shard, then `merge_states`" -/
def ofShards (shards : List (List (List X))) : Expr X :=
  match shards.map ofFeed with
  | [] => fresh
  | e :: es => es.foldl merge e

theorem eval_foldl_add (m : Mergeable X S R) (bs : List (List X)) (e : Expr X) :
    (bs.foldl (fun e b => merge e (batch b)) e).eval m = bs.foldl m.add (e.eval m) := by
  induction bs generalizing e with
  | nil => rfl
  | cons b bs ih => simp only [List.foldl_cons]; rw [ih]; rfl

theorem eval_ofFeed (m : Mergeable X S R) (bs : List (List X)) :
    (ofFeed bs).eval m = m.feed bs := by
  simp [ofFeed, Mergeable.feed, eval_foldl_add, eval]

theorem eval_foldl_merge (m : Mergeable X S R) (es : List (Expr X)) (e : Expr X) :
    (es.foldl merge e).eval m = (es.map (eval m)).foldl m.merge (e.eval m) := by
  induction es generalizing e with
  | nil => rfl
  | cons b bs ih => simp only [List.foldl_cons, List.map_cons]; rw [ih]; rfl

/-- `Mergeable.sharded` is the evaluation of the history `ofShards` -/
theorem eval_ofShards (m : Mergeable X S R) (shards : List (List (List X))) :
    (ofShards shards).eval m = m.sharded shards := by
  cases shards with
  | nil => rfl
  | cons sh rest =>
    simp only [ofShards, List.map_cons, Mergeable.sharded, Mergeable.mergeStates]
    rw [eval_foldl_merge, eval_ofFeed, List.map_map]
    congr 1
    apply List.map_congr_left
    intro a _
    exact eval_ofFeed m a

theorem data_foldl_add (bs : List (List X)) (e : Expr X) :
    (bs.foldl (fun e b => merge e (batch b)) e).data = e.data ++ bs.flatten := by
  induction bs generalizing e with
  | nil => simp
  | cons b bs ih => simp only [List.foldl_cons, List.flatten_cons]; rw [ih]; simp [data]

theorem data_ofFeed (bs : List (List X)) : (ofFeed bs).data = bs.flatten := by
  simp [ofFeed, data_foldl_add, data]

theorem data_foldl_merge (es : List (Expr X)) (e : Expr X) :
    (es.foldl merge e).data = e.data ++ (es.map data).flatten := by
  induction es generalizing e with
  | nil => simp
  | cons b bs ih => simp only [List.foldl_cons, List.map_cons, List.flatten_cons]; rw [ih]; simp [data]

theorem data_ofShards (shards : List (List (List X))) :
    (ofShards shards).data = (shards.map List.flatten).flatten := by
  cases shards with
  | nil => rfl
  | cons sh rest =>
    simp only [ofShards, List.map_cons, List.flatten_cons]
    rw [data_foldl_merge, data_ofFeed, List.map_map]
    congr 2
    apply List.map_congr_left
    intro a _
    exact data_ofFeed a

theorem fed_foldl_add (bs : List (List X)) (e : Expr X) :
    (bs.foldl (fun e b => merge e (batch b)) e).fed = (e.fed || !bs.isEmpty) := by
  induction bs generalizing e with
  | nil => simp
  | cons b bs ih => simp only [List.foldl_cons]; rw [ih]; simp [fed]

theorem fed_ofFeed (bs : List (List X)) : (ofFeed bs).fed = !bs.isEmpty := by
  simp [ofFeed, fed_foldl_add, fed]

theorem fed_foldl_merge (es : List (Expr X)) (e : Expr X) :
    (es.foldl merge e).fed = (e.fed || es.any fed) := by
  induction es generalizing e with
  | nil => simp
  | cons b bs ih => simp only [List.foldl_cons, List.any_cons]; rw [ih]; simp [fed, Bool.or_assoc]

/-- some shard received at least one batch -/
theorem fed_ofShards (shards : List (List (List X))) :
    (ofShards shards).fed = shards.any (fun sh => !sh.isEmpty) := by
  cases shards with
  | nil => rfl
  | cons sh rest =>
    simp only [ofShards, List.map_cons, List.any_cons]
    rw [fed_foldl_merge, fed_ofFeed, List.any_map]
    have : (fed ∘ ofFeed : List (List X) → Bool) = fun sh => !sh.isEmpty :=
      funext fun a => fed_ofFeed a
    rw [this]

theorem data_of_not_fed {e : Expr X} (h : e.fed = false) : e.data = [] := by
  induction e with
  | fresh => rfl
  | batch _ => simp [fed] at h
  | merge x y ihx ihy =>
    simp only [fed, Bool.or_eq_false_iff] at h
    simp [data, ihx h.1, ihy h.2]

end Expr

variable {m : Mergeable X S R} {Eqv : S → S → Prop}

/-- the canonical one-batch (or fresh) representative of a history -/
def Expr.canon (m : Mergeable X S R) (e : Expr X) : S :=
  if e.fed then m.ofBatch e.data else m.empty

/-- **Every history is equivalent to one batch** holding all its data in merge order (or to a
fresh accumulator if nothing was ever fed). -/
theorem LawfulU.eval_eqv (h : LawfulU m Eqv) (e : Expr X) : Eqv (e.eval m) (e.canon m) := by
  induction e with
  | fresh => exact h.refl _
  | batch xs => exact h.refl _
  | merge a b iha ihb =>
    have hm := h.merge_congr iha ihb
    refine h.trans hm ?_
    simp only [Expr.canon, Expr.fed, Expr.data]
    by_cases ha : a.fed = true <;> by_cases hb : b.fed = true
    · simp only [ha, hb, Bool.or_true, if_true]; exact h.hom _ _
    · simp only [Bool.not_eq_true] at hb
      simp only [ha, hb, Bool.or_false, if_true, Bool.false_eq_true, if_false]
      simpa [Expr.data_of_not_fed hb] using h.unit_right a.data
    · simp only [Bool.not_eq_true] at ha
      simp only [ha, hb, Bool.or_true, if_true, Bool.false_eq_true, if_false]
      simpa [Expr.data_of_not_fed ha] using h.unit_left b.data
    · simp only [Bool.not_eq_true] at ha hb
      simp only [ha, hb, Bool.or_false, Bool.false_eq_true, if_false]
      exact h.unit_empty

theorem LawfulU.eval_result (h : LawfulU m Eqv) (e : Expr X) :
    m.result (e.eval m) = m.result (e.canon m) := h.result_congr (h.eval_eqv e)

/-- **Order-respecting invariance**: two histories with the same data in the same merge order
(any batching, any sharding, any bracketing, fresh accumulators anywhere) have the same result. -/
theorem LawfulU.result_eq_of_data_eq (h : LawfulU m Eqv) {e₁ e₂ : Expr X}
    (hd : e₁.data = e₂.data) (hf : e₁.fed = e₂.fed) :
    m.result (e₁.eval m) = m.result (e₂.eval m) := by
  rw [h.eval_result, h.eval_result, Expr.canon, Expr.canon, hd, hf]

/-- `ofBatch` does not depend on the order of the examples -/
def PermInv (m : Mergeable X S R) (Eqv : S → S → Prop) : Prop :=
  ∀ xs ys, xs.Perm ys → Eqv (m.ofBatch xs) (m.ofBatch ys)

/-- **Any bracketing, any order**: two histories over the same *multiset* of examples have the
same result. -/
theorem LawfulU.result_eq_of_perm (h : LawfulU m Eqv) (hp : PermInv m Eqv) {e₁ e₂ : Expr X}
    (hd : e₁.data.Perm e₂.data) (hf : e₁.fed = e₂.fed) :
    m.result (e₁.eval m) = m.result (e₂.eval m) := by
  rw [h.eval_result, h.eval_result, Expr.canon, Expr.canon, hf]
  cases e₂.fed
  · rfl
  · exact h.result_congr (hp _ _ hd)

/-- sharded evaluation, for metrics whose fresh state is only a unit -/
theorem LawfulU.sharded_eqv (h : LawfulU m Eqv) (shards : List (List (List X))) :
    Eqv (m.sharded shards)
      (if shards.any (fun sh => !sh.isEmpty) then m.ofBatch (shards.map List.flatten).flatten
       else m.empty) := by
  have := h.eval_eqv (Expr.ofShards shards)
  rwa [Expr.eval_ofShards, Expr.canon, Expr.fed_ofShards, Expr.data_ofShards] at this

/-- Reachable states (what "states produced from arbitrary data" means in C11). -/
def Reach (m : Mergeable X S R) (s : S) : Prop := ∃ e : Expr X, e.eval m = s

theorem LawfulU.assoc (h : LawfulU m Eqv) {a b c : S} (ha : Reach m a) (hb : Reach m b)
    (hc : Reach m c) : Eqv (m.merge (m.merge a b) c) (m.merge a (m.merge b c)) := by
  obtain ⟨ea, rfl⟩ := ha; obtain ⟨eb, rfl⟩ := hb; obtain ⟨ec, rfl⟩ := hc
  have h1 := h.eval_eqv ((ea.merge eb).merge ec)
  have h2 := h.eval_eqv (ea.merge (eb.merge ec))
  have : ((ea.merge eb).merge ec).canon m = (ea.merge (eb.merge ec)).canon m := by
    simp [Expr.canon, Expr.fed, Expr.data, Bool.or_assoc, List.append_assoc]
  rw [this] at h1
  exact h.trans h1 (h.symm h2)

theorem LawfulU.comm (h : LawfulU m Eqv) (hp : PermInv m Eqv) {a b : S} (ha : Reach m a)
    (hb : Reach m b) : Eqv (m.merge a b) (m.merge b a) := by
  obtain ⟨ea, rfl⟩ := ha; obtain ⟨eb, rfl⟩ := hb
  have h1 := h.eval_eqv (ea.merge eb)
  have h2 := h.eval_eqv (eb.merge ea)
  refine h.trans h1 (h.trans ?_ (h.symm h2))
  simp only [Expr.canon, Expr.fed, Expr.data, Bool.or_comm eb.fed]
  by_cases hf : (ea.fed || eb.fed) = true
  · simp only [hf, if_true]; exact hp _ _ List.perm_append_comm
  · simp only [hf, if_false]; exact h.refl _

theorem LawfulU.merge_fresh_left (h : LawfulU m Eqv) {a : S} (ha : Reach m a) :
    Eqv (m.merge m.empty a) a := by
  obtain ⟨ea, rfl⟩ := ha
  have h1 := h.eval_eqv (Expr.fresh.merge ea)
  have h2 := h.eval_eqv ea
  refine h.trans h1 (h.trans ?_ (h.symm h2))
  simp only [Expr.canon, Expr.fed, Expr.data, Bool.false_or, List.nil_append]
  exact h.refl _

theorem LawfulU.merge_fresh_right (h : LawfulU m Eqv) {a : S} (ha : Reach m a) :
    Eqv (m.merge a m.empty) a := by
  obtain ⟨ea, rfl⟩ := ha
  have h1 := h.eval_eqv (ea.merge Expr.fresh)
  have h2 := h.eval_eqv ea
  refine h.trans h1 (h.trans ?_ (h.symm h2))
  simp only [Expr.canon, Expr.fed, Expr.data, Bool.or_false, List.append_nil]
  exact h.refl _

end MlModel.Agg
