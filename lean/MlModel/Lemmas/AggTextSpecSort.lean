import MlModel.Lemmas.AggTextSort
import MlModel.Model.Spec.Text
/-!
# The specification's insertion sort and `sorted(...)` agree

`Spec.Text.before` is the sort key `(-freq, key)` of `FrequencyState.result`; an insertion sort and a
merge sort by a total order produce the same list from permutations of the same rows.
-/
namespace MlModel.Agg.Text

theorem alphaLe_eq_strLe : ∀ a b : Str, Spec.Text.alphaLe a b = strLe a b
  | [], _ => by simp [Spec.Text.alphaLe, strLe]
  | _ :: _, [] => by simp [Spec.Text.alphaLe, strLe]
  | a :: as, b :: bs => by
    simp only [Spec.Text.alphaLe, strLe]
    by_cases h : a = b
    · subst h
      simp [alphaLe_eq_strLe as bs]
    · have : (a < b) ↔ a.toNat < b.toNat := by
        rw [Char.lt_def, UInt32.lt_iff_toNat_lt]; rfl
      simp [h, this]

theorem before_eq_rowLe (a b : Str × Rat) : Spec.Text.before a b = rowLe strLe a b := by
  simp only [Spec.Text.before, rowLe, alphaLe_eq_strLe]
  by_cases h : a.2 = b.2
  · simp [h]
  · simp [h]

theorem before_iff (a b : Str × Rat) : Spec.Text.before a b = true ↔ rowLe strLe a b = true := by
  rw [before_eq_rowLe]

theorem insertSorted_perm (x : Str × Rat) (l : List (Str × Rat)) :
    (Spec.Text.insertSorted x l).Perm (x :: l) := by
  induction l with
  | nil => simp [Spec.Text.insertSorted]
  | cons y ys ih =>
    simp only [Spec.Text.insertSorted]
    split
    · exact List.Perm.refl _
    · exact (List.Perm.cons y ih).trans (List.Perm.swap x y ys)

theorem isort_perm (l : List (Str × Rat)) : (Spec.Text.isort l).Perm l := by
  induction l with
  | nil => simp [Spec.Text.isort]
  | cons x xs ih =>
    simp only [Spec.Text.isort]
    exact (insertSorted_perm x _).trans (List.Perm.cons x ih)

theorem insertSorted_pairwise (x : Str × Rat) (l : List (Str × Rat))
    (h : l.Pairwise fun a b => rowLe strLe a b = true) :
    (Spec.Text.insertSorted x l).Pairwise fun a b => rowLe strLe a b = true := by
  induction l with
  | nil => simp [Spec.Text.insertSorted]
  | cons y ys ih =>
    simp only [Spec.Text.insertSorted]
    rw [List.pairwise_cons] at h
    split
    · rename_i hb
      rw [before_iff] at hb
      rw [List.pairwise_cons]
      refine ⟨?_, List.pairwise_cons.mpr h⟩
      intro z hz
      rcases List.mem_cons.mp hz with rfl | hz
      · exact hb
      · exact rowLe_trans strLe_keyOrder _ _ _ hb (h.1 z hz)
    · rename_i hb
      have hyx : rowLe strLe y x = true := by
        rcases Bool.or_eq_true _ _ |>.mp (rowLe_total strLe_keyOrder x y) with h1 | h1
        · exact absurd ((before_iff x y).mpr h1) hb
        · exact h1
      rw [List.pairwise_cons]
      refine ⟨?_, ih h.2⟩
      intro z hz
      rcases List.mem_cons.mp ((insertSorted_perm x ys).mem_iff.mp hz) with rfl | hz
      · exact hyx
      · exact h.1 z hz

theorem isort_pairwise (l : List (Str × Rat)) :
    (Spec.Text.isort l).Pairwise fun a b => rowLe strLe a b = true := by
  induction l with
  | nil => simp [Spec.Text.isort]
  | cons x xs ih => exact insertSorted_pairwise x _ ih

/-- insertion sort of the specification = `sorted` of the implementation, on permuted inputs -/
theorem mergeSort_eq_isort {l r : List (Str × Rat)} (h : r.Perm l) :
    l.mergeSort (rowLe strLe) = Spec.Text.isort r :=
  (eq_sort_of_sorted_perm strLe_keyOrder (isort_pairwise r) ((isort_perm r).trans h)).symm

theorem distinct_mem (l : List Str) (a : Str) : a ∈ Spec.Text.distinct l ↔ a ∈ l := by
  induction l with
  | nil => simp [Spec.Text.distinct]
  | cons b rest ih =>
    simp only [Spec.Text.distinct]
    by_cases h : b ∈ rest
    · simp only [h, if_true, ih, List.mem_cons]
      constructor
      · exact Or.inr
      · rintro (rfl | h')
        · exact h
        · exact h'
    · simp [h, ih]

theorem distinct_nodup (l : List Str) : (Spec.Text.distinct l).Nodup := by
  induction l with
  | nil => simp [Spec.Text.distinct]
  | cons b rest ih =>
    simp only [Spec.Text.distinct]
    by_cases h : b ∈ rest
    · simpa [h] using ih
    · simp [h, ih, distinct_mem]

end MlModel.Agg.Text
